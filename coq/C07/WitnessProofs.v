(* C07 — closed worlds: lemmas for finite upstreams, the guarded forms of the chain statements,
   and the concrete witnesses (taken from cases the harness confirmed on the real validator). *)
From HV Require Import Lib.Base C07.Model C07.ChainProofs C07.GenuineProofs.
Open Scope N_scope.

Lemma table_upstream_in : forall tbl q, table_upstream tbl q = UErr \/ exists q', In (q', table_upstream tbl q) tbl.
Proof.
  induction tbl as [|[q0 r0] tbl IH]; intros q; cbn [table_upstream]; [now left|].
  destruct (query_eqb q q0).
  - right. exists q0. now left.
  - destruct (IH q) as [H|(q' & H)]; [now left|right; exists q'; now right].
Qed.

Lemma table_delivered : forall tbl sec, Delivered (table_upstream tbl) sec -> In sec (all_sections tbl).
Proof.
  intros tbl sec (q & m & Hm & Hs). destruct (table_upstream_in tbl q) as [E|(q' & Hin)].
  - rewrite E in Hm. discriminate.
  - unfold all_sections. apply in_flat_map. exists (q', table_upstream tbl q). split; [exact Hin|].
    cbn [snd]. rewrite Hm. destruct Hs as [->| ->]; cbn; auto.
Qed.

Lemma tbs_eqb_refl : forall t, tbs_eqb t t = true.
Proof.
  intros t. unfold tbs_eqb. rewrite !N.eqb_refl, !name_eqb_refl. cbn [andb].
  reflexivity.
Qed.

Lemma SigOk_set_signed : forall now k recs kr s, SigOk now k recs kr s -> set_signed_b now k recs s = true.
Proof.
  intros now k recs kr s H. inversion H as [kid pk alg tag tc labels ottl exp inc n Ekr Es Hl Hi He Hn Hne].
  unfold set_signed_b. rewrite Es, Hn. apply tbs_eqb_refl.
Qed.

Lemma table_upstream_in' : forall tbl q,
  table_upstream tbl q = UErr \/ In (q, table_upstream tbl q) tbl.
Proof.
  induction tbl as [|[q0 r0] tbl IH]; intros q; cbn [table_upstream]; [now left|].
  destruct (query_eqb q q0) eqn:E.
  - right. apply key_eqb_eq in E. subst. now left.
  - destruct (IH q) as [H|H]; [now left|right; now right].
Qed.

Lemma no_material_b : forall tbl,
  forallb (fun sec => forallb (fun x => negb (denial_material x)) sec) (all_sections tbl) = true ->
  forall sec x, Delivered (table_upstream tbl) sec -> In x sec -> denial_material x = false.
Proof.
  intros tbl H sec x Hd Hx. apply table_delivered in Hd.
  rewrite forallb_forall in H. specialize (H sec Hd). rewrite forallb_forall in H. specialize (H x Hx).
  now apply negb_true_iff in H.
Qed.

Definition ds_answer_ok (e : query * ureply) : bool :=
  negb (snd (fst e) =? T_DS) ||
  match msg_of (snd e) with
  | Some m => match ans m with [] => true | _ => existsb is_ds (ans m) end
  | None => true
  end.

Lemma ds_answers_b : forall tbl, forallb ds_answer_ok tbl = true ->
  forall q m, msg_of (table_upstream tbl q) = Some m -> snd q = T_DS -> ans m = [] \/ existsb is_ds (ans m) = true.
Proof.
  intros tbl H q m Hm Hq. destruct (table_upstream_in' tbl q) as [E|Hin]; [rewrite E in Hm; discriminate|].
  rewrite forallb_forall in H. specialize (H _ Hin). unfold ds_answer_ok in H. cbn [fst snd] in H.
  rewrite Hq, N.eqb_refl, Hm in H. cbn [negb orb] in H. destruct (ans m); [now left|now right].
Qed.

Section Guarded.
  Variable U : query -> ureply.
  Variable anchors : list N.
  Variable now : N.

  Lemma auth_set_signed : forall r, Auth U anchors now r -> is_key r = false -> SetSigned U now r.
  Proof.
    intros r H Hk. inversion H as [kr Hkk Ha|kr d Hd Hv|r0 k sec s kr Hsec Hr Hs Hkr Hok Hzo]; subst.
    - congruence.
    - inversion Hv. unfold is_key in Hk. rewrite H0 in Hk. discriminate.
    - exists sec, k, s, kr. auto.
  Qed.

  (* an authenticated record that is not a key was delivered in an RRset with a signature that
     verifies under an authenticated key of the zone named as signer, and that zone is the owner
     of the record or an ancestor of it *)
  Definition ZoneSigned (r : rr) : Prop :=
    exists sec k s kr, Delivered U sec /\ In r (recs_of k sec) /\ In s (sigs_of k sec) /\
      SigOk now k (recs_of k sec) kr s /\ Auth U anchors now kr /\
      sig_signer s = owner kr /\ zone_of (owner kr) (owner r) = true.

  Lemma auth_zone_signed : forall r, Auth U anchors now r -> is_key r = false -> ZoneSigned r.
  Proof.
    intros r H Hk. inversion H as [kr Hkk Ha|kr d Hd Hv|r0 k sec s kr Hsec Hr Hs Hkr Hok Hzo]; subst.
    - congruence.
    - inversion Hv. unfold is_key in Hk. rewrite H0 in Hk. discriminate.
    - apply recs_of_In in Hr as Hr'. destruct Hr' as (Hrs & Hkr' & _).
      exists sec, k, s, kr. repeat split; auto.
      + inversion Hok as [kid pk alg tag tc labels ottl exp inc n Ekr Es Hl Hi He Hn Hne].
        unfold sig_signer. rewrite Es. reflexivity.
      + rewrite <- Hkr' in Hzo. exact Hzo.
  Qed.

  Lemma auth_home_signed : forall r, Auth U anchors now r -> is_key r = false -> HomeSigned U r.
  Proof.
    intros r H Hk. destruct (auth_zone_signed r H Hk) as (sec & k & s & kr & Hsec & Hr & Hs & Hok & _ & Esg & Hzo).
    apply recs_of_In in Hr as Hr'. destruct Hr' as (Hrs & Hkr' & _).
    exists sec, s. repeat split; auto.
    - now rewrite Hkr'.
    - now rewrite Esg.
  Qed.
End Guarded.

Lemma no_denial_material : forall tbl,
  forallb (fun sec => forallb (fun x => negb (denial_material x)) sec) (all_sections tbl) = true ->
  ~ DenialMaterial (table_upstream tbl).
Proof.
  intros tbl H (sec & x & Hd & Hx & Hm). apply table_delivered in Hd.
  rewrite forallb_forall in H. specialize (H sec Hd). rewrite forallb_forall in H. specialize (H x Hx).
  rewrite Hm in H. discriminate.
Qed.

(* ------------------------------------------------------------------ *)
(* Witnesses                                                           *)
(* ------------------------------------------------------------------ *)

Definition no_nsec : query -> N -> list vrr -> list vrr -> list nat -> proof := fun _ _ _ _ _ => Indet.
Definition run_tbl (tbl : list (query * ureply)) (anchors : list N) (now : N) (q : query) : vres :=
  validate (table_upstream tbl) anchors now 26 no_nsec no_nsec (fun l => l) q.

(* W1: a DNSKEY response that lost its DNSKEY record but kept the RRSIG: before /repo fed49c5 the
   validator panicked here (finding C07-K1, fixed); now the orphan signature is merely not marked *)
Definition w1_tbl : list (query * ureply) :=
  [(([], T_DNSKEY), UOk (mkResp 0 [mkRR [] 1 (BSig 48 15 0 3600 20 5 7 [] SBad)] []))].

Lemma w1_no_panic : exists rc a au, run_tbl w1_tbl [1] 10 ([], T_DNSKEY) = VOk rc a au.
Proof. eexists _, _, _. vm_compute. reflexivity. Qed.

(* W2 (harness: seed 1 index 287, hierarchy 1): root, tld, leaf.tld all signed; the response to
   (tld, DS) lost its DS record (the RRSIG stayed).  Query (leaf.tld, DS). *)
Definition w2_tbl : list (query * ureply) :=
  [([], 48, UOk {| rcode := 0; ans := [{| owner := []; rid := 1; rbody := BKey 1 1 15 65321 true false |}; {| owner := []; rid := 2; rbody := BKey 2 2 15 48940 true false |}; {| owner := []; rid := 3; rbody := BSig 48 15 0 3600 1700604800 1699996400 65321 [] (SGen 1 {| t_owner := []; t_type := 48; t_labels := 0; t_ottl := 3600; t_alg := 15; t_exp := 1700604800; t_inc := 1699996400; t_tag := 65321; t_signer := []; t_rids := [1; 2] |}) |}]; auth := [] |});
   ([2; 1], 43, UOk {| rcode := 0; ans := [{| owner := [2; 1]; rid := 4; rbody := BDs 48622 15 2 (DGen [2; 1] 5) |}; {| owner := [2; 1]; rid := 6; rbody := BSig 43 15 2 3600 1700604800 1699996400 26577 [1] (SGen 3 {| t_owner := [2; 1]; t_type := 43; t_labels := 2; t_ottl := 3600; t_alg := 15; t_exp := 1700604800; t_inc := 1699996400; t_tag := 26577; t_signer := [1]; t_rids := [4] |}) |}]; auth := [] |});
   ([1], 43, UOk {| rcode := 0; ans := [{| owner := [1]; rid := 7; rbody := BSig 43 15 1 3600 1700604800 1699996400 48940 [] (SGen 2 {| t_owner := [1]; t_type := 43; t_labels := 1; t_ottl := 3600; t_alg := 15; t_exp := 1700604800; t_inc := 1699996400; t_tag := 48940; t_signer := []; t_rids := [8] |}) |}]; auth := [] |});
   ([1], 48, UOk {| rcode := 0; ans := [{| owner := [1]; rid := 9; rbody := BKey 9 4 15 61840 true false |}; {| owner := [1]; rid := 10; rbody := BKey 10 3 15 26577 true false |}; {| owner := [1]; rid := 11; rbody := BSig 48 15 1 3600 1700604800 1699996400 61840 [1] (SGen 4 {| t_owner := [1]; t_type := 48; t_labels := 1; t_ottl := 3600; t_alg := 15; t_exp := 1700604800; t_inc := 1699996400; t_tag := 61840; t_signer := [1]; t_rids := [9; 10] |}) |}]; auth := [] |})].
Definition w2_ds : rr := {| owner := [2; 1]; rid := 4; rbody := BDs 48622 15 2 (DGen [2; 1] 5) |}.

Lemma w2_insecure : exists rc a au, run_tbl w2_tbl [1] 1700000000 ([2; 1], T_DS) = VOk rc a au /\ In (w2_ds, Insecure) a.
Proof. eexists _, _, _. split; [vm_compute; reflexivity|]. cbn. auto. Qed.

Lemma w2_no_denial_material : ~ DenialMaterial (table_upstream w2_tbl).
Proof. apply no_denial_material. vm_compute. reflexivity. Qed.

(* W3 (harness attack script atk-foreign-signer, hierarchy 0, e.g. replay 1:509): the answer to (www.leaf.tld, A) is replaced by a
   forged A record with an RRSIG really made by the key of the sibling zone evil.tld, signer
   name evil.tld.  Labels: tld = 1, leaf = 2, evil = 4, www = 6.
   Before the fix of finding C07-K3 the forged record came back Secure; now the RRSIG is not used
   (its signer is not the owner or an ancestor of the owner) and the record is Bogus. *)
Definition w3_tbl : list (query * ureply) :=
  [([], 48, UOk {| rcode := 0; ans := [{| owner := []; rid := 1; rbody := BKey 1 1 15 65321 true false |}; {| owner := []; rid := 2; rbody := BSig 48 15 0 3600 1700604800 1699996400 65321 [] (SGen 1 {| t_owner := []; t_type := 48; t_labels := 0; t_ottl := 3600; t_alg := 15; t_exp := 1700604800; t_inc := 1699996400; t_tag := 65321; t_signer := []; t_rids := [1] |}) |}]; auth := [] |});
   ([4; 1], 43, UOk {| rcode := 0; ans := [{| owner := [4; 1]; rid := 3; rbody := BDs 26578 15 2 (DGen [4; 1] 4) |}; {| owner := [4; 1]; rid := 5; rbody := BSig 43 15 2 3600 1700604800 1699996400 48941 [1] (SGen 2 {| t_owner := [4; 1]; t_type := 43; t_labels := 2; t_ottl := 3600; t_alg := 15; t_exp := 1700604800; t_inc := 1699996400; t_tag := 48941; t_signer := [1]; t_rids := [3] |}) |}]; auth := [] |});
   ([4; 1], 48, UOk {| rcode := 0; ans := [{| owner := [4; 1]; rid := 4; rbody := BKey 4 3 15 26578 true false |}; {| owner := [4; 1]; rid := 6; rbody := BSig 48 15 2 3600 1700604800 1699996400 26578 [4; 1] (SGen 3 {| t_owner := [4; 1]; t_type := 48; t_labels := 2; t_ottl := 3600; t_alg := 15; t_exp := 1700604800; t_inc := 1699996400; t_tag := 26578; t_signer := [4; 1]; t_rids := [4] |}) |}]; auth := [] |});
   ([1], 43, UOk {| rcode := 0; ans := [{| owner := [1]; rid := 7; rbody := BDs 48941 15 2 (DGen [1] 8) |}; {| owner := [1]; rid := 9; rbody := BSig 43 15 1 3600 1700604800 1699996400 65321 [] (SGen 1 {| t_owner := [1]; t_type := 43; t_labels := 1; t_ottl := 3600; t_alg := 15; t_exp := 1700604800; t_inc := 1699996400; t_tag := 65321; t_signer := []; t_rids := [7] |}) |}]; auth := [] |});
   ([1], 48, UOk {| rcode := 0; ans := [{| owner := [1]; rid := 8; rbody := BKey 8 2 15 48941 true false |}; {| owner := [1]; rid := 10; rbody := BSig 48 15 1 3600 1700604800 1699996400 48941 [1] (SGen 2 {| t_owner := [1]; t_type := 48; t_labels := 1; t_ottl := 3600; t_alg := 15; t_exp := 1700604800; t_inc := 1699996400; t_tag := 48941; t_signer := [1]; t_rids := [8] |}) |}]; auth := [] |});
   ([6; 2; 1], 1, UOk {| rcode := 0; ans := [{| owner := [6; 2; 1]; rid := 11; rbody := BPlain 1 |}; {| owner := [6; 2; 1]; rid := 12; rbody := BSig 1 15 3 3600 1700086400 1699999940 26578 [4; 1] (SGen 3 {| t_owner := [6; 2; 1]; t_type := 1; t_labels := 3; t_ottl := 3600; t_alg := 15; t_exp := 1700086400; t_inc := 1699999940; t_tag := 26578; t_signer := [4; 1]; t_rids := [11] |}) |}]; auth := [] |})].
Definition w3_forged : rr := {| owner := [6; 2; 1]; rid := 11; rbody := BPlain 1 |}.

Lemma w3_rejected : exists rc a au, run_tbl w3_tbl [1] 1700000000 ([6; 2; 1], 1) = VOk rc a au /\
  In (w3_forged, Bogus) a /\ forall r, ~ In (r, Secure) (a ++ au).
Proof.
  eexists _, _, _. split; [vm_compute; reflexivity|]. split; [cbn; auto|].
  intros r Hin. cbn in Hin. repeat (destruct Hin as [Hin|Hin]; [discriminate|]). exact Hin.
Qed.

Lemma w3_not_home_signed : ~ HomeSigned (table_upstream w3_tbl) w3_forged.
Proof.
  intros (sec & s & Hd & Hr & Hs & Hz). apply table_delivered in Hd.
  cbn in Hd.
  repeat (destruct Hd as [<-|Hd]; [cbn in Hr; repeat (destruct Hr as [Hr|Hr]; [try discriminate|]); try contradiction|]);
    try contradiction.
  vm_compute in Hs. destruct Hs as [<-|[]]. vm_compute in Hz. discriminate.
Qed.

(* W4 (harness: seed 1 index 2889, hierarchy 1): the DNSKEY RRset of leaf.tld lost its ZSK
   (rid 8); only the KSK (rid 5), which the parent's DS covers, is left; the RRSIG over the
   real set {5, 8} no longer verifies, yet the remaining record is Secure *)
Definition w4_tbl : list (query * ureply) :=
  [([], 48, UOk {| rcode := 0; ans := [{| owner := []; rid := 1; rbody := BKey 1 1 15 65321 true false |}; {| owner := []; rid := 2; rbody := BKey 2 2 15 48940 true false |}; {| owner := []; rid := 3; rbody := BSig 48 15 0 3600 1700604800 1699996400 65321 [] (SGen 1 {| t_owner := []; t_type := 48; t_labels := 0; t_ottl := 3600; t_alg := 15; t_exp := 1700604800; t_inc := 1699996400; t_tag := 65321; t_signer := []; t_rids := [1; 2] |}) |}]; auth := [] |});
   ([2; 1], 43, UOk {| rcode := 0; ans := [{| owner := [2; 1]; rid := 4; rbody := BDs 48622 15 2 (DGen [2; 1] 5) |}; {| owner := [2; 1]; rid := 6; rbody := BSig 43 15 2 3600 1700604800 1699996400 26577 [1] (SGen 3 {| t_owner := [2; 1]; t_type := 43; t_labels := 2; t_ottl := 3600; t_alg := 15; t_exp := 1700604800; t_inc := 1699996400; t_tag := 26577; t_signer := [1]; t_rids := [4] |}) |}]; auth := [] |});
   ([2; 1], 48, UOk {| rcode := 0; ans := [{| owner := [2; 1]; rid := 5; rbody := BKey 5 4 15 48622 true false |}; {| owner := [2; 1]; rid := 7; rbody := BSig 48 15 2 3600 1700604800 1699996400 48622 [2; 1] (SGen 4 {| t_owner := [2; 1]; t_type := 48; t_labels := 2; t_ottl := 3600; t_alg := 15; t_exp := 1700604800; t_inc := 1699996400; t_tag := 48622; t_signer := [2; 1]; t_rids := [5; 8] |}) |}]; auth := [] |});
   ([1], 43, UOk {| rcode := 0; ans := [{| owner := [1]; rid := 9; rbody := BDs 61840 15 2 (DGen [1] 10) |}; {| owner := [1]; rid := 11; rbody := BSig 43 15 1 3600 1700604800 1699996400 48940 [] (SGen 2 {| t_owner := [1]; t_type := 43; t_labels := 1; t_ottl := 3600; t_alg := 15; t_exp := 1700604800; t_inc := 1699996400; t_tag := 48940; t_signer := []; t_rids := [9] |}) |}]; auth := [] |});
   ([1], 48, UOk {| rcode := 0; ans := [{| owner := [1]; rid := 10; rbody := BKey 10 5 15 61840 true false |}; {| owner := [1]; rid := 12; rbody := BKey 12 3 15 26577 true false |}; {| owner := [1]; rid := 13; rbody := BSig 48 15 1 3600 1700604800 1699996400 61840 [1] (SGen 5 {| t_owner := [1]; t_type := 48; t_labels := 1; t_ottl := 3600; t_alg := 15; t_exp := 1700604800; t_inc := 1699996400; t_tag := 61840; t_signer := [1]; t_rids := [10; 12] |}) |}]; auth := [] |})].
Definition w4_key : rr := {| owner := [2; 1]; rid := 5; rbody := BKey 5 4 15 48622 true false |}.

Lemma w4_secure : exists rc a au, run_tbl w4_tbl [1] 1700000000 ([2; 1], T_DNSKEY) = VOk rc a au /\ In (w4_key, Secure) a.
Proof. eexists _, _, _. split; [vm_compute; reflexivity|]. cbn. auto. Qed.

Lemma w4_not_set_signed : ~ SetSigned (table_upstream w4_tbl) 1700000000 w4_key.
Proof.
  intros (sec & k & s & kr & Hd & Hr & Hs & Hok). apply table_delivered in Hd.
  apply SigOk_set_signed in Hok. apply recs_of_In in Hr. destruct Hr as (Hr & <- & _).
  cbn in Hd.
  repeat (destruct Hd as [<-|Hd]; [cbn in Hr; repeat (destruct Hr as [Hr|Hr]; [try discriminate|]); try contradiction|]);
    try contradiction.
  vm_compute in Hs. destruct Hs as [<-|[]]. vm_compute in Hok. discriminate.
Qed.
