(* C19 — basic lemmas: names, filters, lookup, stub chase *)
From HV Require Import Lib.Base C19.Model.
Open Scope N_scope.

Lemma is_prefix_spec p c : is_prefix p c = true <-> exists s, c = p ++ s.
Proof.
  revert c; induction p as [|x p IH]; intros c; cbn [is_prefix].
  - split; [intros _; exists c; reflexivity|reflexivity].
  - destruct c as [|y c].
    + split; [discriminate|intros [s Hs]; discriminate].
    + rewrite andb_true_iff, N.eqb_eq, IH. split.
      * intros [-> [s ->]]. exists s. reflexivity.
      * intros [s Hs]. cbn [app] in Hs. inversion Hs; subst. split; [reflexivity|exists s; reflexivity].
Qed.

Lemma is_prefix_refl p : is_prefix p p = true.
Proof. apply is_prefix_spec. exists []. now rewrite app_nil_r. Qed.

Lemma is_prefix_trans a b c : is_prefix a b = true -> is_prefix b c = true -> is_prefix a c = true.
Proof.
  rewrite !is_prefix_spec. intros [s ->] [t ->]. exists (s ++ t). now rewrite app_assoc.
Qed.

Lemma is_prefix_nil c : is_prefix [] c = true.
Proof. reflexivity. Qed.

Lemma name_eqb_eq a b : name_eqb a b = true <-> a = b.
Proof. apply list_eqb_eq. intros; apply N.eqb_eq. Qed.

Lemma name_eqb_refl a : name_eqb a a = true.
Proof. now apply name_eqb_eq. Qed.

Lemma removelast_prefix (n : name) : is_prefix (removelast n) n = true.
Proof.
  apply is_prefix_spec. destruct n as [|x n] using rev_ind.
  - exists []. reflexivity.
  - rewrite removelast_last. exists [x]. reflexivity.
Qed.

Lemma firstn_prefix (n : name) i : is_prefix (firstn i n) n = true.
Proof. apply is_prefix_spec. exists (skipn i n). symmetry. apply firstn_skipn. Qed.

Lemma filter_In_fwd {A} (f : A -> bool) l x : In x (filter f l) -> In x l /\ f x = true.
Proof. apply filter_In. Qed.

Section Net.
Variable net : ip -> query -> msg.
Variable choose : list ip -> query -> option ip.
Variable c : cfg.

(* what [lookup] returns and caches lies inside the zone it was given *)
Lemma lookup_in_zone q zone p s s' m :
  lookup net choose c q zone p s = (s', inl m) ->
  forall r, In r (all_sections m) -> is_subzone zone (owner r) = true.
Proof.
  unfold lookup. destruct (send net choose c p q s) as [s1 [m0|e]] eqn:Es; [|discriminate].
  match goal with |- context [if ?b then _ else _] => destruct b end; [discriminate|].
  intros H; inversion H; subst; clear H. intros r Hr. unfold all_sections in Hr; cbn [an au ad] in Hr.
  rewrite !in_app_iff in Hr. destruct Hr as [Hr|[Hr|Hr]]; apply filter_In in Hr; apply Hr.
Qed.

End Net.

(* ------------------------------------------------------------------------------------------ *)
(* stub resolver chase *)

Lemma stub_chase_fuel up : forall fuel q d,
  (N.to_nat MAX_QUERY_DEPTH <= fuel + N.to_nat d)%nat -> (0 < fuel)%nat ->
  exists l r, stub_chase fuel up q d = Some (l, r) /\ (length l + N.to_nat d <= N.to_nat MAX_QUERY_DEPTH \/ length l = 1)%nat.
Proof.
  induction fuel as [|f IH]; intros q d Hf Hpos; [lia|].
  cbn [stub_chase]. destruct (up q) as [|t|].
  - exists [q], SAnswer. split; [reflexivity|right; reflexivity].
  - destruct (is_exhausted d) eqn:Ex.
    + exists [q], SNoRecords. split; [reflexivity|right; reflexivity].
    + unfold is_exhausted, MAX_QUERY_DEPTH in *. apply N.leb_gt in Ex.
      assert (Hf' : (N.to_nat 8 <= f + N.to_nat (d + 1))%nat) by lia.
      assert (Hp' : (0 < f)%nat) by lia.
      destruct (IH (t, snd q) (d + 1) Hf' Hp') as (l & r & E & Hl). rewrite E.
      exists (q :: l), r. split; [reflexivity|]. cbn [length]. left. destruct Hl as [Hl|Hl]; lia.
  - exists [q], SNoRecords. split; [reflexivity|right; reflexivity].
Qed.
