(* C19 — invariant machinery, part 3: alias chase and the whole resolution *)
From HV Require Import Lib.Base C19.Model C19.BaseProofs C19.InvBase C19.InvWalk.
Open Scope N_scope.

Lemma walk_bound_S w k : (walk_bound w k <= walk_bound w (S k))%nat.
Proof.
  induction k as [|k IH]; [cbn; lia|].
  destruct k as [|k]; [cbn; lia|].
  rewrite (walk_bound_step w (S (S (S k)))) by lia. rewrite (walk_bound_step w (S (S k))) by lia.
  replace (S (S (S k)) - 1)%nat with (S (S k)) by lia. replace (S (S k) - 1)%nat with (S k) by lia. nia.
Qed.

Lemma walk_bound_mono w k k' : (k <= k')%nat -> (walk_bound w k <= walk_bound w k')%nat.
Proof.
  induction 1 as [|k' _ IH]; [lia|]. pose proof (walk_bound_S w k'). lia.
Qed.

Section Net.
Variable net : ip -> query -> msg.
Variable choose : list ip -> query -> option ip.
Variable c : cfg.
Variable W : option nat.
Hypothesis Hchoose : forall l q a, choose l q = Some a -> In a l.
Hypothesis HW : forall a q, wbound W (net a q).

Local Notation LegitN := (Legit net).
Local Notation PoolOKN := (PoolOK net c false).
Local Notation msg_legitN := (msg_legit net c).
Local Notation InvN := (Inv net c W false).
Local Notation postN := (post net c W).
Local Notation rerr_originN := (rerr_origin net).
Local Notation wvN := (wv W).
Local Notation UN := (U c W).

(* queries of one zone walk from depth 0, plus the final one *)
Definition UU1 : nat := S (UN 0).

Lemma U_le d : (UN d <= UN 0)%nat.
Proof. unfold U. apply walk_bound_mono. lia. Qed.

Definition nev (s : st) : nat := length (evs s).
Definition cnn (s : st) : nat := N.to_nat (cn s).

(* counting: new upstream queries are paid for by the alias counter; [slack] = 1 for a whole
   resolution (its own walk + final query), 0 for the alias loop alone *)
Definition counted (slack : nat) (s s' : st) : Prop :=
  cn s <= cn s' /\
  (W <> None -> (nev s' + UU1 * cnn s <= nev s + UU1 * (slack + cnn s'))%nat).

Definition res_post (slack : nat) (s : st) (r : res msg) : Prop :=
  match r with
  | Done s' m => InvN s' /\ incl (evs s) (evs s') /\ msg_legitN (evs s') m /\
                 counted slack s s' /\ (cn s <= 64 -> cn s' <= 64)
  | Fail s' e => InvN s' /\ incl (evs s) (evs s') /\ rerr_originN (evs s') e /\
                 counted slack s s' /\ (cn s <= 64 -> cn s' <= 65)
  | OutOfFuel => True
  end.

Definition recs_ok (es : list event) (l : list rr) : Prop :=
  forall x, In x l -> LegitN es x /\ ans_ok c x = true.

Lemma recs_ok_mono es es' l : incl es es' -> recs_ok es l -> recs_ok es' l.
Proof. intros Hi H x Hx. destruct (H x Hx). split; [eapply Legit_mono; eauto|assumption]. Qed.

Definition cstep_post (s : st) (r : cstep) : Prop :=
  match r with
  | CNext add s' => InvN s' /\ incl (evs s) (evs s') /\ recs_ok (evs s') add /\
                    counted 0 s s' /\ (cn s <= 64 -> cn s' <= 64)
  | CStop s' e => InvN s' /\ incl (evs s) (evs s') /\ rerr_originN (evs s') e /\
                  counted 0 s s' /\ (cn s <= 64 -> cn s' <= 65)
  | CFuel => True
  end.

Lemma counted_refl s : counted 0 s s.
Proof. split; [lia|intros _; lia]. Qed.

Lemma counted_trans a b s s1 s2 : counted a s s1 -> counted b s1 s2 -> counted (a + b) s s2.
Proof. intros (A1 & A2) (B1 & B2). split; [lia|]. intros Hw. specialize (A2 Hw). specialize (B2 Hw). nia. Qed.

Lemma cname_step_inv rec ans qt depth r s :
  (forall q s0, InvN s0 -> res_post 1 s0 (rec q depth s0)) ->
  InvN s -> cstep_post s (cname_step rec ans qt depth r s).
Proof.
  intros Hrec Hi. unfold cname_step.
  assert (Hnoop : cstep_post s (CNext [] s)).
  { cbn [cstep_post]. split; [exact Hi|]. split; [apply incl_refl|]. split; [intros x []|].
    split; [apply counted_refl|auto]. }
  destruct (rdat r) as [a|a|t|t| |ty]; try exact Hnoop.
  destruct (existsb (fun a => name_eqb (owner a) t) ans); [exact Hnoop|].
  destruct (MAX_CNAME_LOOKUPS <? cn s + 1) eqn:El.
  - cbn [cstep_post]. split; [exact Hi|]. split; [apply incl_refl|].
    split; [apply rerr_origin_nil; reflexivity|].
    unfold counted, nev, cnn, set_cn; cbn [evs cn]. split; [|lia].
    split; [lia|]. intros _. nia.
  - apply N.ltb_ge in El. unfold MAX_CNAME_LOOKUPS in El.
    pose proof (Hrec (t, qt) (set_cn s (cn s + 1)) Hi) as Hr.
    destruct (rec (t, qt) depth (set_cn s (cn s + 1))) as [s1 m|s1 e|]; cbn [res_post cstep_post] in *; [| |exact I].
    + destruct Hr as (A & B & C & (D1 & D2) & E).
      unfold counted, nev, cnn, set_cn in *; cbn [evs cn] in *.
      split; [exact A|]. split; [exact B|]. split.
      * intros x Hx. apply filter_In in Hx. destruct Hx as [Hx _].
        apply (C x). unfold all_sections. apply in_app_iff. left. exact Hx.
      * split; [|intros _; apply E; lia]. split; [lia|]. intros Hw. specialize (D2 Hw). nia.
    + destruct Hr as (A & B & C & (D1 & D2) & E).
      unfold counted, nev, cnn, set_cn in *; cbn [evs cn] in *.
      split; [exact A|]. split; [exact B|]. split; [exact C|].
      split; [|intros _; apply E; lia]. split; [lia|]. intros Hw. specialize (D2 Hw). nia.
Qed.

Definition cloop_post (s : st) (r : res (list rr)) : Prop :=
  match r with
  | Done s' chain => InvN s' /\ incl (evs s) (evs s') /\ recs_ok (evs s') chain /\
                     counted 0 s s' /\ (cn s <= 64 -> cn s' <= 64)
  | Fail s' e => InvN s' /\ incl (evs s) (evs s') /\ rerr_originN (evs s') e /\
                 counted 0 s s' /\ (cn s <= 64 -> cn s' <= 65)
  | OutOfFuel => True
  end.

Lemma cname_loop_inv rec ans qt depth rs : forall chain s,
  (forall q s0, InvN s0 -> res_post 1 s0 (rec q depth s0)) ->
  InvN s -> recs_ok (evs s) chain ->
  cloop_post s (cname_loop rec ans qt depth rs chain s).
Proof.
  induction rs as [|r rs IH]; intros chain s Hrec Hi Hc; cbn [cname_loop].
  - cbn [cloop_post]. split; [exact Hi|]. split; [apply incl_refl|]. split; [exact Hc|].
    split; [apply counted_refl|auto].
  - pose proof (cname_step_inv rec ans qt depth r s Hrec Hi) as Hs.
    destruct (cname_step rec ans qt depth r s) as [add s1|s1 e|]; cbn [cstep_post] in Hs; [|exact Hs|exact I].
    destruct Hs as (A & B & C & D & E).
    assert (Hc1 : recs_ok (evs s1) (chain ++ add)).
    { intros x Hx. apply in_app_iff in Hx. destruct Hx as [Hx|Hx]; [|apply C, Hx].
      apply (recs_ok_mono _ _ _ B Hc x Hx). }
    pose proof (IH (chain ++ add) s1 Hrec A Hc1) as Hl.
    destruct (cname_loop rec ans qt depth rs (chain ++ add) s1) as [s2 ch|s2 e|]; cbn [cloop_post] in *; [| |exact I].
    + destruct Hl as (A2 & B2 & C2 & D2 & E2). split; [exact A2|]. split; [eapply incl_tran; eauto|].
      split; [exact C2|]. split; [apply (counted_trans 0 0 _ _ _ D D2)|].
      intros H. destruct D as [D _]. destruct (N.le_gt_cases (cn s1) 64) as [Hle|Hgt]; [auto|].
      specialize (E H). lia.
    + destruct Hl as (A2 & B2 & C2 & D2 & E2). split; [exact A2|]. split; [eapply incl_tran; eauto|].
      split; [exact C2|]. split; [apply (counted_trans 0 0 _ _ _ D D2)|].
      intros H. apply E2, E, H.
Qed.

Lemma resolve_cnames_inv rec m q depth s :
  (forall q' s0, InvN s0 -> res_post 1 s0 (rec q' (depth + 1) s0)) ->
  InvN s -> msg_legitN (evs s) m ->
  res_post 0 s (resolve_cnames c rec m q depth s).
Proof.
  intros Hrec Hi Hm. unfold resolve_cnames.
  assert (Hsame : res_post 0 s (Done s m)).
  { cbn [res_post]. split; [exact Hi|]. split; [apply incl_refl|]. split; [exact Hm|].
    split; [apply counted_refl|auto]. }
  destruct (N.eqb (snd q) T_CNAME || N.eqb (snd q) T_ANY); [exact Hsame|].
  destruct (negb (existsb is_cname (all_sections m))); [exact Hsame|].
  destruct (negb (depth + 1 <? rec_limit c)).
  { cbn [res_post]. split; [exact Hi|]. split; [apply incl_refl|].
    split; [apply rerr_origin_nil; reflexivity|]. split; [apply counted_refl|intros; lia]. }
  pose proof (cname_loop_inv rec (an m) (snd q) (depth + 1) (all_sections m) [] s Hrec Hi) as Hl.
  assert (H0 : recs_ok (evs s) []) by (intros x []). specialize (Hl H0).
  destruct (cname_loop rec (an m) (snd q) (depth + 1) (all_sections m) [] s) as [s1 chain|s1 e|];
    cbn [cloop_post res_post] in *; [|exact Hl|exact I].
  destruct Hl as (A & B & C & D & E). split; [exact A|]. split; [exact B|]. split; [|auto].
  intros x Hx. unfold all_sections in Hx. cbn [an au ad] in Hx. rewrite !in_app_iff in Hx.
  assert (Hm1 : msg_legitN (evs s1) m) by (eapply msg_legit_mono; eauto).
  destruct Hx as [[Hx|Hx]|[Hx|Hx]].
  - apply Hm1. unfold all_sections. rewrite !in_app_iff. auto.
  - apply C, Hx.
  - apply Hm1. unfold all_sections. rewrite !in_app_iff. auto.
  - apply Hm1. unfold all_sections. rewrite !in_app_iff. auto.
Qed.

Lemma final_fetch_inv q p s s' r :
  InvN s -> PoolOKN (evs s) p -> is_subzone (pzone p) (fst q) = true ->
  final_fetch net choose c q p s = (s', r) ->
  postN 1 s s' /\
  match r with
  | inl m => msg_legitN (evs s') m
  | inr e => rerr_originN (evs s') e
  end.
Proof.
  intros Hi Hp Hz. unfold final_fetch.
  assert (Hlk : lookup net choose c q (pzone p) p s = (s', r) ->
                postN 1 s s' /\ match r with inl m => msg_legitN (evs s') m | inr e => rerr_originN (evs s') e end).
  { intros H. destruct (lookup_inv net choose c W Hchoose HW q (pzone p) p s s' r Hi Hp (is_prefix_refl _) Hz H) as (P & Hr).
    split; [exact P|]. destruct r as [m|e]; [apply Hr|exact Hr]. }
  destruct (cache_get q s) as [[m|e]|] eqn:Ec; [| |exact Hlk].
  - destruct (aa m); [|exact Hlk]. intros H; inversion H; subst; clear H.
    split; [apply (post_weaken net c W 0); [lia|apply post_refl, Hi]|].
    apply cache_get_pos in Ec. destruct Ec as (q' & Hin). destruct Hi as (I1 & _). apply (I1 q' m Hin).
  - intros H; inversion H; subst; clear H.
    split; [apply (post_weaken net c W 0); [lia|apply post_refl, Hi]|].
    apply cache_get_neg in Ec. destruct Ec as (q' & nx & m & -> & Hin).
    apply to_rerr_origin. intros nx0 m0 H0; inversion H0; subst.
    destruct Hi as (_ & I2 & _). eapply I2; eauto.
Qed.

Lemma post_counted k s s' : postN k s s' -> (k <= UU1)%nat -> counted 1 s s'.
Proof.
  intros (_ & _ & P3 & P4) Hk. split; [rewrite P4; lia|]. intros Hw. specialize (P3 Hw).
  unfold nev, cnn. rewrite P4. nia.
Qed.

Lemma resolve_miss_inv rec fuel q depth s :
  (forall q' d s0, depth < d -> InvN s0 -> res_post 1 s0 (rec q' d s0)) ->
  InvN s -> res_post 1 s (resolve_miss net choose c rec fuel q depth s).
Proof.
  intros Hrec Hi. unfold resolve_miss.
  set (zone := if N.eqb (snd q) T_DS then base_name (fst q) else fst q).
  assert (Hzq : is_subzone zone (fst q) = true).
  { unfold zone. destruct (N.eqb (snd q) T_DS); [apply removelast_prefix|apply is_prefix_refl]. }
  pose proof (ns_pool_inv net choose c W Hchoose HW fuel zone depth s Hi) as Hn.
  destruct (ns_pool net choose c fuel zone depth s) as [s1 [d1 p1]|s1 e|]; cbn [walk_post] in Hn; [| |exact I].
  - destruct Hn as (P1 & Hp1 & Hz1 & Hd1).
    destruct (final_fetch net choose c q p1 s1) as [s2 lr] eqn:Ef.
    assert (Hz1q : is_subzone (pzone p1) (fst q) = true) by (eapply is_prefix_trans; eauto).
    destruct (final_fetch_inv q p1 s1 s2 lr (post_inv _ _ _ _ _ _ P1) Hp1 Hz1q Ef) as (P2 & Hlr).
    pose proof (post_trans _ _ _ _ _ _ _ _ P1 P2) as P12.
    assert (Hc12 : counted 1 s s2).
    { eapply post_counted; [exact P12|]. unfold UU1. pose proof (U_le depth). lia. }
    destruct lr as [m|e].
    + assert (Hrec1 : forall q' s0, InvN s0 -> res_post 1 s0 (rec q' (d1 + 1) s0))
        by (intros q' s0 H0; apply Hrec; [lia|exact H0]).
      pose proof (resolve_cnames_inv rec m q d1 s2 Hrec1 (post_inv _ _ _ _ _ _ P12) Hlr) as Hc.
      destruct P12 as (Q1 & Q2 & Q3 & Q4).
      destruct (resolve_cnames c rec m q d1 s2) as [s3 m3|s3 e3|]; cbn [res_post] in *; [| |exact I].
      * destruct Hc as (A & B & C & D & E). split; [exact A|]. split; [eapply incl_tran; eauto|].
        split; [exact C|]. split; [apply (counted_trans 1 0 _ _ _ Hc12 D)|]. rewrite <- Q4. exact E.
      * destruct Hc as (A & B & C & D & E). split; [exact A|]. split; [eapply incl_tran; eauto|].
        split; [exact C|]. split; [apply (counted_trans 1 0 _ _ _ Hc12 D)|]. rewrite <- Q4. exact E.
    + cbn [res_post]. destruct P12 as (Q1 & Q2 & Q3 & Q4).
      split; [exact Q1|]. split; [exact Q2|]. split; [exact Hlr|]. split; [exact Hc12|].
      rewrite Q4. lia.
  - destruct Hn as (P1 & He).
    assert (Hc1 : counted 1 s s1).
    { eapply post_counted; [exact P1|]. unfold UU1. pose proof (U_le depth). lia. }
    destruct P1 as (Q1 & Q2 & Q3 & Q4).
    destruct (is_nx e); cbn [res_post]; (split; [exact Q1|]; split; [exact Q2|]; split;
      [first [exact He|apply rerr_origin_nil; reflexivity]|]; split; [exact Hc1|rewrite Q4; lia]).
Qed.

Lemma res_post_weaken s r : res_post 0 s r -> res_post 1 s r.
Proof.
  assert (Hw : forall s', counted 0 s s' -> counted 1 s s').
  { intros s' (A & B). split; [exact A|]. intros H. specialize (B H). nia. }
  destruct r as [s' m|s' e|]; cbn [res_post]; [| |auto].
  - intros (A & B & C & D & E). repeat (split; [assumption|]). split; [apply Hw, D|exact E].
  - intros (A & B & C & D & E). repeat (split; [assumption|]). split; [apply Hw, D|exact E].
Qed.

Lemma resolve_inv : forall fuel q d s,
  InvN s -> res_post 1 s (resolve net choose c fuel q d s).
Proof.
  induction fuel as [|f IH]; intros q d s Hi; cbn [resolve]; [exact I|].
  unfold resolve_body.
  assert (Hmiss : res_post 1 s (resolve_miss net choose c (resolve net choose c f) f q d s)).
  { apply resolve_miss_inv; [|exact Hi]. intros q' d' s0 _ H0. apply IH, H0. }
  destruct (cache_get q s) as [[m|e]|] eqn:Ec; [| |exact Hmiss].
  - destruct (aa m); [|exact Hmiss]. apply res_post_weaken. apply resolve_cnames_inv.
    + intros q' s0 H0. apply IH, H0.
    + exact Hi.
    + apply cache_get_pos in Ec. destruct Ec as (q' & Hin). destruct Hi as (I1 & _). apply (I1 q' m Hin).
  - cbn [res_post]. split; [exact Hi|]. split; [apply incl_refl|]. split.
    + apply cache_get_neg in Ec. destruct Ec as (q' & nx & m & -> & Hin).
      apply to_rerr_origin. intros nx0 m0 H0; inversion H0; subst.
      destruct Hi as (_ & I2 & _). eapply I2; eauto.
    + split; [|intros; lia]. split; [lia|]. intros _. nia.
Qed.

Lemma Inv_st0 : InvN st0.
Proof.
  unfold Inv, st0. cbn [rcache nscache evs].
  split; [intros q m []|]. split; [intros q nx m []|]. split; [intros z p []|intros e []].
Qed.

End Net.
