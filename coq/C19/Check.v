(* C19 — correspondence glue: each case carries the recursor configuration, the part of the
   simulated network the real Recursor actually talked to (every (server, query) pair with the
   reply the mock gave), the sequence of client queries, and what the real Recursor returned and
   whom it contacted for each.  [check] re-runs the model on the same network and compares. *)
From HV Require Import Lib.Base C19.Model.
Open Scope N_scope.

(* short constructors for generated terms *)
Definition R := mkRR.
Definition M := mkMsg.

Definition msg_eqb (a b : msg) : bool :=
  N.eqb (rcode a) (rcode b) && Bool.eqb (aa a) (aa b)
  && list_eqb rr_eqb (an a) (an b) && list_eqb rr_eqb (au a) (au b) && list_eqb rr_eqb (ad a) (ad b).

(* two servers of the pool are known to answer this query differently: the trace does not
   determine the outcome, the case is not compared *)
Definition ambiguous_at (t : table) (ips : list ip) (q : query) : bool :=
  match tchoose t ips q with
  | None => false
  | Some a =>
      existsb (fun e => let '(a', q', m) := e in
                        query_eqb q q' && existsb (ip_eqb a') ips && negb (msg_eqb m (tnet t a q))) t
  end.

(* observation: class, three record lists, contacted (ip, query) pairs *)
Record obs := mkObs { o_class : N; o_an : list rr; o_au : list rr; o_ad : list rr;
                      o_contacted : list (ip * query) }.
Definition O := mkObs.

Definition res_obs (r : res msg) : N * list rr * list rr * list rr :=
  match r with
  | Done _ m => (0, an m, au m, ad m)
  | Fail _ (ENeg true soa auth) => (1, [], soa, auth)
  | Fail _ (ENeg false soa auth) => (2, [], soa, auth)
  | Fail _ (EForward ns glue) => (3, [], ns, glue)
  | Fail _ ERecLimit => (4, [], [], [])
  | Fail _ ECnameLimit => (5, [], [], [])
  | Fail _ ENet => (6, [], [], [])
  | Fail _ EMsg => (7, [], [], [])
  | OutOfFuel => (99, [], [], [])
  end.

Definition res_state := state_after.

Fixpoint remove1 (x : rr) (l : list rr) : option (list rr) :=
  match l with
  | [] => None
  | y :: l' => if rr_eqb x y then Some l'
               else match remove1 x l' with Some r => Some (y :: r) | None => None end
  end.

(* equal as multisets *)
Fixpoint perm_eqb (a b : list rr) : bool :=
  match a with
  | [] => is_nil b
  | x :: a' => match remove1 x b with Some b' => perm_eqb a' b' | None => false end
  end.

(* contacted servers: the implementation may pick any server of the pool (random initial
   round-trip estimates); an observed contact (ip, q) matches a model event for q whose pool
   contains ip *)
Definition ev_matches (e : event) (x : ip * query) : bool :=
  query_eqb (e_q e) (snd x) && existsb (ip_eqb (fst x)) (e_pool e).
Definition contacts_agree (es : list event) (xs : list (ip * query)) : bool :=
  forallb (fun x => existsb (fun e => ev_matches e x) es) xs
  && forallb (fun e => existsb (ev_matches e) xs) es.

(* events of the newer state that are not in the older one *)
Definition new_events (old new : st) : list event :=
  firstn (length (evs new) - length (evs old)) (evs new).

Inductive case :=
| CRun (c : cfg) (t : table) (steps : list (query * obs))
| CStub (script : list (name * sreply)) (q : query) (sent : list query) (class : N).

(* upstream of the stub resolver: per name, what the reply amounts to; unlisted = negative *)
Definition sup (script : list (name * sreply)) (q : query) : sreply :=
  match assoc name_eqb (fst q) script with Some r => r | None => SNone end.

Fixpoint run_steps (c : cfg) (t : table) (steps : list (query * obs)) (s : st) : bool :=
  match steps with
  | [] => true
  | (q, o) :: steps' =>
      let r := resolve_top (tnet t) (tchoose t) c (fuel_for c) q s in
      let s' := res_state s r in
      let ne := new_events s s' in
      let '(cl, a1, a2, a3) := res_obs r in
      if existsb (fun e => ambiguous_at t (e_pool e) (e_q e)) ne then true
      else
        N.eqb cl (o_class o) && perm_eqb a1 (o_an o) && perm_eqb a2 (o_au o) && perm_eqb a3 (o_ad o)
        && contacts_agree ne (o_contacted o)
        && run_steps c t steps' s'
  end.

Definition check (x : case) : bool :=
  match x with
  | CRun c t steps => run_steps c t steps st0
  | CStub script q sent class =>
      match stub_chase 8 (sup script) q 0 with
      | Some (l, r) =>
          list_eqb query_eqb l sent
          && N.eqb class (match r with SAnswer => 0 | SNoRecords => 1 end)
      | None => false
      end
  end.

Definition bad (cs : list case) : list N := bad_idx check 0 cs.

(* full model output for one case (used in replay files) *)
Fixpoint show_steps (c : cfg) (t : table) (steps : list (query * obs)) (s : st) :=
  match steps with
  | [] => []
  | (q, o) :: steps' =>
      let r := resolve_top (tnet t) (tchoose t) c (fuel_for c) q s in
      let s' := res_state s r in
      let ne := new_events s s' in
      (res_obs r, map (fun e => (e_ip e, e_q e)) ne,
       existsb (fun e => ambiguous_at t (e_pool e) (e_q e)) ne) :: show_steps c t steps' s'
  end.

Definition show (x : case) :=
  match x with
  | CRun c t steps => show_steps c t steps st0
  | CStub _ _ _ _ => []
  end.
