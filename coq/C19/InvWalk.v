(* C19 — invariant machinery, part 2: glue collection, NS address lookups, the zone walk *)
From HV Require Import Lib.Base C19.Model C19.BaseProofs C19.InvBase.
Open Scope N_scope.

Lemma walk_bound_step w k : (2 <= k)%nat ->
  walk_bound w k = (1 + 2 * w + (w + 1) * walk_bound w (k - 1))%nat.
Proof.
  intros Hk. destruct k as [|[|k]]; try lia.
  replace (S (S k) - 1)%nat with (S k) by lia. reflexivity.
Qed.

Lemma walk_bound_small w k : (k <= 1)%nat -> walk_bound w k = O.
Proof. intros Hk. destruct k as [|[|k]]; try lia; reflexivity. Qed.

Lemma removelast_firstn_S {A} (l : list A) i : (i < length l)%nat -> removelast (firstn (S i) l) = firstn i l.
Proof. intros H. apply removelast_firstn. exact H. Qed.

Section Net.
Variable net : ip -> query -> msg.
Variable choose : list ip -> query -> option ip.
Variable c : cfg.
Variable W : option nat.
Hypothesis Hchoose : forall l q a, choose l q = Some a -> In a l.
Hypothesis HW : forall a q, wbound W (net a q).

Local Notation LegitN := (Legit net).
Local Notation LooseN := (Loose net).
Local Notation AddrOKN := (AddrOK net c false).
Local Notation PoolOKN := (PoolOK net c false).
Local Notation EvOKN := (EvOK net c false).
Local Notation msg_legitN := (msg_legit net c).
Local Notation neg_originN := (neg_origin net).
Local Notation InvN := (Inv net c W false).
Local Notation postN := (post net c W).
Local Notation rerr_originN := (rerr_origin net).
Local Notation wvN := (wv W).

(* an in-bailiwick NS record, owned inside [parent], names host [t] *)
Definition NSok (es : list event) (parent t : name) : Prop :=
  exists rNS, LegitN es rNS /\ rdat rNS = RNS t /\ is_subzone parent (owner rNS) = true.

Lemma NSok_mono es es' parent t : incl es es' -> NSok es parent t -> NSok es' parent t.
Proof. intros Hi (r & H1 & H2). exists r. split; [eapply Legit_mono; eauto|exact H2]. Qed.

(* address known for a name: allowed by the server filter and carried by an in-bailiwick
   record owned by that name *)
Definition addr_fact (es : list event) (n : name) (a : ip) : Prop :=
  denied (srv_filter c) a = false /\
  exists rA, LegitN es rA /\ owner rA = n /\ rd_ip (rdat rA) = Some a.

Definition gmap_ok (es : list event) (g : gmap) : Prop :=
  forall n l, In (n, l) g -> forall a, In a l -> addr_fact es n a.

Lemma gmap_add_ok es g n a : gmap_ok es g -> addr_fact es n a -> gmap_ok es (gmap_add g n a).
Proof.
  intros Hg Ha. induction g as [|[n' l] g IH]; cbn [gmap_add].
  - intros n0 l0 [H|[]] a0 Ha0. inversion H; subst. destruct Ha0 as [<-|[]]. exact Ha.
  - assert (Hg' : gmap_ok es g) by (intros n0 l0 H; apply (Hg n0 l0); right; exact H).
    destruct (name_eqb n n') eqn:En.
    + apply name_eqb_eq in En. subst n'. intros n0 l0 [H|H] a0 Ha0.
      * inversion H; subst; clear H. destruct (existsb (ip_eqb a) l).
        -- apply (Hg n0 l); [left; reflexivity|exact Ha0].
        -- apply in_app_iff in Ha0. destruct Ha0 as [Ha0|[<-|[]]]; [|exact Ha].
           apply (Hg n0 l); [left; reflexivity|exact Ha0].
      * apply (Hg n0 l0); [right; exact H|exact Ha0].
    + intros n0 l0 [H|H] a0 Ha0.
      * inversion H; subst. apply (Hg n0 l0); [left; reflexivity|exact Ha0].
      * apply (IH Hg' n0 l0 H a0 Ha0).
Qed.

Lemma add_glue_ok es rs : forall g,
  gmap_ok es g -> (forall r, In r rs -> LegitN es r) -> gmap_ok es (add_glue c g rs).
Proof.
  induction rs as [|r rs IH]; intros g Hg Hr; cbn [add_glue]; [exact Hg|].
  assert (Hr' : forall x, In x rs -> LegitN es x) by (intros x Hx; apply Hr; right; exact Hx).
  destruct (rd_ip (rdat r)) as [a|] eqn:Ea; [|apply IH; auto].
  destruct (denied (srv_filter c) a) eqn:Ed; [apply IH; auto|].
  apply IH; [|exact Hr']. apply gmap_add_ok; [exact Hg|].
  split; [exact Ed|]. exists r. split; [apply Hr; left; reflexivity|split; [reflexivity|exact Ea]].
Qed.

Lemma gmap_ok_nil es : gmap_ok es [].
Proof. intros n l []. Qed.

Lemma glue_from_cache_ok s g t :
  InvN s -> gmap_ok (evs s) g -> gmap_ok (evs s) (glue_from_cache c g t s).
Proof.
  intros Hi Hg. unfold glue_from_cache.
  assert (Hc : forall q m g0, gmap_ok (evs s) g0 -> cache_get q s = Some (inl m) ->
                              gmap_ok (evs s) (add_glue c g0 (all_sections m))).
  { intros q m g0 Hg0 Hq. apply cache_get_pos in Hq. destruct Hq as (q' & Hin).
    destruct Hi as (I1 & _). destruct (I1 q' m Hin) as [Hm _].
    apply add_glue_ok; [exact Hg0|]. intros r Hr. apply (Hm r Hr). }
  set (g1 := match cache_get (t, T_A) s with Some (inl m) => add_glue c g (all_sections m) | _ => g end).
  assert (Hg1 : gmap_ok (evs s) g1).
  { unfold g1. destruct (cache_get (t, T_A) s) as [[m|e]|] eqn:E; auto. eapply Hc; eauto. }
  destruct (cache_get (t, T_AAAA) s) as [[m|e]|] eqn:E; auto. eapply Hc; eauto.
Qed.

Lemma is_ns_RNS r t : rdat r = RNS t -> is_ns r = true.
Proof. intros H. unfold is_ns, is_type, rtype. rewrite H. reflexivity. Qed.

Lemma collect_ns_ok s zone rs :
  InvN s -> (forall r, In r rs -> LegitN (evs s) r) ->
  forall g conf need g' conf' need',
  gmap_ok (evs s) g ->
  (forall a, In a conf -> AddrOKN (evs s) zone a) ->
  (forall t, In t need -> NSok (evs s) (base_name zone) t) ->
  collect_ns c (base_name zone) s rs g conf need = (g', conf', need') ->
  (forall a, In a conf' -> AddrOKN (evs s) zone a) /\
  (forall t, In t need' -> NSok (evs s) (base_name zone) t) /\
  (length need' <= length need + length (filter is_ns rs))%nat.
Proof.
  intros Hi. induction rs as [|r rs IH]; intros Hr g conf need g' conf' need' Hg Hc Hn; cbn [collect_ns].
  - intros H; inversion H; subst. split; [exact Hc|split; [exact Hn|cbn; lia]].
  - assert (Hr' : forall x, In x rs -> LegitN (evs s) x) by (intros x Hx; apply Hr; right; exact Hx).
    assert (Hlen : (length (filter is_ns rs) <= length (filter is_ns (r :: rs)))%nat)
      by (cbn [filter]; destruct (is_ns r); cbn [length]; lia).
    destruct (rdat r) as [a|a|t|t| |ty] eqn:Ed;
      try (intros H; destruct (IH Hr' _ _ _ _ _ _ Hg Hc Hn H) as (A & B & C); split; [exact A|split; [exact B|lia]]).
    destruct (negb (is_subzone (base_name zone) (owner r))) eqn:Ez.
    + intros H. destruct (IH Hr' _ _ _ _ _ _ Hg Hc Hn H) as (A & B & C). split; [exact A|split; [exact B|lia]].
    + apply negb_false_iff in Ez.
      assert (Hns : NSok (evs s) (base_name zone) t).
      { exists r. split; [apply Hr; left; reflexivity|split; [exact Ed|exact Ez]]. }
      assert (Hlen1 : (S (length (filter is_ns rs)) <= length (filter is_ns (r :: rs)))%nat).
      { cbn [filter]. rewrite (is_ns_RNS r t Ed). cbn [length]. lia. }
      pose proof (glue_from_cache_ok s g t Hi Hg) as Hg2.
      destruct (assoc name_eqb t (glue_from_cache c g t s)) as [[|a l]|] eqn:Ea.
      * intros H. assert (Hn' : forall t0, In t0 (need ++ [t]) -> NSok (evs s) (base_name zone) t0).
        { intros t0 Ht0. apply in_app_iff in Ht0. destruct Ht0 as [Ht0|[<-|[]]]; auto. }
        destruct (IH Hr' _ _ _ _ _ _ Hg2 Hc Hn' H) as (A & B & C). split; [exact A|split; [exact B|]].
        rewrite app_length in C. cbn [length] in C. lia.
      * intros H. apply assoc_In in Ea. destruct Ea as (n & Hin & En). apply name_eqb_eq in En. subst n.
        assert (Hc' : forall a0, In a0 (conf ++ a :: l) -> AddrOKN (evs s) zone a0).
        { intros a0 Ha0. apply in_app_iff in Ha0. destruct Ha0 as [Ha0|Ha0]; [auto|].
          destruct (Hg2 t (a :: l) Hin a0 Ha0) as (Hd & rA & H1 & H2 & H3).
          destruct Hns as (rNS & N1 & N2 & N3).
          split; [exact Hd|]. exists rNS, t, rA. split; [exact N1|split; [exact N2|split; [exact N3|split; [exact H3|]]]].
          left. split; assumption. }
        destruct (IH Hr' _ _ _ _ _ _ Hg2 Hc' Hn H) as (A & B & C). split; [exact A|split; [exact B|lia]].
      * intros H. assert (Hn' : forall t0, In t0 (need ++ [t]) -> NSok (evs s) (base_name zone) t0).
        { intros t0 Ht0. apply in_app_iff in Ht0. destruct Ht0 as [Ht0|[<-|[]]]; auto. }
        destruct (IH Hr' _ _ _ _ _ _ Hg2 Hc Hn' H) as (A & B & C). split; [exact A|split; [exact B|]].
        rewrite app_length in C. cbn [length] in C. lia.
Qed.

Lemma ns_conf_ok s zone m conf need :
  InvN s -> msg_legitN (evs s) m ->
  ns_conf c (base_name zone) m s = (conf, need) ->
  (forall a, In a conf -> AddrOKN (evs s) zone a) /\
  (forall t, In t need -> NSok (evs s) (base_name zone) t) /\
  (length need <= ns_count m)%nat.
Proof.
  intros Hi Hm. unfold ns_conf.
  destruct (collect_ns c (base_name zone) s (all_sections m) (add_glue c [] (all_sections m)) [] [])
    as [[g' conf'] need'] eqn:E.
  intros H; inversion H; subst; clear H.
  assert (Hleg : forall r, In r (all_sections m) -> LegitN (evs s) r) by (intros r Hr; apply (Hm r Hr)).
  eapply (collect_ns_ok s zone (all_sections m) Hi Hleg) in E.
  - exact E.
  - apply add_glue_ok; [apply gmap_ok_nil|exact Hleg].
  - intros a [].
  - intros t [].
Qed.

(* ---------------------------------------------------------------------------------------- *)
(* address lookups for name servers without glue *)

Lemma answer_ips_spec m a :
  In a (answer_ips c m) ->
  denied (srv_filter c) a = false /\ exists r, In r (an m) /\ rd_ip (rdat r) = Some a.
Proof.
  unfold answer_ips. intros H. apply in_flat_map in H. destruct H as (r & Hr & Ha).
  destruct (rd_ip (rdat r)) as [a'|] eqn:E; [|destruct Ha].
  destruct (denied (srv_filter c) a') eqn:Ed; [destruct Ha|]. destruct Ha as [<-|[]].
  split; [exact Ed|]. exists r. auto.
Qed.

Definition loose_fact (es : list event) (n : name) (a : ip) : Prop :=
  denied (srv_filter c) a = false /\ exists rA, rd_ip (rdat rA) = Some a /\ LooseN es n rA.

Lemma addr_lookup_inv p n t s s' l :
  InvN s -> PoolOKN (evs s) p -> is_subzone (pzone p) n = true -> is_addr_type t ->
  addr_lookup net choose c p n t s = (s', l) ->
  postN 1 s s' /\ forall a, In a l -> loose_fact (evs s') n a.
Proof.
  intros Hi Hp Hz Ht. unfold addr_lookup.
  destruct (send net choose c p (n, t) s) as [s1 r] eqn:Es. apply (send_res net choose c Hchoose) in Es.
  destruct Es as [->|a0 m Ha0 -> Hsub Hans|a0 e Ha0 -> He].
  - intros H; inversion H; subst. split; [apply (post_weaken net c W 0); [lia|apply post_refl, Hi]|intros a []].
  - intros H; inversion H; subst; clear H. split; [apply Inv_sent; auto|].
    intros a Ha. apply answer_ips_spec in Ha. destruct Ha as (Hd & r & Hr & Hip).
    split; [exact Hd|]. exists r. split; [exact Hip|].
    exists (mkEv a0 (n, t) (pzone p) (pips p)). cbn [log_ev evs e_q e_ip e_zone fst snd].
    split; [left; reflexivity|]. split; [reflexivity|]. split; [exact Ht|]. split; [|exact Hz].
    apply (fsub_an _ _ Hsub), Hr.
  - intros H; inversion H; subst; clear H. split; [apply Inv_sent; auto|intros a []].
Qed.

Lemma loose_fact_mono es es' n a : incl es es' -> loose_fact es n a -> loose_fact es' n a.
Proof. intros Hi (Hd & r & H1 & H2). split; [exact Hd|]. exists r. split; [exact H1|eapply Loose_mono; eauto]. Qed.

Lemma addr_lookups_inv zone pq : forall s s' l,
  InvN s ->
  (forall p n, In (p, n) pq -> PoolOKN (evs s) p /\ is_subzone (pzone p) n = true /\ NSok (evs s) (base_name zone) n) ->
  addr_lookups net choose c pq s = (s', l) ->
  postN (2 * length pq) s s' /\ forall a, In a l -> AddrOKN (evs s') zone a.
Proof.
  induction pq as [|[p n] pq IH]; intros s s' l Hi Hpq; cbn [addr_lookups].
  - intros H; inversion H; subst. split; [apply post_refl, Hi|intros a []].
  - destruct (Hpq p n (or_introl eq_refl)) as (Hp & Hz & Hns).
    destruct (addr_lookup net choose c p n T_A s) as [s1 l1] eqn:E1.
    destruct (addr_lookup net choose c p n T_AAAA s1) as [s2 l2] eqn:E2.
    destruct (addr_lookups net choose c pq s2) as [s3 l3] eqn:E3.
    intros H; inversion H; subst; clear H.
    destruct (addr_lookup_inv p n T_A s s1 l1 Hi Hp Hz (or_introl eq_refl) E1) as (P1 & L1).
    pose proof (post_incl _ _ _ _ _ _ P1) as I01.
    destruct (addr_lookup_inv p n T_AAAA s1 s2 l2 (post_inv _ _ _ _ _ _ P1)
                (PoolOK_mono net c _ _ _ I01 Hp) Hz (or_intror eq_refl) E2) as (P2 & L2).
    pose proof (post_incl _ _ _ _ _ _ P2) as I12.
    assert (Hpq2 : forall p0 n0, In (p0, n0) pq ->
              PoolOKN (evs s2) p0 /\ is_subzone (pzone p0) n0 = true /\ NSok (evs s2) (base_name zone) n0).
    { intros p0 n0 Hin. destruct (Hpq p0 n0 (or_intror Hin)) as (A & B & C).
      split; [eapply PoolOK_mono; [|exact A]; eapply incl_tran; eauto|].
      split; [exact B|eapply NSok_mono; [|exact C]; eapply incl_tran; eauto]. }
    destruct (IH s2 s' l3 (post_inv _ _ _ _ _ _ P2) Hpq2 E3) as (P3 & L3).
    pose proof (post_incl _ _ _ _ _ _ P3) as I23.
    split.
    + pose proof (post_trans _ _ _ _ _ _ _ _ (post_trans _ _ _ _ _ _ _ _ P1 P2) P3) as P.
      eapply post_weaken; [|exact P]. cbn [length]. lia.
    + assert (Hmk : forall es a, incl es (evs s') -> NSok es (base_name zone) n -> loose_fact es n a ->
                                 AddrOKN (evs s') zone a).
      { intros es a Hie (rNS & N1 & N2 & N3) (Hd & rA & A1 & A2). split; [exact Hd|].
        exists rNS, n, rA. split; [eapply Legit_mono; eauto|]. split; [exact N2|]. split; [exact N3|].
        split; [exact A1|]. right. split; [reflexivity|eapply Loose_mono; eauto]. }
      intros a Ha. rewrite !in_app_iff in Ha. destruct Ha as [Ha|[Ha|Ha]].
      * apply (Hmk (evs s1) a); [eapply incl_tran; eauto|eapply NSok_mono; eauto|apply L1, Ha].
      * apply (Hmk (evs s2) a); [exact I23|eapply NSok_mono; [|exact Hns]; eapply incl_tran; eauto|apply L2, Ha].
      * apply L3, Ha.
Qed.

(* ---------------------------------------------------------------------------------------- *)
(* what is required of the recursive call, and what the walk guarantees: the pool returned is
   justified, its zone encloses the name walked to; [T] bounds the new upstream queries *)

Definition walk_post (T : nat) (n : name) (d : N) (s : st) (r : res (N * pool)) : Prop :=
  match r with
  | Done s1 (d1, p1) => postN T s s1 /\ PoolOKN (evs s1) p1 /\ is_subzone (pzone p1) n = true /\ d <= d1
  | Fail s1 e => postN T s s1 /\ rerr_originN (evs s1) e
  | OutOfFuel => True
  end.

Lemma ap_pools_inv rec zone depth T p need : forall s s' pq,
  (forall n s0, InvN s0 -> walk_post T n depth s0 (rec n depth s0)) ->
  InvN s -> PoolOKN (evs s) p -> is_subzone (pzone p) zone = true ->
  ap_pools rec zone depth p need s = Some (s', pq) ->
  postN (length need * T) s s' /\
  (forall p' n, In (p', n) pq -> In n need /\ PoolOKN (evs s') p' /\ is_subzone (pzone p') n = true) /\
  (length pq <= length need)%nat.
Proof.
  induction need as [|n need IH]; intros s s' pq Hrec Hi Hp Hz; cbn [ap_pools].
  - intros H; inversion H; subst. split; [apply post_refl, Hi|]. split; [intros p' n []|cbn; lia].
  - destruct (is_subzone zone n) eqn:Ezn.
    + destruct (ap_pools rec zone depth p need s) as [[s2 l]|] eqn:E; [|discriminate].
      intros H; inversion H; subst; clear H.
      destruct (IH s s' l Hrec Hi Hp Hz E) as (P & Hl & Hlen).
      split; [eapply post_weaken; [|exact P]; cbn [length]; lia|].
      split; [|cbn [length]; lia].
      intros p' n' [H|H].
      * inversion H; subst. split; [left; reflexivity|]. split.
        -- eapply PoolOK_mono; [apply (post_incl _ _ _ _ _ _ P)|exact Hp].
        -- eapply is_prefix_trans; eauto.
      * destruct (Hl p' n' H) as (A & B & C). split; [right; exact A|auto].
    + pose proof (Hrec n s Hi) as Hr. destruct (rec n depth s) as [s1 [d1 p1]|s1 e|] eqn:Er; [| |discriminate].
      * destruct Hr as (P1 & Hp1 & Hz1 & _).
        destruct (ap_pools rec zone depth p need s1) as [[s2 l]|] eqn:E; [|discriminate].
        intros H; inversion H; subst; clear H.
        pose proof (post_incl _ _ _ _ _ _ P1) as I1.
        destruct (IH s1 s' l Hrec (post_inv _ _ _ _ _ _ P1) (PoolOK_mono net c _ _ _ I1 Hp) Hz E) as (P & Hl & Hlen).
        split; [pose proof (post_trans _ _ _ _ _ _ _ _ P1 P) as PP; eapply post_weaken; [|exact PP]; cbn [length]; lia|].
        split; [|cbn [length]; lia].
        intros p' n' [H|H].
        -- inversion H; subst. split; [left; reflexivity|]. split; [|exact Hz1].
           eapply PoolOK_mono; [apply (post_incl _ _ _ _ _ _ P)|exact Hp1].
        -- destruct (Hl p' n' H) as (A & B & C). split; [right; exact A|auto].
      * destruct Hr as (P1 & _). intros E.
        pose proof (post_incl _ _ _ _ _ _ P1) as I1.
        destruct (IH s1 s' pq Hrec (post_inv _ _ _ _ _ _ P1) (PoolOK_mono net c _ _ _ I1 Hp) Hz E) as (P & Hl & Hlen).
        split; [pose proof (post_trans _ _ _ _ _ _ _ _ P1 P) as PP; eapply post_weaken; [|exact PP]; cbn [length]; lia|].
        split; [|cbn [length]; lia].
        intros p' n' H. destruct (Hl p' n' H) as (A & B & C). split; [right; exact A|auto].
Qed.

Lemma ns_addrs_inv rec zone depth T p conf need s s' conf' :
  (forall n s0, InvN s0 -> walk_post T n depth s0 (rec n depth s0)) ->
  InvN s -> PoolOKN (evs s) p -> is_subzone (pzone p) zone = true ->
  (forall a, In a conf -> AddrOKN (evs s) zone a) ->
  (forall t, In t need -> NSok (evs s) (base_name zone) t) ->
  ns_addrs net choose c rec zone depth p conf need s = Some (s', conf') ->
  postN (length need * (T + 2)) s s' /\ forall a, In a conf' -> AddrOKN (evs s') zone a.
Proof.
  intros Hrec Hi Hp Hz Hc Hn. unfold ns_addrs.
  destruct (is_nil conf && negb (is_nil need)).
  - destruct (ap_pools rec zone depth p need s) as [[s2 pq]|] eqn:E; [|discriminate].
    destruct (ap_pools_inv rec zone depth T p need s s2 pq Hrec Hi Hp Hz E) as (P & Hl & Hlen).
    destruct (addr_lookups net choose c pq s2) as [s3 l3] eqn:E3.
    intros H; inversion H; subst; clear H.
    assert (Hpq : forall p0 n0, In (p0, n0) pq ->
              PoolOKN (evs s2) p0 /\ is_subzone (pzone p0) n0 = true /\ NSok (evs s2) (base_name zone) n0).
    { intros p0 n0 Hin. destruct (Hl p0 n0 Hin) as (A & B & C). split; [exact B|split; [exact C|]].
      eapply NSok_mono; [apply (post_incl _ _ _ _ _ _ P)|apply Hn, A]. }
    destruct (addr_lookups_inv zone pq s2 s' conf' (post_inv _ _ _ _ _ _ P) Hpq E3) as (P3 & L3).
    split; [|exact L3].
    pose proof (post_trans _ _ _ _ _ _ _ _ P P3) as PP. eapply post_weaken; [|exact PP]. nia.
  - intros H; inversion H; subst. split; [|exact Hc].
    apply (post_weaken net c W 0); [lia|apply post_refl, Hi].
Qed.

(* ---------------------------------------------------------------------------------------- *)
(* the NS query of one iteration *)

Lemma ns_fetch_inv q zone p s s' r :
  InvN s -> PoolOKN (evs s) p -> is_subzone (pzone p) zone = true -> is_subzone zone (fst q) = true ->
  ns_fetch net choose c q zone p s = (s', r) ->
  postN 1 s s' /\
  match r with
  | inl m => msg_legitN (evs s') m /\ wbound W m
  | inr e => rerr_originN (evs s') e
  end.
Proof.
  intros Hi Hp Hpz Hzq. unfold ns_fetch.
  destruct (cache_get q s) as [[m|e]|] eqn:Ec.
  - intros H; inversion H; subst; clear H.
    split; [apply (post_weaken net c W 0); [lia|apply post_refl, Hi]|].
    apply cache_get_pos in Ec. destruct Ec as (q' & Hin). destruct Hi as (I1 & _). apply (I1 q' m Hin).
  - intros H; inversion H; subst; clear H.
    split; [apply (post_weaken net c W 0); [lia|apply post_refl, Hi]|].
    apply cache_get_neg in Ec. destruct Ec as (q' & nx & m & -> & Hin).
    apply to_rerr_origin. intros nx0 m0 H0; inversion H0; subst.
    destruct Hi as (_ & I2 & _). eapply I2; eauto.
  - intros H. destruct (lookup_inv net choose c W Hchoose HW q zone p s s' r Hi Hp Hpz Hzq H) as (P & Hr).
    split; [exact P|]. destruct r as [m|e]; [|exact Hr]. destruct Hr as (A & B & _). auto.
Qed.

Definition step_cost (T : nat) : nat := (1 + wvN * (T + 2))%nat.

(* one iteration: either served from the pool cache (no query, same depth) or one level
   deeper, under the limit, with at most [step_cost T] queries *)
Lemma ns_step_inv rec zone depth T p s :
  (forall n s0, InvN s0 -> walk_post T n (depth + 1) s0 (rec n (depth + 1) s0)) ->
  InvN s -> PoolOKN (evs s) p -> is_subzone (pzone p) (base_name zone) = true ->
  match ns_step net choose c rec zone depth p s with
  | SNext d' p' s' =>
      PoolOKN (evs s') p' /\ is_subzone (pzone p') zone = true /\
      ((d' = depth /\ postN 0 s s') \/
       (d' = depth + 1 /\ depth + 1 < ns_limit c /\ postN (step_cost T) s s'))
  | SStop s' e =>
      rerr_originN (evs s') e /\
      (postN 0 s s' \/ (depth + 1 < ns_limit c /\ postN 1 s s'))
  | SFuel => True
  end.
Proof.
  intros Hrec Hi Hp Hpz. unfold ns_step.
  assert (Hbz : is_subzone (base_name zone) zone = true) by apply removelast_prefix.
  assert (Hpzone : is_subzone (pzone p) zone = true) by (eapply is_prefix_trans; eauto).
  destruct (assoc name_eqb zone (nscache s)) as [cp|] eqn:Ea.
  { apply assoc_In in Ea. destruct Ea as (z' & Hin & Ez). apply name_eqb_eq in Ez. subst z'.
    destruct Hi as (I1 & I2 & I3 & I4). destruct (I3 zone cp Hin) as [Hz Hcp].
    split; [exact Hcp|]. split; [rewrite Hz; apply is_prefix_refl|].
    left. split; [reflexivity|]. apply post_refl. exact (conj I1 (conj I2 (conj I3 I4))). }
  destruct (negb (depth + 1 <? ns_limit c)) eqn:Ed.
  { split; [apply rerr_origin_nil; reflexivity|left; apply post_refl, Hi]. }
  apply negb_false_iff, N.ltb_lt in Ed.
  destruct (ns_fetch net choose c (zone, T_NS) (base_name zone) p s) as [s1 lr] eqn:Ef.
  destruct (ns_fetch_inv (zone, T_NS) (base_name zone) p s s1 lr Hi Hp Hpz Hbz Ef) as (P1 & Hlr).
  pose proof (post_incl _ _ _ _ _ _ P1) as I01.
  assert (Hcost1 : (1 <= step_cost T)%nat) by (unfold step_cost; lia).
  destruct lr as [m|e].
  2:{ destruct (is_nx e).
      - split; [exact Hlr|right; auto].
      - split; [eapply PoolOK_mono; eauto|]. split; [exact Hpzone|].
        right. split; [reflexivity|split; [exact Ed|]]. eapply post_weaken; eauto. }
  destruct Hlr as (Hm & Hwm).
  destruct (negb (any_ns zone m)).
  { split; [eapply PoolOK_mono; eauto|]. split; [exact Hpzone|].
    right. split; [reflexivity|split; [exact Ed|]]. eapply post_weaken; eauto. }
  destruct (ns_conf c (base_name zone) m s1) as [conf need] eqn:Ec.
  destruct (ns_conf_ok s1 zone m conf need (post_inv _ _ _ _ _ _ P1) Hm Ec) as (Hconf & Hneed & Hlen).
  destruct (ns_addrs net choose c rec zone (depth + 1) p conf need s1) as [[s3 conf']|] eqn:En; [|exact I].
  destruct (ns_addrs_inv rec zone (depth + 1) T p conf need s1 s3 conf' Hrec (post_inv _ _ _ _ _ _ P1)
              (PoolOK_mono net c _ _ _ I01 Hp) Hpzone Hconf Hneed En) as (P3 & Hc3).
  cbn [put_pool evs pzone].
  assert (Hnp : PoolOKN (evs s3) (mkPool zone conf')) by (right; exact Hc3).
  split; [exact Hnp|]. split; [apply is_prefix_refl|].
  right. split; [reflexivity|split; [exact Ed|]].
  pose proof (post_trans _ _ _ _ _ _ _ _ P1 P3) as P13.
  destruct P13 as (Q1 & Q2 & Q3 & Q4).
  split; [apply Inv_put_pool; [exact Q1|reflexivity|exact Hnp]|].
  split; [exact Q2|]. split; [|exact Q4].
  intros Hw. specialize (Q3 Hw). cbn [put_pool evs]. unfold step_cost.
  assert (Hnw : (length need <= wvN)%nat).
  { unfold wv, wbound in *. destruct W as [w|]; [lia|congruence]. }
  nia.
Qed.

Definition U (d : N) : nat := walk_bound wvN (N.to_nat (ns_limit c) - N.to_nat d).

Lemma ns_loop_inv rec n : forall k j depth p s,
  (1 <= j)%nat -> (j + k <= length n + 1)%nat ->
  (forall n' d s0, depth < d -> InvN s0 -> walk_post (U d) n' d s0 (rec n' d s0)) ->
  InvN s -> PoolOKN (evs s) p -> is_subzone (pzone p) (firstn (j - 1) n) = true ->
  walk_post (U depth) n depth s
    (ns_loop net choose c rec (map (fun i => firstn i n) (seq j k)) depth p s).
Proof.
  induction k as [|k IH]; intros j depth p s Hj Hjk Hrec Hi Hp Hpz; cbn [seq map ns_loop].
  - cbn [walk_post]. split; [apply (post_weaken net c W 0); [lia|apply post_refl, Hi]|].
    split; [exact Hp|]. split; [|lia]. eapply is_prefix_trans; [exact Hpz|apply firstn_prefix].
  - assert (Hbase : base_name (firstn j n) = firstn (j - 1) n).
    { unfold base_name. destruct j as [|j']; [lia|]. replace (S j' - 1)%nat with j' by lia.
      apply removelast_firstn_S. lia. }
    assert (Hrec1 : forall n' s0, InvN s0 -> walk_post (U (depth + 1)) n' (depth + 1) s0 (rec n' (depth + 1) s0))
      by (intros n' s0 H0; apply Hrec; [lia|exact H0]).
    pose proof (ns_step_inv rec (firstn j n) depth (U (depth + 1)) p s Hrec1 Hi Hp) as Hs.
    rewrite Hbase in Hs. specialize (Hs Hpz).
    destruct (ns_step net choose c rec (firstn j n) depth p s) as [d' p' s'|s' e|]; [| |exact I].
    + destruct Hs as (Hp' & Hz' & Hcase).
      assert (Hz'' : is_subzone (pzone p') (firstn (S j - 1) n) = true)
        by (replace (S j - 1)%nat with j by lia; exact Hz').
      destruct Hcase as [[-> P]|(-> & Hlt & P)].
      * pose proof (IH (S j) depth p' s' ltac:(lia) ltac:(lia) Hrec (post_inv _ _ _ _ _ _ P) Hp' Hz'') as Hl.
        destruct (ns_loop net choose c rec (map (fun i => firstn i n) (seq (S j) k)) depth p' s')
          as [s2 [d2 p2]|s2 e2|]; [| |exact I]; cbn [walk_post] in *.
        -- destruct Hl as (P2 & A & B & C). split; [|auto].
           apply (post_trans _ _ _ 0 _ _ _ _ P P2).
        -- destruct Hl as (P2 & A). split; [|exact A]. apply (post_trans _ _ _ 0 _ _ _ _ P P2).
      * assert (Hrec' : forall n' d s0, depth + 1 < d -> InvN s0 -> walk_post (U d) n' d s0 (rec n' d s0))
          by (intros n' d s0 Hd H0; apply Hrec; [lia|exact H0]).
        pose proof (IH (S j) (depth + 1) p' s' ltac:(lia) ltac:(lia) Hrec' (post_inv _ _ _ _ _ _ P) Hp' Hz'') as Hl.
        assert (Hsum : (step_cost (U (depth + 1)) + U (depth + 1) <= U depth)%nat).
        { unfold U, step_cost.
          replace (N.to_nat (ns_limit c) - N.to_nat (depth + 1))%nat
            with (N.to_nat (ns_limit c) - N.to_nat depth - 1)%nat by lia.
          rewrite (walk_bound_step wvN (N.to_nat (ns_limit c) - N.to_nat depth)) by lia. nia. }
        destruct (ns_loop net choose c rec (map (fun i => firstn i n) (seq (S j) k)) (depth + 1) p' s')
          as [s2 [d2 p2]|s2 e2|]; [| |exact I]; cbn [walk_post] in *.
        -- destruct Hl as (P2 & A & B & C). split; [|split; [exact A|split; [exact B|lia]]].
           eapply post_weaken; [exact Hsum|]. apply (post_trans _ _ _ _ _ _ _ _ P P2).
        -- destruct Hl as (P2 & A). split; [|exact A].
           eapply post_weaken; [exact Hsum|]. apply (post_trans _ _ _ _ _ _ _ _ P P2).
    + cbn [walk_post]. destruct Hs as (He & [P|[Hlt P]]).
      * split; [|exact He]. eapply post_weaken; [|exact P]. lia.
      * split; [|exact He]. eapply post_weaken; [|exact P].
        unfold U. rewrite (walk_bound_step wvN (N.to_nat (ns_limit c) - N.to_nat depth)) by lia. lia.
Qed.

Lemma num_labels_le n : (num_labels n <= length n)%nat.
Proof.
  unfold num_labels. destruct (rev n) as [|l r]; [lia|]. destruct (N.eqb l star); lia.
Qed.

Lemma root_pool_ok es : PoolOKN es (root_pool c).
Proof. left. split; reflexivity. Qed.

Lemma ns_pool_inv : forall fuel n d s,
  InvN s -> walk_post (U d) n d s (ns_pool net choose c fuel n d s).
Proof.
  induction fuel as [|f IH]; intros n d s Hi; cbn [ns_pool]; [exact I|].
  unfold zones_of, zones_from.
  apply (ns_loop_inv (ns_pool net choose c f) n (num_labels n) 1 d (root_pool c) s).
  - lia.
  - pose proof (num_labels_le n). lia.
  - intros n' d' s0 _ H0. apply IH, H0.
  - exact Hi.
  - apply root_pool_ok.
  - reflexivity.
Qed.

End Net.
