(* C19 — property theorems (statements only; proofs are in *Proofs.v / Inv*.v).
   Print Assumptions under each.

   Vocabulary (Model.v, section Spec):  the network [net] is ANY function from (server address,
   query) to a reply — an adversary controlling every server; [choose] is ANY rule picking the
   server of a pool that gets asked (it must pick a member: [choose_ok]).
   Legit es r  : some logged upstream query was answered with record r while the asked pool's
                 zone enclosed r's owner  (= "r is in bailiwick of the server that sent it").
   AddrOK      : address allowed by the server filter, named by an in-bailiwick NS record owned
                 inside the zone's parent, and carried by an in-bailiwick address record OWNED BY
                 the NS target (strict) or found in the answer to an address query for it (loose).
   EvOK        : an upstream query went to a member of a justified pool (roots, or all AddrOK)
                 whose zone encloses the query name.
   Inv         : every positive cache entry is Legit and passed the answer filter; every cached
                 pool is justified; every upstream query so far is EvOK. *)
From HV Require Import Lib.Base C19.Model C19.BaseProofs C19.TermProofs C19.InvBase C19.InvWalk
  C19.InvResolve C19.FinalProofs.
Open Scope N_scope.

(* The bailiwick predicate is exactly "the child's labels end with the parent's labels"
   (names are root-first label lists, so: the parent is a prefix). *)
Theorem C19_is_subzone_spec : forall parent child,
  is_subzone parent child = true <-> exists below, child = parent ++ below.
Proof. exact is_prefix_spec. Qed.
Print Assumptions C19_is_subzone_spec.

(* Whatever the network sends and whichever server of the pool answers, every record of the
   message that [lookup] hands on (and caches) is owned by a name inside the zone it was given. *)
Theorem C19_lookup_filter_sound : forall net choose c q zone p s s' m,
  lookup net choose c q zone p s = (s', inl m) ->
  forall r, In r (all_sections m) -> exists below, owner r = zone ++ below.
Proof.
  intros net choose c q zone p s s' m H r Hr. apply is_prefix_spec.
  exact (lookup_in_zone net choose c q zone p s s' m H r Hr).
Qed.
Print Assumptions C19_lookup_filter_sound.

(* TERMINATION.  For every network (CNAME loops, NS loops, glueless cycles, lame and
   self-referential delegations are all just functions [net]), every server choice, every
   configuration, every cache state and every query, the resolution ends with an answer or an
   error: with fuel [fuel_for c] = recursion_limit + ns_recursion_limit + 2 the model never
   runs out of fuel. *)
Theorem C19_terminates : forall net choose c q s,
  resolve_top net choose c (fuel_for c) q s <> OutOfFuel.
Proof. exact resolve_top_fuel. Qed.
Print Assumptions C19_terminates.

(* BOUND.  If no reply carries more than [w] NS records, one resolution (after any history of
   earlier client queries) sends at most query_bound c w =
   66 * (walk_bound w ns_recursion_limit + 1) upstream queries, where walk_bound w k =
   1 + 2w + (w+1) * walk_bound w (k-1) bounds one delegation walk and 66 = 2 + MAX_CNAME_LOOKUPS. *)
Theorem C19_query_bound : forall net choose c w qs q,
  choose_ok choose ->
  (forall a q', (ns_count (net a q') <= w)%nat) ->
  let s := run_history net choose c qs st0 in
  (length (evs (state_after s (resolve_top net choose c (fuel_for c) q s)))
   <= length (evs s) + query_bound c w)%nat.
Proof.
  intros net choose c w qs q Hc Hw s.
  apply (resolve_top_count net choose c (Some w) Hc Hw w q s eq_refl).
  apply run_history_inv; [exact Hc|exact Hw|apply Inv_st0].
Qed.
Print Assumptions C19_query_bound.

(* BAILIWICK, all histories.  After any sequence of client queries against any network, the
   state satisfies Inv (loose reading of server addresses): nothing out of bailiwick is cached,
   every cached name-server pool and every server ever contacted is justified by in-bailiwick
   data, the pool's zone encloses the name asked. *)
Theorem C19_reachable_states_in_bailiwick : forall net choose c qs,
  choose_ok choose -> Inv net c None false (run_history net choose c qs st0).
Proof.
  intros net choose c qs Hc. apply run_history_inv; [exact Hc|intros a q; exact I|apply Inv_st0].
Qed.
Print Assumptions C19_reachable_states_in_bailiwick.

(* BAILIWICK, returned data.  Every record of a successful answer (all three sections,
   including the records appended while chasing aliases) is in bailiwick of the server that sent
   it, and passed the answer filter. *)
Theorem C19_returned_in_bailiwick : forall net choose c qs q s' m,
  choose_ok choose ->
  let s := run_history net choose c qs st0 in
  resolve_top net choose c (fuel_for c) q s = Done s' m ->
  forall r, In r (all_sections m) -> Legit net (evs s') r /\ ans_ok c r = true.
Proof.
  intros net choose c qs q s' m Hc s E.
  assert (Hi : Inv net c None false s) by (apply run_history_inv; [exact Hc|intros a q0; exact I|apply Inv_st0]).
  pose proof (resolve_top_post net choose c None Hc (fun _ _ => I) q s Hi) as H.
  rewrite E in H. cbn [res_post] in H. destruct H as (_ & _ & Hm & _). exact Hm.
Qed.
Print Assumptions C19_returned_in_bailiwick.

(* FILTERS / CONTACTED SERVERS.  Every upstream query ever sent went to a configured root or to
   an address the server filter allows, as a member of the pool that was asked, and that pool's
   zone encloses the query name. *)
Theorem C19_contacted_servers_allowed : forall net choose c qs e,
  choose_ok choose ->
  In e (evs (run_history net choose c qs st0)) ->
  (In (e_ip e) (roots c) \/ denied (srv_filter c) (e_ip e) = false) /\
  In (e_ip e) (e_pool e) /\
  exists below, fst (e_q e) = e_zone e ++ below.
Proof.
  intros net choose c qs e Hc He.
  destruct (C19_reachable_states_in_bailiwick net choose c qs Hc) as (_ & _ & _ & I4).
  pose proof (I4 e He) as Hev. split; [eapply EvOK_filter; eauto|].
  destruct Hev as (Hz & Hin & _). split; [exact Hin|]. apply is_prefix_spec. exact Hz.
Qed.
Print Assumptions C19_contacted_servers_allowed.

(* SERVER ADDRESSES, strict reading — REFUTED.  "Records whose owner lies outside the zone the
   answering server was delegated are never used as nameserver addresses" does not hold: a
   server gets contacted although every record that ever carried its address was owned outside
   the zone of the pool that received it (glueless NS name, address taken from the answer
   section of the address lookup whatever its owner).  Replayed on the real Recursor by the
   harness (known finding C19-glueless-address-owner). *)
Theorem C19_server_address_owner_refuted :
  exists net choose c q, choose_ok choose /\
    let s := state_after st0 (resolve_top net choose c (fuel_for c) q st0) in
    exists e, In e (evs s) /\ ~ In (e_ip e) (roots c) /\
      forall e' r, In e' (evs s) -> delivered net e' r -> rd_ip (rdat r) = Some (e_ip e) ->
                   is_subzone (e_zone e') (owner r) = false.
Proof.
  exists (tnet wtab1), (tchoose wtab1), wcfg, wq1. split; [apply tchoose_ok|exact witness1].
Qed.
Print Assumptions C19_server_address_owner_refuted.

(* ... and GUARDED: outside the narrow class "some server answers an address query with an
   address record owned by another name" the strict reading holds for all histories. *)
Theorem C19_server_address_owner_guarded : forall net choose c qs,
  choose_ok choose -> LooseFree net ->
  Inv net c None true (run_history net choose c qs st0).
Proof.
  intros net choose c qs Hc Hf. apply Inv_strict; [exact Hf|].
  apply C19_reachable_states_in_bailiwick, Hc.
Qed.
Print Assumptions C19_server_address_owner_guarded.

(* ERROR RESULTS — REFUTED.  A negative or referral result hands the caller (and the cache)
   records that are out of bailiwick: NXDOMAIN / NODATA / referral replies are not filtered.
   Replayed on the real Recursor (known finding C19-negative-unfiltered). *)
Theorem C19_error_records_in_bailiwick_refuted :
  exists net choose c q s' e r, choose_ok choose /\
    resolve_top net choose c (fuel_for c) q st0 = Fail s' e /\
    In r (err_records e) /\ ~ Legit net (evs s') r.
Proof.
  destruct witness2 as (s' & e & r & H1 & H2 & H3).
  exists (tnet wtab2), (tchoose wtab2), wcfg, wq2, s', e, r. split; [apply tchoose_ok|auto].
Qed.
Print Assumptions C19_error_records_in_bailiwick_refuted.

(* ... and GUARDED: if every no-records reply seen so far kept its authority and additional
   records inside the asked pool's zone, the records inside an error result are in bailiwick. *)
Theorem C19_error_records_in_bailiwick_guarded : forall net choose c qs q s' e,
  choose_ok choose ->
  let s := run_history net choose c qs st0 in
  resolve_top net choose c (fuel_for c) q s = Fail s' e ->
  NegClean net (evs s') ->
  forall r, In r (err_records e) -> Legit net (evs s') r.
Proof.
  intros net choose c qs q s' e Hc s E Hn.
  assert (Hi : Inv net c None false s) by (apply run_history_inv; [exact Hc|intros a q0; exact I|apply Inv_st0]).
  pose proof (resolve_top_post net choose c None Hc (fun _ _ => I) q s Hi) as H.
  rewrite E in H. cbn [res_post] in H. destruct H as (_ & _ & Ho & _).
  apply err_records_legit; assumption.
Qed.
Print Assumptions C19_error_records_in_bailiwick_guarded.

(* Stub resolver: for every upstream behaviour (alias loops included) the alias chase ends,
   after at most MAX_QUERY_DEPTH = 8 upstream queries. *)
Theorem C19_stub_chase_bounded : forall up q,
  exists l r, stub_chase 8 up q 0 = Some (l, r) /\ (length l <= 8)%nat.
Proof.
  intros up q. destruct (stub_chase_fuel up 8 q 0) as (l & r & E & Hl); [cbn; lia|lia|].
  exists l, r. split; [exact E|]. cbn in Hl. lia.
Qed.
Print Assumptions C19_stub_chase_bounded.

(* ------------------------------------------------------------------------------------------ *)
(* Non-vacuity *)

Example C19_is_subzone_examples :
  is_subzone [] [3] = true /\ is_subzone [3] [4; 5] = false /\
  is_subzone [3; 7] [3; 7; 9] = true /\ is_subzone [3; 7] [3; 8; 9] = false /\
  is_subzone [3; 7; 9] [3; 7] = false.
Proof. repeat split. Qed.

(* hypotheses of the history theorems are satisfiable by a network on which a delegation walk
   with a glueless name server succeeds: 5 upstream queries, an answer *)
Example C19_history_example :
  choose_ok (tchoose wtab1) /\
  (forall a q, (ns_count (tnet wtab1 a q) <= 1)%nat) /\
  exists s' m, resolve_top (tnet wtab1) (tchoose wtab1) wcfg (fuel_for wcfg) wq1 st0 = Done s' m /\
               length (evs s') = 5%nat /\ an m = [mkRR [1;25;23] (RA 6666)].
Proof.
  split; [apply tchoose_ok|]. split.
  - intros a q. unfold wtab1. cbn [tnet].
    repeat (match goal with |- context [if ?b then _ else _] => destruct b end; [vm_compute; lia|]).
    vm_compute; lia.
  - eexists _, _. split; [vm_compute; reflexivity|]. split; reflexivity.
Qed.

(* LooseFree and NegClean are satisfiable by a working network (an ordinary delegation with glue) *)
Definition wtab3 : table :=
  [ (V4 1, ([1], 2), mkMsg 0 false [] [mkRR [1] (RNS [1;14])] [mkRR [1;14] (RA 2)]);
    (V4 2, ([1;23], 2), mkMsg 0 true [] [mkRR [1] RSOA] []);
    (V4 2, ([1;23], 1), mkMsg 0 true [mkRR [1;23] (RA 7)] [] []) ].
Example C19_guard_example :
  LooseFree (tnet wtab3) /\
  exists s' m, resolve_top (tnet wtab3) (tchoose wtab3) wcfg (fuel_for wcfg) ([1;23], 1) st0 = Done s' m /\
               NegClean (tnet wtab3) (evs s') /\ length (evs s') = 3%nat.
Proof.
  split.
  - intros a q r Ht Hin Hip. unfold wtab3 in Hin. cbn [tnet] in Hin.
    repeat (match type of Hin with context [if ?b then _ else _] => destruct b eqn:? end;
            [cbn [an] in Hin;
             repeat (destruct Hin as [<-|Hin]; [try (exfalso; apply Hip; reflexivity)|]); try destruct Hin|]);
      try (cbn in Hin; destruct Hin).
    apply andb_true_iff in Heqb1. destruct Heqb1 as [_ Hq]. unfold query_eqb in Hq.
    apply andb_true_iff in Hq. destruct Hq as [Hq _]. apply name_eqb_eq in Hq. cbn [owner]. now rewrite Hq.
  - eexists _, _. split; [vm_compute; reflexivity|]. split; [|reflexivity].
    intros e nx r He Hcl Hr. cbn [evs] in He.
    repeat (destruct He as [<-|He];
            [vm_compute in Hr; vm_compute in Hcl; try discriminate;
             repeat (destruct Hr as [<-|Hr]; [vm_compute; reflexivity|]); try destruct Hr|]).
    destruct He.
Qed.

Example C19_stub_loop_example :
  let up := fun q : query => SCname (match fst q with [1] => [2] | _ => [1] end) in
  exists l, stub_chase 8 up ([1], 1) 0 = Some (l, SNoRecords) /\ length l = 8%nat.
Proof. cbv zeta. eexists. split; [vm_compute; reflexivity|reflexivity]. Qed.
