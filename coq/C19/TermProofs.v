(* C19 — termination: OutOfFuel is unreachable with fuel_for c, for every network *)
From HV Require Import Lib.Base C19.Model C19.BaseProofs.
Open Scope N_scope.

Section Net.
Variable net : ip -> query -> msg.
Variable choose : list ip -> query -> option ip.
Variable c : cfg.

Lemma ap_pools_fuel rec zone depth p need :
  (forall n s0, rec n depth s0 <> OutOfFuel) ->
  forall s, ap_pools rec zone depth p need s <> None.
Proof.
  intros Hrec. induction need as [|n need IH]; intros s; cbn [ap_pools]; [discriminate|].
  destruct (is_subzone zone n).
  - specialize (IH s). destruct (ap_pools rec zone depth p need s) as [[s' l]|]; [discriminate|contradiction].
  - destruct (rec n depth s) as [s1 [d1 p1]|s1 e|] eqn:Er.
    + specialize (IH s1). destruct (ap_pools rec zone depth p need s1) as [[s' l]|]; [discriminate|contradiction].
    + apply IH.
    + exfalso. exact (Hrec n s Er).
Qed.

Lemma ns_step_fuel rec zone depth p s :
  (forall n s0, depth + 1 < ns_limit c -> rec n (depth + 1) s0 <> OutOfFuel) ->
  ns_step net choose c rec zone depth p s <> SFuel.
Proof.
  intros Hrec. unfold ns_step.
  destruct (assoc name_eqb zone (nscache s)); [discriminate|].
  destruct (negb (depth + 1 <? ns_limit c)) eqn:Ed; [discriminate|].
  apply negb_false_iff, N.ltb_lt in Ed.
  destruct (ns_fetch net choose c (zone, T_NS) (base_name zone) p s) as [s1 [m|e]].
  2:{ destruct (is_nx e); discriminate. }
  destruct (negb (any_ns zone m)); [discriminate|].
  destruct (ns_conf c (base_name zone) m s1) as [conf need].
  unfold ns_addrs. destruct (is_nil conf && negb (is_nil need)).
  - pose proof (ap_pools_fuel rec zone (depth + 1) p need (fun n s0 => Hrec n s0 Ed) s1) as Hap.
    destruct (ap_pools rec zone (depth + 1) p need s1) as [[s2 pq]|]; [|contradiction].
    destruct (addr_lookups net choose c pq s2). discriminate.
  - discriminate.
Qed.

(* the depth only grows along the loop *)
Lemma ns_step_depth rec zone depth p s d' p' s' :
  ns_step net choose c rec zone depth p s = SNext d' p' s' -> depth <= d'.
Proof.
  unfold ns_step.
  destruct (assoc name_eqb zone (nscache s)); [intros H; inversion H; lia|].
  destruct (negb (depth + 1 <? ns_limit c)); [discriminate|].
  destruct (ns_fetch net choose c (zone, T_NS) (base_name zone) p s) as [s1 [m|e]].
  2:{ destruct (is_nx e); [discriminate|]. intros H; inversion H; lia. }
  destruct (negb (any_ns zone m)); [intros H; inversion H; lia|].
  destruct (ns_conf c (base_name zone) m s1) as [conf need].
  destruct (ns_addrs net choose c rec zone (depth + 1) p conf need s1) as [[s3 conf']|]; [|discriminate].
  intros H; inversion H; lia.
Qed.

(* a step that is not served from the pool cache passed the depth check *)
Lemma ns_step_depth_lt rec zone depth p s d' p' s' :
  ns_step net choose c rec zone depth p s = SNext d' p' s' -> d' = depth \/ (d' = depth + 1 /\ d' < ns_limit c).
Proof.
  unfold ns_step.
  destruct (assoc name_eqb zone (nscache s)); [intros H; inversion H; auto|].
  destruct (negb (depth + 1 <? ns_limit c)) eqn:Ed; [discriminate|].
  apply negb_false_iff, N.ltb_lt in Ed.
  destruct (ns_fetch net choose c (zone, T_NS) (base_name zone) p s) as [s1 [m|e]].
  2:{ destruct (is_nx e); [discriminate|]. intros H; inversion H; subst; auto. }
  destruct (negb (any_ns zone m)); [intros H; inversion H; subst; auto|].
  destruct (ns_conf c (base_name zone) m s1) as [conf need].
  destruct (ns_addrs net choose c rec zone (depth + 1) p conf need s1) as [[s3 conf']|]; [|discriminate].
  intros H; inversion H; subst; auto.
Qed.

Lemma ns_loop_fuel rec zones : forall depth p s,
  (forall n d s0, depth < d -> d < ns_limit c -> rec n d s0 <> OutOfFuel) ->
  ns_loop net choose c rec zones depth p s <> OutOfFuel.
Proof.
  induction zones as [|zone rest IH]; intros depth p s Hrec; cbn [ns_loop]; [discriminate|].
  destruct (ns_step net choose c rec zone depth p s) as [d' p' s'|s' e|] eqn:Es.
  - apply IH. intros n d s0 Hd Hl. apply Hrec; [|exact Hl].
    pose proof (ns_step_depth _ _ _ _ _ _ _ _ Es). lia.
  - discriminate.
  - exfalso. revert Es. apply ns_step_fuel. intros n s0 Hl. apply Hrec; [lia|exact Hl].
Qed.

Lemma ns_loop_depth rec zones : forall depth p s s' d' p',
  ns_loop net choose c rec zones depth p s = Done s' (d', p') -> depth <= d'.
Proof.
  induction zones as [|zone rest IH]; intros depth p s s' d' p'; cbn [ns_loop].
  - intros H; inversion H; lia.
  - destruct (ns_step net choose c rec zone depth p s) as [d1 p1 s1|s1 e|] eqn:Es; try discriminate.
    intros H. apply IH in H. pose proof (ns_step_depth _ _ _ _ _ _ _ _ Es). lia.
Qed.

Lemma ns_pool_fuel : forall fuel n d s,
  (N.to_nat (ns_limit c) - N.to_nat d < fuel)%nat ->
  ns_pool net choose c fuel n d s <> OutOfFuel.
Proof.
  induction fuel as [|f IH]; intros n d s Hf; [lia|].
  cbn [ns_pool]. apply ns_loop_fuel. intros n' d' s0 Hd Hl. apply IH. lia.
Qed.

Lemma ns_pool_depth fuel n d s s' d' p' :
  ns_pool net choose c fuel n d s = Done s' (d', p') -> d <= d'.
Proof. destruct fuel as [|f]; cbn [ns_pool]; [discriminate|]. apply ns_loop_depth. Qed.

(* ---------------------------------------------------------------------------------------- *)

Lemma cname_step_fuel rec ans qt depth r s :
  (forall q s0, rec q depth s0 <> OutOfFuel) ->
  cname_step rec ans qt depth r s <> CFuel.
Proof.
  intros Hrec. unfold cname_step. destruct (rdat r); try discriminate.
  destruct (existsb _ ans); [discriminate|].
  destruct (MAX_CNAME_LOOKUPS <? cn s + 1); [discriminate|].
  destruct (rec (t, qt) depth (set_cn s (cn s + 1))) eqn:Er; try discriminate.
  exfalso. exact (Hrec _ _ Er).
Qed.

Lemma cname_loop_fuel rec ans qt depth rs : forall chain s,
  (forall q s0, rec q depth s0 <> OutOfFuel) ->
  cname_loop rec ans qt depth rs chain s <> OutOfFuel.
Proof.
  induction rs as [|r rs IH]; intros chain s Hrec; cbn [cname_loop]; [discriminate|].
  destruct (cname_step rec ans qt depth r s) eqn:Es; [apply IH; exact Hrec|discriminate|].
  exfalso. revert Es. apply cname_step_fuel. exact Hrec.
Qed.

Lemma resolve_cnames_fuel rec m q depth s :
  (forall q' s0, depth + 1 < rec_limit c -> rec q' (depth + 1) s0 <> OutOfFuel) ->
  resolve_cnames c rec m q depth s <> OutOfFuel.
Proof.
  intros Hrec. unfold resolve_cnames.
  destruct (N.eqb (snd q) T_CNAME || N.eqb (snd q) T_ANY); [discriminate|].
  destruct (negb (existsb is_cname (all_sections m))); [discriminate|].
  destruct (negb (depth + 1 <? rec_limit c)) eqn:Ed; [discriminate|].
  apply negb_false_iff, N.ltb_lt in Ed.
  pose proof (cname_loop_fuel rec (an m) (snd q) (depth + 1) (all_sections m) [] s
                (fun q' s0 => Hrec q' s0 Ed)) as Hl.
  destruct (cname_loop rec (an m) (snd q) (depth + 1) (all_sections m) [] s); try discriminate.
  contradiction.
Qed.

Lemma resolve_fuel : forall fuel q d s,
  (N.to_nat (rec_limit c) - N.to_nat d + N.to_nat (ns_limit c) + 2 <= fuel)%nat ->
  resolve net choose c fuel q d s <> OutOfFuel.
Proof.
  induction fuel as [|f IH]; intros q d s Hf; [lia|].
  cbn [resolve]. unfold resolve_body.
  assert (Hcn : forall m d', d <= d' -> resolve_cnames c (resolve net choose c f) m q d' s <> OutOfFuel
                                      /\ forall s', resolve_cnames c (resolve net choose c f) m q d' s' <> OutOfFuel).
  { intros m d' Hd. split; [|intros s']; apply resolve_cnames_fuel; intros q' s0 Hl; apply IH; lia. }
  assert (Hmiss : resolve_miss net choose c (resolve net choose c f) f q d s <> OutOfFuel).
  { unfold resolve_miss.
    set (zone := if N.eqb (snd q) T_DS then base_name (fst q) else fst q).
    pose proof (ns_pool_fuel f zone d s) as Hns.
    destruct (ns_pool net choose c f zone d s) as [s1 [d1 p1]|s1 e|] eqn:En.
    - apply ns_pool_depth in En.
      destruct (final_fetch net choose c q p1 s1) as [s2 [m|e]]; [|discriminate].
      apply (Hcn m d1 En).
    - destruct (is_nx e); discriminate.
    - exfalso. apply Hns; [lia|reflexivity]. }
  destruct (cache_get q s) as [[m|e]|]; [|discriminate|exact Hmiss].
  destruct (aa m); [|exact Hmiss]. apply (Hcn m d). lia.
Qed.

Lemma resolve_top_fuel q s : resolve_top net choose c (fuel_for c) q s <> OutOfFuel.
Proof. unfold resolve_top. apply resolve_fuel. unfold fuel_for. lia. Qed.

End Net.
