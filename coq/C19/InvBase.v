(* C19 — invariant machinery, part 1: monotonicity, send, lookup *)
From HV Require Import Lib.Base C19.Model C19.BaseProofs.
Open Scope N_scope.

Lemma filter_filter_and {A} (f g : A -> bool) l :
  filter f (filter g l) = filter (fun x => g x && f x) l.
Proof.
  induction l as [|x l IH]; cbn [filter]; [reflexivity|].
  destruct (g x); cbn [filter andb]; [destruct (f x)|]; now rewrite IH.
Qed.

Lemma filter_true {A} (l : list A) : filter (fun _ => true) l = l.
Proof. induction l as [|x l IH]; cbn [filter]; [reflexivity|now rewrite IH]. Qed.

Lemma filter_filter_length {A} (p f : A -> bool) l :
  (length (filter p (filter f l)) <= length (filter p l))%nat.
Proof.
  induction l as [|x l IH]; cbn [filter]; [lia|].
  destruct (f x); cbn [filter]; destruct (p x); cbn [length]; lia.
Qed.

Lemma firstn_incl {A} n (l : list A) : incl (firstn n l) l.
Proof.
  revert l; induction n as [|n IH]; intros l x Hx; cbn [firstn] in Hx; [destruct Hx|].
  destruct l as [|y l]; [destruct Hx|]. destruct Hx as [->|Hx]; [left; reflexivity|right; apply IH, Hx].
Qed.

Lemma filter_incl {A} (f : A -> bool) l : incl (filter f l) l.
Proof. intros x Hx. apply filter_In in Hx. apply Hx. Qed.

Lemma assoc_In {K V} (eqb : K -> K -> bool) k (l : list (K * V)) v :
  assoc eqb k l = Some v -> exists k', In (k', v) l /\ eqb k k' = true.
Proof.
  induction l as [|[k' v'] l IH]; cbn [assoc]; [discriminate|].
  destruct (eqb k k') eqn:E.
  - intros H; inversion H; subst. exists k'. split; [left; reflexivity|exact E].
  - intros H. destruct (IH H) as (k2 & Hin & He). exists k2. split; [right; exact Hin|exact He].
Qed.

(* [m'] is [m] with the same record predicate applied to the three sections *)
Definition fsub (m' m : msg) : Prop :=
  exists f, an m' = filter f (an m) /\ au m' = filter f (au m) /\ ad m' = filter f (ad m).

Lemma fsub_refl m : fsub m m.
Proof. exists (fun _ => true). now rewrite !filter_true. Qed.

Lemma fsub_trans a b d : fsub a b -> fsub b d -> fsub a d.
Proof.
  intros (f & H1 & H2 & H3) (g & G1 & G2 & G3). exists (fun x => g x && f x).
  rewrite H1, H2, H3, G1, G2, G3, !filter_filter_and. auto.
Qed.

Lemma fsub_sections m' m : fsub m' m -> incl (all_sections m') (all_sections m).
Proof.
  intros (f & H1 & H2 & H3). unfold all_sections. rewrite H1, H2, H3.
  intros x. rewrite !in_app_iff. intros [H|[H|H]]; apply filter_incl in H; auto.
Qed.

Lemma fsub_ns_count m' m : fsub m' m -> (ns_count m' <= ns_count m)%nat.
Proof.
  intros (f & H1 & H2 & H3). unfold ns_count, all_sections. rewrite H1, H2, H3.
  rewrite !filter_app, !app_length.
  pose proof (filter_filter_length is_ns f (an m)). pose proof (filter_filter_length is_ns f (au m)).
  pose proof (filter_filter_length is_ns f (ad m)). lia.
Qed.

Lemma fsub_an m' m : fsub m' m -> incl (an m') (an m).
Proof. intros (f & H1 & _). rewrite H1. apply filter_incl. Qed.

Section Net.
Variable net : ip -> query -> msg.
Variable choose : list ip -> query -> option ip.
Variable c : cfg.
Variable W : option nat.
Hypothesis Hchoose : forall l q a, choose l q = Some a -> In a l.
Hypothesis HW : forall a q, wbound W (net a q).

Local Notation LegitN := (Legit net).
Local Notation LooseN := (Loose net).
Local Notation AddrOKN := (AddrOK net c false).
Local Notation PoolOKN := (PoolOK net c false).
Local Notation EvOKN := (EvOK net c false).
Local Notation msg_legitN := (msg_legit net c).
Local Notation neg_originN := (neg_origin net).
Local Notation InvN := (Inv net c W false).

(* ---------------------------------------------------------------------------------------- *)
(* monotonicity in the event log *)

Lemma Legit_mono es es' r : incl es es' -> LegitN es r -> LegitN es' r.
Proof. intros Hi (e & He & H). exists e. split; [apply Hi, He|exact H]. Qed.

Lemma Loose_mono es es' t r : incl es es' -> LooseN es t r -> LooseN es' t r.
Proof. intros Hi (e & He & H). exists e. split; [apply Hi, He|exact H]. Qed.

Lemma AddrOK_mono es es' Z a : incl es es' -> AddrOKN es Z a -> AddrOKN es' Z a.
Proof.
  intros Hi (Hd & rNS & t & rA & H1 & H2 & H3 & H4 & H5). split; [exact Hd|].
  exists rNS, t, rA. split; [eapply Legit_mono; eauto|]. split; [exact H2|]. split; [exact H3|].
  split; [exact H4|].
  destruct H5 as [[H5 H6]|[H5 H6]]; [left|right]; split; eauto using Legit_mono, Loose_mono.
Qed.

Lemma PoolOK_mono es es' p : incl es es' -> PoolOKN es p -> PoolOKN es' p.
Proof. intros Hi [H|H]; [left; exact H|right]. intros a Ha. eapply AddrOK_mono; eauto. Qed.

Lemma EvOK_mono es es' e : incl es es' -> EvOKN es e -> EvOKN es' e.
Proof. intros Hi (H1 & H2 & H3). split; [exact H1|split; [exact H2|]]. eapply PoolOK_mono; eauto. Qed.

Lemma msg_legit_mono es es' m : incl es es' -> msg_legitN es m -> msg_legitN es' m.
Proof. intros Hi H r Hr. destruct (H r Hr). split; eauto using Legit_mono. Qed.

Lemma neg_origin_mono es es' m : incl es es' -> neg_originN es m -> neg_originN es' m.
Proof. intros Hi [H|(e & nx & He & H)]; [left; exact H|right; exists e, nx; split; auto]. Qed.

(* ---------------------------------------------------------------------------------------- *)
(* state updates *)

Lemma Inv_log_ev s e : InvN s -> EvOKN (e :: evs s) e -> InvN (log_ev s e).
Proof.
  intros (I1 & I2 & I3 & I4) He. unfold Inv. cbn [log_ev rcache nscache evs].
  assert (Hi : incl (evs s) (e :: evs s)) by apply incl_tl, incl_refl.
  split; [|split; [|split]].
  - intros q m H. destruct (I1 q m H) as [H1 H2]. split; [|exact H2].
    eapply msg_legit_mono; [exact Hi|exact H1].
  - intros q nx m H. eapply neg_origin_mono; [exact Hi|]. eapply I2; eauto.
  - intros z p H. destruct (I3 z p H) as [Hz Hp]. split; [exact Hz|]. eapply PoolOK_mono; eauto.
  - intros e' [<-|Hin]; [exact He|]. eapply EvOK_mono; [exact Hi|]. apply I4, Hin.
Qed.

Lemma Inv_cache_put_pos s q m :
  InvN s -> msg_legitN (evs s) m -> wbound W m -> InvN (cache_put q (CPos m) s).
Proof.
  intros (I1 & I2 & I3 & I4) Hm Hw. unfold Inv. cbn [cache_put rcache nscache evs].
  split; [|split; [|split]]; auto.
  - intros q' m' [H|H]; [inversion H; subst; split; assumption|eapply I1; eauto].
  - intros q' nx m' [H|H]; [discriminate|eapply I2; eauto].
Qed.

Lemma Inv_cache_put_neg s q nx m :
  InvN s -> neg_originN (evs s) m -> InvN (cache_put q (CNeg nx m) s).
Proof.
  intros (I1 & I2 & I3 & I4) Hm. unfold Inv. cbn [cache_put rcache nscache evs].
  split; [|split; [|split]]; auto.
  - intros q' m' [H|H]; [discriminate|eapply I1; eauto].
  - intros q' nx' m' [H|H]; [inversion H; subst; exact Hm|eapply I2; eauto].
Qed.

Lemma Inv_cache_put_exp s q : InvN s -> InvN (cache_put q CExpired s).
Proof.
  intros (I1 & I2 & I3 & I4). unfold Inv. cbn [cache_put rcache nscache evs].
  split; [|split; [|split]]; auto.
  - intros q' m' [H|H]; [discriminate|eapply I1; eauto].
  - intros q' nx' m' [H|H]; [discriminate|eapply I2; eauto].
Qed.

Lemma Inv_set_cn s n : InvN s -> InvN (set_cn s n).
Proof. intros H. exact H. Qed.

Lemma Inv_put_pool s z p : InvN s -> pzone p = z -> PoolOKN (evs s) p -> InvN (put_pool z p s).
Proof.
  intros (I1 & I2 & I3 & I4) Hz Hp. unfold Inv. cbn [put_pool rcache nscache evs].
  split; [|split; [|split]]; auto.
  intros z0 p0 [H|H]; [inversion H; subst; split; [reflexivity|exact Hp]|apply I3, H].
Qed.

Lemma cache_get_pos q s m :
  cache_get q s = Some (inl m) -> exists q', In (q', CPos m) (rcache s).
Proof.
  unfold cache_get. destruct (assoc query_eqb q (rcache s)) as [[m'|nx m'|]|] eqn:E; try discriminate.
  intros H; inversion H; subst. destruct (assoc_In _ _ _ _ E) as (q' & Hin & _). exists q'. exact Hin.
Qed.

Lemma cache_get_neg q s e :
  cache_get q s = Some (inr e) -> exists q' nx m, e = PNoRec nx m /\ In (q', CNeg nx m) (rcache s).
Proof.
  unfold cache_get. destruct (assoc query_eqb q (rcache s)) as [[m'|nx m'|]|] eqn:E; try discriminate.
  intros H; inversion H; subst. destruct (assoc_In _ _ _ _ E) as (q' & Hin & _). exists q', nx, m'. auto.
Qed.

(* ---------------------------------------------------------------------------------------- *)
(* frame conditions shared by every operation *)

Definition post (k : nat) (s s' : st) : Prop :=
  InvN s' /\ incl (evs s) (evs s') /\
  (W <> None -> (length (evs s') <= length (evs s) + k)%nat) /\ cn s' = cn s.

(* the NS-record bound as a number (0 when there is none: then no count is claimed) *)
Definition wv : nat := match W with Some w => w | None => O end.

Lemma post_refl s : InvN s -> post 0 s s.
Proof. intros H. split; [exact H|split; [apply incl_refl|split; [intros _; lia|reflexivity]]]. Qed.

Lemma post_trans k1 k2 s s1 s2 : post k1 s s1 -> post k2 s1 s2 -> post (k1 + k2) s s2.
Proof.
  intros (_ & A2 & A3 & A4) (B1 & B2 & B3 & B4).
  split; [exact B1|split; [eapply incl_tran; eauto|split; [|congruence]]].
  intros Hw. specialize (A3 Hw). specialize (B3 Hw). lia.
Qed.

Lemma post_weaken k k' s s' : (k <= k')%nat -> post k s s' -> post k' s s'.
Proof.
  intros Hk (A1 & A2 & A3 & A4). split; [exact A1|split; [exact A2|split; [|exact A4]]].
  intros Hw. specialize (A3 Hw). lia.
Qed.

Lemma post_inv k s s' : post k s s' -> InvN s'.
Proof. intros H; apply H. Qed.

Lemma post_incl k s s' : post k s s' -> incl (evs s) (evs s').
Proof. intros H; apply H. Qed.

(* ---------------------------------------------------------------------------------------- *)
(* errors: where the records they carry come from *)

Definition rerr_origin (es : list event) (e : rerr) : Prop :=
  exists m0, neg_originN es m0 /\ incl (err_records e) (au m0 ++ ad m0).

Lemma rerr_origin_nil es e : err_records e = [] -> rerr_origin es e.
Proof. intros H. exists empty_msg. split; [left; reflexivity|]. rewrite H. intros x []. Qed.

Lemma rerr_origin_mono es es' e : incl es es' -> rerr_origin es e -> rerr_origin es' e.
Proof. intros Hi (m0 & H1 & H2). exists m0. split; [eapply neg_origin_mono; eauto|exact H2]. Qed.

Lemma glue_for_incl m r : incl (glue_for m r) (ad m).
Proof. unfold glue_for. destruct (rdat r); try (intros x []). apply filter_incl. Qed.

Lemma to_rerr_origin es e :
  (forall nx m, e = PNoRec nx m -> neg_originN es m) -> rerr_origin es (to_rerr e).
Proof.
  intros H. destruct e as [nx m|code|]; cbn [to_rerr]; try (apply rerr_origin_nil; reflexivity).
  exists m. split; [eapply H; reflexivity|].
  destruct (negb (is_nil (filter is_ns (au m))) && negb nx); cbn [err_records].
  - intros x Hx. apply in_app_iff in Hx. apply in_app_iff. destruct Hx as [Hx|Hx].
    + left. eapply filter_incl; eauto.
    + right. apply in_flat_map in Hx. destruct Hx as (r & _ & Hx). eapply glue_for_incl; eauto.
  - intros x Hx. apply in_app_iff in Hx. apply in_app_iff. left. destruct Hx as [Hx|Hx]; [|exact Hx].
    apply firstn_incl in Hx. eapply filter_incl; eauto.
Qed.

(* ---------------------------------------------------------------------------------------- *)
(* send *)

Lemma send_spec p q s s1 r :
  send net choose c p q s = (s1, r) ->
  (s1 = s /\ r = inr PNoConn) \/
  exists a, In a (pips p) /\ s1 = log_ev s (mkEv a q (pzone p) (pips p)) /\
            r = match classify q (net a q) with inl m => pool_filter c m | inr e => inr e end.
Proof.
  unfold send. destruct (pips p) as [|a0 l] eqn:Ep.
  - intros H; inversion H; auto.
  - destruct (choose (a0 :: l) q) as [a|] eqn:Ec.
    + intros H; inversion H; subst. right. exists a. split; [eapply Hchoose; eauto|split; reflexivity].
    + intros H; inversion H; auto.
Qed.

Lemma classify_inl q m m' : classify q m = inl m' -> m' = m.
Proof.
  unfold classify. destruct (code_is_error (rcode m)); [discriminate|].
  destruct ((N.eqb (rcode m) 3 || N.eqb (rcode m) 0) && negb (contains_answer q m)); [discriminate|].
  intros H; inversion H; reflexivity.
Qed.

Lemma classify_inr q m e : classify q m = inr e -> (exists code, e = PCode code) \/ exists nx, e = PNoRec nx m.
Proof.
  unfold classify. destruct (code_is_error (rcode m)); [intros H; inversion H; eauto|].
  destruct ((N.eqb (rcode m) 3 || N.eqb (rcode m) 0) && negb (contains_answer q m)); [|discriminate].
  intros H; inversion H; eauto.
Qed.

Lemma ans_ok_allows_all r : allows_all (ans_filter c) = true -> ans_ok c r = true.
Proof. intros H. unfold ans_ok, denied. rewrite H. now destruct (rd_ip (rdat r)). Qed.

Lemma pool_filter_inl m m' :
  pool_filter c m = inl m' -> fsub m' m /\ forall r, In r (all_sections m') -> ans_ok c r = true.
Proof.
  unfold pool_filter. destruct (allows_all (ans_filter c)) eqn:Ea.
  - intros H; inversion H; subst. split; [apply fsub_refl|]. intros r _. now apply ans_ok_allows_all.
  - match goal with |- context [if ?b then _ else _] => destruct b end; [discriminate|].
    intros H; inversion H; subst; clear H. split.
    + exists (ans_ok c). cbn [an au ad]. auto.
    + intros r Hr. unfold all_sections in Hr; cbn [an au ad] in Hr. rewrite !in_app_iff in Hr.
      destruct Hr as [Hr|[Hr|Hr]]; apply filter_In in Hr; apply Hr.
Qed.

Lemma pool_filter_inr m e : pool_filter c m = inr e -> e = PNoRec true empty_msg.
Proof.
  unfold pool_filter. destruct (allows_all (ans_filter c)); [discriminate|].
  match goal with |- context [if ?b then _ else _] => destruct b end; [|discriminate].
  intros H; inversion H; reflexivity.
Qed.

(* what a pool lookup yields: either nothing was sent, or one event was logged and the reply is
   the (answer-filtered) raw reply of the contacted server *)
Inductive sent_res (p : pool) (q : query) (s s1 : st) : msg + perr -> Prop :=
| SentNone : s1 = s -> sent_res p q s s1 (inr PNoConn)
| SentOk a m : In a (pips p) -> s1 = log_ev s (mkEv a q (pzone p) (pips p)) ->
    fsub m (net a q) -> (forall r, In r (all_sections m) -> ans_ok c r = true) ->
    sent_res p q s s1 (inl m)
| SentErr a e : In a (pips p) -> s1 = log_ev s (mkEv a q (pzone p) (pips p)) ->
    (forall nx m, e = PNoRec nx m ->
       m = empty_msg \/ (m = net a q /\ classify q (net a q) = inr (PNoRec nx (net a q)))) ->
    sent_res p q s s1 (inr e).

Lemma send_res p q s s1 r : send net choose c p q s = (s1, r) -> sent_res p q s s1 r.
Proof.
  intros H. apply send_spec in H. destruct H as [[-> ->]|(a & Ha & -> & ->)]; [now constructor|].
  destruct (classify q (net a q)) as [m|e] eqn:Ec.
  - apply classify_inl in Ec. subst m. destruct (pool_filter c (net a q)) as [m'|e] eqn:Ep.
    + apply pool_filter_inl in Ep. destruct Ep. eapply SentOk; eauto.
    + apply pool_filter_inr in Ep. subst e. eapply SentErr; eauto. intros nx m H; inversion H; auto.
  - eapply SentErr; eauto. intros nx m ->. pose proof Ec as Ec'. apply classify_inr in Ec'.
    destruct Ec' as [[code Hc]|[nx' Hc]]; [discriminate|]. inversion Hc; subst. right. split; [reflexivity|exact Ec].
Qed.

(* the state after logging an event sent to an acceptable pool *)
Lemma Inv_sent s p q a :
  InvN s -> PoolOKN (evs s) p -> is_subzone (pzone p) (fst q) = true -> In a (pips p) ->
  post 1 s (log_ev s (mkEv a q (pzone p) (pips p))).
Proof.
  intros Hi Hp Hz Ha. split; [|split; [|split]].
  - apply Inv_log_ev; [exact Hi|]. split; [|split]; cbn [e_zone e_q e_ip e_pool]; auto.
    eapply PoolOK_mono; [apply incl_tl, incl_refl|]. destruct p; exact Hp.
  - cbn [log_ev evs]. apply incl_tl, incl_refl.
  - intros _. cbn [log_ev evs length]. lia.
  - reflexivity.
Qed.

Lemma Legit_sent es a q z l r :
  In r (all_sections (net a q)) -> is_subzone z (owner r) = true ->
  LegitN (mkEv a q z l :: es) r.
Proof. intros Hr Hz. exists (mkEv a q z l). split; [left; reflexivity|split; [exact Hr|exact Hz]]. Qed.

(* ---------------------------------------------------------------------------------------- *)
(* lookup *)

Lemma cache_insert_err_post s q e :
  InvN s -> (forall nx m, e = PNoRec nx m -> neg_originN (evs s) m) ->
  post 0 s (cache_insert_err c q e s).
Proof.
  intros Hi He. destruct e as [nx m|code|]; cbn [cache_insert_err]; try (apply post_refl; exact Hi).
  split; [|split; [|split]]; cbn [cache_put evs cn]; [|apply incl_refl|intros _; lia|reflexivity].
  destruct (neg_cacheable c m); [apply Inv_cache_put_neg; eauto|apply Inv_cache_put_exp; exact Hi].
Qed.

Lemma lookup_inv q zone p s s' r :
  InvN s -> PoolOKN (evs s) p -> is_subzone (pzone p) zone = true -> is_subzone zone (fst q) = true ->
  lookup net choose c q zone p s = (s', r) ->
  post 1 s s' /\
  match r with
  | inl m => msg_legitN (evs s') m /\ wbound W m /\
             (forall x, In x (all_sections m) -> is_subzone zone (owner x) = true)
  | inr e => rerr_origin (evs s') e
  end.
Proof.
  intros Hi Hp Hpz Hzq. unfold lookup.
  destruct (send net choose c p q s) as [s1 r1] eqn:Es. apply send_res in Es.
  assert (Hpq : is_subzone (pzone p) (fst q) = true) by (eapply is_prefix_trans; eauto).
  destruct Es as [->|a m Ha -> Hsub Hans|a e Ha -> He].
  - intros H; inversion H; subst; clear H. cbn [cache_insert_err]. split.
    + apply (post_weaken 0); [lia|]. apply post_refl, Hi.
    + apply rerr_origin_nil. reflexivity.
  - pose proof (Inv_sent s p q a Hi Hp Hpq Ha) as Hpost.
    set (s1 := log_ev s (mkEv a q (pzone p) (pips p))) in *.
    match goal with |- context [if ?b then _ else _] => destruct b end.
    + intros H; inversion H; subst; clear H. split; [exact Hpost|apply rerr_origin_nil; reflexivity].
    + intros H; inversion H; subst; clear H.
      set (m' := mkMsg (rcode m) (aa m) (filter (in_zone zone) (an m)) (filter (in_zone zone) (au m))
                       (filter (in_zone zone) (ad m))) in *.
      assert (Hf : fsub m' m) by (exists (in_zone zone); cbn [an au ad]; auto).
      assert (Hzone : forall x, In x (all_sections m') -> is_subzone zone (owner x) = true).
      { intros x Hx. unfold all_sections in Hx; cbn [an au ad m'] in Hx. rewrite !in_app_iff in Hx.
        destruct Hx as [Hx|[Hx|Hx]]; apply filter_In in Hx; apply Hx. }
      assert (Hleg : msg_legitN (evs s1) m').
      { intros x Hx. split.
        - cbn [s1 log_ev evs]. apply Legit_sent.
          + apply (fsub_sections _ _ Hsub), (fsub_sections _ _ Hf), Hx.
          + eapply is_prefix_trans; [exact Hpz|]. apply Hzone, Hx.
        - apply Hans, (fsub_sections _ _ Hf), Hx. }
      assert (Hwb : wbound W m').
      { specialize (HW a q). unfold wbound in *. destruct W as [w|]; [|exact I].
        pose proof (fsub_ns_count _ _ Hf). pose proof (fsub_ns_count _ _ Hsub). lia. }
      split; [|auto].
      unfold cache_insert_pos. destruct Hpost as (P1 & P2 & P3 & P4).
      split; [|split; [|split]]; cbn [cache_put evs cn]; auto.
      destruct (pos_cacheable c q m'); [apply Inv_cache_put_pos; auto|apply Inv_cache_put_exp; auto].
  - pose proof (Inv_sent s p q a Hi Hp Hpq Ha) as Hpost.
    set (ev := mkEv a q (pzone p) (pips p)) in *.
    assert (Horg : forall nx m, e = PNoRec nx m -> neg_originN (evs (log_ev s ev)) m).
    { intros nx m Hm. destruct (He nx m Hm) as [->|[-> Hcl]]; [left; reflexivity|].
      right. exists ev, nx. split; [left; reflexivity|split; [reflexivity|exact Hcl]]. }
    intros H; inversion H; subst; clear H. split.
    + pose proof (cache_insert_err_post (log_ev s ev) q e (post_inv _ _ _ Hpost) Horg) as H2.
      apply (post_trans 1 0 _ _ _ Hpost H2).
    + destruct e as [nx m|code|]; cbn [cache_insert_err]; try (apply rerr_origin_nil; reflexivity).
      cbn [cache_put evs]. apply to_rerr_origin. exact Horg.
Qed.

End Net.
