(* C19 — the closed results: histories, bound, strict variant, witnesses *)
From HV Require Import Lib.Base C19.Model C19.BaseProofs C19.TermProofs C19.InvBase C19.InvWalk C19.InvResolve.
Open Scope N_scope.

Lemma ip_eqb_eq a b : ip_eqb a b = true <-> a = b.
Proof.
  destruct a as [x|x], b as [y|y]; cbn [ip_eqb]; try (split; [discriminate|intros H; inversion H]);
    rewrite N.eqb_eq; split; [intros ->; reflexivity|intros H; inversion H; reflexivity| intros ->; reflexivity|intros H; inversion H; reflexivity].
Qed.

Lemma tchoose_ok t : choose_ok (tchoose t).
Proof.
  intros l q a. induction t as [|[[a' q'] m] t IH]; cbn [tchoose]; [discriminate|].
  destruct (query_eqb q q' && existsb (ip_eqb a') l) eqn:E; [|exact IH].
  intros H; inversion H; subst. apply andb_true_iff in E. destruct E as [_ E].
  apply existsb_exists in E. destruct E as (x & Hx & Hxe). apply ip_eqb_eq in Hxe. subst. exact Hx.
Qed.

Section Net.
Variable net : ip -> query -> msg.
Variable choose : list ip -> query -> option ip.
Variable c : cfg.
Variable W : option nat.
Hypothesis Hchoose : choose_ok choose.
Hypothesis HW : forall a q, wbound W (net a q).

Local Notation InvN := (Inv net c W false).

Lemma resolve_top_post q s :
  InvN s -> res_post net c W 1 (set_cn s 0) (resolve_top net choose c (fuel_for c) q s).
Proof. intros Hi. unfold resolve_top. apply resolve_inv; auto. Qed.

Lemma state_after_inv q s :
  InvN s -> InvN (state_after s (resolve_top net choose c (fuel_for c) q s)).
Proof.
  intros Hi. pose proof (resolve_top_post q s Hi) as H.
  destruct (resolve_top net choose c (fuel_for c) q s); cbn [state_after res_post] in *; [apply H|apply H|exact Hi].
Qed.

Lemma run_history_inv qs : forall s, InvN s -> InvN (run_history net choose c qs s).
Proof.
  induction qs as [|q qs IH]; intros s Hi; cbn [run_history]; [exact Hi|]. apply IH, state_after_inv, Hi.
Qed.

Lemma state_after_incl q s :
  InvN s -> incl (evs s) (evs (state_after s (resolve_top net choose c (fuel_for c) q s))).
Proof.
  intros Hi. pose proof (resolve_top_post q s Hi) as H.
  destruct (resolve_top net choose c (fuel_for c) q s); cbn [state_after res_post set_cn evs] in *;
    [apply H|apply H|apply incl_refl].
Qed.

Lemma resolve_top_count w q s :
  W = Some w -> InvN s ->
  (length (evs (state_after s (resolve_top net choose c (fuel_for c) q s)))
   <= length (evs s) + query_bound c w)%nat.
Proof.
  intros Hw Hi. pose proof (resolve_top_post q s Hi) as H.
  assert (HU : UU1 c W = S (walk_bound w (N.to_nat (ns_limit c)))).
  { unfold UU1, U, wv. rewrite Hw. replace (N.to_nat 0) with O by reflexivity. now rewrite Nat.sub_0_r. }
  assert (Hne : W <> None) by (rewrite Hw; discriminate).
  unfold query_bound, MAX_CNAME_LOOKUPS. replace (N.to_nat 64) with 64%nat by reflexivity.
  destruct (resolve_top net choose c (fuel_for c) q s) as [s' m|s' e|]; cbn [state_after res_post] in *; [| |lia].
  - destruct H as (_ & _ & _ & (D1 & D2) & E). specialize (D2 Hne).
    unfold nev, cnn, set_cn in *. cbn [evs cn] in *. assert (cn s' <= 64) by (apply E; lia). rewrite HU in D2. nia.
  - destruct H as (_ & _ & _ & (D1 & D2) & E). specialize (D2 Hne).
    unfold nev, cnn, set_cn in *. cbn [evs cn] in *. assert (cn s' <= 65) by (apply E; lia). rewrite HU in D2. nia.
Qed.

(* every contacted server is a root hint or passes the server filter *)
Lemma EvOK_filter strict es e :
  EvOK net c strict es e -> In (e_ip e) (roots c) \/ denied (srv_filter c) (e_ip e) = false.
Proof.
  intros (_ & Hin & [[_ Hr]|Hp]); cbn [pzone pips] in *.
  - left. rewrite <- Hr. exact Hin.
  - right. apply (Hp _ Hin).
Qed.

(* ---------------------------------------------------------------------------------------- *)
(* strict reading under the guard: no server answers an address query with an address record
   owned by another name *)

Lemma Loose_Legit es t r :
  LooseFree net -> rd_ip (rdat r) <> None -> Loose net es t r -> Legit net es r /\ owner r = t.
Proof.
  intros Hf Hip (e & He & Hq & Ht & Hin & Hz).
  assert (Ho : owner r = t) by (rewrite <- Hq; apply (Hf (e_ip e) (e_q e) r Ht Hin Hip)).
  split; [|exact Ho]. exists e. split; [exact He|]. split.
  - unfold delivered, all_sections. apply in_app_iff. left. exact Hin.
  - rewrite Ho. exact Hz.
Qed.

Lemma AddrOK_strict es Z a : LooseFree net -> AddrOK net c false es Z a -> AddrOK net c true es Z a.
Proof.
  intros Hf (Hd & rNS & t & rA & H1 & H2 & H3 & H4 & H5). split; [exact Hd|].
  exists rNS, t, rA. split; [exact H1|]. split; [exact H2|]. split; [exact H3|]. split; [exact H4|].
  left. destruct H5 as [H5|[_ H5]]; [exact H5|]. apply Loose_Legit; auto. rewrite H4. discriminate.
Qed.

Lemma PoolOK_strict es p : LooseFree net -> PoolOK net c false es p -> PoolOK net c true es p.
Proof. intros Hf [H|H]; [left; exact H|right; intros a Ha; apply AddrOK_strict; auto]. Qed.

Lemma Inv_strict s : LooseFree net -> Inv net c W false s -> Inv net c W true s.
Proof.
  intros Hf (I1 & I2 & I3 & I4). split; [exact I1|]. split; [exact I2|]. split.
  - intros z p H. destruct (I3 z p H) as [A B]. split; [exact A|apply PoolOK_strict; auto].
  - intros e H. destruct (I4 e H) as (A & B & C). split; [exact A|]. split; [exact B|apply PoolOK_strict; auto].
Qed.

(* ---------------------------------------------------------------------------------------- *)
(* records inside error results *)

Lemma err_records_legit es e :
  NegClean net es -> rerr_origin net es e -> forall r, In r (err_records e) -> Legit net es r.
Proof.
  intros Hc (m0 & [->|(e0 & nx & He0 & -> & Hcl)] & Hincl) r Hr; apply Hincl in Hr.
  - cbn in Hr. destruct Hr.
  - exists e0. split; [exact He0|]. split.
    + unfold delivered, all_sections. apply in_app_iff in Hr. rewrite !in_app_iff. tauto.
    + eapply Hc; eauto.
Qed.

End Net.

(* ---------------------------------------------------------------------------------------- *)
(* witnesses (the same scenarios are replayed on the real Recursor by the harness probe) *)

Definition wcfg : cfg := mkCfg [V4 1] 24 24 (mkAcs [] []) (mkAcs [] []) false.

(* labels: a=1 b=2 e=5 n=14 q=17 w=23 x=24 y=25 z=26.
   root 1 delegates a. to 2 (glue); 2 delegates y.a. to n.y.a. WITHOUT glue; asked "n.y.a. A"
   server 2 answers "z.b. A 66"; 66 then answers for w.y.a. *)
Definition wtab1 : table :=
  [ (V4 1, ([1], 2), mkMsg 0 false [] [mkRR [1] (RNS [1;14])] [mkRR [1;14] (RA 2)]);
    (V4 2, ([1;25], 2), mkMsg 0 false [] [mkRR [1;25] (RNS [1;25;14])] []);
    (V4 2, ([1;25;14], 1), mkMsg 0 true [mkRR [2;26] (RA 66)] [] []);
    (V4 66, ([1;25;23], 2), mkMsg 0 true [] [mkRR [1;25] RSOA] []);
    (V4 66, ([1;25;23], 1), mkMsg 0 true [mkRR [1;25;23] (RA 6666)] [] []) ].
Definition wq1 : query := ([1;25;23], 1).

(* the server of x.a. answers "q.x.a. NS" with NXDOMAIN and foreign authority records *)
Definition wtab2 : table :=
  [ (V4 1, ([1], 2), mkMsg 0 false [] [mkRR [1] (RNS [1;14])] [mkRR [1;14] (RA 2)]);
    (V4 2, ([1;24], 2), mkMsg 0 false [] [mkRR [1;24] (RNS [1;24;14])] [mkRR [1;24;14] (RA 3)]);
    (V4 3, ([1;24;17], 2), mkMsg 3 true [] [mkRR [2] RSOA; mkRR [2] (RNS [2;5])] [mkRR [2;5] (RA 66)]) ].
Definition wq2 : query := ([1;24;17], 1).

Lemma witness1 :
  let s := state_after st0 (resolve_top (tnet wtab1) (tchoose wtab1) wcfg (fuel_for wcfg) wq1 st0) in
  exists e, In e (evs s) /\ ~ In (e_ip e) (roots wcfg) /\
    forall e' r, In e' (evs s) -> delivered (tnet wtab1) e' r -> rd_ip (rdat r) = Some (e_ip e) ->
                 is_subzone (e_zone e') (owner r) = false.
Proof.
  cbv zeta.
  remember (evs (state_after st0 (resolve_top (tnet wtab1) (tchoose wtab1) wcfg (fuel_for wcfg) wq1 st0))) as es eqn:Hes.
  vm_compute in Hes. subst es.
  exists (mkEv (V4 66) ([1;25;23], 2) [1;25] [V4 66]). split; [right; left; reflexivity|].
  split; [cbn; intros [H|[]]; discriminate|].
  intros e' r He Hd Hip. unfold delivered in Hd. cbn [e_ip] in Hip.
  repeat (destruct He as [<-|He];
          [vm_compute in Hd;
           repeat (destruct Hd as [<-|Hd]; [vm_compute in Hip; try discriminate; vm_compute; reflexivity|]);
           contradiction|]).
  destruct He.
Qed.

Lemma witness2 :
  exists s' e r, resolve_top (tnet wtab2) (tchoose wtab2) wcfg (fuel_for wcfg) wq2 st0 = Fail s' e /\
    In r (err_records e) /\ ~ Legit (tnet wtab2) (evs s') r.
Proof.
  remember (resolve_top (tnet wtab2) (tchoose wtab2) wcfg (fuel_for wcfg) wq2 st0) as res eqn:Hr.
  vm_compute in Hr. subst res.
  eexists _, _, (mkRR [2] RSOA). split; [reflexivity|]. split; [cbn; left; reflexivity|].
  intros (e & He & Hd & Hz). cbn [evs] in He. unfold delivered in Hd.
  repeat (destruct He as [<-|He];
          [vm_compute in Hd, Hz; try discriminate;
           repeat (destruct Hd as [Hd|Hd]; [discriminate Hd|]); contradiction|]).
  destruct He.
Qed.
