(* C19 — executable model of the recursor's delegation walk (crates/resolver/src/recursor/handle.rs:
   resolve / resolve_cnames / lookup / ns_pool_for_name / add_glue_to_map / append_ips_from_lookup),
   is_subzone (recursor/mod.rs), the name-server pool's answer filter and the response
   classification (NameServerPool::send, DnsError::from_response), the response cache's
   keep/expire decision, AccessControlSet::denied, and the stub resolver's CNAME chase
   (caching_client.rs DepthTracker).  No proofs here.

   The network is a Section variable [net : ip -> query -> msg] (hostile: any function); the
   choice of the server inside a pool is a Section variable [choose] (any function).

   Names are lists of label numbers, ROOT FIRST ("www.example.com." = [com; example; www]),
   so "zone of" is "prefix of".  All names are fully qualified (everything the recursor sees
   was decoded from the wire, and Recursor::resolve rejects relative query names). *)
From HV Require Import Lib.Base.
Open Scope N_scope.

Definition label := N.
Definition name := list label.

(* label 0 stands for "*" *)
Definition star : label := 0.

Fixpoint is_prefix (p c : name) : bool :=
  match p, c with
  | [], _ => true
  | x :: p', y :: c' => N.eqb x y && is_prefix p' c'
  | _ :: _, [] => false
  end.

(* recursor/mod.rs is_subzone: parent.is_empty() is constantly false, both names are FQDN,
   so it is Name::zone_of (labels compared from the right = prefix in root-first order) *)
Definition is_subzone (parent child : name) : bool := is_prefix parent child.

Definition name_eqb : name -> name -> bool := list_eqb N.eqb.

(* Name::base_name: drop the leftmost label; the root stays the root *)
Definition base_name (n : name) : name := removelast n.

(* Name::num_labels: number of labels not counting a leading "*" *)
Definition num_labels (n : name) : nat :=
  match rev n with
  | l :: _ => if N.eqb l star then pred (length n) else length n
  | [] => O
  end.

(* query_name.trim_to(i) for i = 1 ..= num_labels *)
Definition zones_from (n : name) (k : nat) : list name := map (fun i => firstn i n) (seq 1 k).
Definition zones_of (n : name) : list name := zones_from n (num_labels n).

Inductive ip := V4 (n : N) | V6 (n : N).

Definition ip_eqb (a b : ip) : bool :=
  match a, b with
  | V4 x, V4 y => N.eqb x y
  | V6 x, V6 y => N.eqb x y
  | _, _ => false
  end.

Inductive rdata :=
| RA (a : N) | RAAAA (a : N) | RNS (t : name) | RCNAME (t : name) | RSOA | ROther (ty : N).

Record rr := mkRR { owner : name; rdat : rdata }.

Definition T_A : N := 1.
Definition T_NS : N := 2.
Definition T_CNAME : N := 5.
Definition T_SOA : N := 6.
Definition T_AAAA : N := 28.
Definition T_DS : N := 43.
Definition T_ANY : N := 255.

Definition rtype_of (d : rdata) : N :=
  match d with
  | RA _ => T_A | RAAAA _ => T_AAAA | RNS _ => T_NS | RCNAME _ => T_CNAME | RSOA => T_SOA
  | ROther t => t
  end.
Definition rtype (r : rr) : N := rtype_of (rdat r).

Definition rd_ip (d : rdata) : option ip :=
  match d with RA a => Some (V4 a) | RAAAA a => Some (V6 a) | _ => None end.

Definition rdata_eqb (a b : rdata) : bool :=
  match a, b with
  | RA x, RA y => N.eqb x y
  | RAAAA x, RAAAA y => N.eqb x y
  | RNS x, RNS y => name_eqb x y
  | RCNAME x, RCNAME y => name_eqb x y
  | RSOA, RSOA => true
  | ROther x, ROther y => N.eqb x y
  | _, _ => false
  end.
Definition rr_eqb (a b : rr) : bool := name_eqb (owner a) (owner b) && rdata_eqb (rdat a) (rdat b).

Record msg := mkMsg { rcode : N; aa : bool; an : list rr; au : list rr; ad : list rr }.
Definition all_sections (m : msg) : list rr := an m ++ au m ++ ad m.
Definition empty_msg : msg := mkMsg 3 false [] [] [].

Definition query := (name * N)%type.
Definition query_eqb (a b : query) : bool := name_eqb (fst a) (fst b) && N.eqb (snd a) (snd b).

Definition is_nil {A} (l : list A) : bool := match l with [] => true | _ => false end.

(* ------------------------------------------------------------------------------------------ *)
(* AccessControlSet (crates/proto/src/access_control.rs) *)

Record acnet := mkNet { nv6 : bool; nbase : N; nlen : N }.
Record acs := mkAcs { allow : list acnet; deny : list acnet }.

(* IpAddr::to_canonical: an IPv4-mapped IPv6 address is the IPv4 address *)
Definition canon (a : ip) : ip :=
  match a with
  | V6 x => if N.eqb (N.shiftr x 32) 65535 then V4 (N.land x 4294967295) else V6 x
  | _ => a
  end.

Definition net_contains (n : acnet) (a : ip) : bool :=
  match a, nv6 n with
  | V4 x, false => N.eqb (N.shiftr x (32 - nlen n)) (N.shiftr (nbase n) (32 - nlen n))
  | V6 x, true => N.eqb (N.shiftr x (128 - nlen n)) (N.shiftr (nbase n) (128 - nlen n))
  | _, _ => false
  end.

Definition allows_all (s : acs) : bool := is_nil (deny s).

Definition denied (s : acs) (a : ip) : bool :=
  if allows_all s then false
  else negb (existsb (fun n => net_contains n (canon a)) (allow s))
       && existsb (fun n => net_contains n (canon a)) (deny s).

(* ------------------------------------------------------------------------------------------ *)
(* configuration, errors, state *)

Record cfg := mkCfg {
  roots : list ip;
  rec_limit : N;          (* RecursorOptions::recursion_limit *)
  ns_limit : N;           (* RecursorOptions::ns_recursion_limit *)
  srv_filter : acs;       (* allow_server / deny_server *)
  ans_filter : acs;       (* allow_answers / deny_answers *)
  min_ttl : bool          (* positive and negative minimum cache TTL configured > 0 *)
}.

Definition MAX_CNAME_LOOKUPS : N := 64.

(* what a NameServerPool lookup can fail with *)
Inductive perr :=
| PNoRec (nx : bool) (m : msg)   (* DnsError::NoRecordsFound: NXDOMAIN or NOERROR without an answer;
                                    carries soa / authorities / referral NS + glue of the raw reply *)
| PCode (c : N)                  (* DnsError::ResponseCode *)
| PNoConn.                       (* NetError::NoConnections: empty pool *)

(* RecursorError, as far as callers can tell variants apart *)
Inductive rerr :=
| ENeg (nx : bool) (soa : list rr) (auth : list rr)
| EForward (ns : list rr) (glue : list rr)
| ERecLimit
| ECnameLimit
| ENet
| EMsg.

Definition is_nx (e : rerr) : bool := match e with ENeg nx _ _ => nx | _ => false end.

Inductive centry := CPos (m : msg) | CNeg (nx : bool) (m : msg) | CExpired.

Record pool := mkPool { pzone : name; pips : list ip }.

Record event := mkEv { e_ip : ip; e_q : query; e_zone : name; e_pool : list ip }.

Record st := mkSt {
  rcache : list (query * centry);      (* response_cache, newest first *)
  nscache : list (name * pool);        (* name_server_cache, newest first *)
  evs : list event;                    (* upstream queries sent so far, newest first *)
  cn : N                               (* cname_limit counter of the running resolution *)
}.

Definition st0 : st := mkSt [] [] [] 0.

Inductive res (A : Type) :=
| Done (s : st) (a : A)
| Fail (s : st) (e : rerr)
| OutOfFuel.
Arguments Done {A}. Arguments Fail {A}. Arguments OutOfFuel {A}.

(* outcome of one iteration of the zone loop *)
Inductive step := SNext (depth : N) (p : pool) (s : st) | SStop (s : st) (e : rerr) | SFuel.

(* outcome of one iteration of the alias loop: the records to append *)
Inductive cstep := CNext (add : list rr) (s : st) | CStop (s : st) (e : rerr) | CFuel.

Fixpoint assoc {K V} (eqb : K -> K -> bool) (k : K) (l : list (K * V)) : option V :=
  match l with
  | [] => None
  | (k', v) :: l' => if eqb k k' then Some v else assoc eqb k l'
  end.

(* ------------------------------------------------------------------------------------------ *)
(* reply classification: DnsError::from_response (crates/net/src/error.rs) *)

Definition is_type (t : N) (r : rr) : bool := N.eqb (rtype r) t.
Definition is_cname (r : rr) : bool := is_type T_CNAME r.
Definition is_ns (r : rr) : bool := is_type T_NS r.
Definition is_soa (r : rr) : bool := is_type T_SOA r.

(* DnsResponse::contains_answer *)
Definition contains_answer (q : query) (m : msg) : bool :=
  let '(qn, qt) := q in
  if N.eqb qt T_ANY then existsb (fun r => name_eqb (owner r) qn) (all_sections m)
  else if N.eqb qt T_SOA then existsb (fun r => is_soa r && is_prefix (owner r) qn) (all_sections m)
  else negb (is_nil (an m)) || existsb (fun r => is_type qt r && name_eqb (owner r) qn) (all_sections m).

(* FormErr ServFail NotImp Refused YXDomain YXRRSet NXRRSet NotAuth NotZone *)
Definition code_is_error (c : N) : bool :=
  N.eqb c 1 || N.eqb c 2 || ((4 <=? c) && (c <=? 10)).

Definition classify (q : query) (m : msg) : msg + perr :=
  if code_is_error (rcode m) then inr (PCode (rcode m))
  else if (N.eqb (rcode m) 3 || N.eqb (rcode m) 0) && negb (contains_answer q m)
       then inr (PNoRec (N.eqb (rcode m) 3) m)
       else inl m.

(* From<NetError> for RecursorError *)
Definition glue_for (m : msg) (nsr : rr) : list rr :=
  match rdat nsr with
  | RNS t => filter (fun r => name_eqb (owner r) t && (is_type T_A r || is_type T_AAAA r)) (ad m)
  | _ => []
  end.

Definition to_rerr (e : perr) : rerr :=
  match e with
  | PNoRec nx m =>
      let nss := filter is_ns (au m) in
      if negb (is_nil nss) && negb nx then EForward nss (flat_map (glue_for m) nss)
      else ENeg nx (firstn 1 (filter is_soa (au m))) (au m)
  | PCode _ => ENet
  | PNoConn => ENet
  end.

Section Net.
Variable net : ip -> query -> msg.
Variable choose : list ip -> query -> option ip.
Variable c : cfg.

(* ------------------------------------------------------------------------------------------ *)
(* NameServerPool::send: one server answers (the mock network always answers, so no second
   server is tried); then the answer-address filter *)

Definition ans_ok (r : rr) : bool :=
  match rd_ip (rdat r) with Some a => negb (denied (ans_filter c) a) | None => true end.

Definition pool_filter (m : msg) : msg + perr :=
  if allows_all (ans_filter c) then inl m
  else
    let an' := filter ans_ok (an m) in
    let au' := filter ans_ok (au m) in
    let ad' := filter ans_ok (ad m) in
    if (is_nil an' && negb (is_nil (an m)))
       || (is_nil an' && is_nil au' && negb (is_nil (au m)))
    then inr (PNoRec true empty_msg)
    else inl (mkMsg (rcode m) (aa m) an' au' ad').

Definition log_ev (s : st) (e : event) : st := mkSt (rcache s) (nscache s) (e :: evs s) (cn s).

Definition send (p : pool) (q : query) (s : st) : st * (msg + perr) :=
  match pips p with
  | [] => (s, inr PNoConn)
  | _ =>
    match choose (pips p) q with
    | None => (s, inr PNoConn)
    | Some a =>
        (log_ev s (mkEv a q (pzone p) (pips p)),
         match classify q (net a q) with
         | inl m => pool_filter m
         | inr e => inr e
         end)
    end
  end.

(* ------------------------------------------------------------------------------------------ *)
(* ResponseCache: an entry whose lifetime comes out as zero is never seen again; all record
   TTLs and SOA minimums in the modelled world are one hour and no time passes *)

Definition pos_cacheable (q : query) (m : msg) : bool :=
  min_ttl c || existsb (fun r => is_type (snd q) r || is_cname r) (all_sections m).

Definition neg_cacheable (m : msg) : bool :=
  min_ttl c || existsb is_soa (au m).

Definition cache_put (q : query) (e : centry) (s : st) : st :=
  mkSt ((q, e) :: rcache s) (nscache s) (evs s) (cn s).

Definition cache_insert_pos (q : query) (m : msg) (s : st) : st :=
  cache_put q (if pos_cacheable q m then CPos m else CExpired) s.

Definition cache_insert_err (q : query) (e : perr) (s : st) : st :=
  match e with
  | PNoRec nx m => cache_put q (if neg_cacheable m then CNeg nx m else CExpired) s
  | _ => s
  end.

Definition cache_get (q : query) (s : st) : option (msg + perr) :=
  match assoc query_eqb q (rcache s) with
  | Some (CPos m) => Some (inl m)
  | Some (CNeg nx m) => Some (inr (PNoRec nx m))
  | _ => None
  end.

(* ------------------------------------------------------------------------------------------ *)
(* RecursorDnsHandle::lookup: send, bailiwick filter on all three sections, cache *)

Definition in_zone (zone : name) (r : rr) : bool := is_subzone zone (owner r).

Definition lookup (q : query) (zone : name) (p : pool) (s : st) : st * (msg + rerr) :=
  let '(s1, r) := send p q s in
  match r with
  | inr e => (cache_insert_err q e s1, inr (to_rerr e))
  | inl m =>
      let an' := filter (in_zone zone) (an m) in
      let au' := filter (in_zone zone) (au m) in
      let ad' := filter (in_zone zone) (ad m) in
      if (is_nil an' && negb (is_nil (an m)))
         || (is_nil an' && is_nil au' && negb (is_nil (au m)))
      then (s1, inr (ENeg true [] []))
      else
        let m' := mkMsg (rcode m) (aa m) an' au' ad' in
        (cache_insert_pos q m' s1, inl m')
  end.

(* ------------------------------------------------------------------------------------------ *)
(* ns_pool_for_name *)

Definition gmap := list (name * list ip).

Fixpoint gmap_add (g : gmap) (n : name) (a : ip) : gmap :=
  match g with
  | [] => [(n, [a])]
  | (n', l) :: g' =>
      if name_eqb n n' then (n', if existsb (ip_eqb a) l then l else l ++ [a]) :: g'
      else (n', l) :: gmap_add g' n a
  end.

(* add_glue_to_map *)
Fixpoint add_glue (g : gmap) (rs : list rr) : gmap :=
  match rs with
  | [] => g
  | r :: rs' =>
      match rd_ip (rdat r) with
      | Some a => if denied (srv_filter c) a then add_glue g rs'
                  else add_glue (gmap_add g (owner r) a) rs'
      | None => add_glue g rs'
      end
  end.

Definition glue_from_cache (g : gmap) (t : name) (s : st) : gmap :=
  let g1 := match cache_get (t, T_A) s with
            | Some (inl m) => add_glue g (all_sections m) | _ => g end in
  match cache_get (t, T_AAAA) s with
  | Some (inl m) => add_glue g1 (all_sections m) | _ => g1 end.

(* the loop over NS records: (glue map, config_group, need_ips_for_names) *)
Fixpoint collect_ns (parent : name) (s : st) (rs : list rr) (g : gmap) (conf : list ip) (need : list name)
  : gmap * list ip * list name :=
  match rs with
  | [] => (g, conf, need)
  | r :: rs' =>
      match rdat r with
      | RNS t =>
          if negb (is_subzone parent (owner r)) then collect_ns parent s rs' g conf need
          else
            let g' := glue_from_cache g t s in
            match assoc name_eqb t g' with
            | Some (a :: l) => collect_ns parent s rs' g' (conf ++ a :: l) need
            | _ => collect_ns parent s rs' g' conf (need ++ [t])
            end
      | _ => collect_ns parent s rs' g conf need
      end
  end.

Definition root_pool : pool := mkPool [] (roots c).

Definition put_pool (z : name) (p : pool) (s : st) : st :=
  mkSt (rcache s) ((z, p) :: nscache s) (evs s) (cn s).

(* addresses taken from the answer section of one address lookup (append_ips_from_lookup) *)
Definition answer_ips (m : msg) : list ip :=
  flat_map (fun r => match rd_ip (rdat r) with
                     | Some a => if denied (srv_filter c) a then [] else [a]
                     | None => [] end) (an m).

Definition addr_lookup (p : pool) (n : name) (t : N) (s : st) : st * list ip :=
  let '(s1, r) := send p (n, t) s in
  match r with inl m => (s1, answer_ips m) | inr _ => (s1, []) end.

Fixpoint addr_lookups (pq : list (pool * name)) (s : st) : st * list ip :=
  match pq with
  | [] => (s, [])
  | (p, n) :: pq' =>
      let '(s1, l1) := addr_lookup p n T_A s in
      let '(s2, l2) := addr_lookup p n T_AAAA s1 in
      let '(s3, l3) := addr_lookups pq' s2 in
      (s3, l1 ++ l2 ++ l3)
  end.

Section NsLoop.
(* the recursive call ns_pool_for_name(record_name, request_time, depth) *)
Variable rec : name -> N -> st -> res (N * pool).

(* first loop of append_ips_from_lookup: which pool to ask for each name *)
Fixpoint ap_pools (zone : name) (depth : N) (p : pool) (need : list name) (s : st)
  : option (st * list (pool * name)) :=
  match need with
  | [] => Some (s, [])
  | n :: need' =>
      if is_subzone zone n then
        match ap_pools zone depth p need' s with
        | Some (s', l) => Some (s', (p, n) :: l)
        | None => None
        end
      else
        match rec n depth s with
        | Done s1 (_, p') =>
            match ap_pools zone depth p need' s1 with
            | Some (s', l) => Some (s', (p', n) :: l)
            | None => None
            end
        | Fail s1 _ => ap_pools zone depth p need' s1
        | OutOfFuel => None
        end
  end.

Definition any_ns (zone : name) (m : msg) : bool :=
  existsb (fun r => is_ns r && name_eqb (owner r) zone) (all_sections m).

(* the NS query for [zone]: from the cache or from the current pool, filtered by the parent *)
Definition ns_fetch (q : query) (parent : name) (p : pool) (s : st) : st * (msg + rerr) :=
  match cache_get q s with
  | Some (inl m) => (s, inl m)
  | Some (inr e) => (s, inr (to_rerr e))
  | None => lookup q parent p s
  end.

(* config_group and need_ips_for_names from the NS reply *)
Definition ns_conf (parent : name) (m : msg) (s : st) : list ip * list name :=
  let '(_, conf, need) :=
    collect_ns parent s (all_sections m) (add_glue [] (all_sections m)) [] [] in
  (conf, need).

(* "if config_group.is_empty() && !need_ips_for_names.is_empty()": append_ips_from_lookup *)
Definition ns_addrs (zone : name) (depth : N) (p : pool) (conf : list ip) (need : list name) (s : st)
  : option (st * list ip) :=
  if is_nil conf && negb (is_nil need) then
    match ap_pools zone depth p need s with
    | Some (s2, pq) => Some (addr_lookups pq s2)
    | None => None
    end
  else Some (s, conf).

(* one iteration of the loop "for i in 1..=num_labels" with the current pool *)
Definition ns_step (zone : name) (depth : N) (p : pool) (s : st) : step :=
  match assoc name_eqb zone (nscache s) with
  | Some cp => SNext depth cp s
  | None =>
      let depth := depth + 1 in
      if negb (depth <? ns_limit c) then SStop s ERecLimit
      else
        let parent := base_name zone in
        let '(s1, lr) := ns_fetch (zone, T_NS) parent p s in
        match lr with
        | inr e => if is_nx e then SStop s1 e else SNext depth p s1
        | inl m =>
            if negb (any_ns zone m) then SNext depth p s1
            else
              let '(conf, need) := ns_conf parent m s1 in
              match ns_addrs zone depth p conf need s1 with
              | None => SFuel
              | Some (s3, conf') =>
                  let np := mkPool zone conf' in
                  SNext depth np (put_pool zone np s3)
              end
        end
  end.

Fixpoint ns_loop (zones : list name) (depth : N) (p : pool) (s : st) : res (N * pool) :=
  match zones with
  | [] => Done s (depth, p)
  | zone :: rest =>
      match ns_step zone depth p s with
      | SNext depth' p' s' => ns_loop rest depth' p' s'
      | SStop s' e => Fail s' e
      | SFuel => OutOfFuel
      end
  end.
End NsLoop.

Fixpoint ns_pool (fuel : nat) (qname : name) (depth : N) (s : st) : res (N * pool) :=
  match fuel with
  | O => OutOfFuel
  | S f => ns_loop (ns_pool f) (zones_of qname) depth root_pool s
  end.

(* ------------------------------------------------------------------------------------------ *)
(* resolve / resolve_cnames *)

Definition set_cn (s : st) (n : N) : st := mkSt (rcache s) (nscache s) (evs s) n.

Section Cnames.
Variable rec : query -> N -> st -> res msg.   (* self.resolve(cname_query, .., depth, cname_limit) *)
Variable fuel_ns : nat.

(* one iteration of the loop over response.all_sections(); [ans] = the response's own answers *)
Definition cname_step (ans : list rr) (qt : N) (depth : N) (r : rr) (s : st) : cstep :=
  match rdat r with
  | RCNAME t =>
      if existsb (fun a => name_eqb (owner a) t) ans then CNext [] s
      else
        let count := cn s + 1 in
        let s0 := set_cn s count in
        if MAX_CNAME_LOOKUPS <? count then CStop s0 ECnameLimit
        else
          match rec (t, qt) depth s0 with
          | Done s1 m => CNext (filter (fun a => is_type qt a || is_cname a) (an m)) s1
          | Fail s1 e => CStop s1 e
          | OutOfFuel => CFuel
          end
  | _ => CNext [] s
  end.

Fixpoint cname_loop (ans : list rr) (qt : N) (depth : N) (rs : list rr) (chain : list rr) (s : st)
  : res (list rr) :=
  match rs with
  | [] => Done s chain
  | r :: rs' =>
      match cname_step ans qt depth r s with
      | CNext add s1 => cname_loop ans qt depth rs' (chain ++ add) s1
      | CStop s1 e => Fail s1 e
      | CFuel => OutOfFuel
      end
  end.

Definition resolve_cnames (m : msg) (q : query) (depth : N) (s : st) : res msg :=
  let qt := snd q in
  if N.eqb qt T_CNAME || N.eqb qt T_ANY then Done s m
  else if negb (existsb is_cname (all_sections m)) then Done s m
  else
    let depth := depth + 1 in
    if negb (depth <? rec_limit c) then Fail s ERecLimit
    else
      match cname_loop (an m) qt depth (all_sections m) [] s with
      | Done s1 chain => Done s1 (mkMsg (rcode m) (aa m) (an m ++ chain) (au m) (ad m))
      | Fail s1 e => Fail s1 e
      | OutOfFuel => OutOfFuel
      end.

(* the client's query itself: authoritative cached reply, or ask the pool found by the walk *)
Definition final_fetch (q : query) (p : pool) (s : st) : st * (msg + rerr) :=
  match cache_get q s with
  | Some (inr e) => (s, inr (to_rerr e))
  | Some (inl m) => if aa m then (s, inl m) else lookup q (pzone p) p s
  | None => lookup q (pzone p) p s
  end.

Definition resolve_miss (q : query) (depth : N) (s : st) : res msg :=
  let zone := if N.eqb (snd q) T_DS then base_name (fst q) else fst q in
  match ns_pool fuel_ns zone depth s with
  | OutOfFuel => OutOfFuel
  | Fail s1 e => if is_nx e then Fail s1 e else Fail s1 EMsg
  | Done s1 (depth1, p) =>
      let '(s2, lr) := final_fetch q p s1 in
      match lr with
      | inr e => Fail s2 e
      | inl m => resolve_cnames m q depth1 s2
      end
  end.

Definition resolve_body (q : query) (depth : N) (s : st) : res msg :=
  match cache_get q s with
  | Some (inr e) => Fail s (to_rerr e)
  | Some (inl m) => if aa m then resolve_cnames m q depth s else resolve_miss q depth s
  | None => resolve_miss q depth s
  end.
End Cnames.

Fixpoint resolve (fuel : nat) (q : query) (depth : N) (s : st) : res msg :=
  match fuel with
  | O => OutOfFuel
  | S f => resolve_body (resolve f) f q depth s
  end.

(* Recursor::resolve: depth 0, fresh cname counter *)
Definition resolve_top (fuel : nat) (q : query) (s : st) : res msg :=
  resolve fuel q 0 (set_cn s 0).

End Net.


(* ------------------------------------------------------------------------------------------ *)
(* specification vocabulary (independent of the algorithm): who sent what, and when a record,
   a server address, a contacted server count as justified *)

Section Spec.
Variable net : ip -> query -> msg.
Variable c : cfg.

(* the reply to the logged upstream query contained the record *)
Definition delivered (e : event) (r : rr) : Prop := In r (all_sections (net (e_ip e) (e_q e))).

(* a record is in bailiwick: some contacted server sent it while being asked as a member of a
   pool for a zone that encloses the record's owner *)
Definition Legit (es : list event) (r : rr) : Prop :=
  exists e, In e es /\ delivered e r /\ is_subzone (e_zone e) (owner r) = true.

Definition is_addr_type (t : N) : Prop := t = T_A \/ t = T_AAAA.

(* the record sat in the answer section of a reply to an address query for [t], asked of a
   pool whose zone encloses [t] — whatever the record's own owner *)
Definition Loose (es : list event) (t : name) (rA : rr) : Prop :=
  exists e, In e es /\ fst (e_q e) = t /\ is_addr_type (snd (e_q e)) /\
            In rA (an (net (e_ip e) (e_q e))) /\ is_subzone (e_zone e) t = true.

(* address [a] may serve zone [Z]: the server filter allows it, an in-bailiwick NS record
   owned inside Z's parent names a host [t], and an in-bailiwick address record OWNED BY [t]
   (or, when not strict, any answer to an address query for [t]) carries [a] *)
Definition AddrOK (strict : bool) (es : list event) (Z : name) (a : ip) : Prop :=
  denied (srv_filter c) a = false /\
  exists rNS t rA,
    Legit es rNS /\ rdat rNS = RNS t /\ is_subzone (base_name Z) (owner rNS) = true /\
    rd_ip (rdat rA) = Some a /\
    ((Legit es rA /\ owner rA = t) \/ (strict = false /\ Loose es t rA)).

Definition PoolOK (strict : bool) (es : list event) (p : pool) : Prop :=
  (pzone p = [] /\ pips p = roots c) \/ (forall a, In a (pips p) -> AddrOK strict es (pzone p) a).

(* an upstream query went to a member of a justified pool whose zone encloses the query name *)
Definition EvOK (strict : bool) (es : list event) (e : event) : Prop :=
  is_subzone (e_zone e) (fst (e_q e)) = true /\ In (e_ip e) (e_pool e) /\
  PoolOK strict es (mkPool (e_zone e) (e_pool e)).

Definition msg_legit (es : list event) (m : msg) : Prop :=
  forall r, In r (all_sections m) -> Legit es r /\ ans_ok c r = true.

(* negative cache entries hold a raw reply (or the synthetic empty one) *)
Definition neg_origin (es : list event) (m : msg) : Prop :=
  m = empty_msg \/
  exists e nx, In e es /\ m = net (e_ip e) (e_q e) /\ classify (e_q e) m = inr (PNoRec nx m).

(* optional bound on the number of NS records per message (only for the query bound) *)
Definition ns_count (m : msg) : nat := length (filter is_ns (all_sections m)).
Definition wbound (W : option nat) (m : msg) : Prop :=
  match W with Some w => (ns_count m <= w)%nat | None => True end.

Definition Inv (W : option nat) (strict : bool) (s : st) : Prop :=
  (forall q m, In (q, CPos m) (rcache s) -> msg_legit (evs s) m /\ wbound W m) /\
  (forall q nx m, In (q, CNeg nx m) (rcache s) -> neg_origin (evs s) m) /\
  (forall z p, In (z, p) (nscache s) -> pzone p = z /\ PoolOK strict (evs s) p) /\
  (forall e, In e (evs s) -> EvOK strict (evs s) e).

(* records an error result carries to the caller *)
Definition err_records (e : rerr) : list rr :=
  match e with
  | ENeg _ soa auth => soa ++ auth
  | EForward ns glue => ns ++ glue
  | _ => []
  end.

(* known-finding class 1: some server answers an address query with an address record owned
   by another name *)
Definition LooseFree : Prop :=
  forall a q r, is_addr_type (snd q) -> In r (an (net a q)) -> rd_ip (rdat r) <> None -> owner r = fst q.

(* known-finding class 2 (negated): every logged reply that counts as "no records" (NXDOMAIN,
   or NOERROR without an answer: NODATA and referrals) keeps its authority and additional
   records inside the zone of the pool that was asked *)
Definition NegClean (es : list event) : Prop :=
  forall e nx r, In e es ->
    classify (e_q e) (net (e_ip e) (e_q e)) = inr (PNoRec nx (net (e_ip e) (e_q e))) ->
    In r (au (net (e_ip e) (e_q e)) ++ ad (net (e_ip e) (e_q e))) ->
    is_subzone (e_zone e) (owner r) = true.
End Spec.

(* upper bound on the upstream queries of one zone walk with [k] levels of depth left and at
   most [w] NS records per reply; and of one whole resolution *)
Fixpoint walk_bound (w : nat) (k : nat) : nat :=
  match k with
  | O => O
  | S k' => match k' with O => O | _ => 1 + 2 * w + (w + 1) * walk_bound w k' end
  end.
Definition query_bound (c : cfg) (w : nat) : nat :=
  (2 + N.to_nat MAX_CNAME_LOOKUPS) * (walk_bound w (N.to_nat (ns_limit c)) + 1).

(* fuel that is always enough (C19_terminates) *)
Definition fuel_for (c : cfg) : nat := S (S (N.to_nat (rec_limit c) + N.to_nat (ns_limit c))).

(* a history of client queries on one recursor *)
Definition state_after (s : st) (r : res msg) : st :=
  match r with Done s' _ => s' | Fail s' _ => s' | OutOfFuel => s end.

Fixpoint run_history (net : ip -> query -> msg) (choose : list ip -> query -> option ip) (c : cfg)
  (qs : list query) (s : st) : st :=
  match qs with
  | [] => s
  | q :: qs' => run_history net choose c qs' (state_after s (resolve_top net choose c (fuel_for c) q s))
  end.

(* the server choice respects the pool *)
Definition choose_ok (choose : list ip -> query -> option ip) : Prop :=
  forall l q a, choose l q = Some a -> In a l.

(* finite networks given as a table (used by the correspondence check and by witnesses):
   unlisted (server, query) pairs are REFUSED; the chosen server of a pool is the first listed
   one that belongs to it *)
Definition table := list (ip * query * msg).
Definition refused : msg := mkMsg 5 false [] [] [].

Fixpoint tnet (t : table) (a : ip) (q : query) : msg :=
  match t with
  | [] => refused
  | (a', q', m) :: t' => if ip_eqb a a' && query_eqb q q' then m else tnet t' a q
  end.

Fixpoint tchoose (t : table) (ips : list ip) (q : query) : option ip :=
  match t with
  | [] => None
  | (a', q', _) :: t' =>
      if query_eqb q q' && existsb (ip_eqb a') ips then Some a' else tchoose t' ips q
  end.

(* ------------------------------------------------------------------------------------------ *)
(* stub resolver: CachingClient::inner_lookup / handle_noerror CNAME chase with DepthTracker.
   [up q] = what the upstream answers for q, reduced to what the chase decides on:
   SFound = records for the searched name and type are in the reply (terminal),
   SCname t = the reply's answer section ends the chain at a CNAME to t without the target's data,
   SNone = neither (negative reply / error). *)

Inductive sreply := SFound | SCname (t : name) | SNone.
Inductive sresult := SAnswer | SNoRecords.

Definition MAX_QUERY_DEPTH : N := 8.
Definition is_exhausted (query_depth : N) : bool := MAX_QUERY_DEPTH <=? query_depth + 1.

(* fuel-driven so that it is structurally recursive; C19_stub_chase_bounded shows 8 is enough *)
Fixpoint stub_chase (fuel : nat) (up : query -> sreply) (q : query) (query_depth : N)
  : option (list query * sresult) :=
  match fuel with
  | O => None
  | S f =>
      match up q with
      | SFound => Some ([q], SAnswer)
      | SNone => Some ([q], SNoRecords)
      | SCname t =>
          if is_exhausted query_depth then Some ([q], SNoRecords)
          else
            match stub_chase f up (t, snd q) (query_depth + 1) with
            | Some (l, r) => Some (q :: l, r)
            | None => None
            end
      end
  end.
