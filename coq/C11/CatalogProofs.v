(* C11 — Catalog::find is the longest-suffix search; every path through the catalog sends exactly
   one reply that echoes id, opcode and question; query data comes from the selected zone only. *)
From HV Require Import Lib.Base C11.Model.
Open Scope N_scope.

Lemma label_eqb_eq a b : label_eqb a b = true <-> a = b.
Proof. apply list_eqb_eq. intros; apply N.eqb_eq. Qed.
Lemma name_eqb_eq a b : name_eqb a b = true <-> a = b.
Proof. apply list_eqb_eq. apply label_eqb_eq. Qed.
Lemma name_eqb_neq a b : name_eqb a b = false <-> a <> b.
Proof. rewrite <- name_eqb_eq. destruct (name_eqb a b); split; congruence. Qed.

(* ---------- HashMap::get ---------- *)
Lemma zone_get_some : forall zs n i ch, zone_get zs n = Some (i, ch) ->
  nth_error zs (N.to_nat i) = Some (n, ch) /\
  forall j o' ch', (j < N.to_nat i)%nat -> nth_error zs j = Some (o', ch') -> o' <> n.
Proof.
  induction zs as [|[o c] zs IH]; intros n i ch H; cbn [zone_get] in H; [discriminate|].
  destruct (name_eqb o n) eqn:E.
  - inversion H; subst. apply name_eqb_eq in E. subst. split; [reflexivity|]. intros j o' ch' Hj. cbn in Hj. lia.
  - destruct (zone_get zs n) as [[i' c']|] eqn:G; [|discriminate].
    inversion H; subst. destruct (IH n i' ch G) as [Hn Hlt].
    rewrite N2Nat.inj_succ. split; [exact Hn|].
    intros [|j] o' ch' Hj Hnth.
    + cbn in Hnth. inversion Hnth; subst. now apply name_eqb_neq.
    + cbn in Hnth. apply (Hlt j o' ch'); [lia|exact Hnth].
Qed.

Lemma zone_get_none : forall zs n, zone_get zs n = None <-> forall o ch, In (o, ch) zs -> o <> n.
Proof.
  induction zs as [|[o c] zs IH]; intros n; cbn [zone_get In].
  - split; [intros _ o ch []|reflexivity].
  - destruct (name_eqb o n) eqn:E.
    + apply name_eqb_eq in E. split; [discriminate|]. intros H. exfalso. apply (H o c); auto.
    + apply name_eqb_neq in E. destruct (zone_get zs n) as [[i' c']|] eqn:G.
      * split; [discriminate|]. intros H.
        assert (Hn : zone_get zs n = None) by (apply IH; intros o' ch' Hin; apply (H o' ch'); now right).
        congruence.
      * split; [|reflexivity]. intros _ o' ch' [Heq|Hin].
        -- inversion Heq; subst. exact E.
        -- exact (proj1 (IH n) G o' ch' Hin).
Qed.

(* ---------- suffixes ---------- *)
Lemma is_suffix_refl {A} (n : list A) : is_suffix n n.
Proof. exists []. reflexivity. Qed.
Lemma is_suffix_cons {A} (o n : list A) x : is_suffix o n -> is_suffix o (x :: n).
Proof. intros [p ->]. exists (x :: p). reflexivity. Qed.
Lemma is_suffix_cons_inv {A} (o n : list A) x : is_suffix o (x :: n) -> o = x :: n \/ is_suffix o n.
Proof.
  intros [[|y p] H]; cbn in H.
  - left. congruence.
  - right. inversion H. exists p. reflexivity.
Qed.
Lemma is_suffix_length {A} (o n : list A) : is_suffix o n -> (length o <= length n)%nat.
Proof. intros [p ->]. rewrite app_length. lia. Qed.
Lemma is_suffix_nil_inv {A} (o : list A) : is_suffix o [] -> o = [].
Proof. intros [p H]. symmetry in H. apply app_eq_nil in H. tauto. Qed.

(* ---------- Catalog::find ---------- *)
Theorem find_some : forall n zs i ch, find zs n = Some (i, ch) -> longest_zone zs n i ch.
Proof.
  induction n as [|x n IH]; intros zs i ch H; cbn [find] in H.
  - destruct (zone_get zs []) as [[i' c']|] eqn:G; [|discriminate].
    inversion H; subst. destruct (zone_get_some _ _ _ _ G) as [Hn Hlt].
    exists []. repeat split; auto using is_suffix_refl.
    intros o' ch' _ Hs. apply is_suffix_nil_inv in Hs. subst. cbn. lia.
  - destruct (zone_get zs (x :: n)) as [[i' c']|] eqn:G.
    + inversion H; subst. destruct (zone_get_some _ _ _ _ G) as [Hn Hlt].
      exists (x :: n). repeat split; auto using is_suffix_refl.
      intros o' ch' _ Hs. now apply is_suffix_length.
    + destruct (IH zs i ch H) as (o & Hn & Hs & Hmax & Hfirst).
      exists o. repeat split; auto using is_suffix_cons.
      intros o' ch' Hin Hs'. apply is_suffix_cons_inv in Hs'. destruct Hs' as [->|Hs'].
      * exfalso. exact (proj1 (zone_get_none zs (x :: n)) G _ _ Hin eq_refl).
      * exact (Hmax o' ch' Hin Hs').
Qed.

Theorem find_none : forall n zs, find zs n = None <-> no_zone zs n.
Proof.
  unfold no_zone. induction n as [|x n IH]; intros zs; cbn [find].
  - destruct (zone_get zs []) as [[i' c']|] eqn:G.
    + split; [discriminate|]. intros H. exfalso.
      destruct (zone_get_some _ _ _ _ G) as [Hn _]. apply nth_error_In in Hn.
      exact (H [] c' Hn (is_suffix_refl [])).
    + split; [|reflexivity]. intros _ o ch Hin Hs. apply is_suffix_nil_inv in Hs. subst.
      exact (proj1 (zone_get_none zs []) G _ _ Hin eq_refl).
  - destruct (zone_get zs (x :: n)) as [[i' c']|] eqn:G.
    + split; [discriminate|]. intros H. exfalso.
      destruct (zone_get_some _ _ _ _ G) as [Hn _]. apply nth_error_In in Hn.
      exact (H (x :: n) c' Hn (is_suffix_refl _)).
    + rewrite IH. split.
      * intros H o ch Hin Hs. apply is_suffix_cons_inv in Hs. destruct Hs as [->|Hs].
        -- exact (proj1 (zone_get_none zs (x :: n)) G _ _ Hin eq_refl).
        -- exact (H o ch Hin Hs).
      * intros H o ch Hin Hs. exact (H o ch Hin (is_suffix_cons _ _ x Hs)).
Qed.

(* ---------- markers carry the zone index ---------- *)
Definition all_z (z : N) (ms : list marker) : Prop := Forall (fun m => mk_z m = z) ms.

Lemma markers_from_z z h role k j : all_z z (markers_from z h role k j).
Proof. revert j; induction k; intros j; cbn; constructor; auto. apply IHk. Qed.

Definition lres_z (z : N) (r : lres) : Prop := match r with LOk ms => all_z z ms | LErr _ => True end.
Definition lflow_z (z : N) (f : lflow) : Prop :=
  match f with LSkip => True | LCont r => lres_z z r | LBreak r => lres_z z r end.

Lemma run_flow_z z h role f : lflow_z z (run_flow z h role f).
Proof. destruct f as [|[k|e]|[k|e]]; cbn; auto using markers_from_z. Qed.

Lemma consult_all_z z : forall chain i skip cur, lflow_z z cur -> lflow_z z (consult_all z chain i skip cur).
Proof.
  induction chain as [|hs chain IH]; intros i skip cur H; cbn [consult_all]; [exact H|].
  apply IH. destruct (i =? skip); [exact H|]. destruct (hs_consult hs); [apply run_flow_z|exact H].
Qed.

Lemma aux_records_z z h hs : all_z z (aux_records z h hs).
Proof.
  unfold aux_records. pose proof (run_flow_z z h 2 (hs_aux hs)) as H.
  destruct (run_flow z h 2 (hs_aux hs)) as [|[ms|e]|[ms|e]]; cbn in *; auto; constructor.
Qed.

(* what every reply built by the catalog has in common *)
Definition echo (hd : header) (q : question) (e : option edns_out) (r : reply) : Prop :=
  r_id r = h_id hd /\ r_opcode r = h_opcode hd /\ r_question r = Some (q_raw q) /\ r_edns r = e.

Lemma error_msg_echo hd q e rc : echo hd q e (error_msg hd (Some (q_raw q)) e rc).
Proof. repeat split. Qed.

Lemma all_z_app z a b : all_z z a -> all_z z b -> all_z z (a ++ b).
Proof. intros; apply Forall_app; auto. Qed.

Lemma build_response_ok hd q e z h hs r : lres_z z r ->
  echo hd q e (build_response hd q e z h hs r) /\ all_z z (reply_markers (build_response hd q e z h hs r)).
Proof.
  intros Hz. unfold build_response, reply_markers.
  destruct (hs_type hs =? 2).
  - destruct (negb (h_rd hd)); [split; [repeat split|constructor]|].
    destruct r as [ms|[|p]]; cbn [lres_z] in Hz.
    + split; [repeat split|]. cbn. now rewrite app_nil_r.
    + split; [repeat split|constructor].
    + destruct p as [p|p|]; try destruct p; split; try (repeat split); constructor.
  - destruct r as [ms|[|p]]; cbn [lres_z] in Hz.
    + split; [repeat split|]. cbn. apply all_z_app; [exact Hz|].
      destruct (q_type q =? 6); [apply aux_records_z|constructor].
    + split; [repeat split|]. cbn. apply aux_records_z.
    + destruct p as [p|p|]; try destruct p; (split; [repeat split|]); cbn;
        try apply aux_records_z; try constructor.
Qed.

Lemma lookup_chain_one hd q e z all : forall rest i,
  exists r, lookup_chain hd q e z all rest i = [r] /\ echo hd q e r /\ all_z z (reply_markers r).
Proof.
  induction rest as [|hs rest IH]; intros i; cbn [lookup_chain].
  - eexists; split; [reflexivity|]. split; [apply error_msg_echo|constructor].
  - pose proof (run_flow_z z i 0 (hs_search hs)) as Hz.
    destruct (run_flow z i 0 (hs_search hs)) as [|r|r]; cbn [lflow_z] in Hz.
    + apply IH.
    + pose proof (consult_all_z z all 0 i (LCont r) Hz) as Hc.
      destruct (consult_all z all 0 i (LCont r)) as [|r'|r']; cbn [map_result lflow_z] in *.
      * eexists; split; [reflexivity|]. split; [apply error_msg_echo|constructor].
      * eexists; split; [reflexivity|]. now apply build_response_ok.
      * eexists; split; [reflexivity|]. now apply build_response_ok.
    + eexists; split; [reflexivity|]. now apply build_response_ok.
Qed.

Lemma xfer_chain_one hd q e : forall rest,
  exists r, xfer_chain hd q e rest = [r] /\ echo hd q e r /\ reply_markers r = [].
Proof.
  induction rest as [|hs rest IH]; cbn [xfer_chain].
  - eexists; split; [reflexivity|]. split; [apply error_msg_echo|reflexivity].
  - destruct (hs_xfer hs =? 0); [exact IH|].
    eexists; split; [reflexivity|]. split; [apply error_msg_echo|reflexivity].
Qed.

Lemma update_reply_one hd q e zs : h_opcode hd = 5 ->
  exists r, update_reply hd q e zs = [r] /\ echo hd q e r /\ reply_markers r = [].
Proof.
  intros Hop. unfold update_reply.
  destruct (negb (q_type q =? 6)).
  { eexists; split; [reflexivity|]. split; [apply error_msg_echo|reflexivity]. }
  destruct (find zs (q_name q)) as [[z [|hs ch]]|].
  - eexists; split; [reflexivity|]. split; [apply error_msg_echo|reflexivity].
  - eexists; split; [reflexivity|]. split; [|reflexivity]. repeat split. cbn. now rewrite Hop.
  - eexists; split; [reflexivity|]. split; [apply error_msg_echo|reflexivity].
Qed.

(* the response EDNS exists exactly when the request had one *)
Definition edns_shape (ed : option edns_in) (r : reply) : Prop :=
  match ed, r_edns r with
  | Some ei, Some eo => eo_payload eo = N.max (ei_payload ei) 512 /\ eo_do eo = ei_do ei
  | None, None => True
  | _, _ => False
  end.

Lemma catalog_one c hd q ed :
  exists r, catalog c hd q ed = [r] /\
    r_id r = h_id hd /\ r_opcode r = h_opcode hd /\ r_question r = Some (q_raw q) /\ edns_shape ed r.
Proof.
  unfold catalog.
  set (e := match ed with Some ei => Some _ | None => None end).
  assert (Hshape : forall r, r_edns r = e -> edns_shape ed r).
  { intros r Hr. unfold edns_shape. rewrite Hr. subst e. destruct ed; cbn; auto. }
  destruct (match ed with Some ei => 0 <? ei_version ei | None => false end) eqn:Hv.
  { eexists; split; [reflexivity|]. repeat split. unfold edns_shape; cbn. subst e.
    destruct ed; [cbn; auto|discriminate]. }
  destruct (h_opcode hd =? 0) eqn:H0.
  - destruct (find (c_zones c) (q_name q)) as [[z chain]|].
    + destruct (q_type q =? 252).
      * destruct (xfer_chain_one hd q e chain) as (r & -> & (H1 & H2 & H3 & H4) & _).
        exists r. repeat split; auto.
      * destruct (lookup_chain_one hd q e z chain chain 0) as (r & -> & (H1 & H2 & H3 & H4) & _).
        exists r. repeat split; auto.
    + eexists; split; [reflexivity|]. repeat split. now apply Hshape.
  - destruct (h_opcode hd =? 5) eqn:H5.
    + apply N.eqb_eq in H5.
      destruct (update_reply_one hd q e (c_zones c) H5) as (r & -> & (H1 & H2 & H3 & H4) & _).
      exists r. repeat split; auto.
    + eexists; split; [reflexivity|]. repeat split. now apply Hshape.
Qed.
