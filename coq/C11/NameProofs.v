(* C11 — lemmas about the name reader (read_inner): it never runs out of fuel, never indexes out
   of bounds, stays inside the buffer, and a name read without following a pointer depends only
   on the bytes it spans. *)
From HV Require Import Lib.Base C11.Model.
Open Scope N_scope.

(* one unfolding step, as an equation *)
Lemma read_name_S fuel buf pos start pmax acc alen send :
  read_name (S fuel) buf pos start pmax acc alen send =
    if match pmax with Some m => (m <=? pos)%nat | None => false end then NErr
    else
    match nth_error buf pos with
    | None => NErr
    | Some c =>
      if c =? 0 then
        NOk (rev acc) (match send with Some e => e | None => S pos end)
            (match send with Some _ => true | None => false end)
      else if N.land c 192 =? 192 then
        match nth_error buf (S pos) with
        | None => NErr
        | Some lo =>
          let loc := N.to_nat (N.land (be16 c lo) 16383) in
          if (loc <? start)%nat then
            if (loc <=? length buf)%nat then
              read_name fuel buf loc loc (Some start) acc alen
                        (match send with Some e => Some e | None => Some (S (S pos)) end)
            else NPanic
          else NErr
        end
      else if N.land c 192 =? 0 then
        let l := N.to_nat c in
        let lab := firstn l (skipn (S pos) buf) in
        if (length lab <? l)%nat then NErr
        else if (255 <? alen + l + 1)%nat then NErr
        else read_name fuel buf (S pos + l) start pmax (lab :: acc) (alen + l + 1) send
      else NErr
    end.
Proof. reflexivity. Qed.

Definition settled (r : nres) : Prop := r <> NPanic /\ r <> NFuel.

Lemma settled_NErr : settled NErr. Proof. split; discriminate. Qed.
Lemma settled_NOk l e p : settled (NOk l e p). Proof. split; discriminate. Qed.
#[export] Hint Resolve settled_NErr settled_NOk : c11.

(* a label length byte is at least 1 *)
Lemma label_len_pos c : (c =? 0) = false -> (1 <= N.to_nat c)%nat.
Proof. intros H. apply N.eqb_neq in H. lia. Qed.

(* ---------- totality: no panic, fuel suffices ---------- *)
Lemma read_name_settled : forall fuel buf pos start pmax acc alen send,
  (start <= pos)%nat -> (alen <= 255)%nat -> (start + (256 - alen) < fuel)%nat ->
  settled (read_name fuel buf pos start pmax acc alen send).
Proof.
  induction fuel as [|fuel IH]; intros buf pos start pmax acc alen send Hsp Hal Hf; [lia|].
  rewrite read_name_S.
  destruct (match pmax with Some m => (m <=? pos)%nat | None => false end); [auto with c11|].
  destruct (nth_error buf pos) as [c|] eqn:Hc; [|auto with c11].
  assert (Hpos : (pos < length buf)%nat) by (apply nth_error_Some; congruence).
  destruct (c =? 0) eqn:Hc0; [auto with c11|].
  destruct (N.land c 192 =? 192) eqn:Hptr.
  - destruct (nth_error buf (S pos)) as [lo|]; [|auto with c11].
    cbv zeta.
    destruct (N.to_nat (N.land (be16 c lo) 16383) <? start)%nat eqn:Hlt; [|auto with c11].
    apply Nat.ltb_lt in Hlt.
    destruct (N.to_nat (N.land (be16 c lo) 16383) <=? length buf)%nat eqn:Hle.
    + apply IH; lia.
    + apply Nat.leb_gt in Hle. lia.
  - destruct (N.land c 192 =? 0); [|auto with c11].
    cbv zeta.
    destruct (length (firstn (N.to_nat c) (skipn (S pos) buf)) <? N.to_nat c)%nat; [auto with c11|].
    destruct (255 <? alen + N.to_nat c + 1)%nat eqn:Hlen; [auto with c11|].
    apply Nat.ltb_ge in Hlen. pose proof (label_len_pos c Hc0).
    apply IH; lia.
Qed.

Lemma read_name_at_settled buf pos : settled (read_name_at buf pos).
Proof.
  unfold read_name_at, name_fuel.
  destruct (Nat.le_gt_cases pos (length buf)) as [H|H].
  - apply read_name_settled; lia.
  - (* beyond the buffer: the first peek fails *)
    replace (length buf + 257)%nat with (S (length buf + 256)) by lia.
    rewrite read_name_S. cbn match.
    assert (E : nth_error buf pos = None) by (apply nth_error_None; lia).
    rewrite E. auto with c11.
Qed.

(* ---------- more fuel does not change a settled result ---------- *)
Lemma read_name_fuel_mono : forall fuel fuel' buf pos start pmax acc alen send r,
  read_name fuel buf pos start pmax acc alen send = r -> r <> NFuel -> (fuel <= fuel')%nat ->
  read_name fuel' buf pos start pmax acc alen send = r.
Proof.
  induction fuel as [|fuel IH]; intros fuel' buf pos start pmax acc alen send r Hr Hn Hle.
  - cbn in Hr. congruence.
  - destruct fuel' as [|fuel']; [lia|].
    rewrite read_name_S in *.
    destruct (match pmax with Some m => (m <=? pos)%nat | None => false end); [exact Hr|].
    destruct (nth_error buf pos) as [c|]; [|exact Hr].
    destruct (c =? 0); [exact Hr|].
    destruct (N.land c 192 =? 192).
    + destruct (nth_error buf (S pos)) as [lo|]; [|exact Hr].
      cbv zeta in *.
      destruct (N.to_nat (N.land (be16 c lo) 16383) <? start)%nat; [|exact Hr].
      destruct (N.to_nat (N.land (be16 c lo) 16383) <=? length buf)%nat; [|exact Hr].
      eapply IH; [exact Hr|exact Hn|lia].
    + destruct (N.land c 192 =? 0); [|exact Hr].
      cbv zeta in *.
      destruct (length (firstn (N.to_nat c) (skipn (S pos) buf)) <? N.to_nat c)%nat; [exact Hr|].
      destruct (255 <? alen + N.to_nat c + 1)%nat; [exact Hr|].
      eapply IH; [exact Hr|exact Hn|lia].
Qed.

(* ---------- once a pointer has been followed the result says so ---------- *)
Lemma read_name_ptr_flag : forall fuel buf pos start pmax acc alen e0 labels e p,
  read_name fuel buf pos start pmax acc alen (Some e0) = NOk labels e p -> p = true /\ e = e0.
Proof.
  induction fuel as [|fuel IH]; intros buf pos start pmax acc alen e0 labels e p H; [discriminate|].
  rewrite read_name_S in H.
  destruct (match pmax with Some m => (m <=? pos)%nat | None => false end); [discriminate|].
  destruct (nth_error buf pos) as [c|]; [|discriminate].
  destruct (c =? 0); [inversion H; auto|].
  destruct (N.land c 192 =? 192).
  - destruct (nth_error buf (S pos)) as [lo|]; [|discriminate].
    cbv zeta in H.
    destruct (N.to_nat (N.land (be16 c lo) 16383) <? start)%nat; [|discriminate].
    destruct (N.to_nat (N.land (be16 c lo) 16383) <=? length buf)%nat; [|discriminate].
    eapply IH; exact H.
  - destruct (N.land c 192 =? 0); [|discriminate].
    cbv zeta in H.
    destruct (length (firstn (N.to_nat c) (skipn (S pos) buf)) <? N.to_nat c)%nat; [discriminate|].
    destruct (255 <? alen + N.to_nat c + 1)%nat; [discriminate|].
    eapply IH; exact H.
Qed.

(* ---------- the stream end lies inside the buffer, after the start ---------- *)
Lemma read_name_end_bounds : forall fuel buf pos start pmax acc alen send labels e p,
  read_name fuel buf pos start pmax acc alen send = NOk labels e p ->
  match send with
  | Some e0 => e = e0
  | None => (pos < e <= length buf)%nat
  end.
Proof.
  induction fuel as [|fuel IH]; intros buf pos start pmax acc alen send labels e p H; [discriminate|].
  rewrite read_name_S in H.
  destruct (match pmax with Some m => (m <=? pos)%nat | None => false end); [discriminate|].
  destruct (nth_error buf pos) as [c|] eqn:Hc; [|discriminate].
  assert (Hpos : (pos < length buf)%nat) by (apply nth_error_Some; congruence).
  destruct (c =? 0).
  { inversion H; subst. destruct send; [reflexivity|lia]. }
  destruct (N.land c 192 =? 192).
  - destruct (nth_error buf (S pos)) as [lo|] eqn:Hlo; [|discriminate].
    assert (Hpos1 : (S pos < length buf)%nat) by (apply nth_error_Some; congruence).
    cbv zeta in H.
    destruct (N.to_nat (N.land (be16 c lo) 16383) <? start)%nat; [|discriminate].
    destruct (N.to_nat (N.land (be16 c lo) 16383) <=? length buf)%nat; [|discriminate].
    apply IH in H. destruct send; [exact H|]. subst e. lia.
  - destruct (N.land c 192 =? 0); [|discriminate].
    cbv zeta in H.
    destruct (length (firstn (N.to_nat c) (skipn (S pos) buf)) <? N.to_nat c)%nat; [discriminate|].
    destruct (255 <? alen + N.to_nat c + 1)%nat; [discriminate|].
    apply IH in H. destruct send; [exact H|]. lia.
Qed.

(* ---------- a pointer-free read depends only on the bytes it spans ---------- *)
Lemma skipn_nth_cons {A} : forall (p : nat) (a : list A) (x : A),
  nth_error a p = Some x -> skipn p a = x :: skipn (S p) a.
Proof.
  induction p as [|p IH]; intros [|y a] x H; try discriminate.
  - inversion H; reflexivity.
  - cbn [nth_error] in H. rewrite skipn_cons. rewrite (IH a x H). reflexivity.
Qed.

Lemma firstn_skipn_ext {A} : forall (l : nat) (a b : list A) (p : nat),
  (forall i, (p <= i < p + l)%nat -> nth_error a i = nth_error b i) ->
  (p + l <= length a)%nat ->
  firstn l (skipn p a) = firstn l (skipn p b).
Proof.
  induction l as [|l IH]; intros a b p H Hlen; [reflexivity|].
  assert (Ha : nth_error a p = nth_error b p) by (apply H; lia).
  destruct (nth_error a p) as [x|] eqn:Hx.
  2:{ apply nth_error_None in Hx. lia. }
  symmetry in Ha.
  rewrite (skipn_nth_cons p a x Hx), (skipn_nth_cons p b x Ha).
  cbn [firstn]. f_equal. apply IH; [intros i Hi; apply H; lia|lia].
Qed.

Lemma read_name_transfer : forall fuel buf buf' pos start start' acc alen labels e,
  read_name fuel buf pos start None acc alen None = NOk labels e false ->
  (forall i, (pos <= i < e)%nat -> nth_error buf' i = nth_error buf i) ->
  read_name fuel buf' pos start' None acc alen None = NOk labels e false.
Proof.
  induction fuel as [|fuel IH]; intros buf buf' pos start start' acc alen labels e H Hext; [discriminate|].
  pose proof (read_name_end_bounds _ _ _ _ _ _ _ _ _ _ _ H) as Hb. cbn match in Hb.
  rewrite read_name_S in *. cbn match in *.
  rewrite (Hext pos) by lia.
  destruct (nth_error buf pos) as [c|] eqn:Hc; [|discriminate].
  destruct (c =? 0) eqn:Hc0; [exact H|].
  destruct (N.land c 192 =? 192).
  - (* a pointer: the result would be flagged *)
    exfalso.
    destruct (nth_error buf (S pos)) as [lo|]; [|discriminate].
    cbv zeta in H.
    destruct (N.to_nat (N.land (be16 c lo) 16383) <? start)%nat; [|discriminate].
    destruct (N.to_nat (N.land (be16 c lo) 16383) <=? length buf)%nat; [|discriminate].
    apply read_name_ptr_flag in H. destruct H; discriminate.
  - destruct (N.land c 192 =? 0); [|discriminate].
    cbv zeta in *.
    destruct (length (firstn (N.to_nat c) (skipn (S pos) buf)) <? N.to_nat c)%nat eqn:Hl; [discriminate|].
    destruct (255 <? alen + N.to_nat c + 1)%nat; [discriminate|].
    pose proof (read_name_end_bounds _ _ _ _ _ _ _ _ _ _ _ H) as Hb2. cbn match in Hb2.
    apply Nat.ltb_ge in Hl. rewrite firstn_length, skipn_length in Hl.
    assert (Hspan : (S pos + N.to_nat c <= length buf)%nat) by lia.
    assert (E : firstn (N.to_nat c) (skipn (S pos) buf') = firstn (N.to_nat c) (skipn (S pos) buf)).
    { symmetry. apply firstn_skipn_ext; [|exact Hspan].
      intros i Hi. symmetry. apply Hext. lia. }
    rewrite E.
    replace (length (firstn (N.to_nat c) (skipn (S pos) buf)) <? N.to_nat c)%nat with false
      by (symmetry; apply Nat.ltb_ge; rewrite firstn_length, skipn_length; lia).
    eapply IH; [exact H|]. intros i Hi. apply Hext. lia.
Qed.
