(* C11 — correspondence glue: each case carries the configuration, source, request bytes, the
   real body parser's verdict and the raw bytes of every reply the real front door sent; the
   model must predict the replies byte for byte. *)
From HV Require Import Lib.Base Lib.Pack C11.Model.
Open Scope N_scope.

Inductive neth := NetH (v6 : bool) (addr : N) (len : N).
Inductive cfgh := CfgH (zones : list (list pbytes * list hspec)) (deny allow : list neth) (nsid : option pbytes).
Inductive srch := SrcH (v6 : bool) (addr : N).

Definition net_of (n : neth) : net := match n with NetH v a l => Net v a l end.
Definition cfg_of (c : cfgh) : config :=
  match c with
  | CfgH zs d a n =>
      Config (map (fun z => (map unpack (fst z), snd z)) zs)
             (Acl (map net_of d) (map net_of a))
             (option_map unpack n)
  end.

Inductive case :=
| CReq (cfg : cfgh) (src : srch) (req : pbytes) (bd : body) (replies : list pbytes).

(* model output as byte strings; a model panic is rendered as a reply list no implementation
   can produce *)
Definition model_replies (c : case) : option (list (list byte)) :=
  match c with
  | CReq cfg (SrcH v6 a) req bd _ =>
      match front_door (cfg_of cfg) v6 a (unpack req) bd with
      | Replies rs => Some (map encode rs)
      | Panic => None
      end
  end.

Fixpoint replies_eqb (a : list (list byte)) (b : list pbytes) : bool :=
  match a, b with
  | [], [] => true
  | x :: a', y :: b' => bytes_eqb x (unpack y) && replies_eqb a' b'
  | _, _ => false
  end.

Definition edns_in_eqb (a b : edns_in) : bool :=
  (ei_version a =? ei_version b) && (ei_payload a =? ei_payload b) &&
  Bool.eqb (ei_do a) (ei_do b) && Bool.eqb (ei_nsid a) (ei_nsid b).
Definition body_eqb (a b : body) : bool :=
  match a, b with
  | BNone, BNone => true
  | BErr, BErr => true
  | BOk x, BOk y => option_eqb edns_in_eqb x y
  | _, _ => false
  end.

(* 1. the replies; 2. where the model has its own reading of the bytes after the question
   (simple_tail), it must agree with what the real record parser said *)
Definition check (c : case) : bool :=
  match c with
  | CReq _ _ req bd obs =>
      match model_replies c with
      | Some rs => replies_eqb rs obs
      | None => false
      end
      && match simple_tail (unpack req) with
         | Some b => body_eqb b bd
         | None => true
         end
  end.

Definition bad (cs : list case) : list N := bad_idx check 0 cs.

(* full model output for one case (used in replay files) *)
Definition show (c : case) := model_replies c.
