(* C11 — AccessControl::allow computes the documented rule. *)
From HV Require Import Lib.Base C11.Model.
Open Scope N_scope.

Lemma net_match_covers v6 a n : net_match v6 a n = true <-> covers v6 a n.
Proof.
  unfold net_match, covers. rewrite andb_true_iff, Bool.eqb_true_iff, N.eqb_eq.
  rewrite !N.shiftr_div_pow2. reflexivity.
Qed.

Lemma net_match_false v6 a n : net_match v6 a n = false <-> ~ covers v6 a n.
Proof. rewrite <- net_match_covers. destruct (net_match v6 a n); split; congruence. Qed.

Lemma lpm_none v6 a l : lpm v6 a l = None <-> forall n, In n l -> ~ covers v6 a n.
Proof.
  induction l as [|n l IH]; cbn [lpm In].
  - split; [intros _ n []|reflexivity].
  - destruct (net_match v6 a n) eqn:Hm.
    + split.
      * destruct (lpm v6 a l); discriminate.
      * intros H. exfalso. apply (H n); [now left|]. now apply net_match_covers.
    + rewrite IH. apply net_match_false in Hm. split.
      * intros H n' [<-|Hin]; [exact Hm|now apply H].
      * intros H n' Hin. apply H. now right.
Qed.

Lemma lpm_some v6 a l m : lpm v6 a l = Some m ->
  (exists n, In n l /\ covers v6 a n /\ n_len n = m) /\
  (forall n, In n l -> covers v6 a n -> n_len n <= m).
Proof.
  revert m; induction l as [|n l IH]; intros m H; cbn [lpm In] in *; [discriminate|].
  destruct (net_match v6 a n) eqn:Hm.
  - apply net_match_covers in Hm.
    destruct (lpm v6 a l) as [m'|] eqn:Hl.
    + inversion H; subst m; clear H. destruct (IH m' eq_refl) as [(n0 & Hin & Hc & Hlen) Hmax].
      split.
      * destruct (N.max_spec (n_len n) m') as [[Hlt ->]|[Hle ->]].
        -- exists n0. auto.
        -- exists n. auto.
      * intros n' [<-|Hin'] Hc'; [lia|]. specialize (Hmax n' Hin' Hc'). lia.
    + inversion H; subst m; clear H. split.
      * exists n. auto.
      * intros n' [<-|Hin'] Hc'; [lia|]. exfalso. exact (proj1 (lpm_none v6 a l) Hl n' Hin' Hc').
  - apply net_match_false in Hm. destruct (IH m H) as [(n0 & Hin & Hc & Hlen) Hmax]. split.
    + exists n0. auto.
    + intros n' [<-|Hin'] Hc'; [contradiction|auto].
Qed.

Lemma fam_nonempty_spec v6 l : fam_nonempty v6 l = true <-> exists n, In n l /\ n_v6 n = v6.
Proof.
  unfold fam_nonempty. rewrite existsb_exists. split; intros (n & Hin & H); exists n; split; auto.
  - now apply Bool.eqb_true_iff.
  - now apply Bool.eqb_true_iff.
Qed.

Theorem acl_allow_spec c v6 a : acl_allow c v6 a = true <-> acl_spec c v6 a.
Proof.
  unfold acl_allow, acl_spec. destruct (canonical v6 a) as [w b]. cbn [fst snd].
  destruct (lpm w b (a_deny c)) as [d|] eqn:Hd; destruct (lpm w b (a_allow c)) as [al|] eqn:Ha.
  - destruct (lpm_some _ _ _ _ Hd) as [(nd & Hdin & Hdc & Hdl) Hdmax].
    destruct (lpm_some _ _ _ _ Ha) as [(na & Hain & Hac & Hal) Hamax].
    rewrite N.ltb_lt. split.
    + intros Hlt. left. split; [exists nd; auto|].
      exists na. split; [exact Hain|]. split; [exact Hac|].
      intros d' Hin' Hc'. specialize (Hdmax d' Hin' Hc'). lia.
    + intros [[_ (al0 & Hin0 & Hc0 & Hall)]|[Hno _]].
      * specialize (Hall nd Hdin Hdc). specialize (Hamax al0 Hin0 Hc0). lia.
      * exfalso. apply Hno. exists nd. auto.
  - destruct (lpm_some _ _ _ _ Hd) as [(nd & Hdin & Hdc & Hdl) Hdmax].
    pose proof (proj1 (lpm_none _ _ _) Ha) as Hnone.
    split; [discriminate|].
    intros [[_ (al0 & Hin0 & Hc0 & _)]|[Hno _]].
    + exfalso. exact (Hnone al0 Hin0 Hc0).
    + exfalso. apply Hno. exists nd. auto.
  - destruct (lpm_some _ _ _ _ Ha) as [(na & Hain & Hac & Hal) Hamax].
    pose proof (proj1 (lpm_none _ _ _) Hd) as Hnone.
    split; [|reflexivity]. intros _. right. split.
    + intros (n & Hin & Hc). exact (Hnone n Hin Hc).
    + left. exists na. auto.
  - pose proof (proj1 (lpm_none _ _ _) Hd) as Hdn. pose proof (proj1 (lpm_none _ _ _) Ha) as Han.
    assert (Hnd : ~ (exists n, In n (a_deny c) /\ covers w b n))
      by (intros (n & Hin & Hc); exact (Hdn n Hin Hc)).
    destruct (fam_nonempty w (a_deny c)) eqn:Hfd.
    + split; [|reflexivity]. intros _. right. split; [exact Hnd|].
      right. left. now apply fam_nonempty_spec.
    + destruct (fam_nonempty w (a_allow c)) eqn:Hfa.
      * split; [discriminate|].
        intros [[(n & Hin & Hc) _]|[_ [(n & Hin & Hc)|[Hex|Hall]]]].
        -- exfalso. exact (Hdn n Hin Hc).
        -- exfalso. exact (Han n Hin Hc).
        -- apply fam_nonempty_spec in Hex. congruence.
        -- apply fam_nonempty_spec in Hfa. destruct Hfa as (n & Hin & Hv). exfalso. exact (Hall n Hin Hv).
      * split; [|reflexivity]. intros _. right. split; [exact Hnd|].
        right. right. intros al0 Hin Hv.
        assert (fam_nonempty w (a_allow c) = true) by (apply fam_nonempty_spec; exists al0; auto).
        congruence.
Qed.
