(* C11 — property theorems.  Statements only; proofs are applications of lemmas from
   NameProofs / AclProofs / CatalogProofs / FrontProofs.  Print Assumptions under each.

   Reading guide: [front_door c v6 a buf bd] is the model of ServerContext::handle_request +
   Catalog::handle_request for configuration [c] (zones with scripted handler chains, ACL, NSID),
   source address [(v6, a)], request bytes [buf]; [bd] is the verdict of the record parser on the
   bytes after the question (not modelled here: property C01), universally quantified.
   All theorems quantify over every configuration, source, byte string and parser verdict. *)
From HV Require Import Lib.Base C11.Model C11.NameProofs C11.AclProofs C11.CatalogProofs C11.FrontProofs.
Open Scope N_scope.

(* No request content makes the handler panic: the model has an explicit Panic outcome wherever
   the Rust indexes a buffer (decoder.clone(location), fuel exhaustion of the name loop), and it
   is never produced. *)
Theorem C11_no_panic : forall c v6 a buf bd, exists rs, front_door c v6 a buf bd = Replies rs.
Proof. exact front_door_total. Qed.
Print Assumptions C11_no_panic.

(* Exactly one reply to an accepted request (>= 12 bytes, QR clear); nothing at all to runts and
   to messages that are themselves responses. *)
Theorem C11_one_reply_iff_accepted : forall c v6 a buf bd,
  exists rs, front_door c v6 a buf bd = Replies rs /\
    (accepted buf -> length rs = 1%nat) /\ (~ accepted buf -> rs = []).
Proof.
  intros. destruct (front_door_total c v6 a buf bd) as [rs H]. exists rs. split; [exact H|].
  exact (front_door_count _ _ _ _ _ _ H).
Qed.
Print Assumptions C11_one_reply_iff_accepted.

(* Every reply, as encoded on the wire, starts with the request's ID, has QR set and the
   request's opcode. *)
Theorem C11_id_qr_opcode_echo : forall c v6 a buf bd rs r, bytes_ok buf ->
  front_door c v6 a buf bd = Replies rs -> In r rs ->
  firstn 2 (encode r) = req_id buf /\
  N.testbit (nth 2 (encode r) 0) 7 = true /\
  req_opcode (encode r) = req_opcode buf.
Proof. exact front_door_echo. Qed.
Print Assumptions C11_id_qr_opcode_echo.

(* The question is echoed byte for byte: every reply either has an empty question section — and
   then it is the NOTIMP for an unsupported opcode or the FORMERR for an unreadable question —
   or its bytes from offset 12 are exactly the request's question bytes. *)
Theorem C11_question_echo_bytes : forall c v6 a buf bd rs r,
  front_door c v6 a buf bd = Replies rs -> In r rs ->
  exists hd, parse_header buf = Some hd /\
   ((nth 4 (encode r) 0 = 0 /\ nth 5 (encode r) 0 = 0 /\
     ((opcode_known (h_opcode hd) = false /\ r_rcode r = 4) \/
      (read_question buf (h_qd hd) = QErr /\ r_rcode r = 1)))
    \/
    (exists q tail, read_question buf (h_qd hd) = QOk q /\ (12 < q_end q <= length buf)%nat /\
       encode r = firstn 12 (encode r) ++ firstn (q_end q - 12) (skipn 12 buf) ++ tail)).
Proof.
  intros c v6 a buf bd rs r H Hin.
  destruct (front_door_reply _ _ _ _ _ _ _ H Hin) as (hd & Hh & _ & _ & _ & [(Hq & _ & _ & _ & Hg)|(q & _ & Hq & Hr)]).
  - exists hd. split; [exact Hh|]. left. destruct (encode_no_question r Hq) as [E4 E5].
    repeat split; auto. destruct Hg as [[? ?]|[_ [? ?]]]; auto.
  - exists hd. split; [exact Hh|]. right.
    destruct (read_question_raw _ _ _ Hq) as (Hraw & Hb & _).
    destruct (encode_split r _ Hr) as (tail & Henc & _).
    exists q, tail. rewrite <- Hraw. auto.
Qed.
Print Assumptions C11_question_echo_bytes.

(* The gate order of the statement.  [sole o P]: the outcome is exactly one reply satisfying P.
   Premises of later rows include the negations of earlier ones, so the rows are exclusive. *)
Theorem C11_gate_table : forall c v6 a buf bd hd,
  parse_header buf = Some hd -> h_qr hd = false ->
  (* unsupported opcode: NOTIMP, no question *)
  (opcode_known (h_opcode hd) = false ->
     sole (front_door c v6 a buf bd)
          (fun r => r_rcode r = 4 /\ r_question r = None /\ r_edns r = None /\ reply_markers r = [])) /\
  (* question does not parse (or QDCOUNT <> 1): FORMERR, no question *)
  (opcode_known (h_opcode hd) = true -> read_question buf (h_qd hd) = QErr ->
     sole (front_door c v6 a buf bd)
          (fun r => r_rcode r = 1 /\ r_question r = None /\ r_edns r = None /\ reply_markers r = [])) /\
  forall q, opcode_known (h_opcode hd) = true -> read_question buf (h_qd hd) = QOk q ->
  (* source denied: REFUSED with the question *)
  (~ acl_spec (c_acl c) v6 a ->
     sole (front_door c v6 a buf bd)
          (fun r => r_rcode r = 5 /\ r_question r = Some (q_raw q) /\ r_edns r = None /\ reply_markers r = [])) /\
  (acl_spec (c_acl c) v6 a ->
   (* the rest of the message does not parse: FORMERR with the question *)
   ((forall ed, bd <> BOk ed) ->
     sole (front_door c v6 a buf bd)
          (fun r => r_rcode r = 1 /\ r_question r = Some (q_raw q) /\ r_edns r = None /\ reply_markers r = [])) /\
   forall ed, bd = BOk ed ->
   (* EDNS version above 0: BADVERS (extended rcode 16) carried by an OPT record *)
   (forall ei, ed = Some ei -> 0 < ei_version ei ->
     sole (front_door c v6 a buf bd)
          (fun r => r_rcode r = 16 /\ r_question r = Some (q_raw q) /\ reply_markers r = [] /\
                    exists eo, r_edns r = Some eo /\ eo_nsid eo = None)) /\
   ((forall ei, ed = Some ei -> ei_version ei = 0) ->
    (* STATUS / NOTIFY: NOTIMP *)
    (h_opcode hd = 2 \/ h_opcode hd = 4 ->
      sole (front_door c v6 a buf bd)
           (fun r => r_rcode r = 4 /\ r_question r = Some (q_raw q) /\ reply_markers r = [])) /\
    (* QUERY outside every configured zone: REFUSED *)
    (h_opcode hd = 0 -> no_zone (c_zones c) (q_name q) ->
      sole (front_door c v6 a buf bd)
           (fun r => r_rcode r = 5 /\ r_question r = Some (q_raw q) /\ reply_markers r = [])) /\
    (* QUERY inside: every record of the reply comes from the zone whose origin is the longest
       suffix of the query name *)
    (forall i ch, h_opcode hd = 0 -> longest_zone (c_zones c) (q_name q) i ch ->
      sole (front_door c v6 a buf bd)
           (fun r => r_question r = Some (q_raw q) /\ Forall (fun m => mk_z m = i) (reply_markers r))) /\
    (* UPDATE: one reply with the zone section echoed, no records *)
    (h_opcode hd = 5 ->
      sole (front_door c v6 a buf bd) (fun r => r_question r = Some (q_raw q) /\ reply_markers r = [])))).
Proof.
  intros c v6 a buf bd hd Hh Hqr.
  split; [intros; now apply (row_unknown_opcode c v6 a buf bd hd)|].
  split; [intros; now apply (row_bad_question c v6 a buf bd hd)|].
  intros q Ho Hq.
  split; [intros; now apply (row_denied c v6 a buf bd hd Hh Hqr q)|].
  intros Ha.
  split; [intros; now apply (row_bad_body c v6 a buf bd hd Hh Hqr q)|].
  intros ed Hbd.
  split; [intros ei He Hv; now apply (row_badvers c v6 a buf bd hd Hh Hqr q Ho Hq Ha ed Hbd ei)|].
  intros Hver.
  split; [intros; now apply (row_notimp c v6 a buf bd hd Hh Hqr q Ho Hq Ha ed Hbd)|].
  split; [intros; now apply (row_no_zone c v6 a buf bd hd Hh Hqr q Ho Hq Ha ed Hbd)|].
  split; [intros i ch; intros; now apply (row_zone c v6 a buf bd hd Hh Hqr q Ho Hq Ha ed Hbd Hver i ch)|].
  intros; now apply (row_update c v6 a buf bd hd Hh Hqr q Ho Hq Ha ed Hbd).
Qed.
Print Assumptions C11_gate_table.

(* "EDNS versions above 0 get BADVERS", read off the request bytes for the plainest EDNS request
   (no answer/authority records, one additional record: an option-less OPT owned by the root):
   the version is the 7th byte of that record; the reply is the echoed header and question
   followed by exactly one OPT record carrying extended rcode 1 (BADVERS = 16), version 0, the
   DO bit of the request and a payload size of at least 512. *)
Theorem C11_badvers_from_bytes : forall c v6 a buf hd q p0 p1 ext ver f0 f1 rest,
  parse_header buf = Some hd -> h_qr hd = false -> opcode_known (h_opcode hd) = true ->
  read_question buf (h_qd hd) = QOk q -> acl_spec (c_acl c) v6 a ->
  h_an hd = 0 -> h_ns hd = 0 -> h_ar hd = 1 ->
  skipn (q_end q) buf = 0 :: 0 :: 41 :: p0 :: p1 :: ext :: ver :: f0 :: f1 :: 0 :: 0 :: rest ->
  0 < ver ->
  exists bd, simple_tail buf = Some bd /\
    front_door c v6 a buf bd =
      Replies [error_msg hd (Some (q_raw q))
                 (Some (EdnsOut (N.max (N.max (be16 p0 p1) 512) 512) (N.testbit f0 7) None)) 16] /\
    forall r, front_door c v6 a buf bd = Replies [r] ->
      r_rcode r mod 16 = 0 /\
      exists pre, encode r = pre ++ [0; 0; 41] ++ enc16 (N.max (N.max (be16 p0 p1) 512) 512)
                                 ++ [1; 0; (if N.testbit f0 7 then 128 else 0); 0; 0; 0].
Proof.
  intros c v6 a buf hd q p0 p1 ext ver f0 f1 rest Hh Hqr Ho Hq Ha Han Hns Har Hs Hv.
  eexists. split; [eapply simple_tail_plain_opt; eassumption|].
  assert (E : front_door c v6 a buf
                (BOk (Some (EdnsIn ver (N.max (be16 p0 p1) 512) (N.testbit f0 7) false))) =
              Replies [error_msg hd (Some (q_raw q))
                 (Some (EdnsOut (N.max (N.max (be16 p0 p1) 512) 512) (N.testbit f0 7) None)) 16]).
  { rewrite (front_is_catalog c v6 a buf _ hd Hh Hqr q Ho Hq Ha _ eq_refl).
    unfold catalog. cbn [ei_version ei_payload ei_do ei_nsid].
    apply N.ltb_lt in Hv. rewrite Hv. reflexivity. }
  split; [exact E|].
  intros r Hr. rewrite E in Hr. inversion Hr; subst r; clear Hr.
  split; [reflexivity|].
  exists (enc16 (h_id hd)
          ++ [128 + 8 * h_opcode hd + 4 * b2n false + b2n (h_rd hd); 128 * b2n false + 16 * b2n (h_cd hd) + 0]
          ++ enc16 1 ++ enc16 0 ++ enc16 0 ++ enc16 1 ++ q_raw q).
  unfold encode, error_msg, enc_opt.
  cbn [r_id r_opcode r_aa r_rd r_ra r_cd r_question r_answers r_auth r_edns r_rcode
       eo_nsid eo_payload eo_do map concat length].
  rewrite <- !app_assoc. reflexivity.
Qed.
Print Assumptions C11_badvers_from_bytes.

(* AccessControl::allow is the documented rule (on the canonicalised address, per family):
   a matching deny entry is overridden only by a strictly more specific matching allow entry;
   with no matching deny entry the source is admitted if an allow entry matches, or deny entries
   exist, or there are no allow entries. *)
Theorem C11_acl_rule : forall c v6 a, acl_allow c v6 a = true <-> acl_spec c v6 a.
Proof. exact acl_allow_spec. Qed.
Print Assumptions C11_acl_rule.

(* Catalog::find returns the (first-inserted) zone whose origin is the longest suffix of the
   name, and nothing iff no configured origin is a suffix; that zone is unique. *)
Theorem C11_longest_suffix : forall zs n,
  (forall i ch, find zs n = Some (i, ch) <-> longest_zone zs n i ch) /\
  (find zs n = None <-> no_zone zs n).
Proof.
  intros zs n. split; [|apply find_none].
  intros i ch. split; [apply find_some|].
  intros Hz. destruct (find zs n) as [[i' ch']|] eqn:Hf.
  - destruct (longest_zone_unique _ _ _ _ _ _ (find_some _ _ _ _ Hf) Hz) as [-> ->]. reflexivity.
  - exfalso. destruct Hz as (o & Hn & Hs & _). apply nth_error_In in Hn.
    exact (proj1 (find_none _ _) Hf o ch Hn Hs).
Qed.
Print Assumptions C11_longest_suffix.

(* The echoed question also MEANS the same to the client — provided the query name was not
   reached through a compression pointer: decoding the question of the encoded reply gives the
   same labels, type and class. *)
Theorem C11_question_meaning_guarded : forall c v6 a buf bd rs r hd q,
  front_door c v6 a buf bd = Replies rs -> In r rs ->
  parse_header buf = Some hd -> opcode_known (h_opcode hd) = true ->
  read_question buf (h_qd hd) = QOk q ->
  q_ptr q = false ->
  exists q', decoded_question (encode r) = QOk q' /\ same_question q q' /\ q_raw q' = q_raw q.
Proof.
  intros c v6 a buf bd rs r hd q H Hin Hh Ho Hq Hp.
  destruct (front_door_reply _ _ _ _ _ _ _ H Hin) as (hd' & Hh' & _ & _ & _ & Hcase).
  rewrite Hh in Hh'. inversion Hh'; subst hd'.
  destruct Hcase as [(_ & _ & _ & _ & [[Hk _]|[_ [Hk _]]])|(q' & _ & Hq' & Hr)]; try congruence.
  rewrite Hq in Hq'. inversion Hq'; subst q'.
  exact (echoed_question_same _ _ _ _ Hq Hp Hr).
Qed.
Print Assumptions C11_question_meaning_guarded.

(* ... and without that proviso it is false (finding C11-F9-question-pointer): a question name
   that is a pointer into the header (the only place a pointer in the first name can go) is
   echoed raw under a different header.  Request id 0x0163, QNAME = pointer to offset 0, i.e. the
   bytes 01 'c' 00 = "c."; in the reply byte 2 is 0x80, a reserved label code: the reply's question
   does not decode at all. *)
Definition f9_request : list byte := [1; 99; 0; 0; 0; 1; 0; 0; 0; 0; 0; 0; 192; 0; 0; 1; 0; 1].
Theorem C11_question_meaning_refuted :
  exists c v6 a bd hd q r,
    parse_header f9_request = Some hd /\ opcode_known (h_opcode hd) = true /\
    read_question f9_request (h_qd hd) = QOk q /\ q_ptr q = true /\ q_orig q = [[99]] /\
    front_door c v6 a f9_request bd = Replies [r] /\
    r_question r = Some (q_raw q) /\
    decoded_question (encode r) = QErr.
Proof.
  exists (Config [] (Acl [] []) None), false, 0, (BOk None).
  eexists. eexists. eexists.
  split; [reflexivity|]. split; [reflexivity|].
  split; [vm_compute; reflexivity|].
  split; [reflexivity|]. split; [reflexivity|].
  split; [vm_compute; reflexivity|].
  split; [reflexivity|]. vm_compute. reflexivity.
Qed.
Print Assumptions C11_question_meaning_refuted.

(* ------------------------------------------------------------------ *)
(* Non-vacuity: concrete values meeting the hypotheses of each theorem  *)
(* ------------------------------------------------------------------ *)

(* zones: "." (0), "com." (1), "example.com." (2, chain of two), "a.example.com." (3) *)
Definition ex_com := [99; 111; 109].
Definition ex_example := [101; 120; 97; 109; 112; 108; 101].
Definition ex_h (s : flow) (cs : option flow) := HS 0 s cs (FBreak (ROk 1)) 0 0.
Definition ex_cfg : config :=
  Config [ ([], [ex_h (FBreak (ROk 1)) None]);
           ([ex_com], [ex_h (FBreak (RErr 3)) None]);
           ([ex_example; ex_com], [ex_h FSkip (Some (FBreak (ROk 2))); ex_h (FCont (RErr 0)) None]);
           ([[97]; ex_example; ex_com], [ex_h (FBreak (ROk 2)) None]) ]
         (Acl [Net false 167772160 8] [Net false 167838208 24])       (* deny 10/8, allow 10.1.2/24 *)
         (Some [7]).
(* query id 0x1234, RD, "WWW.Example.COM." A IN, no EDNS *)
Definition ex_query : list byte :=
  [18; 52; 1; 0; 0; 1; 0; 0; 0; 0; 0; 0;
   3; 87; 87; 87; 7; 69; 120; 97; 109; 112; 108; 101; 3; 67; 79; 77; 0; 0; 1; 0; 1].

Example C11_ex_accepted_and_answered_from_longest_zone :
  accepted ex_query /\ bytes_ok ex_query /\
  acl_spec (c_acl ex_cfg) false 167838211 /\                  (* 10.1.2.3: denied /8, allowed /24 *)
  ~ acl_spec (c_acl ex_cfg) false 167772161 /\                (* 10.0.0.1: denied *)
  exists hd q ch, parse_header ex_query = Some hd /\ h_qr hd = false /\ opcode_known (h_opcode hd) = true /\
    h_opcode hd = 0 /\ read_question ex_query (h_qd hd) = QOk q /\ q_ptr q = false /\
    longest_zone (c_zones ex_cfg) (q_name q) 2 ch /\
    (* the first handler skips, the second says Continue(Err NameExists), the first one's consult
       overrides with two records: both come from zone 2, consulted handler 0 *)
    front_door ex_cfg false 167838211 ex_query (BOk None) =
      Replies [Reply 4660 0 true true false false 0 (Some (q_raw q)) [Mk 2 0 1 0; Mk 2 0 1 1] [] None] /\
    front_door ex_cfg false 167772161 ex_query (BOk None) =
      Replies [error_msg hd (Some (q_raw q)) None 5].
Proof.
  split; [split; [cbn; lia|reflexivity]|].
  split; [repeat constructor|].
  split; [apply acl_allow_spec; vm_compute; reflexivity|].
  split; [intros H; apply acl_allow_spec in H; vm_compute in H; discriminate|].
  eexists. eexists. eexists.
  split; [reflexivity|]. split; [reflexivity|]. split; [reflexivity|]. split; [reflexivity|].
  split; [vm_compute; reflexivity|]. split; [reflexivity|].
  split; [apply find_some; vm_compute; reflexivity|].
  split; vm_compute; reflexivity.
Qed.

(* rows of the table that need other inputs: unsupported opcode 3; QDCOUNT 2; reserved label
   code; body error; EDNS version 1; STATUS; a name outside every zone of a root-less catalog;
   UPDATE *)
Definition ex_cfg2 : config := Config [([ex_com], [ex_h (FBreak (ROk 1)) None])] (Acl [] []) None.
Example C11_ex_rows :
  let rc o := match o with Replies [r] => Some (r_rcode r, r_question r) | _ => None end in
  let q := firstn 21 (skipn 12 ex_query) in
  let org := [18; 52; 1; 0; 0; 1; 0; 0; 0; 0; 0; 0; 3; 111; 114; 103; 0; 0; 1; 0; 1] in
  rc (front_door ex_cfg false 1 (18 :: 52 :: 25 :: skipn 3 ex_query) (BOk None)) = Some (4, None) /\
  rc (front_door ex_cfg false 1 (firstn 5 ex_query ++ 2 :: skipn 6 ex_query) (BOk None)) = Some (1, None) /\
  rc (front_door ex_cfg false 1 (firstn 12 ex_query ++ [64; 0; 0; 1; 0; 1]) (BOk None)) = Some (1, None) /\
  rc (front_door ex_cfg false 1 ex_query BErr) = Some (1, Some q) /\
  rc (front_door ex_cfg false 1 ex_query (BOk (Some (EdnsIn 1 4096 true true)))) = Some (16, Some q) /\
  rc (front_door ex_cfg false 1 (18 :: 52 :: 16 :: skipn 3 ex_query) (BOk None)) = Some (4, Some q) /\
  rc (front_door ex_cfg2 false 1 org (BOk None)) = Some (5, Some (skipn 12 org)) /\
  no_zone (c_zones ex_cfg2) [[111; 114; 103]] /\
  rc (front_door ex_cfg false 1 (18 :: 52 :: 40 :: skipn 3 ex_query) (BOk None)) = Some (1, Some q) /\
  front_door ex_cfg false 1 (firstn 11 ex_query) BNone = Replies [] /\
  front_door ex_cfg false 1 (18 :: 52 :: 129 :: skipn 3 ex_query) (BOk None) = Replies [].
Proof.
  cbv zeta. repeat split; try (vm_compute; reflexivity).
  apply find_none. vm_compute. reflexivity.
Qed.
