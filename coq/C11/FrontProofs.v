(* C11 — the front door: totality, reply count, echo of id / opcode / question, gate table,
   meaning of the echoed question. *)
From HV Require Import Lib.Base C11.Model C11.NameProofs C11.AclProofs C11.CatalogProofs.
Open Scope N_scope.

(* ---------- list helpers ---------- *)
Lemma nth_error_skipn' {A} : forall (n k : nat) (l : list A), nth_error (skipn n l) k = nth_error l (n + k).
Proof.
  induction n as [|n IH]; intros k l; [reflexivity|].
  destruct l as [|x l]; [now destruct k|]. cbn [skipn plus nth_error]. apply IH.
Qed.
Lemma nth_error_firstn' {A} : forall (n k : nat) (l : list A), (k < n)%nat -> nth_error (firstn n l) k = nth_error l k.
Proof.
  induction n as [|n IH]; intros k l H; [lia|].
  destruct l as [|x l]; [now destruct k|]. destruct k as [|k]; [reflexivity|]. cbn. apply IH. lia.
Qed.

(* ---------- header ---------- *)
Lemma parse_header_none buf : parse_header buf = None <-> (length buf < 12)%nat.
Proof.
  unfold parse_header. do 12 (destruct buf as [|? buf]; [cbn; split; [lia|reflexivity]|]).
  cbn [length]. split; [discriminate|lia].
Qed.

Lemma parse_header_some buf : (12 <= length buf)%nat ->
  exists hd, parse_header buf = Some hd /\
    h_id hd = be16 (nth 0 buf 0) (nth 1 buf 0) /\
    h_qr hd = N.testbit (nth 2 buf 0) 7 /\
    h_opcode hd = req_opcode buf /\
    h_rd hd = N.testbit (nth 2 buf 0) 0 /\
    h_cd hd = N.testbit (nth 3 buf 0) 4 /\
    h_qd hd = be16 (nth 4 buf 0) (nth 5 buf 0).
Proof.
  intros H. unfold parse_header, req_opcode.
  do 12 (destruct buf as [|? buf]; [cbn [length] in H; lia|]).
  eexists; split; [reflexivity|]. cbn. repeat split.
Qed.

Lemma opcode_lt_16 buf : req_opcode buf < 16.
Proof.
  unfold req_opcode. change 15 with (N.ones 4). rewrite N.land_ones.
  apply N.mod_lt. discriminate.
Qed.

(* ---------- totality ---------- *)
Lemma read_question_no_panic buf qd : read_question buf qd <> QPanic.
Proof.
  unfold read_question. destruct (negb (qd =? 1)); [discriminate|].
  destruct (read_name_at_settled buf 12) as [Hp Hf].
  destruct (read_name_at buf 12) as [labels e p| | |]; try congruence.
  destruct (skipn e buf) as [|? [|? [|? [|? ?]]]]; discriminate.
Qed.

Theorem front_door_total c v6 a buf bd : exists rs, front_door c v6 a buf bd = Replies rs.
Proof.
  unfold front_door.
  destruct (parse_header buf) as [hd|]; [|eauto].
  destruct (h_qr hd); [eauto|].
  destruct (negb (opcode_known (h_opcode hd))); [eauto|].
  pose proof (read_question_no_panic buf (h_qd hd)) as Hq.
  destruct (read_question buf (h_qd hd)) as [q| |]; [|eauto|congruence].
  destruct (negb (acl_allow (c_acl c) v6 a)); [eauto|].
  destruct bd; eauto.
Qed.

(* ---------- one reply per accepted request, none otherwise ---------- *)
Theorem front_door_count c v6 a buf bd rs : front_door c v6 a buf bd = Replies rs ->
  (accepted buf -> length rs = 1%nat) /\ (~ accepted buf -> rs = []).
Proof.
  unfold front_door, accepted. intros H.
  destruct (parse_header buf) as [hd|] eqn:Hh.
  2:{ apply parse_header_none in Hh. inversion H; subst. split; [lia|reflexivity]. }
  assert (Hlen : (12 <= length buf)%nat).
  { destruct (Nat.le_gt_cases 12 (length buf)) as [L|L]; [exact L|].
    apply parse_header_none in L. congruence. }
  destruct (parse_header_some buf Hlen) as (hd' & Hh' & _ & Hqr & _). rewrite Hh in Hh'. inversion Hh'; subst hd'.
  rewrite Hqr in H.
  destruct (N.testbit (nth 2 buf 0) 7) eqn:Hbit.
  { inversion H; subst. split; [intros [_ ?]; discriminate|reflexivity]. }
  split; [intros _|intros Hn; exfalso; apply Hn; split; [exact Hlen|reflexivity]].
  destruct (negb (opcode_known (h_opcode hd))); [inversion H; reflexivity|].
  destruct (read_question buf (h_qd hd)) as [q| |]; [|inversion H; reflexivity|discriminate].
  destruct (negb (acl_allow (c_acl c) v6 a)); [inversion H; reflexivity|].
  destruct bd as [| |ed]; try (inversion H; reflexivity).
  destruct (catalog_one c hd q ed) as (r & Hr & _). rewrite Hr in H. inversion H; reflexivity.
Qed.

(* ---------- what every reply has in common with the request ---------- *)
Lemma front_door_reply c v6 a buf bd rs r : front_door c v6 a buf bd = Replies rs -> In r rs ->
  exists hd, parse_header buf = Some hd /\ h_qr hd = false /\ r_id r = h_id hd /\ r_opcode r = h_opcode hd /\
    ((r_question r = None /\ r_edns r = None /\ r_answers r = [] /\ r_auth r = [] /\
      ((opcode_known (h_opcode hd) = false /\ r_rcode r = 4) \/
       (opcode_known (h_opcode hd) = true /\ read_question buf (h_qd hd) = QErr /\ r_rcode r = 1)))
     \/ exists q, opcode_known (h_opcode hd) = true /\ read_question buf (h_qd hd) = QOk q /\
                  r_question r = Some (q_raw q)).
Proof.
  unfold front_door. intros H Hin.
  destruct (parse_header buf) as [hd|] eqn:Hh; [|inversion H; subst; destruct Hin].
  exists hd. split; [reflexivity|].
  destruct (h_qr hd) eqn:Hqr; [inversion H; subst; destruct Hin|]. split; [reflexivity|].
  destruct (opcode_known (h_opcode hd)) eqn:Hop; cbn [negb] in H.
  2:{ inversion H; subst. destruct Hin as [<- | [] ]. repeat split. left. repeat split. left. auto. }
  destruct (read_question buf (h_qd hd)) as [q| |] eqn:Hq; [| |discriminate].
  2:{ inversion H; subst. destruct Hin as [<- | [] ]. repeat split. left. repeat split. right. auto. }
  destruct (negb (acl_allow (c_acl c) v6 a)).
  { inversion H; subst. destruct Hin as [<- | [] ]. repeat split. right. exists q. auto. }
  destruct bd as [| |ed].
  1,2: inversion H; subst; destruct Hin as [<- | [] ]; repeat split; right; exists q; auto.
  destruct (catalog_one c hd q ed) as (r' & Hr & H1 & H2 & H3 & _). rewrite Hr in H.
  inversion H; subst. destruct Hin as [<- | [] ]. repeat split; auto. right. exists q. auto.
Qed.

(* ---------- encoded replies ---------- *)
Lemma enc16_be16 hi lo : hi < 256 -> lo < 256 -> enc16 (be16 hi lo) = [hi; lo].
Proof.
  intros H1 H2. unfold enc16, be16. f_equal; [|f_equal].
  - rewrite N.div_add_l by discriminate. rewrite (N.div_small lo 256 H2), N.add_0_r.
    now apply N.mod_small.
  - rewrite N.add_comm, N.mod_add by discriminate. now apply N.mod_small.
Qed.

Lemma flags_byte (op : N) (aa rd : bool) : op < 16 ->
  N.testbit (128 + 8 * op + 4 * b2n aa + b2n rd) 7 = true /\
  N.land (N.shiftr (128 + 8 * op + 4 * b2n aa + b2n rd) 3) 15 = op.
Proof.
  intros H.
  assert (E : op = 0 \/ op = 1 \/ op = 2 \/ op = 3 \/ op = 4 \/ op = 5 \/ op = 6 \/ op = 7 \/ op = 8 \/
              op = 9 \/ op = 10 \/ op = 11 \/ op = 12 \/ op = 13 \/ op = 14 \/ op = 15) by lia.
  destruct aa, rd; repeat (destruct E as [->|E]; [split; reflexivity|]); subst; split; reflexivity.
Qed.

Lemma bytes_ok_nth buf i : bytes_ok buf -> nth i buf 0 < 256.
Proof.
  intros H. destruct (nth_in_or_default i buf 0) as [Hin | ->]; [|reflexivity].
  unfold bytes_ok in H. rewrite Forall_forall in H. now apply H.
Qed.

Theorem front_door_echo c v6 a buf bd rs r : bytes_ok buf ->
  front_door c v6 a buf bd = Replies rs -> In r rs ->
  firstn 2 (encode r) = req_id buf /\
  N.testbit (nth 2 (encode r) 0) 7 = true /\
  req_opcode (encode r) = req_opcode buf.
Proof.
  intros Hok H Hin.
  destruct (front_door_reply _ _ _ _ _ _ _ H Hin) as (hd & Hh & _ & Hid & Hop & _).
  assert (Hlen : (12 <= length buf)%nat).
  { destruct (Nat.le_gt_cases 12 (length buf)) as [L|L]; [exact L|]. apply parse_header_none in L. congruence. }
  destruct (parse_header_some buf Hlen) as (hd' & Hh' & Hid' & _ & Hop' & _).
  rewrite Hh in Hh'. inversion Hh'; subst hd'.
  unfold req_id, req_opcode at 1, encode.
  rewrite Hid, Hid', enc16_be16 by (apply bytes_ok_nth; exact Hok).
  rewrite Hop, Hop'. cbn [app firstn nth].
  pose proof (flags_byte (req_opcode buf) (r_aa r) (r_rd r) (opcode_lt_16 buf)) as [F1 F2].
  split; [|split; [exact F1|exact F2]].
  do 2 (destruct buf as [|? buf]; [cbn [length] in Hlen; lia|]). reflexivity.
Qed.

(* the encoded reply is a 12-byte header followed by the echoed question bytes *)
Lemma encode_split r raw : r_question r = Some raw ->
  exists tail, encode r = firstn 12 (encode r) ++ raw ++ tail /\ length (firstn 12 (encode r)) = 12%nat.
Proof.
  intros Hq. unfold encode. rewrite Hq. unfold enc16. cbn [app firstn length].
  eexists. split; reflexivity.
Qed.

Lemma encode_no_question r : r_question r = None -> nth 4 (encode r) 0 = 0 /\ nth 5 (encode r) 0 = 0.
Proof. intros Hq. unfold encode. rewrite Hq. unfold enc16. cbn [app nth]. split; reflexivity. Qed.

(* the question bytes are a slice of the request *)
Lemma read_question_inv buf qd q : read_question buf qd = QOk q ->
  exists labels e t0 t1 c0 c1 rest,
    qd = 1 /\ read_name_at buf 12 = NOk labels e (q_ptr q) /\ skipn e buf = t0 :: t1 :: c0 :: c1 :: rest /\
    q = Question (lower_name labels) labels (be16 t0 t1) (be16 c0 c1)
                 (firstn (e + 4 - 12) (skipn 12 buf)) (e + 4) (q_ptr q).
Proof.
  unfold read_question. set (s12 := skipn 12 buf). destruct (qd =? 1) eqn:Hqd; cbn [negb]; [|discriminate].
  apply N.eqb_eq in Hqd.
  destruct (read_name_at buf 12) as [labels e p| | |] eqn:Hn; try discriminate.
  destruct (skipn e buf) as [|t0 [|t1 [|c0 [|c1 rest]]]] eqn:Hs; try discriminate.
  intros H. exists labels, e, t0, t1, c0, c1, rest.
  assert (E : q = Question (lower_name labels) labels (be16 t0 t1) (be16 c0 c1) (firstn (e + 4 - 12) s12) (e + 4) p)
    by congruence.
  rewrite E. cbn [q_ptr]. auto.
Qed.

Lemma read_question_raw buf qd q : read_question buf qd = QOk q ->
  q_raw q = firstn (q_end q - 12) (skipn 12 buf) /\ (12 < q_end q <= length buf)%nat /\
  length (q_raw q) = (q_end q - 12)%nat.
Proof.
  intros H. destruct (read_question_inv _ _ _ H) as (labels & e & t0 & t1 & c0 & c1 & rest & _ & Hn & Hs & E).
  rewrite E. cbn [q_raw q_end].
  unfold read_name_at in Hn. apply read_name_end_bounds in Hn. cbn match in Hn.
  assert (Hl : (e + 4 <= length buf)%nat).
  { assert (Hk : length (skipn e buf) = (length buf - e)%nat) by apply skipn_length.
    rewrite Hs in Hk. cbn [length] in Hk. lia. }
  split; [reflexivity|]. split; [lia|].
  rewrite firstn_length, skipn_length. lia.
Qed.

(* ---------- the echoed question means the same when no pointer is involved ---------- *)
Lemma agree_slice {A} (H raw tail buf : list A) n :
  length H = 12%nat -> raw = firstn n (skipn 12 buf) -> (12 + n <= length buf)%nat ->
  forall i, (12 <= i < 12 + n)%nat -> nth_error (H ++ raw ++ tail) i = nth_error buf i.
Proof.
  intros HH Hraw Hlen i Hi.
  assert (Hrl : length raw = n) by (subst raw; rewrite firstn_length, skipn_length; lia).
  rewrite nth_error_app2 by lia. rewrite HH.
  rewrite nth_error_app1 by lia. subst raw.
  rewrite nth_error_firstn' by lia. rewrite nth_error_skipn'. f_equal. lia.
Qed.

Lemma skipn_four {A} (l : list A) e a b c d rest : skipn e l = a :: b :: c :: d :: rest ->
  nth_error l e = Some a /\ nth_error l (e + 1) = Some b /\ nth_error l (e + 2) = Some c /\ nth_error l (e + 3) = Some d.
Proof.
  intros H.
  pose proof (nth_error_skipn' e 0 l) as H0. pose proof (nth_error_skipn' e 1 l) as H1.
  pose proof (nth_error_skipn' e 2 l) as H2. pose proof (nth_error_skipn' e 3 l) as H3.
  rewrite H in *. cbn [nth_error] in *. rewrite Nat.add_0_r in H0. auto.
Qed.

Lemma four_skipn {A} (l : list A) e a b c d :
  nth_error l e = Some a -> nth_error l (e + 1) = Some b -> nth_error l (e + 2) = Some c -> nth_error l (e + 3) = Some d ->
  exists rest, skipn e l = a :: b :: c :: d :: rest.
Proof.
  intros H0 H1 H2 H3.
  rewrite (skipn_nth_cons e l a H0).
  replace (e + 1)%nat with (S e) in H1 by lia. rewrite (skipn_nth_cons (S e) l b H1).
  replace (e + 2)%nat with (S (S e)) in H2 by lia. rewrite (skipn_nth_cons (S (S e)) l c H2).
  replace (e + 3)%nat with (S (S (S e))) in H3 by lia. rewrite (skipn_nth_cons (S (S (S e))) l d H3).
  eexists; reflexivity.
Qed.

Theorem echoed_question_same buf qd q r :
  read_question buf qd = QOk q -> q_ptr q = false -> r_question r = Some (q_raw q) ->
  exists q', decoded_question (encode r) = QOk q' /\ same_question q q' /\ q_raw q' = q_raw q.
Proof.
  intros Hq Hptr Hr.
  destruct (read_question_raw _ _ _ Hq) as (Hraw & Hend & Hrl).
  destruct (encode_split r _ Hr) as (tail & Henc & HH).
  set (buf' := encode r) in *.
  destruct (read_question_inv _ _ _ Hq) as (labels & e & t0 & t1 & c0 & c1 & rest & _ & Hn & Hs & E).
  rewrite Hptr in Hn.
  assert (Hqe : q_end q = (e + 4)%nat) by (rewrite E; reflexivity).
  rewrite Hqe in *.
  assert (Hagree : forall i, (12 <= i < e + 4)%nat -> nth_error buf' i = nth_error buf i).
  { intros i Hi. rewrite Henc. eapply (agree_slice _ _ _ buf (e + 4 - 12)); [exact HH|exact Hraw|lia|lia]. }
  assert (Hb : (12 < e <= length buf)%nat).
  { pose proof (read_name_end_bounds _ _ _ _ _ _ _ _ _ _ _ Hn) as Hb. exact Hb. }
  (* the name *)
  assert (Hn' : read_name_at buf' 12 = NOk labels e false).
  { unfold read_name_at in *.
    assert (T : read_name (name_fuel buf) buf' 12 12 None [] 1 None = NOk labels e false).
    { eapply read_name_transfer; [exact Hn|]. intros i Hi. apply Hagree. lia. }
    destruct (Nat.le_ge_cases (name_fuel buf) (name_fuel buf')) as [L|L].
    - eapply read_name_fuel_mono; [exact T|discriminate|exact L].
    - destruct (read_name_at_settled buf' 12) as [_ Hf]. unfold read_name_at in Hf.
      pose proof (read_name_fuel_mono _ _ _ _ _ _ _ _ _ _ eq_refl Hf L) as M.
      rewrite T in M. now symmetry. }
  (* type and class *)
  destruct (skipn_four _ _ _ _ _ _ _ Hs) as (A0 & A1 & A2 & A3).
  destruct (four_skipn buf' e t0 t1 c0 c1) as (rest' & Hs');
    try (rewrite Hagree by lia; assumption).
  unfold decoded_question, read_question. cbn [N.eqb negb Pos.eqb]. rewrite Hn', Hs'.
  eexists. split; [reflexivity|]. split; [rewrite E; repeat split|].
  cbn [q_raw].
  rewrite Henc. rewrite skipn_app, HH.
  replace (skipn 12 (firstn 12 buf')) with (@nil byte)
    by (symmetry; apply skipn_all2; rewrite firstn_length; lia).
  cbn [app Nat.sub skipn]. rewrite <- Hrl.
  rewrite firstn_app, Nat.sub_diag, firstn_all. cbn [firstn]. now rewrite app_nil_r.
Qed.

(* ---------- the longest-suffix zone is unique ---------- *)
Lemma app_same_length_tail {A} : forall (p p' o o' : list A),
  p ++ o = p' ++ o' -> length o = length o' -> o = o'.
Proof.
  induction p as [|x p IH]; intros [|y p'] o o' H L; cbn in H.
  - exact H.
  - exfalso. subst o. cbn in L. rewrite app_length in L. lia.
  - exfalso. subst o'. cbn in L. rewrite app_length in L. lia.
  - inversion H. eapply IH; eauto.
Qed.

Lemma longest_zone_unique zs n i ch i' ch' :
  longest_zone zs n i ch -> longest_zone zs n i' ch' -> i = i' /\ ch = ch'.
Proof.
  intros (o & Hn & Hs & Hmax & Hfirst) (o' & Hn' & Hs' & Hmax' & Hfirst').
  assert (Ho : o = o').
  { pose proof (Hmax o' ch' (nth_error_In _ _ Hn') Hs') as L1.
    pose proof (Hmax' o ch (nth_error_In _ _ Hn) Hs) as L2.
    destruct Hs as [p Hp], Hs' as [p' Hp']. rewrite Hp in Hp'.
    eapply app_same_length_tail; [exact Hp'|lia]. }
  subst o'.
  assert (Hi : N.to_nat i = N.to_nat i').
  { destruct (Nat.lt_trichotomy (N.to_nat i) (N.to_nat i')) as [L|[E|L]]; [|exact E|].
    - exfalso. exact (Hfirst' _ _ _ L Hn eq_refl).
    - exfalso. exact (Hfirst _ _ _ L Hn' eq_refl). }
  apply N2Nat.inj in Hi. subst i'. rewrite Hn in Hn'. inversion Hn'. auto.
Qed.

(* ---------- the gates, one row each ---------- *)
Definition sole (o : outcome) (P : reply -> Prop) : Prop := exists r, o = Replies [r] /\ P r.

Section Rows.
  Variables (c : config) (v6 : bool) (a : N) (buf : list byte) (bd : body) (hd : header).
  Hypothesis Hh : parse_header buf = Some hd.
  Hypothesis Hqr : h_qr hd = false.

  Lemma row_unknown_opcode : opcode_known (h_opcode hd) = false ->
    sole (front_door c v6 a buf bd) (fun r => r_rcode r = 4 /\ r_question r = None /\ r_edns r = None /\ reply_markers r = []).
  Proof. intros Ho. unfold front_door. rewrite Hh, Hqr, Ho. cbn. eexists; split; [reflexivity|]. repeat split. Qed.

  Lemma row_bad_question : opcode_known (h_opcode hd) = true -> read_question buf (h_qd hd) = QErr ->
    sole (front_door c v6 a buf bd) (fun r => r_rcode r = 1 /\ r_question r = None /\ r_edns r = None /\ reply_markers r = []).
  Proof. intros Ho Hq. unfold front_door. rewrite Hh, Hqr, Ho, Hq. cbn. eexists; split; [reflexivity|]. repeat split. Qed.

  Variable q : question.
  Hypothesis Ho : opcode_known (h_opcode hd) = true.
  Hypothesis Hq : read_question buf (h_qd hd) = QOk q.

  Lemma row_denied : ~ acl_spec (c_acl c) v6 a ->
    sole (front_door c v6 a buf bd) (fun r => r_rcode r = 5 /\ r_question r = Some (q_raw q) /\ r_edns r = None /\ reply_markers r = []).
  Proof.
    intros Ha. unfold front_door. rewrite Hh, Hqr, Ho, Hq. cbn [negb].
    destruct (acl_allow (c_acl c) v6 a) eqn:E; [exfalso; apply Ha; now apply acl_allow_spec|].
    cbn. eexists; split; [reflexivity|]. repeat split.
  Qed.

  Hypothesis Ha : acl_spec (c_acl c) v6 a.

  Lemma row_bad_body : (forall ed, bd <> BOk ed) ->
    sole (front_door c v6 a buf bd) (fun r => r_rcode r = 1 /\ r_question r = Some (q_raw q) /\ r_edns r = None /\ reply_markers r = []).
  Proof.
    intros Hb. unfold front_door. rewrite Hh, Hqr, Ho, Hq. cbn [negb].
    rewrite (proj2 (acl_allow_spec _ _ _) Ha). cbn [negb].
    destruct bd as [| |ed]; [| |exfalso; exact (Hb ed eq_refl)];
      (eexists; split; [reflexivity|]; repeat split).
  Qed.

  Variable ed : option edns_in.
  Hypothesis Hbd : bd = BOk ed.

  Lemma front_is_catalog : front_door c v6 a buf bd = Replies (catalog c hd q ed).
  Proof.
    unfold front_door. rewrite Hh, Hqr, Ho, Hq. cbn [negb].
    rewrite (proj2 (acl_allow_spec _ _ _) Ha). cbn [negb]. now rewrite Hbd.
  Qed.

  Lemma row_badvers ei : ed = Some ei -> 0 < ei_version ei ->
    sole (front_door c v6 a buf bd)
         (fun r => r_rcode r = 16 /\ r_question r = Some (q_raw q) /\ reply_markers r = [] /\
                   exists eo, r_edns r = Some eo /\ eo_nsid eo = None).
  Proof.
    intros He Hv. rewrite front_is_catalog. unfold catalog. subst ed.
    apply N.ltb_lt in Hv. rewrite Hv. eexists; split; [reflexivity|]. repeat split.
    eexists; split; reflexivity.
  Qed.

  Hypothesis Hver : forall ei, ed = Some ei -> ei_version ei = 0.

  Lemma version_gate_open : match ed with Some ei => 0 <? ei_version ei | None => false end = false.
  Proof. destruct ed as [ei|]; [|reflexivity]. now rewrite (Hver ei eq_refl). Qed.

  Lemma row_notimp : h_opcode hd = 2 \/ h_opcode hd = 4 ->
    sole (front_door c v6 a buf bd) (fun r => r_rcode r = 4 /\ r_question r = Some (q_raw q) /\ reply_markers r = []).
  Proof.
    intros Hop. rewrite front_is_catalog. unfold catalog. rewrite version_gate_open.
    destruct Hop as [-> | ->]; cbn [N.eqb Pos.eqb]; eexists; split; try reflexivity; repeat split.
  Qed.

  Lemma row_no_zone : h_opcode hd = 0 -> no_zone (c_zones c) (q_name q) ->
    sole (front_door c v6 a buf bd) (fun r => r_rcode r = 5 /\ r_question r = Some (q_raw q) /\ reply_markers r = []).
  Proof.
    intros Hop Hz. rewrite front_is_catalog. unfold catalog. rewrite version_gate_open, Hop. cbn [N.eqb].
    rewrite (proj2 (find_none _ _) Hz). eexists; split; [reflexivity|]. repeat split.
  Qed.

  Lemma row_zone i ch : h_opcode hd = 0 -> longest_zone (c_zones c) (q_name q) i ch ->
    sole (front_door c v6 a buf bd)
         (fun r => r_question r = Some (q_raw q) /\ Forall (fun m => mk_z m = i) (reply_markers r)).
  Proof.
    intros Hop Hz. rewrite front_is_catalog. unfold catalog. rewrite version_gate_open, Hop. cbn [N.eqb].
    destruct (find (c_zones c) (q_name q)) as [[z chain]|] eqn:Hf.
    - destruct (longest_zone_unique _ _ _ _ _ _ (find_some _ _ _ _ Hf) Hz) as [-> ->].
      destruct (q_type q =? 252).
      + destruct (xfer_chain_one hd q
                   (match ed with Some ei => Some (EdnsOut (N.max (ei_payload ei) 512) (ei_do ei)
                                                           (if ei_nsid ei then c_nsid c else None)) | None => None end) ch)
          as (r & Hr & (_ & _ & H3 & _) & Hm).
        exists r. split; [now rewrite Hr|]. split; [exact H3|]. rewrite Hm. constructor.
      + destruct (lookup_chain_one hd q
                   (match ed with Some ei => Some (EdnsOut (N.max (ei_payload ei) 512) (ei_do ei)
                                                           (if ei_nsid ei then c_nsid c else None)) | None => None end) i ch ch 0)
          as (r & Hr & (_ & _ & H3 & _) & Hm).
        exists r. split; [now rewrite Hr|]. split; [exact H3|exact Hm].
    - exfalso. destruct Hz as (o & Hn & Hs & _). apply nth_error_In in Hn.
      exact (proj1 (find_none _ _) Hf o ch Hn Hs).
  Qed.

  Lemma row_update : h_opcode hd = 5 ->
    sole (front_door c v6 a buf bd) (fun r => r_question r = Some (q_raw q) /\ reply_markers r = []).
  Proof.
    intros Hop. rewrite front_is_catalog. unfold catalog. rewrite version_gate_open, Hop. cbn [N.eqb Pos.eqb].
    destruct (update_reply_one hd q
               (match ed with Some ei => Some (EdnsOut (N.max (ei_payload ei) 512) (ei_do ei)
                                                       (if ei_nsid ei then c_nsid c else None)) | None => None end)
               (c_zones c) Hop) as (r & Hr & (_ & _ & H3 & _) & Hm).
    exists r. split; [now rewrite Hr|]. auto.
  Qed.
End Rows.

(* ---------- BADVERS read off the bytes: a lone, option-less OPT record ---------- *)
Lemma simple_tail_plain_opt buf hd q p0 p1 ext ver f0 f1 rest :
  parse_header buf = Some hd -> read_question buf (h_qd hd) = QOk q ->
  h_an hd = 0 -> h_ns hd = 0 -> h_ar hd = 1 ->
  skipn (q_end q) buf = 0 :: 0 :: 41 :: p0 :: p1 :: ext :: ver :: f0 :: f1 :: 0 :: 0 :: rest ->
  simple_tail buf = Some (BOk (Some (EdnsIn ver (N.max (be16 p0 p1) 512) (N.testbit f0 7) false))).
Proof.
  intros Hh Hq Han Hns Har Hs. unfold simple_tail. rewrite Hh, Hq, Han, Hns, Har, Hs.
  cbn [N.eqb Pos.eqb andb negb].
  change (be16 0 0) with 0.
  change (0 =? 0) with true. change (1 =? 0) with false. change (1 =? 1) with true. cbn [andb negb].
  assert (L0 : forall x, (x <? 0) = false) by (intros x; apply N.ltb_ge; lia).
  rewrite !L0. reflexivity.
Qed.
