(* C11 — model of the server front door.
   Rust anchors (crates/server/src):
     server/mod.rs            ServerContext::handle_request, error_response_handler
     zone_handler/catalog.rs  Catalog::handle_request, Catalog::find, Catalog::lookup/update,
                              lookup(), zone_transfer(), send_error_response, build_response
     zone_handler/message_response.rs  MessageResponseBuilder::{error_msg, build, build_no_records},
                              MessageResponse::destructive_emit
     access.rs                AccessControl::allow
   and crates/proto/src: op/header.rs (Header::read/emit, Metadata::response_from_request),
     op/message_request.rs (Queries::read, QueriesEmitAndCount), rr/domain/name.rs (read_inner),
     op/message.rs (emit_message_parts), op/edns.rs (Edns -> OPT record).
   The record parser behind MessageRequest::read_with_queries (answer/authority/additional
   sections) is NOT modelled (property C01): its verdict on the bytes after the question is an
   input [body] of the model.  Zone handlers are scripted stubs ([hspec]); what they put in
   their records is a marker.  No proofs in this file. *)
From HV Require Import Lib.Base.
Open Scope N_scope.

(* ------------------------------------------------------------------ *)
(* Header::read                                                        *)
(* ------------------------------------------------------------------ *)

Record header := Header {
  h_id : N;
  h_qr : bool; h_opcode : N;
  h_aa : bool; h_tc : bool; h_rd : bool;
  h_ra : bool; h_ad : bool; h_cd : bool;
  h_rcode : N;
  h_qd : N; h_an : N; h_ns : N; h_ar : N }.

Definition be16 (hi lo : byte) : N := hi * 256 + lo.

Definition parse_header (b : list byte) : option header :=
  match b with
  | i0 :: i1 :: f0 :: f1 :: q0 :: q1 :: a0 :: a1 :: n0 :: n1 :: r0 :: r1 :: _ =>
      Some (Header (be16 i0 i1)
                   (N.testbit f0 7) (N.land (N.shiftr f0 3) 15)
                   (N.testbit f0 2) (N.testbit f0 1) (N.testbit f0 0)
                   (N.testbit f1 7) (N.testbit f1 5) (N.testbit f1 4)
                   (N.land f1 15)
                   (be16 q0 q1) (be16 a0 a1) (be16 n0 n1) (be16 r0 r1))
  | _ => None   (* fewer than twelve bytes *)
  end.

(* OpCode::from_u8: Query 0, Status 2, Notify 4, Update 5, everything else Unknown *)
Definition opcode_known (o : N) : bool := (o =? 0) || (o =? 2) || (o =? 4) || (o =? 5).

(* ------------------------------------------------------------------ *)
(* Name::read (read_inner) on the whole message buffer                 *)
(* ------------------------------------------------------------------ *)

Inductive nres :=
| NOk (labels : list (list byte)) (stream_end : nat) (ptr : bool)
| NErr
| NPanic       (* an index operation of the Rust code would be out of bounds *)
| NFuel.       (* the model's fuel ran out (shown impossible) *)

(* [pos]: decoder.index(); [start]: name_start; [pmax]: ptr_max_idx; [acc]: labels so far
   (reversed); [alen]: Name::encoded_len() so far; [send]: where the *outer* decoder stands
   once a pointer has been followed (the jumped-to decoder is a clone). *)
Fixpoint read_name (fuel : nat) (buf : list byte) (pos start : nat) (pmax : option nat)
         (acc : list (list byte)) (alen : nat) (send : option nat) : nres :=
  match fuel with
  | O => NFuel
  | S fuel' =>
    if match pmax with Some m => (m <=? pos)%nat | None => false end then NErr (* LabelOverlapsWithOther *)
    else
    match nth_error buf pos with
    | None => NErr                                   (* peek() = None: InsufficientBytes *)
    | Some c =>
      if c =? 0 then
        NOk (rev acc) (match send with Some e => e | None => S pos end)
            (match send with Some _ => true | None => false end)
      else if N.land c 192 =? 192 then
        (* Pointer: read_u16, & 0x3FFF, must be < name_start *)
        match nth_error buf (S pos) with
        | None => NErr
        | Some lo =>
          let loc := N.to_nat (N.land (be16 c lo) 16383) in
          if (loc <? start)%nat then
            (* decoder.clone(location) slices buffer[location..] *)
            if (loc <=? length buf)%nat then
              read_name fuel' buf loc loc (Some start) acc alen
                        (match send with Some e => Some e | None => Some (S (S pos)) end)
            else NPanic
          else NErr                                  (* PointerNotPriorToLabel *)
        end
      else if N.land c 192 =? 0 then
        (* Label: read_character_data, then extend_name *)
        let l := N.to_nat c in
        let lab := firstn l (skipn (S pos) buf) in
        if (length lab <? l)%nat then NErr           (* InsufficientBytes *)
        else if (255 <? alen + l + 1)%nat then NErr  (* DomainNameTooLong *)
        else read_name fuel' buf (S pos + l) start pmax (lab :: acc) (alen + l + 1) send
      else NErr                                      (* UnrecognizedLabelCode *)
    end
  end.

Definition name_fuel (buf : list byte) : nat := length buf + 257.

Definition read_name_at (buf : list byte) (pos : nat) : nres :=
  read_name (name_fuel buf) buf pos pos None [] 1 None.

(* u8::to_ascii_lowercase *)
Definition lower (c : byte) : byte := if (65 <=? c) && (c <=? 90) then c + 32 else c.
Definition lower_name (n : list (list byte)) := map (map lower) n.

(* Queries::read *)
Record question := Question {
  q_name : list (list byte);    (* LowerName: labels, leftmost first, lower-cased *)
  q_orig : list (list byte);    (* labels as sent *)
  q_type : N; q_class : N;
  q_raw : list byte;            (* Queries::original: the bytes as sent *)
  q_end : nat;
  q_ptr : bool }.               (* the name was reached through a compression pointer *)

Inductive qres := QOk (q : question) | QErr | QPanic.

Definition read_question (buf : list byte) (qdcount : N) : qres :=
  if negb (qdcount =? 1) then QErr                   (* BadQueryCount *)
  else match read_name_at buf 12 with
  | NOk labels e ptr =>
      match skipn e buf with
      | t0 :: t1 :: c0 :: c1 :: _ =>
          (* slice_from(queries_start): buffer[12 .. index] *)
          QOk (Question (lower_name labels) labels (be16 t0 t1) (be16 c0 c1)
                        (firstn (e + 4 - 12) (skipn 12 buf)) (e + 4) ptr)
      | _ => QErr
      end
  | NErr => QErr
  | NPanic => QPanic
  | NFuel => QPanic
  end.

(* ------------------------------------------------------------------ *)
(* AccessControl::allow                                                *)
(* ------------------------------------------------------------------ *)

Record net := Net { n_v6 : bool; n_addr : N; n_len : N }.
Record acl := Acl { a_deny : list net; a_allow : list net }.

Definition width (v6 : bool) : N := if v6 then 128 else 32.

Definition net_match (v6 : bool) (a : N) (n : net) : bool :=
  Bool.eqb (n_v6 n) v6 &&
  (N.shiftr (n_addr n) (width v6 - n_len n) =? N.shiftr a (width v6 - n_len n)).

(* PrefixSet::get_lpm: prefix length of the longest matching entry *)
Fixpoint lpm (v6 : bool) (a : N) (l : list net) : option N :=
  match l with
  | [] => None
  | n :: l' =>
      let r := lpm v6 a l' in
      if net_match v6 a n then
        match r with Some m => Some (N.max (n_len n) m) | None => Some (n_len n) end
      else r
  end.

Definition fam_nonempty (v6 : bool) (l : list net) : bool := existsb (fun n => Bool.eqb (n_v6 n) v6) l.

(* IpAddr::to_canonical: only ::ffff:a.b.c.d becomes a.b.c.d *)
Definition canonical (v6 : bool) (a : N) : bool * N :=
  if v6 && (N.shiftr a 32 =? 65535) then (false, N.land a 4294967295) else (v6, a).

Definition acl_allow (c : acl) (v6 : bool) (a : N) : bool :=
  let '(v6, a) := canonical v6 a in
  match lpm v6 a (a_deny c), lpm v6 a (a_allow c) with
  | Some d, Some al => d <? al
  | Some _, None => false
  | None, Some _ => true
  | None, None =>
      if fam_nonempty v6 (a_deny c) then true
      else if fam_nonempty v6 (a_allow c) then false else true
  end.

(* ------------------------------------------------------------------ *)
(* Scripted zone handlers, catalog                                     *)
(* ------------------------------------------------------------------ *)

(* error classes of LookupError used by the stubs:
   0 NameExists, 1 ResponseCode(Refused), 2 ResponseCode(NotAuth), 3 ResponseCode(NXDomain),
   4 ResponseCode(ServFail) *)
Inductive res := ROk (k : N) | RErr (e : N).
Inductive flow := FSkip | FCont (r : res) | FBreak (r : res).

Record hspec := HS {
  hs_type : N;                 (* 0 Primary, 1 Secondary, 2 External *)
  hs_search : flow;            (* ZoneHandler::search *)
  hs_consult : option flow;    (* ZoneHandler::consult: None = hand back last_result *)
  hs_aux : flow;               (* ZoneHandler::lookup(origin, NS|SOA) *)
  hs_update : N;               (* 0 Ok(true), 1 Ok(false), c Err(rcode c) *)
  hs_xfer : N }.               (* 0 None, 1 Refused, 2 NotAuth, 3 NXDomain, 4 NameExists *)

Definition zone := (list (list byte) * list hspec)%type.   (* origin labels (lower case), chain *)

Definition label_eqb := list_eqb N.eqb.
Definition name_eqb := list_eqb label_eqb.

(* HashMap::get *)
Fixpoint zone_get (zs : list zone) (n : list (list byte)) : option (N * list hspec) :=
  match zs with
  | [] => None
  | (o, ch) :: zs' =>
      if name_eqb o n then Some (0, ch)
      else match zone_get zs' n with Some (i, c) => Some (N.succ i, c) | None => None end
  end.

(* Catalog::find: exact name, else base_name() (drop the leftmost label), down to the root *)
Fixpoint find (zs : list zone) (n : list (list byte)) : option (N * list hspec) :=
  match zone_get zs n with
  | Some r => Some r
  | None => match n with [] => None | _ :: n' => find zs n' end
  end.

(* marker record: A z.h.role.j owned by the root name *)
Record marker := Mk { mk_z : N; mk_h : N; mk_role : N; mk_j : N }.

Fixpoint markers_from (z h role : N) (k : nat) (j : N) : list marker :=
  match k with O => [] | S k' => Mk z h role j :: markers_from z h role k' (N.succ j) end.

Inductive lres := LOk (ms : list marker) | LErr (e : N).
Inductive lflow := LSkip | LCont (r : lres) | LBreak (r : lres).

Definition run_res (z h role : N) (r : res) : lres :=
  match r with ROk k => LOk (markers_from z h role (N.to_nat k) 0) | RErr e => LErr e end.
Definition run_flow (z h role : N) (f : flow) : lflow :=
  match f with
  | FSkip => LSkip
  | FCont r => LCont (run_res z h role r)
  | FBreak r => LBreak (run_res z h role r)
  end.

(* ------------------------------------------------------------------ *)
(* Replies                                                             *)
(* ------------------------------------------------------------------ *)

Record edns_in := EdnsIn { ei_version : N; ei_payload : N; ei_do : bool; ei_nsid : bool }.
Inductive body := BNone | BErr | BOk (e : option edns_in).

Record edns_out := EdnsOut { eo_payload : N; eo_do : bool; eo_nsid : option (list byte) }.

Record reply := Reply {
  r_id : N; r_opcode : N;
  r_aa : bool; r_rd : bool; r_ra : bool; r_cd : bool;
  r_rcode : N;                              (* 12 bits *)
  r_question : option (list byte);
  r_answers : list marker; r_auth : list marker;
  r_edns : option edns_out }.

(* MessageResponseBuilder::error_msg: Metadata::response_from_request + response code *)
Definition error_msg (h : header) (q : option (list byte)) (e : option edns_out) (rcode : N) : reply :=
  Reply (h_id h) (h_opcode h) false (h_rd h) false (h_cd h) rcode q [] [] e.

Definition b2n (b : bool) : N := if b then 1 else 0.

Definition enc16 (n : N) : list byte := [n / 256 mod 256; n mod 256].

Definition enc_marker (m : marker) : list byte :=
  [0; 0; 1; 0; 1; 0; 0; 0; 0; 0; 4; mk_z m; mk_h m; mk_role m; mk_j m].

(* Record::from(&Edns) emitted by emit_message_parts after set_rcode_high *)
Definition enc_opt (rcode : N) (e : edns_out) : list byte :=
  let opts := match eo_nsid e with
              | Some p => [0; 3] ++ enc16 (N.of_nat (length p)) ++ p
              | None => []
              end in
  [0; 0; 41] ++ enc16 (eo_payload e) ++ [rcode / 16 mod 256; 0; (if eo_do e then 128 else 0); 0]
  ++ enc16 (N.of_nat (length opts)) ++ opts.

(* Header::emit + sections *)
Definition encode (r : reply) : list byte :=
  enc16 (r_id r)
  ++ [128 + 8 * r_opcode r + 4 * b2n (r_aa r) + b2n (r_rd r);
      128 * b2n (r_ra r) + 16 * b2n (r_cd r) + r_rcode r mod 16]
  ++ enc16 (match r_question r with Some _ => 1 | None => 0 end)
  ++ enc16 (N.of_nat (length (r_answers r)))
  ++ enc16 (N.of_nat (length (r_auth r)))
  ++ enc16 (match r_edns r with Some _ => 1 | None => 0 end)
  ++ (match r_question r with Some q => q | None => [] end)
  ++ concat (map enc_marker (r_answers r))
  ++ concat (map enc_marker (r_auth r))
  ++ (match r_edns r with Some e => enc_opt (r_rcode r) e | None => [] end).

(* ------------------------------------------------------------------ *)
(* Catalog                                                             *)
(* ------------------------------------------------------------------ *)

Definition map_result (f : lflow) : option lres :=
  match f with LSkip => None | LCont r => Some r | LBreak r => Some r end.

Definition aux_records (z h : N) (hs : hspec) : list marker :=
  match map_result (run_flow z h 2 (hs_aux hs)) with
  | Some (LOk ms) => ms
  | _ => []
  end.

(* build_response: build_authoritative_response / build_forwarded_response *)
Definition build_response (hd : header) (q : question) (e : option edns_out)
           (z h : N) (hs : hspec) (r : lres) : reply :=
  let base aa ra rcode an au :=
      Reply (h_id hd) (h_opcode hd) aa (h_rd hd) ra (h_cd hd) rcode (Some (q_raw q)) an au e in
  if hs_type hs =? 2 then
    (* External *)
    if negb (h_rd hd) then base false true 5 [] []
    else match r with
         | LOk ms => base false true 0 ms []
         | LErr 3 => base false true 3 [] []
         | LErr _ => base false true 2 [] []
         end
  else
    match r with
    | LOk ms => base true false 0 ms (if q_type q =? 6 then aux_records z h hs else [])
    | LErr 1 => base true false 5 [] []
    | LErr 2 => base true false 9 [] []
    | LErr e' => base true false (if e' =? 3 then 3 else 0) [] (aux_records z h hs)
    end.

(* the consult round of lookup(): every handler of the chain except [skip] sees the running result *)
Fixpoint consult_all (z : N) (chain : list hspec) (i skip : N) (cur : lflow) : lflow :=
  match chain with
  | [] => cur
  | hs :: chain' =>
      let cur' := if i =? skip then cur
                  else match hs_consult hs with
                       | None => cur
                       | Some f => run_flow z i 1 f
                       end in
      consult_all z chain' (N.succ i) skip cur'
  end.

(* lookup(): the for loop over the chain; [all] is the whole chain, [rest] what is left *)
Fixpoint lookup_chain (hd : header) (q : question) (e : option edns_out) (z : N)
         (all rest : list hspec) (i : N) : list reply :=
  match rest with
  | [] => [error_msg hd (Some (q_raw q)) e 2]          (* all handlers skipped: SERVFAIL *)
  | hs :: rest' =>
      match run_flow z i 0 (hs_search hs) with
      | LSkip => lookup_chain hd q e z all rest' (N.succ i)
      | LBreak r => [build_response hd q e z i hs r]
      | LCont r =>
          match map_result (consult_all z all 0 i (LCont r)) with
          | None => [error_msg hd (Some (q_raw q)) e 2]  (* "impossible skip" *)
          | Some r' => [build_response hd q e z i hs r']
          end
      end
  end.

(* zone_transfer() *)
Fixpoint xfer_chain (hd : header) (q : question) (e : option edns_out) (rest : list hspec) : list reply :=
  match rest with
  | [] => [error_msg hd (Some (q_raw q)) e 2]
  | hs :: rest' =>
      if hs_xfer hs =? 0 then xfer_chain hd q e rest'
      else [error_msg hd (Some (q_raw q)) e
                      (if hs_xfer hs =? 1 then 5 else if hs_xfer hs =? 2 then 9
                       else if hs_xfer hs =? 3 then 3 else 0)]
  end.

(* Catalog::update *)
Definition update_reply (hd : header) (q : question) (e : option edns_out) (zs : list zone) : list reply :=
  if negb (q_type q =? 6) then [error_msg hd (Some (q_raw q)) e 1]
  else match find zs (q_name q) with
       | Some (_, hs :: _) =>
           let rc := if hs_type hs =? 1 then 4
                     else if hs_type hs =? 0 then (if hs_update hs <=? 1 then 0 else hs_update hs)
                     else 9 in
           (* Metadata::new(id, Response, Update): no flags copied *)
           [Reply (h_id hd) 5 false false false false rc (Some (q_raw q)) [] [] e]
       | _ => [error_msg hd (Some (q_raw q)) e 2]
       end.

Record config := Config { c_zones : list zone; c_acl : acl; c_nsid : option (list byte) }.

(* Catalog::handle_request *)
Definition catalog (c : config) (hd : header) (q : question) (ed : option edns_in) : list reply :=
  let e := match ed with
           | Some ei => Some (EdnsOut (N.max (ei_payload ei) 512) (ei_do ei)
                                      (if ei_nsid ei then c_nsid c else None))
           | None => None
           end in
  let err := error_msg hd (Some (q_raw q)) e in
  if match ed with Some ei => 0 <? ei_version ei | None => false end then
    (* BADVERS: sent before the NSID option is looked at *)
    [error_msg hd (Some (q_raw q))
               (match e with Some eo => Some (EdnsOut (eo_payload eo) (eo_do eo) None) | None => None end) 16]
  else if h_opcode hd =? 0 then
    match find (c_zones c) (q_name q) with
    | None => [err 5]                                                              (* REFUSED *)
    | Some (z, chain) =>
        if q_type q =? 252 then xfer_chain hd q e chain
        else lookup_chain hd q e z chain chain 0
    end
  else if h_opcode hd =? 5 then update_reply hd q e (c_zones c)
  else [err 4].                                                                    (* NOTIMP *)

(* ------------------------------------------------------------------ *)
(* ServerContext::handle_request                                       *)
(* ------------------------------------------------------------------ *)

Inductive outcome := Replies (rs : list reply) | Panic.

Definition front_door (c : config) (v6 : bool) (addr : N) (buf : list byte) (bd : body) : outcome :=
  match parse_header buf with
  | None => Replies []
  | Some hd =>
    if h_qr hd then Replies []
    else if negb (opcode_known (h_opcode hd)) then Replies [error_msg hd None None 4]
    else match read_question buf (h_qd hd) with
    | QPanic => Panic
    | QErr => Replies [error_msg hd None None 1]
    | QOk q =>
        if negb (acl_allow (c_acl c) v6 addr) then Replies [error_msg hd (Some (q_raw q)) None 5]
        else match bd with
        | BOk ed => Replies (catalog c hd q ed)
        | _ => Replies [error_msg hd (Some (q_raw q)) None 1]
        end
    end
  end.

(* ------------------------------------------------------------------ *)
(* The record parser on the simplest tails (tie to the real parser)    *)
(* ------------------------------------------------------------------ *)

(* MessageRequest::read_with_queries restricted to ANCOUNT = NSCOUNT = 0 and ARCOUNT = 0, or
   ARCOUNT = 1 with an OPT record owned by a literal root byte and no Client-Subnet option:
   Record::read (OPT branch), OPT::read_data, Edns::from(&Record).  Outside that class: None. *)
Inductive optres := OErr | OOpts (nsid : bool) | OUnk.

Fixpoint opt_loop (fuel : nat) (rd : list byte) (rdlen : N) (nsid : bool) : optres :=
  match fuel with
  | O => OUnk
  | S fuel' =>
    match rd with
    | [] => OOpts nsid                         (* ReadCode at the end: all options kept *)
    | [_] => OErr                              (* read_u16 (code) fails *)
    | c0 :: c1 :: rest =>
      match rest with
      | [] => OOpts false                      (* ends in state Code: options cleared *)
      | [_] => OErr                            (* read_u16 (length) fails *)
      | l0 :: l1 :: data =>
        let len := be16 l0 l1 in
        if rdlen <? len then OErr              (* option length beyond the rdata length *)
        else if be16 c0 c1 =? 8 then OUnk      (* Client Subnet: not covered *)
        else if N.of_nat (length data) <? len then OOpts false   (* ends in state Data: cleared *)
        else opt_loop fuel' (skipn (N.to_nat len) data) rdlen (nsid || (be16 c0 c1 =? 3))
      end
    end
  end.

Definition simple_tail (buf : list byte) : option body :=
  match parse_header buf with
  | None => None
  | Some hd =>
    match read_question buf (h_qd hd) with
    | QOk q =>
      if negb ((h_an hd =? 0) && (h_ns hd =? 0)) then None
      else if h_ar hd =? 0 then Some (BOk None)
      else if negb (h_ar hd =? 1) then None
      else match skipn (q_end q) buf with
      | 0 :: 0 :: 41 :: p0 :: p1 :: ext :: ver :: f0 :: f1 :: r0 :: r1 :: rest =>
          let rdlen := be16 r0 r1 in
          let ok nsid := Some (BOk (Some (EdnsIn ver (N.max (be16 p0 p1) 512) (N.testbit f0 7) nsid))) in
          if N.of_nat (length rest) <? rdlen then Some BErr       (* rdlength beyond the message *)
          else if rdlen =? 0 then ok false
          else match opt_loop (S (length rest)) (firstn (N.to_nat rdlen) rest) rdlen false with
               | OErr => Some BErr
               | OOpts nsid => ok nsid
               | OUnk => None
               end
      | _ => None
      end
    | _ => None
    end
  end.

(* ------------------------------------------------------------------ *)
(* Specification (independent of the functions above)                  *)
(* ------------------------------------------------------------------ *)

(* a request the server accepts: at least a header, QR clear *)
Definition accepted (buf : list byte) : Prop :=
  (12 <= length buf)%nat /\ N.testbit (nth 2 buf 0) 7 = false.

Definition req_id (buf : list byte) : list byte := firstn 2 buf.
Definition req_opcode (buf : list byte) : N := N.land (N.shiftr (nth 2 buf 0) 3) 15.

(* address n-bit prefix relation, stated with division instead of shifts *)
Definition covers (v6 : bool) (a : N) (n : net) : Prop :=
  n_v6 n = v6 /\ n_addr n / 2 ^ (width v6 - n_len n) = a / 2 ^ (width v6 - n_len n).

(* the documented rule of access.rs, on lists, without any longest-prefix computation *)
Definition acl_spec (c : acl) (v6 : bool) (a : N) : Prop :=
  let v6' := fst (canonical v6 a) in
  let a' := snd (canonical v6 a) in
  let hit l := exists n, In n l /\ covers v6' a' n in
  (hit (a_deny c) /\
   exists al, In al (a_allow c) /\ covers v6' a' al /\
              forall d, In d (a_deny c) -> covers v6' a' d -> n_len d < n_len al)
  \/
  (~ hit (a_deny c) /\
   (hit (a_allow c)
    \/ (exists d, In d (a_deny c) /\ n_v6 d = v6')
    \/ (forall al, In al (a_allow c) -> n_v6 al <> v6'))).

Definition is_suffix {A} (o n : list A) : Prop := exists p, n = p ++ o.

(* zone [i] (origin [o], chain [ch]) is the one a query for [n] belongs to *)
Definition longest_zone (zs : list zone) (n : list (list byte)) (i : N) (ch : list hspec) : Prop :=
  exists o, nth_error zs (N.to_nat i) = Some (o, ch) /\ is_suffix o n /\
    (forall o' ch', In (o', ch') zs -> is_suffix o' n -> (length o' <= length o)%nat) /\
    (forall j o' ch', (j < N.to_nat i)%nat -> nth_error zs j = Some (o', ch') -> o' <> o).

Definition no_zone (zs : list zone) (n : list (list byte)) : Prop :=
  forall o ch, In (o, ch) zs -> ~ is_suffix o n.

Definition reply_markers (r : reply) : list marker := r_answers r ++ r_auth r.

(* what a client decodes as the question of an encoded reply *)
Definition decoded_question (e : list byte) : qres := read_question e 1.
Definition same_question (a b : question) : Prop :=
  q_orig a = q_orig b /\ q_name a = q_name b /\ q_type a = q_type b /\ q_class a = q_class b.
