(* C09 — correspondence glue: the harness ships (query, soa, rcode, answers, NSEC3 records,
   limits), the finite table lower-cased-name |-> real SHA-1 NSEC3 hash (under the first
   record's salt and iteration count) and the Proof that the real verify_nsec3 returned;
   the model is re-run with the table as its hash function and compared. *)
From Coq Require Uint63.
From HV Require Import Lib.Base Lib.Pack C09.Model.
Open Scope N_scope.

(* packed bytes with a monomorphic spine (no implicit arguments to infer: about twice as fast to
   elaborate as a list literal) *)
Inductive il := IN | IC (w : Uint63.int) (l : il).
Fixpoint il_list (l : il) : list Uint63.int := match l with IN => [] | IC w l' => w :: il_list l' end.
Definition PBm (n : N) (l : il) : pbytes := PB n (il_list l).

(* names travel in wire form: <len><bytes>... without the terminating zero *)
Fixpoint parse_labels (fuel : nat) (bs : list byte) : name :=
  match fuel with
  | O => []
  | S f =>
      match bs with
      | [] => []
      | n :: r => firstn (N.to_nat n) r :: parse_labels f (skipn (N.to_nat n) r)
      end
  end.
Definition un_name (p : pbytes) : name := let bs := unpack p in parse_labels (length bs) bs.

Inductive rech :=
  RecH (owner : pbytes) (optout : bool) (iter : N) (salt : pbytes) (next : pbytes) (types : list N).

Definition rec_of (r : rech) : nsec3 :=
  match r with
  | RecH o oo it s nx ts => mkN3 (un_name o) 1 oo it (unpack s) (unpack nx) ts
  end.

(* answers: 0 = a record that is not an RRSIG, n+1 = an RRSIG with num_labels = n.
   codes/table: the names whose digests are shipped, and their 20-byte digests concatenated in
   that order; code 2k = the lower-cased query name without its k leftmost labels, 2k+1 = "*."
   in front of that.  The harness ships every suffix and the wildcard of every suffix that some
   record matches (all the model can ask for); anything else reads as 20 zero bytes, which makes
   a model that asks for more disagree loudly.
   obs: 0 Secure, 1 Insecure, 2 Bogus, 3 panic, 4 Indeterminate (never produced) *)
Inductive case :=
  Case (qname : pbytes) (qtype : N) (soa : option pbytes) (rcode : N) (answers : list N)
       (recs : list rech) (soft hard : N) (codes : list N) (table : pbytes) (obs : N).

Definition name_of_code (lq : name) (c : N) : name :=
  let s := skipn (N.to_nat (c / 2)) lq in if N.odd c then [42] :: s else s.

Fixpoint chunks20 (fuel : nat) (bs : list byte) : list (list byte) :=
  match fuel with
  | O => []
  | S f => match bs with [] => [] | _ => firstn 20 bs :: chunks20 f (skipn 20 bs) end
  end.

Definition ans_of (a : N) : option N := if a =? 0 then None else Some (a - 1).

Definition obs_of (r : result) : N :=
  match r with R Secure => 0 | R Insecure => 1 | R Bogus => 2 | Panic => 3 end.

Definition run (c : case) : result :=
  match c with
  | Case q qt soa rc ans recs soft hard codes tbl _ =>
      let qn := un_name q in
      let hs := unpack tbl in
      let t := combine (map (name_of_code (lower_name qn)) codes) (chunks20 (length hs) hs) in
      verify_nsec3 (Htab t) qn qt (option_map un_name soa) rc (map ans_of ans) (map rec_of recs) soft hard
  end.

Definition check (c : case) : bool :=
  match c with
  | Case _ _ _ _ _ _ _ _ _ _ obs => N.eqb (obs_of (run c)) obs
  end.

Definition bad (cs : list case) : list N := bad_idx check 0 cs.

(* full model output for a replay *)
Definition show (c : case) := obs_of (run c).
