(* C09 — completeness of the validator for name errors: the RFC 5155 7.2.2 proof taken from the
   zone's genuine chain (closest encloser matched, next closer and wildcard covered), in any
   order and with any other genuine records around it, is accepted. *)
From HV Require Import Lib.Base Lib.ListX C09.Model C09.B32Proofs C09.LimitProofs C09.CoverProofs C09.ShapeProofs C09.SoundProofs.
Open Scope N_scope.

(* --- order facts on digests ------------------------------------------------------------------ *)

Lemma bytes_cmp_refl a : bytes_cmp a a = Eq.
Proof. now apply bytes_cmp_eq. Qed.

Lemma bytes_cmp_le_lt_trans a : forall b c,
  bytes_cmp a b <> Gt -> bytes_cmp b c = Lt -> bytes_cmp a c = Lt.
Proof.
  induction a as [|x a IH]; intros [|y b] [|z c]; cbn; try congruence; try reflexivity.
  destruct (x ?= y) eqn:Exy.
  - apply N.compare_eq in Exy. subst y. intros Hab. destruct (x ?= z); try congruence. now apply IH.
  - intros _. destruct (y ?= z) eqn:Eyz; try congruence.
    + apply N.compare_eq in Eyz. subst z. now rewrite Exy.
    + intros _. rewrite N.compare_lt_iff in *. assert (x < z) as Hxz by lia.
      apply N.compare_lt_iff in Hxz. now rewrite Hxz.
  - congruence.
Qed.

Lemma name_eqb_length a b : name_eqb a b = true -> length a = length b.
Proof.
  unfold name_eqb. revert b; induction a as [|x a IH]; intros [|y b]; cbn; try congruence.
  rewrite andb_true_iff. intros [_ Hr]. f_equal. now apply IH.
Qed.

Lemma label_eqb_length a b : label_eqb a b = true -> length a = length b.
Proof.
  revert b; induction a as [|x a IH]; intros [|y b]; cbn; try congruence.
  rewrite andb_true_iff. intros [_ Hr]. f_equal. now apply IH.
Qed.

Lemma label_eqb_lower l : label_eqb l (map lc l) = true.
Proof. induction l as [|x l IH]; cbn; [reflexivity|]. now rewrite lc_idem, N.eqb_refl. Qed.

Lemma name_eqb_lower n : name_eqb n (lower_name n) = true.
Proof.
  unfold name_eqb, lower_name. induction n as [|l n IH]; cbn; [reflexivity|]. now rewrite label_eqb_lower.
Qed.

Lemma name_eqb_refl n : name_eqb n n = true.
Proof. unfold name_eqb. induction n as [|l n IH]; cbn; [reflexivity|]. now rewrite label_eqb_refl. Qed.

Lemma zip_all_lower_gen (r : list label) pre : zip_all (map (map lc) r) (r ++ pre) = true.
Proof.
  induction r as [|l r IH]; cbn; [reflexivity|].
  rewrite label_eqb_sym, label_eqb_lower. exact IH.
Qed.

Lemma zip_all_lower a pre :
  zip_all (rev (lower_name a)) (rev a ++ pre) = true.
Proof. unfold lower_name. rewrite <- map_rev. apply zip_all_lower_gen. Qed.

(* a lower-case apex that is a suffix of the lower-cased query name is a zone of it *)
Lemma zone_of_suffix apex q pre :
  lower_name q = pre ++ apex -> zone_of apex q = true.
Proof.
  intros E. unfold zone_of. destruct apex as [|a apex']; [reflexivity|].
  assert (length q = (length pre + length (a :: apex'))%nat) as Hl.
  { rewrite <- app_length, <- E. unfold lower_name. now rewrite map_length. }
  destruct q as [|l q']; [cbn in Hl; lia|].
  assert ((length (l :: q') <? length (a :: apex'))%nat = false) as -> by (apply Nat.ltb_ge; lia).
  (* split q into the part above the apex and the part that lower-cases to the apex *)
  set (qq := l :: q') in *.
  assert (lower_name (skipn (length pre) qq) = a :: apex') as Es.
  { rewrite lower_name_skipn, E. rewrite skipn_app, Nat.sub_diag, skipn_all. reflexivity. }
  rewrite <- (firstn_skipn (length pre) qq) at 1. rewrite rev_app_distr.
  rewrite <- Es. apply zip_all_lower.
Qed.

Lemma find_map_first {A B} (f : A -> option B) (l : list A) k d y :
  (k < length l)%nat -> (forall j, (j < k)%nat -> f (nth j l d) = None) -> f (nth k l d) = Some y ->
  find_map f l = Some y.
Proof.
  revert k; induction l as [|x l IH]; intros k Hk Hn Hy; cbn in Hk; [lia|].
  destruct k as [|k]; cbn [nth find_map] in *.
  - now rewrite Hy.
  - rewrite (Hn 0%nat ltac:(lia)). apply (IH k); [lia| |exact Hy]. intros j Hj. apply (Hn (S j)). lia.
Qed.

Lemma find_idx_first {A} (P : A -> bool) (l : list A) k d : forall i0,
  (k < length l)%nat -> (forall j, (j < k)%nat -> P (nth j l d) = false) -> P (nth k l d) = true ->
  find_idx P i0 l = Some (i0 + k)%nat.
Proof.
  revert k; induction l as [|x l IH]; intros k i0 Hk Hn Hy; cbn in Hk; [lia|].
  destruct k as [|k]; cbn [nth find_idx] in *.
  - rewrite Hy. f_equal. lia.
  - rewrite (Hn 0%nat ltac:(lia)). rewrite (IH k (S i0)); [f_equal; lia|lia| |exact Hy].
    intros j Hj. apply (Hn (S j)). lia.
Qed.

Lemma find_exists {A} (f : A -> bool) l x : In x l -> f x = true -> exists y, find f l = Some y.
Proof.
  intros Hin Hf. destruct (find f l) as [y|] eqn:E; [now exists y|].
  pose proof (find_none _ _ E x Hin). congruence.
Qed.

Lemma existsb_find_none {A} (f : A -> bool) l : find f l = None -> existsb f l = false.
Proof.
  intros E. apply not_true_iff_false. intros Hx. apply existsb_exists in Hx. destruct Hx as (x & Hin & Hf).
  pose proof (find_none _ _ E x Hin). congruence.
Qed.

Lemma cand_loop_exact soa : forall m fuel cur,
  (forall j, (j < m)%nat -> name_eqb (skipn j cur) soa = false) ->
  name_eqb (skipn m cur) soa = true -> (m < fuel)%nat ->
  cand_loop fuel cur soa = map (fun j => skipn j cur) (seq 0 (S m)).
Proof.
  induction m as [|m IH]; intros fuel cur Hlt Heq Hf; (destruct fuel as [|fuel]; [lia|]); cbn [cand_loop].
  - cbn [skipn] in Heq. now rewrite Heq.
  - pose proof (Hlt 0%nat ltac:(lia)) as H0. cbn [skipn] in H0. rewrite H0.
    change (seq 0 (S (S m))) with (0%nat :: seq 1 (S m)). rewrite map_cons. change (skipn 0 cur) with cur. f_equal.
    rewrite (IH fuel (base_name cur)).
    + rewrite <- seq_shift, map_map. apply map_ext. intros j. unfold base_name. destruct cur; [now rewrite !skipn_nil|reflexivity].
    + intros j Hj. specialize (Hlt (S j) ltac:(lia)). unfold base_name. destruct cur; [now rewrite skipn_nil in *|exact Hlt].
    + unfold base_name. destruct cur; [now rewrite skipn_nil in *|exact Heq].
    + lia.
Qed.

Lemma enc_len_skipn k n : (enc_len (skipn k n) <= enc_len n)%nat.
Proof.
  unfold enc_len. revert k; induction n as [|l n IH]; intros k; [now rewrite skipn_nil|].
  destruct k as [|k]; cbn [skipn fold_right]; [lia|]. specialize (IH k). lia.
Qed.

Section Complete.
  Variable H : list byte -> N -> name -> list byte.
  Variable WC : label -> label -> list byte -> list byte -> bool.
  Variable z : zone.
  Variable salt : list byte.
  Variable iter : N.
  Let h := H salt iter.
  Hypothesis Hh : hash_ok h.
  Hypothesis Hz : wf_zone z.
  (* the wrap-around test accepts at least what RFC 5155 covers (true for both variants) *)
  Hypothesis HWC : forall p t n n',
    label_eqb (fst p) (b32 (h n)) = true -> n3_next (snd p) = h n' ->
    bytes_cmp (h n) (h n') <> Lt -> (bytes_cmp (h n) (h t) = Lt \/ bytes_cmp (h t) (h n') = Lt) ->
    WC (fst p) (b32 (h t)) (h t) (n3_next (snd p)) = true.

  (* a genuine record whose RFC interval contains the digest of t passes the code's test *)
  Lemma covers1_complete p t n :
    gpair h z salt iter p -> label_eqb (fst p) (b32 (h n)) = true ->
    rfc_covers (h n) (n3_next (snd p)) (h t) -> covers1 WC (h t) (b32 (h t)) p = true.
  Proof.
    intros (n0 & ts & n' & Hn0 & El0 & Et & Hn' & En' & Hgap) El Hc.
    unfold covers1. rewrite (next_b32_h h Hh _ n' En').
    assert (h t <> h n) as Hne.
    { intros E. rewrite E in Hc. destruct Hc as [(_ & H1 & _)|(Hnl & [H1|H1])].
      - rewrite bytes_cmp_refl in H1. discriminate.
      - rewrite bytes_cmp_refl in H1. discriminate.
      - contradiction. }
    destruct (label_eqb (fst p) (b32 (h t))) eqn:Em.
    { exfalso. apply Hne. apply (b32_eqb _ _ 4); auto using (h_ok h Hh), (h_len h Hh).
      apply (label_eqb_trans _ (fst p)); [now rewrite label_eqb_sym|exact El]. }
    rewrite (label_cmp_eqb_l _ _ _ El), (b32_h_cmp h Hh).
    rewrite (label_cmp_eqb_l _ _ (b32 (h t)) El), (b32_h_cmp h Hh).
    rewrite En' in *.
    destruct Hc as [(H0 & H1 & H2)|(Hnl & Hor)].
    - rewrite H0, H1, H2. reflexivity.
    - destruct (bytes_cmp (h n) (h n')) eqn:E0; cbn [is_lt]; try congruence;
        (rewrite <- En'; eapply HWC; [exact El|exact En'|congruence|exact Hor]).
  Qed.

  Section Run.
    Variables (qname : name) (ps : list pair).
    Hypothesis Hg : Forall (gpair h z salt iter) ps.
    Let soa := Some (z_apex z).
    Let cx := mkCtx qname soa ps salt iter.
    Let lq := lower_name qname.
    Hypothesis Hcf : collision_free h (z_names z ++ relevant lq).
    Variable k : nat.
    Hypothesis Hk : (1 <= k)%nat.
    Hypothesis Henc : encloser z lq k.
    Hypothesis Hnowild : ~ In (star (skipn k lq)) (z_names z).
    Hypothesis Hlen : (enc_len qname + 2 <= 255)%nat.
    Hypothesis Hapex : z_apex z <> [].
    Variables (pce pnc pwc : pair) (nnc nwc : name).
    Hypothesis Hce : In pce ps /\ label_eqb (fst pce) (b32 (h (skipn k lq))) = true.
    Hypothesis Hnc : In pnc ps /\ label_eqb (fst pnc) (b32 (h nnc)) = true /\
                     rfc_covers (h nnc) (n3_next (snd pnc)) (h (skipn (k - 1) lq)).
    Hypothesis Hwc : In pwc ps /\ label_eqb (fst pwc) (b32 (h nwc)) = true /\
                     rfc_covers (h nwc) (n3_next (snd pwc)) (h (star (skipn k lq))).

    Lemma lq_len : length lq = length qname.
    Proof. unfold lq, lower_name. apply map_length. Qed.

    Lemma no_match_absent t :
      In t (relevant lq) -> ~ In t (z_names z) -> find_match ps (b32 (h t)) = None.
    Proof.
      intros Hr Hn. destruct (find_match ps (b32 (h t))) as [p|] eqn:E; [|reflexivity].
      exfalso. apply Hn. unfold find_match in E. destruct (find_some_in _ _ _ E) as [Hp Hm].
      apply in_map_iff. exists (t, n3_types (snd p)). split; [reflexivity|].
      eapply matched_in_zone; eassumption.
    Qed.

    Lemma find_cover_some t p n :
      In p ps -> label_eqb (fst p) (b32 (h n)) = true -> rfc_covers (h n) (n3_next (snd p)) (h t) ->
      exists p', find_cover WC ps (h t) (b32 (h t)) = Some p'.
    Proof.
      intros Hp El Hc. destruct (find_cover WC ps (h t) (b32 (h t))) as [p'|] eqn:E; [now exists p'|].
      exfalso. unfold find_cover in E. pose proof (find_none _ _ E p Hp) as Hf.
      rewrite Forall_forall in Hg. rewrite (covers1_complete p t n (Hg p Hp) El Hc) in Hf. discriminate.
    Qed.

    (* the suffix of the query name that the apex is *)
    Lemma apex_suffix : exists m, (k <= m <= length lq)%nat /\ skipn m lq = z_apex z.
    Proof.
      destruct Henc as (Hkl & Hin & _). destruct Hz as (_ & Hsuf & _).
      destruct (Hsuf _ Hin) as (_ & pre & Epre).
      exists (k + length pre)%nat. split.
      - assert (length (skipn k lq) = (length pre + length (z_apex z))%nat) as Hl by (rewrite Epre; apply app_length).
        rewrite skipn_length in Hl. lia.
      - rewrite <- skipn_skipn_add. rewrite Epre. rewrite skipn_app, Nat.sub_diag, skipn_all. reflexivity.
    Qed.

    Lemma skipn_lq j : lower_name (skipn j qname) = skipn j lq.
    Proof. apply lower_name_skipn. Qed.

    Lemma lbl_h n : lbl H cx n = b32 (h (lower_name n)).
    Proof. reflexivity. Qed.

    Lemma candidates_exact :
      exists m, (k <= m <= length qname)%nat /\
        candidates cx = Some (map (fun j => skipn j qname) (seq 0 (S m))).
    Proof.
      destruct apex_suffix as (m & Hm & Em). rewrite lq_len in Hm. exists m. split; [exact Hm|].
      unfold candidates. cbn [c_soa c_qname cx soa].
      assert (zone_of (z_apex z) qname = true) as ->.
      { apply (zone_of_suffix _ _ (firstn m lq)). fold lq. rewrite <- Em. symmetry. apply firstn_skipn. }
      assert (is_root (z_apex z) = false) as -> by (destruct (z_apex z); [contradiction|reflexivity]).
      cbn [andb]. f_equal. apply cand_loop_exact; [| |lia].
      - intros j Hj. destruct (name_eqb (skipn j qname) (z_apex z)) eqn:E; [|reflexivity].
        apply name_eqb_length in E. rewrite <- Em in E. rewrite !skipn_length, lq_len in E. lia.
      - rewrite <- Em, <- skipn_lq. apply name_eqb_lower.
    Qed.

    Lemma absent_below j : (j < k)%nat -> ~ In (skipn j lq) (z_names z).
    Proof. destruct Henc as (_ & _ & Hall). apply Hall. Qed.

    Lemma nx_complete : validate_nxdomain H WC cx = R Secure.
    Proof.
      destruct candidates_exact as (m & Hm & Ecs).
      destruct Henc as (Hkl & Hcein & Hall). rewrite lq_len in Hkl.
      destruct Hce as [Hpce Hlce]. destruct Hnc as (Hpnc & Hlnc & Hcnc). destruct Hwc as (Hpwc & Hlwc & Hcwc).
      unfold validate_nxdomain. cbv zeta.
      (* no record matches the query name *)
      assert (find_match ps (b32 (h lq)) = None) as Hq.
      { apply no_match_absent; [apply lq_relevant|]. apply (absent_below 0%nat). lia. }
      change (hi_label (mk_info H cx (c_qname cx))) with (b32 (h lq)).
      cbn [c_pairs cx].
      match goal with |- context [existsb ?f ?l] =>
        assert (existsb f l = false) as -> by (apply existsb_find_none; exact Hq) end.
      (* the closest encloser proof *)
      set (cs := map (fun j => skipn j qname) (seq 0 (S m))) in *.
      assert (forall j, (j <= m)%nat -> nth j cs [] = skipn j qname) as Hnth.
      { intros j Hj. unfold cs.
        rewrite (nth_indep _ [] ((fun j => skipn j qname) 0%nat)) by (rewrite map_length, seq_length; lia).
        rewrite (map_nth (fun j => skipn j qname)), seq_nth by lia. reflexivity. }
      assert (length cs = S m) as Hcsl by (unfold cs; now rewrite map_length, seq_length).
      destruct (find_exists (fun p : pair => label_eqb (fst p) (b32 (h (skipn k lq)))) ps pce Hpce Hlce) as (mrec & Emrec).
      destruct (find_some_in _ _ _ Emrec) as [Hmin Hml].
      assert (ce_proof H WC cx =
              Some (Some (mk_info H cx (skipn k qname), mrec),
                    option_map (fun r => (mk_info H cx (skipn (k - 1) qname), r))
                               (cover_of H WC cx (skipn (k - 1) qname)))) as Hcep.
      { unfold ce_proof. rewrite Ecs. cbv zeta.
        set (infos := map (mk_info H cx) cs).
        assert (forall j, (j <= m)%nat -> nth j infos (mk_info H cx []) = mk_info H cx (skipn j qname)) as Hinf.
        { intros j Hj. unfold infos. rewrite (map_nth (mk_info H cx)). now rewrite Hnth. }
        assert (length infos = S m) as Hil by (unfold infos; now rewrite map_length).
        rewrite (find_map_first _ infos k (mk_info H cx []) mrec).
        2:{ lia. }
        2:{ intros j Hj. rewrite Hinf by lia. cbn [hi_label mk_info snd]. change (hashn H cx (skipn j qname)) with (h (lower_name (skipn j qname))).
            rewrite skipn_lq. apply no_match_absent; [apply relevant_suffix; rewrite lq_len; lia|now apply absent_below]. }
        2:{ rewrite Hinf by lia. cbn [hi_label mk_info snd]. change (hashn H cx (skipn k qname)) with (h (lower_name (skipn k qname))).
            rewrite skipn_lq. exact Emrec. }
        rewrite (find_idx_first _ (tl infos) (k - 1) (mk_info H cx []) 1).
        2:{ destruct infos; cbn [length tl] in *; lia. }
        2:{ intros j Hj. rewrite <- (Nat.add_sub j 1) at 1. rewrite nth_tl by lia. rewrite Hinf by lia.
            cbn [hi_label mk_info snd]. change (hashn H cx (skipn (j + 1) qname)) with (h (lower_name (skipn (j + 1) qname))).
            rewrite skipn_lq. destruct (label_eqb (b32 (h (skipn (j + 1) lq))) (fst mrec)) eqn:E; [|reflexivity].
            exfalso. assert (h (skipn (j + 1) lq) = h (skipn k lq)) as Eh.
            { apply (b32_eqb _ _ 4); auto using (h_ok h Hh), (h_len h Hh). eapply label_eqb_trans; eassumption. }
            apply Hcf in Eh.
            - apply (f_equal (@length label)) in Eh. rewrite !skipn_length, lq_len in Eh. lia.
            - apply in_or_app. right. apply relevant_suffix. rewrite lq_len. lia.
            - apply in_or_app. right. apply relevant_suffix. rewrite lq_len. lia. }
        2:{ rewrite nth_tl by lia. rewrite Hinf by lia. cbn [hi_label mk_info snd].
            change (hashn H cx (skipn k qname)) with (h (lower_name (skipn k qname))). rewrite skipn_lq.
            now rewrite label_eqb_sym. }
        replace (1 + (k - 1))%nat with k by lia. rewrite !Hinf by lia. reflexivity. }
      assert (exists ncr, cover_of H WC cx (skipn (k - 1) qname) = Some ncr) as (ncr & Encr).
      { unfold cover_of. cbn [c_pairs cx]. rewrite lbl_h. change (hashn H cx (skipn (k - 1) qname)) with (h (lower_name (skipn (k - 1) qname))).
        rewrite skipn_lq. apply (find_cover_some _ pnc nnc); assumption. }
      assert (exists wcr, cover_of H WC cx (star (skipn k qname)) = Some wcr) as (wcr & Ewcr).
      { unfold cover_of. cbn [c_pairs cx]. rewrite lbl_h. change (hashn H cx (star (skipn k qname))) with (h (lower_name (star (skipn k qname)))).
        rewrite lower_star, skipn_lq. apply (find_cover_some _ pwc nwc); assumption. }
      unfold ce_proof_wc. rewrite Hcep. cbn [fst]. cbv zeta.
      assert (prepend_star (hi_name (mk_info H cx (skipn k qname))) = Some (star (skipn k qname))) as ->.
      { unfold prepend_star. cbn [hi_name mk_info fst]. pose proof (enc_len_skipn k qname).
        assert ((255 <? enc_len (skipn k qname) + 2)%nat = false) as -> by (apply Nat.ltb_ge; lia). reflexivity. }
      rewrite Encr. cbn [option_map].
      change (find_cover WC (c_pairs cx) (hi_hash (mk_info H cx (star (skipn k qname)))) (hi_label (mk_info H cx (star (skipn k qname)))))
        with (cover_of H WC cx (star (skipn k qname))).
      rewrite Ewcr. reflexivity.
    Qed.
  End Run.
End Complete.

(* --- both wrap-around tests accept what RFC 5155 covers ---------------------------------------- *)

Lemma bytes_cmp_lt_le_trans a : forall b c,
  bytes_cmp a b = Lt -> bytes_cmp b c <> Gt -> bytes_cmp a c = Lt.
Proof.
  induction a as [|x a IH]; intros [|y b] [|z c]; cbn; try congruence; try reflexivity.
  destruct (x ?= y) eqn:Exy.
  - apply N.compare_eq in Exy. subst y. intros Hab. destruct (x ?= z); try congruence. now apply IH.
  - intros _. destruct (y ?= z) eqn:Eyz; try congruence.
    + apply N.compare_eq in Eyz. subst z. now rewrite Exy.
    + intros _. rewrite N.compare_lt_iff in *. assert (x < z) as Hxz by lia.
      apply N.compare_lt_iff in Hxz. now rewrite Hxz.
  - congruence.
Qed.

Section WrapTests.
  Variable h : name -> list byte.
  Hypothesis Hh : hash_ok h.

  Lemma wrap_rfc_complete (p : pair) t n n' :
    label_eqb (fst p) (b32 (h n)) = true -> n3_next (snd p) = h n' ->
    bytes_cmp (h n) (h n') <> Lt -> (bytes_cmp (h n) (h t) = Lt \/ bytes_cmp (h t) (h n') = Lt) ->
    wrap_covers_rfc (fst p) (b32 (h t)) (h t) (n3_next (snd p)) = true.
  Proof.
    intros El En _ Hor. unfold wrap_covers_rfc. rewrite (label_cmp_eqb_l _ _ _ El), (b32_h_cmp h Hh), En.
    destruct Hor as [E|E]; rewrite E; cbn; [reflexivity|apply orb_true_r].
  Qed.

  Lemma wrap_v0_complete (p : pair) t n n' :
    label_eqb (fst p) (b32 (h n)) = true -> n3_next (snd p) = h n' ->
    bytes_cmp (h n) (h n') <> Lt -> (bytes_cmp (h n) (h t) = Lt \/ bytes_cmp (h t) (h n') = Lt) ->
    wrap_covers_v0 (fst p) (b32 (h t)) (h t) (n3_next (snd p)) = true.
  Proof.
    intros El En Hw Hor. unfold wrap_covers_v0. rewrite (label_cmp_eqb_l _ _ _ El), (b32_h_cmp h Hh), En.
    assert (bytes_cmp (h n') (h n) <> Gt) as Hle.
    { rewrite (bytes_cmp_antisym (h n) (h n')). destruct (bytes_cmp (h n) (h n')); cbn; congruence. }
    destruct Hor as [E|E].
    - (* next <= owner < target: target > next *)
      pose proof (bytes_cmp_le_lt_trans _ _ _ Hle E) as Hlt.
      rewrite (bytes_cmp_antisym (h n') (h t)), Hlt. cbn. apply orb_true_r.
    - (* target < next <= owner: owner > target *)
      pose proof (bytes_cmp_lt_le_trans _ _ _ E Hle) as Hlt.
      rewrite (bytes_cmp_antisym (h t) (h n)), Hlt. reflexivity.
  Qed.
End WrapTests.

(* --- lifted to verify_nsec3_gen ---------------------------------------------------------------- *)

Section TopComplete.
  Variable H : list byte -> N -> name -> list byte.
  Variable WC : label -> label -> list byte -> list byte -> bool.
  Variable z : zone.
  Variable salt : list byte.
  Variable iter : N.
  Let h := H salt iter.
  Hypothesis Hh : hash_ok h.
  Hypothesis Hz : wf_zone z.
  Hypothesis HWC : forall (p : pair) t n n',
    label_eqb (fst p) (b32 (h n)) = true -> n3_next (snd p) = h n' ->
    bytes_cmp (h n) (h n') <> Lt -> (bytes_cmp (h n) (h t) = Lt \/ bytes_cmp (h t) (h n') = Lt) ->
    WC (fst p) (b32 (h t)) (h t) (n3_next (snd p)) = true.

  Lemma mk_pairs_genuine rs :
    Forall (genuine h z salt iter) rs -> mk_pairs (Some (z_apex z)) rs = Some (map pair_of rs).
  Proof.
    induction rs as [|r rs IH]; intros Hg; [reflexivity|]. inversion Hg as [|? ? Hr Hrs]; subst.
    destruct Hr as (n & ts & l & base & _ & Eo & El & Eb & _).
    cbn [mk_pairs map]. rewrite Eo, Eb. cbn [negb].
    apply label_eqb_length in El. rewrite (b32_length _ 4) in El by apply (h_len h Hh). rewrite El.
    cbn [Nat.eqb Nat.ltb Nat.leb orb]. rewrite (IH Hrs). unfold pair_of at 2. now rewrite Eo.
  Qed.

  Lemma genuine_same_params a b :
    genuine h z salt iter a -> genuine h z salt iter b -> same_params a b = true.
  Proof.
    intros (? & ? & ? & ? & _ & _ & _ & _ & _ & Aa & As & Ai & _) (? & ? & ? & ? & _ & _ & _ & _ & _ & Ba & Bs & Bi & _).
    apply same_params_spec. repeat split; congruence.
  Qed.

  Theorem top_nx_complete qname qtype answers rs soft hard k rce rnc rwc nnc nwc :
    let lq := lower_name qname in
    rs <> [] -> Forall (genuine h z salt iter) rs ->
    collision_free h (z_names z ++ relevant lq) ->
    iter <= soft -> iter <= hard -> z_apex z <> [] -> (enc_len qname + 2 <= 255)%nat ->
    (1 <= k)%nat -> encloser z lq k -> ~ In (star (skipn k lq)) (z_names z) ->
    In rce rs -> label_eqb (hd [] (n3_owner rce)) (b32 (h (skipn k lq))) = true ->
    In rnc rs -> label_eqb (hd [] (n3_owner rnc)) (b32 (h nnc)) = true ->
    rfc_covers (h nnc) (n3_next rnc) (h (skipn (k - 1) lq)) ->
    In rwc rs -> label_eqb (hd [] (n3_owner rwc)) (b32 (h nwc)) = true ->
    rfc_covers (h nwc) (n3_next rwc) (h (star (skipn k lq))) ->
    verify_nsec3_gen H WC qname qtype (Some (z_apex z)) 3 answers rs soft hard = R Secure.
  Proof.
    intros lq Hne Hg Hcf Hsoft Hhard Hapex Hlen Hk Henc Hnw Hce Hlce Hnc Hlnc Hcnc Hwc Hlwc Hcwc.
    destruct rs as [|first rs']; [congruence|]. rewrite verify_unfold.
    rewrite (mk_pairs_genuine _ Hg).
    assert (forallb (same_params first) (first :: rs') = true) as ->.
    { apply forallb_forall. intros r Hr. rewrite Forall_forall in Hg.
      apply genuine_same_params; apply Hg; [now left|exact Hr]. }
    cbn [negb].
    assert (n3_salt first = salt /\ n3_iter first = iter) as [Es Ei].
    { inversion Hg as [|? ? Hf _]; subst. destruct Hf as (? & ? & ? & ? & _ & _ & _ & _ & _ & _ & E1 & E2 & _). auto. }
    rewrite Ei. apply N.ltb_ge in Hhard, Hsoft. rewrite Hhard, Hsoft.
    unfold dispatch. rewrite Es, Ei. cbn [N.eqb]. change (3 =? 3) with true. cbv iota.
    eapply (nx_complete H WC z salt iter Hh Hz HWC qname (map pair_of (first :: rs'))
              (genuine_pairs h z salt iter _ _ _ Hg (mk_pairs_genuine _ Hg)) Hcf k Hk Henc Hlen Hapex
              (pair_of rce) (pair_of rnc) (pair_of rwc) nnc nwc).
    - split; [now apply in_map|exact Hlce].
    - split; [now apply in_map|]. split; [exact Hlnc|exact Hcnc].
    - split; [now apply in_map|]. split; [exact Hlwc|exact Hcwc].
  Qed.

  Lemma lacks_has_type r t : ~ In t (n3_types r) -> has_type r t = false.
  Proof.
    intros Hn. unfold has_type. apply not_true_iff_false. intros Hx. apply existsb_exists in Hx.
    destruct Hx as (x & Hin & E). apply N.eqb_eq in E. subst. contradiction.
  Qed.

  (* NODATA: a genuine record matching QNAME whose node lacks QTYPE and CNAME is accepted *)
  Theorem top_nodata_complete qname qtype answers rs soft hard ts rq :
    let lq := lower_name qname in
    rs <> [] -> Forall (genuine h z salt iter) rs ->
    collision_free h (z_names z ++ relevant lq) ->
    iter <= soft -> iter <= hard ->
    In (lq, ts) (z_nodes z) -> lacks ts qtype -> lacks ts T_CNAME ->
    In rq rs -> label_eqb (hd [] (n3_owner rq)) (b32 (h lq)) = true ->
    verify_nsec3_gen H WC qname qtype (Some (z_apex z)) 0 answers rs soft hard = R Secure.
  Proof.
    intros lq Hne Hg Hcf Hsoft Hhard Hnode Hl1 Hl2 Hrq Hlq.
    destruct rs as [|first rs']; [congruence|]. rewrite verify_unfold.
    rewrite (mk_pairs_genuine _ Hg).
    assert (forallb (same_params first) (first :: rs') = true) as ->.
    { apply forallb_forall. intros r Hr. rewrite Forall_forall in Hg.
      apply genuine_same_params; apply Hg; [now left|exact Hr]. }
    cbn [negb].
    assert (n3_salt first = salt /\ n3_iter first = iter) as [Es Ei].
    { inversion Hg as [|? ? Hf _]; subst. destruct Hf as (? & ? & ? & ? & _ & _ & _ & _ & _ & _ & E1 & E2 & _). auto. }
    rewrite Ei. apply N.ltb_ge in Hhard, Hsoft. rewrite Hhard, Hsoft.
    unfold dispatch. rewrite Es, Ei. change (0 =? 3) with false. change (0 =? 0) with true. cbv iota.
    set (ps := map pair_of (first :: rs')).
    pose proof (genuine_pairs h z salt iter _ _ _ Hg (mk_pairs_genuine _ Hg)) as Hgp. fold ps in Hgp.
    unfold validate_nodata. cbv zeta.
    change (hi_label (mk_info H (mkCtx qname (Some (z_apex z)) ps salt iter) qname)) with (b32 (h lq)).
    cbn [c_pairs].
    destruct (find_exists (fun p : pair => label_eqb (fst p) (b32 (h lq))) ps (pair_of rq)
                (in_map pair_of _ _ Hrq) Hlq) as (qr & Eqr).
    unfold find_match.
    match goal with |- context [find ?f ?l] => assert (find f l = Some qr) as -> by exact Eqr end.
    destruct (find_some_in _ _ _ Eqr) as [Hqin Hql].
    assert (In (lq, n3_types (snd qr)) (z_nodes z)) as Hn2.
    { eapply (matched_in_zone H z salt iter Hh qname ps Hgp Hcf); try eassumption. apply lq_relevant. }
    destruct Hz as (_ & _ & _ & Huniq). rewrite (Huniq _ _ _ Hnode Hn2) in Hl1, Hl2.
    now rewrite (lacks_has_type _ _ Hl1), (lacks_has_type _ _ Hl2).
  Qed.
End TopComplete.
