(* C09 — proofs about the head of verify_nsec3: record-name sanity, parameter agreement,
   iteration limits.  All statements hold for every hash function. *)
From HV Require Import Lib.Base C09.Model.
Open Scope N_scope.

Section Limits.
  Variable H : list byte -> N -> name -> list byte.
  Variable WC : label -> label -> list byte -> list byte -> bool.

  (* the part of verify_nsec3 after the limits, as a function of the first record *)
  Definition dispatch (qname : name) (qtype : N) (soa : option name) (rcode : N)
             (answers : list (option N)) (ps : list pair) (first : nsec3) : result :=
    let cx := mkCtx qname soa ps (n3_salt first) (n3_iter first) in
    if rcode =? 3 then validate_nxdomain H WC cx
    else if rcode =? 0 then validate_nodata H WC qtype (wildcard_labels answers) cx
    else R Bogus.

  Lemma verify_unfold qname qtype soa rcode answers first rs soft hard :
    verify_nsec3_gen H WC qname qtype soa rcode answers (first :: rs) soft hard =
      match mk_pairs soa (first :: rs) with
      | None => R Bogus
      | Some ps =>
          if negb (forallb (same_params first) (first :: rs)) then R Bogus
          else if hard <? n3_iter first then R Bogus
          else if soft <? n3_iter first then R Insecure
          else dispatch qname qtype soa rcode answers ps first
      end.
  Proof. reflexivity. Qed.

  Lemma same_params_iter a b : same_params a b = true -> n3_iter a = n3_iter b.
  Proof.
    unfold same_params. rewrite !andb_true_iff. intros [[_ _] Hi]. now apply N.eqb_eq in Hi.
  Qed.

  Lemma same_params_spec a b :
    same_params a b = true <->
    n3_alg a = n3_alg b /\ n3_salt a = n3_salt b /\ n3_iter a = n3_iter b.
  Proof.
    unfold same_params. rewrite !andb_true_iff, !N.eqb_eq, bytes_eqb_eq. tauto.
  Qed.

  (* what [mk_pairs] = Some says about every record *)
  Definition owner_ok (soa : option name) (r : nsec3) : Prop :=
    exists l base, n3_owner r = l :: base /\
      (1 <= length l <= 63)%nat /\
      match soa with Some s => name_eqb base s = true | None => True end.

  Lemma mk_pairs_some soa rs ps :
    mk_pairs soa rs = Some ps ->
    Forall (owner_ok soa) rs /\ map snd ps = rs /\
    Forall (fun p => n3_owner (snd p) = fst p :: tl (n3_owner (snd p))) ps.
  Proof.
    revert ps; induction rs as [|r rs IH]; intros ps Hm; cbn [mk_pairs] in Hm.
    - inversion Hm; subst. repeat split; constructor.
    - destruct (n3_owner r) as [|l base] eqn:Eo; [discriminate|].
      destruct (match soa with Some s => negb (name_eqb base s) | None => false end) eqn:Es; [discriminate|].
      destruct ((length l =? 0)%nat || (63 <? length l)%nat) eqn:El; [discriminate|].
      destruct (mk_pairs soa rs) as [ps'|] eqn:Ep; [|discriminate].
      inversion Hm; subst; clear Hm.
      destruct (IH ps' eq_refl) as (IH1 & IH2 & IH3).
      apply orb_false_iff in El. destruct El as [El1 El2].
      apply Nat.eqb_neq in El1. apply Nat.ltb_ge in El2.
      repeat split.
      + constructor; [|exact IH1]. exists l, base. repeat split; try lia; try exact Eo.
        destruct soa as [s|]; [|exact I]. now apply negb_false_iff in Es.
      + cbn [map snd]. now rewrite IH2.
      + constructor; [|exact IH3]. cbn [fst snd]. now rewrite Eo.
  Qed.

  Lemma mk_pairs_none_or soa rs :
    mk_pairs soa rs = None \/ exists ps, mk_pairs soa rs = Some ps.
  Proof. destruct (mk_pairs soa rs) as [ps|]; [right; now exists ps|now left]. Qed.

  (* --- iteration limits ------------------------------------------------ *)

  (* any record above the hard limit: Bogus *)
  Lemma over_hard_bogus qname qtype soa rcode answers rs soft hard :
    rs <> [] -> Exists (fun r => hard < n3_iter r) rs ->
    verify_nsec3_gen H WC qname qtype soa rcode answers rs soft hard = R Bogus.
  Proof.
    intros Hne Hex. destruct rs as [|first rs]; [congruence|]. rewrite verify_unfold.
    destruct (mk_pairs soa (first :: rs)) as [ps|]; [|reflexivity].
    destruct (forallb (same_params first) (first :: rs)) eqn:Ef; cbn [negb]; [|reflexivity].
    apply Exists_exists in Hex. destruct Hex as (r & Hin & Hr).
    rewrite forallb_forall in Ef. specialize (Ef r Hin). apply same_params_iter in Ef.
    rewrite Ef. apply N.ltb_lt in Hr. now rewrite Hr.
  Qed.

  (* any record above the soft limit: never Secure *)
  Lemma over_soft_not_secure qname qtype soa rcode answers rs soft hard :
    Exists (fun r => soft < n3_iter r) rs ->
    verify_nsec3_gen H WC qname qtype soa rcode answers rs soft hard <> R Secure.
  Proof.
    intros Hex. destruct rs as [|first rs]; [cbn; discriminate|]. rewrite verify_unfold.
    destruct (mk_pairs soa (first :: rs)) as [ps|]; [|discriminate].
    destruct (forallb (same_params first) (first :: rs)) eqn:Ef; cbn [negb]; [|discriminate].
    apply Exists_exists in Hex. destruct Hex as (r & Hin & Hr).
    rewrite forallb_forall in Ef. specialize (Ef r Hin). apply same_params_iter in Ef.
    rewrite Ef. destruct (hard <? n3_iter r); [discriminate|].
    apply N.ltb_lt in Hr. rewrite Hr. discriminate.
  Qed.

  (* well-formed record set between the limits: exactly Insecure *)
  Lemma between_limits_insecure qname qtype soa rcode answers first rs soft hard ps :
    mk_pairs soa (first :: rs) = Some ps ->
    forallb (same_params first) (first :: rs) = true ->
    soft < n3_iter first <= hard ->
    verify_nsec3_gen H WC qname qtype soa rcode answers (first :: rs) soft hard = R Insecure.
  Proof.
    intros Hp Hf [Hs Hh]. rewrite verify_unfold, Hp, Hf. cbn [negb].
    apply N.ltb_ge in Hh. rewrite Hh. apply N.ltb_lt in Hs. now rewrite Hs.
  Qed.

  (* --- Secure / Insecure imply the sanity conditions --------------------- *)

  Lemma not_bogus_sane qname qtype soa rcode answers rs soft hard p :
    verify_nsec3_gen H WC qname qtype soa rcode answers rs soft hard = R p -> p <> Bogus ->
    exists first rs' ps, rs = first :: rs' /\ mk_pairs soa rs = Some ps /\
      forallb (same_params first) rs = true /\ n3_iter first <= hard /\
      (p = Secure -> n3_iter first <= soft /\
                     dispatch qname qtype soa rcode answers ps first = R Secure).
  Proof.
    intros Hv Hp. destruct rs as [|first rs]; [cbn in Hv; discriminate|]. rewrite verify_unfold in Hv.
    destruct (mk_pairs soa (first :: rs)) as [ps|] eqn:Em; [|inversion Hv; congruence].
    destruct (forallb (same_params first) (first :: rs)) eqn:Ef; cbn [negb] in Hv; [|inversion Hv; congruence].
    destruct (hard <? n3_iter first) eqn:Eh; [inversion Hv; congruence|].
    apply N.ltb_ge in Eh.
    exists first, rs, ps. repeat split; try assumption.
    - destruct (soft <? n3_iter first) eqn:Es; [inversion Hv; congruence|]. now apply N.ltb_ge in Es.
    - destruct (soft <? n3_iter first) eqn:Es; [inversion Hv; congruence|]. now subst p.
  Qed.
End Limits.
