(* C09 — base32hex preserves order: for byte strings of equal length divisible by 5 (SHA-1
   digests are 20 bytes) the case-insensitive label order of the encodings is the byte order
   of the digests.  This is what lets find_covering_record mix comparisons of base32 labels
   with comparisons of raw digests. *)
From HV Require Import Lib.Base C09.Model.
Open Scope N_scope.

(* generic lexicographic comparison *)
Fixpoint lex {A} (c : A -> A -> comparison) (a b : list A) : comparison :=
  match a, b with
  | [], [] => Eq
  | [], _ :: _ => Lt
  | _ :: _, [] => Gt
  | x :: a', y :: b' => match c x y with Eq => lex c a' b' | r => r end
  end.

Definition ccmp (x y : byte) : comparison := lc x ?= lc y.
Definition bcmp (x y : bool) : comparison :=
  match x, y with false, true => Lt | true, false => Gt | _, _ => Eq end.

Lemma label_cmp_lex a b : label_cmp a b = lex ccmp a b.
Proof. revert b; induction a as [|x a IH]; intros [|y b]; cbn; try reflexivity. now rewrite IH. Qed.

Lemma bytes_cmp_lex a b : bytes_cmp a b = lex N.compare a b.
Proof. revert b; induction a as [|x a IH]; intros [|y b]; cbn; try reflexivity. now rewrite IH. Qed.

Lemma lex_cons {A} (c : A -> A -> comparison) x y a b :
  lex c (x :: a) (y :: b) = match c x y with Eq => lex c a b | r => r end.
Proof. reflexivity. Qed.

Lemma lex_app {A} (c : A -> A -> comparison) x y a b :
  length x = length y ->
  lex c (x ++ a) (y ++ b) = match lex c x y with Eq => lex c a b | r => r end.
Proof.
  revert y; induction x as [|u x IH]; intros [|v y] Hl; cbn in Hl; try discriminate.
  - reflexivity.
  - cbn [app lex]. destruct (c u v); try reflexivity. apply IH. now inversion Hl.
Qed.

Lemma lex_flat_map {A B} (cA : A -> A -> comparison) (cB : B -> B -> comparison)
      (f : A -> list B) (P : A -> Prop) :
  (forall x y, P x -> P y -> length (f x) = length (f y)) ->
  (forall x y, P x -> P y -> lex cB (f x) (f y) = cA x y) ->
  forall a b, Forall P a -> Forall P b -> length a = length b ->
  lex cB (flat_map f a) (flat_map f b) = lex cA a b.
Proof.
  intros Hlen Hcmp a; induction a as [|x a IH]; intros [|y b] Ha Hb Hl; cbn in Hl; try discriminate.
  - reflexivity.
  - inversion Ha; inversion Hb; subst. cbn [flat_map lex].
    rewrite lex_app by now apply Hlen. rewrite Hcmp by assumption.
    destruct (cA x y); try reflexivity. apply IH; try assumption. now inversion Hl.
Qed.

(* --- bytes to bits -------------------------------------------------------------------- *)

Definition range256 : list N := map N.of_nat (seq 0 256).

Lemma in_range256 x : x < 256 -> In x range256.
Proof.
  intros Hx. unfold range256. apply in_map_iff. exists (N.to_nat x). split; [apply N2Nat.id|].
  apply in_seq. lia.
Qed.

Definition cmp_eqb (a b : comparison) : bool :=
  match a, b with Eq, Eq | Lt, Lt | Gt, Gt => true | _, _ => false end.
Lemma cmp_eqb_eq a b : cmp_eqb a b = true -> a = b.
Proof. destruct a, b; cbn; congruence. Qed.

Lemma bits8_cmp_all :
  forallb (fun x => forallb (fun y => cmp_eqb (lex bcmp (bits8 x) (bits8 y)) (x ?= y)) range256) range256 = true.
Proof. vm_compute. reflexivity. Qed.

Lemma bits8_cmp x y : x < 256 -> y < 256 -> lex bcmp (bits8 x) (bits8 y) = (x ?= y).
Proof.
  intros Hx Hy. pose proof bits8_cmp_all as Hall. rewrite forallb_forall in Hall.
  specialize (Hall x (in_range256 x Hx)). rewrite forallb_forall in Hall.
  apply cmp_eqb_eq. apply Hall. now apply in_range256.
Qed.

Lemma bits_cmp a b : bytes_ok a -> bytes_ok b -> length a = length b ->
  lex bcmp (bits a) (bits b) = bytes_cmp a b.
Proof.
  intros Ha Hb Hl. rewrite bytes_cmp_lex. unfold bits.
  apply (lex_flat_map N.compare bcmp bits8 (fun x => x < 256)); try assumption.
  - reflexivity.
  - intros; now apply bits8_cmp.
Qed.

Lemma bits_length a : length (bits a) = (8 * length a)%nat.
Proof. induction a as [|x a IH]; [reflexivity|]. unfold bits in *. cbn [flat_map]. rewrite app_length, IH. cbn [bits8 length]. lia. Qed.

(* --- bits to base32 characters ----------------------------------------------------------- *)

Lemma alpha_cmp a4 a3 a2 a1 a0 b4 b3 b2 b1 b0 :
  ccmp (alpha (val5 a4 a3 a2 a1 a0)) (alpha (val5 b4 b3 b2 b1 b0)) =
  lex bcmp [a4; a3; a2; a1; a0] [b4; b3; b2; b1; b0].
Proof. destruct a4, a3, a2, a1, a0, b4, b3, b2, b1, b0; reflexivity. Qed.

Lemma chunks5_cmp n : forall bs1 bs2,
  length bs1 = (5 * n)%nat -> length bs2 = (5 * n)%nat ->
  lex ccmp (chunks5 bs1) (chunks5 bs2) = lex bcmp bs1 bs2.
Proof.
  induction n as [|n IH]; intros bs1 bs2 H1 H2.
  - destruct bs1, bs2; try discriminate. reflexivity.
  - destruct bs1 as [|a4 [|a3 [|a2 [|a1 [|a0 r1]]]]]; cbn in H1; try lia.
    destruct bs2 as [|b4 [|b3 [|b2 [|b1 [|b0 r2]]]]]; cbn in H2; try lia.
    cbn [chunks5]. rewrite (lex_cons ccmp), alpha_cmp.
    change (a4 :: a3 :: a2 :: a1 :: a0 :: r1) with ([a4; a3; a2; a1; a0] ++ r1).
    change (b4 :: b3 :: b2 :: b1 :: b0 :: r2) with ([b4; b3; b2; b1; b0] ++ r2).
    rewrite (lex_app bcmp [a4; a3; a2; a1; a0] [b4; b3; b2; b1; b0] r1 r2) by reflexivity.
    destruct (lex bcmp [a4; a3; a2; a1; a0] [b4; b3; b2; b1; b0]); try reflexivity.
    apply IH; lia.
Qed.

Lemma chunks5_length n : forall bs, length bs = (5 * n)%nat -> length (chunks5 bs) = n.
Proof.
  induction n as [|n IH]; intros bs Hl.
  - destruct bs; [reflexivity|discriminate].
  - destruct bs as [|a4 [|a3 [|a2 [|a1 [|a0 r1]]]]]; cbn in Hl; try lia.
    cbn [chunks5 length]. f_equal. apply IH. lia.
Qed.

(* --- the encoder ------------------------------------------------------------------------ *)

Theorem b32_cmp a b k :
  bytes_ok a -> bytes_ok b -> length a = (5 * k)%nat -> length b = (5 * k)%nat ->
  label_cmp (b32 a) (b32 b) = bytes_cmp a b.
Proof.
  intros Ha Hb La Lb. rewrite label_cmp_lex. unfold b32.
  rewrite (chunks5_cmp (8 * k)%nat).
  - apply bits_cmp; try assumption. lia.
  - rewrite bits_length. unfold byte in *. lia.
  - rewrite bits_length. unfold byte in *. lia.
Qed.

Lemma b32_length a k : length a = (5 * k)%nat -> length (b32 a) = (8 * k)%nat.
Proof. intros La. unfold b32. apply chunks5_length. rewrite bits_length. lia. Qed.

(* --- comparison facts -------------------------------------------------------------------- *)

Lemma bytes_cmp_eq a b : bytes_cmp a b = Eq <-> a = b.
Proof.
  revert b; induction a as [|x a IH]; intros [|y b]; cbn; try (split; congruence).
  destruct (x ?= y) eqn:E.
  - apply N.compare_eq in E. subst. rewrite IH. split; congruence.
  - split; [discriminate|]. intros Heq; inversion Heq; subst. now rewrite N.compare_refl in E.
  - split; [discriminate|]. intros Heq; inversion Heq; subst. now rewrite N.compare_refl in E.
Qed.

Lemma bytes_cmp_antisym a b : bytes_cmp b a = CompOpp (bytes_cmp a b).
Proof.
  revert b; induction a as [|x a IH]; intros [|y b]; cbn; try reflexivity.
  rewrite (N.compare_antisym x y). destruct (x ?= y); cbn; auto.
Qed.

Lemma label_eqb_cmp a b : label_eqb a b = true <-> label_cmp a b = Eq.
Proof.
  revert b; induction a as [|x a IH]; intros [|y b]; cbn; try (split; congruence).
  destruct (lc x ?= lc y) eqn:E.
  - apply N.compare_eq in E. rewrite E, N.eqb_refl. cbn. apply IH.
  - assert (lc x =? lc y = false) as -> by (apply N.eqb_neq; intros Heq; rewrite Heq, N.compare_refl in E; discriminate).
    cbn. split; discriminate.
  - assert (lc x =? lc y = false) as -> by (apply N.eqb_neq; intros Heq; rewrite Heq, N.compare_refl in E; discriminate).
    cbn. split; discriminate.
Qed.

Lemma label_eqb_refl a : label_eqb a a = true.
Proof. induction a as [|x a IH]; cbn; [reflexivity|]. now rewrite N.eqb_refl. Qed.

Lemma label_eqb_sym a b : label_eqb a b = label_eqb b a.
Proof.
  revert b; induction a as [|x a IH]; intros [|y b]; cbn; try reflexivity.
  now rewrite IH, N.eqb_sym.
Qed.

Lemma label_eqb_trans a b c : label_eqb a b = true -> label_eqb b c = true -> label_eqb a c = true.
Proof.
  revert b c; induction a as [|x a IH]; intros [|y b] [|z c]; cbn; try congruence.
  rewrite !andb_true_iff, !N.eqb_eq. intros [E1 H1] [E2 H2]. split; [congruence|]. eapply IH; eassumption.
Qed.

(* label_cmp only looks at the lower-cased bytes: equal labels are interchangeable *)
Lemma label_cmp_eqb_l a a' b : label_eqb a a' = true -> label_cmp a b = label_cmp a' b.
Proof.
  revert a' b; induction a as [|x a IH]; intros [|x' a'] [|y b]; cbn; try congruence; try reflexivity.
  rewrite andb_true_iff, N.eqb_eq. intros [E Hr]. rewrite E. destruct (lc x' ?= lc y); try reflexivity.
  now apply IH.
Qed.
Lemma label_cmp_eqb_r a b b' : label_eqb b b' = true -> label_cmp a b = label_cmp a b'.
Proof.
  revert b b'; induction a as [|x a IH]; intros [|y b] [|y' b']; cbn; try congruence; try reflexivity.
  rewrite andb_true_iff, N.eqb_eq. intros [E Hr]. rewrite E. destruct (lc x ?= lc y'); try reflexivity.
  now apply IH.
Qed.
Lemma label_eqb_eqb_l a a' b : label_eqb a a' = true -> label_eqb a b = label_eqb a' b.
Proof.
  intros E. destruct (label_eqb a b) eqn:E1, (label_eqb a' b) eqn:E2; try reflexivity.
  - rewrite label_eqb_sym in E. now rewrite (label_eqb_trans _ _ _ E E1) in E2.
  - now rewrite (label_eqb_trans _ _ _ E E2) in E1.
Qed.

(* equality of encodings (ignoring case) is equality of digests *)
Theorem b32_eqb a b k :
  bytes_ok a -> bytes_ok b -> length a = (5 * k)%nat -> length b = (5 * k)%nat ->
  label_eqb (b32 a) (b32 b) = true -> a = b.
Proof.
  intros Ha Hb La Lb E. apply label_eqb_cmp in E. rewrite (b32_cmp a b k) in E by assumption.
  now apply bytes_cmp_eq.
Qed.
