(* C09 — the soundness lemmas lifted to verify_nsec3_gen. *)
From HV Require Import Lib.Base C09.Model C09.B32Proofs C09.LimitProofs C09.CoverProofs C09.ShapeProofs C09.SoundProofs.
Open Scope N_scope.

Section Top.
  Variable H : list byte -> N -> name -> list byte.
  Variable WC : label -> label -> list byte -> list byte -> bool.
  Variable z : zone.
  Variable salt : list byte.
  Variable iter : N.
  Let h := H salt iter.
  Hypothesis Hh : hash_ok h.
  Hypothesis Hz : wf_zone z.

  Variables (qname : name) (qtype : N) (soa : option name) (answers : list (option N)).
  Variables (rs : list nsec3) (soft hard : N).
  Hypothesis Hgen : Forall (genuine h z salt iter) rs.

  (* a Secure verdict runs the branch for the response code on the context of the zone's parameters *)
  Lemma secure_dispatch rcode :
    verify_nsec3_gen H WC qname qtype soa rcode answers rs soft hard = R Secure ->
    Forall (gpair h z salt iter) (map pair_of rs) /\
    let cx := mkCtx qname soa (map pair_of rs) salt iter in
    (rcode = 3 /\ validate_nxdomain H WC cx = R Secure) \/
    (rcode = 0 /\ validate_nodata H WC qtype (wildcard_labels answers) cx = R Secure).
  Proof.
    intros Hv.
    destruct (not_bogus_sane H WC _ _ _ _ _ _ _ _ _ Hv ltac:(discriminate))
      as (first & rs' & ps & Ers & Hm & _ & _ & Hsec).
    destruct (Hsec eq_refl) as [_ Hd]. clear Hsec.
    pose proof (mk_pairs_map _ _ _ Hm) as Eps. subst ps.
    split; [eapply genuine_pairs; eassumption|].
    assert (n3_salt first = salt /\ n3_iter first = iter) as [Es Ei].
    { rewrite Ers in Hgen. inversion Hgen as [|? ? Hf _]; subst.
      destruct Hf as (n & ts & l & base & _ & _ & _ & _ & _ & _ & E1 & E2 & _). auto. }
    unfold dispatch in Hd. rewrite Es, Ei in Hd. cbn zeta.
    destruct (rcode =? 3) eqn:E3; [left; split; [now apply N.eqb_eq|exact Hd]|].
    destruct (rcode =? 0) eqn:E0; [right; split; [now apply N.eqb_eq|exact Hd]|discriminate].
  Qed.

  Hypothesis Hcf : collision_free h (z_names z ++ relevant (lower_name qname)).

  Lemma top_nx_sound :
    known_wrap_encloser h WC (map pair_of rs) true (lower_name qname) = false ->
    verify_nsec3_gen H WC qname qtype soa 3 answers rs soft hard = R Secure ->
    nx_claim z (lower_name qname).
  Proof.
    intros Hw Hv. destruct (secure_dispatch 3 Hv) as [Hg [[_ Hs]|[E _]]]; [|discriminate].
    eapply nx_sound; eassumption.
  Qed.

  Lemma top_nodata_sound :
    wildcard_labels answers = None ->
    ~ (soa_is (mkCtx qname soa (map pair_of rs) salt iter) qname = true /\
       match_of H (mkCtx qname soa (map pair_of rs) salt iter) qname = None) ->
    known_wrap_encloser h WC (map pair_of rs) false (lower_name qname) = false ->
    (qtype = T_DS -> right_cover h WC (map pair_of rs) (lower_name qname) = true) ->
    verify_nsec3_gen H WC qname qtype soa 0 answers rs soft hard = R Secure ->
    nodata_claim z (lower_name qname) qtype \/ (qtype = T_DS /\ ~ In (lower_name qname) (z_names z)).
  Proof.
    intros Hwl Hapex Hw Hwq Hv. destruct (secure_dispatch 0 Hv) as [Hg [[E _]|[_ Hs]]]; [discriminate|].
    rewrite Hwl in Hs. eapply nodata_sound; eassumption.
  Qed.

  Lemma top_nodata_sound_nods :
    wildcard_labels answers = None -> qtype <> T_DS ->
    ~ (soa_is (mkCtx qname soa (map pair_of rs) salt iter) qname = true /\
       match_of H (mkCtx qname soa (map pair_of rs) salt iter) qname = None) ->
    known_wrap_encloser h WC (map pair_of rs) false (lower_name qname) = false ->
    verify_nsec3_gen H WC qname qtype soa 0 answers rs soft hard = R Secure ->
    nodata_claim z (lower_name qname) qtype.
  Proof.
    intros Hwl Hds Hapex Hw Hv.
    destruct (top_nodata_sound Hwl Hapex Hw ltac:(intros; contradiction) Hv) as [Hc|[E _]]; [exact Hc|contradiction].
  Qed.

  Lemma top_wildcard_answer_sound w :
    wildcard_labels answers = Some w ->
    match_of H (mkCtx qname soa (map pair_of rs) salt iter) qname = None ->
    ~ (qtype = T_DS /\ exists p, cover_of H WC (mkCtx qname soa (map pair_of rs) salt iter) qname = Some p /\
                                 n3_optout (snd p) = true) ->
    in_zone z (skipn (length (lower_name qname) - S (N.to_nat w)) (lower_name qname)) ->
    right_cover h WC (map pair_of rs) (skipn (length (lower_name qname) - S (N.to_nat w)) (lower_name qname)) = true ->
    verify_nsec3_gen H WC qname qtype soa 0 answers rs soft hard = R Secure ->
    wildcard_answer_claim z (lower_name qname) (N.to_nat w).
  Proof.
    intros Hwl Hnom Hnods Hzone Hw Hv. destruct (secure_dispatch 0 Hv) as [Hg [[E _]|[_ Hs]]]; [discriminate|].
    rewrite Hwl in Hs. eapply wildcard_answer_sound; eassumption.
  Qed.
End Top.
