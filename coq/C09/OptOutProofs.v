(* C09 — the Opt-Out flag of the NSEC3 records is consulted for DS NODATA only: for every other
   (response code, query type) the verdict does not depend on the flags at all. *)
From HV Require Import Lib.Base C09.Model C09.LimitProofs.
Open Scope N_scope.

Lemma find_map_list {A} (f : A -> bool) (g : A -> A) l :
  (forall x, f (g x) = f x) -> find f (map g l) = option_map g (find f l).
Proof.
  intros Hfg. induction l as [|x l IH]; cbn [map find option_map]; [reflexivity|].
  rewrite Hfg. destruct (f x); [reflexivity|exact IH].
Qed.

Section OptOut.
  Variable H : list byte -> N -> name -> list byte.
  Variable WC : label -> label -> list byte -> list byte -> bool.
  (* any reassignment of the flags *)
  Variable newflag : nsec3 -> bool.

  Definition reflag (r : nsec3) : nsec3 :=
    mkN3 (n3_owner r) (n3_alg r) (newflag r) (n3_iter r) (n3_salt r) (n3_next r) (n3_types r).
  Definition pflag (p : pair) : pair := (fst p, reflag (snd p)).

  Lemma mk_pairs_reflag soa rs :
    mk_pairs soa (map reflag rs) = option_map (map pflag) (mk_pairs soa rs).
  Proof.
    induction rs as [|r rs IH]; cbn [map mk_pairs option_map]; [reflexivity|].
    cbn [reflag n3_owner]. destruct (n3_owner r) as [|l base]; [reflexivity|].
    destruct (match soa with Some s => negb (name_eqb base s) | None => false end); [reflexivity|].
    destruct ((length l =? 0)%nat || (63 <? length l)%nat); [reflexivity|].
    rewrite IH. destruct (mk_pairs soa rs); reflexivity.
  Qed.

  Lemma same_params_reflag a b : same_params (reflag a) (reflag b) = same_params a b.
  Proof. reflexivity. Qed.

  Lemma forallb_reflag first rs :
    forallb (same_params (reflag first)) (map reflag rs) = forallb (same_params first) rs.
  Proof. induction rs as [|r rs IH]; cbn [map forallb]; [reflexivity|]. now rewrite IH. Qed.

  Definition cxflag (cx : ctx) : ctx :=
    mkCtx (c_qname cx) (c_soa cx) (map pflag (c_pairs cx)) (c_salt cx) (c_iter cx).

  Lemma find_match_flag ps l : find_match (map pflag ps) l = option_map pflag (find_match ps l).
  Proof. unfold find_match. apply find_map_list. reflexivity. Qed.

  Lemma covers1_flag th tl p : covers1 WC th tl (pflag p) = covers1 WC th tl p.
  Proof. reflexivity. Qed.

  Lemma find_cover_flag ps th tl : find_cover WC (map pflag ps) th tl = option_map pflag (find_cover WC ps th tl).
  Proof. unfold find_cover. apply find_map_list. intros x. apply covers1_flag. Qed.

  Definition iflag (x : hinfo * pair) : hinfo * pair := (fst x, pflag (snd x)).
  Definition ceflag (c : ceinfo) : ceinfo := (option_map iflag (fst c), option_map iflag (snd c)).

  Lemma find_map_flag (infos : list hinfo) ps :
    find_map (fun c => find_match (map pflag ps) (hi_label c)) infos =
    option_map pflag (find_map (fun c => find_match ps (hi_label c)) infos).
  Proof.
    induction infos as [|c infos IH]; cbn [find_map option_map]; [reflexivity|].
    rewrite find_match_flag. destruct (find_match ps (hi_label c)); cbn [option_map]; [reflexivity|exact IH].
  Qed.

  Lemma ce_proof_flag cx : ce_proof H WC (cxflag cx) = option_map ceflag (ce_proof H WC cx).
  Proof.
    unfold ce_proof. change (candidates (cxflag cx)) with (candidates cx).
    destruct (candidates cx) as [cs|]; [|reflexivity]. cbv zeta.
    change (mk_info H (cxflag cx)) with (mk_info H cx). cbn [c_pairs cxflag].
    rewrite find_map_flag.
    destruct (find_map (fun c => find_match (c_pairs cx) (hi_label c)) (map (mk_info H cx) cs)) as [mrec|];
      cbn [option_map]; [|reflexivity].
    change (fst (pflag mrec)) with (fst mrec).
    destruct (find_idx _ 1 (tl (map (mk_info H cx) cs))) as [i|]; cbn [option_map]; [|reflexivity].
    rewrite find_cover_flag. unfold ceflag. cbn [fst snd option_map]. f_equal. f_equal.
    destruct (find_cover WC (c_pairs cx) _ _); reflexivity.
  Qed.

  Definition wflag (x : ceinfo * option (hinfo * pair)) := (ceflag (fst x), option_map iflag (snd x)).

  Lemma ce_proof_wc_flag cx m : ce_proof_wc H WC (cxflag cx) m = option_map wflag (ce_proof_wc H WC cx m).
  Proof.
    unfold ce_proof_wc. rewrite ce_proof_flag.
    destruct (ce_proof H WC cx) as [[ce nc]|]; cbn [option_map]; [|reflexivity].
    unfold ceflag at 1. cbn [fst snd].
    destruct ce as [[cei mrec]|]; cbn [option_map iflag fst snd]; [|reflexivity].
    destruct (prepend_star (hi_name cei)) as [wn|]; [|reflexivity]. cbv zeta.
    change (mk_info H (cxflag cx) wn) with (mk_info H cx wn). cbn [c_pairs cxflag].
    destruct m.
    - rewrite find_match_flag. unfold wflag. cbn [fst snd option_map]. f_equal. f_equal.
      destruct (find_match (c_pairs cx) _); reflexivity.
    - rewrite find_cover_flag. unfold wflag. cbn [fst snd option_map]. f_equal. f_equal.
      destruct (find_cover WC (c_pairs cx) _ _); reflexivity.
  Qed.

  Lemma existsb_flag (f : pair -> bool) ps :
    (forall p, f (pflag p) = f p) -> existsb f (map pflag ps) = existsb f ps.
  Proof. intros Hf. induction ps as [|p ps IH]; cbn [map existsb]; [reflexivity|]. now rewrite Hf, IH. Qed.

  Lemma nxdomain_flag cx : validate_nxdomain H WC (cxflag cx) = validate_nxdomain H WC cx.
  Proof.
    unfold validate_nxdomain. cbv zeta.
    change (mk_info H (cxflag cx) (c_qname (cxflag cx))) with (mk_info H cx (c_qname cx)).
    cbn [c_pairs cxflag]. rewrite existsb_flag by reflexivity.
    match goal with |- (if ?a then _ else _) = (if ?b then _ else _) =>
      change a with b; destruct b; [reflexivity|] end.
    rewrite ce_proof_wc_flag. destruct (ce_proof_wc H WC cx false) as [[[ce nc] wc]|]; cbn [option_map]; [|reflexivity].
    unfold wflag, ceflag. cbn [fst snd].
    change (soa_is (cxflag cx) (base_name (c_qname (cxflag cx)))) with (soa_is cx (base_name (c_qname cx))).
    destruct ce, nc, wc; reflexivity.
  Qed.

  Lemma nodata_flag qtype wl cx :
    qtype <> T_DS -> validate_nodata H WC qtype wl (cxflag cx) = validate_nodata H WC qtype wl cx.
  Proof.
    intros Hds. unfold validate_nodata. cbv zeta.
    change (mk_info H (cxflag cx) (c_qname (cxflag cx))) with (mk_info H cx (c_qname cx)).
    cbn [c_pairs cxflag]. rewrite find_match_flag.
    destruct (find_match (c_pairs cx) _) as [qr|]; cbn [option_map]; [reflexivity|].
    assert (qtype =? T_DS = false) as -> by now apply N.eqb_neq. cbn [andb].
    change (c_qname (cxflag cx)) with (c_qname cx). change (mk_info H (cxflag cx)) with (mk_info H cx).
    destruct wl as [w|].
    - destruct (num_labels (c_qname cx) <=? w); [reflexivity|].
      rewrite find_cover_flag. destruct (find_cover WC (c_pairs cx) _ _); reflexivity.
    - rewrite ce_proof_wc_flag. destruct (ce_proof_wc H WC cx true) as [[[ce nc] wc]|]; cbn [option_map]; [|reflexivity].
      unfold wflag, ceflag. cbn [fst snd].
      change (soa_is (cxflag cx) (base_name (c_qname cx))) with (soa_is cx (base_name (c_qname cx))).
      change (soa_is (cxflag cx) (c_qname cx)) with (soa_is cx (c_qname cx)).
      destruct ce as [[? ?]|], nc as [[? ?]|], wc as [[? ?]|]; reflexivity.
  Qed.

  Theorem optout_irrelevant qname qtype soa rcode answers rs soft hard :
    qtype <> T_DS \/ rcode <> 0 ->
    verify_nsec3_gen H WC qname qtype soa rcode answers (map reflag rs) soft hard =
    verify_nsec3_gen H WC qname qtype soa rcode answers rs soft hard.
  Proof.
    intros Hc. destruct rs as [|first rs]; [reflexivity|].
    cbn [map]. rewrite !verify_unfold.
    change (reflag first :: map reflag rs) with (map reflag (first :: rs)).
    rewrite mk_pairs_reflag, forallb_reflag.
    destruct (mk_pairs soa (first :: rs)) as [ps|]; cbn [option_map]; [|reflexivity].
    destruct (negb (forallb (same_params first) (first :: rs))); [reflexivity|].
    change (n3_iter (reflag first)) with (n3_iter first).
    destruct (hard <? n3_iter first); [reflexivity|]. destruct (soft <? n3_iter first); [reflexivity|].
    unfold dispatch. change (n3_salt (reflag first)) with (n3_salt first). change (n3_iter (reflag first)) with (n3_iter first).
    change (mkCtx qname soa (map pflag ps) (n3_salt first) (n3_iter first))
      with (cxflag (mkCtx qname soa ps (n3_salt first) (n3_iter first))).
    destruct (rcode =? 3) eqn:E3; [apply nxdomain_flag|].
    destruct (rcode =? 0) eqn:E0; [|reflexivity].
    apply nodata_flag. destruct Hc as [Hc|Hc]; [exact Hc|]. apply N.eqb_eq in E0. contradiction.
  Qed.
End OptOut.
