(* C09 — property theorems.  Statements only; proofs are short applications of lemmas from the
   *Proofs.v files.  Every theorem quantifies over the hash function [H] (SHA-1 is not
   modelled), all queries, record lists, answers, limits and — for the soundness theorems — all
   well-formed zones.

   [verify_nsec3 H] is the model of the code as it is ([verify_nsec3_gen H wrap_covers] with
   [wrap_covers := wrap_covers_v0]); theorems about [verify_nsec3_gen H wrap_covers_rfc] say what
   holds once the wrap-around arm of find_covering_record is RFC 5155's.

   Soundness is stated against the zone as its NSEC3 chain sees it ([zone], [genuine]), modulo
   digest collisions ([collision_free]).  Where the faithful model violates the property there is
   a [_refuted] theorem (a witness found by the harness on the real code, with real SHA-1
   digests, in Witness.v) and a [_guarded] theorem whose guard is the known-finding class. *)
From HV Require Import Lib.Base C09.Model C09.LimitProofs C09.B32Proofs C09.CoverProofs C09.ShapeProofs
  C09.SoundProofs C09.TopProofs C09.SpecDec C09.Witness C09.OptOutProofs C09.CompleteProofs.
Open Scope N_scope.

(* a toy hash for the small Examples *)
Definition exH0 : list byte -> N -> name -> list byte := fun _ _ _ => repeat 7 20.

(* ================================================================================== *)
(* Iteration limits (RFC 9276 3.2)                                                      *)
(* ================================================================================== *)

(* Any NSEC3 record with an iteration count above the hard limit makes the verdict Bogus. *)
Theorem C09_iterations_over_hard_bogus :
  forall H qname qtype soa rcode answers rs soft hard,
    rs <> [] -> Exists (fun r => hard < n3_iter r) rs ->
    verify_nsec3 H qname qtype soa rcode answers rs soft hard = R Bogus.
Proof. intros. now apply over_hard_bogus. Qed.
Print Assumptions C09_iterations_over_hard_bogus.

(* Any NSEC3 record with an iteration count above the soft limit: never Secure. *)
Theorem C09_iterations_over_soft_never_secure :
  forall H qname qtype soa rcode answers rs soft hard,
    Exists (fun r => soft < n3_iter r) rs ->
    verify_nsec3 H qname qtype soa rcode answers rs soft hard <> R Secure.
Proof. intros. now apply over_soft_not_secure. Qed.
Print Assumptions C09_iterations_over_soft_never_secure.

(* A record set that passes the name and parameter checks and whose iteration count lies in
   (soft, hard] is Insecure, whatever else the response contains. *)
Theorem C09_iterations_between_limits_insecure :
  forall H qname qtype soa rcode answers first rs soft hard ps,
    mk_pairs soa (first :: rs) = Some ps ->
    forallb (same_params first) (first :: rs) = true ->
    soft < n3_iter first <= hard ->
    verify_nsec3 H qname qtype soa rcode answers (first :: rs) soft hard = R Insecure.
Proof. intros. eapply between_limits_insecure; eassumption. Qed.
Print Assumptions C09_iterations_between_limits_insecure.

(* ================================================================================== *)
(* Parameters and zone (RFC 5155 8.2)                                                   *)
(* ================================================================================== *)

(* Secure or Insecure only if all records share algorithm, salt and iterations, every owner
   name is <label>.<base> with a 1..63-byte label, and — when the response carries an SOA —
   every base is the SOA's owner name. *)
Theorem C09_params_and_zone :
  forall H qname qtype soa rcode answers rs soft hard p,
    verify_nsec3 H qname qtype soa rcode answers rs soft hard = R p -> p <> Bogus ->
    (forall a b, In a rs -> In b rs ->
       n3_alg a = n3_alg b /\ n3_salt a = n3_salt b /\ n3_iter a = n3_iter b) /\
    Forall (owner_ok soa) rs.
Proof.
  intros H qname qtype soa rcode answers rs soft hard p Hv Hp.
  destruct (not_bogus_sane H wrap_covers _ _ _ _ _ _ _ _ _ Hv Hp) as (first & rs' & ps & -> & Hm & Hf & _).
  split.
  - intros a b Ha Hb. rewrite forallb_forall in Hf.
    pose proof (proj1 (same_params_spec first a) (Hf a Ha)) as (A1 & A2 & A3).
    pose proof (proj1 (same_params_spec first b) (Hf b Hb)) as (B1 & B2 & B3).
    repeat split; congruence.
  - now destruct (mk_pairs_some _ _ _ Hm).
Qed.
Print Assumptions C09_params_and_zone.

(* ================================================================================== *)
(* Matching and covering                                                                *)
(* ================================================================================== *)

(* The model's base32hex encoder preserves order and is injective on digests of SHA-1 length:
   the code's mix of label comparisons and raw-digest comparisons is one order. *)
Theorem C09_base32hex_order :
  forall a b, bytes_ok a -> bytes_ok b -> length a = 20%nat -> length b = 20%nat ->
    label_cmp (b32 a) (b32 b) = bytes_cmp a b /\ (label_eqb (b32 a) (b32 b) = true -> a = b).
Proof.
  intros a b Ha Hb La Lb. split; [now apply (b32_cmp a b 4)|now apply (b32_eqb a b 4)].
Qed.
Print Assumptions C09_base32hex_order.

(* With RFC 5155's wrap-around arm, a genuine record that the covering test accepts for the
   digest of t covers it in the sense of RFC 5155 (last record of the chain included), and t is
   not a name of the zone. *)
Theorem C09_covering_is_rfc_interval_rfcwrap :
  forall h z salt iter r t,
    hash_ok h -> genuine h z salt iter r ->
    covers1 wrap_covers_rfc (h t) (b32 (h t)) (pair_of r) = true ->
    (exists n, In n (z_names z) /\ label_eqb (hd [] (n3_owner r)) (b32 (h n)) = true /\
               rfc_covers (h n) (n3_next r) (h t)) /\
    ~ In t (z_names z).
Proof.
  intros h z salt iter r t Hh Hg Hc.
  assert (gpair h z salt iter (pair_of r)) as Hgp.
  { destruct Hg as (n & ts & l & base & Hn & Eo & El & _ & Et & _ & _ & _ & (n' & Hn' & En') & Hgap).
    exists n, ts, n'. unfold pair_of. cbn [fst snd]. rewrite Eo. cbn [hd]. repeat split; assumption. }
  split; [exact (covers_rfc h Hh z salt iter _ t Hgp Hc)|exact (covered_absent h Hh z salt iter _ t Hgp Hc)].
Qed.
Print Assumptions C09_covering_is_rfc_interval_rfcwrap.

(* ================================================================================== *)
(* NXDOMAIN (RFC 5155 8.4)                                                              *)
(* ================================================================================== *)

(* Secure NXDOMAIN from genuine records: QNAME does not exist, its closest encloser is in the
   zone and the wildcard at the closest encloser does not exist — outside the class of the
   wrap-around defect. *)
Theorem C09_nxdomain_sound_guarded :
  forall H z salt iter qname qtype soa answers rs soft hard,
    let h := H salt iter in
    hash_ok h -> wf_zone z -> Forall (genuine h z salt iter) rs ->
    collision_free h (z_names z ++ relevant (lower_name qname)) ->
    known_wrap_encloser h wrap_covers (map pair_of rs) true (lower_name qname) = false ->
    verify_nsec3 H qname qtype soa 3 answers rs soft hard = R Secure ->
    nx_claim z (lower_name qname).
Proof. intros. eapply top_nx_sound; eassumption. Qed.
Print Assumptions C09_nxdomain_sound_guarded.

(* The same, unguarded, for the RFC wrap-around arm. *)
Theorem C09_nxdomain_sound_rfcwrap :
  forall H z salt iter qname qtype soa answers rs soft hard,
    let h := H salt iter in
    hash_ok h -> wf_zone z -> Forall (genuine h z salt iter) rs ->
    collision_free h (z_names z ++ relevant (lower_name qname)) ->
    verify_nsec3_gen H wrap_covers_rfc qname qtype soa 3 answers rs soft hard = R Secure ->
    nx_claim z (lower_name qname).
Proof. intros. eapply top_nx_sound; try eassumption. apply known_wrap_encloser_rfc. Qed.
Print Assumptions C09_nxdomain_sound_rfcwrap.

Ltac witness_hyps :=
  split; [apply table_hash_ok; vm_compute; reflexivity|];
  split; [apply wf_zoneb_ok; vm_compute; reflexivity|];
  split; [apply genuineb_all; vm_compute; reflexivity|apply collision_freeb_ok; vm_compute; reflexivity].

(* Refutation of the unguarded statement for the code as it is: the last NSEC3 of a chain covers
   everything.  Zone {z., *.z.}: NXDOMAIN for a.a.z. is Secure on the apex record alone although
   *.z. exists; with the RFC arm the same input is Bogus. *)
Theorem C09_nxdomain_wrap_refuted :
  exists H z salt iter qname qtype soa answers rs soft hard,
    (hash_ok (H salt iter) /\ wf_zone z /\ Forall (genuine (H salt iter) z salt iter) rs /\
     collision_free (H salt iter) (z_names z ++ relevant (lower_name qname))) /\
    verify_nsec3_gen H wrap_covers_v0 qname qtype soa 3 answers rs soft hard = R Secure /\
    ~ nx_claim z (lower_name qname) /\
    verify_nsec3_gen H wrap_covers_rfc qname qtype soa 3 answers rs soft hard = R Bogus.
Proof.
  exists WWrap.H, WWrap.z, WWrap.salt, WWrap.iter, WWrap.q, WWrap.qt, WWrap.soa, WWrap.answers,
         WWrap.recs, WWrap.soft, WWrap.hard.
  split; [witness_hyps|]. split; [vm_compute; reflexivity|]. split; [|vm_compute; reflexivity].
  intros Hc. apply nx_claim_b in Hc. vm_compute in Hc. discriminate.
Qed.
Print Assumptions C09_nxdomain_wrap_refuted.

(* Completeness for name errors: the RFC 5155 7.2.2 proof taken from the zone's own chain — a
   record matching the closest encloser, a record whose RFC interval contains the next closer
   name and one whose interval contains the wildcard at the closest encloser — is accepted, in
   any order and with any other genuine records of the zone around it (iterations within the soft
   limit, SOA = apex, QNAME short enough for "*." to be prepended).  Holds for the code as it is
   and for the RFC wrap-around arm: both accept at least what RFC 5155 covers. *)
Theorem C09_nxdomain_complete :
  forall H z salt iter qname qtype answers rs soft hard k rce rnc rwc nnc nwc,
    let h := H salt iter in
    let lq := lower_name qname in
    hash_ok h -> wf_zone z -> rs <> [] -> Forall (genuine h z salt iter) rs ->
    collision_free h (z_names z ++ relevant lq) ->
    iter <= soft -> iter <= hard -> z_apex z <> [] -> (enc_len qname + 2 <= 255)%nat ->
    (1 <= k)%nat -> encloser z lq k -> ~ In (star (skipn k lq)) (z_names z) ->
    In rce rs -> label_eqb (hd [] (n3_owner rce)) (b32 (h (skipn k lq))) = true ->
    In rnc rs -> label_eqb (hd [] (n3_owner rnc)) (b32 (h nnc)) = true ->
    rfc_covers (h nnc) (n3_next rnc) (h (skipn (k - 1) lq)) ->
    In rwc rs -> label_eqb (hd [] (n3_owner rwc)) (b32 (h nwc)) = true ->
    rfc_covers (h nwc) (n3_next rwc) (h (star (skipn k lq))) ->
    verify_nsec3 H qname qtype (Some (z_apex z)) 3 answers rs soft hard = R Secure /\
    verify_nsec3_gen H wrap_covers_rfc qname qtype (Some (z_apex z)) 3 answers rs soft hard = R Secure.
Proof.
  intros H z salt iter qname qtype answers rs soft hard k rce rnc rwc nnc nwc h lq Hh Hz
         Hne Hg Hcf Hs Hha Hap Hlen Hk Henc Hnw Hce Hlce Hnc Hlnc Hcnc Hwc Hlwc Hcwc.
  assert (forall (p : pair) t n n',
    label_eqb (fst p) (b32 (h n)) = true -> n3_next (snd p) = h n' ->
    bytes_cmp (h n) (h n') <> Lt -> (bytes_cmp (h n) (h t) = Lt \/ bytes_cmp (h t) (h n') = Lt) ->
    wrap_covers (fst p) (b32 (h t)) (h t) (n3_next (snd p)) = true) as Hcode
    by first [exact (wrap_v0_complete h Hh)|exact (wrap_rfc_complete h Hh)].
  split.
  - exact (top_nx_complete H wrap_covers z salt iter Hh Hz Hcode qname qtype answers rs soft hard k
             rce rnc rwc nnc nwc Hne Hg Hcf Hs Hha Hap Hlen Hk Henc Hnw Hce Hlce Hnc Hlnc Hcnc Hwc Hlwc Hcwc).
  - exact (top_nx_complete H wrap_covers_rfc z salt iter Hh Hz (wrap_rfc_complete h Hh) qname qtype answers
             rs soft hard k rce rnc rwc nnc nwc Hne Hg Hcf Hs Hha Hap Hlen Hk Henc Hnw Hce Hlce Hnc Hlnc Hcnc Hwc Hlwc Hcwc).
Qed.
Print Assumptions C09_nxdomain_complete.

(* ================================================================================== *)
(* NOERROR without answers: NODATA (RFC 5155 8.5-8.7)                                   *)
(* ================================================================================== *)

(* the class of the apex arm: QNAME is the SOA owner and no record matches it *)
Definition known_apex_arm (H : list byte -> N -> name -> list byte) (qname : name) (soa : option name)
           (rs : list nsec3) (salt : list byte) (iter : N) : Prop :=
  soa_is (mkCtx qname soa (map pair_of rs) salt iter) qname = true /\
  match_of H (mkCtx qname soa (map pair_of rs) salt iter) qname = None.

(* Secure NODATA (no RRSIG among the answers) from genuine records: QNAME exists without QTYPE
   and CNAME, or it does not exist and the wildcard at its closest encloser exists without them;
   for QTYPE DS the Opt-Out shortcut only yields that QNAME owns no NSEC3.  Guards: the apex arm
   and the wrap-around defect. *)
Theorem C09_nodata_sound_guarded :
  forall H z salt iter qname qtype soa answers rs soft hard,
    let h := H salt iter in
    hash_ok h -> wf_zone z -> Forall (genuine h z salt iter) rs ->
    collision_free h (z_names z ++ relevant (lower_name qname)) ->
    wildcard_labels answers = None ->
    ~ known_apex_arm H qname soa rs salt iter ->
    known_wrap_encloser h wrap_covers (map pair_of rs) false (lower_name qname) = false ->
    (qtype = T_DS -> right_cover h wrap_covers (map pair_of rs) (lower_name qname) = true) ->
    verify_nsec3 H qname qtype soa 0 answers rs soft hard = R Secure ->
    nodata_claim z (lower_name qname) qtype \/
    (qtype = T_DS /\ ~ In (lower_name qname) (z_names z)).
Proof. intros. eapply top_nodata_sound; eassumption. Qed.
Print Assumptions C09_nodata_sound_guarded.

(* Completeness for NODATA at an existing name: a genuine record matching QNAME whose node lacks
   QTYPE and CNAME is accepted, whatever other genuine records come with it. *)
Theorem C09_nodata_complete :
  forall H z salt iter qname qtype answers rs soft hard ts rq,
    let h := H salt iter in
    let lq := lower_name qname in
    hash_ok h -> wf_zone z -> rs <> [] -> Forall (genuine h z salt iter) rs ->
    collision_free h (z_names z ++ relevant lq) ->
    iter <= soft -> iter <= hard ->
    In (lq, ts) (z_nodes z) -> lacks ts qtype -> lacks ts T_CNAME ->
    In rq rs -> label_eqb (hd [] (n3_owner rq)) (b32 (h lq)) = true ->
    verify_nsec3 H qname qtype (Some (z_apex z)) 0 answers rs soft hard = R Secure.
Proof.
  intros H z salt iter qname qtype answers rs soft hard ts rq h lq Hh Hz. intros.
  eapply (top_nodata_complete H wrap_covers z salt iter Hh Hz); eassumption.
Qed.
Print Assumptions C09_nodata_complete.

Theorem C09_nodata_sound_rfcwrap_guarded :
  forall H z salt iter qname qtype soa answers rs soft hard,
    let h := H salt iter in
    hash_ok h -> wf_zone z -> Forall (genuine h z salt iter) rs ->
    collision_free h (z_names z ++ relevant (lower_name qname)) ->
    wildcard_labels answers = None -> qtype <> T_DS ->
    ~ known_apex_arm H qname soa rs salt iter ->
    verify_nsec3_gen H wrap_covers_rfc qname qtype soa 0 answers rs soft hard = R Secure ->
    nodata_claim z (lower_name qname) qtype.
Proof. intros. eapply top_nodata_sound_nods; try eassumption. apply known_wrap_encloser_rfc. Qed.
Print Assumptions C09_nodata_sound_rfcwrap_guarded.

(* Refutation without the apex guard (independent of the wrap-around arm): zone {z. (A NS SOA),
   a.z., c.a.z.}; NODATA for z. A is Secure on the NSEC3 of a.z. alone although z. has an A. *)
Theorem C09_nodata_apex_refuted :
  exists H z salt iter qname qtype soa answers rs soft hard,
    (hash_ok (H salt iter) /\ wf_zone z /\ Forall (genuine (H salt iter) z salt iter) rs /\
     collision_free (H salt iter) (z_names z ++ relevant (lower_name qname))) /\
    wildcard_labels answers = None /\ qtype <> T_DS /\
    verify_nsec3_gen H wrap_covers_v0 qname qtype soa 0 answers rs soft hard = R Secure /\
    verify_nsec3_gen H wrap_covers_rfc qname qtype soa 0 answers rs soft hard = R Secure /\
    ~ nodata_claim z (lower_name qname) qtype.
Proof.
  exists WApex.H, WApex.z, WApex.salt, WApex.iter, WApex.q, WApex.qt, WApex.soa, WApex.answers,
         WApex.recs, WApex.soft, WApex.hard.
  split; [witness_hyps|]. split; [reflexivity|]. split; [vm_compute; discriminate|].
  split; [vm_compute; reflexivity|]. split; [vm_compute; reflexivity|].
  intros Hc. apply nodata_claim_b in Hc. vm_compute in Hc. discriminate.
Qed.
Print Assumptions C09_nodata_apex_refuted.

(* ================================================================================== *)
(* NOERROR with a wildcard-expanded answer (RFC 5155 8.8)                                *)
(* ================================================================================== *)

(* the class of the case-2/3 shortcut: a record matches QNAME, or QTYPE is DS and the first record
   covering QNAME has Opt-Out — the verdict is taken before the answers are looked at *)
Definition known_shortcut (H : list byte -> N -> name -> list byte)
           (WC : label -> label -> list byte -> list byte -> bool) (qname : name) (qtype : N)
           (soa : option name) (rs : list nsec3) (salt : list byte) (iter : N) : Prop :=
  let cx := mkCtx qname soa (map pair_of rs) salt iter in
  match_of H cx qname <> None \/
  (qtype = T_DS /\ exists p, cover_of H WC cx qname = Some p /\ n3_optout (snd p) = true).

(* Secure for an answer whose first RRSIG has w labels (w below QNAME's label count), from genuine
   records: the next closer name (w+1 labels) is inside the zone and neither it nor anything below
   it, QNAME included, exists.  Guards: the shortcut, the missing zone check (next closer name not
   in the records' zone) and the wrap-around defect. *)
Theorem C09_wildcard_answer_sound_guarded :
  forall H z salt iter qname qtype soa answers rs soft hard w,
    let h := H salt iter in
    let lq := lower_name qname in
    hash_ok h -> wf_zone z -> Forall (genuine h z salt iter) rs ->
    collision_free h (z_names z ++ relevant lq) ->
    wildcard_labels answers = Some w ->
    ~ known_shortcut H wrap_covers qname qtype soa rs salt iter ->
    in_zone z (skipn (length lq - S (N.to_nat w)) lq) ->
    right_cover h wrap_covers (map pair_of rs) (skipn (length lq - S (N.to_nat w)) lq) = true ->
    verify_nsec3 H qname qtype soa 0 answers rs soft hard = R Secure ->
    wildcard_answer_claim z lq (N.to_nat w).
Proof.
  intros H z salt iter qname qtype soa answers rs soft hard w h lq Hh Hz Hg Hcf Hwl Hks Hin Hrc Hv.
  eapply top_wildcard_answer_sound; try eassumption.
  - destruct (match_of H _ qname) eqn:E; [|reflexivity]. exfalso. apply Hks. left. unfold wrap_covers in *. congruence.
  - intros Hx. apply Hks. now right.
Qed.
Print Assumptions C09_wildcard_answer_sound_guarded.

Theorem C09_wildcard_answer_sound_rfcwrap_guarded :
  forall H z salt iter qname qtype soa answers rs soft hard w,
    let h := H salt iter in
    let lq := lower_name qname in
    hash_ok h -> wf_zone z -> Forall (genuine h z salt iter) rs ->
    collision_free h (z_names z ++ relevant lq) ->
    wildcard_labels answers = Some w ->
    ~ known_shortcut H wrap_covers_rfc qname qtype soa rs salt iter ->
    in_zone z (skipn (length lq - S (N.to_nat w)) lq) ->
    verify_nsec3_gen H wrap_covers_rfc qname qtype soa 0 answers rs soft hard = R Secure ->
    wildcard_answer_claim z lq (N.to_nat w).
Proof.
  intros H z salt iter qname qtype soa answers rs soft hard w h lq Hh Hz Hg Hcf Hwl Hks Hin Hv.
  eapply top_wildcard_answer_sound; try eassumption.
  - destruct (match_of H _ qname) eqn:E; [|reflexivity]. exfalso. apply Hks. left. congruence.
  - intros Hx. apply Hks. now right.
  - apply right_cover_rfc.
Qed.
Print Assumptions C09_wildcard_answer_sound_rfcwrap_guarded.

(* Refutation without the shortcut guard: zone {z., a.z., *.a.z.}; an answer for a.z. with RRSIG
   labels 1 (synthesised from *.z.) is Secure because an NSEC3 matches a.z. and lacks the type,
   although the matching record proves that a.z. exists. *)
Theorem C09_wildcard_answer_shortcut_refuted :
  exists H z salt iter qname qtype soa answers rs soft hard w,
    (hash_ok (H salt iter) /\ wf_zone z /\ Forall (genuine (H salt iter) z salt iter) rs /\
     collision_free (H salt iter) (z_names z ++ relevant (lower_name qname))) /\
    wildcard_labels answers = Some w /\
    in_zone z (skipn (length (lower_name qname) - S (N.to_nat w)) (lower_name qname)) /\
    verify_nsec3_gen H wrap_covers_v0 qname qtype soa 0 answers rs soft hard = R Secure /\
    verify_nsec3_gen H wrap_covers_rfc qname qtype soa 0 answers rs soft hard = R Secure /\
    ~ wildcard_answer_claim z (lower_name qname) (N.to_nat w).
Proof.
  exists WShort.H, WShort.z, WShort.salt, WShort.iter, WShort.q, WShort.qt, WShort.soa, WShort.answers,
         WShort.recs, WShort.soft, WShort.hard, 1.
  split; [witness_hyps|]. split; [reflexivity|]. split; [exists [[97]]; reflexivity|].
  split; [vm_compute; reflexivity|]. split; [vm_compute; reflexivity|].
  intros Hc. apply wildcard_answer_claim_b in Hc. vm_compute in Hc. discriminate.
Qed.
Print Assumptions C09_wildcard_answer_shortcut_refuted.

(* Refutation without the zone guard: records of zone z. (SOA z.) make an answer for a.a.y. with
   RRSIG labels 1 Secure: nothing relates the records' zone to the query name. *)
Theorem C09_wildcard_answer_zone_refuted :
  exists H z salt iter qname qtype soa answers rs soft hard w,
    (hash_ok (H salt iter) /\ wf_zone z /\ Forall (genuine (H salt iter) z salt iter) rs /\
     collision_free (H salt iter) (z_names z ++ relevant (lower_name qname))) /\
    wildcard_labels answers = Some w /\
    ~ known_shortcut H wrap_covers_rfc qname qtype soa rs salt iter /\
    verify_nsec3_gen H wrap_covers_v0 qname qtype soa 0 answers rs soft hard = R Secure /\
    verify_nsec3_gen H wrap_covers_rfc qname qtype soa 0 answers rs soft hard = R Secure /\
    ~ in_zone z (skipn (length (lower_name qname) - S (N.to_nat w)) (lower_name qname)).
Proof.
  exists WZone.H, WZone.z, WZone.salt, WZone.iter, WZone.q, WZone.qt, WZone.soa, WZone.answers,
         WZone.recs, WZone.soft, WZone.hard, 1.
  split; [witness_hyps|]. split; [reflexivity|]. split.
  { intros [Hm|[Hds _]]; [apply Hm; vm_compute; reflexivity|vm_compute in Hds; discriminate]. }
  split; [vm_compute; reflexivity|]. split; [vm_compute; reflexivity|].
  intros Hc. apply in_zone_b in Hc. vm_compute in Hc. discriminate.
Qed.
Print Assumptions C09_wildcard_answer_zone_refuted.

(* ================================================================================== *)
(* Opt-Out (RFC 5155 6, 8.6)                                                            *)
(* ================================================================================== *)

(* "Opt-out only for DS": unless the response is NOERROR and QTYPE is DS, the verdict is the same
   for every assignment of the Opt-Out flags of the records.  (Read the other way round this is
   also the known finding C09-optout-cover-secure: a name error or wildcard proof whose covering
   records have Opt-Out is Secure although such records say nothing about unsigned delegations.) *)
Theorem C09_optout_consulted_only_for_ds :
  forall H (newflag : nsec3 -> bool) qname qtype soa rcode answers rs soft hard,
    qtype <> T_DS \/ rcode <> 0 ->
    verify_nsec3 H qname qtype soa rcode answers (map (reflag newflag) rs) soft hard =
    verify_nsec3 H qname qtype soa rcode answers rs soft hard.
Proof. intros. now apply optout_irrelevant. Qed.
Print Assumptions C09_optout_consulted_only_for_ds.

(* and for DS it is consulted: the same records with the flags cleared are not accepted
   (harness corpus W6: DS NODATA below a signed delegation "proved" by an Opt-Out cover alone) *)
Example C09_optout_ds_example :
  let rs := [mkN3 [[48; 49]; [122]] 1 true 0 [] (repeat 9 20) [1]] in
  verify_nsec3 exH0 [[97]; [122]] T_DS (Some [[122]]) 0 [] rs 5 10 = R Secure /\
  verify_nsec3 exH0 [[97]; [122]] T_DS (Some [[122]]) 0 [] (map (reflag (fun _ => false)) rs) 5 10 = R Bogus /\
  verify_nsec3 exH0 [[97]; [122]] 1 (Some [[122]]) 0 [] rs 5 10 = R Bogus.
Proof. vm_compute. auto. Qed.

(* ================================================================================== *)
(* Zone cuts and DNAME (RFC 5155 8.3, RFC 6840 4.1)                                      *)
(* ================================================================================== *)

(* What the chain proves (the claims above) is a statement about the zone only where the zone
   is authoritative.  The code never looks at the NS/SOA/DNAME bits: the parent-side NSEC3 of the
   unsigned-or-signed delegation c.a.z. (types {NS}) "proves" NODATA for c.a.z. TXT. *)
Theorem C09_ancestor_delegation_refuted :
  exists H z salt iter qname qtype soa answers rs soft hard,
    (hash_ok (H salt iter) /\ wf_zone z /\ Forall (genuine (H salt iter) z salt iter) rs /\
     collision_free (H salt iter) (z_names z ++ relevant (lower_name qname))) /\
    wildcard_labels answers = None /\ qtype <> T_DS /\
    verify_nsec3_gen H wrap_covers_v0 qname qtype soa 0 answers rs soft hard = R Secure /\
    verify_nsec3_gen H wrap_covers_rfc qname qtype soa 0 answers rs soft hard = R Secure /\
    ~ authoritative z (lower_name qname) qtype.
Proof.
  exists WDeleg.H, WDeleg.z, WDeleg.salt, WDeleg.iter, WDeleg.q, WDeleg.qt, WDeleg.soa, WDeleg.answers,
         WDeleg.recs, WDeleg.soft, WDeleg.hard.
  split; [witness_hyps|]. split; [reflexivity|]. split; [vm_compute; discriminate|].
  split; [vm_compute; reflexivity|]. split; [vm_compute; reflexivity|].
  intros [_ Ha]. specialize (Ha [2]). assert (WDeleg.qt = T_DS) as Hx; [|vm_compute in Hx; discriminate].
  apply Ha.
  - vm_compute. auto.
  - split; [vm_compute; auto|]. vm_compute. intros [E|[]]. discriminate.
Qed.
Print Assumptions C09_ancestor_delegation_refuted.

(* ================================================================================== *)
(* Non-vacuity                                                                          *)
(* ================================================================================== *)

Definition exH : list byte -> N -> name -> list byte := fun _ _ _ => repeat 7 20.
Definition ex_rec (it : N) : nsec3 := mkN3 [[48; 49]; [122]] 1 false it [] (repeat 9 20) [1].

Example C09_limits_example :
  verify_nsec3 exH [[97]; [122]] 1 (Some [[122]]) 3 [] [ex_rec 11; ex_rec 11] 5 10 = R Bogus /\
  verify_nsec3 exH [[97]; [122]] 1 (Some [[122]]) 3 [] [ex_rec 7; ex_rec 7] 5 10 = R Insecure /\
  (exists ps, mk_pairs (Some [[122]]) [ex_rec 7; ex_rec 7] = Some ps) /\
  forallb (same_params (ex_rec 7)) [ex_rec 7; ex_rec 7] = true /\
  verify_nsec3 exH [[97]; [122]] 1 (Some [[122]]) 3 [] [ex_rec 7; ex_rec 8] 5 10 = R Bogus.
Proof. vm_compute. repeat split; try reflexivity. eexists; reflexivity. Qed.

(* the hypotheses of the guarded NXDOMAIN theorem hold on a real three-record proof
   (closest encloser c.z. matched, a.c.z. and *.c.z. covered, the chain's last record among them) *)
Example C09_nxdomain_example :
  let h := GNx.H GNx.salt GNx.iter in
  (hash_ok h /\ wf_zone GNx.z /\ Forall (genuine h GNx.z GNx.salt GNx.iter) GNx.recs /\
   collision_free h (z_names GNx.z ++ relevant (lower_name GNx.q))) /\
  known_wrap_encloser h wrap_covers (map pair_of GNx.recs) true (lower_name GNx.q) = false /\
  verify_nsec3 GNx.H GNx.q GNx.qt GNx.soa 3 GNx.answers GNx.recs GNx.soft GNx.hard = R Secure /\
  length GNx.recs = 3%nat /\ nx_claimb GNx.z (lower_name GNx.q) = true.
Proof. cbv zeta. split; [witness_hyps|]. vm_compute. auto. Qed.

(* the hypotheses of the completeness theorem on the same proof: closest encloser c.z. (k = 1)
   matched by the first record, a.c.z. inside the interval of the record of a.z., *.c.z. inside the
   interval of the record of b.a.z. *)
Example C09_nxdomain_complete_example :
  let h := GNx.H GNx.salt GNx.iter in
  let lq := lower_name GNx.q in
  let rce := nth 0 GNx.recs (ex_rec 0) in
  let rnc := nth 1 GNx.recs (ex_rec 0) in
  let rwc := nth 2 GNx.recs (ex_rec 0) in
  GNx.soa = Some (z_apex GNx.z) /\ GNx.iter <= GNx.soft /\ GNx.iter <= GNx.hard /\
  encloserb GNx.z lq 1 = true /\ inb (star (skipn 1 lq)) (z_names GNx.z) = false /\
  label_eqb (hd [] (n3_owner rce)) (b32 (h (skipn 1 lq))) = true /\
  label_eqb (hd [] (n3_owner rnc)) (b32 (h [[97]; [122]])) = true /\
  rfc_coversb (h [[97]; [122]]) (n3_next rnc) (h (skipn 0 lq)) = true /\
  label_eqb (hd [] (n3_owner rwc)) (b32 (h [[98]; [97]; [122]])) = true /\
  rfc_coversb (h [[98]; [97]; [122]]) (n3_next rwc) (h (star (skipn 1 lq))) = true.
Proof. vm_compute. repeat split; try reflexivity; intros Hx; discriminate. Qed.

Example C09_nodata_example :
  let h := GNodata.H GNodata.salt GNodata.iter in
  (hash_ok h /\ wf_zone GNodata.z /\ Forall (genuine h GNodata.z GNodata.salt GNodata.iter) GNodata.recs /\
   collision_free h (z_names GNodata.z ++ relevant (lower_name GNodata.q))) /\
  wildcard_labels GNodata.answers = None /\
  ~ known_apex_arm GNodata.H GNodata.q GNodata.soa GNodata.recs GNodata.salt GNodata.iter /\
  known_wrap_encloser h wrap_covers (map pair_of GNodata.recs) false (lower_name GNodata.q) = false /\
  verify_nsec3 GNodata.H GNodata.q GNodata.qt GNodata.soa 0 GNodata.answers GNodata.recs GNodata.soft GNodata.hard = R Secure.
Proof.
  cbv zeta. split; [witness_hyps|]. split; [reflexivity|]. split; [|vm_compute; auto].
  intros [Hs _]. vm_compute in Hs. discriminate.
Qed.

(* ... and those of the NODATA completeness theorem: the node of b.z. is (b.z., {A, RRSIG}), the
   query is for MX, the single record matches b.z. *)
Example C09_nodata_complete_example :
  let h := GNodata.H GNodata.salt GNodata.iter in
  let lq := lower_name GNodata.q in
  GNodata.soa = Some (z_apex GNodata.z) /\ In (lq, [1; 46]) (z_nodes GNodata.z) /\
  lacks [1; 46] GNodata.qt /\ lacks [1; 46] T_CNAME /\
  label_eqb (hd [] (n3_owner (nth 0 GNodata.recs (ex_rec 0)))) (b32 (h lq)) = true.
Proof.
  cbv zeta. split; [reflexivity|]. split; [vm_compute; auto|].
  split; [vm_compute; intuition discriminate|]. split; [vm_compute; intuition discriminate|].
  vm_compute. reflexivity.
Qed.

(* wildcard NODATA: closest encloser matched, next closer covered, wildcard matched without the type *)
Example C09_wildcard_nodata_example :
  let h := GWildNodata.H GWildNodata.salt GWildNodata.iter in
  (hash_ok h /\ wf_zone GWildNodata.z /\
   Forall (genuine h GWildNodata.z GWildNodata.salt GWildNodata.iter) GWildNodata.recs /\
   collision_free h (z_names GWildNodata.z ++ relevant (lower_name GWildNodata.q))) /\
  wildcard_labels GWildNodata.answers = None /\
  ~ known_apex_arm GWildNodata.H GWildNodata.q GWildNodata.soa GWildNodata.recs GWildNodata.salt GWildNodata.iter /\
  known_wrap_encloser h wrap_covers (map pair_of GWildNodata.recs) false (lower_name GWildNodata.q) = false /\
  verify_nsec3 GWildNodata.H GWildNodata.q GWildNodata.qt GWildNodata.soa 0 GWildNodata.answers
               GWildNodata.recs GWildNodata.soft GWildNodata.hard = R Secure /\
  length GWildNodata.recs = 3%nat.
Proof.
  cbv zeta. split; [witness_hyps|]. split; [reflexivity|]. split; [|vm_compute; auto].
  intros [Hs _]. vm_compute in Hs. discriminate.
Qed.

Example C09_wildcard_answer_example :
  let h := GWild.H GWild.salt GWild.iter in
  let lq := lower_name GWild.q in
  (hash_ok h /\ wf_zone GWild.z /\ Forall (genuine h GWild.z GWild.salt GWild.iter) GWild.recs /\
   collision_free h (z_names GWild.z ++ relevant lq)) /\
  wildcard_labels GWild.answers = Some 1 /\
  ~ known_shortcut GWild.H wrap_covers GWild.q GWild.qt GWild.soa GWild.recs GWild.salt GWild.iter /\
  in_zone GWild.z (skipn (length lq - 2) lq) /\
  right_cover h wrap_covers (map pair_of GWild.recs) (skipn (length lq - 2) lq) = true /\
  verify_nsec3 GWild.H GWild.q GWild.qt GWild.soa 0 GWild.answers GWild.recs GWild.soft GWild.hard = R Secure.
Proof.
  cbv zeta. split; [witness_hyps|]. split; [reflexivity|]. split.
  { intros [Hm|[Hds _]]; [apply Hm; vm_compute; reflexivity|vm_compute in Hds; discriminate]. }
  split; [exists [[98]]; reflexivity|]. vm_compute. auto.
Qed.
