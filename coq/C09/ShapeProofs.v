(* C09 — what a Secure verdict of each branch of verify_nsec3 implies about the record list, in
   terms of "some record matches / the first covering record of" the digests of explicit names.
   Purely about the model; no zone involved. *)
From HV Require Import Lib.Base C09.Model C09.B32Proofs C09.LimitProofs C09.CoverProofs.
Open Scope N_scope.

Section Shape.
  Variable H : list byte -> N -> name -> list byte.
  Variable WC : label -> label -> list byte -> list byte -> bool.

  Notation hashn := (hashn H).
  Notation mk_info := (mk_info H).

  Definition lbl (cx : ctx) (n : name) : label := b32 (hashn cx n).
  Definition cover_of (cx : ctx) (n : name) : option pair :=
    find_cover WC (c_pairs cx) (hashn cx n) (lbl cx n).
  Definition match_of (cx : ctx) (n : name) : option pair := find_match (c_pairs cx) (lbl cx n).

  Lemma nth_tl {A} (l : list A) k d : (1 <= k)%nat -> nth (k - 1) (tl l) d = nth k l d.
  Proof.
    intros Hk. destruct k as [|k]; [lia|]. replace (S k - 1)%nat with k by lia.
    destruct l as [|x l]; cbn [tl nth]; [now destruct k|reflexivity].
  Qed.

  (* candidates are the suffixes of the query name, longest first *)
  Lemma candidates_nth cx cs j :
    candidates cx = Some cs -> (j < length cs)%nat ->
    nth j cs [] = skipn j (c_qname cx) /\ (j <= length (c_qname cx))%nat.
  Proof.
    unfold candidates. destruct (c_soa cx) as [s|]; [|intros E; inversion E; subst; cbn; lia].
    destruct (zone_of s (c_qname cx)); [|intros E; inversion E; subst; cbn; lia].
    destruct (is_root s && negb (is_root (c_qname cx))); [discriminate|].
    intros E Hj. assert (cs = cand_loop (S (length (c_qname cx))) (c_qname cx) s) as -> by congruence.
    clear E. split; [now apply cand_loop_nth|].
    pose proof (cand_loop_length s (S (length (c_qname cx))) (c_qname cx)). lia.
  Qed.

  Lemma ce_proof_none_fst cx x y : ce_proof H WC cx = Some (None, y) -> x = y -> y = None.
  Proof.
    intros E _. unfold ce_proof in E. destruct (candidates cx) as [cs|]; [|discriminate].
    destruct (find_map _ _) as [mrec|]; [|now inversion E].
    destruct (find_idx _ _ _) as [i|]; [discriminate|now inversion E].
  Qed.

  Lemma ce_proof_shape cx cei mrec nco :
    ce_proof H WC cx = Some (Some (cei, mrec), nco) ->
    exists i, (1 <= i <= length (c_qname cx))%nat /\
      cei = mk_info cx (skipn i (c_qname cx)) /\
      In mrec (c_pairs cx) /\ label_eqb (fst mrec) (lbl cx (skipn i (c_qname cx))) = true /\
      nco = option_map (fun r => (mk_info cx (skipn (i - 1) (c_qname cx)), r))
                       (cover_of cx (skipn (i - 1) (c_qname cx))).
  Proof.
    unfold ce_proof. destruct (candidates cx) as [cs|] eqn:Ec; [|discriminate].
    destruct (find_map _ _) as [mr|] eqn:Efm; [|discriminate].
    destruct (find_idx _ _ _) as [i|] eqn:Efi; [|discriminate].
    intros E; inversion E; subst; clear E.
    destruct (find_idx_some _ _ _ _ Efi) as [Hr Hf].
    specialize (Hf (mk_info cx [])). rewrite nth_tl in Hf by lia.
    assert (i < length cs)%nat as Hi.
    { destruct cs as [|c cs]; cbn [map tl length] in Hr; [lia|]. rewrite map_length in Hr. cbn [length]. lia. }
    change (mk_info cx []) with ((fun n => mk_info cx n) []) in *.
    rewrite !(map_nth (fun n => mk_info cx n)) in *.
    destruct (candidates_nth cx cs i Ec Hi) as [En Hle].
    destruct (candidates_nth cx cs (i - 1) Ec ltac:(lia)) as [En1 _].
    rewrite En in *. rewrite En1.
    destruct (find_map_some _ _ _ Efm) as (c & _ & Hc). destruct (find_some_in _ _ _ Hc) as [Hin _].
    exists i. repeat split; try lia; try assumption.
    rewrite label_eqb_sym. exact Hf.
  Qed.

  (* --- NXDOMAIN ------------------------------------------------------------------------------ *)

  Lemma nx_secure_shape cx :
    validate_nxdomain H WC cx = R Secure ->
    match_of cx (c_qname cx) = None /\
    exists i mrec ncr wcr, (1 <= i <= length (c_qname cx))%nat /\
      In mrec (c_pairs cx) /\ label_eqb (fst mrec) (lbl cx (skipn i (c_qname cx))) = true /\
      cover_of cx (skipn (i - 1) (c_qname cx)) = Some ncr /\
      cover_of cx (star (skipn i (c_qname cx))) = Some wcr.
  Proof.
    unfold validate_nxdomain. cbn zeta.
    destruct (existsb _ _) eqn:Eex; [discriminate|].
    destruct (ce_proof_wc H WC cx false) as [[[ce nc] wc]|] eqn:Ew; [|discriminate].
    intros Hs. split.
    { unfold match_of, find_match. destruct (find _ _) as [p|] eqn:Ef; [|reflexivity].
      destruct (find_some_in _ _ _ Ef) as [Hin Hp].
      assert (existsb (fun p => label_eqb (fst p) (hi_label (mk_info cx (c_qname cx)))) (c_pairs cx) = true) as Hx
        by (apply existsb_exists; exists p; auto).
      congruence. }
    unfold ce_proof_wc in Ew. cbv zeta in Ew. destruct (ce_proof H WC cx) as [cep|] eqn:Ecp; [|discriminate].
    destruct cep as [ce' nc']. cbn [fst] in Ew.
    destruct ce' as [[cei mrec]|].
    2:{ inversion Ew; subst ce nc wc. cbn in Hs. destruct nc'; discriminate. }
    destruct (ce_proof_shape cx cei mrec nc' Ecp) as (i & Hi & Ecei & Hin & Hm & Enc).
    destruct (prepend_star (hi_name cei)) as [wn|] eqn:Eps.
    2:{ inversion Ew; subst ce nc wc. cbn in Hs. destruct nc'; discriminate. }
    inversion Ew; subst ce nc wc; clear Ew.
    cbn [is_some negb andb] in Hs.
    destruct nc' as [[nci ncr]|]; [|discriminate].
    match type of Hs with context [option_map _ ?X] => destruct X as [wcr|] eqn:Ewc end;
      cbn in Hs; [|discriminate].
    exists i, mrec, ncr, wcr. repeat split; try lia; try assumption.
    - destruct (cover_of cx (skipn (i - 1) (c_qname cx))) as [r|]; cbn in Enc; [|discriminate].
      inversion Enc; subst; reflexivity.
    - unfold prepend_star in Eps. destruct (255 <? _)%nat; [discriminate|]. inversion Eps; subst wn.
      subst cei. exact Ewc.
  Qed.

  (* --- NOERROR --------------------------------------------------------------------------------- *)

  Lemma has_type_false r t : has_type r t = false -> ~ In t (n3_types r).
  Proof.
    unfold has_type. intros Hf Hin.
    assert (existsb (N.eqb t) (n3_types r) = true) as Hx by (apply existsb_exists; exists t; split; [exact Hin|apply N.eqb_refl]).
    congruence.
  Qed.

  Inductive nodata_shape (qtype : N) (wl : option N) (cx : ctx) : Prop :=
  | NdMatch qr :                                             (* case 2 *)
      match_of cx (c_qname cx) = Some qr ->
      ~ In qtype (n3_types (snd qr)) -> ~ In T_CNAME (n3_types (snd qr)) -> nodata_shape qtype wl cx
  | NdOptOut p :                                             (* case 3 *)
      match_of cx (c_qname cx) = None -> qtype = T_DS ->
      cover_of cx (c_qname cx) = Some p -> n3_optout (snd p) = true -> nodata_shape qtype wl cx
  | NdWildAnswer w p :                                       (* case 4 *)
      match_of cx (c_qname cx) = None -> wl = Some w -> w < num_labels (c_qname cx) ->
      cover_of cx (last_labels (S (N.to_nat w)) (c_qname cx)) = Some p -> nodata_shape qtype wl cx
  | NdWildNodata i mrec ncr wr :                             (* case 5, first arm *)
      match_of cx (c_qname cx) = None -> wl = None ->
      (1 <= i <= length (c_qname cx))%nat ->
      In mrec (c_pairs cx) -> label_eqb (fst mrec) (lbl cx (skipn i (c_qname cx))) = true ->
      cover_of cx (skipn (i - 1) (c_qname cx)) = Some ncr ->
      match_of cx (star (skipn i (c_qname cx))) = Some wr ->
      ~ In qtype (n3_types (snd wr)) -> ~ In T_CNAME (n3_types (snd wr)) -> nodata_shape qtype wl cx
  | NdApexArm :                                              (* case 5, third arm *)
      match_of cx (c_qname cx) = None -> wl = None ->
      soa_is cx (c_qname cx) = true -> nodata_shape qtype wl cx.

  Lemma nodata_secure_shape qtype wl cx :
    validate_nodata H WC qtype wl cx = R Secure -> nodata_shape qtype wl cx.
  Proof.
    unfold validate_nodata. cbn zeta.
    change (find_match (c_pairs cx) (hi_label (mk_info cx (c_qname cx)))) with (match_of cx (c_qname cx)).
    destruct (match_of cx (c_qname cx)) as [qr|] eqn:Eq.
    { destruct (has_type (snd qr) qtype) eqn:E1; [discriminate|].
      destruct (has_type (snd qr) T_CNAME) eqn:E2; [discriminate|]. intros _.
      eapply NdMatch; eauto using has_type_false. }
    change (find_cover WC (c_pairs cx) (hi_hash (mk_info cx (c_qname cx))) (hi_label (mk_info cx (c_qname cx))))
      with (cover_of cx (c_qname cx)).
    destruct ((qtype =? T_DS) && match cover_of cx (c_qname cx) with Some p => n3_optout (snd p) | None => false end) eqn:E3.
    { intros _. apply andb_true_iff in E3. destruct E3 as [Eds Eoo]. apply N.eqb_eq in Eds.
      destruct (cover_of cx (c_qname cx)) as [p|] eqn:Ec; [|discriminate].
      eapply NdOptOut; eauto. }
    destruct wl as [w|].
    { destruct (num_labels (c_qname cx) <=? w) eqn:El; [discriminate|]. apply N.leb_gt in El.
      match goal with |- context [find_cover WC ?a ?b ?c] =>
        change (find_cover WC a b c) with (cover_of cx (last_labels (S (N.to_nat w)) (c_qname cx))) end.
      destruct (cover_of cx (last_labels (S (N.to_nat w)) (c_qname cx))) as [p|] eqn:Ec; [|discriminate].
      intros _. eapply NdWildAnswer; eauto. }
    destruct (ce_proof_wc H WC cx true) as [[[ce nc] wc]|] eqn:Ew; [|discriminate].
    intros Hs.
    unfold ce_proof_wc in Ew. cbv zeta in Ew. destruct (ce_proof H WC cx) as [cep|] eqn:Ecp; [|discriminate].
    destruct cep as [ce' nc']. cbn [fst] in Ew.
    destruct ce' as [[cei mrec]|].
    2:{ inversion Ew; subst ce nc wc. pose proof (ce_proof_none_fst cx nc' nc' Ecp eq_refl). subst nc'.
        destruct (soa_is cx (c_qname cx)) eqn:Es; [|discriminate]. now apply NdApexArm. }
    destruct (ce_proof_shape cx cei mrec nc' Ecp) as (i & Hi & Ecei & Hin & Hm & Enc).
    destruct (prepend_star (hi_name cei)) as [wn|] eqn:Eps.
    2:{ inversion Ew; subst ce nc wc. destruct nc'; discriminate. }
    inversion Ew; subst ce nc wc; clear Ew.
    destruct nc' as [[nci ncr]|]; [|discriminate].
    match type of Hs with context [option_map _ ?X] => destruct X as [wr|] eqn:Ewc end;
      cbn [option_map] in Hs; [|discriminate].
    destruct (has_type (snd wr) qtype) eqn:E1; [discriminate|].
    destruct (has_type (snd wr) T_CNAME) eqn:E2; [discriminate|].
    unfold prepend_star in Eps. destruct (255 <? _)%nat; [discriminate|]. inversion Eps; subst wn. subst cei.
    eapply (NdWildNodata qtype None cx i mrec ncr wr); eauto using has_type_false.
    destruct (cover_of cx (skipn (i - 1) (c_qname cx))) as [r|]; cbn in Enc; [|discriminate].
    inversion Enc; subst; reflexivity.
  Qed.
End Shape.
