(* C09 — executable model of crates/net/src/dnssec/nsec3.rs (verify_nsec3 and everything it
   calls), plus the specification vocabulary (zones, genuine NSEC3 chains, claims) used by the
   theorems.  No proofs in this file.

   Conventions.  A [label] is its raw bytes; a [name] is the list of its labels, leftmost
   first, and stands for a fully-qualified name (every name that reaches verify_nsec3 from the
   wire is fully qualified; [Name::base_name], [Name::from_labels] always produce FQDNs).
   SHA-1 is not modelled: the hash is the Section variable [H salt iterations lowercased-name].
   The base32hex encoder ([data_encoding::BASE32_DNSSEC]) is modelled ([b32]).
   The model is of the debug build used by the harness: debug assertions are [Panic]. *)
From HV Require Import Lib.Base.
Open Scope N_scope.

Definition label := list byte.
Definition name := list label.

(* ------------------------------------------------------------------ *)
(* Labels and names (crates/proto/src/rr/domain/{label,name}.rs)        *)
(* ------------------------------------------------------------------ *)

(* u8::to_ascii_lowercase *)
Definition lc (b : byte) : byte := if (65 <=? b) && (b <=? 90) then b + 32 else b.

(* <[u8]>::eq_ignore_ascii_case — Label's PartialEq *)
Fixpoint label_eqb (a b : label) : bool :=
  match a, b with
  | [], [] => true
  | x :: a', y :: b' => (lc x =? lc y) && label_eqb a' b'
  | _, _ => false
  end.

(* Label::cmp = cmp_with_f::<CaseInsensitive>: bytewise on the zipped prefix, then length *)
Fixpoint label_cmp (a b : label) : comparison :=
  match a, b with
  | [], [] => Eq
  | [], _ :: _ => Lt
  | _ :: _, [] => Gt
  | x :: a', y :: b' => match lc x ?= lc y with Eq => label_cmp a' b' | c => c end
  end.

(* <[u8] as Ord>::cmp — raw digests are compared as byte slices *)
Fixpoint bytes_cmp (a b : list byte) : comparison :=
  match a, b with
  | [], [] => Eq
  | [], _ :: _ => Lt
  | _ :: _, [] => Gt
  | x :: a', y :: b' => match x ?= y with Eq => bytes_cmp a' b' | c => c end
  end.

Definition is_lt (c : comparison) : bool := match c with Lt => true | _ => false end.
Definition is_gt (c : comparison) : bool := match c with Gt => true | _ => false end.

(* Name's PartialEq for two FQDNs: cmp_labels::<CaseInsensitive> == Equal, i.e. same number of
   labels and label-wise equal ignoring ASCII case *)
Definition name_eqb (a b : name) : bool := list_eqb label_eqb a b.

(* Name::base_name (root stays root) *)
Definition base_name (n : name) : name := tl n.
Definition is_root (n : name) : bool := match n with [] => true | _ => false end.

Fixpoint zip_all (a b : list label) : bool :=
  match a, b with
  | x :: a', y :: b' => label_eqb x y && zip_all a' b'
  | _, _ => true
  end.

(* Name::zone_of = zone_of_with(eq_ignore_ascii_case) *)
Definition zone_of (z n : name) : bool :=
  match z, n with
  | [], _ => true
  | _, [] => false
  | _, _ => if (length n <? length z)%nat then false else zip_all (rev z) (rev n)
  end.

(* Name::num_labels: a leading "*" is not counted *)
Definition num_labels (n : name) : N :=
  match n with
  | [] => 0
  | l :: _ => if bytes_eqb l [42] then N.of_nat (length n) - 1 else N.of_nat (length n)
  end.

(* Name::encoded_len *)
Definition enc_len (n : name) : nat := S (fold_right (fun l acc => S (length l) + acc)%nat O n).

(* Name::prepend_label("*"): fails when the result would exceed 255 octets *)
Definition prepend_star (n : name) : option name :=
  if (255 <? enc_len n + 2)%nat then None else Some ([42] :: n).

(* NameEncoding::UncompressedLowercase *)
Definition lower_name (n : name) : name := map (map lc) n.

(* ------------------------------------------------------------------ *)
(* base32hex, lower case, no padding (data_encoding::BASE32_DNSSEC)      *)
(* ------------------------------------------------------------------ *)

Definition bits8 (b : byte) : list bool :=
  [N.testbit b 7; N.testbit b 6; N.testbit b 5; N.testbit b 4;
   N.testbit b 3; N.testbit b 2; N.testbit b 1; N.testbit b 0].
Definition bits (l : list byte) : list bool := flat_map bits8 l.
Definition b2n (b : bool) : N := if b then 1 else 0.
Definition val5 (b4 b3 b2 b1 b0 : bool) : N :=
  16 * b2n b4 + 8 * b2n b3 + 4 * b2n b2 + 2 * b2n b1 + b2n b0.
(* "0123456789abcdefghijklmnopqrstuv" *)
Definition alpha (v : N) : byte := if v <? 10 then 48 + v else 87 + v.

Fixpoint chunks5 (bs : list bool) : list byte :=
  match bs with
  | [] => []
  | b4 :: b3 :: b2 :: b1 :: b0 :: r => alpha (val5 b4 b3 b2 b1 b0) :: chunks5 r
  | [b4; b3; b2; b1] => [alpha (val5 b4 b3 b2 b1 false)]
  | [b4; b3; b2] => [alpha (val5 b4 b3 b2 false false)]
  | [b4; b3] => [alpha (val5 b4 b3 false false false)]
  | [b4] => [alpha (val5 b4 false false false false)]
  end.

Definition b32 (l : list byte) : label := chunks5 (bits l).

(* ------------------------------------------------------------------ *)
(* NSEC3 records as verify_nsec3 sees them                              *)
(* ------------------------------------------------------------------ *)

Record nsec3 := mkN3 {
  n3_owner : name;          (* owner name of the record: <label>.<base> *)
  n3_alg : N;               (* hash algorithm (only SHA-1 = 1 exists) *)
  n3_optout : bool;
  n3_iter : N;
  n3_salt : list byte;
  n3_next : list byte;      (* next hashed owner name, raw *)
  n3_types : list N         (* type bit maps, as type codes *)
}.

(* NSEC3::with_record_type_set: Label::from_ascii(BASE32_DNSSEC.encode(next)).ok() —
   None when the text is empty or longer than 63 *)
Definition next_b32 (r : nsec3) : option label :=
  let e := b32 (n3_next r) in
  if ((length e =? 0) || (63 <? length e))%nat then None else Some e.

Definition has_type (r : nsec3) (t : N) : bool := existsb (N.eqb t) (n3_types r).

Definition T_CNAME : N := 5.
Definition T_DS : N := 43.
Definition T_NS : N := 2.
Definition T_SOA : N := 6.
Definition T_DNAME : N := 39.

Inductive proof := Secure | Insecure | Bogus.
Inductive result := R (p : proof) | Panic.

(* Nsec3RecordPair: first label of the owner name + the record *)
Definition pair := (label * nsec3)%type.

Fixpoint find_map {A B} (f : A -> option B) (l : list A) : option B :=
  match l with
  | [] => None
  | x :: l' => match f x with Some y => Some y | None => find_map f l' end
  end.

Fixpoint find_idx {A} (f : A -> bool) (i : nat) (l : list A) : option nat :=
  match l with
  | [] => None
  | x :: l' => if f x then Some i else find_idx f (S i) l'
  end.

(* the loop at the head of verify_nsec3: split_first_label, base == soa, Label::from_raw_bytes *)
Fixpoint mk_pairs (soa : option name) (rs : list nsec3) : option (list pair) :=
  match rs with
  | [] => Some []
  | r :: rs' =>
      match n3_owner r with
      | [] => None                                   (* "record name format is invalid" *)
      | l :: base =>
          if match soa with Some s => negb (name_eqb base s) | None => false end
          then None                                  (* "record name is not in the zone" *)
          else if ((length l =? 0) || (63 <? length l))%nat
          then None                                  (* "base32-hashed name is invalid" *)
          else match mk_pairs soa rs' with
               | None => None
               | Some ps => Some ((l, r) :: ps)
               end
      end
  end.

Definition same_params (a b : nsec3) : bool :=
  (n3_alg a =? n3_alg b) && bytes_eqb (n3_salt a) (n3_salt b) && (n3_iter a =? n3_iter b).

(* The wrap-around arm of the closure in find_covering_record (owner label >= base32(next),
   i.e. the last record of a chain): as found in the code under test (v0) and as RFC 5155
   defines it.  [wrap_covers] below selects the one the current code has; the whole model is
   parametric in it so that theorems about either variant stay checkable. *)
Definition wrap_covers_v0 (owner tl : label) (th next : list byte) : bool :=
  is_gt (label_cmp owner tl) || is_gt (bytes_cmp th next).
Definition wrap_covers_rfc (owner tl : label) (th next : list byte) : bool :=
  is_lt (label_cmp owner tl) || is_lt (bytes_cmp th next).

Section WithHash.
  (* Nsec3HashAlgorithm::hash(salt, name, iterations) on the lower-cased wire form *)
  Variable H : list byte -> N -> name -> list byte.
  (* the wrap-around test: owner label, target label, target digest, next digest *)
  Variable WC : label -> label -> list byte -> list byte -> bool.

  (* struct Context *)
  Record ctx := mkCtx {
    c_qname : name;
    c_soa : option name;
    c_pairs : list pair;
    c_salt : list byte;
    c_iter : N
  }.

  Definition hashn (cx : ctx) (n : name) : list byte := H (c_salt cx) (c_iter cx) (lower_name n).

  (* HashedNameInfo *)
  Definition hinfo := (name * list byte * label)%type.
  Definition hi_name (i : hinfo) : name := fst (fst i).
  Definition hi_hash (i : hinfo) : list byte := snd (fst i).
  Definition hi_label (i : hinfo) : label := snd i.
  Definition mk_info (cx : ctx) (n : name) : hinfo := let h := hashn cx n in (n, h, b32 h).

  Definition find_match (ps : list pair) (l : label) : option pair :=
    find (fun p => label_eqb (fst p) l) ps.

  (* the closure in find_covering_record *)
  Definition covers1 (th : list byte) (tl : label) (p : pair) : bool :=
    match next_b32 (snd p) with
    | None => false
    | Some nl =>
        if label_eqb (fst p) tl then false
        else if is_lt (label_cmp (fst p) nl)
        then is_lt (label_cmp (fst p) tl) && is_lt (bytes_cmp th (n3_next (snd p)))
        else WC (fst p) tl th (n3_next (snd p))
    end.

  Definition find_cover (ps : list pair) (th : list byte) (tl : label) : option pair :=
    find (covers1 th tl) ps.

  (* EncloserCandidates::next, iterated *)
  Fixpoint cand_loop (fuel : nat) (cur soa : name) : list name :=
    match fuel with
    | O => []
    | S f => cur :: (if name_eqb cur soa then [] else cand_loop f (base_name cur) soa)
    end.

  (* Context::encloser_candidates, collected; None = debug_assert_ne!(next, Name::root()) *)
  Definition candidates (cx : ctx) : option (list name) :=
    match c_soa cx with
    | Some s =>
        if zone_of s (c_qname cx)
        then if is_root s && negb (is_root (c_qname cx)) then None
             else Some (cand_loop (S (length (c_qname cx))) (c_qname cx) s)
        else Some []
    | None => Some []
    end.

  (* ClosestEncloserProofInfo *)
  Definition ceinfo := (option (hinfo * pair) * option (hinfo * pair))%type.

  (* Context::closest_encloser_proof; None = panic *)
  Definition ce_proof (cx : ctx) : option ceinfo :=
    match candidates cx with
    | None => None
    | Some cs =>
        let infos := map (mk_info cx) cs in
        match find_map (fun c => find_match (c_pairs cx) (hi_label c)) infos with
        | None => Some (None, None)
        | Some mrec =>
            match find_idx (fun c => label_eqb (hi_label c) (fst mrec)) 1 (tl infos) with
            | None => Some (None, None)
            | Some i =>
                let dflt := mk_info cx [] in
                let ce := nth i infos dflt in
                let nc := nth (i - 1) infos dflt in
                Some (Some (ce, mrec),
                      option_map (fun r => (nc, r)) (find_cover (c_pairs cx) (hi_hash nc) (hi_label nc)))
            end
        end
    end.

  (* Context::closest_encloser_proof_with_wildcard *)
  Definition ce_proof_wc (cx : ctx) (matching : bool) : option (ceinfo * option (hinfo * pair)) :=
    match ce_proof cx with
    | None => None
    | Some cep =>
        match fst cep with
        | None => Some (cep, None)
        | Some (cei, _) =>
            match prepend_star (hi_name cei) with
            | None => Some (cep, None)
            | Some wn =>
                let wi := mk_info cx wn in
                let wr := if matching then find_match (c_pairs cx) (hi_label wi)
                          else find_cover (c_pairs cx) (hi_hash wi) (hi_label wi) in
                Some (cep, option_map (fun r => (wi, r)) wr)
            end
        end
    end.

  Definition is_some {A} (o : option A) : bool := match o with Some _ => true | None => false end.
  Definition soa_is (cx : ctx) (n : name) : bool :=
    match c_soa cx with Some s => name_eqb n s | None => false end.

  Definition validate_nxdomain (cx : ctx) : result :=
    let qi := mk_info cx (c_qname cx) in
    if existsb (fun p => label_eqb (fst p) (hi_label qi)) (c_pairs cx)
    then R Bogus                                          (* record for query name *)
    else match ce_proof_wc cx false with
         | None => Panic
         | Some ((ce, nc), wc) =>
             if negb (is_some ce) && negb (is_some nc) then R Bogus
             else match ce, nc, wc with
                  | Some _, Some _, Some _ => R Secure
                  | None, Some _, Some _ =>
                      if soa_is cx (base_name (c_qname cx)) then R Secure else R Bogus
                  | _, _, _ => R Bogus
                  end
         end.

  (* the last [k] labels of a name: into_iter().rev().take(k).rev() *)
  Definition last_labels (k : nat) (n : name) : name := rev (firstn k (rev n)).

  Definition validate_nodata (qtype : N) (wl : option N) (cx : ctx) : result :=
    let qi := mk_info cx (c_qname cx) in
    match find_match (c_pairs cx) (hi_label qi) with
    | Some qr =>                                            (* case 2 *)
        if has_type (snd qr) qtype || has_type (snd qr) T_CNAME then R Bogus else R Secure
    | None =>
        if (qtype =? T_DS) &&
           match find_cover (c_pairs cx) (hi_hash qi) (hi_label qi) with
           | Some p => n3_optout (snd p)
           | None => false
           end
        then R Secure                                       (* case 3 *)
        else match wl with
        | Some w =>                                         (* case 4 *)
            if num_labels (c_qname cx) <=? w then R Bogus
            else let nci := mk_info cx (last_labels (S (N.to_nat w)) (c_qname cx)) in
                 match find_cover (c_pairs cx) (hi_hash nci) (hi_label nci) with
                 | Some _ => R Secure
                 | None => R Bogus
                 end
        | None =>                                           (* case 5 *)
            match ce_proof_wc cx true with
            | None => Panic
            | Some ((ce, nc), wc) =>
                match ce, nc, wc with
                | Some _, Some _, Some (_, w) =>
                    if negb (has_type (snd w) qtype) && negb (has_type (snd w) T_CNAME)
                    then R Secure else R Bogus
                | None, Some _, Some _ =>
                    if soa_is cx (base_name (c_qname cx)) then R Secure else R Bogus
                | None, None, None =>
                    if soa_is cx (c_qname cx) then R Secure else R Bogus
                | _, _, _ => R Bogus
                end
            end
        end
    end.

  (* answers.iter().find_map(RRSIG => Some(num_labels)): an answer is abstracted to
     [Some labels] if it is an RRSIG and [None] otherwise *)
  Definition wildcard_labels (answers : list (option N)) : option N := find_map (fun a => a) answers.

  (* response codes: 0 = NoError, 3 = NXDomain *)
  Definition verify_nsec3_gen (qname : name) (qtype : N) (soa : option name) (rcode : N)
             (answers : list (option N)) (rs : list nsec3) (soft hard : N) : result :=
    match rs with
    | [] => Panic                                          (* debug_assert / pairs[0] *)
    | first :: _ =>
        match mk_pairs soa rs with
        | None => R Bogus
        | Some ps =>
            if negb (forallb (same_params first) rs) then R Bogus
            else if hard <? n3_iter first then R Bogus
            else if soft <? n3_iter first then R Insecure
            else
              let cx := mkCtx qname soa ps (n3_salt first) (n3_iter first) in
              if rcode =? 3 then validate_nxdomain cx
              else if rcode =? 0 then validate_nodata qtype (wildcard_labels answers) cx
              else R Bogus
        end
    end.
End WithHash.

(* ===== the one line that says which wrap-around test the code under test has ===== *)
Definition wrap_covers := wrap_covers_v0.

(* verify_nsec3 as it is in crates/net/src/dnssec/nsec3.rs *)
Definition verify_nsec3 (H : list byte -> N -> name -> list byte) := verify_nsec3_gen H wrap_covers.

(* ================================================================== *)
(* Specification vocabulary (independent of the code's algorithm)       *)
(* ================================================================== *)

(* RFC 5155 1.3/7.1: an NSEC3 with owner digest [o] and next digest [nx] covers digest [t] when
   t lies strictly between them in digest order, the last record of the chain (nx <= o)
   covering what lies after o or before nx. *)
Definition rfc_covers (o nx t : list byte) : Prop :=
  (bytes_cmp o nx = Lt /\ bytes_cmp o t = Lt /\ bytes_cmp t nx = Lt) \/
  (bytes_cmp o nx <> Lt /\ (bytes_cmp o t = Lt \/ bytes_cmp t nx = Lt)).

(* A signed zone as its NSEC3 chain sees it: the apex and the names that own an NSEC3 record
   (authoritative owner names, signed delegation points, empty non-terminals), each with its
   type bitmap.  Names are lower case. *)
Record zone := mkZone { z_apex : name; z_nodes : list (name * list N) }.
Definition z_names (z : zone) : list name := map fst (z_nodes z).

Definition wf_zone (z : zone) : Prop :=
  In (z_apex z) (z_names z) /\
  (forall n, In n (z_names z) -> lower_name n = n /\ exists pre, n = pre ++ z_apex z) /\
  (* closed under taking parents down to the apex (RFC 5155 7.1: empty non-terminals own
     NSEC3 records too) *)
  (forall l n, In (l :: n) (z_names z) -> l :: n <> z_apex z -> In n (z_names z)) /\
  (* one bitmap per name *)
  (forall n t1 t2, In (n, t1) (z_nodes z) -> In (n, t2) (z_nodes z) -> t1 = t2).

Section Spec.
  (* digest of a lower-case name under the zone's NSEC3 parameters *)
  Variable h : name -> list byte.

  Definition hash_ok : Prop := forall n, length (h n) = 20%nat /\ bytes_ok (h n).

  (* r is a genuine NSEC3 record of zone z (RFC 5155 7.1): it belongs to a name of the zone,
     carries that name's bitmap, its next field is the digest of a name of the zone, and no
     name of the zone has a digest in the interval the record covers. *)
  Definition genuine (z : zone) (salt : list byte) (iter : N) (r : nsec3) : Prop :=
    exists n ts l base,
      In (n, ts) (z_nodes z) /\
      n3_owner r = l :: base /\ label_eqb l (b32 (h n)) = true /\ name_eqb base (z_apex z) = true /\
      n3_types r = ts /\ n3_alg r = 1 /\ n3_salt r = salt /\ n3_iter r = iter /\
      (exists n', In n' (z_names z) /\ n3_next r = h n') /\
      (forall m, In m (z_names z) -> ~ rfc_covers (h n) (n3_next r) (h m)).

  (* no two distinct names among [ns] share a digest *)
  Definition collision_free (ns : list name) : Prop :=
    forall a b, In a ns -> In b ns -> h a = h b -> a = b.

  Definition star (n : name) : name := [42] :: n.

  (* the names whose digests a validation of [q] may look at *)
  Fixpoint suffixes (q : name) : list name :=
    match q with [] => [[]] | _ :: q' => q :: suffixes q' end.
  Definition relevant (q : name) : list name := suffixes q ++ map star (suffixes q).

  (* [skipn k q] is the closest encloser of q in z: it is in the zone and no longer suffix is *)
  Definition encloser (z : zone) (q : name) (k : nat) : Prop :=
    (k <= length q)%nat /\ In (skipn k q) (z_names z) /\
    forall j, (j < k)%nat -> ~ In (skipn j q) (z_names z).

  (* RFC 5155 8.4: the name does not exist and no wildcard could have been expanded *)
  Definition nx_claim (z : zone) (q : name) : Prop :=
    exists k, (0 < k)%nat /\ encloser z q k /\ ~ In (star (skipn k q)) (z_names z).

  Definition lacks (ts : list N) (t : N) : Prop := ~ In t ts.

  (* RFC 5155 8.5-8.7: the name exists without the type (and without CNAME), or it does not
     exist and the wildcard at its closest encloser exists without the type *)
  Definition nodata_claim (z : zone) (q : name) (qtype : N) : Prop :=
    (exists ts, In (q, ts) (z_nodes z) /\ lacks ts qtype /\ lacks ts T_CNAME) \/
    (exists k ts, (0 < k)%nat /\ encloser z q k /\
                  In (star (skipn k q), ts) (z_nodes z) /\ lacks ts qtype /\ lacks ts T_CNAME).

  (* RFC 5155 8.8: the answer was synthesised from the wildcard [w] labels long; the next
     closer name (w+1 labels) and hence everything below it, QNAME included, does not exist *)
  Definition in_zone (z : zone) (n : name) : Prop := exists pre, n = pre ++ z_apex z.
  Definition wildcard_answer_claim (z : zone) (q : name) (w : nat) : Prop :=
    (w < length q)%nat /\ in_zone z (skipn (length q - S w) q) /\
    forall j, (j <= length q - S w)%nat -> ~ In (skipn j q) (z_names z).

  (* NS without SOA: the parent side of a zone cut; DNAME: nothing exists below *)
  Definition deleg (ts : list N) : Prop := In T_NS ts /\ ~ In T_SOA ts.
  Definition dname (ts : list N) : Prop := In T_DNAME ts.
  (* the zone is authoritative for what it denies about (q, qtype): no zone cut or DNAME at a
     proper ancestor of q inside the zone, and q itself is not a cut unless the DS is asked for
     (RFC 5155 8.3 ... 8.7, RFC 6840 4.1) *)
  Definition authoritative (z : zone) (q : name) (qtype : N) : Prop :=
    (forall k ts, (1 <= k)%nat -> In (skipn k q, ts) (z_nodes z) -> ~ deleg ts /\ ~ dname ts) /\
    (forall ts, In (q, ts) (z_nodes z) -> deleg ts -> qtype = T_DS).
End Spec.

(* a hash function given by a finite table (lower-case name |-> digest), all-zero elsewhere:
   used by the correspondence check (real SHA-1 digests shipped by the harness) and by the
   concrete witnesses in Props.v *)
Definition zeros20 : list byte := repeat 0 20.
Definition raw_name_eqb (a b : name) : bool := list_eqb bytes_eqb a b.
Definition Htab (tbl : list (name * list byte)) (_ : list byte) (_ : N) (n : name) : list byte :=
  match find (fun e => raw_name_eqb (fst e) n) tbl with
  | Some e => snd e
  | None => zeros20
  end.

(* The class of the wrap-around defect, on exactly the covering decisions a verdict rests on.
   [right_cover t]: the record find_covering_record returns for the digest of t (if any) also
   covers it by RFC 5155's definition.  Always true for [wrap_covers_rfc]. *)
Definition right_cover (h : name -> list byte)
           (WC : label -> label -> list byte -> list byte -> bool) (ps : list pair) (t : name) : bool :=
  match find_cover WC ps (h t) (b32 (h t)) with
  | Some p => covers1 wrap_covers_rfc (h t) (b32 (h t)) p
  | None => true
  end.
Definition matched (h : name -> list byte) (ps : list pair) (t : name) : bool :=
  existsb (fun p => label_eqb (fst p) (b32 (h t))) ps.
(* some ancestor of q that a record matches (a possible closest encloser) has a wrongly covered
   next closer name or (with [wc]) wildcard *)
Definition known_wrap_encloser (h : name -> list byte)
           (WC : label -> label -> list byte -> list byte -> bool) (ps : list pair) (wc : bool) (q : name) : bool :=
  existsb (fun i => matched h ps (skipn i q) &&
                    negb (right_cover h WC ps (skipn (i - 1) q) &&
                          (negb wc || right_cover h WC ps ([42] :: skipn i q))))
          (seq 1 (length q)).
