(* C09 — boolean versions of the specification predicates with their reflection lemmas, so that
   the hypotheses of the soundness theorems can be discharged by evaluation on the concrete
   witnesses (Examples of non-vacuity, refutations of the unguarded statements). *)
From HV Require Import Lib.Base C09.Model C09.B32Proofs.
Open Scope N_scope.

Lemma raw_name_eqb_eq a b : raw_name_eqb a b = true <-> a = b.
Proof. apply list_eqb_eq. intros x y. apply bytes_eqb_eq. Qed.

Definition inb (n : name) (l : list name) : bool := existsb (raw_name_eqb n) l.
Lemma inb_In n l : inb n l = true <-> In n l.
Proof.
  unfold inb. rewrite existsb_exists. split.
  - intros (x & Hx & E). apply raw_name_eqb_eq in E. now subst.
  - intros Hin. exists n. split; [exact Hin|]. now apply raw_name_eqb_eq.
Qed.
Lemma inb_false n l : inb n l = false <-> ~ In n l.
Proof. rewrite <- inb_In. destruct (inb n l); split; congruence. Qed.

Fixpoint nodupb (l : list name) : bool :=
  match l with [] => true | x :: l' => negb (inb x l') && nodupb l' end.
Lemma nodupb_NoDup l : nodupb l = true -> NoDup l.
Proof.
  induction l as [|x l IH]; cbn; [constructor|]. rewrite andb_true_iff, negb_true_iff, inb_false.
  intros [Hx Hl]. constructor; auto.
Qed.

Lemma nodup_fst_unique {A B} (l : list (A * B)) a b1 b2 :
  NoDup (map fst l) -> In (a, b1) l -> In (a, b2) l -> b1 = b2.
Proof.
  induction l as [|[x y] l IH]; cbn [map fst]; intros Hnd H1 H2; [contradiction|].
  inversion Hnd as [|? ? Hx Hnd']; subst.
  destruct H1 as [E1|H1], H2 as [E2|H2].
  - congruence.
  - inversion E1; subst. exfalso. apply Hx. apply in_map_iff. now exists (a, b2).
  - inversion E2; subst. exfalso. apply Hx. apply in_map_iff. now exists (a, b1).
  - now apply IH.
Qed.

(* --- zones ------------------------------------------------------------------------------------ *)

Definition wf_zoneb (z : zone) : bool :=
  let ns := z_names z in
  let ap := z_apex z in
  inb ap ns &&
  forallb (fun n => raw_name_eqb (lower_name n) n && (length ap <=? length n)%nat &&
                    raw_name_eqb (skipn (length n - length ap) n) ap) ns &&
  forallb (fun n => raw_name_eqb n ap || match n with [] => false | _ :: p => inb p ns end) ns &&
  nodupb ns.

Lemma wf_zoneb_ok z : wf_zoneb z = true -> wf_zone z.
Proof.
  unfold wf_zoneb. cbv zeta. rewrite !andb_true_iff. intros [[[Hap Hsuf] Hcl] Hnd].
  rewrite forallb_forall in Hsuf, Hcl. repeat split.
  - now apply inb_In.
  - specialize (Hsuf n H). rewrite !andb_true_iff in Hsuf. destruct Hsuf as [[E _] _].
    now apply raw_name_eqb_eq.
  - specialize (Hsuf n H). rewrite !andb_true_iff in Hsuf. destruct Hsuf as [[_ _] E].
    apply raw_name_eqb_eq in E. exists (firstn (length n - length (z_apex z)) n).
    rewrite <- E at 2. symmetry. apply firstn_skipn.
  - intros l n Hin Hne. specialize (Hcl _ Hin). apply orb_true_iff in Hcl. destruct Hcl as [E|E].
    + apply raw_name_eqb_eq in E. contradiction.
    + now apply inb_In.
  - intros n t1 t2. apply nodup_fst_unique. now apply nodupb_NoDup.
Qed.

(* --- covering ---------------------------------------------------------------------------------- *)

Definition rfc_coversb (o nx t : list byte) : bool :=
  if is_lt (bytes_cmp o nx)
  then is_lt (bytes_cmp o t) && is_lt (bytes_cmp t nx)
  else is_lt (bytes_cmp o t) || is_lt (bytes_cmp t nx).

Lemma is_lt_iff c : is_lt c = true <-> c = Lt.
Proof. destruct c; cbn; split; congruence. Qed.

Lemma rfc_coversb_iff o nx t : rfc_coversb o nx t = true <-> rfc_covers o nx t.
Proof.
  unfold rfc_coversb, rfc_covers. destruct (bytes_cmp o nx) eqn:E; cbn [is_lt].
  - rewrite orb_true_iff, !is_lt_iff. split; [intros Hx; right; split; [congruence|exact Hx]|].
    intros [[Hl _]|[_ Hx]]; [congruence|exact Hx].
  - rewrite andb_true_iff, !is_lt_iff. split; [intros Hx; left; split; [reflexivity|exact Hx]|].
    intros [[_ Hx]|[Hn _]]; [exact Hx|congruence].
  - rewrite orb_true_iff, !is_lt_iff. split; [intros Hx; right; split; [congruence|exact Hx]|].
    intros [[Hl _]|[_ Hx]]; [congruence|exact Hx].
Qed.

Lemma types_eqb_eq (a b : list N) : list_eqb N.eqb a b = true <-> a = b.
Proof. apply list_eqb_eq. intros x y. apply N.eqb_eq. Qed.

Section Dec.
  Variable h : name -> list byte.

  Definition genuineb (z : zone) (salt : list byte) (iter : N) (r : nsec3) : bool :=
    match n3_owner r with
    | [] => false
    | l :: base =>
        existsb (fun nd => label_eqb l (b32 (h (fst nd))) && list_eqb N.eqb (n3_types r) (snd nd) &&
                           forallb (fun m => negb (rfc_coversb (h (fst nd)) (n3_next r) (h m))) (z_names z))
                (z_nodes z) &&
        name_eqb base (z_apex z) && (n3_alg r =? 1) && bytes_eqb (n3_salt r) salt && (n3_iter r =? iter) &&
        existsb (fun n' => bytes_eqb (n3_next r) (h n')) (z_names z)
    end.

  Lemma genuineb_ok z salt iter r : genuineb z salt iter r = true -> genuine h z salt iter r.
  Proof.
    unfold genuineb. destruct (n3_owner r) as [|l base] eqn:Eo; [discriminate|].
    rewrite !andb_true_iff. intros [[[[[Hex Hb] Ha] Hs] Hi] Hn].
    apply existsb_exists in Hex. destruct Hex as ([n ts] & Hin & Hx). cbn [fst snd] in Hx.
    rewrite !andb_true_iff in Hx. destruct Hx as [[Hl Ht] Hgap].
    apply existsb_exists in Hn. destruct Hn as (n' & Hn' & En').
    exists n, ts, l, base. repeat split; try assumption.
    - now apply types_eqb_eq.
    - now apply N.eqb_eq.
    - now apply bytes_eqb_eq.
    - now apply N.eqb_eq.
    - exists n'. split; [exact Hn'|]. now apply bytes_eqb_eq.
    - intros m Hm Hc. rewrite forallb_forall in Hgap. specialize (Hgap m Hm).
      apply negb_true_iff in Hgap. apply rfc_coversb_iff in Hc. congruence.
  Qed.

  Lemma genuineb_all z salt iter rs :
    forallb (genuineb z salt iter) rs = true -> Forall (genuine h z salt iter) rs.
  Proof.
    intros Hf. rewrite forallb_forall in Hf. apply Forall_forall. intros r Hr. apply genuineb_ok. now apply Hf.
  Qed.

  Definition collision_freeb (ns : list name) : bool :=
    forallb (fun a => forallb (fun b => negb (bytes_eqb (h a) (h b)) || raw_name_eqb a b) ns) ns.

  Lemma collision_freeb_ok ns : collision_freeb ns = true -> collision_free h ns.
  Proof.
    unfold collision_freeb, collision_free. intros Hf a b Ha Hb E. rewrite forallb_forall in Hf.
    specialize (Hf a Ha). rewrite forallb_forall in Hf. specialize (Hf b Hb).
    apply orb_true_iff in Hf. destruct Hf as [Hf|Hf]; [|now apply raw_name_eqb_eq].
    apply negb_true_iff in Hf. assert (bytes_eqb (h a) (h b) = true) by now apply bytes_eqb_eq. congruence.
  Qed.
End Dec.

(* --- table hashes -------------------------------------------------------------------------------- *)

Definition table_okb (tbl : list (name * list byte)) : bool :=
  forallb (fun e => (length (snd e) =? 20)%nat && forallb (fun b => b <? 256) (snd e)) tbl.

Lemma table_hash_ok tbl salt iter : table_okb tbl = true -> hash_ok (Htab tbl salt iter).
Proof.
  intros Hok n. unfold Htab. destruct (find _ tbl) as [e|] eqn:Ef.
  - apply find_some in Ef. destruct Ef as [Hin _]. unfold table_okb in Hok. rewrite forallb_forall in Hok.
    specialize (Hok e Hin). apply andb_true_iff in Hok. destruct Hok as [Hl Hb].
    split; [now apply Nat.eqb_eq|]. apply Forall_forall. intros b Hbin. rewrite forallb_forall in Hb.
    now apply N.ltb_lt, Hb.
  - split; [reflexivity|]. unfold zeros20. apply Forall_forall. intros b Hb. apply repeat_spec in Hb. subst. lia.
Qed.

(* --- claims (necessary conditions, for refutations) ----------------------------------------------- *)

Definition encloserb (z : zone) (q : name) (k : nat) : bool :=
  (k <=? length q)%nat && inb (skipn k q) (z_names z) &&
  forallb (fun j => negb (inb (skipn j q) (z_names z))) (seq 0 k).

Lemma encloser_b z q k : encloser z q k -> encloserb z q k = true.
Proof.
  intros (Hk & Hin & Hall). unfold encloserb. rewrite !andb_true_iff. repeat split.
  - now apply Nat.leb_le.
  - now apply inb_In.
  - apply forallb_forall. intros j Hj. apply in_seq in Hj. apply negb_true_iff, inb_false. apply Hall. lia.
Qed.

Definition nx_claimb (z : zone) (q : name) : bool :=
  existsb (fun k => encloserb z q k && negb (inb (star (skipn k q)) (z_names z))) (seq 1 (length q)).

Lemma nx_claim_b z q : nx_claim z q -> nx_claimb z q = true.
Proof.
  intros (k & Hk & Henc & Hw). unfold nx_claimb. apply existsb_exists. exists k. split.
  - apply in_seq. destruct Henc as (Hle & _). lia.
  - rewrite (encloser_b _ _ _ Henc). cbn. now apply negb_true_iff, inb_false.
Qed.

Definition lacksb (ts : list N) (t : N) : bool := negb (existsb (N.eqb t) ts).
Lemma lacks_b ts t : lacks ts t -> lacksb ts t = true.
Proof.
  unfold lacks, lacksb. intros Hn. apply negb_true_iff. apply not_true_iff_false. intros Hx.
  apply existsb_exists in Hx. destruct Hx as (x & Hin & E). apply N.eqb_eq in E. subst. contradiction.
Qed.

Definition node_lacksb (z : zone) (n : name) (qtype : N) : bool :=
  existsb (fun nd => raw_name_eqb (fst nd) n && lacksb (snd nd) qtype && lacksb (snd nd) T_CNAME) (z_nodes z).

Definition nodata_claimb (z : zone) (q : name) (qtype : N) : bool :=
  node_lacksb z q qtype ||
  existsb (fun k => encloserb z q k && node_lacksb z (star (skipn k q)) qtype) (seq 1 (length q)).

Lemma nodata_claim_b z q qtype : nodata_claim z q qtype -> nodata_claimb z q qtype = true.
Proof.
  unfold nodata_claimb. intros [(ts & Hin & H1 & H2)|(k & ts & Hk & Henc & Hin & H1 & H2)]; apply orb_true_iff.
  - left. apply existsb_exists. exists (q, ts). split; [exact Hin|]. cbn [fst snd].
    rewrite (proj2 (raw_name_eqb_eq q q) eq_refl), (lacks_b _ _ H1), (lacks_b _ _ H2). reflexivity.
  - right. apply existsb_exists. exists k. split.
    + apply in_seq. destruct Henc as (Hle & _). lia.
    + rewrite (encloser_b _ _ _ Henc). cbn [andb]. apply existsb_exists. exists (star (skipn k q), ts).
      split; [exact Hin|]. cbn [fst snd].
      rewrite (proj2 (raw_name_eqb_eq _ _) eq_refl), (lacks_b _ _ H1), (lacks_b _ _ H2). reflexivity.
Qed.

Definition in_zoneb (z : zone) (n : name) : bool :=
  (length (z_apex z) <=? length n)%nat && raw_name_eqb (skipn (length n - length (z_apex z)) n) (z_apex z).

Lemma in_zone_b z n : in_zone z n -> in_zoneb z n = true.
Proof.
  intros (pre & ->). unfold in_zoneb. rewrite app_length. apply andb_true_iff. split; [apply Nat.leb_le; lia|].
  apply raw_name_eqb_eq. replace (length pre + length (z_apex z) - length (z_apex z))%nat with (length pre) by lia.
  rewrite skipn_app, Nat.sub_diag, skipn_all. reflexivity.
Qed.

Definition wildcard_answer_claimb (z : zone) (q : name) (w : nat) : bool :=
  (w <? length q)%nat && in_zoneb z (skipn (length q - S w) q) &&
  forallb (fun j => negb (inb (skipn j q) (z_names z))) (seq 0 (S (length q - S w))).

Lemma wildcard_answer_claim_b z q w : wildcard_answer_claim z q w -> wildcard_answer_claimb z q w = true.
Proof.
  intros (Hw & Hz & Hall). unfold wildcard_answer_claimb. rewrite !andb_true_iff. repeat split.
  - now apply Nat.ltb_lt.
  - now apply in_zone_b.
  - apply forallb_forall. intros j Hj. apply in_seq in Hj. apply negb_true_iff, inb_false. apply Hall. lia.
Qed.
