(* C09 — what a matching / covering decision of the code means for a genuine record of a zone:
   a match identifies the name (modulo digest collisions), a cover (per RFC 5155) excludes the
   target from the zone. *)
From HV Require Import Lib.Base C09.Model C09.B32Proofs C09.LimitProofs.
Open Scope N_scope.

Lemma find_some_in {A} (f : A -> bool) l x : find f l = Some x -> In x l /\ f x = true.
Proof. apply find_some. Qed.

Lemma find_map_some {A B} (f : A -> option B) l y :
  find_map f l = Some y -> exists x, In x l /\ f x = Some y.
Proof.
  induction l as [|x l IH]; cbn; [discriminate|].
  destruct (f x) as [y'|] eqn:E.
  - intros Hy; inversion Hy; subst. exists x. auto.
  - intros Hy. destruct (IH Hy) as (x' & Hin & Hx). exists x'. auto.
Qed.

Lemma find_idx_some {A} (f : A -> bool) l : forall i k,
  find_idx f i l = Some k -> (i <= k < i + length l)%nat /\ forall d, f (nth (k - i) l d) = true.
Proof.
  induction l as [|x l IH]; intros i k; cbn [find_idx]; [discriminate|].
  destruct (f x) eqn:E.
  - intros Hk; inversion Hk; subst. cbn [length]. split; [lia|]. intros d. now rewrite Nat.sub_diag.
  - intros Hk. destruct (IH _ _ Hk) as [Hr Hf]. cbn [length]. split; [lia|].
    intros d. replace (k - i)%nat with (S (k - S i)) by lia. cbn [nth]. apply Hf.
Qed.

Lemma lower_name_skipn k q : lower_name (skipn k q) = skipn k (lower_name q).
Proof. unfold lower_name. now rewrite skipn_map. Qed.

Lemma lc_idem b : lc (lc b) = lc b.
Proof.
  unfold lc. destruct ((65 <=? b) && (b <=? 90)) eqn:E; [|now rewrite E].
  apply andb_true_iff in E. destruct E as [E1 E2]. apply N.leb_le in E1, E2.
  assert ((65 <=? b + 32) && (b + 32 <=? 90) = false) as ->; [|reflexivity].
  apply andb_false_iff. right. apply N.leb_gt. lia.
Qed.

Lemma lower_name_idem n : lower_name (lower_name n) = lower_name n.
Proof.
  unfold lower_name. rewrite map_map. apply map_ext. intros l. rewrite map_map. apply map_ext.
  apply lc_idem.
Qed.

Lemma lower_star n : lower_name (star n) = star (lower_name n).
Proof. reflexivity. Qed.

(* --- suffixes ---------------------------------------------------------------------------- *)

Lemma suffixes_skipn q k : (k <= length q)%nat -> In (skipn k q) (suffixes q).
Proof.
  revert k; induction q as [|l q IH]; intros k Hk.
  - destruct k; cbn; auto.
  - destruct k as [|k]; cbn [skipn suffixes]; [now left|]. right. apply IH. cbn in Hk. lia.
Qed.

Lemma relevant_suffix q k : (k <= length q)%nat -> In (skipn k q) (relevant q).
Proof. intros Hk. apply in_or_app. left. now apply suffixes_skipn. Qed.

Lemma relevant_star q k : (k <= length q)%nat -> In (star (skipn k q)) (relevant q).
Proof. intros Hk. apply in_or_app. right. apply in_map. now apply suffixes_skipn. Qed.

(* --- candidates --------------------------------------------------------------------------- *)

Lemma cand_loop_nth soa : forall fuel cur j d,
  (j < length (cand_loop fuel cur soa))%nat -> nth j (cand_loop fuel cur soa) d = skipn j cur.
Proof.
  induction fuel as [|fuel IH]; intros cur j d Hj; cbn [cand_loop] in *; [cbn in Hj; lia|].
  destruct j as [|j]; [reflexivity|].
  cbn [nth]. destruct (name_eqb cur soa); cbn [length] in Hj; [lia|].
  rewrite IH by lia. unfold base_name. destruct cur; [now rewrite skipn_nil|reflexivity].
Qed.

Lemma cand_loop_length soa : forall fuel cur, (length (cand_loop fuel cur soa) <= fuel)%nat.
Proof.
  induction fuel as [|fuel IH]; intros cur; cbn [cand_loop length]; [lia|].
  destruct (name_eqb cur soa); cbn [length]; [lia|]. specialize (IH (base_name cur)). lia.
Qed.

Section Cover.
  Variable h : name -> list byte.
  Variable WC : label -> label -> list byte -> list byte -> bool.
  Hypothesis Hh : hash_ok h.

  Lemma h_len n : length (h n) = (5 * 4)%nat.
  Proof. apply Hh. Qed.
  Lemma h_ok n : bytes_ok (h n).
  Proof. apply Hh. Qed.

  Lemma b32_h_cmp a b : label_cmp (b32 (h a)) (b32 (h b)) = bytes_cmp (h a) (h b).
  Proof. apply (b32_cmp _ _ 4); auto using h_ok, h_len. Qed.

  Lemma next_b32_h r n : n3_next r = h n -> next_b32 r = Some (b32 (h n)).
  Proof.
    intros E. unfold next_b32. rewrite E. rewrite (b32_length _ 4) by apply h_len. reflexivity.
  Qed.

  (* a pair as produced by mk_pairs from a genuine record *)
  Definition gpair (z : zone) (salt : list byte) (iter : N) (p : pair) : Prop :=
    exists n ts n',
      In (n, ts) (z_nodes z) /\ label_eqb (fst p) (b32 (h n)) = true /\
      n3_types (snd p) = ts /\ In n' (z_names z) /\ n3_next (snd p) = h n' /\
      (forall m, In m (z_names z) -> ~ rfc_covers (h n) (n3_next (snd p)) (h m)).

  Lemma genuine_pairs z salt iter soa rs ps :
    Forall (genuine h z salt iter) rs -> mk_pairs soa rs = Some ps -> Forall (gpair z salt iter) ps.
  Proof.
    intros Hg Hm. destruct (mk_pairs_some _ _ _ Hm) as (_ & Hs & Ho).
    rewrite Forall_forall in *. intros p Hp.
    assert (In (snd p) rs) as Hr by (rewrite <- Hs; now apply in_map).
    destruct (Hg _ Hr) as (n & ts & l & base & Hn & Eo & El & _ & Et & _ & _ & _ & (n' & Hn' & En') & Hgap).
    specialize (Ho p Hp). cbn beta in Ho. rewrite Eo in Ho. inversion Ho; subst l.
    exists n, ts, n'. repeat split; assumption.
  Qed.

  (* a genuine record matching the digest of t: t is that record's name, unless digests collide *)
  Lemma match_exists z salt iter p t :
    gpair z salt iter p -> label_eqb (fst p) (b32 (h t)) = true ->
    exists n, In (n, n3_types (snd p)) (z_nodes z) /\ h n = h t.
  Proof.
    intros (n & ts & n' & Hn & El & Et & _) Em.
    exists n. split; [now rewrite Et|].
    apply (b32_eqb _ _ 4); auto using h_ok, h_len.
    apply (label_eqb_trans _ (fst p)); [now rewrite label_eqb_sym|exact Em].
  Qed.

  (* the code's covering test with the RFC wrap-around arm is the RFC interval on digests *)
  Lemma covers_rfc z salt iter p t :
    gpair z salt iter p -> covers1 wrap_covers_rfc (h t) (b32 (h t)) p = true ->
    exists n, In n (z_names z) /\ label_eqb (fst p) (b32 (h n)) = true /\
              rfc_covers (h n) (n3_next (snd p)) (h t).
  Proof.
    intros (n & ts & n' & Hn & El & Et & Hn' & En' & Hgap) Hc.
    exists n. split; [apply in_map_iff; now exists (n, ts)|]. split; [exact El|].
    unfold covers1 in Hc. rewrite (next_b32_h _ n' En') in Hc.
    destruct (label_eqb (fst p) (b32 (h t))) eqn:Em; [discriminate|].
    rewrite (label_cmp_eqb_l _ _ _ El) in Hc. rewrite (label_cmp_eqb_l _ _ (b32 (h t)) El) in Hc.
    rewrite !b32_h_cmp in Hc. rewrite En' in *.
    destruct (bytes_cmp (h n) (h n')) eqn:Eon; cbn [is_lt] in Hc.
    - right. split; [congruence|]. unfold wrap_covers_rfc in Hc.
      rewrite (label_cmp_eqb_l _ _ _ El), b32_h_cmp in Hc. apply orb_true_iff in Hc.
      destruct Hc as [Hc|Hc]; [left|right].
      + destruct (bytes_cmp (h n) (h t)); cbn in Hc; congruence.
      + destruct (bytes_cmp (h t) (h n')); cbn in Hc; congruence.
    - left. apply andb_true_iff in Hc. destruct Hc as [H1 H2]. split; [exact Eon|split].
      + destruct (bytes_cmp (h n) (h t)); cbn in H1; congruence.
      + destruct (bytes_cmp (h t) (h n')); cbn in H2; congruence.
    - right. split; [congruence|]. unfold wrap_covers_rfc in Hc.
      rewrite (label_cmp_eqb_l _ _ _ El), b32_h_cmp in Hc. apply orb_true_iff in Hc.
      destruct Hc as [Hc|Hc]; [left|right].
      + destruct (bytes_cmp (h n) (h t)); cbn in Hc; congruence.
      + destruct (bytes_cmp (h t) (h n')); cbn in Hc; congruence.
  Qed.

  (* hence a name covered by a genuine record is not in the zone *)
  Lemma covered_absent z salt iter p t :
    gpair z salt iter p -> covers1 wrap_covers_rfc (h t) (b32 (h t)) p = true -> ~ In t (z_names z).
  Proof.
    intros Hg Hc Hin. pose proof Hg as (n & ts & n' & Hn & El & Et & Hn' & En' & Hgap).
    destruct (covers_rfc _ _ _ _ _ Hg Hc) as (n2 & Hn2 & El2 & Hcov).
    assert (h n2 = h n) as E.
    { apply (b32_eqb _ _ 4); auto using h_ok, h_len.
      apply (label_eqb_trans _ (fst p)); [now rewrite label_eqb_sym|exact El]. }
    rewrite E in Hcov. exact (Hgap t Hin Hcov).
  Qed.

  (* with the code's wrap-around arm, outside the class of wrong covers *)
  Lemma find_cover_absent z salt iter ps t p :
    Forall (gpair z salt iter) ps -> right_cover h WC ps t = true ->
    find_cover WC ps (h t) (b32 (h t)) = Some p -> ~ In t (z_names z).
  Proof.
    intros Hg Hw Hf. destruct (find_some_in _ _ _ Hf) as [Hp Hc].
    rewrite Forall_forall in Hg. apply (covered_absent z salt iter p t (Hg p Hp)).
    unfold right_cover in Hw. now rewrite Hf in Hw.
  Qed.

  (* the class of wrong covers is empty once the wrap-around arm is the RFC's *)
  Lemma right_cover_rfc ps t : right_cover h wrap_covers_rfc ps t = true.
  Proof.
    unfold right_cover. destruct (find_cover wrap_covers_rfc ps (h t) (b32 (h t))) as [p|] eqn:E; [|reflexivity].
    now destruct (find_some_in _ _ _ E).
  Qed.

  Lemma known_wrap_encloser_rfc ps wc q : known_wrap_encloser h wrap_covers_rfc ps wc q = false.
  Proof.
    unfold known_wrap_encloser. apply not_true_iff_false. intros Hx. apply existsb_exists in Hx.
    destruct Hx as (i & _ & Hx). rewrite !right_cover_rfc in Hx. rewrite orb_true_r in Hx. cbn in Hx.
    now rewrite andb_false_r in Hx.
  Qed.

  Lemma known_wrap_encloser_false ps wc q i :
    known_wrap_encloser h WC ps wc q = false -> (1 <= i <= length q)%nat -> matched h ps (skipn i q) = true ->
    right_cover h WC ps (skipn (i - 1) q) = true /\ (wc = true -> right_cover h WC ps (star (skipn i q)) = true).
  Proof.
    intros Hk Hi Hm. unfold known_wrap_encloser in Hk.
    destruct (right_cover h WC ps (skipn (i - 1) q)) eqn:E1.
    - split; [reflexivity|]. intros ->. destruct (right_cover h WC ps (star (skipn i q))) eqn:E2; [reflexivity|].
      exfalso. apply not_true_iff_false in Hk. apply Hk. apply existsb_exists. exists i. split; [apply in_seq; lia|].
      unfold star in E2. now rewrite Hm, E1, E2.
    - exfalso. apply not_true_iff_false in Hk. apply Hk. apply existsb_exists. exists i. split; [apply in_seq; lia|].
      now rewrite Hm, E1.
  Qed.
End Cover.
