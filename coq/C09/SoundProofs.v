(* C09 — soundness of Secure verdicts against the zone the NSEC3 records genuinely come from. *)
From HV Require Import Lib.Base C09.Model C09.B32Proofs C09.LimitProofs C09.CoverProofs C09.ShapeProofs.
Open Scope N_scope.

Definition pair_of (r : nsec3) : pair := (hd [] (n3_owner r), r).

Lemma mk_pairs_map soa rs ps : mk_pairs soa rs = Some ps -> ps = map pair_of rs.
Proof.
  revert ps; induction rs as [|r rs IH]; intros ps Hm; cbn [mk_pairs] in Hm.
  - now inversion Hm.
  - destruct (n3_owner r) as [|l base] eqn:Eo; [discriminate|].
    destruct (match soa with Some s => negb (name_eqb base s) | None => false end); [discriminate|].
    destruct ((length l =? 0)%nat || (63 <? length l)%nat); [discriminate|].
    destruct (mk_pairs soa rs) as [ps'|]; [|discriminate].
    inversion Hm; subst. cbn [map]. unfold pair_of at 1. rewrite Eo. cbn [hd]. f_equal. now apply IH.
Qed.

Lemma skipn_step {A} (q : list A) j : (j < length q)%nat -> exists l, skipn j q = l :: skipn (S j) q.
Proof.
  revert j; induction q as [|x q IH]; intros j Hj; cbn in Hj; [lia|].
  destruct j as [|j]; [now exists x|]. cbn [skipn]. apply IH. lia.
Qed.

Section Sound.
  Variable H : list byte -> N -> name -> list byte.
  Variable WC : label -> label -> list byte -> list byte -> bool.
  Variable z : zone.
  Variable salt : list byte.
  Variable iter : N.
  Let h := H salt iter.
  Hypothesis Hh : hash_ok h.
  Hypothesis Hz : wf_zone z.

  Lemma in_zone_length n : In n (z_names z) -> (length (z_apex z) <= length n)%nat.
  Proof.
    intros Hin. destruct Hz as (_ & Hsuf & _). destruct (Hsuf _ Hin) as (_ & pre & ->).
    rewrite app_length. lia.
  Qed.

  (* existence propagates from a name to its ancestors, as long as they are below the apex *)
  Lemma climb q i : (i <= length q)%nat -> (length (z_apex z) <= length q - i)%nat ->
    forall d j, (j + d <= i)%nat -> In (skipn j q) (z_names z) -> In (skipn (j + d) q) (z_names z).
  Proof.
    intros Hi Hlen. destruct Hz as (_ & Hsuf & Hclosed & _).
    induction d as [|d IH]; intros j Hj Hin; [now rewrite Nat.add_0_r|].
    replace (j + S d)%nat with (S (j + d)) by lia.
    assert (In (skipn (j + d) q) (z_names z)) as Hin' by (apply IH; [lia|exact Hin]).
    destruct (skipn_step q (j + d) ltac:(lia)) as [l El]. rewrite El in Hin'.
    apply (Hclosed l); [exact Hin'|].
    intros Eap.
    assert (length (l :: skipn (S (j + d)) q) = length (z_apex z)) as Hl by now rewrite Eap.
    cbn [length] in Hl. rewrite !skipn_length in *. lia.
  Qed.

  Lemma encloser_from_proof q i :
    (1 <= i <= length q)%nat -> In (skipn i q) (z_names z) -> ~ In (skipn (i - 1) q) (z_names z) ->
    encloser z q i.
  Proof.
    intros Hi Hce Hnc. split; [lia|]. split; [exact Hce|].
    intros j Hj Hin. apply Hnc.
    replace (i - 1)%nat with (j + (i - 1 - j))%nat by lia.
    apply (climb q (i - 1)); try lia; try assumption.
    pose proof (in_zone_length _ Hce) as Hl. rewrite skipn_length in Hl. lia.
  Qed.

  Section Run.
    Variables (qname : name) (soa : option name) (ps : list pair).
    Hypothesis Hg : Forall (gpair h z salt iter) ps.
    Let cx := mkCtx qname soa ps salt iter.
    Let lq := lower_name qname.
    Hypothesis Hcf : collision_free h (z_names z ++ relevant lq).

    Lemma hashn_h n : hashn H cx n = h (lower_name n).
    Proof. reflexivity. Qed.

    (* a record matching the digest of a relevant name: that name is in the zone, with the
       record's bitmap *)
    Lemma matched_in_zone p t :
      In p ps -> In t (relevant lq) -> label_eqb (fst p) (b32 (h t)) = true ->
      In (t, n3_types (snd p)) (z_nodes z).
    Proof.
      intros Hp Ht Hm. rewrite Forall_forall in Hg.
      destruct (match_exists h Hh z salt iter p t (Hg p Hp) Hm) as (n & Hn & En).
      assert (n = t) as <-; [|exact Hn].
      apply Hcf; try assumption.
      - apply in_or_app. left. apply in_map_iff. now exists (n, n3_types (snd p)).
      - apply in_or_app. now right.
    Qed.

    Lemma covered_not_in_zone t p :
      right_cover h WC ps t = true -> find_cover WC ps (h t) (b32 (h t)) = Some p -> ~ In t (z_names z).
    Proof. intros Ht Hf. eapply find_cover_absent; eassumption. Qed.

    Lemma matched_of p t : In p ps -> label_eqb (fst p) (b32 (h t)) = true -> matched h ps t = true.
    Proof. intros Hp Hm. apply existsb_exists. now exists p. Qed.

    Lemma nx_sound :
      known_wrap_encloser h WC ps true lq = false ->
      validate_nxdomain H WC cx = R Secure -> nx_claim z lq.
    Proof.
      intros Hw Hs. destruct (nx_secure_shape H WC cx Hs) as (_ & i & mrec & ncr & wcr & Hi & Hin & Hm & Hnc & Hwc).
      cbn [c_qname cx] in *. unfold cover_of, lbl in *. cbn [c_pairs cx] in *. rewrite !hashn_h in *.
      rewrite lower_star in Hwc. rewrite !lower_name_skipn in *. fold lq in Hm, Hnc, Hwc.
      assert (length lq = length qname) as Ell by (unfold lq, lower_name; apply map_length).
      assert (In (skipn i lq) (z_names z)) as Hce.
      { apply in_map_iff. exists (skipn i lq, n3_types (snd mrec)). split; [reflexivity|].
        apply matched_in_zone; try assumption. apply relevant_suffix. lia. }
      destruct (known_wrap_encloser_false h WC ps true lq i Hw ltac:(lia) (matched_of _ _ Hin Hm)) as [Hr1 Hr2].
      assert (~ In (skipn (i - 1) lq) (z_names z)) as Hncabs.
      { eapply covered_not_in_zone; [exact Hr1|exact Hnc]. }
      exists i. split; [lia|]. split.
      - apply encloser_from_proof; try assumption. lia.
      - eapply covered_not_in_zone; [exact (Hr2 eq_refl)|exact Hwc].
    Qed.

    Lemma ndata_ce i mrec ncr :
      (1 <= i <= length qname)%nat -> In mrec ps ->
      label_eqb (fst mrec) (lbl H cx (skipn i qname)) = true ->
      cover_of H WC cx (skipn (i - 1) qname) = Some ncr ->
      known_wrap_encloser h WC ps false lq = false ->
      encloser z lq i.
    Proof.
      intros Hi Hin Hm Hnc Hw.
      unfold cover_of, lbl in *. cbn [c_pairs cx] in *. rewrite !hashn_h in *.
      rewrite !lower_name_skipn in *. fold lq in Hm, Hnc.
      assert (length lq = length qname) as Ell by (unfold lq, lower_name; apply map_length).
      apply encloser_from_proof; try lia.
      - apply in_map_iff. exists (skipn i lq, n3_types (snd mrec)). split; [reflexivity|].
        apply matched_in_zone; try assumption. apply relevant_suffix. lia.
      - destruct (known_wrap_encloser_false h WC ps false lq i Hw ltac:(lia) (matched_of _ _ Hin Hm)) as [Hr1 _].
        eapply covered_not_in_zone; [exact Hr1|exact Hnc].
    Qed.

    Lemma match_of_in_zone n qr :
      In (lower_name n) (relevant lq) -> match_of H cx n = Some qr ->
      In (lower_name n, n3_types (snd qr)) (z_nodes z).
    Proof.
      intros Hrel Hm. unfold match_of, find_match, lbl in Hm. cbn [c_pairs cx] in Hm. rewrite hashn_h in Hm.
      destruct (find_some_in _ _ _ Hm) as [Hin Hl]. now apply matched_in_zone.
    Qed.

    Lemma lq_relevant : In lq (relevant lq).
    Proof. apply (relevant_suffix lq 0). lia. Qed.

    (* NOERROR without RRSIGs among the answers *)
    Lemma nodata_sound qtype :
      ~ (soa_is cx qname = true /\ match_of H cx qname = None) ->
      known_wrap_encloser h WC ps false lq = false ->
      (qtype = T_DS -> right_cover h WC ps lq = true) ->
      validate_nodata H WC qtype None cx = R Secure ->
      nodata_claim z lq qtype \/ (qtype = T_DS /\ ~ In lq (z_names z)).
    Proof.
      intros Hapex Hw Hwq Hs. destruct (nodata_secure_shape H WC _ _ _ Hs)
        as [qr Hm Ht Hc | p Hm Hds Hcov Hoo | w p Hm Hwl _ _ | i mrec ncr wr Hm _ Hi Hin Hmm Hnc Hwm Ht Hc | Hm _ Hsoa];
        cbn [c_qname cx] in *.
      - left. left. exists (n3_types (snd qr)). split; [|split; assumption].
        apply (match_of_in_zone qname); [apply lq_relevant|exact Hm].
      - right. split; [exact Hds|].
        unfold cover_of, lbl in Hcov. cbn [c_pairs cx] in Hcov. rewrite hashn_h in Hcov.
        eapply covered_not_in_zone; [exact (Hwq Hds)|exact Hcov].
      - discriminate.
      - left. right. exists i, (n3_types (snd wr)).
        assert (length lq = length qname) as Ell by (unfold lq, lower_name; apply map_length).
        split; [lia|]. split; [eapply ndata_ce; eassumption|]. split; [|split; assumption].
        pose proof (match_of_in_zone (star (skipn i qname)) wr) as Hx.
        rewrite lower_star, lower_name_skipn in Hx. fold lq in Hx. apply Hx; [|exact Hwm].
        apply relevant_star. lia.
      - exfalso. apply Hapex. now split.
    Qed.

    Lemma num_labels_le n : (N.to_nat (num_labels n) <= length n)%nat.
    Proof.
      unfold num_labels. destruct n as [|l n]; [cbn; lia|]. destruct (bytes_eqb l [42]); cbn [length]; lia.
    Qed.

    Lemma last_labels_skipn k (n : name) : (k <= length n)%nat -> last_labels k n = skipn (length n - k) n.
    Proof. intros Hk. unfold last_labels. rewrite firstn_rev. apply rev_involutive. Qed.

    (* NOERROR with a wildcard-expanded answer: RRSIG label count w *)
    Lemma wildcard_answer_sound qtype w :
      match_of H cx qname = None ->
      ~ (qtype = T_DS /\ exists p, cover_of H WC cx qname = Some p /\ n3_optout (snd p) = true) ->
      in_zone z (skipn (length lq - S (N.to_nat w)) lq) ->
      right_cover h WC ps (skipn (length lq - S (N.to_nat w)) lq) = true ->
      validate_nodata H WC qtype (Some w) cx = R Secure ->
      wildcard_answer_claim z lq (N.to_nat w).
    Proof.
      intros Hnom Hnods Hinz Hw Hs. destruct (nodata_secure_shape H WC _ _ _ Hs)
        as [qr Hm _ _ | p Hm Hds Hcov Hoo | w' p Hm Hwl Hlt Hcov | i mrec ncr wr _ Hwl | _ Hwl _];
        cbn [c_qname cx] in *; try congruence.
      - exfalso. apply Hnods. split; [exact Hds|]. now exists p.
      - inversion Hwl; subst w'; clear Hwl.
        assert (length lq = length qname) as Ell by (unfold lq, lower_name; apply map_length).
        pose proof (num_labels_le qname) as Hnl.
        assert (S (N.to_nat w) <= length qname)%nat as Hk by lia.
        rewrite last_labels_skipn in Hcov by exact Hk.
        unfold cover_of, lbl in Hcov. cbn [c_pairs cx] in Hcov. rewrite hashn_h, lower_name_skipn in Hcov.
        fold lq in Hcov.
        assert (~ In (skipn (length qname - S (N.to_nat w)) lq) (z_names z)) as Habs.
        { eapply covered_not_in_zone; [|exact Hcov]. now rewrite Ell in Hw. }
        split; [lia|]. split; [exact Hinz|]. rewrite Ell in *. intros j Hj Hin. apply Habs.
        assert (length (z_apex z) <= S (N.to_nat w))%nat as Hzone.
        { destruct Hinz as (pre & Epre).
          assert (length (skipn (length qname - S (N.to_nat w)) lq) = (length pre + length (z_apex z))%nat) as Hl
            by (rewrite Epre; apply app_length).
          rewrite skipn_length in Hl. lia. }
        replace (length qname - S (N.to_nat w))%nat with (j + (length qname - S (N.to_nat w) - j))%nat by lia.
        apply (climb lq (length qname - S (N.to_nat w))); try lia. exact Hin.
    Qed.
  End Run.
End Sound.
