(* C15 — the statement of the property over whole histories. *)
From HV Require Import Lib.Base C15.Model C15.CacheProofs C15.TtlProofs.
Open Scope N_scope.

Lemma wf_hist_in h0 q r t h1 : wf_hist (h0 ++ OIns q r t :: h1) -> wf_res r.
Proof.
  unfold wf_hist. rewrite Forall_forall. intros H.
  apply (H (OIns q r t)). apply in_or_app. right. now left.
Qed.

(* soundness of a hit *)
Lemma hit_sound c h q t r : wf_cfg c -> wf_hist h ->
  get (after c h) q t = Some r ->
  exists h0 res t0 h1 L,
    h = h0 ++ OIns q res t0 :: h1 /\ untouched q h1 /\ cacheable res = true /\
    lifetime_of c q res L /\ t <= t0 + L /\ r = countdown c res (whole_secs t0 t).
Proof.
  intros Hc Hw Hg. apply get_some in Hg. destruct Hg as (e & Hl & Hle & ->).
  rewrite lookup_after in Hl.
  destruct (view_from_inv c q h (writes_ok_wf c h Hc) None e Hl) as [[Hn _]|(h0 & res & ti & h1 & -> & Hu & He)];
    [discriminate|].
  pose proof (entry_for_cacheable _ _ _ _ _ He) as Hca.
  destruct (entry_for_ok c q res ti Hc Hca) as (L & HL & He').
  rewrite He in He'. inversion He'; subst e; clear He'.
  exists h0, res, ti, h1, L. cbn [vu] in Hle.
  repeat split; try assumption.
  apply updated_countdown; [exact Hc|exact (wf_hist_in _ _ _ _ _ Hw)|exact Hca].
Qed.

(* completeness: an untouched insertion is served during its whole lifetime *)
Lemma hit_complete c h0 q res ti h1 t L : wf_cfg c -> wf_res res -> cacheable res = true ->
  untouched q h1 -> lifetime_of c q res L -> t <= ti + L ->
  get (after c (h0 ++ OIns q res ti :: h1)) q t = Some (countdown c res (whole_secs ti t)).
Proof.
  intros Hc Hw Hca Hu HL Hle.
  destruct (entry_for_ok c q res ti Hc Hca) as (L' & HL' & He).
  assert (L' = L) as ->.
  { destruct res as [m|n|k]; cbn [lifetime_of] in *; [|congruence|contradiction].
    exact (is_lifetime_unique _ _ _ _ _ HL' HL). }
  apply get_some. eexists. split; [|split].
  - rewrite lookup_after. apply view_from_last_insert; [exact Hu|exact He].
  - cbn [vu]. exact Hle.
  - symmetry. now apply updated_countdown.
Qed.

(* ... and not one nanosecond longer *)
Lemma miss_after_expiry c h0 q res ti h1 t L : wf_cfg c -> cacheable res = true ->
  untouched q h1 -> lifetime_of c q res L -> ti + L < t ->
  get (after c (h0 ++ OIns q res ti :: h1)) q t = None.
Proof.
  intros Hc Hca Hu HL Hlt.
  destruct (entry_for_ok c q res ti Hc Hca) as (L' & HL' & He).
  assert (L' = L) as ->.
  { destruct res as [m|n|k]; cbn [lifetime_of] in *; [|congruence|contradiction].
    exact (is_lifetime_unique _ _ _ _ _ HL' HL). }
  unfold get. rewrite lookup_after, (view_from_last_insert c q h0 res ti h1 _ None Hu He). cbn [vu].
  destruct (N.leb_spec t (ti + L)); [lia|reflexivity].
Qed.

(* between refreshes TTLs only count down *)
Lemma monotone c h h' q t1 t2 r1 r2 : untouched q h' -> t1 <= t2 ->
  get (after c h) q t1 = Some r1 -> get (after c (h ++ h')) q t2 = Some r2 -> res_le r2 r1.
Proof.
  intros Hu Ht H1 H2. apply get_some in H1, H2.
  destruct H1 as (e1 & Hl1 & _ & ->). destruct H2 as (e2 & Hl2 & _ & ->).
  rewrite lookup_after in Hl1, Hl2. rewrite view_from_app, Hl1 in Hl2.
  rewrite (view_from_untouched c q h' Hu) in Hl2. inversion Hl2; subst e2.
  apply updated_mono; [|exact Ht].
  apply (store_ok_lookup (after c h) q); [unfold after; apply store_ok_run; constructor|].
  now rewrite lookup_after.
Qed.

(* no panic under ordered bounds *)
Lemma run_no_panic c h : wf_cfg c -> forall s, ~ In VPanic (snd (run c s h)).
Proof.
  intros Hc. induction h as [|o h IH]; intros s; cbn [run]; [intros []|].
  destruct (step c s o) as [s1 v] eqn:Es. specialize (IH s1). destruct (run c s1 h) as [s2 vs].
  cbn [snd] in *. intros [Hv|Hi]; [|contradiction]. subst v.
  destruct o as [q r t|q t| |q]; cbn [step] in Es; try (inversion Es; fail).
  rewrite insert_entry_for in Es.
  destruct (cacheable r) eqn:Hca.
  - destruct (entry_for_ok c q r t Hc Hca) as (L & _ & He). rewrite He in Es. inversion Es.
  - rewrite (entry_for_not_cacheable c q r t Hca) in Es. inversion Es.
Qed.
