(* C15 — model of the resolver response cache (crates/resolver/src/cache.rs):
   TtlConfig bounds lookup, ResponseCache::insert (clamp_positive_ttls, negative clamp,
   which results are stored), Entry::is_current / updated_ttl, ResponseCache::get,
   clear / clear_query, and the negative-TTL derivation of
   DnsResponse::negative_ttl (crates/proto/src/op/dns_response.rs).
   Durations and instants are natural numbers of NANOSECONDS (std::time::Duration has
   nanosecond resolution; Instant arithmetic is assumed not to overflow), record TTLs
   are seconds (u32).  Panics of Ord::clamp (min > max) are explicit.  The store is the
   moka cache seen as a finite map; moka dropping an entry on its own (eviction) is the
   history operation [ODrop].  No proofs in this file. *)
From HV Require Import Lib.Base.
Open Scope N_scope.

(* ------------------------------------------------------------------ *)
(* Configuration                                                       *)
(* ------------------------------------------------------------------ *)

Definition NS : N := 1000000000.          (* nanoseconds per second *)
Definition MAX_TTL : N := 86400.          (* cache.rs: pub const MAX_TTL *)
Definition U32MAX : N := 4294967295.
Definition CNAME : N := 5.                (* RecordType::CNAME *)

(* TtlBounds: four optional Durations (ns) *)
Record bounds := B { pmin : option N; nmin : option N; pmax : option N; nmax : option N }.
(* TtlConfig: default + HashMap<RecordType, TtlBounds> (association list, first match) *)
Record cfg := Cfg { dflt : bounds; by_type : list (N * bounds) }.

Fixpoint assoc {A} (k : N) (l : list (N * A)) : option A :=
  match l with
  | [] => None
  | (k', v) :: l' => if N.eqb k k' then Some v else assoc k l'
  end.

Definition bounds_for (c : cfg) (ty : N) : bounds :=
  match assoc ty (by_type c) with Some b => b | None => dflt c end.

Definition odflt (o : option N) (d : N) : N := match o with Some x => x | None => d end.

(* positive_response_ttl_bounds / negative_response_ttl_bounds: (min, max) as Durations *)
Definition pos_bounds (c : cfg) (ty : N) : N * N :=
  let b := bounds_for c ty in (odflt (pmin b) 0, odflt (pmax b) (MAX_TTL * NS)).
Definition neg_bounds (c : cfg) (ty : N) : N * N :=
  let b := bounds_for c ty in (odflt (nmin b) 0, odflt (nmax b) (MAX_TTL * NS)).

(* u32::try_from(d.as_secs()).unwrap_or(MAX_TTL) *)
Definition u32_or_max (s : N) : N := if s <=? U32MAX then s else MAX_TTL.
Definition pos_bounds_secs (c : cfg) (ty : N) : N * N :=
  let '(lo, hi) := pos_bounds c ty in (u32_or_max (lo / NS), u32_or_max (hi / NS)).

(* Ord::clamp: assert!(min <= max) then the two comparisons; None = panic *)
Definition clamp (lo hi x : N) : option N :=
  if hi <? lo then None
  else Some (if x <? lo then lo else if hi <? x then hi else x).

(* ------------------------------------------------------------------ *)
(* Messages and results                                                *)
(* ------------------------------------------------------------------ *)

(* a record as far as the cache looks at it: type code and TTL (seconds) *)
Record rr := RR { rty : N; rttl : N }.
Record msg := Msg { ans : list rr; auth : list rr; addl : list rr }.

(* NoRecords: the four TTL-carrying fields (negative_ttl, soa, authorities, ns+glue) *)
Record neg := Neg { nttl : option N; nsoa : option N; nauth : option (list N);
                    nns : option (list (N * list N)) }.

Inductive result :=
| ROk (m : msg)
| RNoRec (n : neg)        (* NetError::Dns(DnsError::NoRecordsFound(_)) *)
| RErr (kind : N).        (* every other NetError *)

(* for record in answers ++ authorities ++ additionals: ttl.clamp(bounds_secs(own type)) *)
Fixpoint clamp_rrs (c : cfg) (l : list rr) : option (list rr) :=
  match l with
  | [] => Some []
  | r :: l' =>
      let '(lo, hi) := pos_bounds_secs c (rty r) in
      match clamp lo hi (rttl r), clamp_rrs c l' with
      | Some t, Some l'' => Some (RR (rty r) t :: l'')
      | _, _ => None
      end
  end.

Definition matches (qt : N) (r : rr) : bool := N.eqb (rty r) qt || N.eqb (rty r) CNAME.

(* .filter(matches).map(ttl).min() *)
Fixpoint min_ttl (qt : N) (l : list rr) : option N :=
  match l with
  | [] => None
  | r :: l' =>
      if matches qt r then
        match min_ttl qt l' with Some m => Some (N.min (rttl r) m) | None => Some (rttl r) end
      else min_ttl qt l'
  end.

Definition sections (m : msg) : list rr := ans m ++ auth m ++ addl m.

(* ResponseCache::clamp_positive_ttls: (cache duration, message with clamped TTLs) *)
Definition clamp_positive (c : cfg) (qt : N) (m : msg) : option (N * msg) :=
  match clamp_rrs c (ans m), clamp_rrs c (auth m), clamp_rrs c (addl m) with
  | Some a, Some b, Some d =>
      let m' := Msg a b d in
      let '(lo, hi) := pos_bounds c qt in
      let base := match min_ttl qt (sections m') with Some s => s * NS | None => lo end in
      match clamp lo hi base with
      | Some L => Some (L, m')
      | None => None
      end
  | _, _, _ => None
  end.

(* ------------------------------------------------------------------ *)
(* The cache                                                           *)
(* ------------------------------------------------------------------ *)

(* Query as a key: (name id, query type) *)
Definition key := (N * N)%type.
Definition key_eqb (a b : key) : bool := N.eqb (fst a) (fst b) && N.eqb (snd a) (snd b).
Definition qtype (q : key) : N := snd q.

Record entry := E { eres : result; t0 : N; vu : N }.   (* result, original_time, valid_until *)
Definition store := list (key * entry).

Fixpoint lookup (q : key) (s : store) : option entry :=
  match s with
  | [] => None
  | (k, e) :: s' => if key_eqb q k then Some e else lookup q s'
  end.
Fixpoint remove (q : key) (s : store) : store :=
  match s with
  | [] => []
  | (k, e) :: s' => if key_eqb q k then remove q s' else (k, e) :: remove q s'
  end.
Definition upsert (q : key) (e : entry) (s : store) : store := (q, e) :: remove q s.

Inductive outcome := Done (s : store) | Panic.

(* ResponseCache::insert *)
Definition insert (c : cfg) (s : store) (q : key) (r : result) (now : N) : outcome :=
  match r with
  | ROk m =>
      match clamp_positive c (qtype q) m with
      | Some (L, m') => Done (upsert q (E (ROk m') now (now + L)) s)
      | None => Panic
      end
  | RNoRec n =>
      let '(lo, hi) := neg_bounds c (qtype q) in
      match nttl n with
      | Some t =>
          match clamp lo hi (t * NS) with
          | Some L => Done (upsert q (E (RNoRec n) now (now + L)) s)
          | None => Panic
          end
      | None => Done (upsert q (E (RNoRec n) now (now + lo)) s)
      end
  | RErr _ => Done s
  end.

(* u32::try_from(now.saturating_duration_since(original_time).as_secs()).unwrap_or(u32::MAX) *)
Definition elapsed_secs (t0 now : N) : N := N.min ((now - t0) / NS) U32MAX.

Definition dec (e : N) (x : N) : N := x - e.            (* saturating_sub *)
Definition dec_rr (e : N) (r : rr) : rr := RR (rty r) (dec e (rttl r)).
Definition dec_msg (e : N) (m : msg) : msg :=
  Msg (map (dec_rr e) (ans m)) (map (dec_rr e) (auth m)) (map (dec_rr e) (addl m)).
Definition dec_neg (e : N) (n : neg) : neg :=
  Neg (option_map (dec e) (nttl n)) (option_map (dec e) (nsoa n))
      (option_map (map (dec e)) (nauth n))
      (option_map (map (fun p => (dec e (fst p), map (dec e) (snd p)))) (nns n)).

(* Entry::updated_ttl *)
Definition updated (e : entry) (now : N) : result :=
  let el := elapsed_secs (t0 e) now in
  match eres e with
  | ROk m => ROk (dec_msg el m)
  | RNoRec n => RNoRec (dec_neg el n)
  | RErr k => RErr k
  end.

(* ResponseCache::get: is_current is `now <= valid_until` *)
Definition get (s : store) (q : key) (now : N) : option result :=
  match lookup q s with
  | None => None
  | Some e => if now <=? vu e then Some (updated e now) else None
  end.

(* ------------------------------------------------------------------ *)
(* Histories                                                           *)
(* ------------------------------------------------------------------ *)

Inductive op :=
| OIns (q : key) (r : result) (t : N)
| OGet (q : key) (t : N)
| OClear                       (* ResponseCache::clear = invalidate_all *)
| ODrop (q : key).             (* clear_query, or moka evicting the entry by itself *)

Inductive obs := VNone | VPanic | VGet (o : option result).

Definition step (c : cfg) (s : store) (o : op) : store * obs :=
  match o with
  | OIns q r t => match insert c s q r t with Done s' => (s', VNone) | Panic => (s, VPanic) end
  | OGet q t => (s, VGet (get s q t))
  | OClear => ([], VNone)
  | ODrop q => (remove q s, VNone)
  end.

Fixpoint run (c : cfg) (s : store) (h : list op) : store * list obs :=
  match h with
  | [] => (s, [])
  | o :: h' => let '(s1, v) := step c s o in let '(s2, vs) := run c s1 h' in (s2, v :: vs)
  end.

(* the store after a history from the empty cache *)
Definition after (c : cfg) (h : list op) : store := fst (run c [] h).

(* ------------------------------------------------------------------ *)
(* DnsResponse::negative_ttl (first SOA in the authority section)      *)
(* ------------------------------------------------------------------ *)

(* authority record as seen by negative_ttl: TTL and, for an SOA, its MINIMUM field *)
Record arec := AR { attl : N; aminimum : option N }.
Fixpoint negative_ttl (l : list arec) : option N :=
  match l with
  | [] => None
  | r :: l' => match aminimum r with Some m => Some (N.min (attl r) m) | None => negative_ttl l' end
  end.

(* ------------------------------------------------------------------ *)
(* CachingClient::lookup over one upstream reply                       *)
(* (crates/resolver/src/caching_client.rs inner_lookup / cache,        *)
(*  crates/net/src/error.rs DnsError::from_response), restricted to:   *)
(* an A query, answers that are A records owned by the query name,     *)
(* authority section of NS / SOA records of another name, no           *)
(* additionals, default TtlConfig, no DNSSEC.                          *)
(* ------------------------------------------------------------------ *)

Record upstream := Up { urc : N;               (* response code, numeric *)
                        utc : bool;            (* TC bit *)
                        uans : list N;         (* TTLs of the A answers *)
                        uauth : list arec;     (* authority section *)
                        uerr : bool }.         (* the upstream call itself failed *)

(* the response codes from_response turns into DnsError::ResponseCode *)
Definition rcode_is_error (rc : N) : bool :=
  existsb (N.eqb rc) [1; 2; 4; 5; 6; 7; 8; 9; 10; 16; 17; 18; 19; 20; 21; 22; 23].

Inductive rclass := RcErr | RcNoRecords | RcOk.
Definition from_response (rc : N) (contains_answer tc : bool) : rclass :=
  if rcode_is_error rc then RcErr
  else if ((rc =? 0) || (rc =? 3)) && negb contains_answer && negb tc then RcNoRecords
  else RcOk.                                   (* incl. every unknown response code *)

Definition is_soa (a : arec) : bool := match aminimum a with Some _ => true | None => false end.
Definition auth_rr (a : arec) : rr := RR (if is_soa a then 6 else 2) (attl a).
Fixpoint soa_ttl (l : list arec) : option N :=
  match l with
  | [] => None
  | a :: l' => if is_soa a then Some (attl a) else soa_ttl l'
  end.
Definition nonempty {A} (l : list A) : option (list A) := match l with [] => None | _ => Some l end.

(* (what the lookup returns, what it hands to ResponseCache::insert) *)
Definition cc_lookup (u : upstream) : result * option result :=
  if uerr u then (RErr 99, None)
  else
    let has := match uans u with [] => false | _ => true end in
    match from_response (urc u) has (utc u) with
    | RcErr => (RErr 99, None)
    | RcNoRecords =>
        let n := Neg (negative_ttl (uauth u)) (soa_ttl (uauth u)) (nonempty (map attl (uauth u)))
                     (nonempty (map (fun a => (attl a, @nil N)) (filter (fun a => negb (is_soa a)) (uauth u)))) in
        (RNoRec n, Some (RNoRec n))
    | RcOk =>
        if has then
          let m := Msg (map (RR 1) (uans u)) (map auth_rr (uauth u)) [] in (ROk m, Some (ROk m))
        else (* handle_noerror finds nothing: NoRecords returned, NOT cached *)
          (RNoRec (Neg (negative_ttl (uauth u)) (soa_ttl (uauth u)) None None), None)
    end.

Definition default_cfg : cfg := Cfg (B None None None None) [].

(* two lookups of the same query, the second later within the same second:
   (first result, upstream calls, second result) *)
Definition cc_two (u : upstream) : result * N * result :=
  let q : key := (0, 1) in
  let '(ret, ins) := cc_lookup u in
  match ins with
  | None => (ret, 2, ret)
  | Some r =>
      let first := match r with
                   | ROk m => match clamp_positive default_cfg (qtype q) m with
                              | Some (_, m') => ROk m'      (* Lookup built from the clamped message *)
                              | None => RErr 98
                              end
                   | _ => ret
                   end in
      match insert default_cfg [] q r 0 with
      | Done s => match get s q 1 with
                  | Some x => (first, 1, x)
                  | None => (first, 2, first)
                  end
      | Panic => (RErr 98, 0, RErr 98)
      end
  end.

(* ------------------------------------------------------------------ *)
(* Specification (independent formulation)                             *)
(* ------------------------------------------------------------------ *)

(* every configured (or defaulted) bound pair is ordered, as Durations and as whole
   seconds after the u32 conversion the record clamp uses *)
Definition ordered (p : N * N) : Prop := fst p <= snd p.
Definition wf_cfg (c : cfg) : Prop :=
  forall ty, ordered (pos_bounds c ty) /\ ordered (neg_bounds c ty) /\ ordered (pos_bounds_secs c ty).

(* inputs are u32 TTLs *)
Definition wf_rr (r : rr) : Prop := rttl r <= U32MAX.
Definition wf_msg (m : msg) : Prop := Forall wf_rr (sections m).
Definition u32_list (l : list N) : Prop := Forall (fun x => x <= U32MAX) l.
Definition wf_neg (n : neg) : Prop :=
  (forall t, nttl n = Some t -> t <= U32MAX) /\
  (forall t, nsoa n = Some t -> t <= U32MAX) /\
  (forall l, nauth n = Some l -> u32_list l) /\
  (forall l, nns n = Some l -> Forall (fun p => fst p <= U32MAX /\ u32_list (snd p)) l).
Definition wf_res (r : result) : Prop :=
  match r with ROk m => wf_msg m | RNoRec n => wf_neg n | RErr _ => True end.

(* clamp, as a formula *)
Definition clamp_spec (lo hi x : N) : N := N.max lo (N.min hi x).

(* the TTL the cache stores for a record: clamped by the bounds of the record's OWN type,
   in whole seconds *)
Definition stored_ttl (c : cfg) (r : rr) : N :=
  let p := pos_bounds_secs c (rty r) in clamp_spec (fst p) (snd p) (rttl r).
Definition stored_rr (c : cfg) (r : rr) : rr := RR (rty r) (stored_ttl c r).
Definition stored_msg (c : cfg) (m : msg) : msg :=
  Msg (map (stored_rr c) (ans m)) (map (stored_rr c) (auth m)) (map (stored_rr c) (addl m)).

(* L for a positive answer, declaratively: within the query type's bounds; the lower bound if
   no record of the query type / CNAME exists; otherwise the clamped stored TTL of a record
   of the query type / CNAME that is smallest among those. *)
Definition is_lifetime (c : cfg) (qt : N) (m : msg) (L : N) : Prop :=
  let lo := fst (pos_bounds c qt) in
  let hi := snd (pos_bounds c qt) in
  lo <= L <= hi /\
  ((forall r, In r (sections m) -> matches qt r = false) -> L = lo) /\
  ((exists r, In r (sections m) /\ matches qt r = true) ->
     exists r, In r (sections m) /\ matches qt r = true /\
       (forall r', In r' (sections m) -> matches qt r' = true -> stored_ttl c r <= stored_ttl c r') /\
       L = clamp_spec lo hi (stored_ttl c r * NS)).

(* the other reading of L: smallest RECEIVED TTL of the query type / CNAME, clamped to the query
   type's bounds *)
Definition raw_lifetime (c : cfg) (qt : N) (m : msg) : N :=
  let lo := fst (pos_bounds c qt) in
  let hi := snd (pos_bounds c qt) in
  clamp_spec lo hi (match min_ttl qt (sections m) with Some s => s * NS | None => lo end).
(* the records that determine L are governed by the same bounds as the query type *)
Definition same_bounds (c : cfg) (qt : N) (m : msg) : Prop :=
  forall r, In r (sections m) -> matches qt r = true -> pos_bounds c (rty r) = pos_bounds c qt.

(* L for a negative answer *)
Definition neg_lifetime (c : cfg) (qt : N) (n : neg) : N :=
  let lo := fst (neg_bounds c qt) in
  let hi := snd (neg_bounds c qt) in
  match nttl n with Some t => clamp_spec lo hi (t * NS) | None => lo end.

(* L for a stored result *)
Definition lifetime_of (c : cfg) (q : key) (r : result) (L : N) : Prop :=
  match r with
  | ROk m => is_lifetime c (qtype q) m L
  | RNoRec n => L = neg_lifetime c (qtype q) n
  | RErr _ => False
  end.

(* whole seconds elapsed *)
Definition whole_secs (t0 t : N) : N := (t - t0) / NS.

(* what a hit must look like [e] whole seconds after the insertion of [r] *)
Definition countdown (c : cfg) (r : result) (e : N) : result :=
  match r with
  | ROk m => ROk (dec_msg e (stored_msg c m))
  | RNoRec n => RNoRec (dec_neg e n)
  | RErr k => RErr k
  end.

Definition cacheable (r : result) : bool := match r with RErr _ => false | _ => true end.

(* the operations of a history that can change what the cache holds for [q] *)
Definition touches (q : key) (o : op) : bool :=
  match o with
  | OIns q' r _ => key_eqb q q' && cacheable r
  | OGet _ _ => false
  | OClear => true
  | ODrop q' => key_eqb q q'
  end.
Definition untouched (q : key) (h : list op) : Prop := Forall (fun o => touches q o = false) h.

(* every inserted result carries u32 TTLs *)
Definition wf_hist (h : list op) : Prop :=
  Forall (fun o => match o with OIns _ r _ => wf_res r | _ => True end) h.

(* pointwise comparison of the TTLs of two results of the same shape *)
Definition rr_le (a b : rr) : Prop := rty a = rty b /\ rttl a <= rttl b.
Definition msg_le (a b : msg) : Prop :=
  Forall2 rr_le (ans a) (ans b) /\ Forall2 rr_le (auth a) (auth b) /\ Forall2 rr_le (addl a) (addl b).
Definition opt_le (a b : option N) : Prop :=
  match a, b with Some x, Some y => x <= y | None, None => True | _, _ => False end.
Definition optl_le {A} (R : A -> A -> Prop) (a b : option (list A)) : Prop :=
  match a, b with Some x, Some y => Forall2 R x y | None, None => True | _, _ => False end.
Definition ns_le (a b : N * list N) : Prop := fst a <= fst b /\ Forall2 N.le (snd a) (snd b).
Definition neg_le (a b : neg) : Prop :=
  opt_le (nttl a) (nttl b) /\ opt_le (nsoa a) (nsoa b) /\ optl_le N.le (nauth a) (nauth b) /\
  optl_le ns_le (nns a) (nns b).
Definition res_le (a b : result) : Prop :=
  match a, b with
  | ROk x, ROk y => msg_le x y
  | RNoRec x, RNoRec y => neg_le x y
  | _, _ => False
  end.

(* ------------------------------------------------------------------ *)
(* Witness configurations used by the refuted statements in Props.v    *)
(* ------------------------------------------------------------------ *)

Definition two_day_min : cfg := Cfg (B (Some (172800 * NS)) None None None) [].
Definition dur_ordered (c : cfg) : Prop :=
  forall ty, ordered (pos_bounds c ty) /\ ordered (neg_bounds c ty).
Definition beyond_u32 : cfg := Cfg (B (Some (100000 * NS)) None (Some (4294967296 * NS)) None) [].
Definition neg_max_5 : cfg := Cfg (B None None None (Some (5 * NS))) [].
Definition cname_min_100 : cfg := Cfg (B None None None None) [(5, B (Some (100 * NS)) None None None)].
