(* C15 — correspondence glue.  A case is
   - CHist: a TTL configuration and a history of operations on the real ResponseCache, each
     with what the implementation did (insert: returned or panicked; get: miss or the result
     with all its TTLs);
   - CNegTtl: an authority section and what DnsResponse::negative_ttl returned;
   - CClient: one upstream reply, and what two consecutive CachingClient::lookup calls returned
     plus the number of upstream calls.
   The model is re-run on the same input and every observation compared.
   Numbers travel as primitive 63-bit integers (cheap to parse; every instant and TTL of the
   generated cases is below 2^63) and are converted to N here. *)
From Coq Require Import Uint63.
From HV Require Import Lib.Base C15.Model.
Open Scope N_scope.

Definition n (i : int) : N := Z.to_N (Uint63.to_Z i).

(* wire types: the model's types with int for N *)
Inductive wres :=
| WOk (a b d : list (int * int))                 (* sections as (type, ttl) *)
| WNo (t s : option int) (au : option (list int)) (ns : option (list (int * list int)))
| WErr (k : int).
Inductive wb := WB (pmin nmin pmax nmax : option int).
Definition wkey := (int * int)%type.

Inductive hop :=
| HIns (q : wkey) (r : wres) (t : int) (panicked : bool)
| HGet (q : wkey) (t : int) (o : option wres)
| HClear
| HDrop (q : wkey).

Inductive case :=
| CHist (d : wb) (by_ty : list (int * wb)) (h : list hop)
| CNegTtl (l : list (int * option int)) (o : option int)
| CClient (rc : int) (tc : bool) (ans : list int) (au : list (int * option int)) (err : bool)
          (first : wres) (calls : int) (second : wres).

Definition on (o : option int) : option N := option_map n o.
Definition rr_of (p : int * int) : rr := RR (n (fst p)) (n (snd p)).
Definition res_of (r : wres) : result :=
  match r with
  | WOk a b d => ROk (Msg (map rr_of a) (map rr_of b) (map rr_of d))
  | WNo t s au ns =>
      RNoRec (Neg (on t) (on s) (option_map (map n) au)
                  (option_map (map (fun p => (n (fst p), map n (snd p)))) ns))
  | WErr k => RErr (n k)
  end.
Definition b_of (b : wb) : bounds := match b with WB a b c d => B (on a) (on b) (on c) (on d) end.
Definition cfg_of (d : wb) (l : list (int * wb)) : cfg :=
  Cfg (b_of d) (map (fun p => (n (fst p), b_of (snd p))) l).
Definition key_of (q : wkey) : key := (n (fst q), n (snd q)).
Definition arec_of (p : int * option int) : arec := AR (n (fst p)) (on (snd p)).

Definition rr_eqb (a b : rr) : bool := N.eqb (rty a) (rty b) && N.eqb (rttl a) (rttl b).
Definition msg_eqb (a b : msg) : bool :=
  list_eqb rr_eqb (ans a) (ans b) && list_eqb rr_eqb (auth a) (auth b) && list_eqb rr_eqb (addl a) (addl b).
Definition ns_eqb (a b : N * list N) : bool := N.eqb (fst a) (fst b) && list_eqb N.eqb (snd a) (snd b).
Definition neg_eqb (a b : neg) : bool :=
  option_eqb N.eqb (nttl a) (nttl b) && option_eqb N.eqb (nsoa a) (nsoa b) &&
  option_eqb (list_eqb N.eqb) (nauth a) (nauth b) && option_eqb (list_eqb ns_eqb) (nns a) (nns b).
Definition result_eqb (a b : result) : bool :=
  match a, b with
  | ROk x, ROk y => msg_eqb x y
  | RNoRec x, RNoRec y => neg_eqb x y
  | RErr x, RErr y => N.eqb x y
  | _, _ => false
  end.

Fixpoint check_hist (c : cfg) (s : store) (h : list hop) : bool :=
  match h with
  | [] => true
  | HIns q r t p :: h' =>
      match insert c s (key_of q) (res_of r) (n t) with
      | Done s' => negb p && check_hist c s' h'
      | Panic => p && check_hist c s h'
      end
  | HGet q t o :: h' =>
      option_eqb result_eqb (get s (key_of q) (n t)) (option_map res_of o) && check_hist c s h'
  | HClear :: h' => check_hist c [] h'
  | HDrop q :: h' => check_hist c (remove (key_of q) s) h'
  end.

Definition up_of (rc : int) (tc : bool) (ans : list int) (au : list (int * option int)) (err : bool) : upstream :=
  Up (n rc) tc (map n ans) (map arec_of au) err.

Definition check (c : case) : bool :=
  match c with
  | CHist d l h => check_hist (cfg_of d l) [] h
  | CNegTtl l o => option_eqb N.eqb (negative_ttl (map arec_of l)) (on o)
  | CClient rc tc ans au err f k s2 =>
      let '(f', k', s') := cc_two (up_of rc tc ans au err) in
      result_eqb f' (res_of f) && N.eqb k' (n k) && result_eqb s' (res_of s2)
  end.

Definition bad (cs : list case) : list N := bad_idx check 0 cs.

Definition op_of (o : hop) : op :=
  match o with
  | HIns q r t _ => OIns (key_of q) (res_of r) (n t)
  | HGet q t _ => OGet (key_of q) (n t)
  | HClear => OClear
  | HDrop q => ODrop (key_of q)
  end.

(* full model output for one case (used in replay files) *)
Definition show (c : case) : list obs * option N * option (result * N * result) :=
  match c with
  | CHist d l h => (snd (run (cfg_of d l) [] (map op_of h)), None, None)
  | CNegTtl l _ => ([], negative_ttl (map arec_of l), None)
  | CClient rc tc ans au err _ _ _ => ([], None, Some (cc_two (up_of rc tc ans au err)))
  end.
