(* C15 — the other reading of "L": the smallest RECEIVED TTL of the query type / CNAME, clamped
   to the query type's bounds (instead of the smallest stored, i.e. per-type clamped, TTL). *)
From HV Require Import Lib.Base C15.Model C15.CacheProofs C15.TtlProofs C15.HistProofs.
Open Scope N_scope.

Lemma clamp_spec_idem lo hi x : lo <= hi -> clamp_spec lo hi (clamp_spec lo hi x) = clamp_spec lo hi x.
Proof. unfold clamp_spec. lia. Qed.

Lemma u32_or_max_id s : s <= U32MAX -> u32_or_max s = s.
Proof. intros H. unfold u32_or_max. destruct (N.leb_spec s U32MAX); [reflexivity|lia]. Qed.

Lemma stored_le_raw c qt r :
  fst (pos_bounds c qt) <= snd (pos_bounds c qt) ->
  pos_bounds c (rty r) = pos_bounds c qt -> snd (pos_bounds c qt) / NS <= U32MAX ->
  stored_ttl c r * NS <= clamp_spec (fst (pos_bounds c qt)) (snd (pos_bounds c qt)) (rttl r * NS).
Proof.
  intros Ho Hs Hu. unfold stored_ttl. rewrite pos_bounds_secs_eq, Hs. cbn [fst snd].
  set (lo := fst (pos_bounds c qt)) in *. set (hi := snd (pos_bounds c qt)) in *.
  assert (HNS : NS <> 0) by (unfold NS; lia).
  assert (Hlh : lo / NS <= hi / NS) by (apply N.div_le_mono; assumption).
  rewrite !u32_or_max_id by lia.
  pose proof (N.mul_div_le lo NS HNS) as Ha. pose proof (N.mul_div_le hi NS HNS) as Hb.
  rewrite (N.mul_comm NS) in Ha, Hb.
  set (a := lo / NS) in *. set (b := hi / NS) in *. set (x := rttl r).
  unfold clamp_spec.
  destruct (N.le_ge_cases x a) as [H1|H1].
  - replace (N.max a (N.min b x)) with a by lia. lia.
  - destruct (N.le_ge_cases x b) as [H2|H2].
    + replace (N.max a (N.min b x)) with x by lia.
      assert (x * NS <= b * NS) by (apply N.mul_le_mono_r; exact H2). lia.
    + replace (N.max a (N.min b x)) with b by lia.
      assert (b * NS <= x * NS) by (apply N.mul_le_mono_r; exact H2). lia.
Qed.

Lemma lifetime_le_raw c qt m L : wf_cfg c -> same_bounds c qt m ->
  snd (pos_bounds c qt) / NS <= U32MAX ->
  is_lifetime c qt m L -> L <= raw_lifetime c qt m.
Proof.
  intros Hc Hs Hu (Hr & Hn & Hx). destruct (Hc qt) as (Ho & _ & _). unfold ordered in Ho.
  unfold raw_lifetime. cbv zeta in *.
  set (lo := fst (pos_bounds c qt)) in *. set (hi := snd (pos_bounds c qt)) in *.
  destruct (min_ttl qt (sections m)) as [s|] eqn:E.
  - destruct (min_ttl_some _ _ _ E) as (r0 & Hi0 & Hm0 & Ht0 & Hmin0).
    destruct (Hx (ex_intro _ r0 (conj Hi0 Hm0))) as (r & Hi & Hm & Hmin & ->).
    specialize (Hmin r0 Hi0 Hm0).
    pose proof (stored_le_raw c qt r0 Ho (Hs r0 Hi0 Hm0) Hu) as Hle. fold lo hi in Hle. rewrite Ht0 in Hle.
    assert (H1 : stored_ttl c r * NS <= stored_ttl c r0 * NS) by (apply N.mul_le_mono_r; exact Hmin).
    rewrite <- (clamp_spec_idem lo hi (s * NS) Ho).
    apply clamp_spec_mono. lia.
  - rewrite min_ttl_none in E. rewrite (Hn E). unfold clamp_spec. lia.
Qed.

Lemma raw_guarded c h0 q m ti h1 t r : wf_cfg c -> same_bounds c (qtype q) m ->
  snd (pos_bounds c (qtype q)) / NS <= U32MAX -> untouched q h1 ->
  get (after c (h0 ++ OIns q (ROk m) ti :: h1)) q t = Some r -> t <= ti + raw_lifetime c (qtype q) m.
Proof.
  intros Hc Hs Hu Hun Hg. apply get_some in Hg. destruct Hg as (e & Hl & Hle & _).
  destruct (entry_for_ok c q (ROk m) ti Hc eq_refl) as (L & HL & He).
  rewrite lookup_after, (view_from_last_insert c q h0 (ROk m) ti h1 _ None Hun He) in Hl.
  inversion Hl; subst e; clear Hl. cbn [vu] in Hle. cbn [lifetime_of] in HL.
  pose proof (lifetime_le_raw c (qtype q) m L Hc Hs Hu HL). lia.
Qed.
