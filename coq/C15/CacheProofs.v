(* C15 — proofs about the store: the association-list cache refines "the last operation
   that touched the query decides", for every history. *)
From HV Require Import Lib.Base C15.Model.
Open Scope N_scope.

(* ------------------------------------------------------------------ *)
(* keys and the association list                                       *)
(* ------------------------------------------------------------------ *)

Lemma key_eqb_eq a b : key_eqb a b = true <-> a = b.
Proof.
  destruct a as [a1 a2], b as [b1 b2]. unfold key_eqb. cbn [fst snd].
  rewrite andb_true_iff, !N.eqb_eq. split; [intros [-> ->]; reflexivity|intros E; inversion E; auto].
Qed.

Lemma key_eqb_refl a : key_eqb a a = true.
Proof. now apply key_eqb_eq. Qed.

Lemma key_eqb_neq a b : key_eqb a b = false <-> a <> b.
Proof.
  split.
  - intros H E. apply key_eqb_eq in E. congruence.
  - intros H. destruct (key_eqb a b) eqn:E; [apply key_eqb_eq in E; contradiction|reflexivity].
Qed.

Lemma lookup_remove q q' s :
  lookup q (remove q' s) = if key_eqb q q' then None else lookup q s.
Proof.
  induction s as [|[k e] s IH]; cbn [remove lookup].
  - now destruct (key_eqb q q').
  - destruct (key_eqb q' k) eqn:E1.
    + apply key_eqb_eq in E1. subst k. rewrite IH. now destruct (key_eqb q q').
    + cbn [lookup]. rewrite IH. destruct (key_eqb q q') eqn:E2; [|reflexivity].
      apply key_eqb_eq in E2. subst q'. now rewrite E1.
Qed.

Lemma lookup_upsert q q' e s :
  lookup q (upsert q' e s) = if key_eqb q q' then Some e else lookup q s.
Proof.
  unfold upsert. cbn [lookup]. destruct (key_eqb q q') eqn:E; [reflexivity|].
  rewrite lookup_remove. now rewrite E.
Qed.

(* ------------------------------------------------------------------ *)
(* insert, factored: which entry (if any) an insertion writes          *)
(* ------------------------------------------------------------------ *)

Inductive eo := ENone | EPanic | ESome (e : entry).

Definition entry_for (c : cfg) (q : key) (r : result) (now : N) : eo :=
  match r with
  | ROk m =>
      match clamp_positive c (qtype q) m with
      | Some (L, m') => ESome (E (ROk m') now (now + L))
      | None => EPanic
      end
  | RNoRec n =>
      match nttl n with
      | Some t =>
          match clamp (fst (neg_bounds c (qtype q))) (snd (neg_bounds c (qtype q))) (t * NS) with
          | Some L => ESome (E (RNoRec n) now (now + L))
          | None => EPanic
          end
      | None => ESome (E (RNoRec n) now (now + fst (neg_bounds c (qtype q))))
      end
  | RErr _ => ENone
  end.

Lemma insert_entry_for c s q r now :
  insert c s q r now =
  match entry_for c q r now with
  | ESome e => Done (upsert q e s)
  | ENone => Done s
  | EPanic => Panic
  end.
Proof.
  unfold insert, entry_for. destruct r as [m|n|k]; [| |reflexivity].
  - destruct (clamp_positive c (qtype q) m) as [[L m']|]; reflexivity.
  - destruct (neg_bounds c (qtype q)) as [lo hi]. cbn [fst snd].
    destruct (nttl n) as [t|]; [|reflexivity].
    destruct (clamp lo hi (t * NS)); reflexivity.
Qed.

Lemma entry_for_cacheable c q r now e : entry_for c q r now = ESome e -> cacheable r = true.
Proof. destruct r; cbn; [reflexivity|reflexivity|discriminate]. Qed.

Lemma entry_for_not_cacheable c q r now : cacheable r = false -> entry_for c q r now = ENone.
Proof. destruct r; cbn; [discriminate|discriminate|reflexivity]. Qed.

Lemma entry_for_eres_cacheable c q r now e :
  entry_for c q r now = ESome e -> cacheable (eres e) = true.
Proof.
  unfold entry_for. destruct r as [m|n|k]; [| |discriminate].
  - destruct (clamp_positive c (qtype q) m) as [[L m']|]; [|discriminate].
    intros H; inversion H; reflexivity.
  - destruct (nttl n) as [t|].
    + destruct (clamp _ _ _); [|discriminate]. intros H; inversion H; reflexivity.
    + intros H; inversion H; reflexivity.
Qed.

(* ------------------------------------------------------------------ *)
(* what a history leaves for one query                                 *)
(* ------------------------------------------------------------------ *)

Definition upd (c : cfg) (q : key) (cur : option entry) (o : op) : option entry :=
  match o with
  | OIns q' r t =>
      if key_eqb q q' then match entry_for c q' r t with ESome e => Some e | _ => cur end else cur
  | OGet _ _ => cur
  | OClear => None
  | ODrop q' => if key_eqb q q' then None else cur
  end.

Fixpoint view_from (c : cfg) (q : key) (cur : option entry) (h : list op) : option entry :=
  match h with
  | [] => cur
  | o :: h' => view_from c q (upd c q cur o) h'
  end.

Lemma lookup_step c s o q : lookup q (fst (step c s o)) = upd c q (lookup q s) o.
Proof.
  destruct o as [q' r t|q' t| |q']; cbn [step upd].
  - rewrite insert_entry_for. destruct (entry_for c q' r t) as [| |e]; cbn [fst].
    + now destruct (key_eqb q q').
    + now destruct (key_eqb q q').
    + apply lookup_upsert.
  - reflexivity.
  - reflexivity.
  - cbn [fst]. apply lookup_remove.
Qed.

Lemma run_fst_cons c s o h : fst (run c s (o :: h)) = fst (run c (fst (step c s o)) h).
Proof. cbn [run]. destruct (step c s o) as [s1 v]. cbn [fst]. now destruct (run c s1 h). Qed.

Lemma lookup_run c h : forall s q, lookup q (fst (run c s h)) = view_from c q (lookup q s) h.
Proof.
  induction h as [|o h IH]; intros s q.
  - reflexivity.
  - rewrite run_fst_cons, IH, lookup_step. reflexivity.
Qed.

Lemma lookup_after c h q : lookup q (after c h) = view_from c q None h.
Proof. unfold after. now rewrite lookup_run. Qed.

Lemma view_from_app c q h1 h2 cur :
  view_from c q cur (h1 ++ h2) = view_from c q (view_from c q cur h1) h2.
Proof. revert cur. induction h1 as [|o h1 IH]; intros cur; cbn [app view_from]; [reflexivity|apply IH]. Qed.

Lemma upd_untouched c q cur o : touches q o = false -> upd c q cur o = cur.
Proof.
  destruct o as [q' r t|q' t| |q']; cbn [touches upd]; intros H.
  - destruct (key_eqb q q'); [|reflexivity]. cbn [andb] in H.
    now rewrite (entry_for_not_cacheable c q' r t H).
  - reflexivity.
  - discriminate.
  - now rewrite H.
Qed.

Lemma view_from_untouched c q h : untouched q h -> forall cur, view_from c q cur h = cur.
Proof.
  induction 1 as [|o h Ho _ IH]; intros cur; cbn [view_from]; [reflexivity|].
  now rewrite (upd_untouched c q cur o Ho), IH.
Qed.

(* no panicking insert in a history: every cacheable insertion writes an entry *)
Definition writes_ok (c : cfg) (h : list op) : Prop :=
  Forall (fun o => match o with OIns q r t => entry_for c q r t <> EPanic | _ => True end) h.

(* Every entry found after a history was written by an insertion for that query that
   nothing touched afterwards. *)
Lemma view_from_inv c q h : writes_ok c h -> forall cur e,
  view_from c q cur h = Some e ->
  (cur = Some e /\ untouched q h) \/
  (exists h0 r t0 h1, h = h0 ++ OIns q r t0 :: h1 /\ untouched q h1 /\ entry_for c q r t0 = ESome e).
Proof.
  induction 1 as [|o h Ho _ IH]; intros cur e Hv; cbn [view_from] in Hv.
  - left. split; [exact Hv|constructor].
  - destruct (IH _ _ Hv) as [[Hc Hu]|(h0 & r & t0 & h1 & -> & Hu & He)].
    + destruct (touches q o) eqn:Ht.
      * destruct o as [q' r t|q' t| |q']; cbn [touches upd] in Ht, Hc.
        -- apply andb_true_iff in Ht. destruct Ht as [Hk Hca]. rewrite Hk in Hc.
           apply key_eqb_eq in Hk. subst q'.
           destruct (entry_for c q r t) as [| |e'] eqn:Ee.
           ++ destruct r; cbn in Ee, Hca; try discriminate;
              repeat match type of Ee with context [match ?x with _ => _ end] => destruct x end; discriminate.
           ++ contradiction.
           ++ right. exists [], r, t, h. inversion Hc; subst e'. repeat split; assumption.
        -- discriminate.
        -- discriminate.
        -- rewrite Ht in Hc. discriminate.
      * left. rewrite (upd_untouched c q cur o Ht) in Hc. split; [exact Hc|constructor; assumption].
    + right. exists (o :: h0), r, t0, h1. repeat split; assumption.
Qed.

Lemma view_from_last_insert c q h0 r t0 h1 e cur :
  untouched q h1 -> entry_for c q r t0 = ESome e ->
  view_from c q cur (h0 ++ OIns q r t0 :: h1) = Some e.
Proof.
  intros Hu He. rewrite view_from_app. cbn [view_from upd]. rewrite key_eqb_refl, He.
  now apply view_from_untouched.
Qed.

(* ------------------------------------------------------------------ *)
(* get                                                                 *)
(* ------------------------------------------------------------------ *)

Lemma get_some s q t r :
  get s q t = Some r <-> exists e, lookup q s = Some e /\ t <= vu e /\ r = updated e t.
Proof.
  unfold get. destruct (lookup q s) as [e|].
  - destruct (N.leb_spec t (vu e)) as [H|H].
    + split; [intros E; inversion E; eauto|intros (e' & E1 & _ & ->); inversion E1; reflexivity].
    + split; [discriminate|intros (e' & E1 & Hle & _); inversion E1; subst; lia].
  - split; [discriminate|intros (e' & E1 & _); discriminate].
Qed.

Lemma get_none_untouched c h q t : untouched q h -> get (after c h) q t = None.
Proof.
  intros Hu. unfold get. rewrite lookup_after, (view_from_untouched c q h Hu). reflexivity.
Qed.

(* only cacheable results are ever stored *)
Definition store_ok (s : store) : Prop := Forall (fun p => cacheable (eres (snd p)) = true) s.

Lemma store_ok_remove q s : store_ok s -> store_ok (remove q s).
Proof.
  induction 1 as [|[k e] s Hp _ IH]; cbn [remove]; [constructor|].
  destruct (key_eqb q k); [exact IH|constructor; assumption].
Qed.

Lemma store_ok_step c s o : store_ok s -> store_ok (fst (step c s o)).
Proof.
  intros Hs. destruct o as [q r t|q t| |q]; cbn [step].
  - rewrite insert_entry_for. destruct (entry_for c q r t) as [| |e] eqn:Ee; cbn [fst]; try exact Hs.
    unfold upsert. constructor; [cbn [snd]; exact (entry_for_eres_cacheable _ _ _ _ _ Ee)|now apply store_ok_remove].
  - exact Hs.
  - constructor.
  - cbn [fst]. now apply store_ok_remove.
Qed.

Lemma store_ok_run c h : forall s, store_ok s -> store_ok (fst (run c s h)).
Proof.
  induction h as [|o h IH]; intros s Hs; [exact Hs|].
  rewrite run_fst_cons. apply IH. now apply store_ok_step.
Qed.

Lemma store_ok_lookup s q e : store_ok s -> lookup q s = Some e -> cacheable (eres e) = true.
Proof.
  induction 1 as [|[k e'] s Hp _ IH]; cbn [lookup]; [discriminate|].
  destruct (key_eqb q k); [intros E; inversion E; subst; exact Hp|exact IH].
Qed.

Lemma get_never_transient c h q t k : get (after c h) q t <> Some (RErr k).
Proof.
  intros Hg. apply get_some in Hg. destruct Hg as (e & Hl & _ & Hr).
  assert (Hc : cacheable (eres e) = true).
  { apply (store_ok_lookup (after c h) q); [|exact Hl]. unfold after. apply store_ok_run. constructor. }
  unfold updated in Hr. destruct (eres e); cbn in Hc; discriminate.
Qed.
