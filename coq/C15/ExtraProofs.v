(* C15 — deviations and side results: panics of clamp under unordered bounds, the reported
   negative TTL is not clamped, DnsResponse::negative_ttl. *)
From HV Require Import Lib.Base C15.Model C15.CacheProofs C15.TtlProofs C15.HistProofs.
Open Scope N_scope.

(* ------------------------------------------------------------------ *)
(* DnsResponse::negative_ttl                                           *)
(* ------------------------------------------------------------------ *)

Lemma negative_ttl_spec l x :
  negative_ttl l = Some x <->
  exists l1 r l2 m, l = l1 ++ r :: l2 /\ Forall (fun a => aminimum a = None) l1 /\
                    aminimum r = Some m /\ x = N.min (attl r) m.
Proof.
  induction l as [|a l IH]; cbn [negative_ttl].
  - split; [discriminate|]. intros (l1 & r & l2 & m & E & _). destruct l1; discriminate.
  - destruct (aminimum a) as [m|] eqn:Em.
    + split.
      * intros E; inversion E; subst x. exists [], a, l, m. repeat split; [constructor|exact Em].
      * intros (l1 & r & l2 & m' & E & Hf & Hm & ->). destruct l1 as [|a' l1].
        -- cbn in E. inversion E; subst. rewrite Em in Hm. now inversion Hm.
        -- cbn in E. inversion E; subst a'. inversion Hf; congruence.
    + rewrite IH. split.
      * intros (l1 & r & l2 & m & -> & Hf & Hm & ->). exists (a :: l1), r, l2, m.
        repeat split; [constructor; assumption|exact Hm].
      * intros (l1 & r & l2 & m & E & Hf & Hm & ->). destruct l1 as [|a' l1].
        -- cbn in E. inversion E; subst. congruence.
        -- cbn in E. inversion E; subst. inversion Hf; subst. exists l1, r, l2, m. repeat split; assumption.
Qed.

Lemma negative_ttl_none l : negative_ttl l = None <-> Forall (fun a => aminimum a = None) l.
Proof.
  induction l as [|a l IH]; cbn [negative_ttl].
  - split; [constructor|reflexivity].
  - destruct (aminimum a) eqn:Em.
    + split; [discriminate|]. intros H. inversion H; congruence.
    + rewrite IH. split; [intros H; constructor; assumption|intros H; now inversion H].
Qed.

(* ------------------------------------------------------------------ *)
(* the reported negative TTL against the entry's expiry                *)
(* ------------------------------------------------------------------ *)

Lemma neg_reported_within c q n ti t x0 :
  nttl n = Some x0 ->
  fst (neg_bounds c (qtype q)) <= x0 * NS <= snd (neg_bounds c (qtype q)) ->
  ti <= t <= ti + neg_lifetime c (qtype q) n ->
  forall x, nttl (dec_neg (whole_secs ti t) n) = Some x ->
  t + x * NS < ti + neg_lifetime c (qtype q) n + NS.
Proof.
  intros Hn [Hlo Hhi] Hle x Hx. revert Hle. unfold neg_lifetime. rewrite Hn.
  unfold dec_neg in Hx. cbn [nttl] in Hx. rewrite Hn in Hx. cbn in Hx. inversion Hx; subst x; clear Hx.
  unfold clamp_spec. rewrite N.min_r by exact Hhi. rewrite N.max_r by exact Hlo.
  intros [Hle1 Hle2]. unfold dec, whole_secs.
  assert (HNS : NS <> 0) by (unfold NS; lia).
  pose proof (N.div_mod' (t - ti) NS) as Hd.
  assert (Hm : (t - ti) mod NS < NS) by (apply N.mod_lt; exact HNS).
  assert (Hk : (t - ti) / NS <= x0).
  { rewrite <- (N.div_mul x0 NS HNS). apply N.div_le_mono; [exact HNS|lia]. }
  set (k := (t - ti) / NS) in *. set (m := (t - ti) mod NS) in *.
  assert (E : x0 * NS = (x0 - k) * NS + NS * k).
  { rewrite (N.mul_comm NS k), <- N.mul_add_distr_r. f_equal. lia. }
  lia.
Qed.

(* ------------------------------------------------------------------ *)
(* CachingClient::lookup: what reaches the cache                       *)
(* ------------------------------------------------------------------ *)

Lemma cc_lookup_inserts u r : snd (cc_lookup u) = Some r ->
  uerr u = false /\ rcode_is_error (urc u) = false /\ cacheable r = true /\
  ((exists n, r = RNoRec n /\ nttl n = negative_ttl (uauth u) /\ uans u = [] /\ utc u = false /\
              (urc u = 0 \/ urc u = 3)) \/
   (exists m, r = ROk m /\ uans u <> [] /\ ans m = map (RR 1) (uans u))).
Proof.
  unfold cc_lookup. destruct (uerr u); [discriminate|].
  unfold from_response. destruct (rcode_is_error (urc u)); [discriminate|].
  destruct (uans u) as [|a l] eqn:Ea; cbn [negb andb].
  - destruct ((urc u =? 0) || (urc u =? 3)) eqn:Erc; cbn [andb].
    + destruct (utc u); cbn [negb snd]; [discriminate|].
      intros E; inversion E; subst r; clear E. repeat split; try reflexivity.
      left. eexists. repeat split.
      apply orb_true_iff in Erc. destruct Erc as [H|H]; apply N.eqb_eq in H; auto.
    + cbn [snd]. discriminate.
  - rewrite !andb_false_r. cbn [snd]. intros E; inversion E; subst r; clear E.
    repeat split; try reflexivity. right. eexists. repeat split. discriminate.
Qed.

Lemma cc_lookup_errors u : uerr u = true \/ rcode_is_error (urc u) = true ->
  cc_lookup u = (RErr 99, None).
Proof.
  intros [H|H]; unfold cc_lookup, from_response; rewrite H; [reflexivity|].
  now destruct (uerr u).
Qed.

(* discharges wf_hist / wf_res on concrete values *)
Ltac wf_tac :=
  unfold wf_hist;
  repeat match goal with
  | |- Forall _ [] => constructor
  | |- Forall _ (_ :: _) => constructor
  | |- _ /\ _ => split
  | |- True => exact I
  | |- forall _, Some _ = Some _ -> _ => let E := fresh "E" in intros ? E; inversion E; subst; clear E
  | |- forall _, None = Some _ -> _ => let E := fresh "E" in intros ? E; discriminate E
  | |- _ <= U32MAX => unfold U32MAX; lia
  | |- _ => progress (unfold wf_msg, wf_neg, wf_rr, u32_list, sections)
  | |- _ => progress (cbn [wf_res ans auth addl app nttl nsoa nauth nns rttl fst snd])
  end.

