(* C15 — proofs about the TTL arithmetic: clamping, the cache lifetime, the countdown. *)
From HV Require Import Lib.Base C15.Model C15.CacheProofs.
Open Scope N_scope.

(* ------------------------------------------------------------------ *)
(* clamp                                                               *)
(* ------------------------------------------------------------------ *)

Lemma clamp_ok lo hi x : lo <= hi -> clamp lo hi x = Some (clamp_spec lo hi x).
Proof.
  intros H. unfold clamp, clamp_spec.
  destruct (N.ltb_spec hi lo) as [H1|H1]; [lia|]. f_equal.
  destruct (N.ltb_spec x lo) as [H2|H2]; [lia|].
  destruct (N.ltb_spec hi x) as [H3|H3]; lia.
Qed.

Lemma clamp_panics lo hi x : hi < lo -> clamp lo hi x = None.
Proof. intros H. unfold clamp. destruct (N.ltb_spec hi lo); [reflexivity|lia]. Qed.

Lemma clamp_spec_range lo hi x : lo <= hi -> lo <= clamp_spec lo hi x <= hi.
Proof. unfold clamp_spec. lia. Qed.

Lemma clamp_spec_mono lo hi x y : x <= y -> clamp_spec lo hi x <= clamp_spec lo hi y.
Proof. unfold clamp_spec. lia. Qed.

Lemma u32_or_max_le s : u32_or_max s <= U32MAX.
Proof. unfold u32_or_max, U32MAX, MAX_TTL. destruct (N.leb_spec s 4294967295); lia. Qed.

Lemma pos_bounds_secs_eq c ty :
  pos_bounds_secs c ty = (u32_or_max (fst (pos_bounds c ty) / NS), u32_or_max (snd (pos_bounds c ty) / NS)).
Proof. unfold pos_bounds_secs. now destruct (pos_bounds c ty). Qed.

Lemma stored_ttl_le c r : wf_cfg c -> rttl r <= U32MAX -> stored_ttl c r <= U32MAX.
Proof.
  intros Hc Hr. unfold stored_ttl. destruct (Hc (rty r)) as (_ & _ & Ho). unfold ordered in Ho.
  rewrite pos_bounds_secs_eq in *. cbn [fst snd] in *.
  pose proof (u32_or_max_le (snd (pos_bounds c (rty r)) / NS)). unfold clamp_spec. lia.
Qed.

(* ------------------------------------------------------------------ *)
(* the record clamp                                                    *)
(* ------------------------------------------------------------------ *)

Lemma clamp_rrs_ok c l : wf_cfg c -> clamp_rrs c l = Some (map (stored_rr c) l).
Proof.
  intros Hc. induction l as [|r l IH]; cbn [clamp_rrs map]; [reflexivity|].
  destruct (Hc (rty r)) as (_ & _ & Ho). unfold ordered in Ho.
  unfold stored_rr at 1, stored_ttl. destruct (pos_bounds_secs c (rty r)) as [lo hi]. cbn [fst snd] in *.
  rewrite (clamp_ok lo hi (rttl r) Ho), IH. reflexivity.
Qed.

Lemma sections_stored c m : sections (stored_msg c m) = map (stored_rr c) (sections m).
Proof. unfold sections, stored_msg. cbn [ans auth addl]. now rewrite !map_app. Qed.

Lemma matches_stored c qt r : matches qt (stored_rr c r) = matches qt r.
Proof. reflexivity. Qed.

(* min_ttl over the stored records, characterised *)
Lemma min_ttl_none qt l : min_ttl qt l = None <-> (forall r, In r l -> matches qt r = false).
Proof.
  induction l as [|r l IH]; cbn [min_ttl].
  - split; [intros _ r []|reflexivity].
  - destruct (matches qt r) eqn:Em.
    + split.
      * destruct (min_ttl qt l); discriminate.
      * intros H. specialize (H r (or_introl eq_refl)). congruence.
    + rewrite IH. split.
      * intros H r' [<-|Hi]; [exact Em|now apply H].
      * intros H r' Hi. apply H. now right.
Qed.

Lemma min_ttl_some qt l m : min_ttl qt l = Some m ->
  exists r, In r l /\ matches qt r = true /\ rttl r = m /\
            (forall r', In r' l -> matches qt r' = true -> m <= rttl r').
Proof.
  revert m. induction l as [|r l IH]; intros m; cbn [min_ttl]; [discriminate|].
  destruct (matches qt r) eqn:Em.
  - destruct (min_ttl qt l) as [m'|] eqn:El.
    + intros E; inversion E; subst m; clear E.
      destruct (IH m' eq_refl) as (r0 & Hi & Hm & Ht & Hmin).
      destruct (N.le_ge_cases (rttl r) m') as [Hle|Hle].
      * exists r. repeat split; [now left|exact Em|lia|].
        intros r' [<-|Hi'] Hm'; [lia|]. specialize (Hmin r' Hi' Hm'). lia.
      * exists r0. repeat split; [now right|exact Hm|lia|].
        intros r' [<-|Hi'] Hm'; [lia|]. specialize (Hmin r' Hi' Hm'). lia.
    + intros E; inversion E; subst m; clear E.
      exists r. repeat split; [now left|exact Em|].
      intros r' [<-|Hi'] Hm'; [lia|].
      apply min_ttl_none with (r := r') in El; [congruence|exact Hi'].
  - intros E. destruct (IH m E) as (r0 & Hi & Hm & Ht & Hmin).
    exists r0. repeat split; [now right|exact Hm|exact Ht|].
    intros r' [<-|Hi'] Hm'; [congruence|now apply Hmin].
Qed.

(* ------------------------------------------------------------------ *)
(* clamp_positive_ttls                                                 *)
(* ------------------------------------------------------------------ *)

(* the model's cache duration for a positive answer, as a function *)
Definition model_lifetime (c : cfg) (qt : N) (m : msg) : N :=
  let lo := fst (pos_bounds c qt) in
  let hi := snd (pos_bounds c qt) in
  clamp_spec lo hi (match min_ttl qt (sections (stored_msg c m)) with Some s => s * NS | None => lo end).

Lemma clamp_positive_ok c qt m : wf_cfg c ->
  clamp_positive c qt m = Some (model_lifetime c qt m, stored_msg c m).
Proof.
  intros Hc. unfold clamp_positive. rewrite !clamp_rrs_ok by exact Hc.
  fold (stored_msg c m). unfold model_lifetime.
  destruct (Hc qt) as (Ho & _ & _). unfold ordered in Ho.
  destruct (pos_bounds c qt) as [lo hi]. cbn [fst snd] in *.
  rewrite (clamp_ok lo hi _ Ho). reflexivity.
Qed.

Lemma model_lifetime_is_lifetime c qt m : wf_cfg c -> is_lifetime c qt m (model_lifetime c qt m).
Proof.
  intros Hc. destruct (Hc qt) as (Ho & _ & _). unfold ordered in Ho.
  unfold is_lifetime, model_lifetime. cbv zeta.
  set (lo := fst (pos_bounds c qt)) in *. set (hi := snd (pos_bounds c qt)) in *.
  rewrite sections_stored.
  split; [apply clamp_spec_range; exact Ho|]. split.
  - intros Hno.
    assert (E : min_ttl qt (map (stored_rr c) (sections m)) = None).
    { apply min_ttl_none. intros r Hi. apply in_map_iff in Hi. destruct Hi as (r0 & <- & Hi0).
      rewrite matches_stored. now apply Hno. }
    rewrite E. unfold clamp_spec. lia.
  - intros (r & Hi & Hm).
    destruct (min_ttl qt (map (stored_rr c) (sections m))) as [s|] eqn:E.
    + destruct (min_ttl_some _ _ _ E) as (r1 & Hi1 & Hm1 & Ht1 & Hmin).
      apply in_map_iff in Hi1. destruct Hi1 as (r0 & <- & Hi0).
      exists r0. rewrite matches_stored in Hm1. cbn [stored_rr rttl] in Ht1.
      repeat split; [exact Hi0|exact Hm1| |now rewrite Ht1].
      intros r' Hi' Hm'. rewrite Ht1.
      apply (Hmin (stored_rr c r')); [apply in_map; exact Hi'|now rewrite matches_stored].
    + exfalso. rewrite min_ttl_none in E.
      specialize (E (stored_rr c r) (in_map _ _ _ Hi)). rewrite matches_stored in E. congruence.
Qed.

(* the declarative description determines L *)
Lemma is_lifetime_unique c qt m L1 L2 : is_lifetime c qt m L1 -> is_lifetime c qt m L2 -> L1 = L2.
Proof.
  unfold is_lifetime. cbv zeta. intros (_ & Hn1 & Hs1) (_ & Hn2 & Hs2).
  destruct (existsb (matches qt) (sections m)) eqn:Ex.
  - apply existsb_exists in Ex.
    destruct (Hs1 Ex) as (r1 & Hi1 & Hm1 & Hmin1 & ->).
    destruct (Hs2 Ex) as (r2 & Hi2 & Hm2 & Hmin2 & ->).
    pose proof (Hmin1 r2 Hi2 Hm2). pose proof (Hmin2 r1 Hi1 Hm1).
    replace (stored_ttl c r1) with (stored_ttl c r2) by lia. reflexivity.
  - assert (Hno : forall r, In r (sections m) -> matches qt r = false).
    { intros r Hi. destruct (matches qt r) eqn:Em; [|reflexivity].
      assert (existsb (matches qt) (sections m) = true) by (apply existsb_exists; eauto). congruence. }
    rewrite (Hn1 Hno), (Hn2 Hno). reflexivity.
Qed.

(* ------------------------------------------------------------------ *)
(* entry_for under ordered bounds                                      *)
(* ------------------------------------------------------------------ *)

Definition stored_res (c : cfg) (r : result) : result :=
  match r with ROk m => ROk (stored_msg c m) | _ => r end.

Lemma entry_for_ok c q r t0 : wf_cfg c -> cacheable r = true ->
  exists L, lifetime_of c q r L /\ entry_for c q r t0 = ESome (E (stored_res c r) t0 (t0 + L)).
Proof.
  intros Hc Hca. destruct r as [m|n|k]; [| |discriminate]; cbn [entry_for lifetime_of stored_res].
  - exists (model_lifetime c (qtype q) m). split; [now apply model_lifetime_is_lifetime|].
    now rewrite (clamp_positive_ok c (qtype q) m Hc).
  - exists (neg_lifetime c (qtype q) n). split; [reflexivity|].
    destruct (Hc (qtype q)) as (_ & Ho & _). unfold ordered in Ho. unfold neg_lifetime.
    destruct (nttl n) as [t|]; [|reflexivity]. now rewrite (clamp_ok _ _ (t * NS) Ho).
Qed.

Lemma writes_ok_wf c h : wf_cfg c -> writes_ok c h.
Proof.
  intros Hc. unfold writes_ok. apply Forall_forall. intros o _. destruct o as [q r t| | |]; try exact I.
  destruct (cacheable r) eqn:Hca.
  - destruct (entry_for_ok c q r t Hc Hca) as (L & _ & ->). discriminate.
  - rewrite (entry_for_not_cacheable c q r t Hca). discriminate.
Qed.

(* ------------------------------------------------------------------ *)
(* updated_ttl                                                         *)
(* ------------------------------------------------------------------ *)

Lemma dec_sat e x : x <= U32MAX -> dec (N.min e U32MAX) x = dec e x.
Proof. unfold dec. lia. Qed.

Lemma map_dec_sat e l : u32_list l -> map (dec (N.min e U32MAX)) l = map (dec e) l.
Proof. intros H. apply map_ext_in. intros x Hi. apply dec_sat. unfold u32_list in H. rewrite Forall_forall in H. auto. Qed.

Lemma map_dec_rr_sat e l : Forall (fun r => rttl r <= U32MAX) l ->
  map (dec_rr (N.min e U32MAX)) l = map (dec_rr e) l.
Proof.
  intros H. apply map_ext_in. intros r Hi. unfold dec_rr. f_equal. apply dec_sat.
  rewrite Forall_forall in H. auto.
Qed.

Lemma stored_all_u32 c l : wf_cfg c -> Forall wf_rr l ->
  Forall (fun r => rttl r <= U32MAX) (map (stored_rr c) l).
Proof.
  intros Hc H. apply Forall_forall. intros r Hi. apply in_map_iff in Hi. destruct Hi as (r0 & <- & Hi0).
  cbn [stored_rr rttl]. apply stored_ttl_le; [exact Hc|]. rewrite Forall_forall in H. now apply H.
Qed.

Lemma updated_countdown c r ti vu_ t : wf_cfg c -> wf_res r -> cacheable r = true ->
  updated (E (stored_res c r) ti vu_) t = countdown c r (whole_secs ti t).
Proof.
  intros Hc Hw Hca. unfold updated, elapsed_secs, whole_secs. cbn [t0 eres].
  destruct r as [m|n|k]; [| |discriminate]; cbn [stored_res countdown].
  - f_equal. unfold dec_msg, stored_msg. cbn [ans auth addl].
    unfold wf_msg, sections in Hw. apply Forall_app in Hw. destruct Hw as [Ha Hw].
    apply Forall_app in Hw. destruct Hw as [Hb Hd].
    rewrite !map_dec_rr_sat by (apply stored_all_u32; assumption). reflexivity.
  - f_equal. destruct Hw as (H1 & H2 & H3 & H4). unfold dec_neg.
    destruct n as [a b l1 l2]. cbn [nttl nsoa nauth nns] in *. f_equal.
    + destruct a as [x|]; [|reflexivity]. cbn. f_equal. apply dec_sat. now apply H1.
    + destruct b as [x|]; [|reflexivity]. cbn. f_equal. apply dec_sat. now apply H2.
    + destruct l1 as [l|]; [|reflexivity]. cbn. f_equal. apply map_dec_sat. now apply H3.
    + destruct l2 as [l|]; [|reflexivity]. cbn. f_equal. specialize (H4 l eq_refl).
      apply map_ext_in. intros p Hi. rewrite Forall_forall in H4. destruct (H4 p Hi) as [Hp1 Hp2].
      f_equal; [now apply dec_sat|now apply map_dec_sat].
Qed.

(* ------------------------------------------------------------------ *)
(* monotonicity                                                        *)
(* ------------------------------------------------------------------ *)

Lemma elapsed_mono t0 t1 t2 : t1 <= t2 -> elapsed_secs t0 t1 <= elapsed_secs t0 t2.
Proof.
  intros H. unfold elapsed_secs. apply N.min_le_compat_r. apply N.div_le_mono; [unfold NS; lia|lia].
Qed.

Lemma dec_anti e1 e2 x : e1 <= e2 -> dec e2 x <= dec e1 x.
Proof. unfold dec. lia. Qed.

Lemma Forall2_map_dec e1 e2 l : e1 <= e2 -> Forall2 N.le (map (dec e2) l) (map (dec e1) l).
Proof. intros H. induction l; cbn [map]; constructor; [now apply dec_anti|assumption]. Qed.

Lemma Forall2_map_dec_rr e1 e2 l : e1 <= e2 -> Forall2 rr_le (map (dec_rr e2) l) (map (dec_rr e1) l).
Proof.
  intros H. induction l as [|r l IH]; cbn [map]; constructor; [|assumption].
  split; [reflexivity|cbn [dec_rr rttl]; now apply dec_anti].
Qed.

Lemma updated_mono e t1 t2 : cacheable (eres e) = true -> t1 <= t2 -> res_le (updated e t2) (updated e t1).
Proof.
  intros Hca Ht. pose proof (elapsed_mono (t0 e) t1 t2 Ht) as He. unfold updated.
  destruct (eres e) as [m|n|k]; [| |discriminate]; cbn [res_le].
  - unfold msg_le, dec_msg. cbn [ans auth addl]. repeat split; now apply Forall2_map_dec_rr.
  - unfold neg_le, dec_neg. cbn [nttl nsoa nauth nns]. repeat split.
    + destruct (nttl n); cbn; [now apply dec_anti|exact I].
    + destruct (nsoa n); cbn; [now apply dec_anti|exact I].
    + destruct (nauth n); cbn; [now apply Forall2_map_dec|exact I].
    + destruct (nns n) as [l|]; cbn; [|exact I].
      induction l as [|p l IH]; cbn [map]; constructor; [|exact IH].
      split; cbn [fst snd]; [now apply dec_anti|now apply Forall2_map_dec].
Qed.

(* ------------------------------------------------------------------ *)
(* deciding wf_cfg                                                     *)
(* ------------------------------------------------------------------ *)

Definition bounds_okb (b : bounds) : bool :=
  let plo := odflt (pmin b) 0 in let phi := odflt (pmax b) (MAX_TTL * NS) in
  let nlo := odflt (nmin b) 0 in let nhi := odflt (nmax b) (MAX_TTL * NS) in
  (plo <=? phi) && (nlo <=? nhi) && (u32_or_max (plo / NS) <=? u32_or_max (phi / NS)).

Definition wf_cfgb (c : cfg) : bool := bounds_okb (dflt c) && forallb (fun p => bounds_okb (snd p)) (by_type c).

Lemma assoc_in {A} k (l : list (N * A)) v : assoc k l = Some v -> In (k, v) l.
Proof.
  induction l as [|[k' v'] l IH]; cbn [assoc]; [discriminate|].
  destruct (N.eqb_spec k k') as [->|Hn]; [intros E; inversion E; now left|intros E; right; auto].
Qed.

Lemma wf_cfgb_sound c : wf_cfgb c = true -> wf_cfg c.
Proof.
  unfold wf_cfgb. rewrite andb_true_iff, forallb_forall. intros [Hd Hl] ty.
  assert (Hb : bounds_okb (bounds_for c ty) = true).
  { unfold bounds_for. destruct (assoc ty (by_type c)) as [b|] eqn:Ea; [|exact Hd].
    apply assoc_in in Ea. exact (Hl _ Ea). }
  unfold bounds_okb in Hb. cbv zeta in Hb. rewrite !andb_true_iff, !N.leb_le in Hb.
  destruct Hb as [[H1 H2] H3].
  unfold ordered. rewrite pos_bounds_secs_eq. unfold pos_bounds, neg_bounds. cbn [fst snd].
  repeat split; assumption.
Qed.
