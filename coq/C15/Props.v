(* C15 — property theorems (statements; proofs are applications of lemmas proved in
   CacheProofs.v / TtlProofs.v / HistProofs.v / ExtraProofs.v).  Print Assumptions under each.

   Vocabulary (Model.v): a history [h] is any list of insert / get / clear / drop operations
   (drop = clear_query, or moka evicting the entry on its own) with ARBITRARY instants (the
   theorems do not even need them to be non-decreasing); [after c h] is the cache content after
   [h] from the empty cache under configuration [c]; instants and Durations are nanoseconds.
   [wf_cfg c]: every configured-or-default (min, max) pair is ordered — the configurations of
   the statement.  [wf_hist h]: inserted TTLs are u32.  [untouched q h1]: no cacheable insert
   for [q], no clear and no drop of [q] in [h1].  [lifetime_of c q res L]: L is "the smallest
   stored TTL among the records of the query type or CNAME (any section), clamped to the
   bounds of the query type" resp. the clamped negative TTL, stated declaratively.
   [countdown c res e]: every record TTL clamped by the bounds of its OWN type, minus [e],
   floored at 0. *)
From HV Require Import Lib.Base C15.Model C15.CacheProofs C15.TtlProofs C15.HistProofs C15.ExtraProofs C15.RawProofs.
Open Scope N_scope.

(* Expiry + TTL formula, positive and negative: whatever the history, a hit comes from the last
   cacheable insertion for that query that nothing touched since, at most L after it, and every
   TTL it reports is the stored (per-type clamped) TTL minus the whole seconds elapsed. *)
Theorem C15_hit_sound : forall c h q t r, wf_cfg c -> wf_hist h ->
  get (after c h) q t = Some r ->
  exists h0 res t0 h1 L,
    h = h0 ++ OIns q res t0 :: h1 /\ untouched q h1 /\ cacheable res = true /\
    lifetime_of c q res L /\ t <= t0 + L /\ r = countdown c res (whole_secs t0 t).
Proof. exact hit_sound. Qed.
Print Assumptions C15_hit_sound.

(* The converse (the model has no eviction of its own: that is the operation ODrop): an
   insertion nothing touched is served at every instant up to and including t0 + L ... *)
Theorem C15_hit_complete : forall c h0 q res t0 h1 t L,
  wf_cfg c -> wf_res res -> cacheable res = true -> untouched q h1 ->
  lifetime_of c q res L -> t <= t0 + L ->
  get (after c (h0 ++ OIns q res t0 :: h1)) q t = Some (countdown c res (whole_secs t0 t)).
Proof. exact hit_complete. Qed.
Print Assumptions C15_hit_complete.

(* ... and at no later instant. *)
Theorem C15_miss_after_expiry : forall c h0 q res t0 h1 t L,
  wf_cfg c -> cacheable res = true -> untouched q h1 ->
  lifetime_of c q res L -> t0 + L < t ->
  get (after c (h0 ++ OIns q res t0 :: h1)) q t = None.
Proof. exact miss_after_expiry. Qed.
Print Assumptions C15_miss_after_expiry.

(* Between refreshes TTLs never increase: two hits for a query with nothing touching it in
   between, the later one reports pointwise smaller-or-equal TTLs (every configuration). *)
Theorem C15_monotone : forall c h h' q t1 t2 r1 r2,
  untouched q h' -> t1 <= t2 ->
  get (after c h) q t1 = Some r1 -> get (after c (h ++ h')) q t2 = Some r2 -> res_le r2 r1.
Proof. exact monotone. Qed.
Print Assumptions C15_monotone.

(* Transient errors are never cached: inserting one changes nothing, no get ever returns one,
   and a query for which the history holds no cacheable insertion is a miss (every
   configuration, every history). *)
Theorem C15_transient_not_cached : forall c,
  (forall s q k t, insert c s q (RErr k) t = Done s) /\
  (forall h q t k, get (after c h) q t <> Some (RErr k)) /\
  (forall h q t, untouched q h -> get (after c h) q t = None).
Proof.
  intros c. split; [reflexivity|]. split; [apply get_never_transient|apply get_none_untouched].
Qed.
Print Assumptions C15_transient_not_cached.

(* insert never panics — refuted: a minimum of two days with the maximum left at its default
   (one day) makes u32::clamp panic on the first record (DESIGN §10 F10) ... *)
Theorem C15_no_panic_refuted :
  exists c h, wf_hist h /\ In VPanic (snd (run c [] h)).
Proof.
  exists two_day_min, [OIns (0, 1) (ROk (Msg [RR 1 60] [] [])) 0]. split.
  - wf_tac.
  - vm_compute. now left.
Qed.
Print Assumptions C15_no_panic_refuted.

(* ... and even bounds that are ordered as Durations can panic, because whole seconds above
   u32::MAX are replaced by MAX_TTL before the record clamp. *)
Theorem C15_no_panic_duration_ordered_refuted :
  exists c h, dur_ordered c /\ wf_hist h /\ In VPanic (snd (run c [] h)).
Proof.
  exists beyond_u32, [OIns (0, 1) (ROk (Msg [RR 1 60] [] [])) 0]. split; [|split].
  - intros ty. unfold ordered, pos_bounds, neg_bounds, bounds_for. cbn [by_type beyond_u32 assoc dflt].
    vm_compute. split; discriminate.
  - wf_tac.
  - vm_compute. now left.
Qed.
Print Assumptions C15_no_panic_duration_ordered_refuted.

(* Guarded: with every (min, max) pair ordered — as Durations and as the whole seconds the
   record clamp uses — no operation of any history panics. *)
Theorem C15_no_panic_guarded : forall c h s, wf_cfg c -> ~ In VPanic (snd (run c s h)).
Proof. intros c h s Hc. now apply run_no_panic. Qed.
Print Assumptions C15_no_panic_guarded.

(* The negative TTL a hit REPORTS is the received one minus the elapsed seconds; unlike the
   record TTLs of positive answers it is not clamped to the negative bounds.  "A reported
   negative TTL never points beyond the entry's own expiry" is therefore refuted
   (negative_max_ttl = 5 s, received negative TTL 10: reported 10 at the instant of insertion) *)
Theorem C15_negative_reported_ttl_refuted :
  exists c h q t n x t0 L,
    wf_cfg c /\ wf_hist h /\ h = [OIns q (RNoRec n) t0] /\ lifetime_of c q (RNoRec n) L /\
    get (after c h) q t = Some (RNoRec (dec_neg (whole_secs t0 t) n)) /\
    nttl (dec_neg (whole_secs t0 t) n) = Some x /\ t0 + L + NS <= t + x * NS.
Proof.
  exists neg_max_5, [OIns (0, 1) (RNoRec (Neg (Some 10) None None None)) 0], (0, 1), 0,
         (Neg (Some 10) None None None), 10, 0, (5 * NS).
  split; [apply wf_cfgb_sound; reflexivity|].
  split; [wf_tac|].
  split; [reflexivity|]. split; [reflexivity|]. split; [reflexivity|]. split; [reflexivity|].
  vm_compute. discriminate.
Qed.
Print Assumptions C15_negative_reported_ttl_refuted.

(* Guarded: when the received negative TTL lies within the configured negative bounds, the
   reported negative TTL of every hit ends less than one second after the entry's expiry. *)
Theorem C15_negative_reported_ttl_guarded : forall c q n t0 t x0,
  nttl n = Some x0 ->
  fst (neg_bounds c (qtype q)) <= x0 * NS <= snd (neg_bounds c (qtype q)) ->
  t0 <= t <= t0 + neg_lifetime c (qtype q) n ->
  forall x, nttl (dec_neg (whole_secs t0 t) n) = Some x ->
  t + x * NS < t0 + neg_lifetime c (qtype q) n + NS.
Proof. exact neg_reported_within. Qed.
Print Assumptions C15_negative_reported_ttl_guarded.

(* The other reading of L — the smallest RECEIVED TTL of the query type / CNAME clamped to the
   query type's bounds — is refuted: records are first clamped by the bounds of their own type,
   so a CNAME with its own minimum of 100 s keeps an A answer alive for 100 s although the
   received CNAME TTL was 5 s and the A bounds would leave it at 5 s. *)
Theorem C15_raw_ttl_reading_refuted :
  exists c q m t, wf_cfg c /\ wf_msg m /\
    raw_lifetime c (qtype q) m < t /\ get (after c [OIns q (ROk m) 0]) q t <> None.
Proof.
  exists cname_min_100, (0, 1), (Msg [RR 5 5] [] []), (100 * NS).
  split; [apply wf_cfgb_sound; reflexivity|]. split; [wf_tac|].
  split; [vm_compute; reflexivity|vm_compute; discriminate].
Qed.
Print Assumptions C15_raw_ttl_reading_refuted.

(* Guarded: when the records that determine L fall under the same bounds as the query type
   (e.g. no per-type override for CNAME) and the maximum is below 2^32 s, no answer is served
   later than the received-TTL reading allows (it may expire earlier, by less than a second,
   when the maximum is not a whole number of seconds). *)
Theorem C15_raw_ttl_reading_guarded : forall c h0 q m t0 h1 t r,
  wf_cfg c -> same_bounds c (qtype q) m -> snd (pos_bounds c (qtype q)) / NS <= U32MAX ->
  untouched q h1 ->
  get (after c (h0 ++ OIns q (ROk m) t0 :: h1)) q t = Some r -> t <= t0 + raw_lifetime c (qtype q) m.
Proof. exact raw_guarded. Qed.
Print Assumptions C15_raw_ttl_reading_guarded.

(* DnsResponse::negative_ttl: the negative TTL of a response is min(TTL, MINIMUM) of the first
   SOA of the authority section, absent iff there is no SOA. *)
Theorem C15_negative_ttl_derivation : forall l,
  (forall x, negative_ttl l = Some x <->
     exists l1 r l2 m, l = l1 ++ r :: l2 /\ Forall (fun a => aminimum a = None) l1 /\
                       aminimum r = Some m /\ x = N.min (attl r) m) /\
  (negative_ttl l = None <-> Forall (fun a => aminimum a = None) l).
Proof. intros l. split; [intros x; apply negative_ttl_spec|apply negative_ttl_none]. Qed.
Print Assumptions C15_negative_ttl_derivation.

(* CachingClient::lookup (shapes of Model.v: A query, A answers of the query name, NS/SOA
   authority): a failed upstream call or an error response code (FormErr, ServFail, NotImp,
   Refused, YX/NX-RRSet..., BADSIG...) is returned without touching the cache; what is inserted is
   either the positive answer, or the NoRecords of a non-truncated NoError/NXDomain response
   without answers, carrying the negative TTL of C15_negative_ttl_derivation. *)
Theorem C15_caching_client_inserts : forall u,
  (uerr u = true \/ rcode_is_error (urc u) = true -> cc_lookup u = (RErr 99, None)) /\
  (forall r, snd (cc_lookup u) = Some r ->
     uerr u = false /\ rcode_is_error (urc u) = false /\ cacheable r = true /\
     ((exists n, r = RNoRec n /\ nttl n = negative_ttl (uauth u) /\ uans u = [] /\ utc u = false /\
                 (urc u = 0 \/ urc u = 3)) \/
      (exists m, r = ROk m /\ uans u <> [] /\ ans m = map (RR 1) (uans u)))).
Proof. intros u. split; [apply cc_lookup_errors|apply cc_lookup_inserts]. Qed.
Print Assumptions C15_caching_client_inserts.

(* ------------------------------------------------------------------ *)
(* Non-vacuity: the hypotheses above are met by non-trivial values.    *)
(* ------------------------------------------------------------------ *)

(* per-type bounds (CNAME minimum 100 s, A maximum 50 s, sub-second default minimum), mixed
   sections, a re-insert while live, a transient error, another query, a drop of another query *)
Definition ex_cfg : cfg :=
  Cfg (B (Some (2 * NS + 500000000)) (Some (3 * NS)) None (Some (60 * NS)))
      [(5, B (Some (100 * NS)) None None None); (1, B None None (Some (50 * NS)) None)].
Definition ex_msg : msg := Msg [RR 5 5; RR 1 70] [RR 2 7] [RR 1 90; RR 28 1].
Definition ex_hist : list op :=
  [OIns (0, 1) (ROk (Msg [RR 1 10] [] [])) 0; OGet (0, 1) NS;
   OIns (0, 1) (ROk ex_msg) (4 * NS);
   OIns (0, 1) (RErr 2) (5 * NS); OIns (1, 28) (RNoRec (Neg (Some 1) (Some 9) (Some [9; 4]) (Some [(8, [7])]))) (5 * NS);
   ODrop (1, 1); OGet (1, 28) (6 * NS)].

Example C15_ex_wf : wf_cfg ex_cfg /\ wf_hist ex_hist.
Proof.
  split; [apply wf_cfgb_sound; reflexivity|].
  unfold ex_hist, ex_msg. wf_tac.
Qed.

(* the stored answer: CNAME 5 -> 100 (own minimum), A 70 -> 50 (own maximum), NS 7 -> 7;
   L = min(100, 50, 50) s clamped to A's [0, 50 s] = 50 s; the hit at exactly t0 + L *)
Example C15_ex_hit :
  untouched (0, 1) (skipn 3 ex_hist) /\
  lifetime_of ex_cfg (0, 1) (ROk ex_msg) (50 * NS) /\
  get (after ex_cfg ex_hist) (0, 1) (54 * NS) =
    Some (ROk (Msg [RR 5 50; RR 1 0] [RR 2 0] [RR 1 0; RR 28 0])) /\
  get (after ex_cfg ex_hist) (0, 1) (54 * NS + 1) = None /\
  get (after ex_cfg ex_hist) (0, 1) (10 * NS + 999999999) =
    Some (ROk (Msg [RR 5 94; RR 1 44] [RR 2 1] [RR 1 44; RR 28 0])).
Proof.
  split; [repeat constructor|]. split; [|repeat split; reflexivity].
  assert (E : 50 * NS = model_lifetime ex_cfg 1 ex_msg) by reflexivity.
  cbn [lifetime_of qtype snd]. rewrite E. apply model_lifetime_is_lifetime.
  apply wf_cfgb_sound. reflexivity.
Qed.

(* negative entry: negative TTL 1 s raised to the negative minimum 3 s; reported TTLs count
   down from the received values *)
Example C15_ex_negative :
  lifetime_of ex_cfg (1, 28) (RNoRec (Neg (Some 1) (Some 9) (Some [9; 4]) (Some [(8, [7])]))) (3 * NS) /\
  get (after ex_cfg ex_hist) (1, 28) (8 * NS) =
    Some (RNoRec (Neg (Some 0) (Some 6) (Some [6; 1]) (Some [(5, [4])]))) /\
  get (after ex_cfg ex_hist) (1, 1) (8 * NS + 1) = None.
Proof. repeat split; reflexivity. Qed.

(* monotone: two hits with a transient insert and foreign operations in between *)
Example C15_ex_monotone :
  let h := firstn 3 ex_hist in let h' := skipn 3 ex_hist in
  untouched (0, 1) h' /\
  exists r1 r2, get (after ex_cfg h) (0, 1) (5 * NS) = Some r1 /\
                get (after ex_cfg (h ++ h')) (0, 1) (20 * NS) = Some r2 /\ r1 <> r2.
Proof.
  cbv zeta. split; [repeat constructor|].
  eexists. eexists. split; [reflexivity|]. split; [reflexivity|]. vm_compute. discriminate.
Qed.

(* the guard of C15_negative_reported_ttl_guarded is met (negative TTL 10 within [3 s, 60 s]) *)
Example C15_ex_negative_guard :
  let n := Neg (Some 10) None None None in
  nttl n = Some 10 /\
  fst (neg_bounds ex_cfg 28) <= 10 * NS <= snd (neg_bounds ex_cfg 28) /\
  7 * NS <= 11 * NS + 5 <= 7 * NS + neg_lifetime ex_cfg 28 n /\
  nttl (dec_neg (whole_secs (7 * NS) (11 * NS + 5)) n) = Some 6.
Proof. cbv zeta. split; [reflexivity|]. split; [vm_compute; split; discriminate|]. split; [vm_compute; split; discriminate|reflexivity]. Qed.

Example C15_ex_negative_ttl :
  negative_ttl [AR 30 None; AR 300 (Some 60); AR 5 (Some 1)] = Some 60 /\
  negative_ttl [AR 30 None] = None.
Proof. split; reflexivity. Qed.

(* the guard of C15_raw_ttl_reading_guarded is met by a per-type configuration: AAAA query,
   AAAA records only (default bounds for both), sub-second default minimum *)
Example C15_ex_raw_guard :
  let m := Msg [RR 28 1; RR 28 9] [RR 2 3] [] in
  same_bounds ex_cfg 28 m /\ snd (pos_bounds ex_cfg 28) / NS <= U32MAX /\
  raw_lifetime ex_cfg 28 m = 2 * NS + 500000000 /\
  get (after ex_cfg [OIns (0, 28) (ROk m) 0]) (0, 28) (2 * NS + 500000000) <> None.
Proof.
  cbv zeta. split; [|split; [vm_compute; discriminate|split; [reflexivity|vm_compute; discriminate]]].
  intros r Hi Hm. cbn [sections ans auth addl app] in Hi.
  repeat (destruct Hi as [<-|Hi]; [try reflexivity; try (cbn in Hm; discriminate)|]). destruct Hi.
Qed.

(* caching client: ServFail is returned uncached; an NXDomain with an SOA is cached for
   min(TTL, MINIMUM) = 60 s and served again within the same second without a second upstream
   call; an answer with TTL 100000 comes back clamped to MAX_TTL *)
Example C15_ex_caching_client :
  cc_two (Up 2 false [300] [AR 600 (Some 60)] false) = (RErr 99, 2, RErr 99) /\
  snd (cc_lookup (Up 3 false [] [AR 30 None; AR 600 (Some 60)] false)) =
    Some (RNoRec (Neg (Some 60) (Some 600) (Some [30; 600]) (Some [(30, [])]))) /\
  snd (fst (cc_two (Up 3 false [] [AR 30 None; AR 600 (Some 60)] false))) = 1 /\
  cc_two (Up 0 false [100000; 7] [] false) =
    (ROk (Msg [RR 1 86400; RR 1 7] [] []), 1, ROk (Msg [RR 1 86400; RR 1 7] [] [])).
Proof. repeat split; reflexivity. Qed.
