(* C05 — correspondence glue: cases written by the Rust harness (inputs, what the real
   TBS::from_input / Ord for Record returned, and what the harness's RFC reference
   canonicaliser returned) are re-run on the model and on the Gallina spec and compared. *)
From HV Require Import Lib.Base Lib.Pack C05.Model.
Open Scope N_scope.

(* names travel as their uncompressed wire form *)
Fixpoint parse_labels (fuel : nat) (w : list byte) : list label :=
  match fuel with
  | O => []
  | S fuel' =>
      match w with
      | [] => []
      | 0 :: _ => []
      | n :: rest => firstn (N.to_nat n) rest :: parse_labels fuel' (skipn (N.to_nat n) rest)
      end
  end.
Definition pname (p : pbytes) : list label := let w := unpack p in parse_labels (length w) w.

Inductive fieldh := HB (b : pbytes) | HN (w : pbytes).
Definition field_of (f : fieldh) : field := match f with HB b => FB (unpack b) | HN w => FN (pname w) end.

Inductive rrh := HR (fq : bool) (owner : pbytes) (cls ttl typ : N) (data : list fieldh).
Definition rr_of (r : rrh) : rr :=
  match r with HR fq o c ttl t d => mkRR (Nm fq (pname o)) c ttl t (map field_of d) end.

Inductive sigh := HS (typ alg labels ottl exp inc tag : N) (signer : pbytes).
Definition sig_of (s : sigh) : sigin :=
  match s with HS t a l o e i k n => mkSig t a l o e i k (pname n) end.

(* impl: 0 = Ok with [out], 1 = "could not determine name", 2 = any other error.
   ref:  0 = reference equals [out] (no second copy shipped), 1 = reference says "must not be
   used", 2 = reference bytes are [refb] *)
Inductive case :=
| CTbs (fq : bool) (owner : pbytes) (cls : N) (s : sigh) (rs : list rrh)
       (tag : N) (out : pbytes) (rtag : N) (refb : pbytes)
| CCmp (typ : N) (ttl1 : N) (d1 : list fieldh) (ttl2 : N) (d2 : list fieldh) (ord : N).

Definition res_tag (r : result) : N := match r with Ok _ => 0 | ErrName => 1 | ErrEncode => 2 end.
Definition res_bytes (r : result) : list byte := match r with Ok b => b | _ => [] end.
Definition cmp_tag (c : comparison) : N := match c with Lt => 0 | Eq => 1 | Gt => 2 end.

Definition check (c : case) : bool :=
  match c with
  | CTbs fq owner cls s rs tag out rtag refb =>
      let nm := Nm fq (pname owner) in
      let rs' := map rr_of rs in
      let o := unpack out in
      let m := tbs nm cls (sig_of s) rs' in
      N.eqb (res_tag m) tag && bytes_eqb (res_bytes m) o &&
      match rfc_signed_data nm cls (sig_of s) rs' with
      | None => N.eqb rtag 1
      | Some d => match rtag with
                  | 0 => bytes_eqb d o
                  | 2 => bytes_eqb d (unpack refb)
                  | _ => false
                  end
      end
  | CCmp t ttl1 d1 ttl2 d2 ord =>
      let nm := Nm true [] in
      N.eqb (cmp_tag (rec_cmp (mkRR nm 1 ttl1 t (map field_of d1)) (mkRR nm 1 ttl2 t (map field_of d2)))) ord
  end.

Definition bad (cs : list case) : list N := bad_idx check 0 cs.

(* full model output for one case (used in replay files):
   (model tag, model bytes, spec defined?, spec bytes, known-deviation class?) *)
Definition show (c : case) :=
  match c with
  | CTbs fq owner cls s rs _ _ _ _ =>
      let nm := Nm fq (pname owner) in
      let rs' := map rr_of rs in
      let m := tbs nm cls (sig_of s) rs' in
      (res_tag m, res_bytes m, rfc_signed_data nm cls (sig_of s) rs', known_deviation nm cls (sig_of s) rs')
  | CCmp t ttl1 d1 ttl2 d2 _ =>
      (cmp_tag (rec_cmp (mkRR (Nm true []) 1 ttl1 t (map field_of d1)) (mkRR (Nm true []) 1 ttl2 t (map field_of d2))),
       to_bytes t (map field_of d1), Some (to_bytes t (map field_of d2)), false)
  end.
