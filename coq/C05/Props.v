(* C05 — property theorems.  Model = Part 1 of Model.v (TBS::new, determine_name, SigInput::emit,
   Ord for Record / RData, the encoder modes); spec = Part 2 (RFC 4034 6.2/6.3 + RFC 6840 5.1,
   RFC 4035 5.3.2).  Proofs are in NameProofs / OrderProofs / EncodeProofs / GuardProofs /
   PermProofs; here only statements, short glue, witnesses and non-vacuity examples. *)
From Coq Require Import Sorting.Sorted Sorting.Permutation.
From HV Require Import Lib.Base C05.Model C05.NameProofs C05.OrderProofs C05.EncodeProofs C05.GuardProofs
  C05.ShapeProofs C05.CompressProofs C05.PermProofs.
Open Scope N_scope.

(* ------------------------------------------------------------------ *)
(* 1. The owner name of every RR(i)                                    *)
(* ------------------------------------------------------------------ *)

(* determine_name implements RFC 4035 5.3.2 "To calculate the name" for every well-formed owner
   and every Labels value: same name (same labels, "*" kept), "*" + rightmost labels, or refusal;
   it never fails for another reason (the 255-octet test of append_name cannot fire). *)
Theorem C05_determine_name_is_rfc : forall n k,
  wf_labels (nlabels n) ->
  option_map nlabels (determine_name n k) = rfc_name (nlabels n) k.
Proof. exact determine_name_is_rfc. Qed.
Print Assumptions C05_determine_name_is_rfc.

(* ------------------------------------------------------------------ *)
(* 2. RRSIG RDATA prefix                                               *)
(* ------------------------------------------------------------------ *)

(* SigInput::emit writes the RRSIG RDATA fields in RFC order with the signer's name uncompressed
   and in lower case, and cannot fail for a well-formed signer name. *)
Theorem C05_rrsig_rdata_is_rfc : forall s,
  wf_sig s -> exists ps, emit_siginput 0 [] s = Some (rfc_sig_rdata s, ps).
Proof. exact emit_siginput_plain. Qed.
Print Assumptions C05_rrsig_rdata_is_rfc.

(* ------------------------------------------------------------------ *)
(* 3. Each RR(i)                                                       *)
(* ------------------------------------------------------------------ *)

(* The per-type name policy of the emitters is the RFC 4034 6.2 / RFC 6840 5.1 list, except for
   the 14 listed types hickory has no typed RDATA for (refuted for those: see
   C05_unknown_type_refuted). *)
Theorem C05_downcase_list_guarded : forall t,
  ~ In t unimplemented_downcase -> impl_lower t = rfc_downcase t.
Proof. exact policy_agrees. Qed.
Print Assumptions C05_downcase_list_guarded.

(* For those types every RR is emitted in RFC 4034 6.2 canonical form: lower-case owner, covered
   type, class, Original TTL, RDATA length, RDATA with names expanded and downcased per the list
   -- at any buffer offset and whatever label pointers were recorded before; the only failure
   is the 65535-octet buffer limit. *)
Theorem C05_rr_encoding_is_canonical_guarded : forall owner s cls off ps r,
  wf_labels owner -> Forall wf_field (r_data r) -> off <= MAX ->
  ~ In (r_type r) unimplemented_downcase ->
  let o := canon_rr (lower_labels owner) (s_type s) cls (s_ottl s) (canon_rdata (r_type r) (r_data r)) in
  if MAX <? off + len o then emit_rr owner s cls off ps r = None
  else exists ps', emit_rr owner s cls off ps r = Some (o, ps').
Proof.
  intros owner s cls off ps r Ho Hf Hoff Ht.
  pose proof (emit_rr_plain owner s cls off ps r Ho Hf Hoff) as H. cbv zeta in *.
  unfold impl_rr, impl_canon in H. rewrite (policy_agrees _ Ht) in H. exact H.
Qed.
Print Assumptions C05_rr_encoding_is_canonical_guarded.

(* ------------------------------------------------------------------ *)
(* 4. The spec's RRset order is well defined                           *)
(* ------------------------------------------------------------------ *)

(* "distinct RRs in canonical order" is a function of the set of canonical RDATAs: usort returns
   a strictly increasing list with the same elements, and any list with these two properties is
   that list. *)
Theorem C05_rfc_order_is_characterised : forall rds,
  canonical_order (usort rds) rds /\ forall l, canonical_order l rds -> l = usort rds.
Proof.
  intros rds. split; [apply usort_canonical|].
  intros l H. exact (canonical_order_unique _ _ _ H (usort_canonical rds)).
Qed.
Print Assumptions C05_rfc_order_is_characterised.

(* ------------------------------------------------------------------ *)
(* 5. The signed data                                                  *)
(* ------------------------------------------------------------------ *)

(* Outside the known deviation class (all member TTLs equal, no two members with the same
   canonical RDATA, every member's sort-key encoding equal to its canonical RDATA) TBS::new
   returns exactly the RFC 4035 5.3.2 signed data for every owner, class, RRSIG parameter tuple
   and record list (any order, any noise records, any owner case); it refuses exactly when the
   RFC says the RRSIG must not be used; and the one further failure is the encoder's 65535-octet
   limit on the signed data (the RFC has none: see C05_size_limit_refuted). *)
Theorem C05_tbs_is_rfc_guarded : forall nm cls s rs,
  wf_labels (nlabels nm) -> wf_sig s -> Forall wf_rr (the_rrset nm cls s rs) ->
  known_deviation nm cls s rs = false ->
  tbs nm cls s rs = match rfc_signed_data nm cls s rs with
                    | None => ErrName
                    | Some d => if MAX <? len d then ErrEncode else Ok d
                    end.
Proof. exact tbs_is_rfc_guarded. Qed.
Print Assumptions C05_tbs_is_rfc_guarded.

(* What holds for EVERY input, the deviation class included (types on the unimplemented list
   excepted): the signed data is the RRSIG RDATA followed by the RFC canonical RR of each member
   record -- every one, duplicates kept -- in some order; so the only possible deviations are
   the order and the duplicates (F3), and the size limit. *)
Theorem C05_tbs_is_rfc_up_to_order : forall nm cls s rs,
  wf_labels (nlabels nm) -> wf_sig s -> Forall wf_rr (the_rrset nm cls s rs) ->
  ~ In (s_type s) unimplemented_downcase ->
  exists l, Permutation l (the_rrset nm cls s rs) /\
    tbs nm cls s rs =
      match rfc_name (lower_labels (nlabels nm)) (s_labels s) with
      | None => ErrName
      | Some owner =>
          let d := rfc_sig_rdata s ++ concat (map (fun r => canon_rr owner (s_type s) cls (s_ottl s) (cn r)) l) in
          if MAX <? len d then ErrEncode else Ok d
      end.
Proof. exact tbs_is_rfc_up_to_order. Qed.
Print Assumptions C05_tbs_is_rfc_up_to_order.

(* --- witnesses that the guard is needed (each replayed on the real code by the harness:
       fixed cases 0, 1, 2, 6, 3) *)

Definition ex : label := [101; 120; 97; 109; 112; 108; 101].   (* "example" *)
Definition Ex : label := [69; 120; 97; 109; 112; 108; 101].    (* "Example" *)
Definition net : label := [110; 101; 116].
Definition NET : label := [78; 69; 84].
Definition wsig (t : N) : sigin := mkSig t 13 1 3600 1700000000 1690000000 12345 [Ex].
Definition wrr (t ttl : N) (d : list field) : rr := mkRR (Nm true [ex]) 1 ttl t d.

(* inputs are well formed, the RFC signed data is defined and fits, yet TBS::new returns
   something else *)
Definition deviates (nm : name) (cls : N) (s : sigin) (rs : list rr) : Prop :=
  wf_labels (nlabels nm) /\ wf_sig s /\ Forall wf_rr rs /\
  exists d, rfc_signed_data nm cls s rs = Some d /\ len d <= MAX /\ tbs nm cls s rs <> Ok d.

Ltac wf_tac :=
  cbv beta iota delta [nlabels s_signer r_data wsig wrr wf_sig wf_rr wf_labels wf_field wf_label];
  repeat match goal with
  | |- _ /\ _ => split
  | |- Forall _ (_ :: _) => constructor
  | |- Forall _ [] => constructor
  | |- True => exact I
  | |- _ <> _ => discriminate
  | |- (_ <= _)%N => vm_compute; discriminate
  end.

Ltac deviates_tac :=
  unfold deviates; split; [|split; [|split]];
  [wf_tac | wf_tac | wf_tac
  | eexists; split; [vm_compute; reflexivity|split; [vm_compute; discriminate|vm_compute; intros H; discriminate H]]].

(* F3a: NS {B.example., a.example.}: sorted by the case-preserving octets ('B' < 'a') *)
Theorem C05_tbs_is_rfc_refuted_case_order :
  deviates (Nm true [ex]) 1 (wsig 2) [wrr 2 3600 [FN [[66]; ex]]; wrr 2 3600 [FN [[97]; ex]]].
Proof. deviates_tac. Qed.
Print Assumptions C05_tbs_is_rfc_refuted_case_order.

(* F3b: the record TTL is compared before the RDATA *)
Theorem C05_tbs_is_rfc_refuted_ttl_order :
  deviates (Nm true [ex]) 1 (wsig 1) [wrr 1 60 [FB [192; 0; 2; 2]]; wrr 1 30 [FB [192; 0; 2; 9]]].
Proof. deviates_tac. Qed.
Print Assumptions C05_tbs_is_rfc_refuted_ttl_order.

(* F3c: duplicate records are not removed *)
Theorem C05_tbs_is_rfc_refuted_duplicate :
  deviates (Nm true [ex]) 1 (wsig 1) [wrr 1 60 [FB [192; 0; 2; 2]]; wrr 1 60 [FB [192; 0; 2; 2]]].
Proof. deviates_tac. Qed.
Print Assumptions C05_tbs_is_rfc_refuted_duplicate.

(* F3d: SOA sort key with the second name compressed against the first (pointer octet 0xC0
   sorts after any label length) *)
Theorem C05_tbs_is_rfc_refuted_compression :
  deviates (Nm true [ex]) 1 (wsig 6)
    [wrr 6 3600 [FN [[110; 115]; ex]; FN [[110; 115]; ex]; FB (repeat 0 20)];
     wrr 6 3600 [FN [[110; 115]; ex]; FN [[122; 122]]; FB (repeat 0 20)]].
Proof. deviates_tac. Qed.
Print Assumptions C05_tbs_is_rfc_refuted_compression.

(* F12: DNAME (RFC 4034 6.2 list) target is not downcased *)
Theorem C05_tbs_is_rfc_refuted_unknown_type :
  deviates (Nm true [ex]) 1 (wsig 39) [wrr 39 3600 [FN [Ex; NET]]].
Proof. deviates_tac. Qed.
Print Assumptions C05_tbs_is_rfc_refuted_unknown_type.

(* F13: RFC signed data longer than 65535 octets: an error instead of octets, although the RRset
   (two TXT records of 32745 octets under a 5-octet owner) fits a 65535-octet DNS message *)
Definition big_txt (c : N) : list field := [FB (repeat c (N.to_nat 32745))].
Theorem C05_size_limit_refuted :
  let nm := Nm true [[97]; [98]] in
  let rs := [mkRR nm 1 300 16 (big_txt 97); mkRR nm 1 300 16 (big_txt 98)] in
  known_deviation nm 1 (wsig 16) rs = false /\
  (exists d, rfc_signed_data nm 1 (wsig 16) rs = Some d) /\
  tbs nm 1 (mkSig 16 13 2 3600 1700000000 1690000000 12345 [Ex]) rs = ErrEncode.
Proof.
  cbv zeta. split; [vm_compute; reflexivity|]. split; [eexists; reflexivity|].
  vm_compute. reflexivity.
Qed.
Print Assumptions C05_size_limit_refuted.

(* ------------------------------------------------------------------ *)
(* 6. Independence of record order: built-in sign / built-in verify    *)
(* ------------------------------------------------------------------ *)

(* Ord for RData (comparison of RData::to_bytes, names possibly compressed against earlier names
   of the same RDATA) identifies the RDATA: two field lists of one layout with the same
   to_bytes octets are equal -- for every type policy, the compressing one included. *)
Theorem C05_sort_key_is_injective : forall t f1 f2,
  same_shape f1 f2 -> Forall wf_field f1 -> Forall wf_field f2 ->
  len (raw_fields f1) <= 65535 -> len (raw_fields f2) <= 65535 ->
  to_bytes t f1 = to_bytes t f2 -> f1 = f2.
Proof. exact to_bytes_inj. Qed.
Print Assumptions C05_sort_key_is_injective.

(* Hence the signed data does not depend on the order in which the records are presented
   (signer's zone order vs. packet order at the verifier) -- also inside the known deviation
   class -- for every RRset whose records share one field layout (uniform_layout: names at the
   same positions, octet fields of equal length or of one self-delimiting frame, the trailing
   field free; a property of the records of one type, not of the code). *)
Theorem C05_perm_invariant : forall nm cls s rs rs',
  wf_labels (nlabels nm) -> wf_sig s -> Forall wf_rr (the_rrset nm cls s rs) ->
  uniform_layout (the_rrset nm cls s rs) ->
  Permutation rs rs' ->
  tbs nm cls s rs = tbs nm cls s rs'.
Proof.
  intros nm cls s rs rs' Hn Hs Hr Hu Hp.
  exact (tbs_perm_invariant nm cls s rs rs' Hn Hs Hr (key_determines_rrset nm cls s rs Hr Hu) Hp).
Qed.
Print Assumptions C05_perm_invariant.

(* The same for what a verifier actually receives: the owner and the record owners in any other
   letter case, the record TTLs changed by any map that preserves their order on this RRset (a
   cache counting them down), the records in any order. *)
Theorem C05_verifier_view_invariant : forall nm nm' cls s rs rs' ren g,
  wf_labels (nlabels nm) -> wf_labels (nlabels nm') -> wf_sig s ->
  Forall wf_rr (the_rrset nm cls s rs) ->
  uniform_layout (the_rrset nm cls s rs) ->
  name_eqb nm nm' = true ->
  (forall r, In r rs -> name_eqb (r_name r) (ren r) = true) ->
  (forall a b, In a rs -> In b rs -> (g (r_ttl a) ?= g (r_ttl b)) = (r_ttl a ?= r_ttl b)) ->
  Permutation (map (retarget ren g) rs) rs' ->
  tbs nm cls s rs = tbs nm' cls s rs'.
Proof.
  intros nm nm' cls s rs rs' ren g Hn Hn' Hs Hr Hu.
  exact (tbs_verifier_view nm nm' cls s rs rs' ren g Hn Hn' Hs Hr (key_determines_rrset nm cls s rs Hr Hu)).
Qed.
Print Assumptions C05_verifier_view_invariant.

Section Signatures.
  (* any signature scheme: only correctness of verify on what sign produced is assumed *)
  Context {SK PK SG : Type} (pub : SK -> PK) (sign : SK -> list byte -> SG)
          (verify : PK -> list byte -> SG -> bool).
  Hypothesis sig_correct : forall k d, verify (pub k) d (sign k d) = true.

  (* built-in signer, then built-in verifier on the verifier's view of the records: accepted,
     whether or not the signed data is the RFC's *)
  Theorem C05_sign_then_verify : forall k nm nm' cls s rs rs' ren g b,
    wf_labels (nlabels nm) -> wf_labels (nlabels nm') -> wf_sig s ->
    Forall wf_rr (the_rrset nm cls s rs) ->
    uniform_layout (the_rrset nm cls s rs) ->
    name_eqb nm nm' = true ->
    (forall r, In r rs -> name_eqb (r_name r) (ren r) = true) ->
    (forall a b, In a rs -> In b rs -> (g (r_ttl a) ?= g (r_ttl b)) = (r_ttl a ?= r_ttl b)) ->
    Permutation (map (retarget ren g) rs) rs' ->
    tbs nm cls s rs = Ok b ->
    exists b', tbs nm' cls s rs' = Ok b' /\ verify (pub k) b' (sign k b) = true.
  Proof.
    intros k nm nm' cls s rs rs' ren g b Hn Hn' Hs Hr Hu Hnm Hren Hg Hp Hb. exists b.
    rewrite <- (tbs_verifier_view nm nm' cls s rs rs' ren g Hn Hn' Hs Hr
                  (key_determines_rrset nm cls s rs Hr Hu) Hnm Hren Hg Hp).
    split; [exact Hb|apply sig_correct].
  Qed.

  (* a conforming third-party signer signs the RFC signed data; the built-in verifier accepts,
     outside the known deviation class and below the size limit *)
  Theorem C05_third_party_verifies_guarded : forall k nm cls s rs d,
    wf_labels (nlabels nm) -> wf_sig s -> Forall wf_rr (the_rrset nm cls s rs) ->
    known_deviation nm cls s rs = false ->
    rfc_signed_data nm cls s rs = Some d -> len d <= MAX ->
    exists b, tbs nm cls s rs = Ok b /\ verify (pub k) b (sign k d) = true.
  Proof.
    intros k nm cls s rs d Hn Hs Hr Hk Hd Hl. exists d.
    rewrite (tbs_is_rfc_guarded nm cls s rs Hn Hs Hr Hk), Hd.
    replace (MAX <? len d) with false by (symmetry; apply N.ltb_ge; exact Hl).
    split; [reflexivity|apply sig_correct].
  Qed.
End Signatures.
Print Assumptions C05_sign_then_verify.
Print Assumptions C05_third_party_verifies_guarded.

(* ------------------------------------------------------------------ *)
(* Non-vacuity: the hypotheses are met by non-trivial values           *)
(* ------------------------------------------------------------------ *)

(* wildcard expansion: owner a.b.example with Labels = 1 gives *.example *)
Example C05_name_example :
  wf_labels [[97]; [98]; ex] /\
  option_map nlabels (determine_name (Nm true [[97]; [98]; Ex]) 1) = Some [star; Ex] /\
  rfc_name [[97]; [98]; ex] 4 = None.
Proof. split; [wf_tac|split; reflexivity]. Qed.

(* a two-record NS RRset with a noise record, mixed-case owner, shuffled: not in the deviation
   class, and the signed data is produced *)
Example C05_guarded_example :
  let nm := Nm true [Ex] in
  let rs := [wrr 2 3600 [FN [[98]; ex]]; mkRR (Nm true [net]) 1 3600 2 [FN [[99]]]; wrr 2 3600 [FN [[97]; ex]]] in
  wf_labels (nlabels nm) /\ wf_sig (wsig 2) /\ Forall wf_rr (the_rrset nm 1 (wsig 2) rs) /\
  known_deviation nm 1 (wsig 2) rs = false /\ ~ In (s_type (wsig 2)) unimplemented_downcase /\
  (exists d, rfc_signed_data nm 1 (wsig 2) rs = Some d /\ tbs nm 1 (wsig 2) rs = Ok d /\ len d = 87).
Proof.
  cbv zeta. split; [wf_tac|]. split; [wf_tac|]. split; [apply wf_all_rrset; wf_tac|].
  split; [vm_compute; reflexivity|].
  split; [cbn; intros H; repeat (destruct H as [H|H]; [discriminate H|]); exact H|]. eexists. split; [vm_compute; reflexivity|].
  split; vm_compute; reflexivity.
Qed.

(* the layout hypothesis of the permutation theorems holds for the F3 witness itself (NS) and
   for NAPTR records with flag / service / regexp strings of different lengths (framed 4 3) *)
Example C05_layout_example :
  uniform_layout (the_rrset (Nm true [ex]) 1 (wsig 2) [wrr 2 3600 [FN [[66]; ex]]; wrr 2 3600 [FN [[97]; ex]]]) /\
  same_shape [FB ([0; 1; 0; 2] ++ [1; 83] ++ [0] ++ [0]); FN [ex]]
             [FB ([0; 1; 0; 2] ++ [0] ++ [3; 83; 73; 80] ++ [1; 33]); FN [Ex; net]].
Proof.
  split.
  - intros a b Ha Hb. vm_compute in Ha, Hb.
    destruct Ha as [<-|[<-|[]]], Hb as [<-|[<-|[]]]; repeat constructor.
  - apply ss_framed with (k := 4%nat) (n := 3%nat); [| |repeat constructor].
    + exists [0; 1; 0; 2], ([1; 83] ++ [0] ++ [0]). split; [reflexivity|]. split; [reflexivity|].
      apply (cs_cons 2 [83]). apply (cs_cons 1 []). apply (cs_cons 0 []). constructor.
    + exists [0; 1; 0; 2], ([0] ++ [3; 83; 73; 80] ++ [1; 33]). split; [reflexivity|]. split; [reflexivity|].
      apply (cs_cons 2 []). apply (cs_cons 1 [83; 73; 80]). apply (cs_cons 0 [33]). constructor.
Qed.

(* a verifier's view: upper-case owners, TTLs counted down by 100, records swapped *)
Example C05_verifier_view_example :
  let rs := [wrr 2 3600 [FN [[66]; ex]]; wrr 2 3600 [FN [[97]; ex]]] in
  let ren := fun _ : rr => Nm true [Ex] in
  let g := fun t => t - 100 in
  name_eqb (Nm true [ex]) (Nm true [Ex]) = true /\
  (forall r, In r rs -> name_eqb (r_name r) (ren r) = true) /\
  (forall a b, In a rs -> In b rs -> (g (r_ttl a) ?= g (r_ttl b)) = (r_ttl a ?= r_ttl b)) /\
  tbs (Nm true [ex]) 1 (wsig 2) rs = tbs (Nm true [Ex]) 1 (wsig 2) (rev (map (retarget ren g) rs)).
Proof.
  cbv zeta. split; [reflexivity|]. split.
  - intros r [<-|[<-|[]]]; reflexivity.
  - split; [|vm_compute; reflexivity].
    intros a b [<-|[<-|[]]] [<-|[<-|[]]]; reflexivity.
Qed.

(* an RR of a downcased type at a non-zero offset: hypotheses of
   C05_rr_encoding_is_canonical_guarded and C05_downcase_list_guarded hold, and the result *)
Example C05_rr_example :
  let r := wrr 15 7 [FB [0; 10]; FN [[77]; Ex]] in
  wf_labels [Ex] /\ Forall wf_field (r_data r) /\ 27 <= MAX /\ ~ In (r_type r) unimplemented_downcase /\
  exists ps', emit_rr [Ex] (wsig 15) 1 27 [] r =
    Some (canon_rr [ex] 15 1 3600 ([0; 10] ++ wire_name [[109]; ex]), ps').
Proof.
  cbv zeta. split; [wf_tac|]. split; [wf_tac|]. split; [vm_compute; discriminate|]. split.
  - cbn. intros H. repeat (destruct H as [H|H]; [discriminate H|]). exact H.
  - eexists. vm_compute. reflexivity.
Qed.

(* a signature scheme meeting the only assumption of section Signatures *)
Example C05_sig_scheme_example :
  let sign := fun (k : N) (d : list byte) => k :: d in
  let verify := fun (k : N) (d : list byte) (sg : list byte) => bytes_eqb sg (k :: d) in
  forall k d, verify ((fun k => k) k) d (sign k d) = true.
Proof. intros sign verify k d. apply bytes_eqb_eq. reflexivity. Qed.
