(* C05 — ordering lemmas: the octet-string order, the spec's canonical RRset order (existence,
   uniqueness), stable insertion sort. *)
From Coq Require Import Sorting.Sorted Sorting.Permutation.
From HV Require Import Lib.Base C05.Model.
Open Scope N_scope.

(* ------------------------------------------------------------------ *)
(* cmp_bytes decides lex_lt                                            *)
(* ------------------------------------------------------------------ *)

Lemma cmp_bytes_refl a : cmp_bytes a a = Eq.
Proof. induction a as [|x a IH]; cbn [cmp_bytes]; [reflexivity|]. now rewrite N.compare_refl. Qed.

Lemma cmp_bytes_eq a : forall b, cmp_bytes a b = Eq <-> a = b.
Proof.
  induction a as [|x a IH]; intros [|y b]; cbn [cmp_bytes]; try (split; congruence).
  destruct (x ?= y) eqn:E.
  - apply N.compare_eq_iff in E. subst y. rewrite IH. split; congruence.
  - split; [discriminate|]. intros H; inversion H; subst. rewrite N.compare_refl in E. discriminate.
  - split; [discriminate|]. intros H; inversion H; subst. rewrite N.compare_refl in E. discriminate.
Qed.

Lemma cmp_bytes_lt a : forall b, cmp_bytes a b = Lt <-> lex_lt a b.
Proof.
  induction a as [|x a IH]; intros [|y b]; cbn [cmp_bytes].
  - split; [discriminate|inversion 1].
  - split; [constructor|reflexivity].
  - split; [discriminate|inversion 1].
  - destruct (x ?= y) eqn:E.
    + apply N.compare_eq_iff in E. subst y. rewrite IH. split.
      * apply lex_tail.
      * inversion 1; subst; [lia|assumption].
    + apply N.compare_lt_iff in E. split; [intros _; now apply lex_head|reflexivity].
    + apply N.compare_gt_iff in E. split; [discriminate|].
      inversion 1; subst; lia.
Qed.

Lemma cmp_bytes_antisym a : forall b, cmp_bytes b a = CompOpp (cmp_bytes a b).
Proof.
  induction a as [|x a IH]; intros [|y b]; cbn [cmp_bytes CompOpp]; try reflexivity.
  rewrite (N.compare_antisym x y). destruct (x ?= y); cbn [CompOpp]; auto.
Qed.

Lemma cmp_bytes_gt a b : cmp_bytes a b = Gt <-> lex_lt b a.
Proof.
  rewrite <- cmp_bytes_lt, (cmp_bytes_antisym a b). destruct (cmp_bytes a b); cbn; split; congruence.
Qed.

Lemma lex_lt_irrefl a : ~ lex_lt a a.
Proof. intros H. apply cmp_bytes_lt in H. rewrite cmp_bytes_refl in H. discriminate. Qed.

Lemma lex_lt_trans a : forall b c, lex_lt a b -> lex_lt b c -> lex_lt a c.
Proof.
  induction a as [|x a IH]; intros b c H1 H2.
  - inversion H1; subst; inversion H2; subst; constructor.
  - inversion H1; subst; inversion H2; subst.
    + apply lex_head; lia.
    + now apply lex_head.
    + now apply lex_head.
    + apply lex_tail. eauto.
Qed.

Lemma lex_lt_asym a b : lex_lt a b -> ~ lex_lt b a.
Proof. intros H1 H2. exact (lex_lt_irrefl a (lex_lt_trans _ _ _ H1 H2)). Qed.

Lemma lex_total a b : lex_lt a b \/ a = b \/ lex_lt b a.
Proof.
  destruct (cmp_bytes a b) eqn:E.
  - right; left. now apply cmp_bytes_eq.
  - left. now apply cmp_bytes_lt.
  - right; right. now apply cmp_bytes_gt.
Qed.

(* ------------------------------------------------------------------ *)
(* The spec's canonical order: usort computes it, and it is unique     *)
(* ------------------------------------------------------------------ *)

Lemma uinsert_in x l y : In y (uinsert x l) <-> y = x \/ In y l.
Proof.
  induction l as [|z l IH]; cbn [uinsert In].
  - intuition.
  - destruct (cmp_bytes x z) eqn:E; cbn [In].
    + apply cmp_bytes_eq in E. subst z. intuition.
    + intuition.
    + rewrite IH. intuition.
Qed.

Lemma uinsert_sorted x l : StronglySorted lex_lt l -> StronglySorted lex_lt (uinsert x l).
Proof.
  induction l as [|z l IH]; intros H; cbn [uinsert].
  - repeat constructor.
  - inversion H as [|? ? Hs Hf]; subst.
    destruct (cmp_bytes x z) eqn:E.
    + assumption.
    + apply cmp_bytes_lt in E. constructor; [assumption|].
      constructor; [assumption|]. rewrite Forall_forall in *. intros y Hy.
      eapply lex_lt_trans; eauto.
    + apply cmp_bytes_gt in E. constructor; [auto|].
      rewrite Forall_forall in *. intros y Hy. apply uinsert_in in Hy. destruct Hy as [->|Hy]; auto.
Qed.

Lemma usort_in l y : In y (usort l) <-> In y l.
Proof.
  induction l as [|x l IH]; cbn [usort In]; [tauto|]. rewrite uinsert_in, IH. intuition.
Qed.

Lemma usort_sorted l : StronglySorted lex_lt (usort l).
Proof. induction l as [|x l IH]; cbn [usort]; [constructor|]. now apply uinsert_sorted. Qed.

Lemma usort_canonical l : canonical_order (usort l) l.
Proof. split; [apply usort_sorted|]. intros x. apply usort_in. Qed.

(* two strictly sorted lists with the same elements are equal *)
Lemma strict_sorted_unique (s1 : list (list byte)) : forall s2,
  StronglySorted lex_lt s1 -> StronglySorted lex_lt s2 ->
  (forall x, In x s1 <-> In x s2) -> s1 = s2.
Proof.
  induction s1 as [|a s1 IH]; intros [|b s2] H1 H2 Hin.
  - reflexivity.
  - exfalso. apply (proj2 (Hin b)). now left.
  - exfalso. apply (proj1 (Hin a)). now left.
  - inversion H1 as [|? ? Hs1 Hf1]; subst. inversion H2 as [|? ? Hs2 Hf2]; subst.
    rewrite Forall_forall in Hf1, Hf2.
    assert (a = b) as ->.
    { destruct (proj1 (Hin a) (or_introl eq_refl)) as [E|Ha]; [congruence|].
      destruct (proj2 (Hin b) (or_introl eq_refl)) as [E|Hb]; [congruence|].
      exfalso. exact (lex_lt_asym _ _ (Hf2 _ Ha) (Hf1 _ Hb)). }
    f_equal. apply IH; try assumption.
    intros x. split; intros Hx.
    + destruct (proj1 (Hin x) (or_intror Hx)) as [E|Hx']; [|assumption].
      subst x. exfalso. exact (lex_lt_irrefl _ (Hf1 _ Hx)).
    + destruct (proj2 (Hin x) (or_intror Hx)) as [E|Hx']; [|assumption].
      subst x. exfalso. exact (lex_lt_irrefl _ (Hf2 _ Hx)).
Qed.

Lemma canonical_order_unique s1 s2 l : canonical_order s1 l -> canonical_order s2 l -> s1 = s2.
Proof.
  intros [H1 I1] [H2 I2]. apply strict_sorted_unique; try assumption.
  intros x. rewrite I1, I2. tauto.
Qed.

(* usort does not depend on the order or multiplicity of its input *)
Lemma usort_ext l1 l2 : (forall x, In x l1 <-> In x l2) -> usort l1 = usort l2.
Proof.
  intros H. apply strict_sorted_unique; try apply usort_sorted.
  intros x. rewrite !usort_in. apply H.
Qed.

(* ------------------------------------------------------------------ *)
(* Stable insertion sort                                               *)
(* ------------------------------------------------------------------ *)

Section Isort.
  Context {A : Type} (le : A -> A -> bool).
  Hypothesis le_total : forall a b, le a b = true \/ le b a = true.
  Hypothesis le_trans : forall a b c, le a b = true -> le b c = true -> le a c = true.

  Lemma insert_perm x l : Permutation (x :: l) (insert le x l).
  Proof.
    induction l as [|y l IH]; cbn [insert]; [reflexivity|].
    destruct (le x y); [reflexivity|].
    rewrite perm_swap. now apply perm_skip.
  Qed.

  Lemma isort_perm l : Permutation l (isort le l).
  Proof.
    induction l as [|x l IH]; cbn [isort]; [constructor|].
    rewrite <- insert_perm. now apply perm_skip.
  Qed.

  Lemma insert_sorted x l :
    StronglySorted (fun a b => le a b = true) l -> StronglySorted (fun a b => le a b = true) (insert le x l).
  Proof.
    induction l as [|y l IH]; intros H; cbn [insert].
    - repeat constructor.
    - inversion H as [|? ? Hs Hf]; subst. destruct (le x y) eqn:E.
      + constructor; [assumption|]. constructor; [assumption|].
        rewrite Forall_forall in *. intros z Hz. eapply le_trans; eauto.
      + constructor; [auto|]. rewrite Forall_forall in *. intros z Hz.
        apply (Permutation_in _ (Permutation_sym (insert_perm x l))) in Hz.
        destruct Hz as [<-|Hz]; [|auto].
        destruct (le_total x y) as [H'|H']; congruence.
  Qed.

  Lemma isort_sorted l : StronglySorted (fun a b => le a b = true) (isort le l).
  Proof. induction l as [|x l IH]; cbn [isort]; [constructor|]. now apply insert_sorted. Qed.
End Isort.

(* sorted lists that are permutations of each other are equal when [le] is antisymmetric on
   their elements *)
Lemma sorted_perm_unique {A} (le : A -> A -> bool) (l1 : list A) : forall l2,
  (forall a b, In a l1 -> In b l1 -> le a b = true -> le b a = true -> a = b) ->
  StronglySorted (fun a b => le a b = true) l1 -> StronglySorted (fun a b => le a b = true) l2 ->
  Permutation l1 l2 -> l1 = l2.
Proof.
  induction l1 as [|a l1 IH]; intros l2 Hanti H1 H2 Hp.
  - apply Permutation_nil in Hp. now subst.
  - destruct l2 as [|b l2]; [apply Permutation_sym, Permutation_nil in Hp; discriminate|].
    inversion H1 as [|? ? Hs1 Hf1]; subst. inversion H2 as [|? ? Hs2 Hf2]; subst.
    rewrite Forall_forall in Hf1, Hf2.
    assert (a = b) as ->.
    { assert (Ha : In a (b :: l2)) by (eapply Permutation_in; [exact Hp|now left]).
      assert (Hb : In b (a :: l1)) by (eapply Permutation_in; [exact (Permutation_sym Hp)|now left]).
      destruct Ha as [E|Ha]; [congruence|]. destruct Hb as [E|Hb]; [congruence|].
      apply Hanti; [now left|now right|auto|auto]. }
    f_equal. apply IH; try assumption.
    + intros x y Hx Hy. apply Hanti; now right.
    + eapply Permutation_cons_inv; exact Hp.
Qed.

(* mapping a sorted list through [f] gives a strictly sorted list when equal images are
   excluded *)
Lemma sorted_map_strict {A} (R : A -> A -> Prop) (f : A -> list byte) (l : list A) :
  StronglySorted R l -> NoDup (map f l) ->
  (forall a b, In a l -> In b l -> R a b -> f a = f b \/ lex_lt (f a) (f b)) ->
  StronglySorted lex_lt (map f l).
Proof.
  induction l as [|a l IH]; intros Hs Hn Hr; cbn [map]; [constructor|].
  inversion Hs as [|? ? Hs' Hf]; subst. inversion Hn as [|? ? Hni Hn']; subst.
  constructor.
  - apply IH; try assumption. intros x y Hx Hy. apply Hr; now right.
  - rewrite Forall_forall in *. intros y Hy. apply in_map_iff in Hy. destruct Hy as (b & <- & Hb).
    destruct (Hr a b (or_introl eq_refl) (or_intror Hb) (Hf _ Hb)) as [E|L]; [|assumption].
    exfalso. apply Hni. rewrite E. now apply in_map.
Qed.

Lemma has_dup_false l : has_dup l = false -> NoDup l.
Proof.
  induction l as [|x l IH]; cbn [has_dup]; intros H; [constructor|].
  apply orb_false_iff in H. destruct H as [H1 H2]. constructor; [|auto].
  intros Hin. assert (existsb (bytes_eqb x) l = true); [|congruence].
  apply existsb_exists. exists x. split; [assumption|]. now apply bytes_eqb_eq.
Qed.

Lemma ttls_differ_false l : ttls_differ l = false ->
  forall a b, In a l -> In b l -> r_ttl a = r_ttl b.
Proof.
  destruct l as [|r l]; cbn [ttls_differ]; intros H a b Ha Hb; [destruct Ha|].
  assert (K : forall x, In x (r :: l) -> r_ttl x = r_ttl r).
  { intros x [<-|Hx]; [reflexivity|].
    destruct (N.eqb (r_ttl x) (r_ttl r)) eqn:E; [now apply N.eqb_eq|].
    assert (existsb (fun r' => negb (N.eqb (r_ttl r') (r_ttl r))) l = true); [|congruence].
    apply existsb_exists. exists x. split; [assumption|]. now rewrite E. }
  now rewrite (K a Ha), (K b Hb).
Qed.
