(* C05 — model of the DNSSEC "data to be signed" construction and the RFC it must equal.

   Part 1 (model, mirrors the Rust as written):
     crates/proto/src/dnssec/tbs.rs            TBS::new, determine_name
     crates/proto/src/dnssec/rdata/sig.rs      SigInput::emit
     crates/proto/src/rr/record.rs             Ord for Record  (the key of `rrset.sort()`)
     crates/proto/src/rr/record_data.rs        Ord for RData = compare RData::to_bytes()
     crates/proto/src/serialize/binary/encoder.rs  with_rdata_behavior, size limit, label pointers
     crates/proto/src/rr/domain/name.rs        Name::emit (three NameEncoding modes, compression),
                                               Name::eq, num_labels, trim_to, append_name
     per-type RDataEncoding argument of every RDATA emitter (impl_policy)
   Part 2 (spec, written from RFC 4034 3.1.8.1 / 6.1-6.3, RFC 4035 5.3.2, RFC 6840 5.1; shares
   only byte-level primitives with part 1).

   An RDATA is a type code plus a list of fields: opaque octets or an embedded domain name.
   The field layout of each type is wire-format knowledge of the harness (independent of the
   emitters); what the model takes from the code is how names are treated per type.
   No proofs in this file. *)
From Coq Require Import Sorting.Sorted.
From HV Require Import Lib.Base.
Open Scope N_scope.

(* ------------------------------------------------------------------ *)
(* Byte-level primitives (shared by model and spec)                    *)
(* ------------------------------------------------------------------ *)

Definition label := list byte.
Definition len {A} (l : list A) : N := N.of_nat (length l).

(* u8::to_ascii_lowercase *)
Definition lower (b : byte) : byte := if (65 <=? b) && (b <=? 90) then b + 32 else b.
Definition lower_label (l : label) : label := map lower l.
Definition lower_labels (ls : list label) : list label := map lower_label ls.

Definition be16 (n : N) : list byte := [n / 256 mod 256; n mod 256].
Definition be32 (n : N) : list byte :=
  [n / 16777216 mod 256; n / 65536 mod 256; n / 256 mod 256; n mod 256].

(* one label on the wire: length octet, then the octets *)
Definition enc_label (l : label) : list byte := len l :: l.
Definition enc_labels (ls : list label) : list byte := concat (map enc_label ls).
(* uncompressed wire form of a name: labels, then the root label *)
Definition wire_name (ls : list label) : list byte := enc_labels ls ++ [0].

(* Vec<u8>::cmp / "left-justified unsigned octet sequence in which the absence of an octet
   sorts before a zero octet" as a decision procedure *)
Fixpoint cmp_bytes (a b : list byte) : comparison :=
  match a, b with
  | [], [] => Eq
  | [], _ :: _ => Lt
  | _ :: _, [] => Gt
  | x :: a', y :: b' => match x ?= y with Eq => cmp_bytes a' b' | c => c end
  end.

(* ------------------------------------------------------------------ *)
(* Data                                                                *)
(* ------------------------------------------------------------------ *)

(* Name { is_fqdn, labels } *)
Inductive name := Nm (fq : bool) (ls : list label).
Definition nlabels (n : name) : list label := match n with Nm _ ls => ls end.
Definition nfq (n : name) : bool := match n with Nm f _ => f end.

Inductive field :=
| FB (bs : list byte)       (* octets that contain no domain name *)
| FN (ls : list label).     (* an embedded domain name *)

Record rr := mkRR { r_name : name; r_class : N; r_ttl : N; r_type : N; r_data : list field }.

(* SigInput: the RRSIG RDATA without the signature *)
Record sigin := mkSig {
  s_type : N; s_alg : N; s_labels : N; s_ottl : N; s_exp : N; s_inc : N; s_tag : N;
  s_signer : list label }.

(* ================================================================== *)
(* PART 1 — the implementation model                                   *)
(* ================================================================== *)

(* MaximalBuf::max_size of BinEncoder::new *)
Definition MAX : N := 65535.

Inductive nenc := Compressed | Uncompressed | UncompressedLower.   (* NameEncoding *)
Inductive rdenc := StandardRecord | Canonical | Other.             (* RDataEncoding *)

(* BinEncoder::with_rdata_behavior: the name encoding in force inside an RDATA emitter *)
Definition with_rdata_behavior (e : rdenc) (canonical_form : bool) (cur : nenc) : nenc :=
  match e, canonical_form with
  | StandardRecord, true | Canonical, true => UncompressedLower
  | StandardRecord, false => cur
  | Canonical, false | Other, _ => Uncompressed
  end.

(* The RDataEncoding each emitter passes, by type code; None = the emitter writes plain octets
   (types without names, and every type hickory does not implement: RData::Unknown holds the
   RDATA as an opaque blob).
   StandardRecord: NS 2, CNAME 5, SOA 6, PTR 12, MX 15.  Canonical: SIG 24, SRV 33, NAPTR 35,
   RRSIG 46.  Other: NSEC 47, SVCB 64, HTTPS 65, TSIG 250, ANAME 65305. *)
Definition impl_policy (t : N) : option rdenc :=
  if existsb (N.eqb t) [2; 5; 6; 12; 15] then Some StandardRecord
  else if existsb (N.eqb t) [24; 33; 35; 46] then Some Canonical
  else if existsb (N.eqb t) [47; 64; 65; 250; 65305] then Some Other
  else None.

(* name_pointers: (start offset, the label octets from there to the end of the name) *)
Definition ptrs := list (N * list byte).

(* store_label_pointer, called with encoder.offset = [last] (end of the labels just written) *)
Definition store_ptr (last : N) (ps : ptrs) (start : N) (slice : list byte) : ptrs :=
  if (last <? 16383) && (len ps <? 64) then ps ++ [(start, slice)] else ps.

(* get_label_pointer: first stored entry whose octets equal the searched slice *)
Fixpoint find_ptr (ps : ptrs) (s : list byte) : option N :=
  match ps with
  | [] => None
  | (st, m) :: ps' => if bytes_eqb m s then Some st else find_ptr ps' s
  end.

(* the loop `for label_idx in &labels_written` of Name::emit with compression enabled.
   [pre] = octets of the labels already kept; result: octets of the name, pointers, and whether
   it ended in a pointer (then the 255-octet test is skipped, as in the code). *)
Fixpoint compress (off last : N) (ps : ptrs) (pre : list byte) (ls : list label)
  : list byte * ptrs * bool :=
  match ls with
  | [] => (pre ++ [0], ps, false)
  | l :: ls' =>
      let slice := enc_labels (l :: ls') in
      let continue := compress off last (store_ptr last ps (off + len pre) slice) (pre ++ enc_label l) ls' in
      match find_ptr ps slice with
      | Some loc => if loc <? 16384 then (pre ++ be16 (49152 + loc), ps, true) else continue
      | None => continue
      end
  end.

(* the `else` branch: store every label start *)
Fixpoint store_all (last : N) (ps : ptrs) (pos : N) (ls : list label) : ptrs :=
  match ls with
  | [] => ps
  | l :: ls' => store_all last (store_ptr last ps pos (enc_labels (l :: ls'))) (pos + len (enc_label l)) ls'
  end.

(* Name::emit at buffer offset [off]: the octets appended and the new pointer table, or an
   error (label > 63, name > 255, buffer limit).  compressed_name_count < 120 always holds in
   the contexts modelled (at most two names per encoder in Compressed mode). *)
Definition emit_name (m : nenc) (off : N) (ps : ptrs) (ls : list label)
  : option (list byte * ptrs) :=
  let ls' := match m with UncompressedLower => lower_labels ls | _ => ls end in
  if existsb (fun l => 63 <? len l) ls' then None else
  let last := off + len (enc_labels ls') in
  if MAX <? last then None else
  match m with
  | Compressed =>
      let '(out, ps', ptr) := compress off last ps [] ls' in
      if ptr then Some (out, ps')
      else if (MAX <? off + len out) || (255 <? len out) then None else Some (out, ps')
  | _ =>
      let out := wire_name ls' in
      if (MAX <? off + len out) || (255 <? len out) then None
      else Some (out, store_all last ps off ls')
  end.

Definition emit_field (m : nenc) (off : N) (ps : ptrs) (f : field) : option (list byte * ptrs) :=
  match f with
  | FB bs => if MAX <? off + len bs then None else Some (bs, ps)
  | FN ls => emit_name m off ps ls
  end.

Fixpoint emit_fields (m : nenc) (off : N) (ps : ptrs) (fs : list field) : option (list byte * ptrs) :=
  match fs with
  | [] => Some ([], ps)
  | f :: fs' =>
      match emit_field m off ps f with
      | None => None
      | Some (o1, ps1) =>
          match emit_fields m (off + len o1) ps1 fs' with
          | None => None
          | Some (o2, ps2) => Some (o1 ++ o2, ps2)
          end
      end
  end.

(* octets of a field list as an opaque blob (RData::Unknown / name-free types) *)
Definition raw_field (f : field) : list byte := match f with FB bs => bs | FN ls => wire_name ls end.
Definition raw_fields (fs : list field) : list byte := concat (map raw_field fs).

(* RData::emit for type [t] in an encoder with the given canonical_form flag and current
   name encoding *)
Definition emit_rdata (canonical_form : bool) (cur : nenc) (t : N) (off : N) (ps : ptrs) (fs : list field)
  : option (list byte * ptrs) :=
  match impl_policy t with
  | Some e => emit_fields (with_rdata_behavior e canonical_form cur) off ps fs
  | None => let bs := raw_fields fs in if MAX <? off + len bs then None else Some (bs, ps)
  end.

(* RData::to_bytes: a fresh BinEncoder (Compressed, canonical_form = false); an encoding error
   is swallowed (the partial buffer is used; modelled as empty, exact for single-write blobs) *)
Definition to_bytes (t : N) (fs : list field) : list byte :=
  match emit_rdata false Compressed t 0 [] fs with Some (o, _) => o | None => [] end.

(* Ord for Record restricted to one RRset: name, type and class compare Equal on the filtered
   list (Name::eq implies Name::cmp = Equal), leaving `ttl` and then `data` *)
Definition rec_cmp (a b : rr) : comparison :=
  match r_ttl a ?= r_ttl b with
  | Eq => cmp_bytes (to_bytes (r_type a) (r_data a)) (to_bytes (r_type b) (r_data b))
  | c => c
  end.
Definition rec_le (a b : rr) : bool := match rec_cmp a b with Gt => false | _ => true end.

(* slice::sort is a stable sort; stable insertion sort yields the same list *)
Fixpoint insert {A} (le : A -> A -> bool) (x : A) (l : list A) : list A :=
  match l with
  | [] => [x]
  | y :: l' => if le x y then x :: y :: l' else y :: insert le x l'
  end.
Fixpoint isort {A} (le : A -> A -> bool) (l : list A) : list A :=
  match l with [] => [] | x :: l' => insert le x (isort le l') end.

(* PartialEq for Name: same is_fqdn and labels equal ignoring ASCII case *)
Definition labels_eqb (a b : list label) : bool := list_eqb bytes_eqb a b.
Definition name_eqb (a b : name) : bool :=
  Bool.eqb (nfq a) (nfq b) && labels_eqb (lower_labels (nlabels a)) (lower_labels (nlabels b)).

(* Name::num_labels: label count, not counting a leading "*" *)
Definition star : label := [42].
Definition num_labels (ls : list label) : N :=
  match ls with
  | l :: _ => if bytes_eqb l star then len ls - 1 else len ls
  | [] => 0
  end.

(* Name::encoded_len *)
Definition encoded_len (ls : list label) : N := len ls + len (concat ls) + 1.

(* determine_name (tbs.rs), with trim_to / from_labels / append_name inlined *)
Definition determine_name (n : name) (k : N) : option name :=
  let ls := nlabels n in
  let fl := num_labels ls in
  if fl =? k then Some n
  else if k <? fl then
    (* trim_to(k): clone if k > label count, else from_labels(iter().skip(count - k)) *)
    let rightmost := if len ls <? k then n else Nm true (skipn (length ls - N.to_nat k) ls) in
    if match nlabels rightmost with [] => nfq rightmost | _ => false end   (* is_root *)
    then Some (Nm true [star])
    else (* append_name: extend_name fails when the encoded length would pass 255 *)
      if 255 <? encoded_len (star :: nlabels rightmost) then None
      else Some (Nm (nfq rightmost) (star :: nlabels rightmost))
  else None.

(* SigInput::emit inside the TBS encoder (canonical_form = true) *)
Definition sig_fixed (s : sigin) : list byte :=
  be16 (s_type s) ++ [s_alg s mod 256; s_labels s mod 256] ++ be32 (s_ottl s) ++ be32 (s_exp s)
  ++ be32 (s_inc s) ++ be16 (s_tag s).
Definition emit_siginput (off : N) (ps : ptrs) (s : sigin) : option (list byte * ptrs) :=
  emit_fields (with_rdata_behavior Canonical true Uncompressed) off ps [FB (sig_fixed s); FN (s_signer s)].

(* one RR(i) of TBS::new *)
Definition emit_rr (owner : list label) (s : sigin) (cls : N) (off : N) (ps : ptrs) (r : rr)
  : option (list byte * ptrs) :=
  match emit_name UncompressedLower off ps owner with
  | None => None
  | Some (o1, ps1) =>
      let hdr := be16 (s_type s) ++ be16 cls ++ be32 (s_ottl s) in
      let off2 := off + len o1 + len hdr + 2 in     (* after place::<u16>() *)
      if MAX <? off2 then None else
      match emit_rdata true Uncompressed (r_type r) off2 ps1 (r_data r) with
      | None => None
      | Some (rd, ps2) =>
          if 65535 <? len rd then None     (* u16::try_from; unreachable below MAX *)
          else Some (o1 ++ hdr ++ be16 (len rd) ++ rd, ps2)
      end
  end.

Fixpoint emit_rrs (owner : list label) (s : sigin) (cls : N) (off : N) (ps : ptrs) (rs : list rr)
  : option (list byte * ptrs) :=
  match rs with
  | [] => Some ([], ps)
  | r :: rs' =>
      match emit_rr owner s cls off ps r with
      | None => None
      | Some (o1, ps1) =>
          match emit_rrs owner s cls (off + len o1) ps1 rs' with
          | None => None
          | Some (o2, ps2) => Some (o1 ++ o2, ps2)
          end
      end
  end.

Inductive result := Ok (b : list byte) | ErrName | ErrEncode.

(* the filter of TBS::new *)
Definition in_rrset (nm : name) (cls : N) (s : sigin) (r : rr) : bool :=
  N.eqb cls (r_class r) && N.eqb (s_type s) (r_type r) && name_eqb nm (r_name r).

(* TBS::new *)
Definition tbs (nm : name) (cls : N) (s : sigin) (rs : list rr) : result :=
  let rrset := isort rec_le (filter (in_rrset nm cls s) rs) in
  match determine_name nm (s_labels s) with
  | None => ErrName
  | Some nm' =>
      match emit_siginput 0 [] s with
      | None => ErrEncode
      | Some (o0, ps0) =>
          match emit_rrs (nlabels nm') s cls (len o0) ps0 rrset with
          | None => ErrEncode
          | Some (o1, _) => Ok (o0 ++ o1)
          end
      end
  end.

(* ================================================================== *)
(* PART 2 — the specification                                          *)
(* ================================================================== *)

(* RFC 4034 6.3 ordering relation on octet strings, declaratively *)
Inductive lex_lt : list byte -> list byte -> Prop :=
| lex_nil : forall y b, lex_lt [] (y :: b)
| lex_head : forall x y a b, x < y -> lex_lt (x :: a) (y :: b)
| lex_tail : forall x a b, lex_lt a b -> lex_lt (x :: a) (x :: b).

(* "the canonical RRset": the distinct canonical RDATAs in strictly increasing order *)
Definition canonical_order (sorted all : list (list byte)) : Prop :=
  StronglySorted lex_lt sorted /\ forall x, In x sorted <-> In x all.

(* a function computing it (proved in OrderProofs.v to meet, and be determined by, canonical_order) *)
Fixpoint uinsert (x : list byte) (l : list (list byte)) : list (list byte) :=
  match l with
  | [] => [x]
  | y :: l' => match cmp_bytes x y with Lt => x :: y :: l' | Eq => y :: l' | Gt => y :: uinsert x l' end
  end.
Fixpoint usort (l : list (list byte)) : list (list byte) :=
  match l with [] => [] | x :: l' => uinsert x (usort l') end.

(* RFC 4034 6.2 item 3 as amended by RFC 6840 5.1: types whose embedded names are downcased.
   NS MD MF CNAME SOA MB MG MR PTR MINFO MX RP AFSDB RT SIG PX NXT SRV NAPTR KX A6 DNAME RRSIG
   (HINFO holds no names; NSEC removed, RRSIG kept by RFC 6840) *)
Definition rfc_downcase (t : N) : bool :=
  existsb (N.eqb t) [2; 3; 4; 5; 6; 7; 8; 9; 12; 14; 15; 17; 18; 21; 24; 26; 30; 33; 35; 36; 38; 39; 46].

Definition canon_field (lc : bool) (f : field) : list byte :=
  match f with
  | FB bs => bs
  | FN ls => wire_name (if lc then lower_labels ls else ls)
  end.
(* RFC 4034 6.2: names expanded (no compression), downcased for the listed types *)
Definition canon_rdata (t : N) (fs : list field) : list byte :=
  concat (map (canon_field (rfc_downcase t)) fs).

(* RFC 4034 3.1.3: the Labels count of an owner name ignores a leading "*" (and the root) *)
Definition rfc_label_count (ls : list label) : N :=
  match ls with
  | l :: rest => if bytes_eqb l star then len rest else len ls
  | [] => 0
  end.
Definition lastn {A} (k : nat) (l : list A) : list A := rev (firstn k (rev l)).
(* RFC 4035 5.3.2 "To calculate the name" *)
Definition rfc_name (fqdn : list label) (rrsig_labels : N) : option (list label) :=
  match rrsig_labels ?= rfc_label_count fqdn with
  | Eq => Some fqdn
  | Lt => Some (star :: lastn (N.to_nat rrsig_labels) fqdn)
  | Gt => None
  end.

(* RR(i) = name | type | class | OrigTTL | RDATA length | RDATA *)
Definition canon_rr (owner : list label) (t cls ottl : N) (rd : list byte) : list byte :=
  wire_name owner ++ be16 t ++ be16 cls ++ be32 ottl ++ be16 (len rd) ++ rd.

(* RRSIG_RDATA: the fixed fields and the signer's name in canonical form *)
Definition rfc_sig_rdata (s : sigin) : list byte :=
  be16 (s_type s) ++ [s_alg s mod 256; s_labels s mod 256] ++ be32 (s_ottl s) ++ be32 (s_exp s)
  ++ be32 (s_inc s) ++ be16 (s_tag s) ++ wire_name (lower_labels (s_signer s)).

(* membership in the RRset: same class, type, owner (names compare ignoring ASCII case) *)
Definition same_owner (a b : name) : bool :=
  Bool.eqb (nfq a) (nfq b) && labels_eqb (lower_labels (nlabels a)) (lower_labels (nlabels b)).
Definition rrset_member (nm : name) (cls t : N) (r : rr) : bool :=
  N.eqb (r_class r) cls && N.eqb (r_type r) t && same_owner (r_name r) nm.

(* RFC 4035 5.3.2: signed_data = RRSIG_RDATA | RR(1) | RR(2) ...; None = the RRSIG MUST NOT be
   used (Labels field larger than the owner's label count) *)
Definition rfc_signed_data (nm : name) (cls : N) (s : sigin) (rs : list rr) : option (list byte) :=
  match rfc_name (lower_labels (nlabels nm)) (s_labels s) with
  | None => None
  | Some owner =>
      let rds := map (fun r => canon_rdata (r_type r) (r_data r)) (filter (rrset_member nm cls (s_type s)) rs) in
      Some (rfc_sig_rdata s ++ concat (map (canon_rr owner (s_type s) cls (s_ottl s)) (usort rds)))
  end.

(* ------------------------------------------------------------------ *)
(* Well-formedness of inputs (what Name / the decoder guarantee)       *)
(* ------------------------------------------------------------------ *)

Definition wf_label (l : label) : Prop := l <> [] /\ len l <= 63.
Definition wf_labels (ls : list label) : Prop := Forall wf_label ls /\ len (wire_name ls) <= 255.
Definition wf_field (f : field) : Prop := match f with FB _ => True | FN ls => wf_labels ls end.
Definition wf_rr (r : rr) : Prop := Forall wf_field (r_data r) /\ len (raw_fields (r_data r)) <= 65535.
Definition wf_sig (s : sigin) : Prop := wf_labels (s_signer s).

(* ------------------------------------------------------------------ *)
(* The known deviation class (decidable), see known_findings.json      *)
(* ------------------------------------------------------------------ *)

Definition the_rrset (nm : name) (cls : N) (s : sigin) (rs : list rr) : list rr :=
  filter (rrset_member nm cls (s_type s)) rs.

Fixpoint has_dup (l : list (list byte)) : bool :=
  match l with [] => false | x :: l' => existsb (bytes_eqb x) l' || has_dup l' end.
Definition ttls_differ (l : list rr) : bool :=
  match l with [] => false | r :: l' => existsb (fun r' => negb (N.eqb (r_ttl r') (r_ttl r))) l' end.

(* F3: the sort key of the code is (TTL, case-preserving / compressible encoding) and duplicates
   are kept.  F12: names inside RDATA of RFC-4034-list types hickory does not implement are
   not downcased.  Both are covered by: some TTL differs, or two records have the same
   canonical RDATA, or some record's sort key encoding is not its canonical RDATA. *)
Definition known_deviation (nm : name) (cls : N) (s : sigin) (rs : list rr) : bool :=
  let set := the_rrset nm cls s rs in
  ttls_differ set
  || has_dup (map (fun r => canon_rdata (r_type r) (r_data r)) set)
  || existsb (fun r => negb (bytes_eqb (to_bytes (r_type r) (r_data r)) (canon_rdata (r_type r) (r_data r)))) set.
