(* C05 — field layouts: the uncompressed wire form determines the fields. *)
From HV Require Import Lib.Base C05.Model C05.NameProofs.
Open Scope N_scope.

(* [n] character-strings (length octet + octets) one after the other *)
Inductive cs_seq : nat -> list byte -> Prop :=
| cs_nil : cs_seq O []
| cs_cons : forall n s rest, cs_seq n rest -> cs_seq (S n) (len s :: s ++ rest).
(* [k] fixed octets followed by [n] character-strings (e.g. NAPTR: 4 and 3) *)
Definition framed (k n : nat) (a : list byte) : Prop :=
  exists p q, a = p ++ q /\ length p = k /\ cs_seq n q.

(* field lists with the same layout: names at the same positions; octet fields of the same
   length, or self-delimiting with the same frame, except the last *)
Inductive same_shape : list field -> list field -> Prop :=
| ss_nil : same_shape [] []
| ss_last : forall a b, same_shape [FB a] [FB b]
| ss_fb : forall a b f1 f2, length a = length b -> same_shape f1 f2 -> same_shape (FB a :: f1) (FB b :: f2)
| ss_framed : forall k n a b f1 f2, framed k n a -> framed k n b -> same_shape f1 f2 ->
    same_shape (FB a :: f1) (FB b :: f2)
| ss_fn : forall a b f1 f2, same_shape f1 f2 -> same_shape (FN a :: f1) (FN b :: f2).

Fixpoint count_names (fs : list field) : nat :=
  match fs with [] => O | FN _ :: fs' => S (count_names fs') | FB _ :: fs' => count_names fs' end.

Lemma find_ptr_none ps s :
  (forall st m, In (st, m) ps -> length m <> length s) -> find_ptr ps s = None.
Proof.
  induction ps as [|[st m] ps IH]; intros H; cbn [find_ptr]; [reflexivity|].
  destruct (bytes_eqb m s) eqn:E.
  - apply bytes_eqb_eq in E. subst. exfalso. apply (H st s); [now left|reflexivity].
  - apply IH. intros st' m' Hin. apply (H st' m'). now right.
Qed.

Lemma enc_labels_cons l ls : enc_labels (l :: ls) = enc_label l ++ enc_labels ls.
Proof. reflexivity. Qed.

(* --- the uncompressed wire form determines the fields, given the layout *)

Lemma app_inj_length {A} (a b x y : list A) : length a = length b -> a ++ x = b ++ y -> a = b /\ x = y.
Proof.
  revert b. induction a as [|h a IH]; intros [|h' b] Hl H; cbn in *; try discriminate.
  - now split.
  - inversion H; subst. destruct (IH b ltac:(lia) H2) as [-> ->]. now split.
Qed.

Lemma wire_name_cons_app l ls r : wire_name (l :: ls) ++ r = len l :: l ++ (wire_name ls ++ r).
Proof.
  unfold wire_name. rewrite enc_labels_cons. unfold enc_label. cbn [app]. now rewrite <- !app_assoc.
Qed.

Lemma wire_name_inj l1 : forall l2 r1 r2,
  Forall wf_label l1 -> Forall wf_label l2 ->
  wire_name l1 ++ r1 = wire_name l2 ++ r2 -> l1 = l2 /\ r1 = r2.
Proof.
  induction l1 as [|a l1 IH]; intros [|b l2] r1 r2 H1 H2 H.
  - cbn in H. inversion H. now split.
  - exfalso. rewrite wire_name_cons_app in H. cbn in H. injection H as Hz _.
    inversion H2 as [|? ? [Hn _] _]; subst. destruct b; [congruence|]. unfold len in Hz. cbn [length] in Hz. lia.
  - exfalso. rewrite wire_name_cons_app in H. cbn in H. injection H as Hz _.
    inversion H1 as [|? ? [Hn _] _]; subst. destruct a; [congruence|]. unfold len in Hz. cbn [length] in Hz. lia.
  - rewrite !wire_name_cons_app in H. injection H as Hlen Hrest.
    inversion H1 as [|? ? _ H1']; subst. inversion H2 as [|? ? _ H2']; subst.
    assert (Hl : length a = length b) by (unfold len in Hlen; lia).
    destruct (app_inj_length a b _ _ Hl Hrest) as [-> Hrest'].
    destruct (IH l2 r1 r2 H1' H2' Hrest') as [-> ->]. now split.
Qed.

Lemma cs_seq_inj n : forall a b x y, cs_seq n a -> cs_seq n b -> a ++ x = b ++ y -> a = b /\ x = y.
Proof.
  induction n as [|n IH]; intros a b x y Ha Hb H; inversion Ha; inversion Hb; subst.
  - now split.
  - cbn [app] in H. injection H as Hlen Hrest. rewrite <- !app_assoc in Hrest.
    assert (Hl : length s = length s0) by (unfold len in Hlen; lia).
    destruct (app_inj_length s s0 _ _ Hl Hrest) as [-> Hrest'].
    destruct (IH _ _ _ _ H1 H4 Hrest') as [-> ->]. now split.
Qed.

Lemma framed_inj k n a b x y : framed k n a -> framed k n b -> a ++ x = b ++ y -> a = b /\ x = y.
Proof.
  intros (p1 & q1 & -> & Hp1 & Hq1) (p2 & q2 & -> & Hp2 & Hq2) H.
  rewrite <- !app_assoc in H.
  destruct (app_inj_length p1 p2 _ _ ltac:(congruence) H) as [-> H'].
  destruct (cs_seq_inj n _ _ _ _ Hq1 Hq2 H') as [-> ->]. now split.
Qed.

Lemma raw_fields_inj f1 f2 :
  same_shape f1 f2 -> Forall wf_field f1 -> Forall wf_field f2 ->
  raw_fields f1 = raw_fields f2 -> f1 = f2.
Proof.
  induction 1 as [|a b|a b f1 f2 Hl _ IH|k n a b f1 f2 Ha Hb _ IH|a b f1 f2 _ IH]; intros H1 H2 H.
  - reflexivity.
  - unfold raw_fields in H. cbn in H. rewrite !app_nil_r in H. now subst.
  - inversion H1 as [|? ? _ H1']; subst. inversion H2 as [|? ? _ H2']; subst.
    unfold raw_fields in H. cbn [map concat raw_field] in H.
    destruct (app_inj_length a b _ _ Hl H) as [-> H']. f_equal. now apply IH.
  - inversion H1 as [|? ? _ H1']; subst. inversion H2 as [|? ? _ H2']; subst.
    unfold raw_fields in H. cbn [map concat raw_field] in H.
    destruct (framed_inj k n a b _ _ Ha Hb H) as [-> H']. f_equal. now apply IH.
  - inversion H1 as [|? ? Ha H1']; subst. inversion H2 as [|? ? Hb H2']; subst.
    unfold raw_fields in H. cbn [map concat raw_field] in H.
    destruct (wire_name_inj a b _ _ (proj1 Ha) (proj1 Hb) H) as [-> H']. f_equal. now apply IH.
Qed.

