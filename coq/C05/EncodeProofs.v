(* C05 — the encoder model in the modes used by TBS::new is a plain concatenation bounded by
   the 65535-octet buffer; closed form of [tbs]. *)
From Coq Require Import Sorting.Sorted Sorting.Permutation.
From HV Require Import Lib.Base C05.Model C05.NameProofs C05.OrderProofs.
Open Scope N_scope.

(* how the implementation treats the names of type [t] in canonical form *)
Definition impl_lower (t : N) : bool :=
  match impl_policy t with Some StandardRecord | Some Canonical => true | _ => false end.
Definition impl_canon (t : N) (fs : list field) : list byte :=
  concat (map (canon_field (impl_lower t)) fs).
(* RR(i) as the implementation emits it *)
Definition impl_rr (owner : list label) (s : sigin) (cls : N) (r : rr) : list byte :=
  canon_rr owner (s_type s) cls (s_ottl s) (impl_canon (r_type r) (r_data r)).

Definition lower_mode (m : nenc) : bool := match m with UncompressedLower => true | _ => false end.

Lemma no_long_label ls : Forall wf_label ls -> existsb (fun l => 63 <? len l) ls = false.
Proof.
  induction 1 as [|l ls [_ Hl] _ IH]; [reflexivity|]. cbn [existsb]. rewrite IH, orb_false_r.
  apply N.ltb_ge. exact Hl.
Qed.

Lemma emit_name_plain m off ps ls :
  m <> Compressed -> wf_labels ls ->
  let ls' := if lower_mode m then lower_labels ls else ls in
  emit_name m off ps ls =
    if MAX <? off + len (wire_name ls') then None
    else Some (wire_name ls', store_all (off + len (enc_labels ls')) ps off ls').
Proof.
  intros Hm Hwf ls'.
  assert (Hwf' : wf_labels ls').
  { subst ls'. destruct (lower_mode m); [now apply wf_labels_lower|assumption]. }
  destruct Hwf' as [Hl H255].
  assert (Hlen : len (wire_name ls') = len (enc_labels ls') + 1).
  { unfold wire_name. rewrite len_app, len_cons, len_nil. lia. }
  unfold emit_name.
  assert (E : match m with UncompressedLower => lower_labels ls | _ => ls end = ls').
  { subst ls'. destruct m; reflexivity. }
  rewrite E. rewrite (no_long_label ls' Hl).
  destruct (MAX <? off + len (wire_name ls')) eqn:Efin.
  - destruct (MAX <? off + len (enc_labels ls')); [reflexivity|].
    destruct m; [congruence| |]; cbn [orb]; reflexivity.
  - apply N.ltb_ge in Efin.
    replace (MAX <? off + len (enc_labels ls')) with false by (symmetry; apply N.ltb_ge; lia).
    replace (255 <? len (wire_name ls')) with false by (symmetry; apply N.ltb_ge; lia).
    destruct m; [congruence| |]; cbn [orb]; reflexivity.
Qed.

Lemma emit_field_plain m off ps f :
  m <> Compressed -> wf_field f ->
  let o := canon_field (lower_mode m) f in
  if MAX <? off + len o then emit_field m off ps f = None
  else exists ps', emit_field m off ps f = Some (o, ps').
Proof.
  intros Hm Hwf. destruct f as [bs|ls]; cbn [emit_field canon_field].
  - destruct (MAX <? off + len bs); [reflexivity|eauto].
  - cbn [wf_field] in Hwf. rewrite (emit_name_plain m off ps ls Hm Hwf). cbv zeta.
    destruct (MAX <? off + len (wire_name (if lower_mode m then lower_labels ls else ls))); [reflexivity|eauto].
Qed.

Lemma emit_fields_plain m fs : forall off ps,
  m <> Compressed -> Forall wf_field fs -> off <= MAX ->
  let o := concat (map (canon_field (lower_mode m)) fs) in
  if MAX <? off + len o then emit_fields m off ps fs = None
  else exists ps', emit_fields m off ps fs = Some (o, ps').
Proof.
  induction fs as [|f fs IH]; intros off ps Hm Hwf Hoff; cbn [map concat emit_fields].
  - cbv zeta. rewrite len_nil.
    replace (MAX <? off + 0) with false by (symmetry; apply N.ltb_ge; lia). eauto.
  - inversion Hwf as [|? ? Hf Hfs]; subst. cbv zeta.
    pose proof (emit_field_plain m off ps f Hm Hf) as H1. cbv zeta in H1.
    set (o1 := canon_field (lower_mode m) f) in *.
    set (o2 := concat (map (canon_field (lower_mode m)) fs)) in *.
    rewrite len_app.
    destruct (MAX <? off + len o1) eqn:E1.
    + rewrite H1. apply N.ltb_lt in E1.
      replace (MAX <? off + (len o1 + len o2)) with true by (symmetry; apply N.ltb_lt; lia). reflexivity.
    + destruct H1 as (ps1 & H1). rewrite H1.
      apply N.ltb_ge in E1.
      specialize (IH (off + len o1) ps1 Hm Hfs E1). cbv zeta in IH. fold o2 in IH.
      replace (off + (len o1 + len o2)) with (off + len o1 + len o2) by lia.
      destruct (MAX <? off + len o1 + len o2).
      * now rewrite IH.
      * destruct IH as (ps2 & IH). rewrite IH. eauto.
Qed.

Lemma raw_fields_canon fs : raw_fields fs = concat (map (canon_field false) fs).
Proof. reflexivity. Qed.

(* RData::emit inside the TBS encoder (canonical_form = true, names uncompressed) *)
Lemma emit_rdata_plain t off ps fs :
  Forall wf_field fs -> off <= MAX ->
  let o := impl_canon t fs in
  if MAX <? off + len o then emit_rdata true Uncompressed t off ps fs = None
  else exists ps', emit_rdata true Uncompressed t off ps fs = Some (o, ps').
Proof.
  intros Hwf Hoff. unfold emit_rdata, impl_canon, impl_lower.
  destruct (impl_policy t) as [e|].
  - assert (Hm : with_rdata_behavior e true Uncompressed <> Compressed) by (destruct e; discriminate).
    pose proof (emit_fields_plain _ fs off ps Hm Hwf Hoff) as H. cbv zeta in H |- *.
    destruct e; exact H.
  - cbv zeta. rewrite raw_fields_canon.
    destruct (MAX <? off + len (concat (map (canon_field false) fs))); eauto.
Qed.

Lemma len_be16 n : len (be16 n) = 2. Proof. reflexivity. Qed.
Lemma len_be32 n : len (be32 n) = 4. Proof. reflexivity. Qed.

Lemma len_canon_rr owner t cls ottl rd :
  len (canon_rr owner t cls ottl rd) = len (wire_name owner) + 10 + len rd.
Proof. unfold canon_rr. rewrite !len_app, !len_be16, len_be32. lia. Qed.

Lemma emit_rr_plain owner s cls off ps r :
  wf_labels owner -> Forall wf_field (r_data r) -> off <= MAX ->
  let o := impl_rr (lower_labels owner) s cls r in
  if MAX <? off + len o then emit_rr owner s cls off ps r = None
  else exists ps', emit_rr owner s cls off ps r = Some (o, ps').
Proof.
  intros Hown Hwf Hoff. cbv zeta. unfold impl_rr. rewrite len_canon_rr.
  unfold emit_rr.
  rewrite (emit_name_plain UncompressedLower off ps owner ltac:(discriminate) Hown).
  cbv zeta. cbn [lower_mode].
  set (o1 := wire_name (lower_labels owner)).
  set (rd := impl_canon (r_type r) (r_data r)).
  destruct (MAX <? off + len o1) eqn:E1.
  { apply N.ltb_lt in E1.
    replace (MAX <? off + (len o1 + 10 + len rd)) with true by (symmetry; apply N.ltb_lt; lia). reflexivity. }
  apply N.ltb_ge in E1.
  rewrite !len_app, !len_be16, len_be32.
  set (ps1 := store_all _ ps off _).
  destruct (MAX <? off + len o1 + (2 + (2 + 4)) + 2) eqn:E2.
  { apply N.ltb_lt in E2.
    replace (MAX <? off + (len o1 + 10 + len rd)) with true by (symmetry; apply N.ltb_lt; lia). reflexivity. }
  apply N.ltb_ge in E2.
  pose proof (emit_rdata_plain (r_type r) (off + len o1 + (2 + (2 + 4)) + 2) ps1 (r_data r) Hwf E2) as H.
  cbv zeta in H. fold rd in H.
  replace (off + (len o1 + 10 + len rd)) with (off + len o1 + (2 + (2 + 4)) + 2 + len rd) by lia.
  destruct (MAX <? off + len o1 + (2 + (2 + 4)) + 2 + len rd) eqn:E3.
  { now rewrite H. }
  destruct H as (ps2 & H). rewrite H. apply N.ltb_ge in E3.
  replace (65535 <? len rd) with false by (symmetry; apply N.ltb_ge; unfold MAX in *; lia).
  exists ps2. unfold canon_rr. now rewrite <- !app_assoc.
Qed.

Lemma emit_rrs_plain owner s cls rs : forall off ps,
  wf_labels owner -> Forall (fun r => Forall wf_field (r_data r)) rs -> off <= MAX ->
  let o := concat (map (impl_rr (lower_labels owner) s cls) rs) in
  if MAX <? off + len o then emit_rrs owner s cls off ps rs = None
  else exists ps', emit_rrs owner s cls off ps rs = Some (o, ps').
Proof.
  induction rs as [|r rs IH]; intros off ps Hown Hwf Hoff; cbn [map concat emit_rrs]; cbv zeta.
  - rewrite len_nil. replace (MAX <? off + 0) with false by (symmetry; apply N.ltb_ge; lia). eauto.
  - inversion Hwf as [|? ? Hr Hrs]; subst.
    pose proof (emit_rr_plain owner s cls off ps r Hown Hr Hoff) as H1. cbv zeta in H1.
    set (o1 := impl_rr (lower_labels owner) s cls r) in *.
    set (o2 := concat (map (impl_rr (lower_labels owner) s cls) rs)) in *.
    rewrite len_app.
    destruct (MAX <? off + len o1) eqn:E1.
    + rewrite H1. apply N.ltb_lt in E1.
      replace (MAX <? off + (len o1 + len o2)) with true by (symmetry; apply N.ltb_lt; lia). reflexivity.
    + destruct H1 as (ps1 & H1). rewrite H1. apply N.ltb_ge in E1.
      specialize (IH (off + len o1) ps1 Hown Hrs E1). cbv zeta in IH. fold o2 in IH.
      replace (off + (len o1 + len o2)) with (off + len o1 + len o2) by lia.
      destruct (MAX <? off + len o1 + len o2).
      * now rewrite IH.
      * destruct IH as (ps2 & IH). rewrite IH. eauto.
Qed.

Lemma len_sig_fixed s : len (sig_fixed s) = 18.
Proof. reflexivity. Qed.

(* SigInput::emit produces the RFC RRSIG RDATA (signer's name in canonical form) *)
Lemma emit_siginput_plain s :
  wf_sig s -> exists ps, emit_siginput 0 [] s = Some (rfc_sig_rdata s, ps).
Proof.
  intros Hs. unfold emit_siginput.
  assert (Hm : with_rdata_behavior Canonical true Uncompressed <> Compressed) by discriminate.
  assert (Hwf : Forall wf_field [FB (sig_fixed s); FN (s_signer s)]) by (constructor; [exact I|constructor; [exact Hs|constructor]]).
  pose proof (emit_fields_plain _ _ 0 [] Hm Hwf ltac:(unfold MAX; lia)) as H. cbv zeta in H.
  cbn [with_rdata_behavior lower_mode map concat canon_field] in H.
  rewrite app_nil_r in H.
  assert (Hl : len (sig_fixed s ++ wire_name (lower_labels (s_signer s))) <= 273).
  { rewrite len_app, len_sig_fixed. pose proof (wf_labels_lower _ Hs) as [_ H255]. lia. }
  replace (MAX <? 0 + len (sig_fixed s ++ wire_name (lower_labels (s_signer s)))) with false in H
    by (symmetry; apply N.ltb_ge; unfold MAX; lia).
  destruct H as (ps & H). exists ps. cbn [with_rdata_behavior]. rewrite H.
  replace (rfc_sig_rdata s) with (sig_fixed s ++ wire_name (lower_labels (s_signer s))); [reflexivity|].
  unfold rfc_sig_rdata, sig_fixed. now rewrite <- !app_assoc.
Qed.

Lemma len_rfc_sig_rdata s : wf_sig s -> len (rfc_sig_rdata s) <= 273.
Proof.
  intros Hs. pose proof (wf_labels_lower _ Hs) as [_ H255].
  unfold rfc_sig_rdata. rewrite !len_app, !len_be16, !len_be32, !len_cons, len_nil. lia.
Qed.

(* closed form of TBS::new *)
Definition impl_rrset (nm : name) (cls : N) (s : sigin) (rs : list rr) : list rr :=
  isort rec_le (filter (in_rrset nm cls s) rs).

Definition tbs_closed (nm : name) (cls : N) (s : sigin) (rs : list rr) : result :=
  match determine_name nm (s_labels s) with
  | None => ErrName
  | Some nm' =>
      let d := rfc_sig_rdata s ++ concat (map (impl_rr (lower_labels (nlabels nm')) s cls) (impl_rrset nm cls s rs)) in
      if MAX <? len d then ErrEncode else Ok d
  end.

Lemma tbs_is_closed nm cls s rs :
  wf_labels (nlabels nm) -> wf_sig s ->
  Forall (fun r => Forall wf_field (r_data r)) (filter (in_rrset nm cls s) rs) ->
  tbs nm cls s rs = tbs_closed nm cls s rs.
Proof.
  intros Hn Hs Hr. unfold tbs, tbs_closed.
  destruct (determine_name nm (s_labels s)) as [nm'|] eqn:Ed; [|reflexivity].
  assert (Hown : wf_labels (nlabels nm')).
  { pose proof (determine_name_is_rfc nm (s_labels s) Hn) as H. rewrite Ed in H. cbn [option_map] in H.
    symmetry in H. exact (rfc_name_wf _ _ _ Hn H). }
  destruct (emit_siginput_plain s Hs) as (ps0 & H0). rewrite H0.
  pose proof (len_rfc_sig_rdata s Hs) as Hl0.
  fold (impl_rrset nm cls s rs).
  assert (Hr' : Forall (fun r => Forall wf_field (r_data r)) (impl_rrset nm cls s rs)).
  { rewrite Forall_forall in *. intros r Hin. apply Hr.
    eapply Permutation_in; [apply Permutation_sym, isort_perm|exact Hin]. }
  pose proof (emit_rrs_plain (nlabels nm') s cls (impl_rrset nm cls s rs) (len (rfc_sig_rdata s)) ps0 Hown Hr'
                ltac:(unfold MAX; lia)) as H1.
  cbv zeta in H1 |- *. rewrite len_app.
  destruct (MAX <? len (rfc_sig_rdata s) + len (concat (map (impl_rr (lower_labels (nlabels nm')) s cls) (impl_rrset nm cls s rs)))).
  - now rewrite H1.
  - destruct H1 as (ps1 & H1). now rewrite H1.
Qed.
