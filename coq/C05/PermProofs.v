(* C05 — the signed data does not depend on the order of the input records, provided records
   with the same sort key (TTL, RData::to_bytes) have the same canonical emission; and when that
   proviso holds. *)
From Coq Require Import Sorting.Sorted Sorting.Permutation.
From HV Require Import Lib.Base C05.Model C05.NameProofs C05.OrderProofs C05.EncodeProofs C05.GuardProofs
  C05.ShapeProofs C05.CompressProofs.
Open Scope N_scope.

Definition ic (r : rr) : list byte := impl_canon (r_type r) (r_data r).

Definition key_determines_output (set : list rr) : Prop :=
  forall a b, In a set -> In b set -> r_ttl a = r_ttl b -> tb a = tb b -> ic a = ic b.

(* ---------------------------------------------------------------- permutation invariance *)

Lemma filter_perm {A} (f : A -> bool) l l' : Permutation l l' -> Permutation (filter f l) (filter f l').
Proof.
  induction 1 as [|x l l' _ IH|x y l|l l' l'' _ IH1 _ IH2]; cbn [filter].
  - constructor.
  - destruct (f x); [now constructor|assumption].
  - destruct (f x), (f y); try reflexivity. apply perm_swap.
  - now transitivity (filter f l').
Qed.

Definition k3 (r : rr) : N * list byte * list byte := (r_ttl r, tb r, ic r).
Definition le3 (x y : N * list byte * list byte) : bool :=
  match fst (fst x) ?= fst (fst y) with
  | Eq => match cmp_bytes (snd (fst x)) (snd (fst y)) with Gt => false | _ => true end
  | Lt => true
  | Gt => false
  end.

Lemma le3_k3 a b : le3 (k3 a) (k3 b) = rec_le a b.
Proof.
  unfold le3, k3, rec_le, rec_cmp, tb. cbn [fst snd].
  destruct (r_ttl a ?= r_ttl b); reflexivity.
Qed.

Lemma sorted_map {A B} (f : A -> B) (R : B -> B -> Prop) l :
  StronglySorted (fun a b => R (f a) (f b)) l -> StronglySorted R (map f l).
Proof.
  induction 1 as [|a l Hs IH Hf]; cbn [map]; constructor; [assumption|].
  rewrite Forall_forall in *. intros y Hy. apply in_map_iff in Hy. destruct Hy as (b & <- & Hb). auto.
Qed.

Lemma ssorted_impl {A} (R S : A -> A -> Prop) l :
  (forall a b, R a b -> S a b) -> StronglySorted R l -> StronglySorted S l.
Proof.
  intros H. induction 1 as [|a l Hs IH Hf]; constructor; [assumption|].
  eapply Forall_impl; [|exact Hf]. intros b. apply H.
Qed.

Lemma rec_le_antisym a b : rec_le a b = true -> rec_le b a = true -> r_ttl a = r_ttl b /\ tb a = tb b.
Proof.
  rewrite !rec_le_spec. intros [H1|[H1 K1]] [H2|[H2 K2]]; try lia.
  split; [assumption|]. destruct K1 as [K1|K1]; [assumption|].
  destruct K2 as [K2|K2]; [now symmetry|]. exfalso. exact (lex_lt_asym _ _ K1 K2).
Qed.

Lemma sorted_output_unique F F' :
  key_determines_output F -> Permutation F F' ->
  map ic (isort rec_le F) = map ic (isort rec_le F').
Proof.
  intros Hk Hp.
  assert (E : map k3 (isort rec_le F) = map k3 (isort rec_le F')).
  { apply sorted_perm_unique with (le := le3).
    - intros x y Hx Hy Hxy Hyx.
      apply in_map_iff in Hx, Hy. destruct Hx as (a & <- & Ha), Hy as (b & <- & Hb).
      apply (Permutation_in _ (Permutation_sym (isort_perm rec_le F))) in Ha, Hb.
      rewrite le3_k3 in Hxy, Hyx. destruct (rec_le_antisym a b Hxy Hyx) as [E1 E2].
      unfold k3. now rewrite E1, E2, (Hk a b Ha Hb E1 E2).
    - apply sorted_map. eapply ssorted_impl; [|apply (isort_sorted rec_le rec_le_total rec_le_trans)].
      intros a b. cbv beta. now rewrite le3_k3.
    - apply sorted_map. eapply ssorted_impl; [|apply (isort_sorted rec_le rec_le_total rec_le_trans)].
      intros a b. cbv beta. now rewrite le3_k3.
    - apply Permutation_map.
      rewrite <- (isort_perm rec_le F), <- (isort_perm rec_le F'). exact Hp. }
  assert (M : forall l, map ic l = map snd (map k3 l)).
  { intros l. rewrite map_map. reflexivity. }
  now rewrite !M, E.
Qed.

Theorem tbs_perm_invariant nm cls s rs rs' :
  wf_labels (nlabels nm) -> wf_sig s -> Forall wf_rr (the_rrset nm cls s rs) ->
  key_determines_output (the_rrset nm cls s rs) ->
  Permutation rs rs' ->
  tbs nm cls s rs = tbs nm cls s rs'.
Proof.
  intros Hn Hs Hr Hk Hp.
  assert (HpF : Permutation (the_rrset nm cls s rs) (the_rrset nm cls s rs')) by now apply filter_perm.
  assert (Hr' : Forall wf_rr (the_rrset nm cls s rs')).
  { rewrite Forall_forall in *. intros r Hin. apply Hr. eapply Permutation_in; [apply Permutation_sym; exact HpF|exact Hin]. }
  rewrite !tbs_is_closed; try assumption; try (rewrite impl_filter_is_rrset; now apply wf_rrset_fields).
  unfold tbs_closed. destruct (determine_name nm (s_labels s)) as [nm'|]; [|reflexivity].
  cbv zeta. unfold impl_rrset. rewrite !impl_filter_is_rrset.
  assert (M : forall l, map (impl_rr (lower_labels (nlabels nm')) s cls) l
                        = map (canon_rr (lower_labels (nlabels nm')) (s_type s) cls (s_ottl s)) (map ic l)).
  { intros l. rewrite map_map. reflexivity. }
  now rewrite !M, (sorted_output_unique _ _ Hk HpF).
Qed.

(* ---------------------------------------------------------------- when the proviso holds *)

(* outside Compressed mode the sort key encoding is the plain octets *)
Lemma to_bytes_uncompressed t fs :
  impl_policy t <> Some StandardRecord -> Forall wf_field fs -> len (raw_fields fs) <= 65535 ->
  to_bytes t fs = raw_fields fs.
Proof.
  intros Hp Hwf Hl. destruct (impl_policy t) as [e|] eqn:E; [|now apply to_bytes_untyped].
  unfold to_bytes, emit_rdata. rewrite E.
  assert (Hm : with_rdata_behavior e false Compressed = Uncompressed) by (destruct e; [congruence|reflexivity|reflexivity]).
  rewrite Hm.
  pose proof (emit_fields_plain Uncompressed fs 0 [] ltac:(discriminate) Hwf ltac:(unfold MAX; lia)) as H.
  cbv zeta in H. cbn [lower_mode] in H. rewrite <- raw_fields_canon in H.
  replace (MAX <? 0 + len (raw_fields fs)) with false in H by (symmetry; apply N.ltb_ge; unfold MAX; lia).
  destruct H as (ps & H). now rewrite H.
Qed.

Lemma impl_lower_false_policy t : impl_lower t = false -> impl_policy t <> Some StandardRecord.
Proof. unfold impl_lower. destruct (impl_policy t) as [[| |]|]; congruence. Qed.

Theorem key_determines_sufficient set :
  Forall wf_rr set ->
  (forall a b, In a set -> In b set -> r_type a = r_type b) ->
  (forall a b, In a set -> In b set -> a = b) \/
  (forall a, In a set -> impl_lower (r_type a) = false) \/
  (forall a b, In a set -> In b set -> same_shape (r_data a) (r_data b)) ->
  key_determines_output set.
Proof.
  intros Hwf Hty Hcase a b Ha Hb _ Htb. unfold tb, ic in *.
  rewrite Forall_forall in Hwf. destruct (Hwf a Ha) as [Hfa Hla], (Hwf b Hb) as [Hfb Hlb].
  destruct Hcase as [Hone|[Hlow|Hshape]]; [now rewrite (Hone a b Ha Hb)| |].
  - pose proof (Hlow a Ha) as La. pose proof (Hlow b Hb) as Lb.
    rewrite (to_bytes_uncompressed _ _ (impl_lower_false_policy _ La) Hfa Hla) in Htb.
    rewrite (to_bytes_uncompressed _ _ (impl_lower_false_policy _ Lb) Hfb Hlb) in Htb.
    unfold impl_canon. rewrite La, Lb, <- !raw_fields_canon. exact Htb.
  - rewrite (Hty a b Ha Hb) in *.
    now rewrite (to_bytes_inj _ _ _ (Hshape a b Ha Hb) Hfa Hfb Hla Hlb Htb).
Qed.

(* ---------------------------------------------------------------- owner case and TTL shifts *)

(* what a verifier may see instead of the signer's records: owners in another case, TTLs
   transformed by an order-preserving map (e.g. all decremented by a cache) *)
Definition retarget (ren : rr -> name) (g : N -> N) (r : rr) : rr :=
  mkRR (ren r) (r_class r) (g (r_ttl r)) (r_type r) (r_data r).

Lemma name_eqb_lower a b :
  name_eqb a b = true <-> nfq a = nfq b /\ lower_labels (nlabels a) = lower_labels (nlabels b).
Proof.
  unfold name_eqb. rewrite andb_true_iff, labels_eqb_eq.
  split; intros [H1 H2]; (split; [|assumption]).
  - now apply eqb_prop.
  - rewrite H1. apply eqb_reflx.
Qed.

Lemma name_eqb_trans_l a b c : name_eqb a b = true -> name_eqb a c = name_eqb b c.
Proof.
  intros H. apply name_eqb_lower in H. destruct H as [H1 H2]. unfold name_eqb. now rewrite H1, H2.
Qed.

Lemma name_eqb_trans_r a b c : name_eqb b c = true -> name_eqb a b = name_eqb a c.
Proof.
  intros H. apply name_eqb_lower in H. destruct H as [H1 H2]. unfold name_eqb. now rewrite H1, H2.
Qed.

Lemma insert_map {A B} (f : A -> B) (le : A -> A -> bool) (le' : B -> B -> bool) x s :
  (forall y, In y s -> le' (f x) (f y) = le x y) -> insert le' (f x) (map f s) = map f (insert le x s).
Proof.
  induction s as [|y s IH]; intros H; cbn [map insert]; [reflexivity|].
  rewrite (H y (or_introl eq_refl)). destruct (le x y); cbn [map]; [reflexivity|].
  rewrite IH; [reflexivity|]. intros z Hz. apply H. now right.
Qed.

Lemma isort_map {A B} (f : A -> B) (le : A -> A -> bool) (le' : B -> B -> bool) l :
  (forall a b, In a l -> In b l -> le' (f a) (f b) = le a b) -> isort le' (map f l) = map f (isort le l).
Proof.
  induction l as [|x l IH]; intros H; cbn [map isort]; [reflexivity|].
  rewrite IH by (intros a b Ha Hb; apply H; now right).
  apply insert_map. intros y Hy. apply H; [now left|right].
  eapply Permutation_in; [apply Permutation_sym, isort_perm|exact Hy].
Qed.

Lemma filter_map_comm {A B} (f : A -> B) (p : B -> bool) (q : A -> bool) l :
  (forall a, In a l -> p (f a) = q a) -> filter p (map f l) = map f (filter q l).
Proof.
  induction l as [|x l IH]; intros H; cbn [map filter]; [reflexivity|].
  rewrite (H x (or_introl eq_refl)), IH by (intros a Ha; apply H; now right).
  destruct (q x); reflexivity.
Qed.

Theorem tbs_retarget_invariant nm nm' cls s rs ren g :
  wf_labels (nlabels nm) -> wf_labels (nlabels nm') -> wf_sig s ->
  Forall wf_rr (the_rrset nm cls s rs) ->
  name_eqb nm nm' = true ->
  (forall r, In r rs -> name_eqb (r_name r) (ren r) = true) ->
  (forall a b, In a rs -> In b rs -> (g (r_ttl a) ?= g (r_ttl b)) = (r_ttl a ?= r_ttl b)) ->
  tbs nm cls s rs = tbs nm' cls s (map (retarget ren g) rs).
Proof.
  intros Hn Hn' Hs Hr Hnm Hren Hg.
  assert (Hfilt : filter (in_rrset nm' cls s) (map (retarget ren g) rs)
                  = map (retarget ren g) (filter (in_rrset nm cls s) rs)).
  { apply filter_map_comm. intros r Hin. unfold in_rrset, retarget. cbn [r_class r_type r_name].
    f_equal. rewrite <- (name_eqb_trans_l nm nm' _ Hnm). symmetry. apply name_eqb_trans_r. now apply Hren. }
  rewrite !tbs_is_closed; try assumption.
  2:{ rewrite Hfilt, impl_filter_is_rrset. apply wf_rrset_fields in Hr.
      rewrite Forall_forall in *. intros r Hin. apply in_map_iff in Hin. destruct Hin as (r0 & <- & Hin).
      cbn [retarget r_data]. now apply Hr. }
  2:{ rewrite impl_filter_is_rrset. now apply wf_rrset_fields. }
  unfold tbs_closed.
  pose proof (determine_name_lower nm (s_labels s) Hn) as D1.
  pose proof (determine_name_lower nm' (s_labels s) Hn') as D2.
  apply name_eqb_lower in Hnm. destruct Hnm as [_ Hlow]. rewrite Hlow in D1. rewrite <- D2 in D1.
  destruct (determine_name nm (s_labels s)) as [o1|], (determine_name nm' (s_labels s)) as [o2|];
    cbn [option_map] in D1; try discriminate; [|reflexivity].
  injection D1 as D1. cbv zeta. rewrite D1. unfold impl_rrset. rewrite Hfilt.
  rewrite (isort_map (retarget ren g) rec_le rec_le).
  2:{ intros a b Ha Hb. apply filter_In in Ha, Hb.
      unfold rec_le, rec_cmp, retarget. cbn [r_ttl r_type r_data]. now rewrite (Hg a b (proj1 Ha) (proj1 Hb)). }
  rewrite map_map. reflexivity.
Qed.

Lemma rrset_retarget nm nm' cls s rs ren g :
  name_eqb nm nm' = true -> (forall r, In r rs -> name_eqb (r_name r) (ren r) = true) ->
  the_rrset nm' cls s (map (retarget ren g) rs) = map (retarget ren g) (the_rrset nm cls s rs).
Proof.
  intros Hnm Hren. rewrite <- !impl_filter_is_rrset.
  apply filter_map_comm. intros r Hin. unfold in_rrset, retarget. cbn [r_class r_type r_name].
  f_equal. rewrite <- (name_eqb_trans_l nm nm' _ Hnm). symmetry. apply name_eqb_trans_r. now apply Hren.
Qed.

Lemma key_determines_retarget set ren g :
  (forall a b, In a set -> In b set -> (g (r_ttl a) ?= g (r_ttl b)) = (r_ttl a ?= r_ttl b)) ->
  key_determines_output set -> key_determines_output (map (retarget ren g) set).
Proof.
  intros Hg Hk x y Hx Hy Ht Hb.
  apply in_map_iff in Hx, Hy. destruct Hx as (a & <- & Ha), Hy as (b & <- & Hb').
  unfold retarget, tb, ic in *. cbn [r_ttl r_type r_data] in *.
  apply (Hk a b Ha Hb'); [|exact Hb].
  apply N.compare_eq_iff. rewrite <- (Hg a b Ha Hb'). apply N.compare_eq_iff. exact Ht.
Qed.

(* signer's records vs. any reordering of a re-cased, TTL-shifted copy under a re-cased owner *)
Theorem tbs_verifier_view nm nm' cls s rs rs' ren g :
  wf_labels (nlabels nm) -> wf_labels (nlabels nm') -> wf_sig s ->
  Forall wf_rr (the_rrset nm cls s rs) ->
  key_determines_output (the_rrset nm cls s rs) ->
  name_eqb nm nm' = true ->
  (forall r, In r rs -> name_eqb (r_name r) (ren r) = true) ->
  (forall a b, In a rs -> In b rs -> (g (r_ttl a) ?= g (r_ttl b)) = (r_ttl a ?= r_ttl b)) ->
  Permutation (map (retarget ren g) rs) rs' ->
  tbs nm cls s rs = tbs nm' cls s rs'.
Proof.
  intros Hn Hn' Hs Hr Hk Hnm Hren Hg Hp.
  rewrite (tbs_retarget_invariant nm nm' cls s rs ren g); try assumption.
  apply tbs_perm_invariant; try assumption.
  - rewrite (rrset_retarget nm nm' cls s rs ren g Hnm Hren).
    rewrite Forall_forall in *. intros r Hin. apply in_map_iff in Hin. destruct Hin as (r0 & <- & Hin).
    exact (Hr r0 Hin).
  - rewrite (rrset_retarget nm nm' cls s rs ren g Hnm Hren). apply key_determines_retarget; [|assumption].
    intros a b Ha Hb. unfold the_rrset in Ha, Hb. apply filter_In in Ha, Hb. apply Hg; tauto.
Qed.

(* ---------------------------------------------------------------- RRsets of one layout *)

(* the records of the RRset have names at the same positions (true of records of one type) *)
Definition uniform_layout (set : list rr) : Prop :=
  forall a b, In a set -> In b set -> same_shape (r_data a) (r_data b).

Lemma rrset_type nm cls s rs a : In a (the_rrset nm cls s rs) -> r_type a = s_type s.
Proof.
  unfold the_rrset. intros H. apply filter_In in H. destruct H as [_ H].
  unfold rrset_member in H. apply andb_true_iff in H. destruct H as [H _].
  apply andb_true_iff in H. destruct H as [_ H]. now apply N.eqb_eq.
Qed.

Lemma key_determines_rrset nm cls s rs :
  Forall wf_rr (the_rrset nm cls s rs) -> uniform_layout (the_rrset nm cls s rs) ->
  key_determines_output (the_rrset nm cls s rs).
Proof.
  intros Hwf Hu. apply key_determines_sufficient; [assumption| |right; right; exact Hu].
  intros a b Ha Hb. now rewrite (rrset_type _ _ _ _ _ Ha), (rrset_type _ _ _ _ _ Hb).
Qed.
