(* C05 — the signed data does not depend on the order of the input records, provided records
   with the same sort key (TTL, RData::to_bytes) have the same canonical emission; and when that
   proviso holds. *)
From Coq Require Import Sorting.Sorted Sorting.Permutation.
From HV Require Import Lib.Base C05.Model C05.NameProofs C05.OrderProofs C05.EncodeProofs C05.GuardProofs.
Open Scope N_scope.

Definition ic (r : rr) : list byte := impl_canon (r_type r) (r_data r).

Definition key_determines_output (set : list rr) : Prop :=
  forall a b, In a set -> In b set -> r_ttl a = r_ttl b -> tb a = tb b -> ic a = ic b.

(* [n] character-strings (length octet + octets) one after the other *)
Inductive cs_seq : nat -> list byte -> Prop :=
| cs_nil : cs_seq O []
| cs_cons : forall n s rest, cs_seq n rest -> cs_seq (S n) (len s :: s ++ rest).
(* [k] fixed octets followed by [n] character-strings (e.g. NAPTR: 4 and 3) *)
Definition framed (k n : nat) (a : list byte) : Prop :=
  exists p q, a = p ++ q /\ length p = k /\ cs_seq n q.

(* field lists with the same layout: names at the same positions; octet fields of the same
   length, or self-delimiting with the same frame, except the last *)
Inductive same_shape : list field -> list field -> Prop :=
| ss_nil : same_shape [] []
| ss_last : forall a b, same_shape [FB a] [FB b]
| ss_fb : forall a b f1 f2, length a = length b -> same_shape f1 f2 -> same_shape (FB a :: f1) (FB b :: f2)
| ss_framed : forall k n a b f1 f2, framed k n a -> framed k n b -> same_shape f1 f2 ->
    same_shape (FB a :: f1) (FB b :: f2)
| ss_fn : forall a b f1 f2, same_shape f1 f2 -> same_shape (FN a :: f1) (FN b :: f2).

Fixpoint count_names (fs : list field) : nat :=
  match fs with [] => O | FN _ :: fs' => S (count_names fs') | FB _ :: fs' => count_names fs' end.

(* ---------------------------------------------------------------- permutation invariance *)

Lemma filter_perm {A} (f : A -> bool) l l' : Permutation l l' -> Permutation (filter f l) (filter f l').
Proof.
  induction 1 as [|x l l' _ IH|x y l|l l' l'' _ IH1 _ IH2]; cbn [filter].
  - constructor.
  - destruct (f x); [now constructor|assumption].
  - destruct (f x), (f y); try reflexivity. apply perm_swap.
  - now transitivity (filter f l').
Qed.

Definition k3 (r : rr) : N * list byte * list byte := (r_ttl r, tb r, ic r).
Definition le3 (x y : N * list byte * list byte) : bool :=
  match fst (fst x) ?= fst (fst y) with
  | Eq => match cmp_bytes (snd (fst x)) (snd (fst y)) with Gt => false | _ => true end
  | Lt => true
  | Gt => false
  end.

Lemma le3_k3 a b : le3 (k3 a) (k3 b) = rec_le a b.
Proof.
  unfold le3, k3, rec_le, rec_cmp, tb. cbn [fst snd].
  destruct (r_ttl a ?= r_ttl b); reflexivity.
Qed.

Lemma sorted_map {A B} (f : A -> B) (R : B -> B -> Prop) l :
  StronglySorted (fun a b => R (f a) (f b)) l -> StronglySorted R (map f l).
Proof.
  induction 1 as [|a l Hs IH Hf]; cbn [map]; constructor; [assumption|].
  rewrite Forall_forall in *. intros y Hy. apply in_map_iff in Hy. destruct Hy as (b & <- & Hb). auto.
Qed.

Lemma ssorted_impl {A} (R S : A -> A -> Prop) l :
  (forall a b, R a b -> S a b) -> StronglySorted R l -> StronglySorted S l.
Proof.
  intros H. induction 1 as [|a l Hs IH Hf]; constructor; [assumption|].
  eapply Forall_impl; [|exact Hf]. intros b. apply H.
Qed.

Lemma rec_le_antisym a b : rec_le a b = true -> rec_le b a = true -> r_ttl a = r_ttl b /\ tb a = tb b.
Proof.
  rewrite !rec_le_spec. intros [H1|[H1 K1]] [H2|[H2 K2]]; try lia.
  split; [assumption|]. destruct K1 as [K1|K1]; [assumption|].
  destruct K2 as [K2|K2]; [now symmetry|]. exfalso. exact (lex_lt_asym _ _ K1 K2).
Qed.

Lemma sorted_output_unique F F' :
  key_determines_output F -> Permutation F F' ->
  map ic (isort rec_le F) = map ic (isort rec_le F').
Proof.
  intros Hk Hp.
  assert (E : map k3 (isort rec_le F) = map k3 (isort rec_le F')).
  { apply sorted_perm_unique with (le := le3).
    - intros x y Hx Hy Hxy Hyx.
      apply in_map_iff in Hx, Hy. destruct Hx as (a & <- & Ha), Hy as (b & <- & Hb).
      apply (Permutation_in _ (Permutation_sym (isort_perm rec_le F))) in Ha, Hb.
      rewrite le3_k3 in Hxy, Hyx. destruct (rec_le_antisym a b Hxy Hyx) as [E1 E2].
      unfold k3. now rewrite E1, E2, (Hk a b Ha Hb E1 E2).
    - apply sorted_map. eapply ssorted_impl; [|apply (isort_sorted rec_le rec_le_total rec_le_trans)].
      intros a b. cbv beta. now rewrite le3_k3.
    - apply sorted_map. eapply ssorted_impl; [|apply (isort_sorted rec_le rec_le_total rec_le_trans)].
      intros a b. cbv beta. now rewrite le3_k3.
    - apply Permutation_map.
      rewrite <- (isort_perm rec_le F), <- (isort_perm rec_le F'). exact Hp. }
  assert (M : forall l, map ic l = map snd (map k3 l)).
  { intros l. rewrite map_map. reflexivity. }
  now rewrite !M, E.
Qed.

Theorem tbs_perm_invariant nm cls s rs rs' :
  wf_labels (nlabels nm) -> wf_sig s -> Forall wf_rr (the_rrset nm cls s rs) ->
  key_determines_output (the_rrset nm cls s rs) ->
  Permutation rs rs' ->
  tbs nm cls s rs = tbs nm cls s rs'.
Proof.
  intros Hn Hs Hr Hk Hp.
  assert (HpF : Permutation (the_rrset nm cls s rs) (the_rrset nm cls s rs')) by now apply filter_perm.
  assert (Hr' : Forall wf_rr (the_rrset nm cls s rs')).
  { rewrite Forall_forall in *. intros r Hin. apply Hr. eapply Permutation_in; [apply Permutation_sym; exact HpF|exact Hin]. }
  rewrite !tbs_is_closed; try assumption; try (rewrite impl_filter_is_rrset; now apply wf_rrset_fields).
  unfold tbs_closed. destruct (determine_name nm (s_labels s)) as [nm'|]; [|reflexivity].
  cbv zeta. unfold impl_rrset. rewrite !impl_filter_is_rrset.
  assert (M : forall l, map (impl_rr (lower_labels (nlabels nm')) s cls) l
                        = map (canon_rr (lower_labels (nlabels nm')) (s_type s) cls (s_ottl s)) (map ic l)).
  { intros l. rewrite map_map. reflexivity. }
  now rewrite !M, (sorted_output_unique _ _ Hk HpF).
Qed.

(* ---------------------------------------------------------------- when the proviso holds *)

(* outside Compressed mode the sort key encoding is the plain octets *)
Lemma to_bytes_uncompressed t fs :
  impl_policy t <> Some StandardRecord -> Forall wf_field fs -> len (raw_fields fs) <= 65535 ->
  to_bytes t fs = raw_fields fs.
Proof.
  intros Hp Hwf Hl. destruct (impl_policy t) as [e|] eqn:E; [|now apply to_bytes_untyped].
  unfold to_bytes, emit_rdata. rewrite E.
  assert (Hm : with_rdata_behavior e false Compressed = Uncompressed) by (destruct e; [congruence|reflexivity|reflexivity]).
  rewrite Hm.
  pose proof (emit_fields_plain Uncompressed fs 0 [] ltac:(discriminate) Hwf ltac:(unfold MAX; lia)) as H.
  cbv zeta in H. cbn [lower_mode] in H. rewrite <- raw_fields_canon in H.
  replace (MAX <? 0 + len (raw_fields fs)) with false in H by (symmetry; apply N.ltb_ge; unfold MAX; lia).
  destruct H as (ps & H). now rewrite H.
Qed.

Lemma find_ptr_none ps s :
  (forall st m, In (st, m) ps -> length m <> length s) -> find_ptr ps s = None.
Proof.
  induction ps as [|[st m] ps IH]; intros H; cbn [find_ptr]; [reflexivity|].
  destruct (bytes_eqb m s) eqn:E.
  - apply bytes_eqb_eq in E. subst. exfalso. apply (H st s); [now left|reflexivity].
  - apply IH. intros st' m' Hin. apply (H st' m'). now right.
Qed.

Lemma enc_labels_cons l ls : enc_labels (l :: ls) = enc_label l ++ enc_labels ls.
Proof. reflexivity. Qed.

(* a name emitted when every stored suffix is longer than the name is not compressed *)
Lemma compress_no_match ls : forall off last ps pre,
  (forall st m, In (st, m) ps -> (length (enc_labels ls) < length m)%nat) ->
  exists ps', compress off last ps pre ls = (pre ++ enc_labels ls ++ [0], ps', false).
Proof.
  induction ls as [|l ls IH]; intros off last ps pre Hps; cbn [compress].
  - eexists. reflexivity.
  - rewrite find_ptr_none.
    2:{ intros st m Hin. specialize (Hps st m Hin). lia. }
    assert (Hlen : (length (enc_labels ls) < length (enc_labels (l :: ls)))%nat).
    { rewrite enc_labels_cons, app_length. unfold enc_label. cbn [length]. lia. }
    destruct (IH off last (store_ptr last ps (off + len pre) (enc_labels (l :: ls))) (pre ++ enc_label l)) as (ps' & H).
    + intros st m Hin. unfold store_ptr in Hin.
      destruct ((last <? 16383) && (len ps <? 64)).
      * apply in_app_or in Hin. destruct Hin as [Hin|[Hin|[]]].
        -- specialize (Hps st m Hin). lia.
        -- inversion Hin; subst. exact Hlen.
      * specialize (Hps st m Hin). lia.
    + exists ps'. rewrite H. rewrite enc_labels_cons, <- !app_assoc. reflexivity.
Qed.

Lemma emit_name_first off ls :
  wf_labels ls ->
  if MAX <? off + len (wire_name ls) then emit_name Compressed off [] ls = None
  else exists ps', emit_name Compressed off [] ls = Some (wire_name ls, ps').
Proof.
  intros [Hl H255]. unfold emit_name. rewrite (no_long_label ls Hl).
  assert (Hlen : len (wire_name ls) = len (enc_labels ls) + 1).
  { unfold wire_name. rewrite len_app, len_cons, len_nil. lia. }
  destruct (compress_no_match ls off (off + len (enc_labels ls)) [] []) as (ps' & H).
  { intros st m []. }
  rewrite H. cbn [app]. fold (wire_name ls).
  destruct (MAX <? off + len (wire_name ls)) eqn:E.
  - destruct (MAX <? off + len (enc_labels ls)); [reflexivity|]. reflexivity.
  - apply N.ltb_ge in E.
    replace (MAX <? off + len (enc_labels ls)) with false by (symmetry; apply N.ltb_ge; lia).
    replace (255 <? len (wire_name ls)) with false by (symmetry; apply N.ltb_ge; lia).
    cbn [orb]. eauto.
Qed.

Lemma emit_fields_no_names m fs : forall off ps,
  count_names fs = O -> off <= MAX ->
  emit_fields m off ps fs = if MAX <? off + len (raw_fields fs) then None else Some (raw_fields fs, ps).
Proof.
  induction fs as [|[bs|ls] fs IH]; intros off ps Hc Hoff; cbn [emit_fields emit_field count_names] in *; try discriminate.
  - cbn. replace (MAX <? off + 0) with false by (symmetry; apply N.ltb_ge; lia). reflexivity.
  - unfold raw_fields. cbn [map concat raw_field]. fold (raw_fields fs). rewrite len_app.
    destruct (MAX <? off + len bs) eqn:E1.
    + apply N.ltb_lt in E1.
      replace (MAX <? off + (len bs + len (raw_fields fs))) with true by (symmetry; apply N.ltb_lt; lia). reflexivity.
    + apply N.ltb_ge in E1. rewrite (IH (off + len bs) ps Hc E1).
      replace (off + (len bs + len (raw_fields fs))) with (off + len bs + len (raw_fields fs)) by lia.
      destruct (MAX <? off + len bs + len (raw_fields fs)); reflexivity.
Qed.

Lemma emit_fields_one_name fs : forall off,
  (count_names fs <= 1)%nat -> Forall wf_field fs -> off <= MAX ->
  if MAX <? off + len (raw_fields fs) then emit_fields Compressed off [] fs = None
  else exists ps', emit_fields Compressed off [] fs = Some (raw_fields fs, ps').
Proof.
  induction fs as [|[bs|ls] fs IH]; intros off Hc Hwf Hoff; cbn [emit_fields emit_field count_names] in *.
  - cbn. replace (MAX <? off + 0) with false by (symmetry; apply N.ltb_ge; lia). eauto.
  - inversion Hwf as [|? ? _ Hfs]; subst.
    unfold raw_fields. cbn [map concat raw_field]. fold (raw_fields fs). rewrite len_app.
    destruct (MAX <? off + len bs) eqn:E1.
    + apply N.ltb_lt in E1.
      replace (MAX <? off + (len bs + len (raw_fields fs))) with true by (symmetry; apply N.ltb_lt; lia). reflexivity.
    + apply N.ltb_ge in E1. specialize (IH (off + len bs) Hc Hfs E1).
      replace (off + (len bs + len (raw_fields fs))) with (off + len bs + len (raw_fields fs)) by lia.
      destruct (MAX <? off + len bs + len (raw_fields fs)).
      * now rewrite IH.
      * destruct IH as (ps' & IH). rewrite IH. eauto.
  - inversion Hwf as [|? ? Hls Hfs]; subst. cbn [wf_field] in Hls.
    unfold raw_fields. cbn [map concat raw_field]. fold (raw_fields fs). rewrite len_app.
    pose proof (emit_name_first off ls Hls) as H1.
    destruct (MAX <? off + len (wire_name ls)) eqn:E1.
    + rewrite H1. apply N.ltb_lt in E1.
      replace (MAX <? off + (len (wire_name ls) + len (raw_fields fs))) with true by (symmetry; apply N.ltb_lt; lia).
      reflexivity.
    + destruct H1 as (ps1 & H1). rewrite H1. apply N.ltb_ge in E1.
      rewrite (emit_fields_no_names Compressed fs (off + len (wire_name ls)) ps1 ltac:(lia) E1).
      replace (off + (len (wire_name ls) + len (raw_fields fs))) with (off + len (wire_name ls) + len (raw_fields fs)) by lia.
      destruct (MAX <? off + len (wire_name ls) + len (raw_fields fs)); eauto.
Qed.

(* RDATA with at most one name is never compressed in the sort key *)
Lemma to_bytes_one_name t fs :
  (count_names fs <= 1)%nat -> Forall wf_field fs -> len (raw_fields fs) <= 65535 ->
  to_bytes t fs = raw_fields fs.
Proof.
  intros Hc Hwf Hl. destruct (impl_policy t) as [[| |]|] eqn:E;
    try (apply to_bytes_uncompressed; [rewrite E; discriminate|assumption|assumption]).
  unfold to_bytes, emit_rdata. rewrite E. cbn [with_rdata_behavior].
  pose proof (emit_fields_one_name fs 0 Hc Hwf ltac:(unfold MAX; lia)) as H.
  replace (MAX <? 0 + len (raw_fields fs)) with false in H by (symmetry; apply N.ltb_ge; unfold MAX; lia).
  destruct H as (ps & H). now rewrite H.
Qed.

(* --- the uncompressed wire form determines the fields, given the layout *)

Lemma app_inj_length {A} (a b x y : list A) : length a = length b -> a ++ x = b ++ y -> a = b /\ x = y.
Proof.
  revert b. induction a as [|h a IH]; intros [|h' b] Hl H; cbn in *; try discriminate.
  - now split.
  - inversion H; subst. destruct (IH b ltac:(lia) H2) as [-> ->]. now split.
Qed.

Lemma wire_name_cons_app l ls r : wire_name (l :: ls) ++ r = len l :: l ++ (wire_name ls ++ r).
Proof.
  unfold wire_name. rewrite enc_labels_cons. unfold enc_label. cbn [app]. now rewrite <- !app_assoc.
Qed.

Lemma wire_name_inj l1 : forall l2 r1 r2,
  Forall wf_label l1 -> Forall wf_label l2 ->
  wire_name l1 ++ r1 = wire_name l2 ++ r2 -> l1 = l2 /\ r1 = r2.
Proof.
  induction l1 as [|a l1 IH]; intros [|b l2] r1 r2 H1 H2 H.
  - cbn in H. inversion H. now split.
  - exfalso. rewrite wire_name_cons_app in H. cbn in H. injection H as Hz _.
    inversion H2 as [|? ? [Hn _] _]; subst. destruct b; [congruence|]. unfold len in Hz. cbn [length] in Hz. lia.
  - exfalso. rewrite wire_name_cons_app in H. cbn in H. injection H as Hz _.
    inversion H1 as [|? ? [Hn _] _]; subst. destruct a; [congruence|]. unfold len in Hz. cbn [length] in Hz. lia.
  - rewrite !wire_name_cons_app in H. injection H as Hlen Hrest.
    inversion H1 as [|? ? _ H1']; subst. inversion H2 as [|? ? _ H2']; subst.
    assert (Hl : length a = length b) by (unfold len in Hlen; lia).
    destruct (app_inj_length a b _ _ Hl Hrest) as [-> Hrest'].
    destruct (IH l2 r1 r2 H1' H2' Hrest') as [-> ->]. now split.
Qed.

Lemma cs_seq_inj n : forall a b x y, cs_seq n a -> cs_seq n b -> a ++ x = b ++ y -> a = b /\ x = y.
Proof.
  induction n as [|n IH]; intros a b x y Ha Hb H; inversion Ha; inversion Hb; subst.
  - now split.
  - cbn [app] in H. injection H as Hlen Hrest. rewrite <- !app_assoc in Hrest.
    assert (Hl : length s = length s0) by (unfold len in Hlen; lia).
    destruct (app_inj_length s s0 _ _ Hl Hrest) as [-> Hrest'].
    destruct (IH _ _ _ _ H1 H4 Hrest') as [-> ->]. now split.
Qed.

Lemma framed_inj k n a b x y : framed k n a -> framed k n b -> a ++ x = b ++ y -> a = b /\ x = y.
Proof.
  intros (p1 & q1 & -> & Hp1 & Hq1) (p2 & q2 & -> & Hp2 & Hq2) H.
  rewrite <- !app_assoc in H.
  destruct (app_inj_length p1 p2 _ _ ltac:(congruence) H) as [-> H'].
  destruct (cs_seq_inj n _ _ _ _ Hq1 Hq2 H') as [-> ->]. now split.
Qed.

Lemma raw_fields_inj f1 f2 :
  same_shape f1 f2 -> Forall wf_field f1 -> Forall wf_field f2 ->
  raw_fields f1 = raw_fields f2 -> f1 = f2.
Proof.
  induction 1 as [|a b|a b f1 f2 Hl _ IH|k n a b f1 f2 Ha Hb _ IH|a b f1 f2 _ IH]; intros H1 H2 H.
  - reflexivity.
  - unfold raw_fields in H. cbn in H. rewrite !app_nil_r in H. now subst.
  - inversion H1 as [|? ? _ H1']; subst. inversion H2 as [|? ? _ H2']; subst.
    unfold raw_fields in H. cbn [map concat raw_field] in H.
    destruct (app_inj_length a b _ _ Hl H) as [-> H']. f_equal. now apply IH.
  - inversion H1 as [|? ? _ H1']; subst. inversion H2 as [|? ? _ H2']; subst.
    unfold raw_fields in H. cbn [map concat raw_field] in H.
    destruct (framed_inj k n a b _ _ Ha Hb H) as [-> H']. f_equal. now apply IH.
  - inversion H1 as [|? ? Ha H1']; subst. inversion H2 as [|? ? Hb H2']; subst.
    unfold raw_fields in H. cbn [map concat raw_field] in H.
    destruct (wire_name_inj a b _ _ (proj1 Ha) (proj1 Hb) H) as [-> H']. f_equal. now apply IH.
Qed.

Lemma impl_lower_false_policy t : impl_lower t = false -> impl_policy t <> Some StandardRecord.
Proof. unfold impl_lower. destruct (impl_policy t) as [[| |]|]; congruence. Qed.

Theorem key_determines_sufficient set :
  Forall wf_rr set ->
  (forall a b, In a set -> In b set -> r_type a = r_type b) ->
  (forall a b, In a set -> In b set -> a = b) \/
  (forall a, In a set -> impl_lower (r_type a) = false) \/
  (forall a b, In a set -> In b set -> same_shape (r_data a) (r_data b) /\ (count_names (r_data a) <= 1)%nat) ->
  key_determines_output set.
Proof.
  intros Hwf Hty Hcase a b Ha Hb _ Htb. unfold tb, ic in *.
  rewrite Forall_forall in Hwf. destruct (Hwf a Ha) as [Hfa Hla], (Hwf b Hb) as [Hfb Hlb].
  destruct Hcase as [Hone|[Hlow|Hshape]]; [now rewrite (Hone a b Ha Hb)| |].
  - pose proof (Hlow a Ha) as La. pose proof (Hlow b Hb) as Lb.
    rewrite (to_bytes_uncompressed _ _ (impl_lower_false_policy _ La) Hfa Hla) in Htb.
    rewrite (to_bytes_uncompressed _ _ (impl_lower_false_policy _ Lb) Hfb Hlb) in Htb.
    unfold impl_canon. rewrite La, Lb, <- !raw_fields_canon. exact Htb.
  - destruct (Hshape a b Ha Hb) as [Hs Hca]. destruct (Hshape b a Hb Ha) as [_ Hcb].
    rewrite (to_bytes_one_name _ _ Hca Hfa Hla), (to_bytes_one_name _ _ Hcb Hfb Hlb) in Htb.
    rewrite (raw_fields_inj _ _ Hs Hfa Hfb Htb), (Hty a b Ha Hb). reflexivity.
Qed.

(* ---------------------------------------------------------------- owner case and TTL shifts *)

(* what a verifier may see instead of the signer's records: owners in another case, TTLs
   transformed by an order-preserving map (e.g. all decremented by a cache) *)
Definition retarget (ren : rr -> name) (g : N -> N) (r : rr) : rr :=
  mkRR (ren r) (r_class r) (g (r_ttl r)) (r_type r) (r_data r).

Lemma name_eqb_lower a b :
  name_eqb a b = true <-> nfq a = nfq b /\ lower_labels (nlabels a) = lower_labels (nlabels b).
Proof.
  unfold name_eqb. rewrite andb_true_iff, labels_eqb_eq.
  split; intros [H1 H2]; (split; [|assumption]).
  - now apply eqb_prop.
  - rewrite H1. apply eqb_reflx.
Qed.

Lemma name_eqb_trans_l a b c : name_eqb a b = true -> name_eqb a c = name_eqb b c.
Proof.
  intros H. apply name_eqb_lower in H. destruct H as [H1 H2]. unfold name_eqb. now rewrite H1, H2.
Qed.

Lemma name_eqb_trans_r a b c : name_eqb b c = true -> name_eqb a b = name_eqb a c.
Proof.
  intros H. apply name_eqb_lower in H. destruct H as [H1 H2]. unfold name_eqb. now rewrite H1, H2.
Qed.

Lemma insert_map {A B} (f : A -> B) (le : A -> A -> bool) (le' : B -> B -> bool) x s :
  (forall y, In y s -> le' (f x) (f y) = le x y) -> insert le' (f x) (map f s) = map f (insert le x s).
Proof.
  induction s as [|y s IH]; intros H; cbn [map insert]; [reflexivity|].
  rewrite (H y (or_introl eq_refl)). destruct (le x y); cbn [map]; [reflexivity|].
  rewrite IH; [reflexivity|]. intros z Hz. apply H. now right.
Qed.

Lemma isort_map {A B} (f : A -> B) (le : A -> A -> bool) (le' : B -> B -> bool) l :
  (forall a b, In a l -> In b l -> le' (f a) (f b) = le a b) -> isort le' (map f l) = map f (isort le l).
Proof.
  induction l as [|x l IH]; intros H; cbn [map isort]; [reflexivity|].
  rewrite IH by (intros a b Ha Hb; apply H; now right).
  apply insert_map. intros y Hy. apply H; [now left|right].
  eapply Permutation_in; [apply Permutation_sym, isort_perm|exact Hy].
Qed.

Lemma filter_map_comm {A B} (f : A -> B) (p : B -> bool) (q : A -> bool) l :
  (forall a, In a l -> p (f a) = q a) -> filter p (map f l) = map f (filter q l).
Proof.
  induction l as [|x l IH]; intros H; cbn [map filter]; [reflexivity|].
  rewrite (H x (or_introl eq_refl)), IH by (intros a Ha; apply H; now right).
  destruct (q x); reflexivity.
Qed.

Theorem tbs_retarget_invariant nm nm' cls s rs ren g :
  wf_labels (nlabels nm) -> wf_labels (nlabels nm') -> wf_sig s ->
  Forall wf_rr (the_rrset nm cls s rs) ->
  name_eqb nm nm' = true ->
  (forall r, In r rs -> name_eqb (r_name r) (ren r) = true) ->
  (forall a b, In a rs -> In b rs -> (g (r_ttl a) ?= g (r_ttl b)) = (r_ttl a ?= r_ttl b)) ->
  tbs nm cls s rs = tbs nm' cls s (map (retarget ren g) rs).
Proof.
  intros Hn Hn' Hs Hr Hnm Hren Hg.
  assert (Hfilt : filter (in_rrset nm' cls s) (map (retarget ren g) rs)
                  = map (retarget ren g) (filter (in_rrset nm cls s) rs)).
  { apply filter_map_comm. intros r Hin. unfold in_rrset, retarget. cbn [r_class r_type r_name].
    f_equal. rewrite <- (name_eqb_trans_l nm nm' _ Hnm). symmetry. apply name_eqb_trans_r. now apply Hren. }
  rewrite !tbs_is_closed; try assumption.
  2:{ rewrite Hfilt, impl_filter_is_rrset. apply wf_rrset_fields in Hr.
      rewrite Forall_forall in *. intros r Hin. apply in_map_iff in Hin. destruct Hin as (r0 & <- & Hin).
      cbn [retarget r_data]. now apply Hr. }
  2:{ rewrite impl_filter_is_rrset. now apply wf_rrset_fields. }
  unfold tbs_closed.
  pose proof (determine_name_lower nm (s_labels s) Hn) as D1.
  pose proof (determine_name_lower nm' (s_labels s) Hn') as D2.
  apply name_eqb_lower in Hnm. destruct Hnm as [_ Hlow]. rewrite Hlow in D1. rewrite <- D2 in D1.
  destruct (determine_name nm (s_labels s)) as [o1|], (determine_name nm' (s_labels s)) as [o2|];
    cbn [option_map] in D1; try discriminate; [|reflexivity].
  injection D1 as D1. cbv zeta. rewrite D1. unfold impl_rrset. rewrite Hfilt.
  rewrite (isort_map (retarget ren g) rec_le rec_le).
  2:{ intros a b Ha Hb. apply filter_In in Ha, Hb.
      unfold rec_le, rec_cmp, retarget. cbn [r_ttl r_type r_data]. now rewrite (Hg a b (proj1 Ha) (proj1 Hb)). }
  rewrite map_map. reflexivity.
Qed.

Lemma rrset_retarget nm nm' cls s rs ren g :
  name_eqb nm nm' = true -> (forall r, In r rs -> name_eqb (r_name r) (ren r) = true) ->
  the_rrset nm' cls s (map (retarget ren g) rs) = map (retarget ren g) (the_rrset nm cls s rs).
Proof.
  intros Hnm Hren. rewrite <- !impl_filter_is_rrset.
  apply filter_map_comm. intros r Hin. unfold in_rrset, retarget. cbn [r_class r_type r_name].
  f_equal. rewrite <- (name_eqb_trans_l nm nm' _ Hnm). symmetry. apply name_eqb_trans_r. now apply Hren.
Qed.

Lemma key_determines_retarget set ren g :
  (forall a b, In a set -> In b set -> (g (r_ttl a) ?= g (r_ttl b)) = (r_ttl a ?= r_ttl b)) ->
  key_determines_output set -> key_determines_output (map (retarget ren g) set).
Proof.
  intros Hg Hk x y Hx Hy Ht Hb.
  apply in_map_iff in Hx, Hy. destruct Hx as (a & <- & Ha), Hy as (b & <- & Hb').
  unfold retarget, tb, ic in *. cbn [r_ttl r_type r_data] in *.
  apply (Hk a b Ha Hb'); [|exact Hb].
  apply N.compare_eq_iff. rewrite <- (Hg a b Ha Hb'). apply N.compare_eq_iff. exact Ht.
Qed.

(* signer's records vs. any reordering of a re-cased, TTL-shifted copy under a re-cased owner *)
Theorem tbs_verifier_view nm nm' cls s rs rs' ren g :
  wf_labels (nlabels nm) -> wf_labels (nlabels nm') -> wf_sig s ->
  Forall wf_rr (the_rrset nm cls s rs) ->
  key_determines_output (the_rrset nm cls s rs) ->
  name_eqb nm nm' = true ->
  (forall r, In r rs -> name_eqb (r_name r) (ren r) = true) ->
  (forall a b, In a rs -> In b rs -> (g (r_ttl a) ?= g (r_ttl b)) = (r_ttl a ?= r_ttl b)) ->
  Permutation (map (retarget ren g) rs) rs' ->
  tbs nm cls s rs = tbs nm' cls s rs'.
Proof.
  intros Hn Hn' Hs Hr Hk Hnm Hren Hg Hp.
  rewrite (tbs_retarget_invariant nm nm' cls s rs ren g); try assumption.
  apply tbs_perm_invariant; try assumption.
  - rewrite (rrset_retarget nm nm' cls s rs ren g Hnm Hren).
    rewrite Forall_forall in *. intros r Hin. apply in_map_iff in Hin. destruct Hin as (r0 & <- & Hin).
    exact (Hr r0 Hin).
  - rewrite (rrset_retarget nm nm' cls s rs ren g Hnm Hren). apply key_determines_retarget; [|assumption].
    intros a b Ha Hb. unfold the_rrset in Ha, Hb. apply filter_In in Ha, Hb. apply Hg; tauto.
Qed.
