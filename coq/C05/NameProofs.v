(* C05 — determine_name (tbs.rs) computes the RFC 4035 5.3.2 name; lower-casing commutes. *)
From HV Require Import Lib.Base C05.Model.
Open Scope N_scope.

Lemma len_nil {A} : len (@nil A) = 0. Proof. reflexivity. Qed.
Lemma len_cons {A} (x : A) l : len (x :: l) = 1 + len l.
Proof. unfold len. cbn [length]. lia. Qed.
Lemma len_app {A} (a b : list A) : len (a ++ b) = len a + len b.
Proof. unfold len. rewrite app_length. lia. Qed.
Lemma len_map {A B} (f : A -> B) l : len (map f l) = len l.
Proof. unfold len. now rewrite map_length. Qed.

Lemma len_enc_labels ls : len (enc_labels ls) = len ls + len (concat ls).
Proof.
  induction ls as [|l ls IH]; [reflexivity|].
  unfold enc_labels in *. cbn [map concat]. rewrite !len_app, IH. unfold enc_label.
  rewrite !len_cons. lia.
Qed.

Lemma len_wire_name ls : len (wire_name ls) = encoded_len ls.
Proof. unfold wire_name, encoded_len. rewrite len_app, len_enc_labels, len_cons, len_nil. lia. Qed.

(* ---------------------------------------------------------------- lower *)

Lemma lower_star_iff b : lower b = 42 <-> b = 42.
Proof.
  unfold lower. destruct ((65 <=? b) && (b <=? 90)) eqn:E.
  - apply andb_true_iff in E. destruct E as [E1 E2]. apply N.leb_le in E1. lia.
  - tauto.
Qed.

Lemma is_star_lower l : bytes_eqb (lower_label l) star = bytes_eqb l star.
Proof.
  destruct (bytes_eqb l star) eqn:E.
  - apply bytes_eqb_eq in E. subst l. reflexivity.
  - destruct (bytes_eqb (lower_label l) star) eqn:E2; [|reflexivity].
    apply bytes_eqb_eq in E2. exfalso.
    destruct l as [|b [|c l]]; cbn [lower_label map] in E2; try discriminate.
    unfold star in E2. injection E2 as H. apply (proj1 (lower_star_iff b)) in H. subst b.
    cbv in E. discriminate.
Qed.

Lemma lower_label_len l : len (lower_label l) = len l.
Proof. apply len_map. Qed.

Lemma lower_labels_len ls : len (lower_labels ls) = len ls.
Proof. apply len_map. Qed.

Lemma lower_idem b : lower (lower b) = lower b.
Proof.
  unfold lower. destruct ((65 <=? b) && (b <=? 90)) eqn:E.
  - apply andb_true_iff in E. destruct E as [E1 E2]. apply N.leb_le in E1, E2.
    replace ((65 <=? b + 32) && (b + 32 <=? 90)) with false; [reflexivity|].
    symmetry. apply andb_false_iff. right. apply N.leb_gt. lia.
  - now rewrite E.
Qed.

Lemma lower_labels_idem ls : lower_labels (lower_labels ls) = lower_labels ls.
Proof.
  unfold lower_labels, lower_label. rewrite map_map. apply map_ext. intros l.
  rewrite map_map. apply map_ext. apply lower_idem.
Qed.

Lemma concat_lower_len ls : len (concat (lower_labels ls)) = len (concat ls).
Proof.
  induction ls as [|l ls IH]; [reflexivity|].
  cbn [lower_labels map concat]. rewrite !len_app. fold (lower_labels ls). rewrite IH, lower_label_len. reflexivity.
Qed.

Lemma wf_labels_lower ls : wf_labels ls -> wf_labels (lower_labels ls).
Proof.
  intros [H1 H2]. split.
  - unfold lower_labels. rewrite Forall_map. eapply Forall_impl; [|exact H1].
    intros l [Hn Hl]. split.
    + destruct l; [congruence|cbn; discriminate].
    + now rewrite lower_label_len.
  - rewrite len_wire_name in *. unfold encoded_len in *. now rewrite lower_labels_len, concat_lower_len.
Qed.

(* ---------------------------------------------------------------- lastn / skipn *)

Lemma lastn_skipn {A} (k : nat) (l : list A) : (k <= length l)%nat -> lastn k l = skipn (length l - k) l.
Proof.
  intros _. unfold lastn. now rewrite firstn_rev, rev_involutive.
Qed.

Lemma lastn_map {A B} (f : A -> B) k l : lastn k (map f l) = map f (lastn k l).
Proof. unfold lastn. now rewrite <- map_rev, firstn_map, map_rev. Qed.

(* ---------------------------------------------------------------- determine_name *)

Lemma num_labels_is_rfc ls : num_labels ls = rfc_label_count ls.
Proof.
  destruct ls as [|l rest]; [reflexivity|]. cbn [num_labels rfc_label_count].
  destruct (bytes_eqb l star); [|reflexivity]. rewrite len_cons. lia.
Qed.

Lemma num_labels_le ls : num_labels ls <= len ls.
Proof.
  destruct ls as [|l rest]; [cbn; lia|]. cbn [num_labels]. destruct (bytes_eqb l star); lia.
Qed.

Lemma rfc_label_count_lower ls : rfc_label_count (lower_labels ls) = rfc_label_count ls.
Proof.
  destruct ls as [|l rest]; [reflexivity|]. cbn [lower_labels map rfc_label_count].
  rewrite is_star_lower. fold (lower_labels rest). rewrite !len_cons, lower_labels_len. reflexivity.
Qed.

(* the RFC name rule commutes with lower-casing *)
Lemma rfc_name_lower ls k : rfc_name (lower_labels ls) k = option_map lower_labels (rfc_name ls k).
Proof.
  unfold rfc_name. rewrite rfc_label_count_lower.
  destruct (k ?= rfc_label_count ls); cbn [option_map]; try reflexivity.
  unfold lower_labels at 1. rewrite lastn_map. reflexivity.
Qed.

Lemma wf_label_star : wf_label star.
Proof. split; [discriminate|cbv; discriminate]. Qed.

(* dropping d >= 1 leading labels (2 of them when the first is "*" and is not counted) frees
   at least the two octets the "*" label needs *)
Lemma encoded_len_skipn ls d :
  Forall wf_label ls -> (1 <= d <= length ls)%nat ->
  encoded_len (skipn d ls) + 2 <= encoded_len ls.
Proof.
  revert d. induction ls as [|l ls IH]; intros d Hw Hd; [cbn in Hd; lia|].
  inversion Hw as [|? ? [Hn Hl] Hw']; subst.
  assert (1 <= len l). { destruct l; [congruence|]. rewrite len_cons. lia. }
  destruct d as [|d]; [lia|]. cbn [skipn].
  assert (E : encoded_len (l :: ls) = encoded_len ls + 1 + len l).
  { unfold encoded_len. cbn [concat]. rewrite len_cons, len_app. lia. }
  destruct d as [|d].
  - cbn [skipn]. lia.
  - cbn [length] in Hd. specialize (IH (S d) Hw' ltac:(lia)). lia.
Qed.

Lemma wf_skipn ls d : Forall wf_label ls -> Forall wf_label (skipn d ls).
Proof.
  intros H. rewrite Forall_forall in *. intros x Hx. apply H.
  rewrite <- (firstn_skipn d ls). apply in_or_app. now right.
Qed.

Theorem determine_name_is_rfc n k :
  wf_labels (nlabels n) ->
  option_map nlabels (determine_name n k) = rfc_name (nlabels n) k.
Proof.
  intros [Hw Hlen]. destruct n as [fq ls]. cbn [nlabels] in *.
  unfold determine_name, rfc_name. cbn [nlabels nfq].
  rewrite <- num_labels_is_rfc. pose proof (num_labels_le ls) as Hle.
  destruct (num_labels ls =? k) eqn:E1.
  - apply N.eqb_eq in E1. rewrite <- E1, N.compare_refl. reflexivity.
  - apply N.eqb_neq in E1. destruct (k <? num_labels ls) eqn:E2.
    + apply N.ltb_lt in E2. rewrite (proj2 (N.compare_lt_iff _ _) E2).
      assert (Hk : (N.to_nat k < length ls)%nat) by (unfold len in Hle; lia).
      replace (len ls <? k) with false by (symmetry; apply N.ltb_ge; lia).
      cbn [nlabels nfq].
      rewrite lastn_skipn by lia.
      set (rm := skipn (length ls - N.to_nat k) ls).
      destruct rm as [|r rm'] eqn:Erm; [reflexivity|].
      assert (Hfit : encoded_len (star :: rm) <= 255).
      { assert (encoded_len (star :: rm) = encoded_len rm + 2) as ->.
        { unfold encoded_len. cbn [concat star]. rewrite !len_cons, len_app. cbn. lia. }
        rewrite len_wire_name in Hlen. subst rm.
        pose proof (encoded_len_skipn ls (length ls - N.to_nat k) Hw ltac:(lia)). lia. }
      rewrite <- Erm.
      replace (255 <? encoded_len (star :: rm)) with false by (symmetry; apply N.ltb_ge; lia).
      reflexivity.
    + apply N.ltb_ge in E2. rewrite (proj2 (N.compare_gt_iff _ _)) by lia. reflexivity.
Qed.

(* the name the implementation emits for every RR, after the emitter's lower-casing *)
Lemma determine_name_lower n k :
  wf_labels (nlabels n) ->
  option_map (fun m => lower_labels (nlabels m)) (determine_name n k) = rfc_name (lower_labels (nlabels n)) k.
Proof.
  intros H. rewrite rfc_name_lower, <- (determine_name_is_rfc n k H).
  destruct (determine_name n k); reflexivity.
Qed.

(* determine_name returns well-formed names *)
Lemma rfc_name_wf ls k o : wf_labels ls -> rfc_name ls k = Some o -> wf_labels o.
Proof.
  intros [Hw Hlen] H. unfold rfc_name in H.
  destruct (k ?= rfc_label_count ls) eqn:E; inversion H; subst; clear H.
  - now split.
  - rewrite <- num_labels_is_rfc in E.
    assert (E' : k < num_labels ls) by (apply N.compare_lt_iff; exact E).
    pose proof (num_labels_le ls) as Hle.
    assert (Hk : (N.to_nat k < length ls)%nat) by (unfold len in Hle; lia).
    rewrite lastn_skipn by lia. split.
    + constructor; [apply wf_label_star|now apply wf_skipn].
    + rewrite len_wire_name in *.
      set (rm := skipn (length ls - N.to_nat k) ls).
      assert (encoded_len (star :: rm) = encoded_len rm + 2) as ->.
      { unfold encoded_len. cbn [concat star]. rewrite !len_cons, len_app. cbn. lia. }
      subst rm. pose proof (encoded_len_skipn ls (length ls - N.to_nat k) Hw ltac:(lia)). lia.
Qed.
