(* C05 — outside the known deviation class the implementation's signed data is the RFC's. *)
From Coq Require Import Sorting.Sorted Sorting.Permutation.
From HV Require Import Lib.Base C05.Model C05.NameProofs C05.OrderProofs C05.EncodeProofs.
Open Scope N_scope.

(* ---------------------------------------------------------------- type tables *)

Lemma existsb_eqb t l : existsb (N.eqb t) l = true -> In t l.
Proof.
  intros H. apply existsb_exists in H. destruct H as (x & Hx & E). apply N.eqb_eq in E. now subst.
Qed.

(* every type the implementation downcases is on the RFC list *)
Lemma impl_lower_sub t : impl_lower t = true -> rfc_downcase t = true.
Proof.
  unfold impl_lower, impl_policy.
  destruct (existsb (N.eqb t) [2; 5; 6; 12; 15]) eqn:E1.
  - intros _. apply existsb_eqb in E1. cbn [In] in E1.
    repeat (destruct E1 as [<-|E1]; [reflexivity|]). destruct E1.
  - destruct (existsb (N.eqb t) [24; 33; 35; 46]) eqn:E2.
    + intros _. apply existsb_eqb in E2. cbn [In] in E2.
      repeat (destruct E2 as [<-|E2]; [reflexivity|]). destruct E2.
    + destruct (existsb (N.eqb t) [47; 64; 65; 250; 65305]); discriminate.
Qed.

(* an RFC-list type the implementation does not downcase is one it has no typed RDATA for *)
Lemma unimplemented_policy t : rfc_downcase t = true -> impl_lower t = false -> impl_policy t = None.
Proof.
  unfold impl_lower, impl_policy.
  destruct (existsb (N.eqb t) [2; 5; 6; 12; 15]); [discriminate|].
  destruct (existsb (N.eqb t) [24; 33; 35; 46]); [discriminate|].
  destruct (existsb (N.eqb t) [47; 64; 65; 250; 65305]) eqn:E3; [|reflexivity].
  intros H _. exfalso. apply existsb_eqb in E3. cbn [In] in E3.
  repeat (destruct E3 as [<-|E3]; [discriminate|]). destruct E3.
Qed.

(* the RFC-list types the implementation does not downcase *)
Definition unimplemented_downcase : list N := [3; 4; 7; 8; 9; 14; 17; 18; 21; 26; 30; 36; 38; 39].

Lemma policy_agrees t : ~ In t unimplemented_downcase -> impl_lower t = rfc_downcase t.
Proof.
  intros Hn. destruct (impl_lower t) eqn:E1.
  - symmetry. now apply impl_lower_sub.
  - destruct (rfc_downcase t) eqn:E2; [|reflexivity]. exfalso. apply Hn.
    unfold rfc_downcase in E2. apply existsb_eqb in E2. cbn [In] in E2.
    unfold unimplemented_downcase. cbn [In].
    repeat (destruct E2 as [<-|E2]; [first [discriminate E1 | tauto]|]). destruct E2.
Qed.

Lemma to_bytes_untyped t fs :
  impl_policy t = None -> len (raw_fields fs) <= 65535 -> to_bytes t fs = raw_fields fs.
Proof.
  intros Hp Hl. unfold to_bytes, emit_rdata. rewrite Hp. cbv zeta.
  replace (MAX <? 0 + len (raw_fields fs)) with false by (symmetry; apply N.ltb_ge; unfold MAX; lia).
  reflexivity.
Qed.

(* if the sort key encoding of a record is its RFC canonical RDATA, so is the RDATA emitted *)
Lemma impl_canon_is_rfc t fs :
  len (raw_fields fs) <= 65535 ->
  to_bytes t fs = canon_rdata t fs -> impl_canon t fs = canon_rdata t fs.
Proof.
  intros Hl H. unfold impl_canon, canon_rdata in *.
  destruct (impl_lower t) eqn:E1.
  - now rewrite (impl_lower_sub t E1).
  - destruct (rfc_downcase t) eqn:E2; [|reflexivity].
    rewrite <- H, (to_bytes_untyped t fs (unimplemented_policy t E2 E1) Hl). now rewrite raw_fields_canon.
Qed.

(* ---------------------------------------------------------------- the filter *)

Lemma labels_eqb_eq a b : labels_eqb a b = true <-> a = b.
Proof. apply list_eqb_eq. apply bytes_eqb_eq. Qed.

Lemma labels_eqb_sym a b : labels_eqb a b = labels_eqb b a.
Proof.
  destruct (labels_eqb a b) eqn:E1, (labels_eqb b a) eqn:E2; try reflexivity.
  - apply labels_eqb_eq in E1. subst. assert (labels_eqb b b = true) by now apply labels_eqb_eq. congruence.
  - apply labels_eqb_eq in E2. subst. assert (labels_eqb a a = true) by now apply labels_eqb_eq. congruence.
Qed.

Lemma in_rrset_is_member nm cls s r : in_rrset nm cls s r = rrset_member nm cls (s_type s) r.
Proof.
  unfold in_rrset, rrset_member, name_eqb, same_owner.
  rewrite (N.eqb_sym cls), (N.eqb_sym (s_type s)), labels_eqb_sym.
  f_equal. f_equal. destruct (nfq nm), (nfq (r_name r)); reflexivity.
Qed.

Lemma impl_filter_is_rrset nm cls s rs : filter (in_rrset nm cls s) rs = the_rrset nm cls s rs.
Proof. unfold the_rrset. apply filter_ext. intros r. apply in_rrset_is_member. Qed.

(* ---------------------------------------------------------------- rec_le is a total preorder *)

Definition tb (r : rr) : list byte := to_bytes (r_type r) (r_data r).

Lemma rec_le_spec a b :
  rec_le a b = true <->
  r_ttl a < r_ttl b \/ (r_ttl a = r_ttl b /\ (tb a = tb b \/ lex_lt (tb a) (tb b))).
Proof.
  unfold rec_le, rec_cmp. fold (tb a) (tb b).
  destruct (r_ttl a ?= r_ttl b) eqn:E.
  - apply N.compare_eq_iff in E. destruct (cmp_bytes (tb a) (tb b)) eqn:C.
    + apply cmp_bytes_eq in C. split; [intros _; right; split; [exact E|now left]|reflexivity].
    + apply cmp_bytes_lt in C. split; [intros _; right; split; [exact E|now right]|reflexivity].
    + apply cmp_bytes_gt in C. split; [discriminate|]. intros [H|[_ [H|H]]]; [lia| |].
      * rewrite H in C. exfalso. exact (lex_lt_irrefl _ C).
      * exfalso. exact (lex_lt_asym _ _ H C).
  - apply N.compare_lt_iff in E. split; [intros _; now left|reflexivity].
  - apply N.compare_gt_iff in E. split; [discriminate|]. intros [H|[H _]]; lia.
Qed.

Lemma rec_le_total a b : rec_le a b = true \/ rec_le b a = true.
Proof.
  rewrite !rec_le_spec.
  destruct (N.lt_trichotomy (r_ttl a) (r_ttl b)) as [H|[H|H]]; [left; now left| |right; now left].
  destruct (lex_total (tb a) (tb b)) as [L|[L|L]].
  - left. right. split; [exact H|now right].
  - left. right. split; [exact H|now left].
  - right. right. split; [now symmetry|now right].
Qed.

Lemma rec_le_trans a b c : rec_le a b = true -> rec_le b c = true -> rec_le a c = true.
Proof.
  rewrite !rec_le_spec. intros [H1|[H1 K1]] [H2|[H2 K2]]; try (left; lia).
  right. split; [lia|].
  destruct K1 as [K1|K1], K2 as [K2|K2].
  - left. congruence.
  - right. now rewrite K1.
  - right. now rewrite <- K2.
  - right. eapply lex_lt_trans; eauto.
Qed.

(* ---------------------------------------------------------------- order agreement *)

Definition cn (r : rr) : list byte := canon_rdata (r_type r) (r_data r).

(* the implementation's order of a set whose sort keys are (one TTL, the canonical RDATA) and
   which has no duplicates is the RFC canonical order *)
Lemma impl_order_is_rfc set :
  (forall a b, In a set -> In b set -> r_ttl a = r_ttl b) ->
  (forall r, In r set -> tb r = cn r) ->
  NoDup (map cn set) ->
  map cn (isort rec_le set) = usort (map cn set).
Proof.
  intros Httl Htb Hnd.
  pose proof (isort_perm rec_le set) as Hp.
  apply strict_sorted_unique.
  - apply sorted_map_strict with (R := fun a b => rec_le a b = true).
    + apply isort_sorted; [apply rec_le_total|apply rec_le_trans].
    + eapply Permutation_NoDup; [apply Permutation_map; exact Hp|exact Hnd].
    + intros a b Ha Hb Hle.
      apply (Permutation_in _ (Permutation_sym Hp)) in Ha, Hb.
      apply rec_le_spec in Hle. rewrite (Htb a Ha), (Htb b Hb) in Hle.
      destruct Hle as [Hlt|[_ H]]; [|exact H].
      rewrite (Httl a b Ha Hb) in Hlt. lia.
  - apply usort_sorted.
  - intros x. rewrite usort_in. split; intros H.
    + eapply Permutation_in; [apply Permutation_sym, Permutation_map; exact Hp|exact H].
    + eapply Permutation_in; [apply Permutation_map; exact Hp|exact H].
Qed.

(* ---------------------------------------------------------------- the guarded theorem *)

Lemma known_false_parts nm cls s rs :
  known_deviation nm cls s rs = false ->
  let set := the_rrset nm cls s rs in
  (forall a b, In a set -> In b set -> r_ttl a = r_ttl b) /\
  NoDup (map cn set) /\
  (forall r, In r set -> tb r = cn r).
Proof.
  unfold known_deviation. intros H. cbv zeta in *.
  apply orb_false_iff in H. destruct H as [H H3]. apply orb_false_iff in H. destruct H as [H1 H2].
  split; [|split].
  - now apply ttls_differ_false.
  - now apply has_dup_false.
  - intros r Hr. unfold tb, cn.
    destruct (bytes_eqb (to_bytes (r_type r) (r_data r)) (canon_rdata (r_type r) (r_data r))) eqn:E.
    + now apply bytes_eqb_eq.
    + exfalso.
      assert (existsb (fun r => negb (bytes_eqb (to_bytes (r_type r) (r_data r)) (canon_rdata (r_type r) (r_data r))))
                (the_rrset nm cls s rs) = true); [|congruence].
      apply existsb_exists. exists r. split; [assumption|]. now rewrite E.
Qed.

Lemma wf_rrset_fields set :
  Forall wf_rr set -> Forall (fun r => Forall wf_field (r_data r)) set.
Proof. apply Forall_impl. intros r [H _]. exact H. Qed.

Lemma wf_all_rrset nm cls s rs : Forall wf_rr rs -> Forall wf_rr (the_rrset nm cls s rs).
Proof.
  intros H. rewrite Forall_forall in *. intros r Hr. apply H. unfold the_rrset in Hr.
  now apply filter_In in Hr.
Qed.

Theorem tbs_is_rfc_guarded nm cls s rs :
  wf_labels (nlabels nm) -> wf_sig s -> Forall wf_rr (the_rrset nm cls s rs) ->
  known_deviation nm cls s rs = false ->
  tbs nm cls s rs = match rfc_signed_data nm cls s rs with
                    | None => ErrName
                    | Some d => if MAX <? len d then ErrEncode else Ok d
                    end.
Proof.
  intros Hn Hs Hr Hk.
  rewrite tbs_is_closed; try assumption.
  2:{ rewrite impl_filter_is_rrset. now apply wf_rrset_fields. }
  unfold tbs_closed, rfc_signed_data.
  pose proof (determine_name_lower nm (s_labels s) Hn) as Hd.
  destruct (determine_name nm (s_labels s)) as [nm'|]; cbn [option_map] in Hd; rewrite <- Hd; [|reflexivity].
  cbv zeta. unfold impl_rrset. rewrite impl_filter_is_rrset.
  fold (the_rrset nm cls s rs).
  destruct (known_false_parts nm cls s rs Hk) as (Httl & Hnd & Htb). cbv zeta in *.
  set (set := the_rrset nm cls s rs) in *.
  assert (E : map (impl_rr (lower_labels (nlabels nm')) s cls) (isort rec_le set)
              = map (canon_rr (lower_labels (nlabels nm')) (s_type s) cls (s_ottl s)) (usort (map cn set))).
  { rewrite <- (impl_order_is_rfc set Httl Htb Hnd). rewrite map_map.
    apply map_ext_in. intros r Hin. unfold impl_rr. f_equal.
    apply (Permutation_in _ (Permutation_sym (isort_perm rec_le set))) in Hin.
    apply impl_canon_is_rfc.
    - rewrite Forall_forall in Hr. exact (proj2 (Hr r Hin)).
    - exact (Htb r Hin). }
  rewrite E. reflexivity.
Qed.

(* ---------------------------------------------------------------- always: right pieces, some order *)

(* For every input (deviation class included) the output is the RRSIG RDATA followed by the
   RFC canonical RR of each member record, duplicates kept, in the implementation's order --
   for types whose downcasing policy agrees with the RFC list. *)
Theorem tbs_is_rfc_up_to_order nm cls s rs :
  wf_labels (nlabels nm) -> wf_sig s -> Forall wf_rr (the_rrset nm cls s rs) ->
  ~ In (s_type s) unimplemented_downcase ->
  exists l, Permutation l (the_rrset nm cls s rs) /\
    tbs nm cls s rs =
      match rfc_name (lower_labels (nlabels nm)) (s_labels s) with
      | None => ErrName
      | Some owner =>
          let d := rfc_sig_rdata s ++ concat (map (fun r => canon_rr owner (s_type s) cls (s_ottl s) (cn r)) l) in
          if MAX <? len d then ErrEncode else Ok d
      end.
Proof.
  intros Hn Hs Hr Ht. exists (isort rec_le (the_rrset nm cls s rs)). split.
  - apply Permutation_sym, isort_perm.
  - rewrite tbs_is_closed; try assumption.
    2:{ rewrite impl_filter_is_rrset. now apply wf_rrset_fields. }
    unfold tbs_closed.
    pose proof (determine_name_lower nm (s_labels s) Hn) as Hd.
    destruct (determine_name nm (s_labels s)) as [nm'|]; cbn [option_map] in Hd; rewrite <- Hd; [|reflexivity].
    cbv zeta. unfold impl_rrset. rewrite impl_filter_is_rrset.
    assert (E : map (impl_rr (lower_labels (nlabels nm')) s cls) (isort rec_le (the_rrset nm cls s rs))
                = map (fun r => canon_rr (lower_labels (nlabels nm')) (s_type s) cls (s_ottl s) (cn r))
                      (isort rec_le (the_rrset nm cls s rs))).
    { apply map_ext_in. intros r Hin. unfold impl_rr, cn, impl_canon, canon_rdata. f_equal.
      apply (Permutation_in _ (Permutation_sym (isort_perm rec_le _))) in Hin.
      unfold the_rrset in Hin. apply filter_In in Hin. destruct Hin as [_ Hm].
      unfold rrset_member in Hm. apply andb_true_iff in Hm. destruct Hm as [Hm _].
      apply andb_true_iff in Hm. destruct Hm as [_ Hty]. apply N.eqb_eq in Hty.
      rewrite Hty, (policy_agrees _ Ht). reflexivity. }
    now rewrite E.
Qed.
