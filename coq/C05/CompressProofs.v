(* C05 — the compressing name emitter (RData::to_bytes of SOA-like RDATA) is injective: two
   field lists of the same layout with the same sort-key encoding are equal. *)
From Coq Require Import Sorting.Permutation.
From HV Require Import Lib.Base C05.Model C05.NameProofs C05.EncodeProofs C05.ShapeProofs.
Open Scope N_scope.

(* pointer table invariant at buffer offset [off]: a start offset identifies its slice, and all
   starts lie before [off] *)
Definition ps_ok (off : N) (ps : ptrs) : Prop :=
  (forall st m1 m2, In (st, m1) ps -> In (st, m2) ps -> m1 = m2) /\
  (forall st m, In (st, m) ps -> st < off).

Lemma find_ptr_in ps s loc : find_ptr ps s = Some loc -> In (loc, s) ps.
Proof.
  induction ps as [|[st m] ps IH]; cbn [find_ptr]; [discriminate|].
  destruct (bytes_eqb m s) eqn:E.
  - intros H. injection H as <-. apply bytes_eqb_eq in E. subst. now left.
  - intros H. right. now apply IH.
Qed.

Lemma find_ptr_app_none ps own s :
  (forall st m, In (st, m) own -> length m <> length s) -> find_ptr (ps ++ own) s = find_ptr ps s.
Proof.
  intros H. induction ps as [|[st m] ps IH]; cbn [app find_ptr].
  - now apply find_ptr_none.
  - destruct (bytes_eqb m s); [reflexivity|exact IH].
Qed.

Lemma len_enc_label_pos l : 1 <= len (enc_label l).
Proof. unfold enc_label. rewrite len_cons. lia. Qed.

(* what the compression loop returns *)
Lemma compress_char ls : forall off last ps own pre out ps' ptr,
  (forall st m, In (st, m) own -> (length (enc_labels ls) < length m)%nat) ->
  compress off last (ps ++ own) pre ls = (out, ps', ptr) ->
  (ptr = false /\ out = pre ++ enc_labels ls ++ [0]) \/
  (ptr = true /\ exists k loc, (k < length ls)%nat /\ loc < 16384 /\
      In (loc, enc_labels (skipn k ls)) ps /\
      out = pre ++ enc_labels (firstn k ls) ++ be16 (49152 + loc)).
Proof.
  induction ls as [|l ls IH]; intros off last ps own pre out ps' ptr Hown H; cbn [compress] in H.
  - injection H as <- <- <-. left. split; reflexivity.
  - rewrite find_ptr_app_none in H by (intros st m Hin; specialize (Hown st m Hin); lia).
    assert (Hlen : (length (enc_labels ls) < length (enc_labels (l :: ls)))%nat).
    { rewrite enc_labels_cons, app_length. unfold enc_label. cbn [length]. lia. }
    (* the continuation, common to "no entry" and "entry not usable" *)
    assert (Hcont : compress off last (store_ptr last (ps ++ own) (off + len pre) (enc_labels (l :: ls)))
                      (pre ++ enc_label l) ls = (out, ps', ptr) ->
            (ptr = false /\ out = pre ++ enc_labels (l :: ls) ++ [0]) \/
            (ptr = true /\ exists k loc, (k < length (l :: ls))%nat /\ loc < 16384 /\
                In (loc, enc_labels (skipn k (l :: ls))) ps /\
                out = pre ++ enc_labels (firstn k (l :: ls)) ++ be16 (49152 + loc))).
    { intros Hc.
      assert (Hst : exists own', store_ptr last (ps ++ own) (off + len pre) (enc_labels (l :: ls)) = ps ++ own' /\
                      forall st m, In (st, m) own' -> (length (enc_labels ls) < length m)%nat).
      { unfold store_ptr. destruct ((last <? 16383) && (len (ps ++ own) <? 64)).
        - exists (own ++ [(off + len pre, enc_labels (l :: ls))]). split; [now rewrite app_assoc|].
          intros st m Hin. apply in_app_or in Hin. destruct Hin as [Hin|[Hin|[]]].
          + specialize (Hown st m Hin). lia.
          + injection Hin as _ <-. exact Hlen.
        - exists own. split; [reflexivity|]. intros st m Hin. specialize (Hown st m Hin). lia. }
      destruct Hst as (own' & Est & Hown'). rewrite Est in Hc.
      destruct (IH off last ps own' (pre ++ enc_label l) out ps' ptr Hown' Hc) as [[-> ->]|(-> & k & loc & Hk & Hloc & Hin & ->)].
      - left. split; [reflexivity|]. now rewrite enc_labels_cons, <- !app_assoc.
      - right. split; [reflexivity|]. exists (S k), loc. cbn [length firstn skipn].
        split; [lia|]. split; [assumption|]. split; [assumption|].
        now rewrite enc_labels_cons, <- !app_assoc. }
    destruct (find_ptr ps (enc_labels (l :: ls))) as [loc|] eqn:Ef; [|exact (Hcont H)].
    destruct (loc <? 16384) eqn:El; [|exact (Hcont H)].
    injection H as <- <- <-. right. split; [reflexivity|].
    exists O, loc. cbn [firstn skipn length]. split; [lia|]. split; [now apply N.ltb_lt|].
    split; [now apply find_ptr_in|]. reflexivity.
Qed.

(* the pointer table after the loop *)
Lemma compress_ptrs ls : forall off last ps pre out ps' ptr,
  compress off last ps pre ls = (out, ps', ptr) ->
  exists own, ps' = ps ++ own /\ len pre < len out /\
    (forall st m1 m2, In (st, m1) own -> In (st, m2) own -> m1 = m2) /\
    (forall st m, In (st, m) own -> off + len pre <= st /\ st < off + len out).
Proof.
  induction ls as [|l ls IH]; intros off last ps pre out ps' ptr H; cbn [compress] in H.
  - injection H as <- <- <-. exists []. rewrite app_nil_r, len_app, len_cons, len_nil.
    split; [reflexivity|]. split; [lia|]. split; intros; contradiction.
  - assert (Hcont : compress off last (store_ptr last ps (off + len pre) (enc_labels (l :: ls)))
                      (pre ++ enc_label l) ls = (out, ps', ptr) ->
            exists own, ps' = ps ++ own /\ len pre < len out /\
              (forall st m1 m2, In (st, m1) own -> In (st, m2) own -> m1 = m2) /\
              (forall st m, In (st, m) own -> off + len pre <= st /\ st < off + len out)).
    { intros Hc. destruct (IH _ _ _ _ _ _ _ Hc) as (own1 & -> & Hl & Hf & Hb).
      rewrite len_app in Hl, Hb. pose proof (len_enc_label_pos l) as Hpos.
      unfold store_ptr. destruct ((last <? 16383) && (len ps <? 64)).
      - exists ((off + len pre, enc_labels (l :: ls)) :: own1). rewrite <- app_assoc. cbn [app].
        split; [reflexivity|]. split; [lia|]. split.
        + intros st m1 m2 [E1|H1] [E2|H2].
          * congruence.
          * injection E1 as <- _. destruct (Hb _ _ H2). lia.
          * injection E2 as <- _. destruct (Hb _ _ H1). lia.
          * eauto.
        + intros st m [E|Hin]; [injection E as <- _; lia|]. destruct (Hb _ _ Hin). lia.
      - exists own1. split; [reflexivity|]. split; [lia|]. split; [assumption|].
        intros st m Hin. destruct (Hb _ _ Hin). lia. }
    destruct (find_ptr ps (enc_labels (l :: ls))) as [loc|]; [|exact (Hcont H)].
    destruct (loc <? 16384); [|exact (Hcont H)].
    injection H as <- <- <-. exists []. rewrite app_nil_r, len_app.
    split; [reflexivity|]. split; [cbn; lia|]. split; intros; contradiction.
Qed.

Lemma emit_name_compressed_out off ps ls o p :
  emit_name Compressed off ps ls = Some (o, p) ->
  exists ptr, compress off (off + len (enc_labels ls)) ps [] ls = (o, p, ptr).
Proof.
  unfold emit_name. destruct (existsb (fun l => 63 <? len l) ls); [discriminate|].
  destruct (MAX <? off + len (enc_labels ls)); [discriminate|].
  destruct (compress off (off + len (enc_labels ls)) ps [] ls) as [[out ps'] ptr].
  destruct ptr.
  - intros H. injection H as <- <-. eauto.
  - destruct ((MAX <? off + len out) || (255 <? len out)); [discriminate|].
    intros H. injection H as <- <-. eauto.
Qed.

Lemma ps_ok_emit_name off ps ls o p :
  ps_ok off ps -> emit_name Compressed off ps ls = Some (o, p) -> ps_ok (off + len o) p.
Proof.
  intros [Hf Hb] H. destruct (emit_name_compressed_out _ _ _ _ _ H) as (ptr & Hc).
  destruct (compress_ptrs _ _ _ _ _ _ _ _ Hc) as (own & -> & _ & Hfo & Hbo). rewrite len_nil in Hbo.
  split.
  - intros st m1 m2 H1 H2. apply in_app_or in H1, H2. destruct H1 as [H1|H1], H2 as [H2|H2].
    + eauto.
    + specialize (Hb _ _ H1). destruct (Hbo _ _ H2). lia.
    + specialize (Hb _ _ H2). destruct (Hbo _ _ H1). lia.
    + eauto.
  - intros st m Hin. apply in_app_or in Hin. destruct Hin as [Hin|Hin].
    + specialize (Hb _ _ Hin). lia.
    + destruct (Hbo _ _ Hin). lia.
Qed.

Lemma ps_ok_weaken off off' ps : off <= off' -> ps_ok off ps -> ps_ok off' ps.
Proof. intros Hle [Hf Hb]. split; [assumption|]. intros st m Hin. specialize (Hb _ _ Hin). lia. Qed.

(* --- the emitted octets are a prefix code *)

Definition terminator (T : list byte) : Prop :=
  T = [0] \/ exists loc, loc < 16384 /\ T = be16 (49152 + loc).

Lemma ptr_hi loc : loc < 16384 -> 192 <= (49152 + loc) / 256 mod 256.
Proof.
  intros H. replace (49152 + loc) with (192 * 256 + loc) by lia.
  rewrite N.div_add_l by lia.
  assert (loc / 256 < 64) by (apply N.div_lt_upper_bound; lia).
  rewrite N.mod_small by (revert H0; generalize (loc / 256); intros; lia). apply N.le_add_r.
Qed.

Lemma terminator_head T : terminator T -> exists h t, T = h :: t /\ (h = 0 \/ 192 <= h).
Proof.
  intros [->|(loc & Hl & ->)].
  - exists 0, []. split; [reflexivity|now left].
  - unfold be16. eexists _, _. split; [reflexivity|]. right. now apply ptr_hi.
Qed.

Lemma be16_inj n m : n < 65536 -> m < 65536 -> be16 n = be16 m -> n = m.
Proof.
  intros Hn Hm H. unfold be16 in H. injection H as H1 H2.
  assert (n / 256 < 256) by (apply N.div_lt_upper_bound; lia).
  assert (m / 256 < 256) by (apply N.div_lt_upper_bound; lia).
  rewrite !N.mod_small in H1 by lia.
  rewrite (N.div_mod n 256), (N.div_mod m 256) by lia. now rewrite H1, H2.
Qed.

Lemma terminator_inj T1 T2 r1 r2 :
  terminator T1 -> terminator T2 -> T1 ++ r1 = T2 ++ r2 -> T1 = T2 /\ r1 = r2.
Proof.
  intros [->|(l1 & H1 & ->)] [->|(l2 & H2 & ->)] H.
  - cbn in H. injection H as H. now split.
  - exfalso. cbn in H. injection H as H _. pose proof (ptr_hi l2 H2). lia.
  - exfalso. cbn in H. injection H as H _. pose proof (ptr_hi l1 H1). lia.
  - unfold be16 in *. cbn [app] in H. injection H as Ha Hb Hr. split; [|assumption].
    now rewrite Ha, Hb.
Qed.

Lemma labels_term_inj pre1 : forall pre2 T1 T2 r1 r2,
  Forall wf_label pre1 -> Forall wf_label pre2 -> terminator T1 -> terminator T2 ->
  enc_labels pre1 ++ T1 ++ r1 = enc_labels pre2 ++ T2 ++ r2 ->
  pre1 = pre2 /\ T1 = T2 /\ r1 = r2.
Proof.
  induction pre1 as [|a pre1 IH]; intros [|b pre2] T1 T2 r1 r2 H1 H2 Ht1 Ht2 H.
  - cbn [enc_labels map concat app] in H. destruct (terminator_inj _ _ _ _ Ht1 Ht2 H) as [-> ->]. auto.
  - exfalso. destruct (terminator_head _ Ht1) as (h & t & -> & Hh).
    rewrite enc_labels_cons in H. unfold enc_label in H. cbn [enc_labels map concat app] in H.
    injection H as Hb _. inversion H2 as [|? ? [Hn Hl] _]; subst.
    assert (1 <= len b) by (destruct b; [congruence|rewrite len_cons; lia]). lia.
  - exfalso. destruct (terminator_head _ Ht2) as (h & t & -> & Hh).
    rewrite enc_labels_cons in H. unfold enc_label in H. cbn [enc_labels map concat app] in H.
    injection H as Ha _. inversion H1 as [|? ? [Hn Hl] _]; subst.
    assert (1 <= len a) by (destruct a; [congruence|rewrite len_cons; lia]). lia.
  - rewrite !enc_labels_cons in H. unfold enc_label in H. rewrite <- !app_assoc in H. cbn [app] in H.
    injection H as Hlen Hrest.
    inversion H1 as [|? ? _ H1']; subst. inversion H2 as [|? ? _ H2']; subst.
    assert (Hl : length a = length b) by (unfold len in Hlen; lia).
    destruct (app_inj_length a b _ _ Hl Hrest) as [-> Hrest'].
    destruct (IH pre2 T1 T2 r1 r2 H1' H2' Ht1 Ht2 Hrest') as (-> & -> & ->). auto.
Qed.

Lemma enc_labels_inj l1 l2 : Forall wf_label l1 -> Forall wf_label l2 -> enc_labels l1 = enc_labels l2 -> l1 = l2.
Proof.
  intros H1 H2 H.
  assert (E : wire_name l1 ++ [] = wire_name l2 ++ []) by (unfold wire_name; now rewrite H).
  now destruct (wire_name_inj l1 l2 [] [] H1 H2 E).
Qed.

Lemma Forall_firstn {A} (P : A -> Prop) k l : Forall P l -> Forall P (firstn k l).
Proof.
  intros H. rewrite Forall_forall in *. intros x Hx. apply H.
  rewrite <- (firstn_skipn k l). apply in_or_app. now left.
Qed.

(* two names emitted at the same place with the same pointer table *)
Lemma emit_name_compressed_inj off ps l1 l2 o1 o2 p1 p2 r1 r2 :
  ps_ok off ps -> wf_labels l1 -> wf_labels l2 ->
  emit_name Compressed off ps l1 = Some (o1, p1) -> emit_name Compressed off ps l2 = Some (o2, p2) ->
  o1 ++ r1 = o2 ++ r2 -> l1 = l2 /\ r1 = r2.
Proof.
  intros [Hf _] [W1 _] [W2 _] E1 E2 H.
  destruct (emit_name_compressed_out _ _ _ _ _ E1) as (t1 & C1).
  destruct (emit_name_compressed_out _ _ _ _ _ E2) as (t2 & C2).
  pose proof (compress_char l1 off _ ps [] [] o1 p1 t1 ltac:(intros ? ? []) ltac:(rewrite app_nil_r; exact C1)) as K1.
  pose proof (compress_char l2 off _ ps [] [] o2 p2 t2 ltac:(intros ? ? []) ltac:(rewrite app_nil_r; exact C2)) as K2.
  cbn [app] in K1, K2.
  (* bring both to the form  enc_labels pre ++ T  with pre = firstn k l *)
  assert (F1 : exists k T, (k <= length l1)%nat /\ terminator T /\ o1 = enc_labels (firstn k l1) ++ T /\
               ((T = [0] /\ k = length l1) \/ exists loc, T = be16 (49152 + loc) /\ loc < 16384 /\ In (loc, enc_labels (skipn k l1)) ps)).
  { destruct K1 as [[_ ->]|(_ & k & loc & Hk & Hl & Hin & ->)].
    - exists (length l1), [0]. rewrite firstn_all. split; [lia|]. split; [now left|]. split; [reflexivity|]. now left.
    - exists k, (be16 (49152 + loc)). split; [lia|]. split; [right; eauto|]. split; [reflexivity|]. right. eauto. }
  assert (F2 : exists k T, (k <= length l2)%nat /\ terminator T /\ o2 = enc_labels (firstn k l2) ++ T /\
               ((T = [0] /\ k = length l2) \/ exists loc, T = be16 (49152 + loc) /\ loc < 16384 /\ In (loc, enc_labels (skipn k l2)) ps)).
  { destruct K2 as [[_ ->]|(_ & k & loc & Hk & Hl & Hin & ->)].
    - exists (length l2), [0]. rewrite firstn_all. split; [lia|]. split; [now left|]. split; [reflexivity|]. now left.
    - exists k, (be16 (49152 + loc)). split; [lia|]. split; [right; eauto|]. split; [reflexivity|]. right. eauto. }
  destruct F1 as (k1 & T1 & Hk1 & Ht1 & -> & D1). destruct F2 as (k2 & T2 & Hk2 & Ht2 & -> & D2).
  rewrite <- !app_assoc in H.
  destruct (labels_term_inj _ _ _ _ _ _ (Forall_firstn _ k1 _ W1) (Forall_firstn _ k2 _ W2) Ht1 Ht2 H) as (Hpre & HT & Hr).
  split; [|exact Hr]. subst T2.
  destruct D1 as [[-> ->]|(loc1 & -> & Hl1 & In1)].
  - destruct D2 as [[_ ->]|(loc2 & E & _ & _)]; [|discriminate E].
    now rewrite !firstn_all in Hpre.
  - destruct D2 as [[E _]|(loc2 & E & Hl2 & In2)]; [discriminate E|].
    apply be16_inj in E; [|lia|lia]. assert (loc1 = loc2) by lia. subst loc2.
    pose proof (Hf _ _ _ In1 In2) as Hs.
    apply enc_labels_inj in Hs; [|now apply wf_skipn|now apply wf_skipn].
    rewrite <- (firstn_skipn k1 l1), <- (firstn_skipn k2 l2). now rewrite Hpre, Hs.
Qed.

(* --- field lists *)

Lemma emit_fields_compressed_inj f1 f2 :
  same_shape f1 f2 -> forall off ps o p1 p2,
  ps_ok off ps -> Forall wf_field f1 -> Forall wf_field f2 ->
  emit_fields Compressed off ps f1 = Some (o, p1) -> emit_fields Compressed off ps f2 = Some (o, p2) ->
  f1 = f2.
Proof.
  induction 1 as [|a b|a b f1 f2 Hl _ IH|k n a b f1 f2 Ha Hb _ IH|a b f1 f2 _ IH];
    intros off ps o p1 p2 Hok W1 W2 E1 E2.
  - reflexivity.
  - cbn [emit_fields emit_field] in E1, E2.
    destruct (MAX <? off + len a); [discriminate|]. destruct (MAX <? off + len b); [discriminate|].
    injection E1 as <- _. injection E2 as E2 _. rewrite !app_nil_r in E2. now subst.
  - cbn [emit_fields emit_field] in E1, E2.
    destruct (MAX <? off + len a); [discriminate|]. destruct (MAX <? off + len b); [discriminate|].
    destruct (emit_fields Compressed (off + len a) ps f1) as [[o1 q1]|] eqn:R1; [|discriminate].
    destruct (emit_fields Compressed (off + len b) ps f2) as [[o2 q2]|] eqn:R2; [|discriminate].
    injection E1 as <- _. injection E2 as E2 _.
    destruct (app_inj_length b a _ _ (eq_sym Hl) E2) as [-> ->].
    inversion W1 as [|? ? _ W1']; subst. inversion W2 as [|? ? _ W2']; subst.
    f_equal. apply (IH (off + len a) ps o1 q1 q2); try assumption.
    eapply ps_ok_weaken; [|exact Hok]. lia.
  - cbn [emit_fields emit_field] in E1, E2.
    destruct (MAX <? off + len a); [discriminate|]. destruct (MAX <? off + len b); [discriminate|].
    destruct (emit_fields Compressed (off + len a) ps f1) as [[o1 q1]|] eqn:R1; [|discriminate].
    destruct (emit_fields Compressed (off + len b) ps f2) as [[o2 q2]|] eqn:R2; [|discriminate].
    injection E1 as <- _. injection E2 as E2 _.
    destruct (framed_inj k n b a _ _ Hb Ha E2) as [-> ->].
    inversion W1 as [|? ? _ W1']; subst. inversion W2 as [|? ? _ W2']; subst.
    f_equal. apply (IH (off + len a) ps o1 q1 q2); try assumption.
    eapply ps_ok_weaken; [|exact Hok]. lia.
  - cbn [emit_fields emit_field] in E1, E2.
    destruct (emit_name Compressed off ps a) as [[n1 q1]|] eqn:N1; [|discriminate].
    destruct (emit_name Compressed off ps b) as [[n2 q2]|] eqn:N2; [|discriminate].
    destruct (emit_fields Compressed (off + len n1) q1 f1) as [[o1 r1]|] eqn:R1; [|discriminate].
    destruct (emit_fields Compressed (off + len n2) q2 f2) as [[o2 r2]|] eqn:R2; [|discriminate].
    injection E1 as <- _. injection E2 as E2 _.
    inversion W1 as [|? ? Wa W1']; subst. inversion W2 as [|? ? Wb W2']; subst. cbn [wf_field] in Wa, Wb.
    destruct (emit_name_compressed_inj off ps b a n2 n1 q2 q1 o2 o1 Hok Wb Wa N2 N1 E2) as [-> ->].
    rewrite N1 in N2. injection N2 as <- <-.
    f_equal. apply (IH (off + len n1) q1 o1 r1 r2); try assumption.
    eapply ps_ok_emit_name; eauto.
Qed.

Lemma ps_ok_nil : ps_ok 0 [].
Proof. split; intros; contradiction. Qed.

(* --- the compressing emitter succeeds whenever the plain octets fit *)

Lemma enc_labels_app a b : enc_labels (a ++ b) = enc_labels a ++ enc_labels b.
Proof. unfold enc_labels. now rewrite map_app, concat_app. Qed.

Lemma emit_name_compressed_some off ps ls :
  wf_labels ls -> off + len (wire_name ls) <= MAX ->
  exists o p, emit_name Compressed off ps ls = Some (o, p) /\ len o <= len (wire_name ls).
Proof.
  intros [Hl H255] Hfit.
  assert (Hlen : len (wire_name ls) = len (enc_labels ls) + 1).
  { unfold wire_name. rewrite len_app, len_cons, len_nil. lia. }
  unfold emit_name. rewrite (no_long_label ls Hl).
  replace (MAX <? off + len (enc_labels ls)) with false by (symmetry; apply N.ltb_ge; lia).
  destruct (compress off (off + len (enc_labels ls)) ps [] ls) as [[out ps'] ptr] eqn:C.
  pose proof (compress_char ls off _ ps [] [] out ps' ptr ltac:(intros ? ? []) ltac:(rewrite app_nil_r; exact C)) as K.
  cbn [app] in K. destruct K as [[-> ->]|(-> & k & loc & Hk & Hloc & _ & ->)].
  - fold (wire_name ls).
    replace (MAX <? off + len (wire_name ls)) with false by (symmetry; apply N.ltb_ge; lia).
    replace (255 <? len (wire_name ls)) with false by (symmetry; apply N.ltb_ge; lia).
    cbn [orb]. eexists _, _. split; [reflexivity|lia].
  - eexists _, _. split; [reflexivity|].
    assert (Esplit : enc_labels ls = enc_labels (firstn k ls) ++ enc_labels (skipn k ls))
      by (now rewrite <- enc_labels_app, firstn_skipn).
    rewrite Hlen, Esplit, !len_app, len_be16.
    destruct (skipn k ls) as [|l' rest] eqn:Es.
    + exfalso. assert (length (skipn k ls) = O) by now rewrite Es. rewrite skipn_length in H. lia.
    + assert (Hw : wf_label l').
      { rewrite Forall_forall in Hl. apply Hl. rewrite <- (firstn_skipn k ls), Es. apply in_or_app. right. now left. }
      destruct Hw as [Hne _]. rewrite enc_labels_cons, len_app. unfold enc_label. rewrite len_cons.
      assert (1 <= len l') by (destruct l'; [congruence|rewrite len_cons; lia]). lia.
Qed.

Lemma emit_fields_compressed_some fs : forall off ps,
  Forall wf_field fs -> off + len (raw_fields fs) <= MAX ->
  exists o p, emit_fields Compressed off ps fs = Some (o, p) /\ len o <= len (raw_fields fs).
Proof.
  induction fs as [|[bs|ls] fs IH]; intros off ps Hwf Hfit; cbn [emit_fields emit_field].
  - eexists _, _. split; [reflexivity|]. cbn. lia.
  - inversion Hwf as [|? ? _ Hfs]; subst.
    unfold raw_fields in Hfit |- *. cbn [map concat raw_field] in Hfit |- *. fold (raw_fields fs) in Hfit |- *.
    rewrite len_app in Hfit |- *.
    replace (MAX <? off + len bs) with false by (symmetry; apply N.ltb_ge; lia).
    destruct (IH (off + len bs) ps Hfs ltac:(lia)) as (o & p & -> & Hlo).
    eexists _, _. split; [reflexivity|]. rewrite len_app. lia.
  - inversion Hwf as [|? ? Hls Hfs]; subst. cbn [wf_field] in Hls.
    unfold raw_fields in Hfit |- *. cbn [map concat raw_field] in Hfit |- *. fold (raw_fields fs) in Hfit |- *.
    rewrite len_app in Hfit |- *.
    destruct (emit_name_compressed_some off ps ls Hls ltac:(lia)) as (o1 & p1 & -> & Hl1).
    destruct (IH (off + len o1) p1 Hfs ltac:(lia)) as (o & p & -> & Hlo).
    eexists _, _. split; [reflexivity|]. rewrite len_app. lia.
Qed.

(* RData::to_bytes is injective on field lists of one layout, for every type *)
Theorem to_bytes_inj t f1 f2 :
  same_shape f1 f2 -> Forall wf_field f1 -> Forall wf_field f2 ->
  len (raw_fields f1) <= 65535 -> len (raw_fields f2) <= 65535 ->
  to_bytes t f1 = to_bytes t f2 -> f1 = f2.
Proof.
  intros Hs W1 W2 L1 L2 H. unfold to_bytes, emit_rdata in H.
  destruct (impl_policy t) as [e|] eqn:E.
  - destruct e; cbn [with_rdata_behavior] in H.
    + destruct (emit_fields_compressed_some f1 0 [] W1 ltac:(unfold MAX; lia)) as (o1 & p1 & E1 & _).
      destruct (emit_fields_compressed_some f2 0 [] W2 ltac:(unfold MAX; lia)) as (o2 & p2 & E2 & _).
      rewrite E1, E2 in H. subst o2.
      exact (emit_fields_compressed_inj f1 f2 Hs 0 [] o1 p1 p2 ps_ok_nil W1 W2 E1 E2).
    + pose proof (emit_fields_plain Uncompressed f1 0 [] ltac:(discriminate) W1 ltac:(unfold MAX; lia)) as P1.
      pose proof (emit_fields_plain Uncompressed f2 0 [] ltac:(discriminate) W2 ltac:(unfold MAX; lia)) as P2.
      cbv zeta in P1, P2. cbn [lower_mode] in P1, P2. rewrite <- raw_fields_canon in P1, P2.
      replace (MAX <? 0 + len (raw_fields f1)) with false in P1 by (symmetry; apply N.ltb_ge; unfold MAX; lia).
      replace (MAX <? 0 + len (raw_fields f2)) with false in P2 by (symmetry; apply N.ltb_ge; unfold MAX; lia).
      destruct P1 as (q1 & P1), P2 as (q2 & P2). rewrite P1, P2 in H. now apply raw_fields_inj.
    + pose proof (emit_fields_plain Uncompressed f1 0 [] ltac:(discriminate) W1 ltac:(unfold MAX; lia)) as P1.
      pose proof (emit_fields_plain Uncompressed f2 0 [] ltac:(discriminate) W2 ltac:(unfold MAX; lia)) as P2.
      cbv zeta in P1, P2. cbn [lower_mode] in P1, P2. rewrite <- raw_fields_canon in P1, P2.
      replace (MAX <? 0 + len (raw_fields f1)) with false in P1 by (symmetry; apply N.ltb_ge; unfold MAX; lia).
      replace (MAX <? 0 + len (raw_fields f2)) with false in P2 by (symmetry; apply N.ltb_ge; unfold MAX; lia).
      destruct P1 as (q1 & P1), P2 as (q2 & P2). rewrite P1, P2 in H. now apply raw_fields_inj.
  - cbv zeta in H.
    replace (MAX <? 0 + len (raw_fields f1)) with false in H by (symmetry; apply N.ltb_ge; unfold MAX; lia).
    replace (MAX <? 0 + len (raw_fields f2)) with false in H by (symmetry; apply N.ltb_ge; unfold MAX; lia).
    now apply raw_fields_inj.
Qed.
