(* C18 — proofs about the try_send model: classification of errors, termination,
   completion bound, truncated -> TCP. *)
From HV Require Import Lib.Base C18.Model.
Open Scope N_scope.

(* ------------------------------------------------------------------ *)
(* Which errors can end the search                                      *)
(* ------------------------------------------------------------------ *)

Definition not_final_class (c : srv) (e : err) : Prop :=
  e <> EIo /\ e <> ENoConn /\ e <> ETimeout /\ e <> EBusy /\ e <> ECase /\
  (e = ENx -> s_trust c = true).

Lemma action_final : forall c r, action_of c r = AFinal -> not_final_class c (res_err r).
Proof.
  intros c r H. unfold not_final_class.
  destruct r as [[|]|e]; cbn in H; try discriminate.
  destruct e; cbn in H; try discriminate; cbn [res_err];
    repeat split; try discriminate; intros _.
  destruct (s_trust c); [reflexivity|discriminate].
Qed.

Lemma process_ret : forall cfg evs done s r w t dn dr,
  process cfg evs done s = PRet r w t dn dr ->
  (exists i, w = WAnswer i /\ r = ROk i) \/
  (exists i e, w = WFinal i e /\ r = RErr e /\ not_final_class (server cfg i) e).
Proof.
  intros cfg evs. induction evs as [|[i pl] evs IH]; intros done s r w t dn dr H; cbn [process] in H.
  - discriminate.
  - destruct (action_of (server cfg i) (plan_res pl)) as [[|]| | | |] eqn:A.
    + eapply IH; exact H.
    + eapply IH; exact H.
    + eapply IH; exact H.
    + eapply IH; exact H.
    + inversion H; subst. left. eauto.
    + inversion H; subst. right. exists i, (res_err (plan_res pl)).
      repeat split; auto; apply (action_final _ _ A).
Qed.

Lemma step_ret_why : forall cfg o s r w s',
  step cfg o s = Ret r w s' ->
  match w with
  | WDeadline => r = RErr ETimeout
  | WExhausted => r = RErr (cerr s)
  | WAnswer i => r = ROk i
  | WFinal i e => r = RErr e /\ not_final_class (server cfg i) e
  end.
Proof.
  intros cfg o s r w s' H. unfold step in H.
  destruct (timeout cfg <=? now s) eqn:D.
  { inversion H; subst; reflexivity. }
  destruct (take_batch cfg (dis s) (nslots cfg) (q s)) as [b rest] eqn:TB.
  destruct b as [|i0 b'].
  - destruct (negb match busy s with [] => true | _ :: _ => false end && (backoff s <? 300)).
    + destruct (timeout cfg - now s =? 0); [inversion H; subst; reflexivity | discriminate].
    + inversion H; subst; reflexivity.
  - match type of H with match ?X with _ => _ end = _ => destruct X as [i'|r0 w0 t0 dn dr] eqn:P end.
    + discriminate.
    + inversion H; subst. apply process_ret in P.
      destruct P as [(i & -> & ->)|(i & e & -> & -> & NF)]; auto.
Qed.

Lemma loop_final_class : forall fuel cfg o s r i e s',
  loop fuel cfg o s = Done r (WFinal i e) s' ->
  r = RErr e /\ not_final_class (server cfg i) e.
Proof.
  induction fuel as [|f IH]; intros cfg o s r i e s' H; cbn [loop] in H; [discriminate|].
  destruct (step cfg o s) as [r0 w0 s0|s0] eqn:S.
  - inversion H; subst. apply (step_ret_why _ _ _ _ _ _ S).
  - eapply IH; exact H.
Qed.

Lemma loop_answer : forall fuel cfg o s r i s',
  loop fuel cfg o s = Done r (WAnswer i) s' -> r = ROk i.
Proof.
  induction fuel as [|f IH]; intros cfg o s r i s' H; cbn [loop] in H; [discriminate|].
  destruct (step cfg o s) as [r0 w0 s0|s0] eqn:S.
  - inversion H; subst. apply (step_ret_why _ _ _ _ _ _ S).
  - eapply IH; exact H.
Qed.

(* an Ok result always comes with WAnswer *)
Lemma step_ok_why : forall cfg o s i w s', step cfg o s = Ret (ROk i) w s' -> w = WAnswer i.
Proof.
  intros cfg o s i w s' H. pose proof (step_ret_why _ _ _ _ _ _ H) as W.
  destruct w; try discriminate.
  - inversion W. reflexivity.
  - destruct W; discriminate.
Qed.

(* ------------------------------------------------------------------ *)
(* Termination and the completion bound                                 *)
(* ------------------------------------------------------------------ *)

(* every exchange takes between 1 and L ms *)
Definition lat_bounds (o : oracle) (L : N) : Prop := forall i p k, 1 <= snd (o i p k) <= L.

Lemma plan_lat_bounds : forall o L c i d e,
  lat_bounds o L -> allowed c d = true ->
  1 <= plan_lat (ns_plan o c i d e) <= 2 * L.
Proof.
  intros o L c i d e HL HA. unfold ns_plan.
  destruct (choose c (live e i) d) as [p|] eqn:C.
  - destruct (o i p (att e i p)) as [oc l] eqn:O1.
    pose proof (HL i p (att e i p)) as B1. rewrite O1 in B1. cbn [snd] in B1.
    destruct (is_closed oc && live e i p).
    + match goal with |- context [choose c ?lv d] => destruct (choose c lv d) as [p2|] end.
      * match goal with |- context [o i p2 ?k] => destruct (o i p2 k) as [oc2 l2] eqn:O2;
          pose proof (HL i p2 k) as B2; rewrite O2 in B2; cbn [snd] in B2 end.
        cbn [plan_lat]. lia.
      * cbn [plan_lat]. lia.
    + cbn [plan_lat]. lia.
  - exfalso. unfold choose, allowed in *.
    destruct (live e i Udp && negb d); [discriminate|].
    destruct (live e i Tcp); [discriminate|].
    destruct (s_udp c && negb d); [discriminate|].
    destruct (s_tcp c); [discriminate|]. cbn in HA. discriminate.
Qed.

Lemma take_batch_allowed : forall cfg d n l b r,
  take_batch cfg d n l = (b, r) -> Forall (fun i => allowed (server cfg i) d = true) b.
Proof.
  intros cfg d n l. revert n. induction l as [|i l IH]; intros n b r H; cbn [take_batch] in H.
  - inversion H; constructor.
  - destruct n as [|n'].
    + inversion H; constructor.
    + destruct (allowed (server cfg i) d) eqn:A.
      * destruct (take_batch cfg d n' l) as [b' r'] eqn:T. inversion H; subst.
        constructor; [exact A|]. eapply IH; exact T.
      * eapply IH; exact H.
Qed.

Lemma max_lat_bounds : forall o L cfg d e b,
  lat_bounds o L -> b <> [] ->
  Forall (fun i => allowed (server cfg i) d = true) b ->
  1 <= max_lat (map (fun i => (i, ns_plan o (server cfg i) i d e)) b) <= 2 * L.
Proof.
  intros o L cfg d e b HL NE HF. induction HF as [|i b A HF IH]; [congruence|].
  cbn [map max_lat snd].
  pose proof (plan_lat_bounds o L (server cfg i) i d e HL A) as B.
  destruct b as [|j b'].
  - cbn [map max_lat]. lia.
  - assert (j :: b' <> []) as NE' by discriminate. specialize (IH NE'). lia.
Qed.

Lemma ins_by_lat_in : forall x l y, In y (ins_by_lat x l) <-> y = x \/ In y l.
Proof.
  intros x l y. induction l as [|z l IH]; cbn [ins_by_lat].
  - cbn. intuition.
  - destruct (plan_lat (snd x) <=? plan_lat (snd z)); cbn [In]; [intuition|]. rewrite IH. intuition.
Qed.

Lemma sort_by_lat_in : forall l y, In y (sort_by_lat l) <-> In y l.
Proof.
  induction l as [|x l IH]; intros y; cbn [sort_by_lat]; [reflexivity|].
  rewrite ins_by_lat_in, IH. cbn [In]. intuition.
Qed.

Lemma in_max_lat : forall l x, In x l -> plan_lat (snd x) <= max_lat l.
Proof.
  induction l as [|y l IH]; intros x H; [destruct H|]. cbn [max_lat].
  destruct H as [->|H]; [lia|]. specialize (IH x H). lia.
Qed.

(* the time at which process returns is the latency of one member of the batch *)
Lemma process_ret_time : forall cfg evs done s r w t dn dr,
  process cfg evs done s = PRet r w t dn dr -> exists x, In x evs /\ t = plan_lat (snd x).
Proof.
  intros cfg evs. induction evs as [|[i pl] evs IH]; intros done s r w t dn dr H; cbn [process] in H.
  - discriminate.
  - destruct (action_of (server cfg i) (plan_res pl)) as [[|]| | | |] eqn:A;
      try (apply IH in H; destruct H as (x & I & E); exists x; split; [right; exact I|exact E]).
    + inversion H; subst. exists (i, pl). split; [left; reflexivity|reflexivity].
    + inversion H; subst. exists (i, pl). split; [left; reflexivity|reflexivity].
Qed.

(* one step: either it returns no later than now + 2L, having started before the
   deadline, or it continues with the clock advanced by at least 1 ms *)
Lemma step_time : forall cfg o L s,
  lat_bounds o L -> 1 <= backoff s ->
  match step cfg o s with
  | Ret _ w s' => (w = WDeadline \/ w = WExhausted -> now s' = now s) /\
                  now s <= now s' /\
                  (now s < timeout cfg -> now s' <= now s + 2 * L) /\
                  (timeout cfg <= now s -> now s' = now s)
  | Cont s' => now s < timeout cfg /\ now s + 1 <= now s' /\ now s' <= N.max (timeout cfg) (now s + 2 * L) /\
               1 <= backoff s'
  end.
Proof.
  intros cfg o L s HL HB. unfold step.
  destruct (timeout cfg <=? now s) eqn:D.
  { apply N.leb_le in D. repeat split; auto; lia. }
  apply N.leb_gt in D.
  destruct (take_batch cfg (dis s) (nslots cfg) (q s)) as [b rest] eqn:TB.
  destruct b as [|i0 b'].
  - destruct (negb match busy s with [] => true | _ :: _ => false end && (backoff s <? 300)).
    + destruct (timeout cfg - now s =? 0) eqn:Z.
      * repeat split; auto; lia.
      * apply N.eqb_neq in Z. cbn [now backoff]. repeat split; lia.
    + repeat split; auto; lia.
  - pose proof (take_batch_allowed _ _ _ _ _ _ TB) as HA.
    assert (i0 :: b' <> []) as NE by discriminate.
    pose proof (max_lat_bounds o L cfg (dis s) (en s) (i0 :: b') HL NE HA) as MB.
    set (batch := map (fun i => (i, ns_plan o (server cfg i) i (dis s) (en s))) (i0 :: b')) in *.
    destruct (process cfg (sort_by_lat batch) [] (mkIst rest (busy s) (cerr s) (dis s)))
      as [i'|r0 w0 t0 dn dr] eqn:P.
    + cbn [now backoff]. repeat split; lia.
    + pose proof (process_ret _ _ _ _ _ _ _ _ _ P) as PW.
      apply process_ret_time in P. destruct P as (x & I & ->).
      apply (proj1 (sort_by_lat_in _ _)) in I. pose proof (in_max_lat _ _ I) as M.
      cbn [now]. split; [|split; [lia|split; [intros _; lia|lia]]].
      intros [E|E]; subst w0; destruct PW as [(i & E1 & _)|(i & e & E1 & _)]; discriminate.
Qed.

Lemma loop_terminates : forall fuel cfg o L s,
  lat_bounds o L -> 1 <= backoff s ->
  (N.to_nat (timeout cfg - now s) + 1 <= fuel)%nat ->
  exists r w s', loop fuel cfg o s = Done r w s'.
Proof.
  induction fuel as [|f IH]; intros cfg o L s HL HB HF; [lia|].
  cbn [loop]. pose proof (step_time cfg o L s HL HB) as ST.
  destruct (step cfg o s) as [r w s'|s'] eqn:S.
  - eauto.
  - destruct ST as (D & A & _ & B'). apply (IH cfg o L s' HL B'). lia.
Qed.

Lemma lat_bounds_pos : forall o L, lat_bounds o L -> 1 <= L.
Proof. intros o L H. specialize (H 0 Udp 0). lia. Qed.

Lemma loop_bound : forall fuel cfg o L s r w s',
  lat_bounds o L -> 1 <= backoff s ->
  loop fuel cfg o s = Done r w s' ->
  now s' <= N.max (now s) (timeout cfg + 2 * L - 1).
Proof.
  induction fuel as [|f IH]; intros cfg o L s r w s' HL HB H; cbn [loop] in H; [discriminate|].
  pose proof (lat_bounds_pos _ _ HL) as LP.
  pose proof (step_time cfg o L s HL HB) as ST.
  destruct (step cfg o s) as [r0 w0 s0|s0] eqn:S.
  - inversion H; subst. destruct ST as (_ & A & B & C).
    destruct (N.lt_ge_cases (now s) (timeout cfg)) as [Lt|Ge].
    + specialize (B Lt). lia.
    + specialize (C Ge). lia.
  - destruct ST as (D & A & B & B').
    specialize (IH cfg o L s0 r w s' HL B' H). lia.
Qed.

(* ------------------------------------------------------------------ *)
(* Truncated / case-mismatch reply: UDP disabled, server requeued, TCP next *)
(* ------------------------------------------------------------------ *)

Lemma process_mono : forall cfg evs done s s',
  process cfg evs done s = PCont s' ->
  (idis s = true -> idis s' = true) /\ (forall i, In i (iq s) -> In i (iq s')).
Proof.
  intros cfg evs. induction evs as [|[i pl] evs IH]; intros done s s' H; cbn [process] in H.
  - inversion H; subst. auto.
  - destruct (action_of (server cfg i) (plan_res pl)) as [[|]| | | |] eqn:A; try discriminate;
      apply IH in H; cbn [idis iq] in H; destruct H as (H1 & H2); split; auto;
      intros j Hj; apply H2; cbn [In]; auto.
Qed.

Definition requeues (r : sres) : bool :=
  match r with SOk true => true | SErr ECase => true | _ => false end.

Lemma requeues_action : forall c r, requeues r = true -> exists b, action_of c r = ARequeue b.
Proof.
  intros c [[|]|e] H; cbn in H; try discriminate; [exists true; reflexivity|].
  destruct e; try discriminate. exists false; reflexivity.
Qed.

Lemma process_requeue : forall cfg evs done s s' i pl,
  process cfg evs done s = PCont s' -> In (i, pl) evs -> requeues (plan_res pl) = true ->
  idis s' = true /\ In i (iq s').
Proof.
  intros cfg evs. induction evs as [|[j pj] evs IH]; intros done s s' i pl H HI HR; [destruct HI|].
  cbn [process] in H. destruct HI as [E|HI].
  - inversion E; subst j pj. destruct (requeues_action (server cfg i) _ HR) as (b & A). rewrite A in H.
    destruct b; apply process_mono in H; cbn [idis iq] in H; destruct H as (H1 & H2);
      (split; [apply H1; reflexivity|apply H2; left; reflexivity]).
  - destruct (action_of (server cfg j) (plan_res pj)) as [[|]| | | |] eqn:A; try discriminate;
      eapply IH; eauto.
Qed.

Lemma choose_dis : forall c lv p, choose c lv true = Some p -> p = Tcp.
Proof.
  intros c lv p H. unfold choose in H. rewrite !andb_false_r in H.
  destruct (lv Tcp); [inversion H; reflexivity|].
  destruct (s_tcp c); [inversion H; reflexivity|discriminate].
Qed.

Lemma choose_dis_tcp : forall c lv, s_tcp c = true -> choose c lv true = Some Tcp.
Proof.
  intros c lv H. unfold choose. rewrite !andb_false_r, H. destruct (lv Tcp); reflexivity.
Qed.

(* under disable_udp every exchange of a plan uses TCP *)
Lemma plan_dis_tcp : forall o c i e cut x,
  In x (plan_xch (ns_plan o c i true e) i cut) -> snd x = (i, Tcp).
Proof.
  intros o c i e cut x H. unfold ns_plan in H.
  destruct (choose c (live e i) true) as [p|] eqn:C; [|destruct H].
  apply choose_dis in C. subst p.
  destruct (o i Tcp (att e i Tcp)) as [oc l].
  destruct (is_closed oc && live e i Tcp).
  - match type of H with context [choose c ?lv true] => destruct (choose c lv true) as [p2|] eqn:C2 end.
    + apply choose_dis in C2. subst p2.
      match type of H with context [o i Tcp ?k] => destruct (o i Tcp k) as [oc2 l2] end.
      cbn [plan_xch] in H. destruct cut as [t|]; [destruct (t <=? l)|]; cbn [In] in H;
        intuition (subst; reflexivity).
    + cbn [plan_xch In] in H. intuition (subst; reflexivity).
  - cbn [plan_xch In] in H. intuition (subst; reflexivity).
Qed.

Lemma plan_dis_some : forall o c i e,
  s_tcp c = true -> exists t, In (t, (i, Tcp)) (plan_xch (ns_plan o c i true e) i None).
Proof.
  intros o c i e H. unfold ns_plan. rewrite (choose_dis_tcp c _ H).
  destruct (o i Tcp (att e i Tcp)) as [oc l].
  destruct (is_closed oc && live e i Tcp).
  - rewrite (choose_dis_tcp c _ H).
    match goal with |- context [o i Tcp ?k] => destruct (o i Tcp k) as [oc2 l2] end.
    exists 0. cbn. auto.
  - exists 0. cbn. auto.
Qed.

Lemma step_truncated : forall cfg o s s' i,
  step cfg o s = Cont s' ->
  In i (fst (take_batch cfg (dis s) (nslots cfg) (q s))) ->
  requeues (plan_res (ns_plan o (server cfg i) i (dis s) (en s))) = true ->
  dis s' = true /\ In i (q s').
Proof.
  intros cfg o s s' i H HI HR. unfold step in H.
  destruct (timeout cfg <=? now s); [discriminate|].
  destruct (take_batch cfg (dis s) (nslots cfg) (q s)) as [b rest] eqn:TB. cbn [fst] in HI.
  destruct b as [|i0 b']; [destruct HI|].
  match type of H with match ?X with _ => _ end = _ => destruct X as [i'|r0 w0 t0 dn dr] eqn:P end;
    [|discriminate].
  inversion H; subst s'. cbn [dis q].
  eapply process_requeue; [exact P| |exact HR].
  apply sort_by_lat_in. apply in_map_iff. exists i. split; [reflexivity|exact HI].
Qed.
