(* C18 — model of the resolver's name-server pool
   (crates/resolver/src/name_server_pool.rs, crates/resolver/src/name_server.rs).

   Part 1  PoolState::try_send as a scheduler over an ORACLE
             (server, protocol, n-th exchange)  |->  (outcome, latency in ms)
           with NameServer::send_inner (protocol / connection choice, reconnect-once),
           server ordering (user order, round robin), parallel batches completing in
           latency order, truncated / case-mismatch -> disable_udp + requeue at the front,
           Busy list + exponential backoff, error classification, most_specific,
           and the deadline test at the start of a round only.
   Part 2  the in-flight de-duplication of NameServerPool::send (active_requests) as a
           small-step semantics over schedules of caller events.

   Time is virtual: [now] counts milliseconds since try_send started (so the deadline is
   [timeout]).  No proofs in this file. *)
From HV Require Import Lib.Base.
Open Scope N_scope.

(* ------------------------------------------------------------------ *)
(* Vocabulary                                                          *)
(* ------------------------------------------------------------------ *)

Inductive proto := Udp | Tcp.
Definition proto_eqb (a b : proto) : bool :=
  match a, b with Udp, Udp | Tcp, Tcp => true | _, _ => false end.

(* what one exchange on one connection yields (the oracle's answer) *)
Inductive outc :=
| OAns        (* response, not truncated, with an answer            -> Ok              *)
| OTrunc      (* response with TC set                               -> Ok (truncation) *)
| ONx         (* NXDOMAIN, no answer  -> Err(NoRecordsFound{NXDomain})                 *)
| ONoData     (* NOERROR, no answer   -> Err(NoRecordsFound{NoError})                  *)
| ORcode      (* SERVFAIL/REFUSED/... -> Err(DnsError::ResponseCode)                   *)
| OCase       (* Err(QueryCaseMismatch)                                                *)
| OBusy       (* Err(Busy)                                                             *)
| OIo         (* Err(Io), not a connection-closed kind                                 *)
| OClosed     (* Err(Io) of a connection-closed kind (reset, broken pipe, ...)         *)
| OTimeout    (* Err(Timeout)                                                          *)
| ONoConn.    (* Err(NoConnections)                                                    *)

(* error classes as try_send sees / returns them *)
Inductive err := ENoConn | EIo | ETimeout | EBusy | ECase | ENx | ENoData | ERcode | ETruncMsg.

Definition err_eqb (a b : err) : bool :=
  match a, b with
  | ENoConn, ENoConn | EIo, EIo | ETimeout, ETimeout | EBusy, EBusy | ECase, ECase
  | ENx, ENx | ENoData, ENoData | ERcode, ERcode | ETruncMsg, ETruncMsg => true
  | _, _ => false
  end.

(* result of NameServer::send *)
Inductive sres := SOk (truncated : bool) | SErr (e : err).

(* NameServerConfig: which protocols are configured, trust_negative_responses *)
Record srv := mkSrv { s_udp : bool; s_tcp : bool; s_trust : bool }.

Inductive strategy := UserOrder | RoundRobin | QueryStats.

Record config := mkCfg {
  servers : list srv;
  nconc : N;            (* ResolverOpts::num_concurrent_reqs *)
  timeout : N;          (* ResolverOpts::timeout, ms *)
}.

Definition oracle := N -> proto -> N -> outc * N.

Definition srv_default := mkSrv false false true.
Definition server (cfg : config) (i : N) : srv := nth (N.to_nat i) (servers cfg) srv_default.

(* ------------------------------------------------------------------ *)
(* NameServer: connections, protocol choice, send_inner                *)
(* ------------------------------------------------------------------ *)

(* pool-wide mutable state that outlives one lookup: per (server, protocol) the number
   of exchanges started so far (index into the oracle) and whether a usable connection
   (status Init / Established) is held *)
Record env := mkEnv { att : N -> proto -> N; live : N -> proto -> bool }.

Definition env0 : env := mkEnv (fun _ _ => 0) (fun _ _ => false).

Definition upd {A} (f : N -> proto -> A) (i : N) (p : proto) (v : A) : N -> proto -> A :=
  fun j q => if N.eqb j i && proto_eqb q p then v else f j q.

Definition bump (e : env) (i : N) (p : proto) : env :=
  mkEnv (upd (att e) i p (att e i p + 1)) (live e).
Definition set_live (e : env) (i : N) (p : proto) (b : bool) : env :=
  mkEnv (att e) (upd (live e) i p b).

(* ConnectionPolicy::allows_server *)
Definition allowed (c : srv) (dis : bool) : bool := (s_udp c && negb dis) || s_tcp c.

(* connected_mut_client: an existing allowed connection is preferred (UDP before TCP),
   otherwise a new one from the configured protocols (UDP before TCP) *)
Definition choose (c : srv) (lv : proto -> bool) (dis : bool) : option proto :=
  if lv Udp && negb dis then Some Udp
  else if lv Tcp then Some Tcp
  else if s_udp c && negb dis then Some Udp
  else if s_tcp c then Some Tcp
  else None.

(* outcome -> (what send_inner returns, connection stays usable) *)
Definition classify (oc : outc) : sres * bool :=
  match oc with
  | OAns => (SOk false, true)
  | OTrunc => (SOk true, true)
  | ONx => (SErr ENx, true)
  | ONoData => (SErr ENoData, true)
  | ORcode => (SErr ERcode, true)
  | OCase => (SErr ECase, false)
  | OBusy => (SErr EBusy, false)
  | OIo => (SErr EIo, false)
  | OClosed => (SErr EIo, false)
  | OTimeout => (SErr ETimeout, false)
  | ONoConn => (SErr ENoConn, false)
  end.

Definition is_closed (oc : outc) : bool := match oc with OClosed => true | _ => false end.

(* what one call of NameServer::send is going to do, computed from the state at the
   start of the round: no exchange (no protocol), one exchange, or two (a reused
   connection turned out closed: reconnect once and resend) *)
Inductive plan :=
| PNone
| POne (p : proto) (oc : outc) (l : N)
| PTwo (p : proto) (l : N) (p2 : proto) (oc2 : outc) (l2 : N).

Definition ns_plan (o : oracle) (c : srv) (i : N) (dis : bool) (e : env) : plan :=
  match choose c (live e i) dis with
  | None => PNone
  | Some p =>
      let '(oc, l) := o i p (att e i p) in
      if is_closed oc && live e i p then
        let e1 := set_live (bump e i p) i p false in
        match choose c (live e1 i) dis with
        | None => POne p oc l
        | Some p2 => let '(oc2, l2) := o i p2 (att e1 i p2) in PTwo p l p2 oc2 l2
        end
      else POne p oc l
  end.

Definition plan_res (pl : plan) : sres :=
  match pl with
  | PNone => SErr ENoConn
  | POne _ oc _ => fst (classify oc)
  | PTwo _ _ _ oc2 _ => fst (classify oc2)
  end.

Definition plan_lat (pl : plan) : N :=
  match pl with PNone => 0 | POne _ _ l => l | PTwo _ l _ _ l2 => l + l2 end.

(* effect on the pool state.  [cut = None]: the call ran to completion.
   [cut = Some t]: the future was dropped t ms after the round started (another member
   of the batch ended the lookup); exchanges already started stay counted and their
   connection stays usable (nobody marked it failed). *)
Definition plan_env (pl : plan) (i : N) (cut : option N) (e : env) : env :=
  match pl with
  | PNone => e
  | POne p oc _ =>
      set_live (bump e i p) i p (match cut with Some _ => true | None => snd (classify oc) end)
  | PTwo p l p2 oc2 _ =>
      match cut with
      | Some t =>
          if t <=? l then set_live (bump e i p) i p true
          else set_live (bump (set_live (bump e i p) i p false) i p2) i p2 true
      | None =>
          set_live (bump (set_live (bump e i p) i p false) i p2) i p2 (snd (classify oc2))
      end
  end.

(* exchanges started, with their start offset inside the round *)
Definition plan_xch (pl : plan) (i : N) (cut : option N) : list (N * (N * proto)) :=
  match pl with
  | PNone => []
  | POne p _ _ => [(0, (i, p))]
  | PTwo p l p2 _ _ =>
      match cut with
      | Some t => if t <=? l then [(0, (i, p))] else [(0, (i, p)); (l, (i, p2))]
      | None => [(0, (i, p)); (l, (i, p2))]
      end
  end.

(* ------------------------------------------------------------------ *)
(* try_send                                                            *)
(* ------------------------------------------------------------------ *)

Definition is_nrf (e : err) : bool := match e with ENx | ENoData => true | _ => false end.

(* fn most_specific(previous, current) *)
Definition most_specific (p c : err) : err :=
  if is_nrf p then p
  else if is_nrf c then c
  else match p, c with
       | EIo, EIo => p
       | EIo, _ => c
       | _, EIo => p
       | ETimeout, _ => p
       | _, ETimeout => c
       | _, _ => p
       end.

Inductive result := ROk (s : N) | RErr (e : err).
Inductive why :=
| WDeadline            (* the deadline test at the start of a round (or before a backoff) *)
| WExhausted           (* no server left to try *)
| WAnswer (s : N)      (* server s answered *)
| WFinal (s : N) (e : err).  (* server s returned an error that ends the search *)

Record st := mkSt {
  q : list N;           (* servers: VecDeque, front = head *)
  busy : list N;
  backoff : N;          (* ms *)
  cerr : err;
  dis : bool;           (* policy.disable_udp *)
  now : N;              (* ms since try_send started *)
  en : env;
  xs : list (N * (N * proto));   (* exchanges started: (start time, (server, protocol)) *)
  slp : list N;         (* backoff sleeps performed *)
}.

Definition st0 (order : list N) (e : env) : st :=
  mkSt order [] 20 ENoConn false 0 e [] [].

(* the `while` that fills par_servers: pops until n allowed servers are found or the
   deque is empty; servers the policy no longer allows are dropped *)
Fixpoint take_batch (cfg : config) (d : bool) (n : nat) (l : list N) : list N * list N :=
  match l with
  | [] => ([], [])
  | i :: l' =>
      match n with
      | O => ([], l)
      | S n' =>
          if allowed (server cfg i) d
          then let '(b, r) := take_batch cfg d n' l' in (i :: b, r)
          else take_batch cfg d n l'
      end
  end.

Definition nslots (cfg : config) : nat := N.to_nat (N.max (nconc cfg) 1).

(* FuturesUnordered yields the members of the batch as they complete: order by latency
   (stable: the generated cases never contain ties between different servers, except
   two timeouts, whose order is immaterial) *)
Fixpoint ins_by_lat (x : N * plan) (l : list (N * plan)) : list (N * plan) :=
  match l with
  | [] => [x]
  | y :: l' => if plan_lat (snd x) <=? plan_lat (snd y) then x :: l else y :: ins_by_lat x l'
  end.
Fixpoint sort_by_lat (l : list (N * plan)) : list (N * plan) :=
  match l with [] => [] | x :: l' => ins_by_lat x (sort_by_lat l') end.

(* what the body of `while let Some((server, result)) = requests.next().await` does *)
Inductive action := ARequeue (set_err : bool) | ABusy | ASkip | AAnswer | AFinal.

Definition action_of (c : srv) (r : sres) : action :=
  match r with
  | SOk true => ARequeue true
  | SOk false => AAnswer
  | SErr ECase => ARequeue false
  | SErr EBusy => ABusy
  | SErr EIo | SErr ENoConn | SErr ETimeout => ASkip
  | SErr ENx => if s_trust c then AFinal else ASkip
  | SErr _ => AFinal
  end.

Definition res_err (r : sres) : err := match r with SErr e => e | SOk _ => ETruncMsg end.

(* inner loop state *)
Record ist := mkIst { iq : list N; ibusy : list N; ierr : err; idis : bool }.

Inductive pres :=
| PCont (s : ist)
| PRet (r : result) (w : why) (t : N) (done dropped : list (N * plan)).

Fixpoint process (cfg : config) (evs done : list (N * plan)) (s : ist) : pres :=
  match evs with
  | [] => PCont s
  | (i, pl) :: evs' =>
      let r := plan_res pl in
      let dn := done ++ [(i, pl)] in
      match action_of (server cfg i) r with
      | ARequeue true => process cfg evs' dn (mkIst (i :: iq s) (ibusy s) ETruncMsg true)
      | ARequeue false => process cfg evs' dn (mkIst (i :: iq s) (ibusy s) (ierr s) true)
      | ABusy => process cfg evs' dn (mkIst (iq s) (ibusy s ++ [i]) (most_specific (ierr s) EBusy) (idis s))
      | ASkip => process cfg evs' dn (mkIst (iq s) (ibusy s) (most_specific (ierr s) (res_err r)) (idis s))
      | AAnswer => PRet (ROk i) (WAnswer i) (plan_lat pl) dn evs'
      | AFinal => PRet (RErr (res_err r)) (WFinal i (res_err r)) (plan_lat pl) dn evs'
      end
  end.

Fixpoint max_lat (l : list (N * plan)) : N :=
  match l with [] => 0 | x :: l' => N.max (plan_lat (snd x)) (max_lat l') end.

Fixpoint apply_env (l : list (N * plan)) (cut : option N) (e : env) : env :=
  match l with [] => e | (i, pl) :: l' => apply_env l' cut (plan_env pl i cut e) end.

(* exchanges of one round in start order: first exchanges in batch order at offset 0,
   then the reconnect exchanges by their offset *)
Fixpoint ins_by_time (x : N * (N * proto)) (l : list (N * (N * proto))) :=
  match l with
  | [] => [x]
  | y :: l' => if fst x <=? fst y then x :: l else y :: ins_by_time x l'
  end.
Fixpoint sort_by_time (l : list (N * (N * proto))) :=
  match l with [] => [] | x :: l' => ins_by_time x (sort_by_time l') end.

Definition round_xch (t0 : N) (batch : list (N * plan)) (cut : option N) (fin : list N)
  : list (N * (N * proto)) :=
  (* members in [fin] completed (no cut applies to them) *)
  map (fun x => (t0 + fst x, snd x))
      (sort_by_time
         (flat_map (fun ip => plan_xch (snd ip) (fst ip)
                                (if existsb (N.eqb (fst ip)) fin then None else cut)) batch)).

Inductive step_res := Ret (r : result) (w : why) (s : st) | Cont (s : st).

Definition step (cfg : config) (o : oracle) (s : st) : step_res :=
  if timeout cfg <=? now s then Ret (RErr ETimeout) WDeadline s
  else
    let '(b, rest) := take_batch cfg (dis s) (nslots cfg) (q s) in
    match b with
    | [] =>
        if negb (match busy s with [] => true | _ => false end) && (backoff s <? 300) then
          let remaining := timeout cfg - now s in
          if remaining =? 0 then Ret (RErr ETimeout) WDeadline s
          else
            let d := N.min (backoff s) remaining in
            Cont (mkSt (rest ++ filter (fun i => allowed (server cfg i) (dis s)) (busy s)) []
                       (backoff s * 2) (cerr s) (dis s) (now s + d) (en s) (xs s) (slp s ++ [d]))
        else Ret (RErr (cerr s)) WExhausted s
    | _ =>
        let batch := map (fun i => (i, ns_plan o (server cfg i) i (dis s) (en s))) b in
        match process cfg (sort_by_lat batch) [] (mkIst rest (busy s) (cerr s) (dis s)) with
        | PCont i' =>
            Cont (mkSt (iq i') (ibusy i') (backoff s) (ierr i') (idis i')
                       (now s + max_lat batch) (apply_env batch None (en s))
                       (xs s ++ round_xch (now s) batch None (map fst batch)) (slp s))
        | PRet r w t done dropped =>
            Ret r w (mkSt rest (busy s) (backoff s) (cerr s) (dis s) (now s + t)
                          (apply_env dropped (Some t) (apply_env done None (en s)))
                          (xs s ++ round_xch (now s) batch (Some t) (map fst done)) (slp s))
        end
    end.

Inductive run := Done (r : result) (w : why) (s : st) | OutOfFuel (s : st).

Fixpoint loop (fuel : nat) (cfg : config) (o : oracle) (s : st) : run :=
  match fuel with
  | O => OutOfFuel s
  | S f => match step cfg o s with
           | Ret r w s' => Done r w s'
           | Cont s' => loop f cfg o s'
           end
  end.

(* enough for every oracle whose exchanges take at least 1 ms (C18_terminates) *)
Definition fuel_for (cfg : config) : nat := N.to_nat (timeout cfg) + 6.

Definition try_send (cfg : config) (o : oracle) (order : list N) (e : env) : run :=
  loop (fuel_for cfg) cfg o (st0 order e).

(* ------------------------------------------------------------------ *)
(* Server ordering                                                     *)
(* ------------------------------------------------------------------ *)

Fixpoint seqN (start : N) (len : nat) : list N :=
  match len with O => [] | S l => start :: seqN (start + 1) l end.

Definition rotate_left {A} (l : list A) (k : nat) : list A := skipn k l ++ firstn k l.

(* (order, new value of PoolState::next) *)
Definition order_of (cfg : config) (strat : strategy) (next : N) (perm : list N) : list N * N :=
  let n := length (servers cfg) in
  let ids := seqN 0 n in
  match strat with
  | UserOrder => (ids, next)
  | QueryStats => (perm, next)      (* SRTT order: some permutation, supplied from outside *)
  | RoundRobin =>
      let c := if 1 <? nconc cfg then nconc cfg else 1 in
      if c <? N.of_nat n
      then (rotate_left ids (N.to_nat (next mod N.of_nat n)), next + c)
      else (ids, next)
  end.

(* ------------------------------------------------------------------ *)
(* Part 2: in-flight de-duplication (NameServerPool::send)             *)
(* ------------------------------------------------------------------ *)

(* A run = one execution of try_send behind a Shared future.  Callers and keys are
   numbers; the result of the n-th run overall is [res n] (whatever try_send gives).

   Events (one mutex-protected step each):
     Arrive c k   caller c enters send() with cache key k: joins the entry for k if
                  there is one, else creates a run, inserts it and becomes its creator
     Complete r   run r finishes (its Shared future resolves)
     Return c     caller c observes the result of its run and leaves send(); if it is
                  the creator its drop guard removes the key
     Cancel c     caller c's future is dropped before it returned; if it is the creator
                  its drop guard removes the key *)
Inductive dev := Arrive (c k : N) | Complete (r : N) | Return (c : N) | Cancel (c : N).

Record dst := mkDst {
  active : N -> option N;          (* active_requests: key -> run *)
  nruns : N;                       (* runs created so far; run ids are 0 .. nruns-1 *)
  run_key : N -> N;                (* run -> key *)
  completed : N -> bool;           (* runs whose future has resolved *)
  waiting : N -> option (N * bool);(* caller -> (run, is_creator), still inside send() *)
  returned : N -> option N;        (* caller -> run whose result it received *)
}.

Definition dst0 : dst :=
  mkDst (fun _ => None) 0 (fun _ => 0) (fun _ => false) (fun _ => None) (fun _ => None).

Definition upd1 {A} (f : N -> A) (k : N) (v : A) : N -> A := fun x => if N.eqb x k then v else f x.

(* the creator's drop guard: active_requests.remove(key) — by KEY, whatever entry is there *)
Definition cleanup (s : dst) (r : N) (creator : bool) : N -> option N :=
  if creator then upd1 (active s) (run_key s r) None else active s.

Definition dstep (s : dst) (e : dev) : dst :=
  match e with
  | Arrive c k =>
      match waiting s c, returned s c with
      | None, None =>
          match active s k with
          | Some r => mkDst (active s) (nruns s) (run_key s) (completed s)
                            (upd1 (waiting s) c (Some (r, false))) (returned s)
          | None =>
              let r := nruns s in
              mkDst (upd1 (active s) k (Some r)) (r + 1) (upd1 (run_key s) r k) (completed s)
                    (upd1 (waiting s) c (Some (r, true))) (returned s)
          end
      | _, _ => s      (* a caller arrives once *)
      end
  | Complete r =>
      if (r <? nruns s) && negb (completed s r)
      then mkDst (active s) (nruns s) (run_key s) (upd1 (completed s) r true) (waiting s) (returned s)
      else s
  | Return c =>
      match waiting s c with
      | Some (r, cr) =>
          if completed s r
          then mkDst (cleanup s r cr) (nruns s) (run_key s) (completed s)
                     (upd1 (waiting s) c None) (upd1 (returned s) c (Some r))
          else s        (* the run has not finished: the caller keeps waiting *)
      | None => s
      end
  | Cancel c =>
      match waiting s c with
      | Some (r, cr) =>
          mkDst (cleanup s r cr) (nruns s) (run_key s) (completed s)
                (upd1 (waiting s) c None) (returned s)
      | None => s
      end
  end.

Definition drun (evs : list dev) : dst := fold_left dstep evs dst0.

(* runs of key k that have been created and have not completed *)
Definition inflight (s : dst) (k : N) : list N :=
  filter (fun r => N.eqb (run_key s r) k && negb (completed s r)) (seqN 0 (N.to_nat (nruns s))).

(* the schedule never cancels the creator of a run that is still unfinished *)
Fixpoint safe_from (s : dst) (evs : list dev) : bool :=
  match evs with
  | [] => true
  | e :: evs' =>
      match e with
      | Cancel c => match waiting s c with Some (r, true) => completed s r | _ => true end
      | _ => true
      end && safe_from (dstep s e) evs'
  end.
Definition safe_sched (evs : list dev) : bool := safe_from dst0 evs.

(* callers mentioned in a schedule, for enumerating [returned] *)
Definition dev_caller (e : dev) : list N :=
  match e with Arrive c _ => [c] | Return c => [c] | Cancel c => [c] | Complete _ => [] end.
