(* C18 — property theorems (statements; proofs are applications of lemmas proved in
   PoolProofs.v / SearchProofs.v / DedupProofs.v).  Print Assumptions under each.

   Reading guide.  [try_send cfg o order e] is the model of PoolState::try_send for an
   arbitrary ORACLE [o : server -> protocol -> n-th exchange -> (outcome, latency)], an
   arbitrary server order (whatever the ordering strategy produced) and an arbitrary pool
   state [e] (exchange counters, live connections).  A run ends with a result and the
   reason [why]: WDeadline, WExhausted, WAnswer i, WFinal i e.  The de-duplication
   semantics [drun] is over arbitrary schedules of Arrive / Complete / Return / Cancel. *)
From HV Require Import Lib.Base C18.Model C18.PoolProofs C18.SearchProofs C18.BudgetProofs C18.DedupProofs.
Open Scope N_scope.

(* ------------------------------------------------------------------ *)
(* Error classification                                                 *)
(* ------------------------------------------------------------------ *)

(* A transport fault (io error, timeout, no connection, busy), a case mismatch, or an
   NXDOMAIN from a server that is not trusted for negative answers never ends the search:
   whenever one server's error is final, it is none of those. *)
Theorem C18_fault_or_untrusted_nx_never_ends_search : forall cfg o order e r i er s,
  try_send cfg o order e = Done r (WFinal i er) s ->
  r = RErr er /\
  er <> EIo /\ er <> ENoConn /\ er <> ETimeout /\ er <> EBusy /\ er <> ECase /\
  (er = ENx -> s_trust (server cfg i) = true).
Proof. intros cfg o order e r i er s H. apply (loop_final_class _ _ _ _ _ _ _ _ H). Qed.
Print Assumptions C18_fault_or_untrusted_nx_never_ends_search.

(* An answer is returned as such. *)
Theorem C18_answer_is_returned : forall cfg o order e r i s,
  try_send cfg o order e = Done r (WAnswer i) s -> r = ROk i.
Proof. intros cfg o order e r i s H. apply (loop_answer _ _ _ _ _ _ _ H). Qed.
Print Assumptions C18_answer_is_returned.

(* ------------------------------------------------------------------ *)
(* Termination, completion time                                         *)
(* ------------------------------------------------------------------ *)

(* For every oracle whose exchanges take at least 1 ms (and at most L), every order and
   every pool state, try_send returns within timeout + 6 rounds: the model never runs out
   of fuel. *)
Theorem C18_terminates : forall cfg o L order e,
  lat_bounds o L -> exists r w s, try_send cfg o order e = Done r w s.
Proof.
  intros cfg o L order e HL. unfold try_send, fuel_for.
  apply (loop_terminates _ cfg o L (st0 order e) HL); cbn [backoff now st0]; lia.
Qed.
Print Assumptions C18_terminates.

(* Completion bound that does hold: strictly less than timeout + 2L, where L bounds one
   exchange (2L: NameServer::send_inner may reconnect and resend once). *)
Theorem C18_completion_bound : forall cfg o L order e r w s,
  lat_bounds o L -> try_send cfg o order e = Done r w s ->
  now s <= timeout cfg + 2 * L - 1.
Proof.
  intros cfg o L order e r w s HL H. unfold try_send in H.
  pose proof (loop_bound (fuel_for cfg) cfg o L (st0 order e) r w s HL) as B.
  cbn [backoff now st0] in B. specialize (B ltac:(lia) H).
  pose proof (lat_bounds_pos _ _ HL). lia.
Qed.
Print Assumptions C18_completion_bound.

(* The clause as stated ("no later than the configured timeout") does not hold: the
   deadline is only looked at when a round starts.  Witness (finding F8, replayed on the
   real code by the harness, index 0): server 0 fails after 400 ms, server 1 answers after
   300 ms, one request at a time, timeout 499 ms: the answer arrives at 700 ms. *)
Definition o_f8 : oracle := fun i _ _ => if i =? 0 then (OIo, 400) else (OAns, 300).
Definition cfg_f8 := mkCfg [mkSrv true true true; mkSrv true true true] 1 499.

Theorem C18_deadline_refuted :
  exists cfg o order e r w s,
    lat_bounds o 400 /\ try_send cfg o order e = Done r w s /\ timeout cfg < now s.
Proof.
  exists cfg_f8, o_f8, [0; 1], env0. eexists; eexists; eexists.
  split; [|split; [vm_compute; reflexivity|vm_compute; reflexivity]].
  intros i p k. unfold o_f8. destruct (i =? 0); cbn [snd]; lia.
Qed.
Print Assumptions C18_deadline_refuted.

(* ------------------------------------------------------------------ *)
(* Truncated UDP reply -> TCP                                           *)
(* ------------------------------------------------------------------ *)

(* One round: if a member of the batch comes back truncated (or with a case mismatch) and
   the round does not end the lookup, then UDP is disabled from then on, the server is
   back in the queue, and whatever the pool state, every later exchange with it uses TCP
   -- and there is one as soon as it is asked, if it has TCP configured.
   PARTIAL: that the requeued server is indeed asked again before the lookup gives up is
   C18_exhausted_means_all_tried below (it is in the queue, and the queue is drained). *)
Theorem C18_truncated_retries_tcp_partial : forall cfg o s s' i,
  step cfg o s = Cont s' ->
  In i (fst (take_batch cfg (dis s) (nslots cfg) (q s))) ->
  requeues (plan_res (ns_plan o (server cfg i) i (dis s) (en s))) = true ->
  dis s' = true /\ In i (q s') /\
  (forall e' cut x, In x (plan_xch (ns_plan o (server cfg i) i (dis s') e') i cut) -> snd x = (i, Tcp)) /\
  (s_tcp (server cfg i) = true ->
   forall e', exists t, In (t, (i, Tcp)) (plan_xch (ns_plan o (server cfg i) i (dis s') e') i None)).
Proof.
  intros cfg o s s' i H HI HR. destruct (step_truncated _ _ _ _ _ H HI HR) as (D & Q).
  rewrite D. repeat split; auto.
  - intros e' cut x. apply plan_dis_tcp.
  - intros T e'. apply plan_dis_some. exact T.
Qed.
Print Assumptions C18_truncated_retries_tcp_partial.

(* ------------------------------------------------------------------ *)
(* The search is complete                                               *)
(* ------------------------------------------------------------------ *)

(* For every oracle, order and pool state: if the lookup gives up because no server is
   left (not by deadline, answer or a final error), then every server of the order that
   the policy in force at the end still allows has been asked.  In particular a server
   requeued after a truncated reply (it is allowed if it has TCP) was asked again -- over
   TCP by C18_truncated_retries_tcp_partial -- and an untrusted NXDOMAIN never made the
   pool stop while another server remained. *)
Theorem C18_exhausted_means_all_tried : forall cfg o order e r s i,
  try_send cfg o order e = Done r WExhausted s ->
  In i order -> allowed (server cfg i) (dis s) = true ->
  exists t p, In (t, (i, p)) (xs s).
Proof.
  intros cfg o order e r s i H Hi A.
  apply (loop_exhausted (fuel_for cfg) cfg o order (st0 order e) r s i (sinv0 cfg order e) H Hi A).
Qed.
Print Assumptions C18_exhausted_means_all_tried.

(* A healthy server (answers on every protocol, every time) that has TCP configured, with
   no server producing an outcome that legitimately ends the search (SERVFAIL, no-data,
   trusted NXDOMAIN): whatever faults, truncations, busy signals and latencies the other
   servers show, in whatever order, the lookup returns an answer -- unless the deadline
   test fires first.
   GUARDED: Known class = the healthy server is UDP-only (see the _refuted theorem). *)
Theorem C18_healthy_server_wins_guarded : forall cfg o order e h r w s,
  healthy o h -> benign cfg o -> In h order -> s_tcp (server cfg h) = true ->
  try_send cfg o order e = Done r w s ->
  (exists i, r = ROk i /\ w = WAnswer i) \/ w = WDeadline.
Proof.
  intros cfg o order e h r w s HH B Hh T H.
  apply (loop_healthy (fuel_for cfg) cfg o order (st0 order e) r w s h HH B Hh T (sinv0 cfg order e)); [|exact H].
  intros (t & p & []).
Qed.
Print Assumptions C18_healthy_server_wins_guarded.

(* Without TCP on the healthy server it fails: a truncated reply of ANOTHER server
   disables UDP for the whole lookup and the healthy UDP-only server is dropped unasked
   (finding C18-udp-only-dropped-after-truncation; harness index 2 on the real code). *)
Definition o_uo : oracle := fun i _ _ => if i =? 0 then (OTrunc, 100) else (OAns, 200).
Definition cfg_uo := mkCfg [mkSrv true false true; mkSrv true false true] 1 899.

Theorem C18_healthy_server_wins_refuted_udp_only :
  exists cfg o order e h s,
    healthy o h /\ benign cfg o /\ In h order /\ lat_bounds o 200 /\
    try_send cfg o order e = Done (RErr ETruncMsg) WExhausted s /\
    now s < timeout cfg /\ ~ exists t p, In (t, (h, p)) (xs s).
Proof.
  exists cfg_uo, o_uo, [0; 1], env0, 1. eexists.
  split; [intros p k; reflexivity|].
  split; [intros i p k; unfold o_uo; destruct (i =? 0); cbn; repeat split; discriminate|].
  split; [right; left; reflexivity|].
  split; [intros i p k; unfold o_uo; destruct (i =? 0); cbn [snd]; lia|].
  split; [vm_compute; reflexivity|]. split; [vm_compute; reflexivity|].
  intros (t & p & H). vm_compute in H. destruct H as [H|[]]. inversion H.
Qed.
Print Assumptions C18_healthy_server_wins_refuted_udp_only.

(* "Unless the deadline fires first" hides a second defect: the deadline can be reached
   although the healthy server would have answered within a fraction of the budget.  A
   server that sets TC (or mismatches the case) over TCP as well is requeued at the front
   every round; with one request at a time nobody else is ever asked.  Timeout 1199 ms,
   two servers, 100 / 200 ms per exchange: 12 exchanges with server 0, none with the
   healthy server 1, Err(Timeout) (finding C18-tcp-truncation-loop; harness index 1). *)
Definition o_tl : oracle := fun i _ _ => if i =? 0 then (OTrunc, 100) else (OAns, 200).
Definition cfg_tl := mkCfg [mkSrv true true true; mkSrv true true true] 1 1199.

Theorem C18_within_budget_refuted_tcp_loop :
  exists cfg o order e h s,
    healthy o h /\ benign cfg o /\ In h order /\ s_tcp (server cfg h) = true /\ lat_bounds o 200 /\
    try_send cfg o order e = Done (RErr ETimeout) WDeadline s /\
    length (xs s) = 12%nat /\ ~ exists t p, In (t, (h, p)) (xs s).
Proof.
  exists cfg_tl, o_tl, [0; 1], env0, 1. eexists.
  split; [intros p k; reflexivity|].
  split; [intros i p k; unfold o_tl; destruct (i =? 0); cbn; repeat split; discriminate|].
  split; [right; left; reflexivity|]. split; [reflexivity|].
  split; [intros i p k; unfold o_tl; destruct (i =? 0); cbn [snd]; lia|].
  split; [vm_compute; reflexivity|]. split; [vm_compute; reflexivity|].
  intros (t & p & H). vm_compute in H.
  repeat (destruct H as [H|H]; [inversion H|]). destruct H.
Qed.
Print Assumptions C18_within_budget_refuted_tcp_loop.

(* The quantitative form, GUARDED by the class of the second defect: if no server ever
   answers truncated / case-mismatched over TCP, the number of rounds is bounded by the
   configuration alone (each server is asked at most 6 times: first try, once more after
   UDP was disabled, once after each of the 4 backoff sleeps), so a timeout above
   6 n * 2L + 300 ms is never reached and the healthy server's answer -- or an earlier
   one -- is returned, for every fault pattern of the other servers. *)
Theorem C18_healthy_within_budget_guarded : forall cfg o L order e h r w s,
  lat_bounds o L -> healthy o h -> benign cfg o -> no_tcp_requeue o ->
  In h order -> s_tcp (server cfg h) = true ->
  2 * L * (6 * N.of_nat (length order)) + 300 < timeout cfg ->
  try_send cfg o order e = Done r w s ->
  exists i, r = ROk i /\ w = WAnswer i.
Proof.
  intros cfg o L order e h r w s HL HH B G Hh T HB H.
  destruct (C18_healthy_server_wins_guarded cfg o order e h r w s HH B Hh T H) as [X|X]; [exact X|].
  exfalso. revert X.
  apply (loop_budget (fuel_for cfg) cfg o L _ (st0 order e) r w s HL G (binv0 L order e) HB H).
Qed.
Print Assumptions C18_healthy_within_budget_guarded.

(* ------------------------------------------------------------------ *)
(* De-duplication                                                       *)
(* ------------------------------------------------------------------ *)

(* For every schedule that never cancels the creator of an unfinished run, at every
   moment there is at most one unfinished run (= one upstream try_send) per key. *)
Theorem C18_dedup_one_exchange_guarded : forall evs k,
  safe_sched evs = true -> (length (inflight (drun evs) k) <= 1)%nat.
Proof.
  intros evs k S. apply inflight_le1. unfold drun. apply safe_from_inv; [apply dinv0|exact S].
Qed.
Print Assumptions C18_dedup_one_exchange_guarded.

(* Without the guard it fails: the creator's drop guard removes the key although a waiter
   keeps the shared lookup running; the next caller starts a second, concurrent run
   (finding C18-dedup-creator-cancel, replayed on the real code by the harness, index 3). *)
Theorem C18_dedup_one_exchange_refuted :
  exists evs k, length (inflight (drun evs) k) = 2%nat.
Proof.
  exists [Arrive 0 0; Arrive 1 0; Cancel 0; Arrive 2 0], 0. vm_compute. reflexivity.
Qed.
Print Assumptions C18_dedup_one_exchange_refuted.

(* A caller that finds a run registered for its key joins it: no new run is started. *)
Theorem C18_dedup_join_starts_nothing : forall evs c k r,
  active (drun evs) k = Some r -> waiting (drun evs) c = None -> returned (drun evs) c = None ->
  nruns (drun (evs ++ [Arrive c k])) = nruns (drun evs) /\
  waiting (drun (evs ++ [Arrive c k])) c = Some (r, false).
Proof. intros evs c k r A W R. rewrite drun_snoc. apply join_no_new_run; assumption. Qed.
Print Assumptions C18_dedup_join_starts_nothing.

(* Whatever the schedule (cancellations included): the result a caller receives is the
   result of the run that was registered for its key when it arrived, or of the run it
   created then -- so all callers that joined a run receive that run's one result. *)
Theorem C18_dedup_same_result : forall evs c r,
  returned (drun evs) c = Some r ->
  exists evs1 k evs2,
    evs = evs1 ++ Arrive c k :: evs2 /\
    (active (drun evs1) k = Some r \/ (active (drun evs1) k = None /\ r = nruns (drun evs1))) /\
    waiting (drun evs1) c = None /\ returned (drun evs1) c = None.
Proof. intros evs c r H. apply attach_inv. left. exact H. Qed.
Print Assumptions C18_dedup_same_result.

(* ------------------------------------------------------------------ *)
(* Non-vacuity                                                          *)
(* ------------------------------------------------------------------ *)

(* an untrusted NXDOMAIN is passed over and the next server's answer returned; the same
   NXDOMAIN from a trusted server is final *)
Definition o_nx : oracle := fun i _ _ => if i =? 0 then (ONx, 100) else (OAns, 200).
Example C18_nx_example :
  (exists s, try_send (mkCfg [mkSrv true true false; mkSrv true true true] 1 899) o_nx [0; 1] env0
             = Done (ROk 1) (WAnswer 1) s /\ now s = 300) /\
  (exists s, try_send (mkCfg [mkSrv true true true; mkSrv true true true] 1 899) o_nx [0; 1] env0
             = Done (RErr ENx) (WFinal 0 ENx) s /\ now s = 100).
Proof. split; eexists; vm_compute; split; reflexivity. Qed.

(* a truncating server with TCP: one round continues with UDP disabled, second round TCP *)
Definition o_tc : oracle := fun _ p _ => match p with Udp => (OTrunc, 100) | Tcp => (OAns, 100) end.
Example C18_trunc_example :
  let cfg := mkCfg [mkSrv true true true] 2 899 in
  (exists s', step cfg o_tc (st0 [0] env0) = Cont s' /\ dis s' = true /\ q s' = [0]) /\
  In 0 (fst (take_batch cfg false (nslots cfg) [0])) /\
  requeues (plan_res (ns_plan o_tc (server cfg 0) 0 false env0)) = true /\
  exists s, try_send cfg o_tc [0] env0 = Done (ROk 0) (WAnswer 0) s /\
            map snd (xs s) = [(0, Udp); (0, Tcp)].
Proof.
  cbv zeta. repeat split.
  - eexists. vm_compute. repeat split.
  - vm_compute. auto.
  - eexists. vm_compute. split; reflexivity.
Qed.

(* hypotheses of C18_healthy_server_wins_guarded are satisfiable with faults around: server 0
   times out, server 1 is busy once then fails, server 2 is healthy *)
Definition o_h : oracle := fun i _ k =>
  if i =? 0 then (OTimeout, 300) else if i =? 1 then (if k =? 0 then (OBusy, 100) else (OIo, 100)) else (OAns, 200).
Example C18_healthy_example :
  let cfg := mkCfg [mkSrv true true true; mkSrv true true false; mkSrv true true true] 2 1199 in
  healthy o_h 2 /\ benign cfg o_h /\ In 2 [0; 1; 2] /\ s_tcp (server cfg 2) = true /\
  exists s, try_send cfg o_h [0; 1; 2] env0 = Done (ROk 2) (WAnswer 2) s /\ now s = 500.
Proof.
  cbv zeta. split; [intros p k; reflexivity|].
  split; [intros i p k; unfold o_h; destruct (i =? 0); [|destruct (i =? 1); [destruct (k =? 0)|]];
          cbn; repeat split; discriminate|].
  split; [cbn; auto|]. split; [reflexivity|]. eexists. vm_compute. split; reflexivity.
Qed.

(* ... and with a timeout above the budget of C18_healthy_within_budget_guarded (L = 300, 3 servers) *)
Example C18_budget_example :
  let cfg := mkCfg [mkSrv true true true; mkSrv true true false; mkSrv true true true] 1 12000 in
  lat_bounds o_h 300 /\ no_tcp_requeue o_h /\ 2 * 300 * (6 * 3) + 300 < timeout cfg /\
  exists s, try_send cfg o_h [0; 1; 2] env0 = Done (ROk 2) (WAnswer 2) s /\ now s = 600.
Proof.
  cbv zeta.
  split; [intros i p k; unfold o_h; destruct (i =? 0); [|destruct (i =? 1); [destruct (k =? 0)|]]; cbn [snd]; lia|].
  split; [intros i k; unfold o_h; destruct (i =? 0); [|destruct (i =? 1); [destruct (k =? 0)|]]; cbn; split; discriminate|].
  split; [reflexivity|]. eexists. vm_compute. repeat split.
Qed.

(* latencies of the examples are within bounds *)
Example C18_lat_example : lat_bounds o_nx 200 /\ lat_bounds o_tc 100.
Proof.
  split; intros i p k; unfold o_nx, o_tc; [destruct (i =? 0)|destruct p]; cbn [snd]; lia.
Qed.

(* a schedule satisfying the guard with two callers sharing one run and a later caller
   starting the next one *)
Example C18_dedup_example :
  let evs := [Arrive 0 7; Arrive 1 7; Complete 0; Return 1; Return 0; Arrive 2 7] in
  safe_sched evs = true /\ nruns (drun evs) = 2 /\
  returned (drun evs) 0 = Some 0 /\ returned (drun evs) 1 = Some 0 /\
  inflight (drun evs) 7 = [1].
Proof. cbv zeta. vm_compute. repeat split. Qed.
