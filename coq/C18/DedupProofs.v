(* C18 — proofs about the in-flight de-duplication semantics (Model.v part 2). *)
From HV Require Import Lib.Base C18.Model.
Open Scope N_scope.

Lemma upd1_eq {A} (f : N -> A) k v : upd1 f k v k = v.
Proof. unfold upd1. now rewrite N.eqb_refl. Qed.
Lemma upd1_neq {A} (f : N -> A) k v x : x <> k -> upd1 f k v x = f x.
Proof. intros H. unfold upd1. apply N.eqb_neq in H. now rewrite H. Qed.

Lemma drun_snoc : forall evs e, drun (evs ++ [e]) = dstep (drun evs) e.
Proof. intros. unfold drun. now rewrite fold_left_app. Qed.

Lemma in_seqN : forall n a x, In x (seqN a n) <-> a <= x < a + N.of_nat n.
Proof.
  induction n as [|n IH]; intros a x; cbn [seqN In].
  - lia.
  - rewrite IH. lia.
Qed.

Lemma nodup_seqN : forall n a, NoDup (seqN a n).
Proof.
  induction n as [|n IH]; intros a; cbn [seqN]; constructor; [|apply IH].
  rewrite in_seqN. lia.
Qed.

(* ------------------------------------------------------------------ *)
(* State invariant                                                      *)
(* ------------------------------------------------------------------ *)

Record dinv (s : dst) : Prop := {
  i_act : forall k r, active s k = Some r -> r < nruns s;
  i_inc : forall r, r < nruns s -> completed s r = false -> active s (run_key s r) = Some r;
  i_cre : forall c r, waiting s c = Some (r, true) -> active s (run_key s r) = Some r;
  i_wait : forall c r b, waiting s c = Some (r, b) -> r < nruns s;
  i_uniq : forall c c' r, waiting s c = Some (r, true) -> waiting s c' = Some (r, true) -> c = c';
}.

Lemma dinv0 : dinv dst0.
Proof. constructor; cbn; intros; try discriminate; lia. Qed.

(* one event is harmless if it does not cancel the creator of an unfinished run *)
Definition ev_safe (s : dst) (e : dev) : bool :=
  match e with
  | Cancel c => match waiting s c with Some (r, true) => completed s r | _ => true end
  | _ => true
  end.

Lemma leave_creator : forall s c r,
  dinv s -> waiting s c = Some (r, true) -> completed s r = true ->
  forall ret,
  dinv (mkDst (upd1 (active s) (run_key s r) None) (nruns s) (run_key s) (completed s)
              (upd1 (waiting s) c None) ret).
Proof.
  intros s c r I W C ret. pose proof (i_cre s I c r W) as AR.
  constructor; cbn [active nruns run_key completed waiting].
  - intros k r' H. destruct (N.eq_dec k (run_key s r)) as [->|NE].
    + rewrite upd1_eq in H. discriminate.
    + rewrite upd1_neq in H by exact NE. eapply i_act; eauto.
  - intros r' L Cf. destruct (N.eq_dec (run_key s r') (run_key s r)) as [E|NE].
    + exfalso. pose proof (i_inc s I r' L Cf) as A'. rewrite E, AR in A'. inversion A'; subst. congruence.
    + rewrite upd1_neq by exact NE. apply (i_inc s I); assumption.
  - intros c' r' H. destruct (N.eq_dec c' c) as [->|NC].
    + rewrite upd1_eq in H. discriminate.
    + rewrite upd1_neq in H by exact NC. pose proof (i_cre s I c' r' H) as A'.
      destruct (N.eq_dec (run_key s r') (run_key s r)) as [E|NE].
      * exfalso. rewrite E, AR in A'. inversion A'; subst r'. apply NC. eapply i_uniq; eauto.
      * rewrite upd1_neq by exact NE. exact A'.
  - intros c' r' b H. destruct (N.eq_dec c' c) as [->|NC].
    + rewrite upd1_eq in H. discriminate.
    + rewrite upd1_neq in H by exact NC. eapply i_wait; eauto.
  - intros c1 c2 r' H1 H2.
    destruct (N.eq_dec c1 c) as [->|N1]; [rewrite upd1_eq in H1; discriminate|].
    destruct (N.eq_dec c2 c) as [->|N2]; [rewrite upd1_eq in H2; discriminate|].
    rewrite upd1_neq in H1, H2 by assumption. eapply i_uniq; eauto.
Qed.

Lemma leave_waiter : forall s c r,
  dinv s -> waiting s c = Some (r, false) ->
  forall ret, dinv (mkDst (active s) (nruns s) (run_key s) (completed s) (upd1 (waiting s) c None) ret).
Proof.
  intros s c r I W ret. constructor; cbn [active nruns run_key completed waiting].
  - apply (i_act s I).
  - apply (i_inc s I).
  - intros c' r' H. destruct (N.eq_dec c' c) as [->|NC].
    + rewrite upd1_eq in H. discriminate.
    + rewrite upd1_neq in H by exact NC. eapply i_cre; eauto.
  - intros c' r' b H. destruct (N.eq_dec c' c) as [->|NC].
    + rewrite upd1_eq in H. discriminate.
    + rewrite upd1_neq in H by exact NC. eapply i_wait; eauto.
  - intros c1 c2 r' H1 H2.
    destruct (N.eq_dec c1 c) as [->|N1]; [rewrite upd1_eq in H1; discriminate|].
    destruct (N.eq_dec c2 c) as [->|N2]; [rewrite upd1_eq in H2; discriminate|].
    rewrite upd1_neq in H1, H2 by assumption. eapply i_uniq; eauto.
Qed.

Lemma dstep_inv : forall s e, dinv s -> ev_safe s e = true -> dinv (dstep s e).
Proof.
  intros s e I SF. destruct e as [c k|r|c|c]; cbn [dstep].
  - (* Arrive *)
    destruct (waiting s c) as [[r0 b0]|] eqn:W; [exact I|].
    destruct (returned s c) eqn:R; [exact I|].
    destruct (active s k) as [r|] eqn:A.
    + (* join *)
      pose proof (i_act s I k r A) as L.
      constructor; cbn [active nruns run_key completed waiting].
      * apply (i_act s I).
      * apply (i_inc s I).
      * intros c' r' H. destruct (N.eq_dec c' c) as [->|NC].
        -- rewrite upd1_eq in H. discriminate.
        -- rewrite upd1_neq in H by exact NC. eapply i_cre; eauto.
      * intros c' r' b H. destruct (N.eq_dec c' c) as [->|NC].
        -- rewrite upd1_eq in H. inversion H; subst. exact L.
        -- rewrite upd1_neq in H by exact NC. eapply i_wait; eauto.
      * intros c1 c2 r' H1 H2.
        destruct (N.eq_dec c1 c) as [->|N1]; [rewrite upd1_eq in H1; discriminate|].
        destruct (N.eq_dec c2 c) as [->|N2]; [rewrite upd1_eq in H2; discriminate|].
        rewrite upd1_neq in H1, H2 by assumption. eapply i_uniq; eauto.
    + (* create run nruns s *)
      set (r := nruns s).
      assert (forall r', r' < r -> active s (run_key s r') = Some r' -> run_key s r' <> k) as KN.
      { intros r' _ H E. rewrite E, A in H. discriminate. }
      constructor; cbn [active nruns run_key completed waiting].
      * intros k' r' H. destruct (N.eq_dec k' k) as [->|NK].
        -- rewrite upd1_eq in H. inversion H. lia.
        -- rewrite upd1_neq in H by exact NK. pose proof (i_act s I k' r' H). fold r in H0. lia.
      * intros r' L Cf. destruct (N.eq_dec r' r) as [->|NR].
        -- rewrite !upd1_eq. reflexivity.
        -- assert (r' < r) as L' by lia.
           rewrite (upd1_neq (run_key s)) by exact NR.
           pose proof (i_inc s I r' L' Cf) as A'.
           rewrite upd1_neq by (apply KN; assumption). exact A'.
      * intros c' r' H. destruct (N.eq_dec c' c) as [->|NC].
        -- rewrite upd1_eq in H. inversion H; subst r'. rewrite !upd1_eq. reflexivity.
        -- rewrite upd1_neq in H by exact NC.
           pose proof (i_wait s I c' r' true H) as L'. fold r in L'.
           assert (r' <> r) as NR by lia.
           rewrite (upd1_neq (run_key s)) by exact NR.
           pose proof (i_cre s I c' r' H) as A'.
           rewrite upd1_neq by (apply KN; assumption). exact A'.
      * intros c' r' b H. destruct (N.eq_dec c' c) as [->|NC].
        -- rewrite upd1_eq in H. inversion H. lia.
        -- rewrite upd1_neq in H by exact NC. pose proof (i_wait s I c' r' b H). fold r in H0. lia.
      * intros c1 c2 r' H1 H2.
        destruct (N.eq_dec c1 c) as [E1|N1]; destruct (N.eq_dec c2 c) as [E2|N2]; subst.
        -- reflexivity.
        -- rewrite upd1_eq in H1. inversion H1; subst r'. rewrite upd1_neq in H2 by exact N2.
           pose proof (i_wait s I c2 r true H2). unfold r in H. lia.
        -- rewrite upd1_eq in H2. inversion H2; subst r'. rewrite upd1_neq in H1 by exact N1.
           pose proof (i_wait s I c1 r true H1). unfold r in H. lia.
        -- rewrite upd1_neq in H1, H2 by assumption. eapply i_uniq; eauto.
  - (* Complete *)
    destruct ((r <? nruns s) && negb (completed s r)); [|exact I].
    constructor; cbn [active nruns run_key completed waiting].
    + apply (i_act s I).
    + intros r' L Cf. destruct (N.eq_dec r' r) as [->|NR].
      * rewrite upd1_eq in Cf. discriminate.
      * rewrite upd1_neq in Cf by exact NR. apply (i_inc s I); assumption.
    + apply (i_cre s I).
    + apply (i_wait s I).
    + apply (i_uniq s I).
  - (* Return *)
    destruct (waiting s c) as [[r cr]|] eqn:W; [|exact I].
    destruct (completed s r) eqn:C; [|exact I].
    destruct cr; unfold cleanup.
    + apply leave_creator; assumption.
    + eapply leave_waiter; eassumption.
  - (* Cancel *)
    cbn [ev_safe] in SF.
    destruct (waiting s c) as [[r cr]|] eqn:W; [|exact I].
    destruct cr; unfold cleanup.
    + apply leave_creator; assumption.
    + eapply leave_waiter; eassumption.
Qed.

Lemma safe_from_inv : forall evs s, dinv s -> safe_from s evs = true -> dinv (fold_left dstep evs s).
Proof.
  induction evs as [|e evs IH]; intros s I SF; cbn [fold_left]; [exact I|].
  cbn [safe_from] in SF. apply andb_true_iff in SF. destruct SF as (S1 & S2).
  apply IH; [|exact S2]. apply dstep_inv; [exact I|].
  destruct e; cbn [ev_safe]; auto.
Qed.

Lemma inflight_le1 : forall s k, dinv s -> (length (inflight s k) <= 1)%nat.
Proof.
  intros s k I. unfold inflight.
  set (P := fun r => N.eqb (run_key s r) k && negb (completed s r)).
  assert (forall r1 r2, In r1 (filter P (seqN 0 (N.to_nat (nruns s)))) ->
                        In r2 (filter P (seqN 0 (N.to_nat (nruns s)))) -> r1 = r2) as EQ.
  { intros r1 r2 H1 H2. apply filter_In in H1, H2. destruct H1 as (M1 & P1), H2 as (M2 & P2).
    apply in_seqN in M1, M2. unfold P in P1, P2. apply andb_true_iff in P1, P2.
    destruct P1 as (K1 & C1), P2 as (K2 & C2). apply N.eqb_eq in K1, K2. apply negb_true_iff in C1, C2.
    assert (r1 < nruns s) as L1 by lia. assert (r2 < nruns s) as L2 by lia.
    pose proof (i_inc s I r1 L1 C1) as A1. pose proof (i_inc s I r2 L2 C2) as A2.
    rewrite K1 in A1. rewrite K2 in A2. congruence. }
  pose proof (NoDup_filter P (nodup_seqN (N.to_nat (nruns s)) 0)) as ND.
  destruct (filter P (seqN 0 (N.to_nat (nruns s)))) as [|a [|b l]]; cbn [length]; try lia.
  exfalso. inversion ND as [|x l' NI ND']; subst. apply NI.
  rewrite (EQ a b); [left; reflexivity|left; reflexivity|right; left; reflexivity].
Qed.

(* ------------------------------------------------------------------ *)
(* Which result a caller receives                                       *)
(* ------------------------------------------------------------------ *)

(* caller c is attached to run r: it arrived with key k when r was the registered run of k,
   or created r; r is a run for k *)
Definition attached (evs : list dev) (c r : N) : Prop :=
  exists evs1 k evs2,
    evs = evs1 ++ Arrive c k :: evs2 /\
    (active (drun evs1) k = Some r \/ (active (drun evs1) k = None /\ r = nruns (drun evs1))) /\
    waiting (drun evs1) c = None /\ returned (drun evs1) c = None.

Lemma attached_snoc : forall evs e c r, attached evs c r -> attached (evs ++ [e]) c r.
Proof.
  intros evs e c r (evs1 & k & evs2 & E & H). exists evs1, k, (evs2 ++ [e]).
  split; [|exact H]. rewrite E, <- app_assoc. reflexivity.
Qed.

Lemma attach_inv : forall evs c r,
  (returned (drun evs) c = Some r \/ exists b, waiting (drun evs) c = Some (r, b)) ->
  attached evs c r.
Proof.
  intros evs. induction evs as [|e evs IH] using rev_ind; intros c r H.
  - cbn in H. destruct H as [H|(b & H)]; discriminate.
  - rewrite drun_snoc in H. set (s := drun evs) in *.
    assert (returned s c = Some r \/ (exists b, waiting s c = Some (r, b)) ->
            attached (evs ++ [e]) c r) as OLD.
    { intros H'. apply attached_snoc, IH, H'. }
    destruct e as [c0 k|r0|c0|c0]; cbn [dstep] in H.
    + destruct (waiting s c0) as [[r1 b1]|] eqn:W; [apply OLD, H|].
      destruct (returned s c0) eqn:R; [apply OLD, H|].
      destruct (active s k) as [r1|] eqn:A; cbn [returned waiting] in H.
      * destruct (N.eq_dec c c0) as [->|NC].
        -- destruct H as [H|(b & H)]; [congruence|].
           rewrite upd1_eq in H. inversion H; subst r1.
           exists evs, k, []. repeat split; auto.
        -- apply OLD. destruct H as [H|(b & H)]; [left; exact H|right; exists b].
           rewrite upd1_neq in H by exact NC. exact H.
      * destruct (N.eq_dec c c0) as [->|NC].
        -- destruct H as [H|(b & H)]; [congruence|].
           rewrite upd1_eq in H. inversion H; subst r.
           exists evs, k, []. repeat split; auto.
        -- apply OLD. destruct H as [H|(b & H)]; [left; exact H|right; exists b].
           rewrite upd1_neq in H by exact NC. exact H.
    + apply OLD. destruct ((r0 <? nruns s) && negb (completed s r0)); exact H.
    + destruct (waiting s c0) as [[r1 b1]|] eqn:W; [|apply OLD, H].
      destruct (completed s r1) eqn:C; [|apply OLD, H].
      cbn [returned waiting] in H. destruct (N.eq_dec c c0) as [->|NC].
      * apply OLD. right. exists b1. destruct H as [H|(b & H)].
        -- rewrite upd1_eq in H. inversion H; subst. exact W.
        -- rewrite upd1_eq in H. discriminate.
      * apply OLD. destruct H as [H|(b & H)]; [left|right; exists b];
          rewrite upd1_neq in H by exact NC; exact H.
    + destruct (waiting s c0) as [[r1 b1]|] eqn:W; [|apply OLD, H].
      cbn [returned waiting] in H. destruct (N.eq_dec c c0) as [->|NC].
      * destruct H as [H|(b & H)]; [apply OLD; left; exact H|].
        rewrite upd1_eq in H. discriminate.
      * apply OLD. destruct H as [H|(b & H)]; [left; exact H|right; exists b].
        rewrite upd1_neq in H by exact NC. exact H.
Qed.

(* joining never starts a run *)
Lemma join_no_new_run : forall s c k r,
  active s k = Some r -> waiting s c = None -> returned s c = None ->
  nruns (dstep s (Arrive c k)) = nruns s /\
  waiting (dstep s (Arrive c k)) c = Some (r, false).
Proof.
  intros s c k r A W R. cbn [dstep]. rewrite W, R, A. cbn. now rewrite upd1_eq.
Qed.

(* the number of runs only grows when a caller finds no entry for its key *)
Lemma nruns_step : forall s e,
  nruns (dstep s e) = nruns s \/
  (exists c k, e = Arrive c k /\ active s k = None /\ nruns (dstep s e) = nruns s + 1).
Proof.
  intros s e. destruct e as [c k|r|c|c]; cbn [dstep].
  - destruct (waiting s c) as [[? ?]|]; [auto|]. destruct (returned s c); [auto|].
    destruct (active s k) eqn:A; [auto|]. right. exists c, k. auto.
  - destruct ((r <? nruns s) && negb (completed s r)); auto.
  - destruct (waiting s c) as [[r cr]|]; [|auto]. destruct (completed s r); auto.
  - destruct (waiting s c) as [[r cr]|]; auto.
Qed.
