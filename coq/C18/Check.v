(* C18 — correspondence glue: cases written by the Rust harness (pool configuration, oracle
   scripts and what the real NameServerPool did) are re-run on the model inside Coq. *)
From HV Require Import Lib.Base C18.Model.
Open Scope N_scope.

Definition outc_of (c : N) : outc :=
  match c with
  | 0 => OAns | 1 => OTrunc | 2 => ONx | 3 => ONoData | 4 => ORcode | 5 => OCase
  | 6 => OBusy | 7 => OIo | 8 => OClosed | 9 => OTimeout | _ => ONoConn
  end.

Definition err_code (e : err) : N :=
  match e with
  | ENoConn => 1 | EIo => 2 | ETimeout => 3 | EBusy => 4 | ECase => 5
  | ENx => 6 | ENoData => 7 | ERcode => 8 | ETruncMsg => 9
  end.

Definition proto_code (p : proto) : N := match p with Udp => 0 | Tcp => 1 end.

Definition srv_of (m : N) : srv := mkSrv (N.testbit m 0) (N.testbit m 1) (N.testbit m 2).

Definition strat_of (c : N) : strategy :=
  match c with 0 => UserOrder | 1 => RoundRobin | _ => QueryStats end.

(* a script = the outcomes of successive exchanges, each written latency * 16 + outcome code;
   the last one repeats *)
Definition script_get (l : list N) (k : N) : outc * N :=
  match l with
  | [] => (OIo, 1)
  | x :: _ =>
      let n := length l in
      let v := nth (Nat.min (N.to_nat k) (n - 1)) l x in (outc_of (v mod 16), v / 16)
  end.

Definition oracle_of (scripts : list (list N * list N)) : oracle :=
  fun i p k =>
    let '(u, t) := nth (N.to_nat i) scripts ([], []) in
    script_get (match p with Udp => u | Tcp => t end) k.

(* one lookup as observed: permutation used (QueryStatistics only), result code
   (0 = answer), answering server, completion time in ms, exchanges started in start
   order (server * 2 + protocol), backoff sleeps requested in ms *)
Inductive lk := Lk (perm : list N) (res who fin : N) (xch : list N) (slp : list N).

(* one caller event of a de-duplication schedule: 0 arrive c k | 1 complete r | 2 return c | 3 cancel c *)
Definition dev_of (e : N * (N * N)) : dev :=
  match e with
  | (0, (c, k)) => Arrive c k
  | (1, (r, _)) => Complete r
  | (2, (c, _)) => Return c
  | (_, (c, _)) => Cancel c
  end.

Inductive case :=
| CPool (srvs : list N) (nc tmo strat : N) (scripts : list (list N * list N)) (lks : list lk)
| CDedup (evs : list (N * (N * N))) (runs : N) (got : list (N * N))
| CSkip.

(* tolerance for wall-clock observations (ms): the real run is never early *)
Definition tol : N := 70.

Definition within (model obs : N) : bool := (model <=? obs) && (obs <? model + tol).
Definition within_down (model obs : N) : bool := (obs <=? model) && (model <? obs + tol).

Fixpoint ins_key (x : N * (N * proto)) (l : list (N * (N * proto))) :=
  match l with
  | [] => [x]
  | y :: l' =>
      if (fst x <? fst y) || ((fst x =? fst y) && (fst (snd x) <=? fst (snd y)))
      then x :: l else y :: ins_key x l'
  end.
Fixpoint sort_key (l : list (N * (N * proto))) :=
  match l with [] => [] | x :: l' => ins_key x (sort_key l') end.

(* exchanges in start order; simultaneous starts ordered by server number *)
Definition canon (l : list (N * (N * proto))) : list N :=
  map (fun x => fst (snd x) * 2 + proto_code (snd (snd x))) (sort_key l).

Definition pair_eqb (a b : N * N) : bool := N.eqb (fst a) (fst b) && N.eqb (snd a) (snd b).

Fixpoint ins_n (x : N) (l : list N) : list N :=
  match l with [] => [x] | y :: l' => if x <=? y then x :: l else y :: ins_n x l' end.
Fixpoint sort_n (l : list N) : list N := match l with [] => [] | x :: l' => ins_n x (sort_n l') end.

Definition is_perm (perm : list N) (n : nat) : bool := list_eqb N.eqb (sort_n perm) (seqN 0 n).

Fixpoint slp_eqb (m o : list N) : bool :=
  match m, o with
  | [], [] => true
  | x :: m', y :: o' => within_down x y && slp_eqb m' o'
  | _, _ => false
  end.

(* model output for one lookup: (result code, who, finish, exchanges, sleeps) *)
Definition lk_out (r : run) : N * N * N * list N * list N :=
  match r with
  | Done (ROk i) _ s => (0, i, now s, canon (xs s), slp s)
  | Done (RErr e) _ s => (err_code e, 0, now s, canon (xs s), slp s)
  | OutOfFuel s => (99, 0, now s, canon (xs s), slp s)
  end.

Definition run_env (r : run) : env := match r with Done _ _ s => en s | OutOfFuel s => en s end.

Definition lk_ok (r : run) (l : lk) : bool :=
  let '(Lk _ res who fin xch sl) := l in
  let '(mres, mwho, mfin, mx, ms) := lk_out r in
  N.eqb mres res && N.eqb mwho who && within mfin fin && list_eqb N.eqb mx xch && slp_eqb ms sl.

Fixpoint run_lks (cfg : config) (o : oracle) (strat : strategy) (next : N) (e : env) (lks : list lk)
  : list run :=
  match lks with
  | [] => []
  | Lk perm _ _ _ _ _ :: rest =>
      let '(order, next') := order_of cfg strat next perm in
      let r := try_send cfg o order e in
      r :: run_lks cfg o strat next' (run_env r) rest
  end.

Fixpoint all2 {A B} (f : A -> B -> bool) (a : list A) (b : list B) : bool :=
  match a, b with
  | [], [] => true
  | x :: a', y :: b' => f x y && all2 f a' b'
  | _, _ => false
  end.

Definition perms_ok (n : nat) (strat : strategy) (lks : list lk) : bool :=
  match strat with
  | QueryStats => forallb (fun l => let '(Lk perm _ _ _ _ _) := l in is_perm perm n) lks
  | _ => true
  end.

Fixpoint ins_pair (x : N * N) (l : list (N * N)) : list (N * N) :=
  match l with [] => [x] | y :: l' => if fst x <=? fst y then x :: l else y :: ins_pair x l' end.
Fixpoint sort_pair (l : list (N * N)) : list (N * N) :=
  match l with [] => [] | x :: l' => ins_pair x (sort_pair l') end.

Fixpoint dedupN (l : list N) : list N :=
  match l with
  | [] => []
  | x :: l' => if existsb (N.eqb x) l' then dedupN l' else x :: dedupN l'
  end.

(* (caller, run) for every caller that received a result, sorted by caller *)
Definition returned_list (evs : list dev) : list (N * N) :=
  let s := drun evs in
  sort_pair (flat_map (fun c => match returned s c with Some r => [(c, r)] | None => [] end)
                      (dedupN (flat_map dev_caller evs))).

Definition check (c : case) : bool :=
  match c with
  | CPool srvs nc tmo strat scripts lks =>
      let cfg := mkCfg (map srv_of srvs) nc tmo in
      let st := strat_of strat in
      perms_ok (length srvs) st lks &&
      all2 lk_ok (run_lks cfg (oracle_of scripts) st 0 env0 lks) lks
  | CDedup evs runs got =>
      N.eqb (nruns (drun (map dev_of evs))) runs &&
      list_eqb pair_eqb (returned_list (map dev_of evs)) (sort_pair got)
  | CSkip => true
  end.

Definition bad (cs : list case) : list N := bad_idx check 0 cs.

(* full model output for one case (used in replay files) *)
Definition show (c : case) :=
  match c with
  | CPool srvs nc tmo strat scripts lks =>
      let cfg := mkCfg (map srv_of srvs) nc tmo in
      (map lk_out (run_lks cfg (oracle_of scripts) (strat_of strat) 0 env0 lks), 0, @nil (N * N))
  | CDedup evs _ _ =>
      ([], nruns (drun (map dev_of evs)), returned_list (map dev_of evs))
  | CSkip => ([], 0, [])
  end.
