(* C18 — proofs about the search as a whole: the lookup gives up only after every
   server the policy allows has been asked; a healthy server's answer is returned. *)
From HV Require Import Lib.Base C18.Model C18.PoolProofs.
Open Scope N_scope.

(* ------------------------------------------------------------------ *)
(* Lists: take_batch, sorting, the trace of a round                     *)
(* ------------------------------------------------------------------ *)

Lemma take_batch_split : forall cfg d n l b r i,
  take_batch cfg d n l = (b, r) -> In i l ->
  In i b \/ In i r \/ allowed (server cfg i) d = false.
Proof.
  intros cfg d n l. revert n. induction l as [|j l IH]; intros n b r i H HI; [destruct HI|].
  cbn [take_batch] in H. destruct n as [|n'].
  - inversion H; subst. right; left. exact HI.
  - destruct (allowed (server cfg j) d) eqn:A.
    + destruct (take_batch cfg d n' l) as [b' r'] eqn:T. inversion H; subst.
      destruct HI as [->|HI]; [left; left; reflexivity|].
      destruct (IH _ _ _ _ T HI) as [X|[X|X]]; [left; right; exact X|right; left; exact X|right; right; exact X].
    + destruct HI as [->|HI]; [right; right; exact A|]. eapply IH; eauto.
Qed.

Lemma take_batch_nil : forall cfg d n l r,
  take_batch cfg d (S n) l = ([], r) ->
  r = [] /\ forall i, In i l -> allowed (server cfg i) d = false.
Proof.
  intros cfg d n l. induction l as [|j l IH]; intros r H.
  - cbn in H. inversion H. split; [reflexivity|intros i []].
  - cbn [take_batch] in H. destruct (allowed (server cfg j) d) eqn:A.
    + destruct (take_batch cfg d n l) as [b' r']. discriminate.
    + destruct (IH _ H) as (-> & F). split; [reflexivity|].
      intros i [->|HI]; [exact A|apply F, HI].
Qed.

Lemma nslots_pos : forall cfg, exists n, nslots cfg = S n.
Proof.
  intros cfg. unfold nslots. destruct (N.to_nat (N.max (nconc cfg) 1)) eqn:E; [lia|eauto].
Qed.

Lemma ins_by_time_in : forall x l y, In y (ins_by_time x l) <-> y = x \/ In y l.
Proof.
  intros x l y. induction l as [|z l IH]; cbn [ins_by_time].
  - cbn. intuition.
  - destruct (fst x <=? fst z); cbn [In]; [intuition|]. rewrite IH. intuition.
Qed.

Lemma sort_by_time_in : forall l y, In y (sort_by_time l) <-> In y l.
Proof.
  induction l as [|x l IH]; intros y; cbn [sort_by_time]; [reflexivity|].
  rewrite ins_by_time_in, IH. cbn [In]. intuition.
Qed.

(* entries of a round's trace: exactly the exchanges of the members' plans *)
Lemma round_xch_in : forall t0 batch cut fin x,
  In x (round_xch t0 batch cut fin) <->
  exists ip y, In ip batch /\
    In y (plan_xch (snd ip) (fst ip) (if existsb (N.eqb (fst ip)) fin then None else cut)) /\
    x = (t0 + fst y, snd y).
Proof.
  intros t0 batch cut fin x. unfold round_xch. rewrite in_map_iff. split.
  - intros (y & E & I). apply (proj1 (sort_by_time_in _ _)) in I. apply in_flat_map in I.
    destruct I as (ip & I1 & I2). exists ip, y. auto.
  - intros (ip & y & I1 & I2 & E). exists y. split; [auto|].
    apply sort_by_time_in. apply in_flat_map. eauto.
Qed.

Lemma plan_xch_server : forall pl i cut y, In y (plan_xch pl i cut) -> fst (snd y) = i.
Proof.
  intros pl i cut y H. destruct pl as [|p oc l|p l p2 oc2 l2]; cbn [plan_xch] in H.
  - destruct H.
  - destruct H as [<-|[]]. reflexivity.
  - destruct cut as [t|]; [destruct (t <=? l)|]; cbn [In] in H; intuition (subst; reflexivity).
Qed.

Lemma plan_xch_nonempty : forall o c i d e cut,
  allowed c d = true -> exists y, In y (plan_xch (ns_plan o c i d e) i cut).
Proof.
  intros o c i d e cut A. unfold ns_plan.
  destruct (choose c (live e i) d) as [p|] eqn:C.
  - destruct (o i p (att e i p)) as [oc l].
    destruct (is_closed oc && live e i p).
    + match goal with |- context [choose c ?lv d] => destruct (choose c lv d) as [p2|] end.
      * match goal with |- context [o i p2 ?k] => destruct (o i p2 k) as [oc2 l2] end.
        exists (0, (i, p)). cbn [plan_xch]. destruct cut as [t|]; [destruct (t <=? l)|]; left; reflexivity.
      * exists (0, (i, p)). left; reflexivity.
    + exists (0, (i, p)). left; reflexivity.
  - exfalso. unfold choose, allowed in *.
    destruct (live e i Udp && negb d); [discriminate|].
    destruct (live e i Tcp); [discriminate|].
    destruct (s_udp c && negb d); [discriminate|].
    destruct (s_tcp c); [discriminate|]. cbn in A. discriminate.
Qed.

(* ------------------------------------------------------------------ *)
(* process: queue and busy list only grow                               *)
(* ------------------------------------------------------------------ *)

Lemma process_grow : forall cfg evs done s s',
  process cfg evs done s = PCont s' ->
  (forall i, In i (iq s) -> In i (iq s')) /\
  (forall i, In i (ibusy s) -> In i (ibusy s')) /\
  (forall i, In i (iq s') -> In i (iq s) \/ In i (map fst evs)) /\
  (forall i, In i (ibusy s') -> In i (ibusy s) \/ In i (map fst evs)).
Proof.
  intros cfg evs. induction evs as [|[i pl] evs IH]; intros done s s' H; cbn [process] in H.
  - inversion H; subst. repeat split; auto.
  - destruct (action_of (server cfg i) (plan_res pl)) as [[|]| | | |] eqn:A; try discriminate;
      apply IH in H; cbn [iq ibusy] in H; destruct H as (H1 & H2 & H3 & H4); cbn [map fst In];
      (split; [intros j Hj; apply H1; cbn [In]; auto|]);
      (split; [intros j Hj; apply H2; try apply in_or_app; auto|]);
      (split; [intros j Hj; destruct (H3 j Hj) as [X|X]; cbn [In] in X; intuition|]);
      intros j Hj; destruct (H4 j Hj) as [X|X]; try apply in_app_or in X; cbn [In] in *; intuition.
Qed.

Lemma allowed_mono : forall c d d', (d = true -> d' = true) -> allowed c d = false -> allowed c d' = false.
Proof.
  intros c d d' M A. unfold allowed in *. destruct (s_udp c), (s_tcp c), d, d'; cbn in *; try discriminate; auto.
  specialize (M eq_refl). discriminate.
Qed.

(* ------------------------------------------------------------------ *)
(* Invariant: every server of the order is queued, busy (and was asked), *)
(* no longer allowed, or was asked                                      *)
(* ------------------------------------------------------------------ *)

Definition tried (s : st) (i : N) : Prop := exists t p, In (t, (i, p)) (xs s).

Definition sinv (cfg : config) (order : list N) (s : st) : Prop :=
  (forall i, In i order ->
     In i (q s) \/ In i (busy s) \/ allowed (server cfg i) (dis s) = false \/ tried s i) /\
  (forall i, In i (busy s) -> tried s i).

Lemma sinv0 : forall cfg order e, sinv cfg order (st0 order e).
Proof. intros. split; cbn [st0 q busy]; [auto|intros i []]. Qed.

Lemma step_cont_inv : forall cfg o order s s',
  sinv cfg order s -> step cfg o s = Cont s' ->
  sinv cfg order s' /\
  (forall x, In x (xs s') -> In x (xs s) \/
     In (fst (snd x)) (fst (take_batch cfg (dis s) (nslots cfg) (q s)))).
Proof.
  intros cfg o order s s' (I1 & I2) H. unfold step in H.
  destruct (timeout cfg <=? now s); [discriminate|].
  destruct (take_batch cfg (dis s) (nslots cfg) (q s)) as [b rest] eqn:TB. cbn [fst].
  destruct b as [|i0 b'].
  - (* backoff sleep *)
    destruct (negb match busy s with [] => true | _ :: _ => false end && (backoff s <? 300)); [|discriminate].
    destruct (timeout cfg - now s =? 0); [discriminate|]. inversion H; subst s'; clear H.
    destruct (nslots_pos cfg) as (n & EN). rewrite EN in TB.
    destruct (take_batch_nil _ _ _ _ _ TB) as (-> & F).
    split; [|cbn [xs]; auto]. split; cbn [q busy dis xs]; [|intros i []].
    intros i Hi. destruct (I1 i Hi) as [X|[X|[X|X]]].
    + right; right; left. apply F, X.
    + destruct (allowed (server cfg i) (dis s)) eqn:A.
      * left. cbn [app]. apply filter_In. split; [exact X|exact A].
      * right; right; left. reflexivity.
    + right; right; left. exact X.
    + right; right; right. exact X.
  - (* a batch *)
    set (bb := i0 :: b') in *.
    set (batch := map (fun i => (i, ns_plan o (server cfg i) i (dis s) (en s))) bb) in *.
    destruct (process cfg (sort_by_lat batch) [] (mkIst rest (busy s) (cerr s) (dis s)))
      as [i'|r0 w0 t0 dn dr] eqn:P; [|discriminate].
    inversion H; subst s'; clear H.
    pose proof (process_grow _ _ _ _ _ P) as (G1 & G2 & G3 & G4). cbn [iq ibusy] in G1, G2, G3, G4.
    pose proof (process_mono _ _ _ _ _ P) as (M & _). cbn [idis] in M.
    pose proof (take_batch_allowed _ _ _ _ _ _ TB) as HA.
    assert (forall i, In i bb -> tried (mkSt (iq i') (ibusy i') (backoff s) (ierr i') (idis i')
               (now s + max_lat batch) (apply_env batch None (en s))
               (xs s ++ round_xch (now s) batch None (map fst batch)) (slp s)) i) as TR.
    { intros i Hi. unfold tried. cbn [xs].
      assert (allowed (server cfg i) (dis s) = true) as A by (rewrite Forall_forall in HA; apply HA, Hi).
      destruct (plan_xch_nonempty o (server cfg i) i (dis s) (en s) None A) as (y & Hy).
      pose proof (plan_xch_server _ _ _ _ Hy) as Sy.
      exists (now s + fst y), (snd (snd y)). apply in_or_app. right.
      apply round_xch_in. exists (i, ns_plan o (server cfg i) i (dis s) (en s)), y. cbn [fst snd].
      split; [apply in_map_iff; exists i; auto|].
      split; [destruct (existsb (N.eqb i) (map fst batch)); exact Hy|].
      destruct y as [ty [sy py]]. cbn [fst snd] in *. subst sy. reflexivity. }
    assert (forall i, tried s i -> tried (mkSt (iq i') (ibusy i') (backoff s) (ierr i') (idis i')
               (now s + max_lat batch) (apply_env batch None (en s))
               (xs s ++ round_xch (now s) batch None (map fst batch)) (slp s)) i) as TM.
    { intros i (t & p & Hx). exists t, p. cbn [xs]. apply in_or_app. left. exact Hx. }
    assert (forall i, In i (map fst (sort_by_lat batch)) -> In i bb) as SB.
    { intros i Hi. apply in_map_iff in Hi. destruct Hi as ([j pl] & <- & Hj).
      apply (proj1 (sort_by_lat_in _ _)) in Hj. apply in_map_iff in Hj.
      destruct Hj as (k & E & Hk). inversion E; subst. exact Hk. }
    split.
    + split; cbn [q busy dis].
      * intros i Hi. destruct (I1 i Hi) as [X|[X|[X|X]]].
        -- destruct (take_batch_split _ _ _ _ _ _ _ TB X) as [Y|[Y|Y]].
           ++ right; right; right. apply TR, Y.
           ++ left. apply G1, Y.
           ++ right; right; left. eapply allowed_mono; [exact M|exact Y].
        -- right; left. apply G2, X.
        -- right; right; left. eapply allowed_mono; [exact M|exact X].
        -- right; right; right. apply TM, X.
      * intros i Hi. destruct (G4 i Hi) as [X|X]; [apply TM, I2, X|apply TR, SB, X].
    + cbn [xs]. intros x Hx. apply in_app_or in Hx. destruct Hx as [Hx|Hx]; [left; exact Hx|right].
      apply round_xch_in in Hx. destruct Hx as (ip & y & B1 & B2 & ->). cbn [snd fst].
      rewrite (plan_xch_server _ _ _ _ B2). apply in_map_iff in B1.
      destruct B1 as (k & <- & Hk). exact Hk.
Qed.

Lemma step_exhausted : forall cfg o order s r s' i,
  sinv cfg order s -> step cfg o s = Ret r WExhausted s' ->
  In i order -> allowed (server cfg i) (dis s') = true -> tried s' i.
Proof.
  intros cfg o order s r s' i (I1 & I2) H Hi A. unfold step in H.
  destruct (timeout cfg <=? now s); [discriminate|].
  destruct (take_batch cfg (dis s) (nslots cfg) (q s)) as [b rest] eqn:TB.
  destruct b as [|i0 b'].
  - destruct (negb match busy s with [] => true | _ :: _ => false end && (backoff s <? 300)).
    + destruct (timeout cfg - now s =? 0); discriminate.
    + inversion H; subst s'; clear H.
      destruct (nslots_pos cfg) as (n & EN). rewrite EN in TB.
      destruct (take_batch_nil _ _ _ _ _ TB) as (_ & F).
      destruct (I1 i Hi) as [X|[X|[X|X]]]; [|apply I2, X| |exact X].
      * rewrite (F i X) in A. discriminate.
      * rewrite X in A. discriminate.
  - match type of H with match ?X with _ => _ end = _ => destruct X as [i'|r0 w0 t0 dn dr] eqn:P end;
      [discriminate|].
    inversion H; subst. apply process_ret in P.
    destruct P as [(j & E & _)|(j & e & E & _)]; discriminate.
Qed.

Lemma loop_exhausted : forall fuel cfg o order s r s' i,
  sinv cfg order s -> loop fuel cfg o s = Done r WExhausted s' ->
  In i order -> allowed (server cfg i) (dis s') = true -> tried s' i.
Proof.
  induction fuel as [|f IH]; intros cfg o order s r s' i I H Hi A; cbn [loop] in H; [discriminate|].
  destruct (step cfg o s) as [r0 w0 s0|s0] eqn:S.
  - inversion H; subst. eapply step_exhausted; eauto.
  - eapply IH; [|exact H|exact Hi|exact A]. apply (step_cont_inv _ _ _ _ _ I S).
Qed.

(* ------------------------------------------------------------------ *)
(* A healthy server                                                     *)
(* ------------------------------------------------------------------ *)

Definition healthy (o : oracle) (h : N) : Prop := forall p k, fst (o h p k) = OAns.

(* no server ever produces an outcome that legitimately ends the search with an error *)
Definition benign (cfg : config) (o : oracle) : Prop :=
  forall i p k, fst (o i p k) <> ONoData /\ fst (o i p k) <> ORcode /\
                (fst (o i p k) = ONx -> s_trust (server cfg i) = false).

Lemma healthy_plan : forall o c h d e,
  healthy o h -> allowed c d = true -> plan_res (ns_plan o c h d e) = SOk false.
Proof.
  intros o c h d e HH A. unfold ns_plan.
  destruct (choose c (live e h) d) as [p|] eqn:C.
  - pose proof (HH p (att e h p)) as E. destruct (o h p (att e h p)) as [oc l]. cbn [fst] in E. subst oc.
    cbn [is_closed andb plan_res classify fst]. reflexivity.
  - exfalso. unfold choose, allowed in *.
    destruct (live e h Udp && negb d); [discriminate|].
    destruct (live e h Tcp); [discriminate|].
    destruct (s_udp c && negb d); [discriminate|].
    destruct (s_tcp c); [discriminate|]. cbn in A. discriminate.
Qed.

Lemma benign_plan : forall cfg o i d e,
  benign cfg o -> action_of (server cfg i) (plan_res (ns_plan o (server cfg i) i d e)) <> AFinal.
Proof.
  intros cfg o i d e B. unfold ns_plan.
  destruct (choose (server cfg i) (live e i) d) as [p|]; [|cbn; discriminate].
  pose proof (B i p (att e i p)) as (B1 & B2 & B3).
  destruct (o i p (att e i p)) as [oc l]. cbn [fst] in *.
  destruct (is_closed oc && live e i p).
  - match goal with |- context [choose (server cfg i) ?lv d] => destruct (choose (server cfg i) lv d) as [p2|] end.
    + match goal with |- context [o i p2 ?k] => pose proof (B i p2 k) as (C1 & C2 & C3); destruct (o i p2 k) as [oc2 l2] end.
      cbn [fst plan_res] in *. destruct oc2; cbn; try discriminate; try congruence.
      rewrite (C3 eq_refl). discriminate.
    + cbn [plan_res]. destruct oc; cbn; try discriminate; try congruence.
      rewrite (B3 eq_refl). discriminate.
  - cbn [plan_res]. destruct oc; cbn; try discriminate; try congruence.
    rewrite (B3 eq_refl). discriminate.
Qed.

Lemma process_no_final : forall cfg evs done s r i e t dn dr,
  (forall x, In x evs -> action_of (server cfg (fst x)) (plan_res (snd x)) <> AFinal) ->
  process cfg evs done s <> PRet r (WFinal i e) t dn dr.
Proof.
  intros cfg evs. induction evs as [|[j pl] evs IH]; intros done s r i e t dn dr NF H; cbn [process] in H.
  - discriminate.
  - assert (forall x, In x evs -> action_of (server cfg (fst x)) (plan_res (snd x)) <> AFinal) as NF'
      by (intros x Hx; apply NF; right; exact Hx).
    pose proof (NF (j, pl) (or_introl eq_refl)) as N0. cbn [fst snd] in N0.
    destruct (action_of (server cfg j) (plan_res pl)) as [[|]| | | |] eqn:A;
      try (eapply IH; [exact NF'|exact H]); try discriminate. congruence.
Qed.

Lemma process_answer_stops : forall cfg evs done s h pl,
  In (h, pl) evs -> plan_res pl = SOk false -> forall s', process cfg evs done s <> PCont s'.
Proof.
  intros cfg evs. induction evs as [|[j pj] evs IH]; intros done s h pl HI HR s' H; [destruct HI|].
  cbn [process] in H. destruct HI as [E|HI].
  - inversion E; subst j pj. rewrite HR in H. cbn [action_of] in H. discriminate.
  - destruct (action_of (server cfg j) (plan_res pj)) as [[|]| | | |]; try discriminate;
      eapply IH; eauto.
Qed.

(* while the loop continues, the healthy server has not been asked *)
Lemma step_cont_healthy : forall cfg o s s' h,
  healthy o h -> step cfg o s = Cont s' ->
  ~ In h (fst (take_batch cfg (dis s) (nslots cfg) (q s))).
Proof.
  intros cfg o s s' h HH H HI. unfold step in H.
  destruct (timeout cfg <=? now s); [discriminate|].
  destruct (take_batch cfg (dis s) (nslots cfg) (q s)) as [b rest] eqn:TB. cbn [fst] in HI.
  destruct b as [|i0 b']; [destruct HI|].
  match type of H with match ?X with _ => _ end = _ => destruct X as [i'|r0 w0 t0 dn dr] eqn:P end;
    [|discriminate].
  pose proof (take_batch_allowed _ _ _ _ _ _ TB) as HA. rewrite Forall_forall in HA.
  eapply process_answer_stops; [| |exact P].
  - apply sort_by_lat_in. apply in_map_iff. exists h. split; [reflexivity|exact HI].
  - apply healthy_plan; [exact HH|apply HA, HI].
Qed.

Lemma step_no_final : forall cfg o s r i e s',
  benign cfg o -> step cfg o s <> Ret r (WFinal i e) s'.
Proof.
  intros cfg o s r i e s' B H. unfold step in H.
  destruct (timeout cfg <=? now s); [discriminate|].
  destruct (take_batch cfg (dis s) (nslots cfg) (q s)) as [b rest] eqn:TB.
  destruct b as [|i0 b'].
  - destruct (negb match busy s with [] => true | _ :: _ => false end && (backoff s <? 300));
      [destruct (timeout cfg - now s =? 0)|]; discriminate.
  - match type of H with match ?X with _ => _ end = _ => destruct X as [i'|r0 w0 t0 dn dr] eqn:P end;
      [discriminate|].
    inversion H; subst. revert P. apply process_no_final.
    intros x Hx. apply (proj1 (sort_by_lat_in _ _)) in Hx. apply in_map_iff in Hx.
    destruct Hx as (k & <- & _). cbn [fst snd]. apply benign_plan. exact B.
Qed.

Lemma loop_healthy : forall fuel cfg o order s r w s' h,
  healthy o h -> benign cfg o -> In h order -> s_tcp (server cfg h) = true ->
  sinv cfg order s -> ~ tried s h ->
  loop fuel cfg o s = Done r w s' ->
  (exists i, r = ROk i /\ w = WAnswer i) \/ w = WDeadline.
Proof.
  induction fuel as [|f IH]; intros cfg o order s r w s' h HH B Hh T I NT H; cbn [loop] in H; [discriminate|].
  destruct (step cfg o s) as [r0 w0 s0|s0] eqn:S.
  - inversion H; subst r0 w0 s0; clear H.
    pose proof (step_ret_why _ _ _ _ _ _ S) as W.
    destruct w as [| |i|i e].
    + right; reflexivity.
    + exfalso. assert (allowed (server cfg h) (dis s') = true) as A
        by (unfold allowed; rewrite T; apply orb_true_r).
      pose proof (step_exhausted _ _ _ _ _ _ _ I S Hh A) as TR.
      (* the state returned with WExhausted is the state itself *)
      assert (s' = s) as ->.
      { unfold step in S. destruct (timeout cfg <=? now s); [discriminate|].
        destruct (take_batch cfg (dis s) (nslots cfg) (q s)) as [b rest].
        destruct b.
        - destruct (negb match busy s with [] => true | _ :: _ => false end && (backoff s <? 300));
            [destruct (timeout cfg - now s =? 0); [|discriminate]|]; inversion S; reflexivity.
        - match type of S with match ?X with _ => _ end = _ => destruct X as [i'|r0 w0 t0 dn dr] eqn:P end;
            [discriminate|]. inversion S; subst. apply process_ret in P.
          destruct P as [(j & E & _)|(j & e & E & _)]; discriminate. }
      exact (NT TR).
    + left. exists i. split; [exact W|reflexivity].
    + exfalso. exact (step_no_final _ _ _ _ _ _ _ B S).
  - pose proof (step_cont_inv _ _ _ _ _ I S) as (I' & XS).
    eapply IH; [exact HH|exact B|exact Hh|exact T|exact I'| |exact H].
    intros (t & p & Hx). destruct (XS _ Hx) as [X|X].
    + apply NT. exists t, p. exact X.
    + cbn [fst snd] in X. exact (step_cont_healthy _ _ _ _ _ HH S X).
Qed.
