(* C18 — the time budget: with no truncated / case-mismatch replies over TCP, the number of
   rounds is bounded by the configuration alone (6 per server + 4 backoff sleeps), so a
   timeout above 6 * n * 2L + 300 ms is never reached. *)
From HV Require Import Lib.Base C18.Model C18.PoolProofs C18.SearchProofs.
Open Scope N_scope.

(* no server answers truncated or with a case mismatch over TCP *)
Definition no_tcp_requeue (o : oracle) : Prop :=
  forall i k, fst (o i Tcp k) <> OTrunc /\ fst (o i Tcp k) <> OCase.

(* backoff sleeps still possible / their total length, for a backoff value >= 19 ms *)
Definition rsl (b : N) : N :=
  if 300 <=? b then 0 else if 150 <=? b then 1 else if 75 <=? b then 2 else if 38 <=? b then 3 else 4.
Definition ssl (b : N) : N :=
  if 300 <=? b then 0 else if 150 <=? b then b else if 75 <=? b then 3 * b
  else if 38 <=? b then 7 * b else 15 * b.

Definition nd (s : st) : N := if dis s then 0 else 1.
Definition wq (r n : N) : N := r + 1 + n.
Definition wb (r n : N) : N := match r with 0 => 0 | _ => r + n end.

Definition phi (s : st) : N :=
  wq (rsl (backoff s)) (nd s) * N.of_nat (length (q s)) +
  wb (rsl (backoff s)) (nd s) * N.of_nat (length (busy s)).

Lemma take_batch_len : forall cfg d n l b r,
  take_batch cfg d n l = (b, r) -> (length b + length r <= length l)%nat.
Proof.
  intros cfg d n l. revert n. induction l as [|j l IH]; intros n b r H; cbn [take_batch] in H.
  - inversion H; cbn; lia.
  - destruct n as [|n'].
    + inversion H; cbn; lia.
    + destruct (allowed (server cfg j) d).
      * destruct (take_batch cfg d n' l) as [b' r'] eqn:T. inversion H; subst.
        specialize (IH _ _ _ T). cbn [length]. lia.
      * specialize (IH _ _ _ H). cbn [length]. lia.
Qed.

Lemma ins_by_lat_len : forall x l, length (ins_by_lat x l) = S (length l).
Proof.
  intros x l. induction l as [|y l IH]; cbn [ins_by_lat]; [reflexivity|].
  destruct (plan_lat (snd x) <=? plan_lat (snd y)); cbn [length]; [reflexivity|]. now rewrite IH.
Qed.
Lemma sort_by_lat_len : forall l, length (sort_by_lat l) = length l.
Proof. induction l as [|x l IH]; cbn [sort_by_lat]; [reflexivity|]. now rewrite ins_by_lat_len, IH. Qed.

Lemma filter_len_le {A} (f : A -> bool) (l : list A) : (length (filter f l) <= length l)%nat.
Proof. induction l as [|x l IH]; cbn [filter length]; [lia|]. destruct (f x); cbn [length]; lia. Qed.

Lemma action_requeue : forall c r b, action_of c r = ARequeue b -> requeues r = true.
Proof.
  intros c [[|]|e] b H; cbn in H; try discriminate; [reflexivity|].
  destruct e; try discriminate; try reflexivity.
  destruct (s_trust c); discriminate.
Qed.

(* how the queue and the busy list grow in one inner loop *)
Lemma process_counts : forall cfg evs done s s',
  process cfg evs done s = PCont s' ->
  (length (iq s') + length (ibusy s') <= length (iq s) + length (ibusy s) + length evs)%nat /\
  (length (iq s) <= length (iq s'))%nat /\ (length (ibusy s) <= length (ibusy s'))%nat /\
  ((forall x, In x evs -> requeues (plan_res (snd x)) = false) ->
     length (iq s') = length (iq s) /\ idis s' = idis s) /\
  ((length (iq s) < length (iq s'))%nat -> idis s' = true).
Proof.
  intros cfg evs. induction evs as [|[i pl] evs IH]; intros done s s' H; cbn [process] in H.
  - inversion H; subst. repeat split; auto; lia.
  - destruct (action_of (server cfg i) (plan_res pl)) as [[|]| | | |] eqn:A; try discriminate;
      pose proof (IH _ _ _ H) as (C1 & C2 & C3 & C4 & C5); cbn [iq ibusy idis length] in *;
      try rewrite app_length in *; cbn [length] in *.
    + apply action_requeue in A. pose proof (process_mono _ _ _ _ _ H) as (M & _). cbn [idis] in M.
      split; [lia|]. split; [lia|]. split; [lia|]. split.
      * intros NR. exfalso. specialize (NR (i, pl) (or_introl eq_refl)). cbn [snd] in NR. congruence.
      * intros _. apply M. reflexivity.
    + apply action_requeue in A. pose proof (process_mono _ _ _ _ _ H) as (M & _). cbn [idis] in M.
      split; [lia|]. split; [lia|]. split; [lia|]. split.
      * intros NR. exfalso. specialize (NR (i, pl) (or_introl eq_refl)). cbn [snd] in NR. congruence.
      * intros _. apply M. reflexivity.
    + split; [lia|]. split; [lia|]. split; [lia|]. split.
      * intros NR. apply C4. intros x Hx. apply NR. right. exact Hx.
      * exact C5.
    + split; [lia|]. split; [lia|]. split; [lia|]. split.
      * intros NR. apply C4. intros x Hx. apply NR. right. exact Hx.
      * exact C5.
Qed.

(* ------------------------------------------------------------------ *)
(* Arithmetic of the potential                                          *)
(* ------------------------------------------------------------------ *)

Lemma small_cases : forall R, R <= 4 -> R = 0 \/ R = 1 \/ R = 2 \/ R = 3 \/ R = 4.
Proof. intros R H. lia. Qed.
Lemma bit_cases : forall n, n <= 1 -> n = 0 \/ n = 1.
Proof. intros n H. lia. Qed.

Lemma phi_round : forall R n n' lq lrest lb lbusy lq' lbusy',
  R <= 4 -> n <= 1 -> n' <= n -> 1 <= lb -> lb + lrest <= lq -> lrest <= lq' -> lbusy <= lbusy' ->
  lq' + lbusy' <= lrest + lbusy + lb -> (lrest < lq' -> n = 1 /\ n' = 0) ->
  wq R n' * lq' + wb R n' * lbusy' + 1 <= wq R n * lq + wb R n * lbusy.
Proof.
  intros R n n' lq lrest lb lbusy lq' lbusy' HR Hn Hn' Hb Hq Hr Hbu Hs Hrq.
  destruct (small_cases R HR) as [->|[->|[->|[->| ->]]]];
    destruct (bit_cases n Hn) as [-> | ->];
    (assert (n' = 0 \/ n' = 1) as [-> | ->] by lia); try lia;
    unfold wq, wb; cbn [N.add]; lia.
Qed.

Lemma phi_sleep : forall R n lq lrest lbusy lf,
  1 <= R <= 4 -> n <= 1 -> lrest <= lq -> lf <= lbusy ->
  wq (R - 1) n * (lrest + lf) + wb (R - 1) n * 0 <= wq R n * lq + wb R n * lbusy.
Proof.
  intros R n lq lrest lbusy lf HR Hn Hq Hf.
  assert (R = 1 \/ R = 2 \/ R = 3 \/ R = 4) as [->|[->|[->| ->]]] by lia;
    destruct (bit_cases n Hn) as [-> | ->]; unfold wq, wb; cbn [N.sub N.add]; lia.
Qed.

Lemma rsl_le : forall b, rsl b <= 4.
Proof.
  intros b. unfold rsl. destruct (300 <=? b); [lia|]. destruct (150 <=? b); [lia|].
  destruct (75 <=? b); [lia|]. destruct (38 <=? b); lia.
Qed.

Lemma rsl_step : forall b, 19 <= b -> b < 300 ->
  1 <= rsl b /\ rsl (b * 2) = rsl b - 1 /\ ssl b = b + ssl (b * 2).
Proof.
  intros b H1 H2. unfold rsl, ssl.
  destruct (300 <=? b) eqn:E1; [apply N.leb_le in E1; lia|apply N.leb_gt in E1].
  destruct (150 <=? b) eqn:E2; [apply N.leb_le in E2|apply N.leb_gt in E2].
  { assert (300 <=? b * 2 = true) as -> by (apply N.leb_le; lia). lia. }
  assert (300 <=? b * 2 = false) as -> by (apply N.leb_gt; lia).
  destruct (75 <=? b) eqn:E3; [apply N.leb_le in E3|apply N.leb_gt in E3].
  { assert (150 <=? b * 2 = true) as -> by (apply N.leb_le; lia). lia. }
  assert (150 <=? b * 2 = false) as -> by (apply N.leb_gt; lia).
  destruct (38 <=? b) eqn:E4; [apply N.leb_le in E4|apply N.leb_gt in E4].
  { assert (75 <=? b * 2 = true) as -> by (apply N.leb_le; lia). lia. }
  assert (75 <=? b * 2 = false) as -> by (apply N.leb_gt; lia).
  assert (38 <=? b * 2 = true) as -> by (apply N.leb_le; lia). lia.
Qed.

(* ------------------------------------------------------------------ *)
(* Under disable_udp nothing is requeued                                *)
(* ------------------------------------------------------------------ *)

Lemma classify_requeue : forall oc, requeues (fst (classify oc)) = true -> oc = OTrunc \/ oc = OCase.
Proof. intros oc H. destruct oc; cbn in H; try discriminate; auto. Qed.

Lemma plan_no_requeue_dis : forall o c i e,
  no_tcp_requeue o -> requeues (plan_res (ns_plan o c i true e)) = false.
Proof.
  intros o c i e G. destruct (requeues (plan_res (ns_plan o c i true e))) eqn:R; [exfalso|reflexivity].
  unfold ns_plan in R.
  destruct (choose c (live e i) true) as [p|] eqn:C; [|cbn in R; discriminate].
  apply choose_dis in C. subst p.
  pose proof (G i (att e i Tcp)) as (G1 & G2).
  destruct (o i Tcp (att e i Tcp)) as [oc l]. cbn [fst] in *.
  destruct (is_closed oc && live e i Tcp).
  - match type of R with context [choose c ?lv true] => destruct (choose c lv true) as [p2|] eqn:C2 end.
    + apply choose_dis in C2. subst p2.
      match type of R with context [o i Tcp ?k] => pose proof (G i k) as (G3 & G4); destruct (o i Tcp k) as [oc2 l2] end.
      cbn [fst plan_res] in *. apply classify_requeue in R. destruct R; congruence.
    + cbn [plan_res] in R. apply classify_requeue in R. destruct R; congruence.
  - cbn [plan_res] in R. apply classify_requeue in R. destruct R; congruence.
Qed.

(* ------------------------------------------------------------------ *)
(* One step under the budget invariant                                  *)
(* ------------------------------------------------------------------ *)

Definition binv (L B : N) (s : st) : Prop :=
  19 <= backoff s /\ now s + 2 * L * phi s + ssl (backoff s) <= B.

Lemma step_budget : forall cfg o L B s,
  lat_bounds o L -> no_tcp_requeue o -> binv L B s -> B < timeout cfg ->
  match step cfg o s with
  | Ret _ w _ => w <> WDeadline
  | Cont s' => binv L B s'
  end.
Proof.
  intros cfg o L B s HL G (HB & HJ) HT. unfold step.
  destruct (timeout cfg <=? now s) eqn:D; [apply N.leb_le in D; lia|]. apply N.leb_gt in D.
  destruct (take_batch cfg (dis s) (nslots cfg) (q s)) as [b rest] eqn:TB.
  pose proof (take_batch_len _ _ _ _ _ _ TB) as TL.
  destruct b as [|i0 b'].
  - (* no batch *)
    destruct (negb match busy s with [] => true | _ :: _ => false end && (backoff s <? 300)) eqn:CND.
    + apply andb_true_iff in CND. destruct CND as (_ & BL). apply N.ltb_lt in BL.
      destruct (timeout cfg - now s =? 0) eqn:Z; [apply N.eqb_eq in Z; lia|].
      destruct (rsl_step (backoff s) HB BL) as (R1 & R2 & R3).
      pose proof (rsl_le (backoff s)) as R4.
      split; cbn [backoff now]; [lia|].
      assert (phi (mkSt (rest ++ filter (fun i => allowed (server cfg i) (dis s)) (busy s)) []
                        (backoff s * 2) (cerr s) (dis s)
                        (now s + N.min (backoff s) (timeout cfg - now s)) (en s) (xs s)
                        (slp s ++ [N.min (backoff s) (timeout cfg - now s)])) <= phi s) as PH.
      { unfold phi. cbn [backoff q busy length]. rewrite R2.
        assert (nd (mkSt (rest ++ filter (fun i => allowed (server cfg i) (dis s)) (busy s)) []
                        (backoff s * 2) (cerr s) (dis s)
                        (now s + N.min (backoff s) (timeout cfg - now s)) (en s) (xs s)
                        (slp s ++ [N.min (backoff s) (timeout cfg - now s)])) = nd s) as -> by reflexivity.
        rewrite app_length, Nat2N.inj_add. cbn [N.of_nat].
        apply phi_sleep.
        - lia.
        - unfold nd. destruct (dis s); lia.
        - cbn [length] in TL. lia.
        - pose proof (filter_len_le (fun i => allowed (server cfg i) (dis s)) (busy s)). lia. }
      assert (2 * L * phi (mkSt (rest ++ filter (fun i => allowed (server cfg i) (dis s)) (busy s)) []
                        (backoff s * 2) (cerr s) (dis s)
                        (now s + N.min (backoff s) (timeout cfg - now s)) (en s) (xs s)
                        (slp s ++ [N.min (backoff s) (timeout cfg - now s)])) <= 2 * L * phi s) as PM
        by (apply N.mul_le_mono_l; exact PH).
      lia.
    + discriminate.
  - (* a batch *)
    pose proof (take_batch_allowed _ _ _ _ _ _ TB) as HA.
    assert (i0 :: b' <> []) as NE by discriminate.
    pose proof (max_lat_bounds o L cfg (dis s) (en s) (i0 :: b') HL NE HA) as MB.
    set (bb := i0 :: b') in *.
    set (batch := map (fun i => (i, ns_plan o (server cfg i) i (dis s) (en s))) bb) in *.
    destruct (process cfg (sort_by_lat batch) [] (mkIst rest (busy s) (cerr s) (dis s)))
      as [i'|r0 w0 t0 dn dr] eqn:P.
    + pose proof (process_counts _ _ _ _ _ P) as (C1 & C2 & C3 & C4 & C5).
      pose proof (process_mono _ _ _ _ _ P) as (M & _).
      cbn [iq ibusy idis] in *. rewrite sort_by_lat_len in C1.
      assert (length batch = length bb) as LB by (unfold batch; apply map_length). rewrite LB in C1.
      split; cbn [backoff now]; [exact HB|].
      assert (phi (mkSt (iq i') (ibusy i') (backoff s) (ierr i') (idis i') (now s + max_lat batch)
                        (apply_env batch None (en s))
                        (xs s ++ round_xch (now s) batch None (map fst batch)) (slp s)) + 1 <= phi s) as PH.
      { unfold phi, nd. cbn [backoff q busy dis].
        apply (phi_round (rsl (backoff s)) _ _ _ (N.of_nat (length rest)) (N.of_nat (length bb))).
        - apply rsl_le.
        - destruct (dis s); lia.
        - destruct (dis s) eqn:DS; [rewrite (M eq_refl); lia|destruct (idis i'); lia].
        - unfold bb. cbn [length]. lia.
        - lia.
        - lia.
        - lia.
        - lia.
        - intros LT. assert (length rest < length (iq i'))%nat as LT' by lia.
          pose proof (C5 LT') as DI. rewrite DI.
          destruct (dis s) eqn:DS; [|split; reflexivity].
          (* dis s = true: nothing is requeued *)
          exfalso. destruct C4 as (C4 & _); [|lia].
          intros x Hx. apply (proj1 (sort_by_lat_in _ _)) in Hx. apply in_map_iff in Hx.
          destruct Hx as (k & <- & _). cbn [snd]. apply plan_no_requeue_dis. exact G. }
      assert (2 * L * (phi (mkSt (iq i') (ibusy i') (backoff s) (ierr i') (idis i') (now s + max_lat batch)
                        (apply_env batch None (en s))
                        (xs s ++ round_xch (now s) batch None (map fst batch)) (slp s)) + 1) <= 2 * L * phi s) as PM
        by (apply N.mul_le_mono_l; exact PH).
      rewrite N.mul_add_distr_l in PM. lia.
    + apply process_ret in P. destruct P as [(j & -> & _)|(j & e & -> & _)]; discriminate.
Qed.

Lemma loop_budget : forall fuel cfg o L B s r w s',
  lat_bounds o L -> no_tcp_requeue o -> binv L B s -> B < timeout cfg ->
  loop fuel cfg o s = Done r w s' -> w <> WDeadline.
Proof.
  induction fuel as [|f IH]; intros cfg o L B s r w s' HL G I HT H; cbn [loop] in H; [discriminate|].
  pose proof (step_budget cfg o L B s HL G I HT) as SB.
  destruct (step cfg o s) as [r0 w0 s0|s0] eqn:S.
  - inversion H; subst. exact SB.
  - eapply IH; eauto.
Qed.

Lemma binv0 : forall L order e,
  binv L (2 * L * (6 * N.of_nat (length order)) + 300) (st0 order e).
Proof.
  intros L order e. split; cbn [st0 backoff now]; [lia|].
  unfold phi, nd, wq, wb. cbn [st0 backoff q busy dis length]. vm_compute (rsl 20). vm_compute (ssl 20).
  cbn [N.of_nat]. lia.
Qed.
