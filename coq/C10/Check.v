(* C10 — correspondence glue.  One case = a zone (as dumped from the real store) and a batch
   of queries, each with the decoded wire reply of the real server, the verdict of the Rust
   reference on that reply and the Rust known-class.  [check] re-runs the model (must equal the
   reply), and the Gallina spec/judge/known-class (must equal the Rust ones).
   Cases are shipped as packed byte strings (Lib/Pack.v) and decoded here: a flat list of
   primitive integers is far cheaper for Coq to parse than the nested constructor term. *)
From HV Require Import Lib.Base Lib.Pack C10.Model.
Open Scope N_scope.

Inductive qo := QO (q : name) (t : N) (ob : obs) (verdict : bool) (k : N).
(* [modelled] = false: a signed zone queried with DO, judged by the harness oracles only *)
Inductive dcase := CZ (modelled : bool) (o : name) (z : zone) (zone_ok : bool) (qs : list qo).

(* ---- decoder: name = len, labels; u16 = hi, lo; list = count, items; bool = 0/1 *)
Definition P (A : Type) := list N -> option (A * list N).

Fixpoint p_take (n : nat) (l : list N) : option (list N * list N) :=
  match n with
  | O => Some ([], l)
  | S n' => match l with
            | x :: r => match p_take n' r with Some (a, r') => Some (x :: a, r') | None => None end
            | [] => None
            end
  end.
Definition p_name : P name := fun l => match l with n :: r => p_take (N.to_nat n) r | [] => None end.
Definition p_u16 : P N := fun l => match l with h :: lo :: r => Some (h * 256 + lo, r) | _ => None end.
Definition p_byte : P N := fun l => match l with x :: r => Some (x, r) | [] => None end.
Definition p_bool : P bool := fun l => match l with x :: r => Some (x =? 1, r) | [] => None end.
Fixpoint p_rep {A} (p : P A) (n : nat) (l : list N) : option (list A * list N) :=
  match n with
  | O => Some ([], l)
  | S n' => match p l with
            | Some (a, r) => match p_rep p n' r with Some (a', r') => Some (a :: a', r') | None => None end
            | None => None
            end
  end.
Definition p_list {A} (p : P A) : P (list A) :=
  fun l => match l with n :: r => p_rep p (N.to_nat n) r | [] => None end.
Definition p_rdata : P rdata := fun l =>
  match l with
  | tag :: r =>
      if tag =? 0 then match r with x :: r' => Some (RId x, r') | [] => None end
      else if tag =? 1 then match p_name r with Some (n, r') => Some (RNm n, r') | None => None end
      else if tag =? 2 then Some (RSoa, r) else None
  | [] => None
  end.
Definition p_rrset : P rrset := fun l =>
  match p_name l with Some (n, l1) =>
  match p_u16 l1 with Some (t, l2) =>
  match p_list p_rdata l2 with Some (d, l3) => Some (RS n t d, l3) | None => None end
  | None => None end | None => None end.
Definition p_rr : P rr := fun l =>
  match p_name l with Some (n, l1) =>
  match p_u16 l1 with Some (t, l2) =>
  match p_rdata l2 with Some (d, l3) => Some (RR n t d, l3) | None => None end
  | None => None end | None => None end.
Definition p_obs : P obs := fun l =>
  match p_byte l with Some (rc, l1) =>
  match p_bool l1 with Some (aa, l2) =>
  match p_list p_rr l2 with Some (an, l3) =>
  match p_list p_rr l3 with Some (au, l4) =>
  match p_list p_rr l4 with Some (ad, l5) => Some (Ob rc aa an au ad, l5) | None => None end
  | None => None end | None => None end | None => None end | None => None end.
Definition p_qo : P qo := fun l =>
  match p_name l with Some (q, l1) =>
  match p_u16 l1 with Some (t, l2) =>
  match p_obs l2 with Some (ob, l3) =>
  match p_bool l3 with Some (v, l4) =>
  match p_byte l4 with Some (k, l5) => Some (QO q t ob v k, l5) | None => None end
  | None => None end | None => None end | None => None end | None => None end.
Definition p_case : P dcase := fun l =>
  match p_bool l with Some (m, l0) =>
  match p_name l0 with Some (o, l1) =>
  match p_bool l1 with Some (ok, l2) =>
  match p_list p_rrset l2 with Some (z, l3) =>
  match p_list p_qo l3 with Some (qs, l4) => Some (CZ m o z ok qs, l4) | None => None end
  | None => None end | None => None end | None => None end | None => None end.

Definition decode (b : pbytes) : option dcase :=
  match p_case (unpack b) with Some (c, []) => Some c | _ => None end.

(* ---- the comparison *)
Definition sec_eqb (a b : list rr) : bool := (length a =? length b)%nat && same_set a b.
Definition obs_eqb (a b : obs) : bool :=
  let 'Ob rc aa an au ad := a in
  let 'Ob rc' aa' an' au' ad' := b in
  (rc =? rc') && Bool.eqb aa aa' && sec_eqb an an' && sec_eqb au au' && sec_eqb ad ad'.

Definition check_q (z : zone) (o : name) (ok : bool) (x : qo) : bool :=
  let 'QO q t ob v k := x in
  obs_eqb (respond z o q t) ob
  && (if ok then Bool.eqb (judge z o (spec_answer z o q t) ob) v && (known_class z o q t =? k) else true).

Definition check_d (c : dcase) : bool :=
  let 'CZ m o z ok qs := c in
  if m then Bool.eqb (wfb z o) ok && forallb (check_q z o ok) qs else true.

Definition case := pbytes.
Definition check (c : case) : bool := match decode c with Some d => check_d d | None => false end.

Definition bad (cs : list case) : list N := bad_idx check 0 cs.

(* full model/spec output for a replay: the decoded case, then per query
   (agrees?, model reply, spec, Gallina verdict, class) *)
Definition show (c : case) :=
  match decode c with
  | None => None
  | Some (CZ m o z ok qs) =>
      Some (m, o, z, wfb z o,
            map (fun x => let 'QO q t ob v k := x in
                          (q, t, check_q z o ok x, respond z o q t, spec_answer z o q t,
                           judge z o (spec_answer z o q t) ob, known_class z o q t)) qs)
  end.
