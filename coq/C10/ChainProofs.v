(* C10 — the CNAME chase of the model against the spec's resolution, step by step. *)
From HV Require Import Lib.Base C10.Model C10.NameProofs C10.StepProofs.
Open Scope N_scope.

(* ---------------------------------------------------------------- small facts *)

Lemma rename_id q s : rs_name s = q -> rename q s = s.
Proof. destruct s as [n t d]. cbn. now intros ->. Qed.

Lemma rrs_of_rename q s : rrs_of q (rename q s) = rrs_of q s.
Proof. destruct s; reflexivity. Qed.

Lemma first_target_rename q s : first_target (rename q s) = first_target s.
Proof. destruct s; reflexivity. Qed.

Lemma rs_type_rename q s : rs_type (rename q s) = rs_type s.
Proof. destruct s; reflexivity. Qed.

Lemma rs_name_rename q s : rs_name (rename q s) = q.
Proof. destruct s; reflexivity. Qed.

Lemma recs_cons s l : recs (s :: l) = rrs_of (rs_name s) s ++ recs l.
Proof. reflexivity. Qed.

Lemma recs_one_rename q s : recs [rename q s] = rrs_of q s.
Proof. rewrite recs_cons, rs_name_rename, rrs_of_rename. cbn [recs flat_map]. apply app_nil_r. Qed.

Lemma carries_has_data z n t : carries z n t = true -> has_data z n = true.
Proof. unfold carries. intros H. apply orb_true_iff in H. destruct H as [H|H]; eapply has_rs_has_data; exact H. Qed.

Lemma kfin_zero n : kfin n = 0 -> (n <= 8)%nat.
Proof. unfold kfin. destruct (8 <? n)%nat eqn:E; [discriminate|]. apply Nat.ltb_ge in E. lia. Qed.

Lemma kfin_big n : (8 < n)%nat -> kfin n = 6.
Proof. intros H. unfold kfin. apply Nat.ltb_lt in H. now rewrite H. Qed.

(* what the model does at a name on the chain: [c] RRsets still fit *)
Definition mstep (z : zone) (t : N) (c : nat) (cur : name) (seen : list name) : list rrset :=
  match inner_lookup z cur t with
  | Some s => if rs_type s =? 5 then s :: chase c z t s seen else [s]
  | None => []
  end.

(* ... and with the RRset found for the current name *)
Definition mtail (z : zone) (t : N) (c : nat) (sm : rrset) (seen : list name) : list rrset :=
  if (rs_type sm =? 5) && negb (t =? 5) then sm :: chase c z t sm seen else [sm].

Lemma chase_S c z t last seen :
  chase (S c) z t last seen =
  match first_target last with
  | None => []
  | Some next => if mem next seen then [] else mstep z t c next (next :: seen)
  end.
Proof. reflexivity. Qed.

(* ---------------------------------------------------------------- beyond 8 RRsets every walk is classified *)

Lemma kfrom_nonzero k z o t cur seen n src :
  t <> 255 -> (8 <= n)%nat -> (forall tg sn, k tg sn (S n) <> 0) -> kfrom k z o t cur seen n src <> 0.
Proof.
  intros Ht Hn Hk. unfold kfrom. apply N.eqb_neq in Ht. rewrite Ht.
  assert (F : kfin (S n) <> 0) by (rewrite kfin_big by lia; discriminate).
  destruct (if t =? 5 then None else find_rs z src 5) as [c|]; [|exact F].
  destruct (first_target c) as [tg|]; [|exact F].
  destruct (negb (is_under tg o) || mem tg seen); [exact F|apply Hk].
Qed.

Lemma known_later_nonzero z o t : t <> 255 -> forall fk cur seen n, (8 <= n)%nat ->
  known_walk fk z o t cur seen n <> 0.
Proof.
  intros Ht fk. induction fk as [|fk IH]; intros cur seen n Hn; [cbn; discriminate|].
  destruct n as [|m]; [lia|]. cbn [known_walk].
  destruct (cuts_on_path z o cur t) as [|c [|c' r]]; [|discriminate|discriminate].
  assert (K : forall src, kfrom (known_walk fk z o t) z o t cur seen (S m) src <> 0).
  { intros src. apply kfrom_nonzero; [exact Ht|exact Hn|]. intros tg sn. apply IH. lia. }
  destruct (has_data z cur && ((t =? 255) || carries z cur t)); [apply K|].
  destruct (is_star cur).
  - destruct (negb (name_exists z cur) && has_data z (0 :: closest_encloser z o cur)); discriminate.
  - destruct (lowest_carrying z o cur (if t =? 255 then 1 else t)) as [a|].
    + destruct (name_exists z cur || negb (name_eqb a (closest_encloser z o cur))); [discriminate|apply K].
    + destruct (negb (name_exists z cur) && has_data z (0 :: closest_encloser z o cur)); discriminate.
Qed.

(* ---------------------------------------------------------------- answering from a source node *)

Definition good (acc : list rr) (l : list rrset) : spec_res := SExp (Exp 0 (acc ++ recs l) false AFree).

Lemma from_agree k kr z o t cur seen acc n src s0 :
  wf z o -> t <> 255 -> scanres z src t = Some s0 -> (n <= 7)%nat ->
  (t <> 5 -> forall tg, is_under tg o = true -> k tg (tg :: seen) (S n) = 0 ->
     (n <= 6)%nat /\
     kr tg (tg :: seen) (acc ++ rrs_of cur s0) = good (acc ++ rrs_of cur s0) (mstep z t (6 - n) tg (tg :: seen))) ->
  kfrom k z o t cur seen n src = 0 ->
  rfrom kr z o t cur seen acc src = good acc (mtail z t (7 - n) (rename cur s0) seen).
Proof.
  intros W Ht Hs Hn IH Hk. unfold kfrom in Hk. unfold rfrom, good, mtail.
  apply N.eqb_neq in Ht. rewrite Ht in Hk |- *. rewrite rs_type_rename.
  unfold scanres in Hs.
  destruct (t =? 5) eqn:E5.
  - (* QTYPE CNAME: the CNAME RRset is the data *)
    apply N.eqb_eq in E5. subst t.
    assert (F : find_rs z src 5 = Some s0) by (destruct (find_rs z src 5); [exact Hs|exact Hs]).
    rewrite F. rewrite andb_false_r. now rewrite recs_one_rename.
  - destruct (find_rs z src 5) as [c|] eqn:Ec.
    + inversion Hs. subst c. clear Hs.
      apply find_rs_some in Ec. destruct Ec as [_ [_ Tc]]. rewrite Tc, N.eqb_refl. cbn [andb negb].
      rewrite recs_cons, rs_name_rename, rrs_of_rename.
      destruct (first_target s0) as [tg|] eqn:Etg.
      * destruct (negb (is_under tg o) || mem tg seen) eqn:Estop.
        -- (* the chain leaves the zone or closes a loop *)
           assert (C : chase (7 - n) z t (rename cur s0) seen = []).
           { destruct (7 - n)%nat as [|c]; [reflexivity|]. rewrite chase_S, first_target_rename, Etg.
             destruct (mem tg seen) eqn:M; [reflexivity|]. rewrite orb_false_r in Estop.
             apply negb_true_iff in Estop. unfold mstep.
             now rewrite (inner_lookup_outside z o tg t W Estop). }
           rewrite C. cbn [recs flat_map]. now rewrite app_nil_r.
        -- apply orb_false_iff in Estop. destruct Estop as [U M]. apply negb_false_iff in U.
           assert (Ht5 : t <> 5) by now apply N.eqb_neq.
           destruct (IH Ht5 tg U Hk) as [Hn6 Hkr]. rewrite Hkr. unfold good.
           replace (7 - n)%nat with (S (6 - n)) by lia.
           rewrite chase_S, first_target_rename, Etg, M. now rewrite app_assoc.
      * assert (C : chase (7 - n) z t (rename cur s0) seen = []).
        { destruct (7 - n)%nat as [|c]; [reflexivity|]. now rewrite chase_S, first_target_rename, Etg. }
        rewrite C. cbn [recs flat_map]. now rewrite app_nil_r.
    + rewrite Hs. apply find_rs_some in Hs. destruct Hs as [_ [_ Ts]].
      rewrite Ts, E5. cbn [andb]. now rewrite recs_one_rename.
Qed.

(* ---------------------------------------------------------------- later names on the chain *)

Lemma situation_nocut z o t cur : cuts_on_path z o cur t = [] ->
  situation z o t cur =
  if has_data z cur then SSource cur
  else if name_exists z cur then SNoData
  else if has_data z (0 :: closest_encloser z o cur) then SSource (0 :: closest_encloser z o cur) else SNXDomain.
Proof. intros H. unfold situation. now rewrite H. Qed.

Lemma later_steps z o t : wf z o -> t <> 255 -> t <> 5 ->
  forall fk fr n cur seen acc, (1 <= n)%nat -> (fk <= fr)%nat ->
  known_walk fk z o t cur seen n = 0 ->
  (n <= 7)%nat /\ resolve fr z o t cur seen acc = good acc (mstep z t (7 - n) cur seen).
Proof.
  intros W Ht Ht5 fk. induction fk as [|fk IH]; intros fr n cur seen acc Hn1 Hf Hk; [cbn in Hk; discriminate|].
  assert (Hn7 : (n <= 7)%nat).
  { destruct (le_lt_dec n 7) as [L|L]; [exact L|]. exfalso.
    apply (known_later_nonzero z o t Ht (S fk) cur seen n); [lia|exact Hk]. }
  split; [exact Hn7|].
  destruct fr as [|fr]; [lia|]. destruct n as [|m]; [lia|].
  cbn [known_walk] in Hk. cbn [resolve].
  destruct (cuts_on_path z o cur t) as [|c [|c' r]] eqn:Ecuts; [|discriminate|discriminate].
  rewrite (situation_nocut z o t cur Ecuts).
  pose proof (inner_lookup_nocut z o cur t W Ecuts) as IL.
  assert (E255 : (t =? 255) = false) by now apply N.eqb_neq.
  assert (E5 : (t =? 5) = false) by now apply N.eqb_neq.
  rewrite E255 in Hk. cbn [orb] in Hk.
  assert (IHk : forall s0 tg, is_under tg o = true ->
            known_walk fk z o t tg (tg :: seen) (S (S m)) = 0 ->
            (S m <= 6)%nat /\
            resolve fr z o t tg (tg :: seen) (acc ++ rrs_of cur s0) =
            good (acc ++ rrs_of cur s0) (mstep z t (6 - S m) tg (tg :: seen))).
  { intros s0 tg U K. destruct (IH fr (S (S m)) tg (tg :: seen) (acc ++ rrs_of cur s0)) as [A B]; [lia|lia|exact K|].
    split; [lia|]. replace (6 - S m)%nat with (7 - S (S m))%nat by lia. exact B. }
  destruct (carries z cur t) eqn:C.
  - (* type or CNAME at the name itself *)
    rewrite (carries_has_data _ _ _ C) in Hk |- *. cbn [andb] in Hk.
    rewrite scanres_carries in C. destruct (scanres z cur t) as [s0|] eqn:Es; [|discriminate].
    pose proof (scanres_some _ _ _ _ Es) as [_ [Ns _]].
    rewrite (from_agree _ _ z o t cur seen acc (S m) cur s0 W Ht Es Hn7 (fun _ => IHk s0) Hk).
    unfold mstep, mtail. rewrite IL, (rename_id cur s0 Ns), E5. now rewrite andb_true_r.
  - rewrite andb_false_r in Hk.
    rewrite scanres_carries in C. destruct (scanres z cur t) as [s0|] eqn:Es; [discriminate|].
    destruct (is_star cur).
    + destruct (negb (name_exists z cur) && has_data z (0 :: closest_encloser z o cur)); discriminate.
    + destruct (lowest_carrying z o cur t) as [a|] eqn:El.
      * destruct (name_exists z cur) eqn:Ex; [discriminate|]. cbn [orb] in Hk.
        destruct (name_eqb a (closest_encloser z o cur)) eqn:Ea; [|discriminate]. cbn [negb] in Hk.
        apply name_eqb_eq in Ea. subst a.
        assert (Hd : has_data z cur = false).
        { destruct (has_data z cur) eqn:D; [|reflexivity]. now rewrite (has_data_exists _ _ D) in Ex. }
        rewrite Hd.
        assert (Cw : carries z (0 :: closest_encloser z o cur) t = true).
        { unfold lowest_carrying in El. apply find_some in El. destruct El as [_ El].
          apply andb_true_iff in El. tauto. }
        rewrite (carries_has_data _ _ _ Cw).
        rewrite scanres_carries in Cw.
        destruct (scanres z (0 :: closest_encloser z o cur) t) as [s0|] eqn:Es0; [|discriminate].
        rewrite (from_agree _ _ z o t cur seen acc (S m) _ s0 W Ht Es0 Hn7 (fun _ => IHk s0) Hk).
        unfold mstep, mtail. rewrite IL. cbn [option_map]. rewrite rs_type_rename, E5. now rewrite andb_true_r.
      * destruct (negb (name_exists z cur) && has_data z (0 :: closest_encloser z o cur)); discriminate.
Qed.
