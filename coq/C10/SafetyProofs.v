(* C10 — unconditional facts about the model (no known-class guard). *)
From HV Require Import Lib.Base C10.Model C10.NameProofs C10.StepProofs C10.ChainProofs C10.RespProofs.
Open Scope N_scope.

(* At or below a zone cut the lookup returns the NS RRset of a cut on the path and nothing
   else: glue and occluded data are never served. *)
Theorem below_cut_only_ns z o q t : wf z o -> cuts_on_path z o q t <> [] ->
  exists c ns, In c (cuts_on_path z o q t) /\ inner_lookup z q t = Some ns /\
               find_rs z c 2 = Some ns /\ rs_type ns = 2 /\ rs_name ns = c.
Proof.
  intros W H. unfold inner_lookup, lookup_nowild. rewrite (deleg_find z o q t W).
  rewrite cuts_on_path_filter in H |- *. rewrite filter_rev' in H |- *. rewrite find_hd_filter.
  destruct (filter (cutp z o q t) (suffixes q)) as [|c r] eqn:E; [now contradiction H|].
  cbn [hd_error].
  assert (Hc : In c (filter (cutp z o q t) (suffixes q))) by (rewrite E; now left).
  apply filter_In in Hc. destruct Hc as [_ Hp]. unfold cutp in Hp.
  apply andb_true_iff in Hp. destruct Hp as [Hp _]. apply andb_true_iff in Hp. destruct Hp as [_ Hns].
  apply has_rs_true in Hns. destruct Hns as [ns Hns]. rewrite Hns.
  exists c, ns. pose proof (find_rs_some _ _ _ _ Hns) as [_ [Nn Tn]].
  repeat split; auto. apply in_rev. rewrite rev_involutive. now left.
Qed.

Definition rcode_of (ob : obs) : N := let 'Ob rc _ _ _ _ := ob in rc.
Definition ans_of (ob : obs) : list rr := let 'Ob _ _ a _ _ := ob in a.
Definition auth_of (ob : obs) : list rr := let 'Ob _ _ _ a _ := ob in a.

(* NXDOMAIN is only ever returned for a name inside the zone that does not exist: no RRset at
   the name or below it (so never for an empty non-terminal). *)
Theorem nxdomain_only_nonexistent z o q t : rcode_of (respond z o q t) = 3 ->
  is_under q o = true /\ name_exists z q = false.
Proof.
  unfold respond. destruct (is_under q o) eqn:U; cbn [negb]; [|cbn; discriminate].
  unfold lookup at 1.
  destruct (inner_lookup z q (if t =? 255 then replace_any z q else t)) as [a|].
  - destruct ((rs_type a =? 5) && negb ((if t =? 255 then replace_any z q else t) =? 5));
      match goal with |- context [if ?c then Ob 0 true [] _ _ else _] => destruct c end; cbn; discriminate.
  - destruct (name_exists z q); [cbn; discriminate|]. rewrite U. auto.
Qed.

(* A lookup that finds nothing is answered with the apex SOA in the authority section, empty
   answer, NOERROR if the name exists (also as an empty non-terminal) and NXDOMAIN otherwise. *)
Theorem negative_carries_soa z o q t : wf z o -> is_under q o = true ->
  inner_lookup z q (if t =? 255 then replace_any z q else t) = None ->
  respond z o q t = Ob (if name_exists z q then 0 else 3) true [] (rrset_recs z o 6) [] /\
  rrset_recs z o 6 <> [].
Proof.
  intros W U H. rewrite (respond_none z o q t U H), (apex_lookup z o 6 W (or_intror eq_refl)).
  split; [reflexivity|]. unfold rrset_recs.
  pose proof (wf_soa _ _ W) as S. apply has_rs_true in S. destruct S as [s S]. rewrite S.
  apply find_rs_some in S. destruct S as [Hs _]. destruct (wf_in _ _ W s Hs) as [_ Hd].
  unfold rrs_of. destruct (rs_data s); [contradiction|discriminate].
Qed.

(* The chase never returns more than MAX_CNAME_DEPTH = 8 RRsets. *)
Lemma chase_length cap z t last seen : (length (chase cap z t last seen) <= cap)%nat.
Proof.
  revert last seen. induction cap as [|cap IH]; intros last seen; [cbn; lia|].
  rewrite chase_S. destruct (first_target last) as [next|]; [|cbn; lia].
  destruct (mem next seen); [cbn; lia|]. unfold mstep.
  destruct (inner_lookup z next t) as [s|]; [|cbn; lia].
  destruct (rs_type s =? 5).
  - specialize (IH s (next :: seen)). cbn [length]. lia.
  - cbn [length]. lia.
Qed.

Theorem answer_chain_bounded z o q t ans adds : lookup z o q t = LOk ans adds -> (length ans <= 8)%nat.
Proof.
  unfold lookup. destruct (inner_lookup z q (if t =? 255 then replace_any z q else t)) as [a|].
  - destruct ((rs_type a =? 5) && negb ((if t =? 255 then replace_any z q else t) =? 5)).
    + pose proof (chase_length 7 z (if t =? 255 then replace_any z q else t) a [q]) as L.
      remember (chase 7 z (if t =? 255 then replace_any z q else t) a [q]) as ch.
      intros H. injection H as E1 E2. subst ans. cbn [length]. lia.
    + intros H. injection H as E1 E2. subst ans. cbn [length]. lia.
  - destruct (name_exists z q); [discriminate|]. destruct (is_under q o); discriminate.
Qed.
