(* C10 — from lookups to replies: the model's reply is acceptable for the spec's expectation
   whenever the query is in no known-deviation class. *)
From HV Require Import Lib.Base C10.Model C10.NameProofs C10.StepProofs C10.ChainProofs.
Open Scope N_scope.

(* ---------------------------------------------------------------- sets of records *)

Lemma subset_refl a : subset a a = true.
Proof.
  unfold subset. apply forallb_forall. intros x Hx. apply existsb_exists. exists x. split; [exact Hx|apply rr_eqb_refl].
Qed.

Lemma same_set_refl a : same_set a a = true.
Proof. unfold same_set. now rewrite Nat.eqb_refl, subset_refl. Qed.

Lemma existsb_rr_in x l : existsb (rr_eqb x) l = true <-> In x l.
Proof.
  rewrite existsb_exists. split.
  - intros [y [Hy E]]. apply rr_eqb_eq in E. now subst.
  - intros H. exists x. split; [exact H|apply rr_eqb_refl].
Qed.

(* ---------------------------------------------------------------- the apex *)

Lemma cuts_apex z o t : cuts_on_path z o o t = [].
Proof.
  destruct (cuts_on_path z o o t) as [|c r] eqn:E; [reflexivity|].
  assert (Hin : In c (cuts_on_path z o o t)) by (rewrite E; now left).
  apply cuts_in in Hin. destruct Hin as [Hs [_ Hu]].
  unfold strictly_under in Hs. apply andb_true_iff in Hs. destruct Hs as [Hs Hne].
  rewrite (is_under_antisym _ _ Hs Hu), name_eqb_refl in Hne. discriminate.
Qed.

Lemma apex_no_cname z o : wf z o -> find_rs z o 5 = None.
Proof.
  intros W. destruct (find_rs z o 5) as [c|] eqn:E; [|reflexivity]. exfalso.
  apply find_rs_some in E. destruct E as [Hc [Nc Tc]].
  pose proof (wf_soa _ _ W) as S. apply has_rs_true in S. destruct S as [s S].
  apply find_rs_some in S. destruct S as [Hs [Ns Ts]].
  assert (rs_type s = 5) by (apply (wf_cname _ _ W c s); congruence). congruence.
Qed.

Lemma apex_lookup z o t : wf z o -> t = 2 \/ t = 6 -> answers_of (lookup z o o t) = rrset_recs z o t.
Proof.
  intros W Ht. unfold lookup, rrset_recs.
  assert (E255 : (t =? 255) = false) by (destruct Ht; subst; reflexivity).
  assert (E5 : (t =? 5) = false) by (destruct Ht; subst; reflexivity).
  rewrite E255, (inner_lookup_nocut z o o t W (cuts_apex z o t)).
  unfold scanres. rewrite (apex_no_cname z o W).
  destruct (find_rs z o t) as [s|] eqn:Es.
  - apply find_rs_some in Es. destruct Es as [_ [Ns Ts]].
    rewrite Ts, E5. cbn [andb answers_of]. rewrite recs_cons, Ns. cbn [recs flat_map]. apply app_nil_r.
  - rewrite (wf_nostar _ _ W).
    assert (L : lowest_carrying z o o t = None).
    { unfold lowest_carrying. apply find_all_false. intros a Ha.
      destruct o as [|l up]; [destruct Ha|]. rewrite tl_suffixes_cons in Ha. apply in_suffixes in Ha.
      rewrite not_under_shorter; [reflexivity|]. apply is_under_length in Ha. cbn [length]. lia. }
    rewrite L. rewrite (has_data_exists _ _ (wf_apex_exists z o W)). reflexivity.
Qed.

(* ---------------------------------------------------------------- negative answers *)

Lemma spec_negative f z o t q seen :
  cuts_on_path z o q t = [] ->
  (t = 255 -> has_data z q = false) -> (t <> 255 -> carries z q t = false) ->
  negb (name_exists z q) && has_data z (0 :: closest_encloser z o q) = false ->
  resolve (S f) z o t q seen [] = SExp (Exp (if name_exists z q then 0 else 3) [] false ASoa).
Proof.
  intros Hc HA HN Hw. cbn [resolve]. rewrite (situation_nocut z o t q Hc).
  destruct (has_data z q) eqn:D.
  - rewrite (has_data_exists _ _ D). unfold rfrom.
    destruct (t =? 255) eqn:E; [apply N.eqb_eq in E; specialize (HA E); discriminate|].
    apply N.eqb_neq in E. specialize (HN E). unfold carries in HN. apply orb_false_iff in HN.
    destruct HN as [H1 H2]. apply has_rs_false in H1, H2. rewrite H1, H2.
    destruct (t =? 5); reflexivity.
  - destruct (name_exists z q); [reflexivity|]. cbn [negb andb] in Hw. now rewrite Hw.
Qed.

Lemma judge_negative z o (ex : bool) : wf z o ->
  judge z o (SExp (Exp (if ex then 0 else 3) [] false ASoa))
        (Ob (if ex then 0 else 3) true [] (answers_of (lookup z o o 6)) []) = true.
Proof.
  intros W. rewrite (apex_lookup z o 6 W (or_intror eq_refl)). unfold judge.
  rewrite N.eqb_refl, !same_set_refl. reflexivity.
Qed.

Lemma respond_none z o q t : is_under q o = true ->
  inner_lookup z q (if t =? 255 then replace_any z q else t) = None ->
  respond z o q t = Ob (if name_exists z q then 0 else 3) true [] (answers_of (lookup z o o 6)) [].
Proof.
  intros U H. unfold respond. rewrite U. cbn [negb]. unfold lookup at 1. rewrite H.
  destruct (name_exists z q); [reflexivity|]. now rewrite U.
Qed.

(* ---------------------------------------------------------------- ANY *)

Lemma judge_any_ok z o q src s : wf z o -> In s z -> rs_name s = src ->
  let ans := rrs_of q s in
  let eans := flat_map (rrs_of q) (at_name z src) in
  (subset ans eans
   && forallb (fun x => existsb (rr_eqb x) ans || negb (existsb (rr_key_eqb x) ans)) eans
   && Bool.eqb (is_nil eans) (is_nil ans)) = true.
Proof.
  intros W Hs Ns ans eans.
  assert (Hat : In s (at_name z src)) by (apply in_at_name; auto).
  assert (Hsub : forall x, In x ans -> In x eans).
  { intros x Hx. unfold eans. apply in_flat_map. exists s. auto. }
  assert (Hne : exists d r, rs_data s = d :: r).
  { destruct (wf_in _ _ W s Hs) as [_ Hd]. destruct (rs_data s) as [|d r]; [contradiction|eauto]. }
  rewrite !andb_true_iff. repeat split.
  - unfold subset. apply forallb_forall. intros x Hx. apply existsb_rr_in. auto.
  - apply forallb_forall. intros x Hx. unfold eans in Hx. apply in_flat_map in Hx.
    destruct Hx as [s' [Hs' Hx]]. apply in_at_name in Hs'. destruct Hs' as [Hz' Ns'].
    destruct (existsb (rr_key_eqb x) ans) eqn:Ek; [|now rewrite orb_true_r].
    rewrite orb_false_r. apply existsb_rr_in.
    apply existsb_exists in Ek. destruct Ek as [y [Hy Ek]].
    unfold ans, rrs_of in Hy. apply in_map_iff in Hy. destruct Hy as [d [<- _]].
    unfold rrs_of in Hx. apply in_map_iff in Hx. destruct Hx as [d' [<- Hd']].
    cbn [rr_key_eqb] in Ek. apply andb_true_iff in Ek. destruct Ek as [_ Et]. apply N.eqb_eq in Et.
    assert (s' = s) by (apply (wf_find_unique z o s' s W); congruence). subst s'.
    unfold ans, rrs_of. now apply in_map.
  - destruct Hne as [d [r Hd]].
    assert (Ha : In (RR q (rs_type s) d) ans) by (unfold ans, rrs_of; rewrite Hd; now left).
    pose proof (Hsub _ Ha) as He.
    destruct ans; [destruct Ha|]. destruct eans; [destruct He|]. reflexivity.
Qed.

Lemma cuts_sub z o q t : cuts_on_path z o q 255 = [] -> cuts_on_path z o q t = [].
Proof.
  rewrite !cuts_on_path_filter. intros H.
  destruct (filter (cutp z o q t) (rev (suffixes q))) as [|c r] eqn:E; [reflexivity|].
  assert (Hin : In c (filter (cutp z o q t) (rev (suffixes q)))) by (rewrite E; now left).
  apply filter_In in Hin. destruct Hin as [Hi Hp].
  assert (In c (filter (cutp z o q 255) (rev (suffixes q)))).
  { apply filter_In. split; [exact Hi|]. unfold cutp in Hp |- *.
    apply andb_true_iff in Hp. destruct Hp as [Hp _]. rewrite Hp. reflexivity. }
  rewrite H in H0. destruct H0.
Qed.

Lemma replace_any_nodata z q : has_data z q = false -> replace_any z q = 1.
Proof.
  intros H. unfold replace_any.
  assert (E : at_name z q = []).
  { destruct (at_name z q) as [|s r] eqn:E; [reflexivity|].
    assert (Hin : In s (at_name z q)) by (rewrite E; now left). apply in_at_name in Hin.
    destruct Hin as [Hi Hn]. exfalso. eapply has_data_false; eauto. }
  now rewrite E.
Qed.

Lemma replace_any_in z q : has_data z q = true ->
  exists s, In s z /\ rs_name s = q /\ rs_type s = replace_any z q.
Proof.
  intros H. unfold replace_any.
  destruct (find any_pref (map rs_type (at_name z q))) as [t|] eqn:E.
  - apply find_some in E. destruct E as [Hi _]. apply in_map_iff in Hi.
    destruct Hi as [s [Ts Hs]]. apply in_at_name in Hs. exists s. tauto.
  - destruct (at_name z q) as [|s r] eqn:Ea.
    + apply has_data_true in H. destruct H as [s [Hi Hn]].
      assert (In s (at_name z q)) by (apply in_at_name; auto). rewrite Ea in H. destruct H.
    + assert (Hin : In s (at_name z q)) by (rewrite Ea; now left). apply in_at_name in Hin.
      exists s. cbn [map]. tauto.
Qed.
