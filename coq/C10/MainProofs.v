(* C10 — the guarded refinement theorem: outside the known-deviation classes the model's reply
   is acceptable for the RFC expectation. *)
From HV Require Import Lib.Base C10.Model C10.NameProofs C10.StepProofs C10.ChainProofs C10.RespProofs.
Open Scope N_scope.

(* ---------------------------------------------------------------- shapes of lookup / respond *)

Lemma lookup_some z o q t sm : t <> 255 -> inner_lookup z q t = Some sm ->
  exists adds, lookup z o q t = LOk (mtail z t 7 sm [q]) adds.
Proof.
  intros Ht H. apply N.eqb_neq in Ht. unfold lookup, mtail. rewrite Ht, H.
  destruct ((rs_type sm =? 5) && negb (t =? 5)); eauto.
Qed.

Lemma lookup_any z o q sm : inner_lookup z q (replace_any z q) = Some sm ->
  (rs_type sm =? 5) && negb (replace_any z q =? 5) = false ->
  exists adds, lookup z o q 255 = LOk [sm] adds.
Proof. intros H C. unfold lookup. cbn [N.eqb]. rewrite N.eqb_refl, H, C. eauto. Qed.

Lemma mtail_cons z t c sm seen : exists rest, mtail z t c sm seen = sm :: rest.
Proof. unfold mtail. destruct ((rs_type sm =? 5) && negb (t =? 5)); eauto. Qed.

Lemma judge_positive z o q t sm rest adds : wf z o -> is_under q o = true ->
  lookup z o q t = LOk (sm :: rest) adds -> rs_data sm <> [] -> rs_type sm = 5 \/ rs_type sm = t ->
  judge z o (good [] (sm :: rest)) (respond z o q t) = true.
Proof.
  intros W U L Hd Ht. unfold respond. rewrite U, L. cbn [negb].
  assert (Er : exists x r', recs (sm :: rest) = RR (rs_name sm) (rs_type sm) x :: r').
  { rewrite recs_cons. unfold rrs_of. destruct (rs_data sm) as [|d r]; [contradiction|]. cbn [map app]. eauto. }
  destruct Er as [x [r' Er]]. unfold good. cbn [app]. rewrite Er.
  assert (R : (rs_type sm =? 2) && negb (t =? 2) && negb (t =? 255) = false).
  { destruct Ht as [Ht|Ht]; rewrite Ht; [reflexivity|]. destruct (t =? 2); reflexivity. }
  rewrite R. unfold judge.
  rewrite N.eqb_refl, same_set_refl. cbn [andb].
  destruct (t =? 6) eqn:E6.
  - rewrite (apex_lookup z o 2 W (or_introl eq_refl)), same_set_refl. now rewrite orb_true_r.
  - reflexivity.
Qed.

Lemma judge_any z o q src s adds : wf z o -> is_under q o = true -> In s z -> rs_name s = src ->
  lookup z o q 255 = LOk [rename q s] adds ->
  judge z o (SExp (Exp 0 ([] ++ flat_map (rrs_of q) (at_name z src)) true AFree)) (respond z o q 255) = true.
Proof.
  intros W U Hs Ns L. unfold respond. rewrite U, L. cbn [negb].
  rewrite recs_one_rename.
  assert (R : forall ty, (ty =? 2) && negb (255 =? 2) && negb (255 =? 255) = false).
  { intros ty. rewrite N.eqb_refl. cbn [negb]. apply andb_false_r. }
  destruct (rrs_of q s) as [|[n ty d] r] eqn:Er.
  - exfalso. destruct (wf_in _ _ W s Hs) as [_ Hd]. unfold rrs_of in Er.
    destruct (rs_data s); [contradiction|discriminate].
  - rewrite R. rewrite <- Er. unfold judge. cbn [app].
    change (255 =? 6) with false. cbv iota.
    pose proof (judge_any_ok z o q src s W Hs Ns) as J. cbv zeta in J. rewrite J. reflexivity.
Qed.

Lemma judge_referral z o q t c : wf z o -> is_under q o = true ->
  cuts_on_path z o q t = [c] -> t <> 2 -> t <> 255 -> (t =? 6) && has_rs z o 2 = false ->
  judge z o (SExp (Exp 0 [] false (AReferral c))) (respond z o q t) = true.
Proof.
  intros W U Hc H2 H255 H6.
  destruct (inner_lookup_onecut z o q t c W Hc) as [ns [IL F]].
  pose proof (find_rs_some _ _ _ _ F) as [Hin [Nn Tn]].
  apply N.eqb_neq in H2. apply N.eqb_neq in H255.
  unfold respond. rewrite U. cbn [negb]. unfold lookup at 1. rewrite H255, IL, Tn. cbn [N.eqb andb].
  change (2 =? 5) with false. cbn [andb]. rewrite recs_cons, Nn. cbn [recs flat_map]. rewrite app_nil_r.
  destruct (wf_in _ _ W ns Hin) as [_ Hd].
  assert (Er : exists x r', rrs_of c ns = RR c 2 x :: r').
  { unfold rrs_of. rewrite Tn. destruct (rs_data ns) as [|d r]; [contradiction|]. cbn [map]. eauto. }
  destruct Er as [x [r' Er]]. rewrite Er. rewrite N.eqb_refl, H2. cbn [negb andb].
  assert (Nsp : (if t =? 6 then answers_of (lookup z o o 2) else []) = []).
  { destruct (t =? 6); [|reflexivity]. cbn [andb] in H6.
    rewrite (apex_lookup z o 2 W (or_introl eq_refl)). unfold rrset_recs.
    apply has_rs_false in H6. now rewrite H6. }
  rewrite Nsp, app_nil_r. unfold judge, rrset_recs. rewrite F, Er.
  rewrite N.eqb_refl, !same_set_refl. reflexivity.
Qed.

(* ---------------------------------------------------------------- first name: positive *)

Lemma first_positive z o q t fk fr src s0 : wf z o -> is_under q o = true -> t <> 255 -> (fk <= fr)%nat ->
  scanres z src t = Some s0 -> inner_lookup z q t = Some (rename q s0) ->
  kfrom (known_walk fk z o t) z o t q [q] 0 src = 0 ->
  judge z o (rfrom (resolve fr z o t) z o t q [q] [] src) (respond z o q t) = true.
Proof.
  intros W U Ht Hf Hs IL K.
  assert (IH : t <> 5 -> forall tg, is_under tg o = true -> known_walk fk z o t tg [tg; q] 1 = 0 ->
          (0 <= 6)%nat /\
          resolve fr z o t tg [tg; q] ([] ++ rrs_of q s0) =
          good ([] ++ rrs_of q s0) (mstep z t (6 - 0) tg [tg; q])).
  { intros Ht5 tg Utg Ktg.
    destruct (later_steps z o t W Ht Ht5 fk fr 1%nat tg [tg; q] ([] ++ rrs_of q s0)) as [_ B]; [lia|exact Hf|exact Ktg|].
    split; [lia|exact B]. }
  rewrite (from_agree _ _ z o t q [q] [] 0%nat src s0 W Ht Hs (Nat.le_0_l 7) IH K).
  change (7 - 0)%nat with 7%nat.
  destruct (lookup_some z o q t (rename q s0) Ht IL) as [adds L].
  destruct (mtail_cons z t 7%nat (rename q s0) [q]) as [rest Em]. rewrite Em in L |- *.
  pose proof (scanres_some _ _ _ _ Hs) as [Hin [_ Ty]].
  apply (judge_positive z o q t _ rest adds W U L).
  - destruct s0 as [n ty d]. cbn. destruct (wf_in _ _ W _ Hin) as [_ Hd]. exact Hd.
  - now rewrite rs_type_rename.
Qed.

(* ---------------------------------------------------------------- the theorem *)

Theorem refines_guarded z o q t : wf z o -> known_class z o q t = 0 ->
  judge z o (spec_answer z o q t) (respond z o q t) = true.
Proof.
  intros W K. unfold known_class in K. unfold spec_answer.
  destruct (is_under q o) eqn:U.
  2: { unfold respond. rewrite U. reflexivity. }
  assert (EF : exists k9 fr, 10%nat = S k9 /\ (10 + length z)%nat = S fr /\ (k9 <= fr)%nat).
  { exists 9%nat, (9 + length z)%nat. repeat split. lia. }
  destruct EF as [k9 [fr [E10 [E10' Hf]]]]. rewrite E10 in K. rewrite E10'. clear E10 E10'.
  cbn [known_walk] in K.
  destruct (cuts_on_path z o q t) as [|c [|c' r]] eqn:Ecuts; [| |discriminate].
  2: { (* exactly one cut: a referral *)
    cbn [resolve]. unfold situation. rewrite Ecuts.
    destruct ((t =? 2) || (t =? 255)) eqn:E; [discriminate|]. apply orb_false_iff in E. destruct E as [E2 E255].
    apply N.eqb_neq in E2. apply N.eqb_neq in E255.
    destruct ((t =? 6) && has_rs z o 2) eqn:E6; [discriminate|].
    now apply judge_referral. }
  (* no cut *)
  destruct (t =? 255) eqn:E255.
  - (* ANY *)
    apply N.eqb_eq in E255. subst t. cbn [N.eqb orb] in K. change (255 =? 255) with true in K. cbn [orb] in K.
    rewrite andb_true_r in K. cbv iota in K.
    destruct (has_data z q) eqn:D.
    + (* a node with data: any of its RRsets *)
      cbn [resolve]. rewrite (situation_nocut z o 255 q Ecuts), D. unfold rfrom. change (255 =? 255) with true. cbv iota.
      destruct (replace_any_in z q D) as [s [Hs [Ns Ts]]].
      pose proof (cuts_sub z o q (replace_any z q) Ecuts) as Ec1.
      pose proof (inner_lookup_nocut z o q (replace_any z q) W Ec1) as IL.
      assert (C : carries z q (replace_any z q) = true).
      { unfold carries. rewrite <- Ns at 1. rewrite <- Ts. now rewrite (has_rs_in z s Hs). }
      rewrite scanres_carries in C.
      destruct (scanres z q (replace_any z q)) as [s'|] eqn:Es; [|discriminate].
      pose proof (scanres_some _ _ _ _ Es) as [Hs' [Ns' Ts']].
      assert (Cond : (rs_type s' =? 5) && negb (replace_any z q =? 5) = false).
      { destruct (rs_type s' =? 5) eqn:E5; [|reflexivity]. apply N.eqb_eq in E5.
        assert (rs_type s = 5) by (apply (wf_cname _ _ W s' s); congruence).
        rewrite <- Ts, H. reflexivity. }
      destruct (lookup_any z o q s' IL Cond) as [adds L].
      rewrite <- (rename_id q s' Ns') in L.
      exact (judge_any z o q q s' adds W U Hs' Ns' L).
    + (* no data at the name: looked up as type A *)
      cbn [andb] in K.
      pose proof (replace_any_nodata z q D) as RA.
      pose proof (cuts_sub z o q 1 Ecuts) as Ec1.
      pose proof (inner_lookup_nocut z o q 1 W Ec1) as IL.
      assert (Sn : scanres z q 1 = None).
      { unfold scanres. destruct (find_rs z q 5) as [x|] eqn:E.
        - apply find_rs_some in E. destruct E as [Hx [Nx _]]. exfalso. eapply has_data_false; eauto.
        - destruct (find_rs z q 1) as [x|] eqn:E1; [|reflexivity].
          apply find_rs_some in E1. destruct E1 as [Hx [Nx _]]. exfalso. eapply has_data_false; eauto. }
      rewrite Sn in IL.
      assert (NEG : negb (name_exists z q) && has_data z (0 :: closest_encloser z o q) = false ->
                    inner_lookup z q 1 = None ->
                    judge z o (resolve (S fr) z o 255 q [q] []) (respond z o q 255) = true).
      { intros Hw Hn. rewrite (spec_negative _ z o 255 q [q] Ecuts (fun _ => D)); [|intros X; now contradiction X|exact Hw].
        rewrite (respond_none z o q 255 U); [apply judge_negative; exact W|].
        change (255 =? 255) with true. cbv iota. now rewrite RA. }
      destruct (is_star q) eqn:St.
      * destruct (negb (name_exists z q) && has_data z (0 :: closest_encloser z o q)) eqn:Hw; [discriminate|].
        now apply NEG.
      * destruct (lowest_carrying z o q 1) as [a|] eqn:El.
        -- destruct (name_exists z q) eqn:Ex; [discriminate|]. cbn [orb] in K.
           destruct (name_eqb a (closest_encloser z o q)) eqn:Ea; [|discriminate]. cbn [negb] in K.
           apply name_eqb_eq in Ea. subst a.
           unfold kfrom in K. change (255 =? 255) with true in K. cbv iota in K. rewrite D in K.
           destruct (has_rs z (0 :: closest_encloser z o q) 5) eqn:H5; [discriminate|].
           assert (Cw : carries z (0 :: closest_encloser z o q) 1 = true).
           { unfold lowest_carrying in El. apply find_some in El. destruct El as [_ El].
             apply andb_true_iff in El. tauto. }
           pose proof (carries_has_data _ _ _ Cw) as Dw.
           cbn [resolve]. rewrite (situation_nocut z o 255 q Ecuts), D, Ex, Dw.
           unfold rfrom. change (255 =? 255) with true. cbv iota.
           rewrite scanres_carries in Cw.
           destruct (scanres z (0 :: closest_encloser z o q) 1) as [s'|] eqn:Es; [|discriminate].
           pose proof (scanres_some _ _ _ _ Es) as [Hs' [Ns' Ts']].
           cbn [option_map] in IL.
           assert (T1 : rs_type s' = 1).
           { destruct Ts' as [T|T]; [|exact T]. exfalso.
             apply has_rs_false in H5. eapply (find_rs_none _ _ _ s' H5); eauto. }
           assert (Cond : (rs_type (rename q s') =? 5) && negb (replace_any z q =? 5) = false).
           { rewrite rs_type_rename, T1. reflexivity. }
           rewrite <- RA in IL at 1.
           destruct (lookup_any z o q (rename q s') IL Cond) as [adds L].
           exact (judge_any z o q _ s' adds W U Hs' Ns' L).
        -- destruct (negb (name_exists z q) && has_data z (0 :: closest_encloser z o q)) eqn:Hw; [discriminate|].
           now apply NEG.
  - (* any other QTYPE *)
    assert (Ht : t <> 255) by now apply N.eqb_neq.
    cbn [orb] in K. cbv iota in K.
    pose proof (inner_lookup_nocut z o q t W Ecuts) as IL.
    assert (NEG : carries z q t = false ->
                  negb (name_exists z q) && has_data z (0 :: closest_encloser z o q) = false ->
                  inner_lookup z q t = None ->
                  judge z o (resolve (S fr) z o t q [q] []) (respond z o q t) = true).
    { intros Hc Hw Hn. rewrite (spec_negative _ z o t q [q] Ecuts); [|intros X; now contradiction Ht|intros _; exact Hc|exact Hw].
      rewrite (respond_none z o q t U); [apply judge_negative; exact W|]. now rewrite E255. }
    destruct (carries z q t) eqn:C.
    + rewrite (carries_has_data _ _ _ C) in K. cbn [andb] in K.
      cbn [resolve]. rewrite (situation_nocut z o t q Ecuts), (carries_has_data _ _ _ C).
      rewrite scanres_carries in C. destruct (scanres z q t) as [s0|] eqn:Es; [|discriminate].
      pose proof (scanres_some _ _ _ _ Es) as [_ [Ns _]].
      apply (first_positive z o q t k9 fr q s0 W U Ht Hf Es); [|exact K].
      now rewrite (rename_id q s0 Ns).
    + rewrite andb_false_r in K.
      pose proof C as C'. rewrite scanres_carries in C'.
      destruct (scanres z q t) as [s0|] eqn:Es; [discriminate|]. clear C'.
      destruct (is_star q) eqn:St.
      * destruct (negb (name_exists z q) && has_data z (0 :: closest_encloser z o q)) eqn:Hw; [discriminate|].
        now apply NEG.
      * destruct (lowest_carrying z o q t) as [a|] eqn:El.
        -- destruct (name_exists z q) eqn:Ex; [discriminate|]. cbn [orb] in K.
           destruct (name_eqb a (closest_encloser z o q)) eqn:Ea; [|discriminate]. cbn [negb] in K.
           apply name_eqb_eq in Ea. subst a.
           assert (D : has_data z q = false).
           { destruct (has_data z q) eqn:D; [|reflexivity]. now rewrite (has_data_exists _ _ D) in Ex. }
           assert (Cw : carries z (0 :: closest_encloser z o q) t = true).
           { unfold lowest_carrying in El. apply find_some in El. destruct El as [_ El].
             apply andb_true_iff in El. tauto. }
           cbn [resolve]. rewrite (situation_nocut z o t q Ecuts), D, Ex, (carries_has_data _ _ _ Cw).
           rewrite scanres_carries in Cw.
           destruct (scanres z (0 :: closest_encloser z o q) t) as [s0|] eqn:Es0; [|discriminate].
           cbn [option_map] in IL.
           exact (first_positive z o q t k9 fr _ s0 W U Ht Hf Es0 IL K).
        -- destruct (negb (name_exists z q) && has_data z (0 :: closest_encloser z o q)) eqn:Hw; [discriminate|].
           now apply NEG.
Qed.
