(* C10 — authoritative lookup: executable model of the anchored code and an independent
   executable specification.  No proofs in this file.

   MODEL (what the code does), hand-written from
     crates/server/src/store/in_memory/inner.rs   inner_lookup, inner_lookup_wildcard,
                                                  chase_cnames, additional_search, replace_any
     crates/server/src/store/in_memory/mod.rs     lookup (CNAME chase, additionals,
                                                  NameExists / NXDomain / Refused)
     crates/server/src/zone_handler/catalog.rs    Catalog::lookup (find -> REFUSED),
                                                  build_authoritative_response
   SPEC (what RFC 1034 §4.3.2 + RFC 4592 + RFC 2308 prescribe), written from the RFCs.

   Data: a name is its list of labels, leftmost first (root = []); label 0 is "*".
   The zone is the list of RRsets in the store's own (BTreeMap<RrKey,_>) order. *)
From HV Require Import Lib.Base.
Open Scope N_scope.

Definition name := list N.
Definition name_eqb : name -> name -> bool := list_eqb N.eqb.

Inductive rdata := RId (n : N) | RNm (t : name) | RSoa.
Inductive rrset := RS (n : name) (t : N) (d : list rdata).
Inductive rr := RR (n : name) (t : N) (d : rdata).
Definition zone := list rrset.

Definition rs_name (s : rrset) := let 'RS n _ _ := s in n.
Definition rs_type (s : rrset) := let 'RS _ t _ := s in t.
Definition rs_data (s : rrset) := let 'RS _ _ d := s in d.

Notation T_A := 1 (only parsing).
Notation T_NS := 2 (only parsing).
Notation T_CNAME := 5 (only parsing).
Notation T_SOA := 6 (only parsing).
Notation T_MX := 15 (only parsing).
Notation T_AAAA := 28 (only parsing).
Notation T_DS := 43 (only parsing).
Notation T_ANY := 255 (only parsing).
Notation L_STAR := 0 (only parsing).

Definition rdata_eqb (a b : rdata) : bool :=
  match a, b with
  | RId x, RId y => x =? y
  | RNm x, RNm y => name_eqb x y
  | RSoa, RSoa => true
  | _, _ => false
  end.
Definition rrset_eqb (a b : rrset) : bool :=
  name_eqb (rs_name a) (rs_name b) && (rs_type a =? rs_type b) && list_eqb rdata_eqb (rs_data a) (rs_data b).
Definition rr_eqb (a b : rr) : bool :=
  let 'RR n t d := a in let 'RR n' t' d' := b in name_eqb n n' && (t =? t') && rdata_eqb d d'.

Definition mem (n : name) (l : list name) : bool := existsb (name_eqb n) l.

(* [anc] is [n] or an ancestor of [n]  (LowerName::zone_of anc n) *)
Fixpoint is_under (n anc : name) : bool :=
  name_eqb n anc || match n with [] => false | _ :: up => is_under up anc end.

Definition find_rs (z : zone) (n : name) (t : N) : option rrset :=
  find (fun s => name_eqb (rs_name s) n && (rs_type s =? t)) z.
Definition has_rs (z : zone) (n : name) (t : N) : bool :=
  match find_rs z n t with Some _ => true | None => false end.
Definition at_name (z : zone) (n : name) : list rrset := filter (fun s => name_eqb (rs_name s) n) z.
Definition has_data (z : zone) (n : name) : bool := existsb (fun s => name_eqb (rs_name s) n) z.
(* the name or something below it owns a record *)
Definition name_exists (z : zone) (n : name) : bool := existsb (fun s => is_under (rs_name s) n) z.

Definition rrs_of (owner : name) (s : rrset) : list rr := map (RR owner (rs_type s)) (rs_data s).
Definition recs (l : list rrset) : list rr := flat_map (fun s => rrs_of (rs_name s) s) l.
(* first record's embedded name: CNAME target / NS nsdname / MX exchange *)
Definition first_target (s : rrset) : option name :=
  match rs_data s with RNm t :: _ => Some t | _ => None end.

(* ================================================================== *)
(* MODEL                                                               *)
(* ================================================================== *)

(* inner_lookup, "Check for delegation": walk from the name to the root.
   NS without SOA = delegation point (returned, except for DS exactly at it);
   NS with SOA = apex (stop). *)
Fixpoint deleg (z : zone) (qn : name) (t : N) (search : name) : option rrset :=
  match search with
  | [] => None
  | _ :: up =>
      match find_rs z search T_NS with
      | Some ns =>
          if has_rs z search T_SOA then None
          else if (t =? T_DS) && name_eqb search qn then deleg z qn t up
          else Some ns
      | None => deleg z qn t up
      end
  end.

(* the range scan over all types at the name: first key (in map order) whose type is the
   queried one or CNAME (ANAME is outside the model) *)
Definition scan (z : zone) (n : name) (t : N) : option rrset :=
  find (fun s => name_eqb (rs_name s) n && ((rs_type s =? t) || (rs_type s =? T_CNAME))) z.

(* inner_lookup on a name for which inner_lookup_wildcard returns None at once *)
Definition lookup_nowild (z : zone) (n : name) (t : N) : option rrset :=
  match deleg z n t n with
  | Some ns => Some ns
  | None => scan z n t
  end.

Definition rename (q : name) (s : rrset) : rrset := RS q (rs_type s) (rs_data s).

(* inner_lookup_wildcard's loop: wildcard = "*" :: base; on a miss continue with the
   parent's wildcard until the parent is the root *)
Fixpoint wloop (z : zone) (q : name) (t : N) (base : name) : option rrset :=
  match lookup_nowild z (L_STAR :: base) t with
  | Some s => Some (rename q s)
  | None => match base with [] => None | _ :: up => wloop z q t up end
  end.

Definition inner_lookup (z : zone) (n : name) (t : N) : option rrset :=
  match lookup_nowild z n t with
  | Some s => Some s
  | None =>
      match n with
      | [] => None                                    (* is_root *)
      | l :: up => if l =? L_STAR then None            (* is_wildcard *)
                   else wloop z n t up
      end
  end.

(* replace_any: first of CNAME/A/AAAA/MX in key order, else the first type, else A *)
Definition any_pref (t : N) : bool := (t =? T_CNAME) || (t =? T_A) || (t =? T_AAAA) || (t =? T_MX).
Definition replace_any (z : zone) (n : name) : N :=
  let ts := map rs_type (at_name z n) in
  match find any_pref ts with
  | Some t => t
  | None => match ts with t :: _ => t | [] => T_A end
  end.

(* chase_cnames: [cap] = how many more RRsets fit under MAX_CNAME_DEPTH = 8; returns what is
   pushed after [last] *)
Fixpoint chase (cap : nat) (z : zone) (t : N) (last : rrset) (seen : list name) : list rrset :=
  match cap with
  | O => []
  | S cap' =>
      match first_target last with
      | None => []
      | Some next =>
          if mem next seen then []
          else match inner_lookup z next t with
               | Some s => if rs_type s =? T_CNAME then s :: chase cap' z t s (next :: seen) else [s]
               | None => []
               end
      end
  end.

(* additional_search for one address type *)
Fixpoint add_loop (fuel : nat) (z : zone) (qt : N) (search : name) (names : list name) (acc : list rrset)
  : list rrset :=
  match fuel with
  | O => acc
  | S f =>
      if mem search names then acc
      else match inner_lookup z search qt with
           | None => acc
           | Some s =>
               let acc' := if existsb (rrset_eqb s) acc then acc else acc ++ [s] in
               if rs_type s =? T_CNAME then
                 match first_target s with
                 | Some n => add_loop f z qt n (search :: names) acc'
                 | None => acc'
                 end
               else acc'
           end
  end.

(* maybe_next_name + additional_search (NS and MX; SRV/ANAME outside the model) *)
Definition additional (z : zone) (t1 : N) (a : option rrset) : list rrset :=
  match a with
  | None => []
  | Some a =>
      if ((rs_type a =? T_NS) && (t1 =? T_NS)) || ((rs_type a =? T_MX) && (t1 =? T_MX)) then
        match first_target a with
        | None => []
        | Some n =>
            let fuel := S (S (length z)) in
            add_loop fuel z T_AAAA n [] (add_loop fuel z T_A n [] [])
        end
      else []
  end.

Inductive lres := LOk (answers adds : list rrset) | LNameExists | LNXDomain | LRefused.

(* InMemoryZoneHandler::lookup *)
Definition lookup (z : zone) (o q : name) (t : N) : lres :=
  let t1 := if t =? T_ANY then replace_any z q else t in
  match inner_lookup z q t1 with
  | Some a =>
      if (rs_type a =? T_CNAME) && negb (t1 =? T_CNAME) then
        let chain := a :: chase 7 z t1 a [q] in
        let l := last chain a in
        let term := if rs_type l =? T_CNAME then None else Some l in
        LOk chain (additional z t1 term)
      else LOk [a] (additional z t1 (Some a))
  | None =>
      if name_exists z q then LNameExists
      else if is_under q o then LNXDomain else LRefused
  end.

Inductive obs := Ob (rcode : N) (aa : bool) (ans auth add : list rr).

Definition answers_of (r : lres) : list rr := match r with LOk a _ => recs a | _ => [] end.

(* Catalog::lookup (single zone: find = origin is a suffix) + build_authoritative_response *)
Definition respond (z : zone) (o q : name) (t : N) : obs :=
  if negb (is_under q o) then Ob 5 false [] [] []
  else
    match lookup z o q t with
    | LRefused => Ob 5 true [] [] []
    | LOk ans adds =>
        let nsp := if t =? T_SOA then answers_of (lookup z o o T_NS) else [] in
        let is_ref := match recs ans with
                      | RR _ ty _ :: _ => (ty =? T_NS) && negb (t =? T_NS) && negb (t =? T_ANY)
                      | [] => false
                      end in
        if is_ref then Ob 0 true [] (recs ans ++ nsp) (recs adds)
        else Ob 0 true (recs ans) nsp (recs adds)
    | LNameExists => Ob 0 true [] (answers_of (lookup z o o T_SOA)) []
    | LNXDomain => Ob 3 true [] (answers_of (lookup z o o T_SOA)) []
    end.

(* ================================================================== *)
(* SPECIFICATION                                                       *)
(* ================================================================== *)

(* the zones the statement is about *)
Fixpoint nodup_keys (z : zone) : bool :=
  match z with
  | [] => true
  | s :: z' => negb (has_rs z' (rs_name s) (rs_type s)) && nodup_keys z'
  end.

Definition wfb (z : zone) (o : name) : bool :=
  has_rs z o T_SOA
  && negb (match o with l :: _ => l =? L_STAR | [] => false end)
  && nodup_keys z
  && forallb (fun s => is_under (rs_name s) o && negb (match rs_data s with [] => true | _ => false end)) z
  && forallb (fun s => negb (rs_type s =? T_SOA) || name_eqb (rs_name s) o) z
  && forallb (fun s => negb (rs_type s =? T_CNAME)
                       || forallb (fun s' => negb (name_eqb (rs_name s') (rs_name s)) || (rs_type s' =? T_CNAME)) z) z
  && forallb (fun s => negb ((rs_type s =? T_NS) && match rs_name s with l :: _ => l =? L_STAR | [] => false end)) z.

Fixpoint suffixes (n : name) : list name :=
  n :: match n with [] => [] | _ :: up => suffixes up end.

Definition strictly_under (n o : name) : bool := is_under n o && negb (name_eqb n o).

(* zone cuts on the way from the apex down to [q], top first (RFC 1034 §4.3.2 step 3b);
   for DS the cut at the name itself does not count (RFC 4035 §3.1.4.1: DS lives in the parent) *)
Definition cuts_on_path (z : zone) (o q : name) (t : N) : list name :=
  filter (fun n => strictly_under n o && has_rs z n T_NS && negb ((t =? T_DS) && name_eqb n q))
         (rev (suffixes q)).

(* closest encloser: the longest existing proper ancestor (RFC 4592 §3.3.1) *)
Definition closest_encloser (z : zone) (o q : name) : name :=
  match find (name_exists z) (tl (suffixes q)) with Some n => n | None => o end.

Inductive sit :=
| SReferral (cut : name)
| SNoData
| SNXDomain
| SSource (src : name).     (* the node itself, or the wildcard at the closest encloser *)

Definition situation (z : zone) (o : name) (t : N) (cur : name) : sit :=
  match cuts_on_path z o cur t with
  | cut :: _ => SReferral cut
  | [] =>
      if has_data z cur then SSource cur
      else if name_exists z cur then SNoData              (* empty non-terminal *)
      else let w := L_STAR :: closest_encloser z o cur in
           if has_data z w then SSource w else SNXDomain
  end.

Inductive sauth := AFree | ASoa | AReferral (cut : name).
(* [any]: whole RRsets out of [ans], at least one (RFC 8482 allows a subset for ANY) *)
Inductive expect := Exp (rcode : N) (ans : list rr) (any : bool) (auth : sauth).
Inductive spec_res := SRefused | SOutOfFuel | SExp (e : expect).

(* the answer from the source node [src] for the name [cur]; [k] continues at a CNAME target *)
Definition rfrom (k : name -> list name -> list rr -> spec_res)
  (z : zone) (o : name) (t : N) (cur : name) (seen : list name) (acc : list rr) (src : name) : spec_res :=
  if t =? T_ANY then SExp (Exp 0 (acc ++ flat_map (rrs_of cur) (at_name z src)) true AFree)
  else
    match (if t =? T_CNAME then None else find_rs z src T_CNAME) with
    | Some c =>
        let acc' := acc ++ rrs_of cur c in
        match first_target c with
        | None => SExp (Exp 0 acc' false AFree)
        | Some target =>
            if negb (is_under target o) || mem target seen then SExp (Exp 0 acc' false AFree)
            else k target (target :: seen) acc'
        end
    | None =>
        match find_rs z src t with
        | Some s => SExp (Exp 0 (acc ++ rrs_of cur s) false AFree)
        | None => SExp (Exp 0 acc false ASoa)
        end
    end.

Fixpoint resolve (fuel : nat) (z : zone) (o : name) (t : N) (cur : name) (seen : list name) (acc : list rr)
  : spec_res :=
  match fuel with
  | O => SOutOfFuel
  | S f =>
      match situation z o t cur with
      | SReferral cut => SExp (Exp 0 acc false (AReferral cut))
      | SNoData => SExp (Exp 0 acc false ASoa)
      | SNXDomain => SExp (Exp 3 acc false ASoa)
      | SSource src => rfrom (resolve f z o t) z o t cur seen acc src
      end
  end.

Definition spec_answer (z : zone) (o q : name) (t : N) : spec_res :=
  if is_under q o then resolve (10 + length z) z o t q [q] [] else SRefused.

(* --- is an observed reply acceptable for the expectation? *)
Definition subset (a b : list rr) : bool := forallb (fun x => existsb (rr_eqb x) b) a.
(* equal as sets, and no record repeated on one side only *)
Definition same_set (a b : list rr) : bool := (length a =? length b)%nat && subset a b && subset b a.
Definition rr_key_eqb (a b : rr) : bool :=
  let 'RR n t _ := a in let 'RR n' t' _ := b in name_eqb n n' && (t =? t').
Definition is_nil {A} (l : list A) : bool := match l with [] => true | _ => false end.

Definition rrset_recs (z : zone) (n : name) (t : N) : list rr :=
  match find_rs z n t with Some s => rrs_of n s | None => [] end.

Definition judge (z : zone) (o : name) (e : spec_res) (ob : obs) : bool :=
  let 'Ob rcode aa ans auth _ := ob in
  match e with
  | SOutOfFuel => false
  | SRefused => (rcode =? 5) && is_nil ans && is_nil auth
  | SExp (Exp erc eans any eauth) =>
      (rcode =? erc)
      && (if any then
            subset ans eans
            && forallb (fun x => existsb (rr_eqb x) ans || negb (existsb (rr_key_eqb x) ans)) eans
            && Bool.eqb (is_nil eans) (is_nil ans)
          else same_set ans eans)
      && match eauth with
         | AFree => is_nil auth || same_set auth (rrset_recs z o T_NS)
         | ASoa => same_set auth (rrset_recs z o T_SOA)
         | AReferral c => same_set auth (rrset_recs z c T_NS)
         end
      (* answers from the zone's own data are authoritative (a referral is accepted either way) *)
      && match eauth with AReferral _ => true | _ => aa end
  end.

(* ================================================================== *)
(* KNOWN DEVIATION CLASSES (predicates on zone and query only)         *)
(* ================================================================== *)

Notation K_NONE := 0 (only parsing).
Notation K_NESTED := 1 (only parsing).      (* two zone cuts on the path: the code answers with the lower one *)
Notation K_NSANY := 2 (only parsing).       (* QTYPE NS/ANY at or below a cut: NS set in the answer section *)
Notation K_WILD := 3 (only parsing).        (* wildcard handling differs from RFC 4592 (see below) *)
Notation K_CNAME_CUT := 4 (only parsing).   (* CNAME chain enters a delegation: NS set in the answer section *)
Notation K_CNAME_NEG := 5 (only parsing).   (* CNAME chain ends at an in-zone name without the data: no SOA / NOERROR *)
Notation K_LONG := 6 (only parsing).        (* more than 8 RRsets in the chain *)
Notation K_ANYWILD := 7 (only parsing).     (* ANY synthesised from a wildcard CNAME is chased as type A *)
Notation K_SOAREF := 8 (only parsing).      (* QTYPE SOA at or below a cut: the apex NS set is appended to the referral *)

Definition is_star (n : name) : bool := match n with l :: _ => l =? L_STAR | [] => false end.
Definition carries (z : zone) (n : name) (t : N) : bool := has_rs z n t || has_rs z n T_CNAME.
(* lowest proper ancestor inside the zone whose wildcard child owns type [t] or a CNAME *)
Definition lowest_carrying (z : zone) (o cur : name) (t : N) : option name :=
  find (fun a => is_under a o && carries z (L_STAR :: a) t) (tl (suffixes cur)).

Definition kfin (n : nat) : N := if (8 <? n)%nat then K_LONG else K_NONE.

(* class when the RFC answers [cur] from the source node [src]; [n] = RRsets accumulated so far *)
Definition kfrom (k : name -> list name -> nat -> N)
  (z : zone) (o : name) (t : N) (cur : name) (seen : list name) (n : nat) (src : name) : N :=
  if t =? T_ANY then
    (if has_data z cur then K_NONE else if has_rs z src T_CNAME then K_ANYWILD else K_NONE)
  else
    match (if t =? T_CNAME then None else find_rs z src T_CNAME) with
    | Some c =>
        match first_target c with
        | None => kfin (S n)
        | Some target =>
            if negb (is_under target o) || mem target seen then kfin (S n)
            else k target (target :: seen) (S n)
        end
    | None => kfin (S n)
    end.

(* walks the chain the RFC prescribes; [n] = RRsets accumulated so far *)
Fixpoint known_walk (fuel : nat) (z : zone) (o : name) (t : N) (cur : name) (seen : list name) (n : nat) : N :=
  match fuel with
  | O => K_LONG
  | S f =>
      let first := match n with O => true | _ => false end in
      match cuts_on_path z o cur t with
      | _ :: _ :: _ => K_NESTED
      | [_] => if first then (if (t =? T_NS) || (t =? T_ANY) then K_NSANY
                              else if (t =? T_SOA) && has_rs z o T_NS then K_SOAREF else K_NONE)
               else K_CNAME_CUT
      | [] =>
          let ex := name_exists z cur in
          let ce := closest_encloser z o cur in
          let neg := if first then K_NONE else K_CNAME_NEG in
          if has_data z cur && ((t =? T_ANY) || carries z cur t) then kfrom (known_walk f z o t) z o t cur seen n cur
          else
            let t' := if t =? T_ANY then T_A else t in
            if is_star cur then
              (if negb ex && has_data z (L_STAR :: ce) then K_WILD else neg)
            else
              match lowest_carrying z o cur t' with
              | Some a => if ex || negb (name_eqb a ce) then K_WILD
                          else kfrom (known_walk f z o t) z o t cur seen n (L_STAR :: a)
              | None => if negb ex && has_data z (L_STAR :: ce) then K_WILD else neg
              end
      end
  end.

Definition known_class (z : zone) (o q : name) (t : N) : N :=
  if is_under q o then known_walk 10 z o t q [q] O else K_NONE.
