(* C10 — basic facts: names, suffix order, zone lookups, well-formed zones. *)
From HV Require Import Lib.Base C10.Model.
Open Scope N_scope.

(* ---------------------------------------------------------------- names *)

Lemma name_eqb_eq a b : name_eqb a b = true <-> a = b.
Proof. apply list_eqb_eq. intros; apply N.eqb_eq. Qed.

Lemma name_eqb_refl a : name_eqb a a = true.
Proof. now apply name_eqb_eq. Qed.

Lemma name_eqb_neq a b : name_eqb a b = false <-> a <> b.
Proof.
  split.
  - intros H E. apply name_eqb_eq in E. congruence.
  - intros H. destruct (name_eqb a b) eqn:E; [apply name_eqb_eq in E; contradiction|reflexivity].
Qed.

Lemma name_eqb_sym a b : name_eqb a b = name_eqb b a.
Proof.
  destruct (name_eqb a b) eqn:E.
  - apply name_eqb_eq in E. subst. now rewrite name_eqb_refl.
  - apply name_eqb_neq in E. symmetry. apply name_eqb_neq. congruence.
Qed.

Lemma rdata_eqb_eq a b : rdata_eqb a b = true <-> a = b.
Proof.
  destruct a, b; cbn [rdata_eqb]; try (split; congruence).
  - rewrite N.eqb_eq. split; congruence.
  - rewrite name_eqb_eq. split; congruence.
Qed.

Lemma rr_eqb_eq a b : rr_eqb a b = true <-> a = b.
Proof.
  destruct a as [n t d], b as [n' t' d']. cbn [rr_eqb].
  rewrite !andb_true_iff, name_eqb_eq, N.eqb_eq, rdata_eqb_eq.
  split; [intros [[-> ->] ->]; reflexivity|intros E; inversion E; auto].
Qed.

Lemma rr_eqb_refl a : rr_eqb a a = true.
Proof. now apply rr_eqb_eq. Qed.

Lemma is_under_refl n : is_under n n = true.
Proof. destruct n; cbn [is_under]; now rewrite name_eqb_refl. Qed.

Lemma is_under_spec n anc : is_under n anc = true <-> exists p, n = p ++ anc.
Proof.
  induction n as [|l n IH]; cbn [is_under].
  - rewrite orb_false_r, name_eqb_eq. split.
    + intros <-. now exists [].
    + intros [p E]. symmetry in E. apply app_eq_nil in E. now destruct E.
  - rewrite orb_true_iff, name_eqb_eq, IH. split.
    + intros [<-|[p ->]]; [now exists []|now exists (l :: p)].
    + intros [[|x p] E]; cbn in E; [left; congruence|right; exists p; congruence].
Qed.

Lemma is_under_length n anc : is_under n anc = true -> (length anc <= length n)%nat.
Proof. intros H. apply is_under_spec in H. destruct H as [p ->]. rewrite app_length. lia. Qed.

Lemma is_under_cons l n anc : is_under n anc = true -> is_under (l :: n) anc = true.
Proof. intros H. cbn [is_under]. rewrite H. apply orb_true_r. Qed.

Lemma is_under_trans a b c : is_under a b = true -> is_under b c = true -> is_under a c = true.
Proof.
  rewrite !is_under_spec. intros [p ->] [p' ->]. exists (p ++ p'). now rewrite app_assoc.
Qed.

Lemma is_under_antisym a b : is_under a b = true -> is_under b a = true -> a = b.
Proof.
  intros H1 H2. pose proof (is_under_length _ _ H1). pose proof (is_under_length _ _ H2).
  apply is_under_spec in H1. destruct H1 as [p ->]. rewrite app_length in *.
  destruct p; [reflexivity|cbn in *; lia].
Qed.

Lemma is_under_tl l n anc : is_under (l :: n) anc = true -> (l :: n) <> anc -> is_under n anc = true.
Proof.
  cbn [is_under]. rewrite orb_true_iff, name_eqb_eq. intros [E|H] NE; [contradiction|exact H].
Qed.

Lemma is_under_nil n : is_under n [] = true.
Proof. apply is_under_spec. exists n. now rewrite app_nil_r. Qed.

(* a proper ancestor is not below its descendant *)
Lemma not_under_shorter n anc : (length n < length anc)%nat -> is_under n anc = false.
Proof.
  intros H. destruct (is_under n anc) eqn:E; [|reflexivity].
  apply is_under_length in E. lia.
Qed.

Lemma is_under_cons_inv l n anc :
  is_under (l :: n) anc = true -> is_under n anc = false -> anc = l :: n.
Proof.
  cbn [is_under]. rewrite orb_true_iff, name_eqb_eq. intros [E|H] F; [now symmetry|congruence].
Qed.

Lemma in_suffixes a n : In a (suffixes n) <-> is_under n a = true.
Proof.
  induction n as [|l n IH]; cbn [suffixes is_under In].
  - rewrite orb_false_r, name_eqb_eq. split; [intros [E|[]]; now symmetry|intros ->; now left].
  - rewrite orb_true_iff, name_eqb_eq, IH. split; (intros [E|H]; [left; now symmetry|now right]).
Qed.

Lemma suffixes_cons l n : suffixes (l :: n) = (l :: n) :: suffixes n.
Proof. reflexivity. Qed.

Lemma suffixes_hd n : exists r, suffixes n = n :: r.
Proof. destruct n; cbn [suffixes]; eauto. Qed.

Lemma tl_suffixes_cons l n : tl (suffixes (l :: n)) = suffixes n.
Proof. reflexivity. Qed.

Lemma mem_true n l : mem n l = true <-> In n l.
Proof.
  unfold mem. rewrite existsb_exists. split.
  - intros [x [Hi E]]. apply name_eqb_eq in E. now subst.
  - intros H. exists n. split; [exact H|apply name_eqb_refl].
Qed.

(* ---------------------------------------------------------------- zone lookups *)

Lemma find_rs_some z n t s : find_rs z n t = Some s -> In s z /\ rs_name s = n /\ rs_type s = t.
Proof.
  unfold find_rs. intros H. apply find_some in H. destruct H as [Hi H].
  apply andb_true_iff in H. destruct H as [H1 H2].
  apply name_eqb_eq in H1. apply N.eqb_eq in H2. auto.
Qed.

Lemma find_rs_none z n t s : find_rs z n t = None -> In s z -> rs_name s = n -> rs_type s <> t.
Proof.
  unfold find_rs. intros H Hi Hn Ht.
  pose proof (find_none _ _ H _ Hi) as F. cbn beta in F.
  rewrite Hn, name_eqb_refl, Ht, N.eqb_refl in F. discriminate.
Qed.

Lemma has_rs_true z n t : has_rs z n t = true <-> exists s, find_rs z n t = Some s.
Proof. unfold has_rs. destruct (find_rs z n t); split; eauto; try discriminate. intros [s H]; discriminate. Qed.

Lemma has_rs_false z n t : has_rs z n t = false <-> find_rs z n t = None.
Proof. unfold has_rs. destruct (find_rs z n t); split; congruence. Qed.

Lemma has_rs_in z s : In s z -> has_rs z (rs_name s) (rs_type s) = true.
Proof.
  intros Hi. unfold has_rs. destruct (find_rs z (rs_name s) (rs_type s)) eqn:E; [reflexivity|].
  exfalso. eapply find_rs_none; eauto.
Qed.

Lemma has_data_true z n : has_data z n = true <-> exists s, In s z /\ rs_name s = n.
Proof.
  unfold has_data. rewrite existsb_exists. split; intros [s [Hi H]]; exists s; split; auto.
  - now apply name_eqb_eq.
  - now apply name_eqb_eq.
Qed.

Lemma has_data_false z n s : has_data z n = false -> In s z -> rs_name s <> n.
Proof.
  intros H Hi E. assert (has_data z n = true) by (apply has_data_true; eauto). congruence.
Qed.

Lemma has_rs_has_data z n t : has_rs z n t = true -> has_data z n = true.
Proof.
  intros H. apply has_rs_true in H. destruct H as [s H]. apply find_rs_some in H.
  apply has_data_true. exists s. tauto.
Qed.

Lemma name_exists_true z n : name_exists z n = true <-> exists s, In s z /\ is_under (rs_name s) n = true.
Proof. unfold name_exists. now rewrite existsb_exists. Qed.

Lemma has_data_exists z n : has_data z n = true -> name_exists z n = true.
Proof.
  intros H. apply has_data_true in H. destruct H as [s [Hi <-]].
  apply name_exists_true. exists s. split; [exact Hi|apply is_under_refl].
Qed.

Lemma in_at_name z n s : In s (at_name z n) <-> In s z /\ rs_name s = n.
Proof. unfold at_name. rewrite filter_In, name_eqb_eq. tauto. Qed.

(* ---------------------------------------------------------------- well-formed zones *)

Lemma forallb_in {A} (f : A -> bool) (l : list A) : forallb f l = true -> forall x, In x l -> f x = true.
Proof. intros H. now apply forallb_forall. Qed.

Record wf (z : zone) (o : name) : Prop := {
  wf_soa : has_rs z o 6 = true;
  wf_nostar : is_star o = false;
  wf_nodup : nodup_keys z = true;
  wf_in : forall s, In s z -> is_under (rs_name s) o = true /\ rs_data s <> [];
  wf_soa_apex : forall s, In s z -> rs_type s = 6 -> rs_name s = o;
  wf_cname : forall s s', In s z -> In s' z -> rs_type s = 5 -> rs_name s' = rs_name s -> rs_type s' = 5;
  wf_starns : forall s, In s z -> rs_type s = 2 -> is_star (rs_name s) = false
}.

Lemma wfb_wf z o : wfb z o = true -> wf z o.
Proof.
  unfold wfb. rewrite !andb_true_iff. intros [[[[[[H1 H2] H3] H4] H5] H6] H7].
  pose proof (forallb_in _ _ H4) as G4. pose proof (forallb_in _ _ H5) as G5.
  pose proof (forallb_in _ _ H6) as G6. pose proof (forallb_in _ _ H7) as G7.
  clear H4 H5 H6 H7.
  constructor.
  - exact H1.
  - unfold is_star. now apply negb_true_iff in H2.
  - exact H3.
  - intros s Hi. pose proof (G4 s Hi) as H4. cbn beta in H4. apply andb_true_iff in H4. destruct H4 as [Ha Hb].
    split; [exact Ha|]. destruct (rs_data s); [discriminate|discriminate].
  - intros s Hi Ht. pose proof (G5 s Hi) as H5. cbn beta in H5. rewrite Ht in H5. cbn in H5. now apply name_eqb_eq.
  - intros s s' Hi Hi' Ht Hn. pose proof (G6 s Hi) as H6. cbn beta in H6. rewrite Ht in H6. cbn in H6.
    pose proof (forallb_in _ _ H6 s' Hi') as H6'. clear H6. rename H6' into H6. cbn beta in H6. rewrite Hn, name_eqb_refl in H6.
    cbn in H6. now apply N.eqb_eq.
  - intros s Hi Ht. pose proof (G7 s Hi) as H7. cbn beta in H7. rewrite Ht in H7. cbn in H7.
    unfold is_star. destruct (rs_name s) as [|l r]; [reflexivity|]. now apply negb_true_iff in H7.
Qed.

(* unique keys: an RRset found by key is the one in the list *)
Lemma nodup_find z : nodup_keys z = true ->
  forall s, In s z -> find_rs z (rs_name s) (rs_type s) = Some s.
Proof.
  induction z as [|x z IH]; intros Hn s Hi; [destruct Hi|].
  cbn [nodup_keys] in Hn. apply andb_true_iff in Hn. destruct Hn as [Hx Hz].
  apply negb_true_iff in Hx. unfold find_rs. cbn [find].
  destruct Hi as [->|Hi].
  - now rewrite name_eqb_refl, N.eqb_refl.
  - destruct (name_eqb (rs_name x) (rs_name s) && (rs_type x =? rs_type s)) eqn:E.
    + apply andb_true_iff in E. destruct E as [E1 E2]. apply name_eqb_eq in E1. apply N.eqb_eq in E2.
      rewrite E1, E2 in Hx. rewrite (has_rs_in z s Hi) in Hx. discriminate.
    + apply IH; assumption.
Qed.

Lemma wf_find_unique z o s s' : wf z o -> In s z -> In s' z ->
  rs_name s = rs_name s' -> rs_type s = rs_type s' -> s = s'.
Proof.
  intros W Hi Hi' Hn Ht.
  pose proof (nodup_find z (wf_nodup _ _ W) s Hi) as F1.
  pose proof (nodup_find z (wf_nodup _ _ W) s' Hi') as F2.
  rewrite Hn, Ht in F1. congruence.
Qed.

(* nothing lives outside the zone *)
Lemma wf_outside z o n : wf z o -> is_under n o = false -> has_data z n = false.
Proof.
  intros W H. destruct (has_data z n) eqn:E; [|reflexivity].
  apply has_data_true in E. destruct E as [s [Hi <-]].
  destruct (wf_in _ _ W s Hi) as [U _]. congruence.
Qed.

Lemma wf_outside_rs z o n t : wf z o -> is_under n o = false -> find_rs z n t = None.
Proof.
  intros W H. destruct (find_rs z n t) eqn:E; [|reflexivity].
  apply find_rs_some in E. destruct E as [Hi [Hn _]].
  destruct (wf_in _ _ W r Hi) as [U _]. congruence.
Qed.

Lemma wf_no_soa z o n : wf z o -> n <> o -> has_rs z n 6 = false.
Proof.
  intros W H. apply has_rs_false. destruct (find_rs z n 6) eqn:E; [|reflexivity].
  apply find_rs_some in E. destruct E as [Hi [Hn Ht]].
  pose proof (wf_soa_apex _ _ W r Hi Ht). congruence.
Qed.

Lemma wf_apex_exists z o : wf z o -> has_data z o = true.
Proof. intros W. eapply has_rs_has_data. apply (wf_soa _ _ W). Qed.
