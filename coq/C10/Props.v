(* C10 — property theorems.  Statements only; proofs are in NameProofs / StepProofs /
   ChainProofs / RespProofs / MainProofs / SafetyProofs.

   Reading guide.  [respond z o q t] is the model of what the server sends for QNAME q,
   QTYPE t over the zone z with apex o (Catalog::lookup -> InMemoryZoneHandler::lookup ->
   inner_lookup / wildcard walk / chase_cnames -> build_authoritative_response).
   [spec_answer z o q t] is what RFC 1034 §4.3.2 + RFC 4592 + RFC 2308 prescribe, written
   independently of the code; [judge] says whether a reply is acceptable for it (answer set
   exact, or whole RRsets for ANY; authority = the referral's NS set / the apex SOA / nothing or
   the apex NS set).  [known_class z o q t] names the known-deviation class of a query, a
   decidable predicate on zone and query only (0 = none).  [wfb] describes the zones of the
   statement (SOA exactly at the apex, all owners inside the zone, unique (name,type) keys,
   CNAME alone at its node, no NS at a wildcard owner, apex not a wildcard name).

   The faithful model does NOT satisfy the statement for all inputs: eight refutation
   theorems give a witness per class (each replayed on the real server by the harness corpus),
   and the guarded theorem covers every other zone and query.  Unsigned zones only: the DNSSEC
   sentence of the statement (RRSIGs / denial proofs under DO) is not modelled here. *)
From HV Require Import Lib.Base C10.Model C10.NameProofs C10.StepProofs C10.ChainProofs
  C10.RespProofs C10.MainProofs C10.SafetyProofs C10.SpecProofs.
Open Scope N_scope.

(* ------------------------------------------------------------------ the main theorem *)

(* For every well-formed zone, every query name and every query type: unless the query is in
   one of the eight known-deviation classes, the reply of the model is exactly what the RFC
   algorithm prescribes (exact match / CNAME chased in the zone / referral at the cut /
   synthesis from the closest encloser's wildcard / NODATA incl. empty non-terminals /
   NXDOMAIN, SOA in authority on negatives; REFUSED outside the zone). *)
Theorem C10_refines_rfc_guarded : forall z o q t,
  wfb z o = true -> known_class z o q t = 0 ->
  judge z o (spec_answer z o q t) (respond z o q t) = true.
Proof. intros z o q t W K. apply refines_guarded; [now apply wfb_wf|exact K]. Qed.
Print Assumptions C10_refines_rfc_guarded.

(* zones used by the examples and witnesses (labels: 0 "*", 1..7 "a".."g", 8 "other", 9 "example") *)
Definition z4592 : zone :=      (* the example zone of RFC 4592 §2.2.1 *)
  [RS [9] 2 [RNm [1;8]; RNm [2;8]]; RS [9] 6 [RSoa]; RS [0;9] 15 [RNm [1;9]]; RS [0;9] 16 [RId 1];
   RS [3;0;9] 16 [RId 2]; RS [1;9] 1 [RId 1]; RS [5;4;1;9] 16 [RId 3]; RS [5;4;2;9] 16 [RId 4];
   RS [6;9] 2 [RNm [1;8]; RNm [2;8]]].
Definition zcuts : zone :=
  [RS [9] 2 [RNm [1;8]]; RS [9] 6 [RSoa]; RS [1;9] 5 [RNm [1;3;9]]; RS [2;9] 2 [RNm [1;2;9]];
   RS [2;9] 43 [RId 2]; RS [1;2;9] 1 [RId 1]; RS [3;2;9] 2 [RNm [1;8]]; RS [3;9] 2 [RNm [1;8]];
   RS [4;9] 15 [RNm [1;2;9]]].
Definition zcname : zone :=
  [RS [9] 2 [RNm [1;8]]; RS [9] 6 [RSoa]; RS [1;9] 5 [RNm [2;9]]; RS [2;9] 5 [RNm [3;9]];
   RS [3;9] 1 [RId 1]; RS [0;3;9] 5 [RNm [3;9]]; RS [4;9] 5 [RNm [7;9]]; RS [6;9] 5 [RNm [6;6;9]];
   RS [6;6;9] 5 [RNm [6;9]]].
Definition zlong : zone :=
  [RS [9] 2 [RNm [1;8]]; RS [9] 6 [RSoa];
   RS [1;1;9] 5 [RNm [2;1;9]]; RS [2;1;9] 5 [RNm [3;1;9]]; RS [3;1;9] 5 [RNm [4;1;9]];
   RS [4;1;9] 5 [RNm [5;1;9]]; RS [5;1;9] 5 [RNm [6;1;9]]; RS [6;1;9] 5 [RNm [7;1;9]];
   RS [7;1;9] 5 [RNm [1;2;9]]; RS [1;2;9] 5 [RNm [2;2;9]]; RS [2;2;9] 5 [RNm [3;2;9]];
   RS [3;2;9] 1 [RId 1]].

(* Non-vacuity: the hypotheses hold for non-trivial inputs, and the conclusion then pins the
   reply down: wildcard synthesis, a chased CNAME chain ending in data, a loop, a referral, DS
   at the cut answered from the parent side, an empty non-terminal, NXDOMAIN. *)
Example C10_guarded_examples :
  (wfb z4592 [9] = true /\ known_class z4592 [9] [7;9] 15 = 0 /\
   respond z4592 [9] [7;9] 15 = Ob 0 true [RR [7;9] 15 (RNm [1;9])] [] [RR [1;9] 1 (RId 1)]) /\
  (wfb z4592 [9] = true /\ known_class z4592 [9] [4;1;9] 1 = 0 /\
   respond z4592 [9] [4;1;9] 1 = Ob 0 true [] [RR [9] 6 RSoa] []) /\
  (known_class z4592 [9] [7;4;1;9] 28 = 0 /\
   respond z4592 [9] [7;4;1;9] 28 = Ob 3 true [] [RR [9] 6 RSoa] []) /\
  (wfb zcname [9] = true /\ known_class zcname [9] [1;9] 1 = 0 /\
   respond zcname [9] [1;9] 1 =
     Ob 0 true [RR [1;9] 5 (RNm [2;9]); RR [2;9] 5 (RNm [3;9]); RR [3;9] 1 (RId 1)] [] []) /\
  (known_class zcname [9] [6;9] 1 = 0 /\
   respond zcname [9] [6;9] 1 = Ob 0 true [RR [6;9] 5 (RNm [6;6;9]); RR [6;6;9] 5 (RNm [6;9])] [] []) /\
  (known_class zcname [9] [7;3;9] 1 = 0 /\
   respond zcname [9] [7;3;9] 1 = Ob 0 true [RR [7;3;9] 5 (RNm [3;9]); RR [3;9] 1 (RId 1)] [] []) /\
  (wfb zcuts [9] = true /\ known_class zcuts [9] [1;2;9] 1 = 0 /\
   respond zcuts [9] [1;2;9] 1 = Ob 0 true [] [RR [2;9] 2 (RNm [1;2;9])] []) /\
  (known_class zcuts [9] [2;9] 43 = 0 /\
   respond zcuts [9] [2;9] 43 = Ob 0 true [RR [2;9] 43 (RId 2)] [] []) /\
  (wfb zlong [9] = true /\ known_class zlong [9] [3;1;9] 1 = 0).
Proof. vm_compute. repeat split. Qed.

(* ------------------------------------------------------------------ the unguarded statement is false *)

(* One witness per class: a well-formed zone and a query of that class on which the model's
   reply is NOT acceptable for the RFC expectation.  Each witness is part of the harness corpus
   and is confirmed there on the real server (known_findings.json). *)

(* RFC 4592 §2.2.1 "host1.example MX": the name exists, yet MX is synthesised from *.example *)
Theorem C10_wildcard_rfc4592_refuted :
  exists z o q t, wfb z o = true /\ known_class z o q t = 3 /\
                  judge z o (spec_answer z o q t) (respond z o q t) = false.
Proof. exists z4592, [9], [1;9], 15. vm_compute. repeat split. Qed.
Print Assumptions C10_wildcard_rfc4592_refuted.

(* further members of the same class: synthesis above the closest encloser (ghost.*.example,
   _telnet._tcp.host1.example), NXDOMAIN instead of NODATA (host3.example A), "*"-labelled QNAME *)
Example C10_wildcard_rfc4592_more :
  Forall (fun qt => known_class z4592 [9] (fst qt) (snd qt) = 3 /\
                    judge z4592 [9] (spec_answer z4592 [9] (fst qt) (snd qt)) (respond z4592 [9] (fst qt) (snd qt)) = false)
         [([7;0;9], 15); ([3;0;9], 15); ([7;4;1;9], 16); ([7;9], 1); ([4;1;9], 16); ([0;7;9], 16)].
Proof. repeat constructor; vm_compute; reflexivity. Qed.

(* a delegation below a delegation: the referral names the lower (occluded) cut *)
Theorem C10_nested_cut_refuted :
  exists z o q t, wfb z o = true /\ known_class z o q t = 1 /\
                  judge z o (spec_answer z o q t) (respond z o q t) = false.
Proof. exists zcuts, [9], [7;3;2;9], 1. vm_compute. repeat split. Qed.
Print Assumptions C10_nested_cut_refuted.

(* QTYPE NS at a cut: the child's NS set in the ANSWER section of an authoritative reply *)
Theorem C10_ns_any_at_cut_refuted :
  exists z o q t, wfb z o = true /\ known_class z o q t = 2 /\
                  judge z o (spec_answer z o q t) (respond z o q t) = false.
Proof. exists zcuts, [9], [1;2;9], 2. vm_compute. repeat split. Qed.
Print Assumptions C10_ns_any_at_cut_refuted.

(* a CNAME whose target lies below a cut: the cut's NS set in the ANSWER section *)
Theorem C10_cname_into_delegation_refuted :
  exists z o q t, wfb z o = true /\ known_class z o q t = 4 /\
                  judge z o (spec_answer z o q t) (respond z o q t) = false.
Proof. exists zcuts, [9], [1;9], 1. vm_compute. repeat split. Qed.
Print Assumptions C10_cname_into_delegation_refuted.

(* a CNAME to an in-zone name that does not exist: NOERROR, no SOA (RFC 2308: NXDOMAIN + SOA) *)
Theorem C10_cname_negative_tail_refuted :
  exists z o q t, wfb z o = true /\ known_class z o q t = 5 /\
                  judge z o (spec_answer z o q t) (respond z o q t) = false.
Proof. exists zcname, [9], [4;9], 1. vm_compute. repeat split. Qed.
Print Assumptions C10_cname_negative_tail_refuted.

(* ten RRsets on the chain: cut off after eight *)
Theorem C10_cname_depth_8_refuted :
  exists z o q t, wfb z o = true /\ known_class z o q t = 6 /\
                  judge z o (spec_answer z o q t) (respond z o q t) = false.
Proof. exists zlong, [9], [1;1;9], 1. vm_compute. repeat split. Qed.
Print Assumptions C10_cname_depth_8_refuted.

(* ANY for a name covered by a wildcard CNAME: chased as if the query were for A *)
Theorem C10_any_wildcard_cname_refuted :
  exists z o q t, wfb z o = true /\ known_class z o q t = 7 /\
                  judge z o (spec_answer z o q t) (respond z o q t) = false.
Proof. exists zcname, [9], [7;3;9], 255. vm_compute. repeat split. Qed.
Print Assumptions C10_any_wildcard_cname_refuted.

(* QTYPE SOA below a cut: the apex NS set is appended to the referral *)
Theorem C10_soa_query_below_cut_refuted :
  exists z o q t, wfb z o = true /\ known_class z o q t = 8 /\
                  judge z o (spec_answer z o q t) (respond z o q t) = false.
Proof. exists zcuts, [9], [1;2;9], 6. vm_compute. repeat split. Qed.
Print Assumptions C10_soa_query_below_cut_refuted.

(* ------------------------------------------------------------------ the specification is total *)

(* The reference algorithm always terminates with an expectation (its fuel is never exhausted):
   every zone, every query, no well-formedness needed.  So [judge] in the main theorem is never
   false for lack of an expectation. *)
Theorem C10_spec_total : forall z o q t, spec_answer z o q t <> SOutOfFuel.
Proof. exact spec_total. Qed.
Print Assumptions C10_spec_total.

(* ------------------------------------------------------------------ unconditional facts about the model *)

(* "never data from below a cut", for ALL zones, names and types (no class guard): at or below
   a delegation the lookup returns the NS RRset of a cut on the path and nothing else — glue
   and occluded records are never served as answers (DS exactly at the cut is the parent's). *)
Theorem C10_below_cut_only_ns : forall z o q t,
  wfb z o = true -> cuts_on_path z o q t <> [] ->
  exists c ns, In c (cuts_on_path z o q t) /\ inner_lookup z q t = Some ns /\
               find_rs z c 2 = Some ns /\ rs_type ns = 2 /\ rs_name ns = c.
Proof. intros z o q t W H. apply below_cut_only_ns; [now apply wfb_wf|exact H]. Qed.
Print Assumptions C10_below_cut_only_ns.

Example C10_below_cut_example :
  wfb zcuts [9] = true /\ cuts_on_path zcuts [9] [1;2;9] 1 = [[2;9]] /\
  inner_lookup zcuts [1;2;9] 1 = Some (RS [2;9] 2 [RNm [1;2;9]]).
Proof. vm_compute. repeat split. Qed.

(* NXDOMAIN is returned only for names inside the zone that do not exist — never for a name
   that owns records or has records below it (empty non-terminal). Every zone, no guard. *)
Theorem C10_nxdomain_only_nonexistent : forall z o q t,
  rcode_of (respond z o q t) = 3 -> is_under q o = true /\ name_exists z q = false.
Proof. exact nxdomain_only_nonexistent. Qed.
Print Assumptions C10_nxdomain_only_nonexistent.

Example C10_nxdomain_example :
  rcode_of (respond z4592 [9] [7;4;1;9] 28) = 3 /\ rcode_of (respond z4592 [9] [4;1;9] 28) = 0.
Proof. vm_compute. split; reflexivity. Qed.

(* Every negative answer carries exactly the apex SOA in the authority section and an empty
   answer section; NOERROR iff the name exists. Every well-formed zone, no guard. *)
Theorem C10_negative_carries_soa : forall z o q t,
  wfb z o = true -> is_under q o = true ->
  inner_lookup z q (if t =? 255 then replace_any z q else t) = None ->
  respond z o q t = Ob (if name_exists z q then 0 else 3) true [] (rrset_recs z o 6) [] /\
  rrset_recs z o 6 <> [].
Proof. intros z o q t W. apply negative_carries_soa. now apply wfb_wf. Qed.
Print Assumptions C10_negative_carries_soa.

Example C10_negative_example :
  is_under [4;1;9] [9] = true /\ inner_lookup z4592 [4;1;9] 1 = None /\
  respond z4592 [9] [4;1;9] 1 = Ob 0 true [] [RR [9] 6 RSoa] [].
Proof. vm_compute. repeat split. Qed.

(* The answer section never holds more than MAX_CNAME_DEPTH = 8 RRsets. *)
Theorem C10_answer_chain_bounded : forall z o q t ans adds,
  lookup z o q t = LOk ans adds -> (length ans <= 8)%nat.
Proof. exact answer_chain_bounded. Qed.
Print Assumptions C10_answer_chain_bounded.

Example C10_chain_bound_example :
  exists ans adds, lookup zlong [9] [1;1;9] 1 = LOk ans adds /\ length ans = 8%nat.
Proof. eexists. eexists. vm_compute. split; reflexivity. Qed.
