(* C10 — what inner_lookup computes on a well-formed zone, in terms of the spec's vocabulary
   (cuts on the path, RRsets at a node, lowest wildcard carrying the type). *)
From HV Require Import Lib.Base C10.Model C10.NameProofs.
Open Scope N_scope.

(* ---------------------------------------------------------------- list helpers *)

Lemma find_all_false {A} (p : A -> bool) l : (forall x, In x l -> p x = false) -> find p l = None.
Proof.
  induction l as [|x l IH]; intros H; [reflexivity|]. cbn [find].
  rewrite (H x (or_introl eq_refl)). apply IH. intros y Hy. apply H. now right.
Qed.

Lemma find_ext_in {A} (p p' : A -> bool) l : (forall x, In x l -> p x = p' x) -> find p l = find p' l.
Proof.
  induction l as [|x l IH]; intros H; [reflexivity|]. cbn [find].
  rewrite (H x (or_introl eq_refl)). destruct (p' x); [reflexivity|]. apply IH. intros y Hy. apply H. now right.
Qed.

Lemma find_hd_filter {A} (p : A -> bool) l : find p l = hd_error (filter p l).
Proof. induction l as [|x l IH]; [reflexivity|]. cbn [find filter]. destruct (p x); [reflexivity|exact IH]. Qed.

Lemma filter_rev' {A} (p : A -> bool) l : filter p (rev l) = rev (filter p l).
Proof.
  induction l as [|x l IH]; [reflexivity|]. cbn [rev filter].
  rewrite filter_app, IH. cbn [filter]. destruct (p x); cbn [rev]; [reflexivity|now rewrite app_nil_r].
Qed.

Lemma filter_rev_nil {A} (p : A -> bool) l : filter p (rev l) = [] -> find p l = None.
Proof.
  rewrite filter_rev'. intros H. rewrite find_hd_filter.
  destruct (filter p l) as [|x r]; [reflexivity|]. cbn [rev] in H. now destruct (rev r).
Qed.

Lemma filter_rev_one {A} (p : A -> bool) l c : filter p (rev l) = [c] -> find p l = Some c.
Proof.
  rewrite filter_rev'. intros H. rewrite find_hd_filter.
  assert (E : filter p l = rev [c]) by (rewrite <- H, rev_involutive; reflexivity).
  now rewrite E.
Qed.

(* ---------------------------------------------------------------- delegation walk *)

Definition cutp (z : zone) (o q : name) (t : N) (n : name) : bool :=
  strictly_under n o && has_rs z n 2 && negb ((t =? 43) && name_eqb n q).

Lemma cuts_on_path_filter z o q t : cuts_on_path z o q t = filter (cutp z o q t) (rev (suffixes q)).
Proof. reflexivity. Qed.

Lemma strictly_under_refl o : strictly_under o o = false.
Proof. unfold strictly_under. now rewrite name_eqb_refl, andb_false_r. Qed.

Lemma above_apex_no_cut z o q t up l : o = l :: up -> find (cutp z o q t) (suffixes up) = None.
Proof.
  intros E. apply find_all_false. intros n Hn. apply in_suffixes in Hn.
  unfold cutp, strictly_under. rewrite not_under_shorter; [reflexivity|].
  apply is_under_length in Hn. subst o. cbn [length]. lia.
Qed.

Lemma deleg_find z o q t : wf z o -> forall search,
  deleg z q t search =
  match find (cutp z o q t) (suffixes search) with Some c => find_rs z c 2 | None => None end.
Proof.
  intros W search. induction search as [|l up IH].
  - cbn [deleg suffixes find]. unfold cutp, strictly_under. cbn [is_under].
    destruct (name_eqb [] o); reflexivity.
  - cbn [deleg]. rewrite suffixes_cons. cbn [find].
    destruct (find_rs z (l :: up) 2) as [ns|] eqn:Ens.
    + destruct (has_rs z (l :: up) 6) eqn:Esoa.
      * assert (Eo : l :: up = o).
        { destruct (name_eqb (l :: up) o) eqn:E; [now apply name_eqb_eq|].
          apply name_eqb_neq in E. rewrite (wf_no_soa z o _ W E) in Esoa. discriminate. }
        unfold cutp at 1. rewrite Eo, strictly_under_refl. cbn [andb].
        now rewrite (above_apex_no_cut z o q t up l (eq_sym Eo)).
      * assert (Hu : strictly_under (l :: up) o = true).
        { apply find_rs_some in Ens. destruct Ens as [Hi [Hn _]].
          destruct (wf_in _ _ W ns Hi) as [U _]. rewrite Hn in U.
          unfold strictly_under. rewrite U. cbn [andb]. apply negb_true_iff. apply name_eqb_neq.
          intros E. rewrite E, (wf_soa _ _ W) in Esoa. discriminate. }
        assert (Hns : has_rs z (l :: up) 2 = true) by (apply has_rs_true; eauto).
        unfold cutp at 1. rewrite Hu, Hns. cbn [andb].
        destruct ((t =? 43) && name_eqb (l :: up) q); cbn [negb]; [exact IH|exact (eq_sym Ens)].
    + assert (Hns : has_rs z (l :: up) 2 = false) by now apply has_rs_false.
      unfold cutp at 1. rewrite Hns, andb_false_r. cbn [andb]. exact IH.
Qed.

Lemma deleg_nocut z o q t : wf z o -> cuts_on_path z o q t = [] -> deleg z q t q = None.
Proof.
  intros W H. rewrite (deleg_find z o q t W). rewrite cuts_on_path_filter in H.
  now rewrite (filter_rev_nil _ _ H).
Qed.

Lemma cuts_in z o q t c : In c (cuts_on_path z o q t) ->
  strictly_under c o = true /\ has_rs z c 2 = true /\ is_under q c = true.
Proof.
  rewrite cuts_on_path_filter, filter_In, <- in_rev, in_suffixes. unfold cutp.
  rewrite !andb_true_iff. tauto.
Qed.

Lemma deleg_onecut z o q t c : wf z o -> cuts_on_path z o q t = [c] -> deleg z q t q = find_rs z c 2.
Proof.
  intros W H. rewrite (deleg_find z o q t W). rewrite cuts_on_path_filter in H.
  now rewrite (filter_rev_one _ _ _ H).
Qed.

(* ---------------------------------------------------------------- the range scan *)

Definition scanres (z : zone) (n : name) (t : N) : option rrset :=
  match find_rs z n 5 with Some c => Some c | None => find_rs z n t end.

Lemma scan_sub z o n t : wf z o -> forall l, incl l z ->
  find (fun s => name_eqb (rs_name s) n && ((rs_type s =? t) || (rs_type s =? 5))) l =
  match find (fun s => name_eqb (rs_name s) n && (rs_type s =? 5)) l with
  | Some c => Some c
  | None => find (fun s => name_eqb (rs_name s) n && (rs_type s =? t)) l
  end.
Proof.
  intros W l. induction l as [|x l IH]; intros Hl; [reflexivity|].
  assert (Hl' : incl l z) by (intros y Hy; apply Hl; now right).
  cbn [find]. destruct (name_eqb (rs_name x) n) eqn:En; cbn [andb]; [|now apply IH].
  destruct (rs_type x =? 5) eqn:E5.
  - now rewrite orb_true_r.
  - rewrite orb_false_r. destruct (rs_type x =? t) eqn:Et; [|now apply IH].
    destruct (find (fun s => name_eqb (rs_name s) n && (rs_type s =? 5)) l) as [c|] eqn:Ec; [|reflexivity].
    exfalso. apply find_some in Ec. destruct Ec as [Hc Hp].
    apply andb_true_iff in Hp. destruct Hp as [Hn Ht]. apply name_eqb_eq in Hn, En. apply N.eqb_eq in Ht.
    assert (rs_type x = 5).
    { apply (wf_cname _ _ W c x); [now apply Hl'|apply Hl; now left|exact Ht|congruence]. }
    rewrite H, N.eqb_refl in E5. discriminate.
Qed.

Lemma scan_wf z o n t : wf z o -> scan z n t = scanres z n t.
Proof. intros W. unfold scan, scanres, find_rs. apply (scan_sub z o n t W z). apply incl_refl. Qed.

Lemma scanres_some z n t s : scanres z n t = Some s -> In s z /\ rs_name s = n /\ (rs_type s = 5 \/ rs_type s = t).
Proof.
  unfold scanres. destruct (find_rs z n 5) as [c|] eqn:E5.
  - intros H. inversion H. subst c. apply find_rs_some in E5. tauto.
  - intros H. apply find_rs_some in H. tauto.
Qed.

Lemma scanres_carries z n t : carries z n t = match scanres z n t with Some _ => true | None => false end.
Proof.
  unfold carries, scanres, has_rs. destruct (find_rs z n 5); [now rewrite orb_true_r|].
  now rewrite orb_false_r.
Qed.

(* ---------------------------------------------------------------- the wildcard walk *)

Lemma star_no_ns z o a : wf z o -> find_rs z (0 :: a) 2 = None.
Proof.
  intros W. destruct (find_rs z (0 :: a) 2) as [ns|] eqn:E; [|reflexivity].
  apply find_rs_some in E. destruct E as [Hi [Hn Ht]].
  pose proof (wf_starns _ _ W ns Hi Ht) as S. rewrite Hn in S. cbn in S. discriminate.
Qed.

Lemma lookup_nowild_star z o cur t l a : wf z o -> cur = l :: tl cur ->
  find (cutp z o cur t) (suffixes cur) = None -> In a (suffixes (tl cur)) ->
  lookup_nowild z (0 :: a) t = scanres z (0 :: a) t.
Proof.
  intros W Ecur Hnc Ha. unfold lookup_nowild.
  assert (D : deleg z (0 :: a) t (0 :: a) = None).
  { cbn [deleg]. rewrite (star_no_ns z o a W). rewrite (deleg_find z o (0 :: a) t W a).
    rewrite (find_all_false (cutp z o (0 :: a) t)); [reflexivity|].
    intros n Hn. apply in_suffixes in Hn. apply in_suffixes in Ha.
    assert (Hcn : In n (suffixes cur)).
    { apply in_suffixes. rewrite Ecur. apply is_under_cons. eapply is_under_trans; eassumption. }
    pose proof (find_none _ _ Hnc n Hcn) as F. unfold cutp in F |- *.
    assert (Hne : name_eqb n cur = false).
    { apply name_eqb_neq. intros E. subst n.
      pose proof (is_under_length _ _ Hn). pose proof (is_under_length _ _ Ha).
      rewrite Ecur in H. cbn [length] in H. lia. }
    rewrite Hne, andb_false_r in F. cbn [negb] in F. rewrite andb_true_r in F.
    rewrite F. reflexivity. }
  rewrite D. apply (scan_wf z o _ t W).
Qed.

Definition wcar (z : zone) (t : N) (a : name) : bool := carries z (0 :: a) t.

Lemma wloop_find z o cur t l : wf z o -> cur = l :: tl cur ->
  find (cutp z o cur t) (suffixes cur) = None ->
  forall base, (forall a, In a (suffixes base) -> In a (suffixes (tl cur))) ->
  wloop z cur t base =
  match find (wcar z t) (suffixes base) with
  | Some a => option_map (rename cur) (scanres z (0 :: a) t)
  | None => None
  end.
Proof.
  intros W Ecur Hnc base. induction base as [|b up IH]; intros Hsub.
  - cbn [wloop suffixes find].
    rewrite (lookup_nowild_star z o cur t l [] W Ecur Hnc) by (apply Hsub; now left).
    unfold wcar. rewrite scanres_carries. destruct (scanres z [0] t) eqn:E; cbv iota beta; [rewrite E|]; reflexivity.
  - cbn [wloop]. rewrite suffixes_cons. cbn [find].
    rewrite (lookup_nowild_star z o cur t l (b :: up) W Ecur Hnc) by (apply Hsub; rewrite suffixes_cons; now left).
    unfold wcar at 1. rewrite scanres_carries. destruct (scanres z (0 :: b :: up) t) eqn:E; cbv iota beta; [rewrite E; reflexivity|].
    apply IH. intros a Ha. apply Hsub. rewrite suffixes_cons. now right.
Qed.

Lemma wcar_lowest z o cur t : wf z o ->
  lowest_carrying z o cur t = find (wcar z t) (tl (suffixes cur)).
Proof.
  intros W. unfold lowest_carrying. apply find_ext_in. intros a _. unfold wcar.
  destruct (carries z (0 :: a) t) eqn:C; [|now rewrite andb_false_r].
  rewrite andb_true_r.
  assert (D : has_data z (0 :: a) = true).
  { unfold carries in C. apply orb_true_iff in C. destruct C as [C|C]; eapply has_rs_has_data; exact C. }
  destruct (is_under (0 :: a) o) eqn:U.
  - destruct (is_under a o) eqn:U'; [reflexivity|].
    pose proof (is_under_cons_inv _ _ _ U U') as E. pose proof (wf_nostar _ _ W) as S.
    rewrite E in S. cbn in S. discriminate.
  - rewrite (wf_outside z o _ W U) in D. discriminate.
Qed.

Theorem inner_lookup_nocut z o cur t : wf z o -> cuts_on_path z o cur t = [] ->
  inner_lookup z cur t =
  match scanres z cur t with
  | Some s => Some s
  | None =>
      if is_star cur then None
      else match lowest_carrying z o cur t with
           | Some a => option_map (rename cur) (scanres z (0 :: a) t)
           | None => None
           end
  end.
Proof.
  intros W Hc. unfold inner_lookup, lookup_nowild.
  rewrite (deleg_nocut z o cur t W Hc), (scan_wf z o cur t W).
  destruct (scanres z cur t) as [s|]; [reflexivity|].
  destruct cur as [|l up]; [reflexivity|].
  cbn [is_star]. destruct (l =? 0); [reflexivity|].
  rewrite (wcar_lowest z o (l :: up) t W). rewrite tl_suffixes_cons.
  apply (wloop_find z o (l :: up) t l W eq_refl).
  - rewrite cuts_on_path_filter in Hc. now apply filter_rev_nil.
  - intros a Ha. exact Ha.
Qed.

Theorem inner_lookup_onecut z o cur t c : wf z o -> cuts_on_path z o cur t = [c] ->
  exists ns, inner_lookup z cur t = Some ns /\ find_rs z c 2 = Some ns.
Proof.
  intros W Hc. unfold inner_lookup, lookup_nowild. rewrite (deleg_onecut z o cur t c W Hc).
  assert (Hin : In c (cuts_on_path z o cur t)) by (rewrite Hc; now left).
  apply cuts_in in Hin. destruct Hin as [_ [Hns _]]. apply has_rs_true in Hns. destruct Hns as [ns Hns].
  exists ns. rewrite Hns. auto.
Qed.

(* names outside the zone *)
Lemma cuts_outside z o n t : is_under n o = false -> cuts_on_path z o n t = [].
Proof.
  intros H. destruct (cuts_on_path z o n t) as [|c r] eqn:E; [reflexivity|].
  assert (Hin : In c (cuts_on_path z o n t)) by (rewrite E; now left).
  apply cuts_in in Hin. destruct Hin as [Hs [_ Hu]].
  unfold strictly_under in Hs. apply andb_true_iff in Hs. destruct Hs as [Hs _].
  rewrite (is_under_trans _ _ _ Hu Hs) in H. discriminate.
Qed.

Theorem inner_lookup_outside z o n t : wf z o -> is_under n o = false -> inner_lookup z n t = None.
Proof.
  intros W H. rewrite (inner_lookup_nocut z o n t W (cuts_outside z o n t H)).
  unfold scanres. rewrite !(wf_outside_rs z o n _ W H).
  destruct (is_star n); [reflexivity|].
  unfold lowest_carrying. rewrite find_all_false; [reflexivity|].
  intros a Ha. destruct (is_under a o) eqn:U; [|reflexivity]. exfalso.
  destruct n as [|l up]; [destruct Ha|]. rewrite tl_suffixes_cons in Ha. apply in_suffixes in Ha.
  rewrite (is_under_cons l _ _ (is_under_trans _ _ _ Ha U)) in H. discriminate.
Qed.
