(* C10 — the specification is total: its fuel (10 + number of RRsets) always suffices, because
   every continuation consumes a CNAME RRset of the zone whose target was not visited before. *)
From HV Require Import Lib.Base C10.Model C10.NameProofs.
Open Scope N_scope.

(* CNAME RRsets whose target has not been visited *)
Definition fresh (seen : list name) (s : rrset) : bool :=
  (rs_type s =? 5) && match first_target s with Some tg => negb (mem tg seen) | None => false end.
Definition unvisited (z : zone) (seen : list name) : nat := length (filter (fresh seen) z).

Lemma filter_length_le {A} (p : A -> bool) l : (length (filter p l) <= length l)%nat.
Proof. induction l as [|x l IH]; cbn [filter length]; [lia|]. destruct (p x); cbn [length]; lia. Qed.

Lemma filter_length_lt {A} (p p' : A -> bool) l c :
  (forall x, p' x = true -> p x = true) -> In c l -> p c = true -> p' c = false ->
  (length (filter p' l) < length (filter p l))%nat.
Proof.
  intros Himp. induction l as [|x l IH]; intros Hin Hp Hp'; [destruct Hin|].
  cbn [filter]. destruct Hin as [->|Hin].
  - rewrite Hp, Hp'. cbn [length].
    assert (length (filter p' l) <= length (filter p l))%nat.
    { clear -Himp. induction l as [|y l IH]; cbn [filter length]; [lia|].
      destruct (p' y) eqn:E'; [rewrite (Himp y E'); cbn [length]; lia|].
      destruct (p y); cbn [length]; lia. }
    lia.
  - specialize (IH Hin Hp Hp').
    destruct (p' x) eqn:E'; [rewrite (Himp x E'); cbn [length]; lia|].
    destruct (p x); cbn [length]; lia.
Qed.

Lemma unvisited_step z seen c tg : In c z -> rs_type c = 5 -> first_target c = Some tg ->
  mem tg seen = false -> (unvisited z (tg :: seen) < unvisited z seen)%nat.
Proof.
  intros Hin Ht Hf Hm. unfold unvisited. apply (filter_length_lt _ _ z c); [|exact Hin| |].
  - intros x. unfold fresh. intros H. apply andb_true_iff in H. destruct H as [H1 H2].
    rewrite H1. cbn [andb]. destruct (first_target x) as [g|]; [|discriminate].
    apply negb_true_iff in H2. cbn [mem existsb] in H2. apply orb_false_iff in H2.
    destruct H2 as [_ H2]. apply negb_true_iff. exact H2.
  - unfold fresh. rewrite Ht, Hf, N.eqb_refl. cbn [andb]. now rewrite Hm.
  - unfold fresh. rewrite Hf. cbn [mem existsb]. rewrite name_eqb_refl. cbn [orb negb]. apply andb_false_r.
Qed.

Lemma resolve_total z o t : forall f cur seen acc, (unvisited z seen < f)%nat ->
  resolve f z o t cur seen acc <> SOutOfFuel.
Proof.
  induction f as [|f IH]; intros cur seen acc Hm; [lia|].
  cbn [resolve]. destruct (situation z o t cur) as [cut| | |src]; try discriminate.
  unfold rfrom. destruct (t =? 255); [discriminate|].
  destruct (if t =? 5 then None else find_rs z src 5) as [c|] eqn:Ec.
  - destruct (t =? 5); [discriminate|]. apply find_rs_some in Ec. destruct Ec as [Hin [_ Ht]].
    destruct (first_target c) as [tg|] eqn:Etg; [|discriminate].
    destruct (negb (is_under tg o) || mem tg seen) eqn:Es; [discriminate|].
    apply orb_false_iff in Es. destruct Es as [_ Hmem].
    apply IH. pose proof (unvisited_step z seen c tg Hin Ht Etg Hmem). lia.
  - destruct (find_rs z src t); discriminate.
Qed.

Theorem spec_total z o q t : spec_answer z o q t <> SOutOfFuel.
Proof.
  unfold spec_answer. destruct (is_under q o); [|discriminate].
  apply resolve_total. unfold unvisited. pose proof (filter_length_le (fresh [q]) z). lia.
Qed.
