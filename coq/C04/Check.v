(* C04 — correspondence glue: cases written by the Rust harness (inputs + what the real
   Name / LowerName / RrKey code did) are re-run on the model inside Coq and compared. *)
From HV Require Import Lib.Base Lib.Pack C04.Model.
Open Scope N_scope.

(* a label list is shipped as one packed byte string: each label preceded by its length *)
Fixpoint unflat (fuel : nat) (bs : list N) : list label :=
  match fuel with
  | O => []
  | S fuel' =>
      match bs with
      | [] => []
      | n :: t => firstn (N.to_nat n) t :: unflat fuel' (skipn (N.to_nat n) t)
      end
  end.
Definition labels_of (p : pbytes) : list label := let bs := unpack p in unflat (length bs) bs.

Inductive pname := PN (fq : N) (p : pbytes).
Definition name_of (x : pname) : name :=
  match x with PN fq p => mkName (negb (fq =? 0)) (labels_of p) end.

Inductive pres := POk (n : pname) | PErr | PPanic.

Definition labels_eqb (a b : list label) : bool := list_eqb (list_eqb N.eqb) a b.
Definition name_eqb (a b : name) : bool := Bool.eqb (fqdn a) (fqdn b) && labels_eqb (labels a) (labels b).

Definition res_eqb (r : res name) (o : pres) : bool :=
  match r, o with
  | Ok n, POk x => name_eqb n (name_of x)
  | Err, PErr => true
  | Panic, PPanic => true
  | _, _ => false
  end.

Definition cmp_code (c : comparison) : N := match c with Lt => 0 | Eq => 1 | Gt => 2 end.
Definition b2n (b : bool) : N := if b then 1 else 0.

(* one entry of the pairwise observation matrix:
   cmp | eq<<2 | hash_eq<<3 | LowerName cmp<<4 | LowerName eq<<6 | LowerName hash_eq<<7 *)
Definition ord_entry (a b : name) : N :=
  cmp_code (name_cmp a b) + 4 * b2n (name_eq a b)
  + 8 * b2n (list_eqb N.eqb (hash_stream a) (hash_stream b))
  + 16 * cmp_code (lname_cmp a b) + 64 * b2n (lname_eq a b)
  + 128 * b2n (list_eqb N.eqb (lname_hash_stream a) (lname_hash_stream b)).

Definition ord_matrix (ns : list name) : list N :=
  flat_map (fun a => map (fun b => ord_entry a b) ns) ns.

(* scalar observations of one or two names *)
(* Label's own Ord / PartialEq / Hash (label.rs), on the first labels *)
Definition label_obs (a b : name) : N :=
  match labels a, labels b with
  | l :: _, r :: _ =>
      cmp_code (cmp_label CaseInsensitive l r) + 4 * b2n (label_eq CaseInsensitive l r)
      + 8 * b2n (list_eqb N.eqb (map lower l) (map lower r))
  | _, _ => 0
  end.

Definition scalars (a b : name) : N :=
  num_labels a + 256 * b2n (is_wildcard a) + 512 * b2n (is_root a)
  + 1024 * b2n (zone_of a b) + 2048 * b2n (zone_of_case a b)
  + 4096 * b2n (eq_ignore_root a b) + 8192 * cmp_code (cmp_case a b)
  + 65536 * N.of_nat (name_len a) + 4294967296 * label_obs a b.

Definition run_op (op : N) (a b : name) (k : N) : res name :=
  match op with
  | 0 => from_labels (labels b)
  | 1 => append_label a (hd [] (labels b))
  | 2 => prepend_label a (hd [] (labels b))
  | 3 => append_name a b
  | 4 => append_domain a b
  | 5 => Ok (to_lowercase a)
  | 6 => base_name a
  | 7 => trim_to a (N.to_nat k)
  | 8 => Ok (into_wildcard a)
  | _ => Err
  end.

Definition read_obs (r : res (name * nat)) : res name * N :=
  match r with
  | Ok (n, i) => (Ok n, N.of_nat i)
  | Err => (Err, 0)
  | Panic => (Panic, 0)
  end.

Definition bytes_res_eqb (r : res (list N)) (o : option pbytes) : bool :=
  match r, o with
  | Ok bs, Some p => bytes_eqb bs (unpack p)
  | Err, None => true
  | _, _ => false
  end.

Inductive case :=
| COrd (ns : list pname) (m : pbytes)
| COp (op : N) (a b : pname) (k : N) (r : pres)
| CScalar (a b : pname) (v : N)
| CText (a : pname) (txt : pbytes) (back : pres)
| CParse (s : pbytes) (r : pres)
| CEmit (a : pname) (lc : N) (enc : option pbytes)
| CRead (buf : pbytes) (off : N) (r : pres) (consumed : N).

Definition check (c : case) : bool :=
  match c with
  | COrd ns m => bytes_eqb (ord_matrix (map name_of ns)) (unpack m)
  | COp op a b k r => res_eqb (run_op op (name_of a) (name_of b) k) r
  | CScalar a b v => N.eqb (scalars (name_of a) (name_of b)) v
  | CText a txt back =>
      bytes_eqb (to_ascii (name_of a)) (unpack txt) && res_eqb (from_ascii (unpack txt)) back
  | CParse s r => res_eqb (from_ascii (unpack s)) r
  | CEmit a lc enc => bytes_res_eqb (emit_name (negb (lc =? 0)) (name_of a)) enc
  | CRead buf off r consumed =>
      let '(rn, i) := read_obs (read_name (unpack buf) (N.to_nat off)) in
      res_eqb rn r && (match rn with Ok _ => N.eqb i consumed | _ => true end)
  end.

Definition bad (cs : list case) : list N := bad_idx check 0 cs.

(* full model output for one case (used in replay files) *)
Definition show (c : case) :=
  match c with
  | COrd ns _ => (ord_matrix (map name_of ns), @Err name, @nil N)
  | COp op a b k _ => ([], run_op op (name_of a) (name_of b) k, [])
  | CScalar a b _ => ([scalars (name_of a) (name_of b)], Err, [])
  | CText a txt _ => ([], from_ascii (unpack txt), to_ascii (name_of a))
  | CParse s _ => ([], from_ascii (unpack s), [])
  | CEmit a lc _ => ([], Err, match emit_name (negb (lc =? 0)) (name_of a) with Ok bs => bs | _ => [] end)
  | CRead buf off _ _ =>
      let '(rn, i) := read_obs (read_name (unpack buf) (N.to_nat off)) in ([i], rn, [])
  end.
