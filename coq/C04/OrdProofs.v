(* C04 — proofs about comparison, equality and hashing of names. *)
From HV Require Import Lib.Base C04.Model.
Open Scope N_scope.

(* ------------------------------------------------------------------ *)
(* the two-phase loop of the code (zip, then lengths) is the left-justified order *)

Lemma zip_len_lex {A} (c : A -> A -> comparison) (l r : list A) :
  match zip_cmp c l r with Eq => len_cmp l r | o => o end = lex c l r.
Proof.
  revert r; induction l as [|a l IH]; intros [|b r]; cbn [zip_cmp lex]; try reflexivity.
  destruct (c a b) eqn:E; try reflexivity.
  rewrite <- IH. unfold len_cmp. cbn [length]. rewrite Nat.compare_succ. reflexivity.
Qed.

Lemma lex_map {A B} (f : A -> B) (c : B -> B -> comparison) (l r : list A) :
  lex (fun x y => c (f x) (f y)) l r = lex c (map f l) (map f r).
Proof.
  revert r; induction l as [|a l IH]; intros [|b r]; cbn [lex map]; try reflexivity.
  rewrite IH. reflexivity.
Qed.

Lemma lex_ext {A} (c c' : A -> A -> comparison) (l r : list A) :
  (forall x y, c x y = c' x y) -> lex c l r = lex c' l r.
Proof.
  intros H. revert r; induction l as [|a l IH]; intros [|b r]; cbn [lex]; try reflexivity.
  rewrite H, IH. reflexivity.
Qed.

Lemma lower_canon b : lower b = canon_octet b.
Proof. reflexivity. Qed.

Lemma cmp_label_ci_lex l r :
  cmp_label CaseInsensitive l r = lex N.compare (map canon_octet l) (map canon_octet r).
Proof.
  unfold cmp_label. rewrite zip_len_lex. cbn [cmp_u8].
  rewrite (lex_map lower N.compare). reflexivity.
Qed.

Lemma cmp_label_cs_lex l r : cmp_label CaseSensitive l r = lex N.compare l r.
Proof.
  unfold cmp_label. rewrite zip_len_lex. apply lex_ext. reflexivity.
Qed.

Lemma len_cmp_rev {A} (l r : list A) : len_cmp l r = len_cmp (rev l) (rev r).
Proof. unfold len_cmp. now rewrite !rev_length. Qed.

Lemma cmp_labels_ci_rfc a b : cmp_labels CaseInsensitive a b = rfc4034_cmp a b.
Proof.
  unfold cmp_labels, rfc4034_cmp, canon_key. rewrite len_cmp_rev, zip_len_lex.
  rewrite (lex_ext _ (fun x y => lex N.compare (map canon_octet x) (map canon_octet y)))
    by apply cmp_label_ci_lex.
  rewrite (lex_map (map canon_octet) (lex N.compare)). now rewrite !map_rev.
Qed.

Lemma cmp_labels_cs_lex a b :
  cmp_labels CaseSensitive a b = lex (lex N.compare) (rev (labels a)) (rev (labels b)).
Proof.
  unfold cmp_labels. rewrite len_cmp_rev, zip_len_lex. apply lex_ext, cmp_label_cs_lex.
Qed.

Lemma name_cmp_spec a b : name_cmp a b = spec_cmp a b.
Proof.
  unfold name_cmp, cmp_with_f, spec_cmp. rewrite cmp_labels_ci_rfc. reflexivity.
Qed.

(* ------------------------------------------------------------------ *)
(* the left-justified order of a decidable total order is one *)

Record good_cmp {A} (c : A -> A -> comparison) : Prop := {
  gc_refl : forall x, c x x = Eq;
  gc_eq : forall x y, c x y = Eq -> x = y;
  gc_sym : forall x y, c y x = CompOpp (c x y);
  gc_trans : forall x y z, c x y = Lt -> c y z = Lt -> c x z = Lt }.

Lemma N_compare_good : good_cmp N.compare.
Proof.
  split.
  - apply N.compare_refl.
  - apply N.compare_eq.
  - intros x y. apply N.compare_antisym.
  - intros x y z. rewrite !N.compare_lt_iff. lia.
Qed.

Lemma lex_good {A} (c : A -> A -> comparison) : good_cmp c -> good_cmp (lex c).
Proof.
  intros [Hr He Hs Ht]. split.
  - induction x as [|a x IH]; cbn [lex]; [reflexivity|]. now rewrite Hr.
  - induction x as [|a x IH]; intros [|b y]; cbn [lex]; try congruence.
    destruct (c a b) eqn:E; try congruence. intros H. apply He in E. apply IH in H. congruence.
  - induction x as [|a x IH]; intros [|b y]; cbn [lex]; try reflexivity.
    rewrite (Hs a b). destruct (c a b); cbn [CompOpp]; auto.
  - induction x as [|a x IH]; intros [|b y] [|d z]; cbn [lex]; try congruence.
    destruct (c a b) eqn:E1; try congruence.
    + apply He in E1. subst b. destruct (c a d) eqn:E2; try congruence. apply IH.
    + destruct (c b d) eqn:E2; try congruence.
      * apply He in E2. subst d. now rewrite E1.
      * now rewrite (Ht _ _ _ E1 E2).
Qed.

Lemma key_cmp_good : good_cmp (lex (lex N.compare)).
Proof. apply lex_good, lex_good, N_compare_good. Qed.

(* derived facts for any good comparison *)
Lemma gc_eq_iff {A} (c : A -> A -> comparison) : good_cmp c -> forall x y, c x y = Eq <-> x = y.
Proof. intros G x y. split; [apply (gc_eq c G)|intros ->; apply (gc_refl c G)]. Qed.

Lemma gc_gt_lt {A} (c : A -> A -> comparison) : good_cmp c -> forall x y, c x y = Gt <-> c y x = Lt.
Proof.
  intros G x y. rewrite (gc_sym c G x y). destruct (c x y); cbn; split; congruence.
Qed.

(* ------------------------------------------------------------------ *)
(* order laws of spec_cmp (hence of the code's cmp) *)

Lemma spec_cmp_refl a : spec_cmp a a = Eq.
Proof.
  unfold spec_cmp, rfc4034_cmp. destruct (fqdn a); apply (gc_refl _ key_cmp_good).
Qed.

Lemma spec_cmp_sym a b : spec_cmp b a = CompOpp (spec_cmp a b).
Proof.
  unfold spec_cmp, rfc4034_cmp. destruct (fqdn a), (fqdn b); cbn [CompOpp]; try reflexivity;
    apply (gc_sym _ key_cmp_good).
Qed.

Lemma spec_cmp_trans a b c : spec_cmp a b = Lt -> spec_cmp b c = Lt -> spec_cmp a c = Lt.
Proof.
  unfold spec_cmp, rfc4034_cmp. destruct (fqdn a), (fqdn b), (fqdn c); try congruence;
    apply (gc_trans _ key_cmp_good).
Qed.

Lemma spec_cmp_eq_iff a b : spec_cmp a b = Eq <-> fqdn a = fqdn b /\ canon_key a = canon_key b.
Proof.
  unfold spec_cmp, rfc4034_cmp.
  destruct (fqdn a), (fqdn b); rewrite ?(gc_eq_iff _ key_cmp_good); intuition congruence.
Qed.

Lemma spec_cmp_eq_l a b c : spec_cmp a b = Eq -> spec_cmp b c = spec_cmp a c.
Proof.
  intros H. apply spec_cmp_eq_iff in H. destruct H as [Hf Hk].
  unfold spec_cmp, rfc4034_cmp. now rewrite Hf, Hk.
Qed.

(* ------------------------------------------------------------------ *)
(* equality *)

Lemma canon_case_equiv x y : canon_octet x = canon_octet y <-> case_equiv x y.
Proof.
  unfold canon_octet, case_equiv.
  destruct (65 <=? x) eqn:E1, (x <=? 90) eqn:E2, (65 <=? y) eqn:E3, (y <=? 90) eqn:E4;
    cbn [andb];
    rewrite ?N.leb_le, ?N.leb_gt in *; lia.
Qed.

Lemma map_eq_Forall2 {A B} (f : A -> B) (l r : list A) :
  map f l = map f r <-> Forall2 (fun x y => f x = f y) l r.
Proof.
  revert r; induction l as [|a l IH]; intros [|b r]; cbn [map]; split; intros H.
  - constructor.
  - reflexivity.
  - discriminate.
  - inversion H.
  - discriminate.
  - inversion H.
  - inversion H. constructor; [assumption|]. now apply IH.
  - inversion H; subst. f_equal; [assumption|]. now apply IH.
Qed.

Lemma Forall2_iff {A} (P Q : A -> A -> Prop) l r :
  (forall x y, P x y <-> Q x y) -> Forall2 P l r <-> Forall2 Q l r.
Proof.
  intros H. split; intros F; induction F; constructor; try apply H; assumption.
Qed.

Lemma canon_label_equiv l r : map canon_octet l = map canon_octet r <-> label_equiv l r.
Proof. rewrite map_eq_Forall2. apply Forall2_iff, canon_case_equiv. Qed.

Lemma rev_inj {A} (l r : list A) : rev l = rev r -> l = r.
Proof. intros H. rewrite <- (rev_involutive l), <- (rev_involutive r). now f_equal. Qed.

Lemma canon_key_equiv a b : canon_key a = canon_key b <-> Forall2 label_equiv (labels a) (labels b).
Proof.
  unfold canon_key. split.
  - intros H. apply rev_inj in H. apply map_eq_Forall2 in H.
    revert H. apply Forall2_iff. intros; symmetry; apply canon_label_equiv.
  - intros H. f_equal. apply map_eq_Forall2. revert H. apply Forall2_iff, canon_label_equiv.
Qed.

Lemma spec_cmp_eq_spec_eq a b : spec_cmp a b = Eq <-> spec_eq a b.
Proof. rewrite spec_cmp_eq_iff. unfold spec_eq. now rewrite canon_key_equiv. Qed.

Lemma name_eq_cmp a b : name_eq a b = true <-> name_cmp a b = Eq.
Proof.
  unfold name_eq. fold (name_cmp a b). rewrite name_cmp_spec.
  destruct (Bool.eqb (fqdn a) (fqdn b)) eqn:E.
  - destruct (spec_cmp a b); cbn; split; congruence.
  - split; [congruence|]. intros H. apply spec_cmp_eq_iff in H. destruct H as [H _].
    rewrite H, Bool.eqb_reflx in E. congruence.
Qed.

Lemma name_eq_spec a b : name_eq a b = true <-> spec_eq a b.
Proof. now rewrite name_eq_cmp, name_cmp_spec, spec_cmp_eq_spec_eq. Qed.

(* ------------------------------------------------------------------ *)
(* hashing *)

Lemma concat_map_map {A B} (f : A -> B) (ls : list (list A)) :
  map f (concat ls) = concat (map (map f) ls).
Proof. apply concat_map. Qed.

Lemma spec_eq_lower a b :
  spec_eq a b <-> fqdn a = fqdn b /\ map (map lower) (labels a) = map (map lower) (labels b).
Proof.
  rewrite <- spec_cmp_eq_spec_eq, spec_cmp_eq_iff. unfold canon_key.
  split; intros [H1 H2]; split; try assumption.
  - apply rev_inj in H2. exact H2.
  - f_equal. exact H2.
Qed.

Lemma hash_respects_eq a b : name_eq a b = true -> hash_stream a = hash_stream b.
Proof.
  rewrite name_eq_spec, spec_eq_lower. intros [Hf Hl]. unfold hash_stream.
  now rewrite Hf, !concat_map_map, Hl.
Qed.

(* ------------------------------------------------------------------ *)
(* LowerName, RrKey *)

Lemma lower_idem b : lower (lower b) = lower b.
Proof.
  unfold lower, is_upper.
  destruct (65 <=? b) eqn:E1, (b <=? 90) eqn:E2; cbn [andb]; try rewrite E1; try rewrite E2;
    cbn [andb]; try reflexivity.
  rewrite N.leb_le in *.
  destruct (65 <=? b + 32) eqn:E3, (b + 32 <=? 90) eqn:E4; cbn [andb]; try reflexivity.
  rewrite N.leb_le in *. lia.
Qed.

Lemma lname_cmp_name_cmp a b : lname_cmp a b = name_cmp a b.
Proof.
  unfold lname_cmp, cmp_case, name_cmp, cmp_with_f. cbn [to_lowercase fqdn labels].
  rewrite cmp_labels_cs_lex, cmp_labels_ci_rfc. cbn [to_lowercase labels].
  reflexivity.
Qed.

Lemma lname_eq_name_eq a b : lname_eq a b = name_eq a b.
Proof.
  unfold lname_eq, eq_case. fold (cmp_case (to_lowercase a) (to_lowercase b)).
  fold (lname_cmp a b). rewrite lname_cmp_name_cmp.
  destruct (name_eq a b) eqn:E.
  - apply name_eq_cmp in E. now rewrite E.
  - destruct (name_cmp a b) eqn:E2; try reflexivity. apply name_eq_cmp in E2. congruence.
Qed.

Lemma lname_hash_respects_eq a b : lname_eq a b = true -> lname_hash_stream a = lname_hash_stream b.
Proof.
  rewrite lname_eq_name_eq, name_eq_spec, spec_eq_lower. intros [_ Hl].
  unfold lname_hash_stream. cbn [to_lowercase labels]. now rewrite Hl.
Qed.

Lemma rrkey_cmp_eq_iff a ta b tb : rrkey_cmp a ta b tb = Eq <-> name_eq a b = true /\ ta = tb.
Proof.
  unfold rrkey_cmp. rewrite lname_cmp_name_cmp, name_eq_cmp.
  destruct (name_cmp a b); rewrite ?N.compare_eq_iff; intuition congruence.
Qed.

(* ------------------------------------------------------------------ *)
(* meaning of the left-justified order: a proper prefix sorts first, otherwise the first
   differing position decides *)

Lemma lex_lt_iff {A} (c : A -> A -> comparison) : good_cmp c -> forall l r,
  lex c l r = Lt <->
  (exists y r', r = l ++ y :: r') \/
  (exists p x y l' r', l = p ++ x :: l' /\ r = p ++ y :: r' /\ c x y = Lt).
Proof.
  intros G. induction l as [|a l IH]; intros [|b r]; cbn [lex].
  - split; [discriminate|]. intros [(y & r' & H)|(p & x & y & l' & r' & H & _)];
      [discriminate|destruct p; discriminate].
  - split; [|reflexivity]. intros _. left. exists b, r. reflexivity.
  - split; [discriminate|]. intros [(y & r' & H)|(p & x & y & l' & r' & _ & H & _)];
      [discriminate|destruct p; discriminate].
  - destruct (c a b) eqn:E.
    + apply (gc_eq c G) in E. subst b. rewrite IH. split.
      * intros [(y & r' & H)|(p & x & y & l' & r' & H1 & H2 & H3)].
        -- left. exists y, r'. cbn [app]. now rewrite H.
        -- right. exists (a :: p), x, y, l', r'. cbn [app]. now rewrite H1, H2.
      * intros [(y & r' & H)|(p & x & y & l' & r' & H1 & H2 & H3)].
        -- left. exists y, r'. cbn [app] in H. now inversion H.
        -- destruct p as [|a' p]; cbn [app] in *.
           ++ inversion H1; inversion H2; subst. rewrite (gc_refl c G) in H3. discriminate.
           ++ inversion H1; inversion H2; subst. right. exists p, x, y, l', r'. auto.
    + split; [|reflexivity]. intros _. right. exists [], a, b, l, r. auto.
    + split; [discriminate|].
      intros [(y & r' & H)|(p & x & y & l' & r' & H1 & H2 & H3)].
      * cbn [app] in H. inversion H; subst. rewrite (gc_refl c G) in E. discriminate.
      * destruct p as [|a' p]; cbn [app] in *; inversion H1; inversion H2; subst.
        -- congruence.
        -- rewrite (gc_refl c G) in E. discriminate.
Qed.

(* ------------------------------------------------------------------ *)
(* the example list of RFC 4034 section 6.1 *)

Definition rfc_example_names : list name :=
  let example := [101; 120; 97; 109; 112; 108; 101] in
  [ mkName true [example];
    mkName true [[97]; example];
    mkName true [[121; 108; 106; 107; 106; 108; 106; 107]; [97]; example];
    mkName true [[90]; [97]; example];
    mkName true [[122; 65; 66; 67]; [97]; [69; 88; 65; 77; 80; 76; 69]];
    mkName true [[122]; example];
    mkName true [[1]; [122]; example];
    mkName true [[42]; [122]; example];
    mkName true [[128]; [122]; example] ].

Fixpoint strictly_sorted (c : name -> name -> comparison) (l : list name) : bool :=
  match l with
  | a :: ((b :: _) as t) => match c a b with Lt => strictly_sorted c t | _ => false end
  | _ => true
  end.
Lemma eq_case_iff a b : eq_case a b = true <-> a = b.
Proof.
  unfold eq_case, cmp_with_f. rewrite cmp_labels_cs_lex.
  destruct a as [fa la], b as [fb lb]. cbn [fqdn labels].
  destruct fa, fb; cbn [is_Eq]; try (split; [discriminate|intros H; inversion H]);
    (destruct (lex (lex N.compare) (rev la) (rev lb)) eqn:E; cbn [is_Eq];
     [ apply (gc_eq _ key_cmp_good) in E; apply rev_inj in E; subst; split; reflexivity
     | split; [discriminate|intros H; inversion H; subst; rewrite (gc_refl _ key_cmp_good) in E; discriminate]
     | split; [discriminate|intros H; inversion H; subst; rewrite (gc_refl _ key_cmp_good) in E; discriminate] ]).
Qed.

(* Label's own Ord / PartialEq (label.rs): same comparison as one step of Name::cmp_labels *)
Lemma cmp_label_eq_iff l r : cmp_label CaseInsensitive l r = Eq <-> label_equiv l r.
Proof.
  rewrite cmp_label_ci_lex, (gc_eq_iff _ (lex_good _ N_compare_good)). apply canon_label_equiv.
Qed.
