(* C04 — executable model of hickory-proto domain names
   (crates/proto/src/rr/domain/name.rs, label.rs; rr/lower_name.rs; rr/rr_key.rs)
   and the independent specification the theorems are stated against.
   A name is its list of labels (each a list of octets, N) plus the is_fqdn flag; the
   flat label_data/label_ends storage with u8 end offsets is modelled separately at the
   end of this file ([flat], [flat_iter], ...).  No proofs in this file. *)
From HV Require Import Lib.Base.
Open Scope N_scope.

Notation label := (list N) (only parsing).
Record name := mkName { fqdn : bool; labels : list label }.

(* Result<_, ProtoError> with the error text dropped; Panic = unwrap()/expect()/index panic *)
Inductive res (A : Type) := Ok (a : A) | Err | Panic.
Arguments Ok {A} a.
Arguments Err {A}.
Arguments Panic {A}.

Definition set_fqdn (n : name) (v : bool) : name := mkName v (labels n).
Definition name_new : name := mkName false [].     (* Name::new() = default() *)
Definition name_root : name := mkName true [].     (* Name::root() *)

(* ------------------------------------------------------------------ *)
(* Comparison, equality, hashing (name.rs:666-691, 1118-1135; label.rs:300-322) *)
(* ------------------------------------------------------------------ *)

(* u8::to_ascii_lowercase *)
Definition is_upper (b : N) : bool := (65 <=? b) && (b <=? 90).
Definition lower (b : N) : N := if is_upper b then b + 32 else b.

(* `for (a, b) in l.iter().zip(r.iter()) { match c(a, b) { Equal => {}, ord => return ord } }`
   Eq = the loop ran to the end of the shorter sequence *)
Fixpoint zip_cmp {A} (c : A -> A -> comparison) (l r : list A) : comparison :=
  match l, r with
  | a :: l', b :: r' => match c a b with Eq => zip_cmp c l' r' | o => o end
  | _, _ => Eq
  end.
(* `l.len().cmp(&r.len())` *)
Definition len_cmp {A} (l r : list A) : comparison := Nat.compare (length l) (length r).

Inductive cmpmode := CaseInsensitive | CaseSensitive.   (* the two LabelCmp impls *)
Definition cmp_u8 (m : cmpmode) (a b : N) : comparison :=
  match m with
  | CaseInsensitive => N.compare (lower a) (lower b)
  | CaseSensitive => N.compare a b
  end.

(* body of the outer loop of Name::cmp_labels for one pair of labels *)
Definition cmp_label (m : cmpmode) (l r : label) : comparison :=
  match zip_cmp (cmp_u8 m) l r with Eq => len_cmp l r | o => o end.

(* Name::cmp_labels: iter().rev().zip(other.iter().rev()), then label counts *)
Definition cmp_labels (m : cmpmode) (a b : name) : comparison :=
  match zip_cmp (cmp_label m) (rev (labels a)) (rev (labels b)) with
  | Eq => len_cmp (labels a) (labels b)
  | o => o
  end.

(* Name::cmp_with_f *)
Definition cmp_with_f (m : cmpmode) (a b : name) : comparison :=
  match fqdn a, fqdn b with
  | false, true => Lt
  | true, false => Gt
  | _, _ => cmp_labels m a b
  end.

Definition is_Eq (c : comparison) : bool := match c with Eq => true | _ => false end.

Definition name_cmp (a b : name) : comparison := cmp_with_f CaseInsensitive a b.   (* Ord::cmp *)
Definition name_eq (a b : name) : bool :=                                          (* PartialEq::eq *)
  if Bool.eqb (fqdn a) (fqdn b) then is_Eq (cmp_with_f CaseInsensitive a b) else false.
Definition cmp_case (a b : name) : comparison := cmp_with_f CaseSensitive a b.
Definition eq_case (a b : name) : bool := is_Eq (cmp_with_f CaseSensitive a b).
Definition eq_ignore_root (a b : name) : bool := is_Eq (cmp_labels CaseInsensitive a b).

(* Hash for Name: the sequence of write_u8 calls: is_fqdn as one byte, then every
   octet lower-cased, label boundaries not marked *)
Definition hash_stream (a : name) : list N :=
  (if fqdn a then 1 else 0) :: map lower (concat (labels a)).

(* Name::to_lowercase *)
Definition to_lowercase (a : name) : name := mkName (fqdn a) (map (map lower) (labels a)).

(* LowerName (lower_name.rs): new = to_lowercase; cmp = cmp_case; eq = eq_case;
   hash = write(label) for every label (no fqdn byte) *)
Definition lname_cmp (a b : name) : comparison := cmp_case (to_lowercase a) (to_lowercase b).
Definition lname_eq (a b : name) : bool := eq_case (to_lowercase a) (to_lowercase b).
Definition lname_hash_stream (a : name) : list N := concat (labels (to_lowercase a)).

(* RrKey (rr_key.rs): name order first, then the record type (u16 order) *)
Definition rrkey_cmp (a : name) (ta : N) (b : name) (tb : N) : comparison :=
  match lname_cmp a b with Eq => N.compare ta tb | o => o end.

(* ------------------------------------------------------------------ *)
(* Constructors and combinators (name.rs:58-70, 153-372, 394-472, 901-939) *)
(* ------------------------------------------------------------------ *)

(* Name::encoded_len: label_ends.len() + label_data.len() + 1 *)
Definition encoded_len (n : name) : nat :=
  (length (labels n) + length (concat (labels n)) + 1)%nat.

(* Name::extend_name *)
Definition extend_name (n : name) (l : label) : res name :=
  if (255 <? encoded_len n + length l + 1)%nat then Err
  else Ok (mkName (fqdn n) (labels n ++ [l])).

(* Label::from_raw_bytes *)
Definition label_from_raw (bs : list N) : res label :=
  match bs with
  | [] => Err
  | _ => if (63 <? length bs)%nat then Err else Ok bs
  end.

(* Name::append_label with a byte-slice argument *)
Definition append_label (n : name) (raw : list N) : res name :=
  match label_from_raw raw with
  | Ok l => extend_name n l
  | Err => Err
  | Panic => Panic
  end.

(* `for label in ls { name.extend_name(label)?; }` *)
Fixpoint extend_all (n : name) (ls : list label) : res name :=
  match ls with
  | [] => Ok n
  | l :: ls' => match extend_name n l with
                | Ok n' => extend_all n' ls'
                | e => e
                end
  end.

(* Name::prepend_label *)
Definition prepend_label (n : name) (raw : list N) : res name :=
  match append_label name_new raw with
  | Ok nm => match extend_all nm (labels n) with
             | Ok nm' => Ok (set_fqdn nm' (fqdn n))
             | e => e
             end
  | e => e
  end.

Definition raw_ok (bs : list N) : bool :=
  match label_from_raw bs with Ok _ => true | _ => false end.

(* Name::from_labels on byte slices: partition into converted labels and errors; more
   than 255 converted labels -> Err; any error -> Err; then append one by one *)
Definition from_labels (raws : list (list N)) : res name :=
  let oks := filter raw_ok raws in
  if (255 <? length oks)%nat then Err
  else if negb (length oks =? length raws)%nat then Err
  else extend_all name_root oks.

(* Name::append_name / append_domain *)
Definition append_name (a b : name) : res name :=
  match extend_all a (labels b) with
  | Ok n => Ok (set_fqdn n (fqdn b))
  | e => e
  end.
Definition append_domain (a b : name) : res name :=
  match append_name a b with
  | Ok n => Ok (set_fqdn n true)
  | e => e
  end.

(* Name::trim_to: from_labels(...).unwrap() *)
Definition trim_to (a : name) (k : nat) : res name :=
  if (length (labels a) <? k)%nat then Ok a
  else match from_labels (skipn (length (labels a) - k) (labels a)) with
       | Ok n => Ok n
       | _ => Panic
       end.

(* Name::base_name *)
Definition base_name (a : name) : res name :=
  match length (labels a) with
  | O => Ok a
  | S k => trim_to a k
  end.

(* Name::into_wildcard (on the label-list view; the u8 casts are in the flat model) *)
Definition into_wildcard (a : name) : name :=
  match labels a with
  | [] => name_root
  | _ :: t => mkName (fqdn a) ([42] :: t)
  end.

Definition is_wildcard (a : name) : bool :=
  match labels a with l :: _ => list_eqb N.eqb l [42] | [] => false end.

(* Name::num_labels: `label_ends.len() as u8`, minus one for a leading "*" *)
Definition num_labels (a : name) : N :=
  let num := N.of_nat (length (labels a)) mod 256 in
  if is_wildcard a then num - 1 else num.

(* Name::len *)
Definition name_len (a : name) : nat :=
  ((match labels a with [] => 1 | _ => length (labels a) end) + length (concat (labels a)))%nat.

Definition is_root (a : name) : bool :=
  match labels a with [] => fqdn a | _ => false end.

(* <[u8]>::eq_ignore_ascii_case / <[u8]>::eq *)
Definition label_eq (m : cmpmode) (l r : label) : bool :=
  match m with
  | CaseInsensitive => list_eqb N.eqb (map lower l) (map lower r)
  | CaseSensitive => list_eqb N.eqb l r
  end.
Fixpoint zip_all {A} (f : A -> A -> bool) (l r : list A) : bool :=
  match l, r with
  | a :: l', b :: r' => f a b && zip_all f l' r'
  | _, _ => true
  end.
(* Name::zone_of_with *)
Definition zone_of_with (m : cmpmode) (self nm : name) : bool :=
  match length (labels self), length (labels nm) with
  | O, _ => true
  | _, O => false
  | sl, nl => if (nl <? sl)%nat then false
              else zip_all (label_eq m) (rev (labels self)) (rev (labels nm))
  end.
Definition zone_of := zone_of_with CaseInsensitive.
Definition zone_of_case := zone_of_with CaseSensitive.

(* ------------------------------------------------------------------ *)
(* Text form (label.rs:78-96, 179-235; name.rs:586-664, 845-861)       *)
(* ------------------------------------------------------------------ *)

Definition is_digit (c : N) : bool := (48 <=? c) && (c <=? 57).
Definition is_alpha (c : N) : bool := ((65 <=? c) && (c <=? 90)) || ((97 <=? c) && (c <=? 122)).
Definition is_alnum (c : N) : bool := is_digit c || is_alpha c.

(* label.rs is_safe_ascii(c, is_first, for_encoding) *)
Definition is_safe_ascii (c : N) (is_first for_encoding : bool) : bool :=
  if 128 <=? c then false
  else if is_alnum c then true
  else if c =? 45 then negb is_first          (* '-' *)
  else if c =? 95 then true                   (* '_' *)
  else if c =? 42 then is_first               (* '*' *)
  else if c =? 46 then negb for_encoding      (* '.' *)
  else false.

(* format!("\\{ch:03o}") without the backslash *)
Definition octal3 (b : N) : list N := [48 + b / 64; 48 + (b / 8) mod 8; 48 + b mod 8].

(* escape_non_ascii inside Label::write_ascii *)
Definition escape_byte (b : N) (is_first : bool) : list N :=
  if is_safe_ascii b is_first true then [b]
  else if (32 <? b) && (b <? 127) then [92; b]
  else 92 :: octal3 b.

Definition write_ascii (l : label) : list N :=
  match l with
  | [] => []
  | b :: t => escape_byte b true ++ flat_map (fun c => escape_byte c false) t
  end.

Fixpoint write_rest (ls : list label) : list N :=
  match ls with
  | [] => []
  | l :: t => 46 :: write_ascii l ++ write_rest t
  end.

(* Name::to_ascii = write_labels::<_, LabelEncAscii> *)
Definition to_ascii (n : name) : list N :=
  (match labels n with
   | [] => []
   | l :: t => write_ascii l ++ write_rest t
   end) ++ (if fqdn n then [46] else []).

(* String::len of a string whose chars have the given code points (all < 2048 here) *)
Definition utf8_len (s : list N) : nat :=
  fold_right (fun (c : N) (acc : nat) => if c <? 128 then S acc else S (S acc)) O s.

(* Label::from_ascii on a string given as code points *)
Definition label_from_ascii (s : list N) : res label :=
  if (63 <? utf8_len s)%nat then Err
  else if list_eqb N.eqb s [42] then Ok [42]
  else match s with
       | [] => Err
       | c :: t =>
           if forallb (fun x => x <? 128) s && is_safe_ascii c true false
              && forallb (fun x => is_safe_ascii x false false) t
           then label_from_raw s else Err
       end.

(* char::is_control / is_whitespace / is_numeric / to_digit(8), for ASCII *)
Definition is_control (c : N) : bool := (c <? 32) || (c =? 127).
Definition is_whitespace (c : N) : bool := ((9 <=? c) && (c <=? 13)) || (c =? 32).
Definition to_digit8 (c : N) : option N := if (48 <=? c) && (c <=? 55) then Some (c - 48) else None.

Inductive pstate := PLabel | PEsc1 | PEsc2 (i : N) | PEsc3 (i ii : N).   (* ParseState *)
(* effect of one character on (state, label buffer) *)
Inductive act := APush (c : N) (st : pstate) | AGo (st : pstate) | AEnd | AErr.

(* one iteration of `for ch in local.chars()` in from_encoded_str.  The input is the UTF-8
   byte string; a byte >= 128 belongs to a non-ASCII char, and every path on which such a
   char is seen ends in Err (is_control/is_whitespace -> Err; pushed -> Label::from_ascii
   rejects non-ASCII; numeric but not an octal digit -> Err), so it is Err at once here. *)
Definition char_step (st : pstate) (ch : N) : act :=
  if 128 <=? ch then AErr
  else match st with
       | PLabel =>
           if ch =? 46 then AEnd
           else if ch =? 92 then AGo PEsc1
           else if negb (is_control ch) && negb (is_whitespace ch) then APush ch PLabel
           else AErr
       | PEsc1 =>
           if is_digit ch then
             match to_digit8 ch with Some d => AGo (PEsc2 d) | None => AErr end
           else APush ch PLabel
       | PEsc2 i =>
           if is_digit ch then
             match to_digit8 ch with Some d => AGo (PEsc3 i d) | None => AErr end
           else AErr
       | PEsc3 i ii =>
           if is_digit ch then
             match to_digit8 ch with Some d => APush (i * 64 + ii * 8 + d) PLabel | None => AErr end
           else AErr
       end.

(* `name = name.append_label(E::to_label(&label)?)?` *)
Definition push_text_label (nm : name) (lbl : list N) : res name :=
  match label_from_ascii lbl with
  | Ok l => extend_name nm l
  | Err => Err
  | Panic => Panic
  end.

(* the loop; the label buffer is kept reversed *)
Fixpoint parse_loop (s : list N) (st : pstate) (nm : name) (lrev : list N) : res (name * list N) :=
  match s with
  | [] => Ok (nm, lrev)
  | ch :: s' =>
      match char_step st ch with
      | APush c st' => parse_loop s' st' nm (c :: lrev)
      | AGo st' => parse_loop s' st' nm lrev
      | AEnd => match push_text_label nm (rev lrev) with
                | Ok nm' => parse_loop s' PLabel nm' []
                | Err => Err
                | Panic => Panic
                end
      | AErr => Err
      end
  end.

(* Name::from_ascii = from_encoded_str::<LabelEncAscii>(s, None) *)
Definition from_ascii (s : list N) : res name :=
  if list_eqb N.eqb s [46] then Ok name_root
  else match parse_loop s PLabel name_new [] with
       | Ok (nm, lrev) =>
           match lrev with
           | [] => Ok (match s with [] => nm | _ => set_fqdn nm true end)
           | _ => push_text_label nm (rev lrev)
           end
       | Err => Err
       | Panic => Panic
       end.

(* ------------------------------------------------------------------ *)
(* Wire form (name.rs:1144-1363), single name                           *)
(* ------------------------------------------------------------------ *)

Fixpoint emit_labels (ls : list label) : res (list N) :=
  match ls with
  | [] => Ok []
  | l :: t => if (63 <? length l)%nat then Err
              else match emit_labels t with
                   | Ok bs => Ok (N.of_nat (length l) :: l ++ bs)
                   | e => e
                   end
  end.

(* Name::emit into an encoder in mode Uncompressed (lowercase=false) or
   UncompressedLowercase (true): the bytes appended *)
Definition emit_name (lowercase : bool) (n : name) : res (list N) :=
  let n' := if lowercase then to_lowercase n else n in
  match emit_labels (labels n') with
  | Ok bs => let out := bs ++ [0] in if (255 <? length out)%nat then Err else Ok out
  | e => e
  end.

Inductive rstate := RLen | RLabel | RPtr | RRoot.    (* LabelParseState *)

(* read_inner.  idx = index of the decoder in use; name_start; maxidx = ptr_max_idx;
   outer = index of the caller's decoder once a pointer has been followed.
   Running out of fuel is reported as Panic (does not happen: see fuel bound in read_name). *)
Fixpoint read_loop (fuel : nat) (buf : list N) (st : rstate) (idx name_start : nat)
         (maxidx outer : option nat) (nm : name) : res (name * nat) :=
  match fuel with
  | O => Panic
  | S fuel' =>
    if (match maxidx with Some m => (m <=? idx)%nat | None => false end) then Err
    else match st with
    | RLen =>
        match nth_error buf idx with
        | None => Err
        | Some b =>
            if b =? 0 then read_loop fuel' buf RRoot idx name_start maxidx outer (set_fqdn nm true)
            else if b / 64 =? 3 then read_loop fuel' buf RPtr idx name_start maxidx outer nm
            else if b / 64 =? 0 then read_loop fuel' buf RLabel idx name_start maxidx outer nm
            else Err
        end
    | RLabel =>
        match nth_error buf idx with
        | None => Err
        | Some lenb =>
            let l := N.to_nat lenb in
            if (length buf - (idx + 1) <? l)%nat then Err
            else if (63 <? l)%nat then Err
            else match extend_name nm (firstn l (skipn (idx + 1) buf)) with
                 | Ok nm' => read_loop fuel' buf RLen (idx + 1 + l) name_start maxidx outer nm'
                 | _ => Err
                 end
        end
    | RPtr =>
        match nth_error buf idx, nth_error buf (idx + 1) with
        | Some hi, Some lo =>
            let ptr := N.to_nat ((hi * 256 + lo) mod 16384) in
            if (ptr <? name_start)%nat then
              read_loop fuel' buf RLen ptr ptr (Some name_start)
                        (match outer with None => Some (idx + 2)%nat | s => s end) nm
            else Err
        | _, _ => Err
        end
    | RRoot =>
        match nth_error buf idx with
        | None => Err
        | Some _ =>
            if (255 <=? name_len nm)%nat then Err
            else Ok (nm, match outer with Some o => o | None => (idx + 1)%nat end)
        end
    end
  end.

(* Name::read with the decoder positioned at `off` of `buf`; result: name and the
   decoder's index afterwards *)
Definition read_name (buf : list N) (off : nat) : res (name * nat) :=
  if (length buf <? off)%nat then Err
  else read_loop (4 * length buf + 8) buf RLen off off None None name_new.

(* ------------------------------------------------------------------ *)
(* Flat storage (name.rs:33-40): label_data, label_ends : u8            *)
(* ------------------------------------------------------------------ *)

Record flat := mkFlat { f_fqdn : bool; f_data : list N; f_ends : list N }.

Definition as_u8 (n : nat) : N := N.of_nat n mod 256.

(* extend_name on the flat storage *)
Definition flat_extend (f : flat) (l : label) : res flat :=
  if (255 <? (length (f_ends f) + length (f_data f) + 1) + length l + 1)%nat then Err
  else let d := f_data f ++ l in Ok (mkFlat (f_fqdn f) d (f_ends f ++ [as_u8 (length d)])).

(* LabelIter: label i is label_data[ends[i-1] .. ends[i]] (start 0 for i = 0);
   a reversed range panics in Rust: Panic *)
Fixpoint flat_iter_from (d : list N) (start : N) (ends : list N) : res (list label) :=
  match ends with
  | [] => Ok []
  | e :: ends' =>
      if (e <? start) || (N.of_nat (length d) <? e) then Panic
      else match flat_iter_from d e ends' with
           | Ok ls => Ok (firstn (N.to_nat (e - start)) (skipn (N.to_nat start) d) :: ls)
           | x => x
           end
  end.
Definition flat_labels (f : flat) : res (list label) := flat_iter_from (f_data f) 0 (f_ends f).

(* the flat image of a label list *)
Fixpoint flat_ends (pos : nat) (ls : list label) : list N :=
  match ls with
  | [] => []
  | l :: t => as_u8 (pos + length l) :: flat_ends (pos + length l) t
  end.
Definition flat_of (n : name) : flat := mkFlat (fqdn n) (concat (labels n)) (flat_ends 0 (labels n)).

(* Name::into_wildcard as written: no length check, `as u8` casts *)
Definition flat_into_wildcard (f : flat) : res flat :=
  match f_ends f with
  | [] => Ok (mkFlat true [] [])
  | _ =>
      match flat_labels f with
      | Ok ls =>
          Ok (fold_left (fun acc l => let d := f_data acc ++ l in
                                      mkFlat (f_fqdn acc) d (f_ends acc ++ [as_u8 (length d)]))
                        (tl ls) (mkFlat (f_fqdn f) [42] [1]))
      | Err => Err
      | Panic => Panic
      end
  end.

(* ------------------------------------------------------------------ *)
(* Specification                                                        *)
(* ------------------------------------------------------------------ *)

(* two octets are the same up to ASCII letter case *)
Definition case_equiv (a b : N) : Prop :=
  a = b \/ (65 <= a <= 90 /\ b = a + 32) \/ (65 <= b <= 90 /\ a = b + 32).
Definition label_equiv (l r : label) : Prop := Forall2 case_equiv l r.
(* equality "ignoring ASCII case and nothing else" *)
Definition spec_eq (a b : name) : Prop :=
  fqdn a = fqdn b /\ Forall2 label_equiv (labels a) (labels b).

(* left-justified comparison of sequences: absence of an element sorts first *)
Fixpoint lex {A} (c : A -> A -> comparison) (l r : list A) : comparison :=
  match l, r with
  | [], [] => Eq
  | [], _ :: _ => Lt
  | _ :: _, [] => Gt
  | a :: l', b :: r' => match c a b with Eq => lex c l' r' | o => o end
  end.

(* RFC 4034 section 6.1: labels as left-justified unsigned octet strings, upper-case
   US-ASCII letters treated as lower-case; names compared by most significant
   (rightmost) label first *)
Definition canon_octet (b : N) : N := if (65 <=? b) && (b <=? 90) then b + 32 else b.
Definition canon_key (n : name) : list (list N) := rev (map (map canon_octet) (labels n)).
Definition rfc4034_cmp (a b : name) : comparison :=
  lex (lex N.compare) (canon_key a) (canon_key b).

(* the order of names including relative ones: relative before absolute *)
Definition spec_cmp (a b : name) : comparison :=
  match fqdn a, fqdn b with
  | false, true => Lt
  | true, false => Gt
  | _, _ => rfc4034_cmp a b
  end.

(* the length limits of RFC 1035: every label 1..63 octets, whole name at most 255
   octets in wire form (one length octet per label, plus the root octet) *)
Definition label_ok (l : label) : Prop := (1 <= length l <= 63)%nat.
Definition wire_len (n : name) : nat :=
  (fold_right (fun l acc => S (length l) + acc) O (labels n) + 1)%nat.
Definition wf (n : name) : Prop := Forall label_ok (labels n) /\ (wire_len n <= 255)%nat.
Definition octets (n : name) : Prop := Forall (Forall (fun b => b < 256)) (labels n).

Definition label_okb (l : label) : bool := (1 <=? length l)%nat && (length l <=? 63)%nat.
Definition wfb (n : name) : bool := forallb label_okb (labels n) && (wire_len n <=? 255)%nat.

(* host-style label: letters, digits, '_' anywhere; '-' and '.' ... see below; '*' leading *)
Definition host_octet (is_first : bool) (b : N) : Prop :=
  (48 <= b <= 57) \/ (65 <= b <= 90) \/ (97 <= b <= 122) \/ b = 95 \/ b = 46
  \/ (b = 45 /\ is_first = false) \/ (b = 42 /\ is_first = true).
Definition host_label (l : label) : Prop :=
  match l with
  | [] => False
  | b :: t => host_octet true b /\ Forall (host_octet false) t
  end.
Definition host_style (n : name) : Prop := Forall host_label (labels n).

Definition host_octetb (is_first : bool) (b : N) : bool := is_safe_ascii b is_first false.
Definition host_labelb (l : label) : bool :=
  match l with
  | [] => false
  | b :: t => host_octetb true b && forallb (host_octetb false) t
  end.
