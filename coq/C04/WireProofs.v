(* C04 — wire form of a single name: uncompressed emit, then read at any offset of any
   surrounding buffer, returns the same labels (octets and case untouched). *)
From HV Require Import Lib.Base C04.Model C04.LimitProofs.
Open Scope N_scope.

Fixpoint enc_labels (ls : list label) : list N :=
  match ls with
  | [] => []
  | l :: t => N.of_nat (length l) :: l ++ enc_labels t
  end.

Lemma emit_labels_ok ls : Forall label_ok ls -> emit_labels ls = Ok (enc_labels ls).
Proof.
  induction 1 as [|l ls Hl _ IH]; cbn [emit_labels enc_labels]; [reflexivity|].
  unfold label_ok in Hl. destruct (63 <? length l)%nat eqn:E; [apply Nat.ltb_lt in E; lia|].
  now rewrite IH.
Qed.

Lemma enc_labels_length ls : length (enc_labels ls) = wl ls.
Proof.
  induction ls as [|l ls IH]; cbn [enc_labels length]; [reflexivity|].
  rewrite wl_cons, app_length, IH. lia.
Qed.

Lemma emit_name_ok n : wf n -> emit_name false n = Ok (enc_labels (labels n) ++ [0]).
Proof.
  intros [H1 H2]. unfold emit_name. rewrite (emit_labels_ok _ H1).
  rewrite app_length, enc_labels_length. cbn [length]. rewrite wire_len_wl in H2.
  destruct (255 <? wl (labels n) + 1)%nat eqn:E; [apply Nat.ltb_lt in E; lia|reflexivity].
Qed.

(* single steps of the decoder loop, no pointer seen so far *)
Lemma step_len_label f buf idx ns nm b :
  nth_error buf idx = Some b -> b <> 0 -> b < 64 ->
  read_loop (S f) buf RLen idx ns None None nm = read_loop f buf RLabel idx ns None None nm.
Proof.
  intros H H0 H64. cbn [read_loop]. rewrite H.
  apply N.eqb_neq in H0. rewrite H0. rewrite (N.div_small b 64 H64). reflexivity.
Qed.

Lemma step_label f buf idx ns nm b :
  nth_error buf idx = Some b -> (N.to_nat b <= length buf - (idx + 1))%nat -> (N.to_nat b <= 63)%nat ->
  read_loop (S f) buf RLabel idx ns None None nm =
  match extend_name nm (firstn (N.to_nat b) (skipn (idx + 1) buf)) with
  | Ok nm' => read_loop f buf RLen (idx + 1 + N.to_nat b) ns None None nm'
  | _ => Err
  end.
Proof.
  intros H H1 H2. cbn [read_loop]. rewrite H.
  apply Nat.ltb_ge in H1. rewrite H1. apply Nat.ltb_ge in H2. rewrite H2. reflexivity.
Qed.

Lemma step_len_root f buf idx ns nm :
  nth_error buf idx = Some 0 ->
  read_loop (S f) buf RLen idx ns None None nm = read_loop f buf RRoot idx ns None None (set_fqdn nm true).
Proof. intros H. cbn [read_loop]. rewrite H. reflexivity. Qed.

Lemma step_root f buf idx ns nm x :
  nth_error buf idx = Some x -> (name_len nm < 255)%nat ->
  read_loop (S f) buf RRoot idx ns None None nm = Ok (nm, (idx + 1)%nat).
Proof.
  intros H Hl. cbn [read_loop]. rewrite H. apply Nat.leb_gt in Hl. rewrite Hl. reflexivity.
Qed.

Lemma nth_error_mid {A} (pre : list A) x post : nth_error (pre ++ x :: post) (length pre) = Some x.
Proof. rewrite nth_error_app2 by lia. now rewrite Nat.sub_diag. Qed.

Lemma name_len_le fq ls : (name_len (mkName fq ls) <= wl ls + 1)%nat.
Proof.
  unfold name_len. cbn [labels]. rewrite wl_concat. destruct ls; cbn [length]; lia.
Qed.

Lemma name_len_lt fq ls : (wl ls + 1 <= 255)%nat -> (name_len (mkName fq ls) < 255)%nat.
Proof.
  intros H. unfold name_len. cbn [labels]. rewrite wl_concat in H. destruct ls; cbn [length concat] in *; lia.
Qed.

Lemma read_labels_loop rest : forall done pre suf fq fuel ns,
  Forall label_ok rest ->
  (wl done + wl rest + 1 <= 255)%nat ->
  (2 * length rest + 2 <= fuel)%nat ->
  read_loop fuel (pre ++ enc_labels rest ++ 0 :: suf) RLen (length pre) ns None None (mkName fq done)
  = Ok (mkName true (done ++ rest), (length pre + wl rest + 1)%nat).
Proof.
  induction rest as [|l rest IH]; intros done pre suf fq fuel ns Hok Hlen Hfuel.
  - cbn [enc_labels app wl fold_right length] in *.
    destruct fuel as [|[|f]]; try lia.
    rewrite step_len_root by apply nth_error_mid.
    rewrite (step_root _ _ _ _ _ 0) by (try apply nth_error_mid; apply name_len_lt; cbn [labels set_fqdn]; lia).
    cbn [set_fqdn labels]. rewrite app_nil_r. f_equal. f_equal. lia.
  - inversion Hok as [|? ? Hl Hrest]; subst. unfold label_ok in Hl.
    rewrite wl_cons in Hlen. cbn [length] in Hfuel.
    destruct fuel as [|[|f]]; try lia.
    cbn [enc_labels]. set (b := N.of_nat (length l)).
    assert (Hnth : nth_error (pre ++ (b :: l ++ enc_labels rest) ++ 0 :: suf) (length pre) = Some b).
    { cbn [app]. apply nth_error_mid. }
    rewrite (step_len_label _ _ _ _ _ b Hnth) by (unfold b; lia).
    assert (Hb : N.to_nat b = length l) by (unfold b; lia).
    assert (Hbuf : pre ++ (b :: l ++ enc_labels rest) ++ 0 :: suf
                   = (pre ++ [b]) ++ l ++ (enc_labels rest ++ 0 :: suf)).
    { rewrite <- (app_assoc pre [b]). cbn [app]. rewrite <- (app_assoc l). reflexivity. }
    rewrite (step_label _ _ _ _ _ b Hnth).
    + rewrite Hb.
      assert (Hfirst : firstn (length l) (skipn (length pre + 1) (pre ++ (b :: l ++ enc_labels rest) ++ 0 :: suf)) = l).
      { rewrite Hbuf. rewrite skipn_app, skipn_all2 by (rewrite app_length; cbn [length]; lia).
        rewrite app_length. cbn [length app]. replace (length pre + 1 - (length pre + 1))%nat with O by lia.
        cbn [skipn]. rewrite firstn_app, firstn_all, Nat.sub_diag. cbn [firstn]. now rewrite app_nil_r. }
      rewrite Hfirst. rewrite extend_name_spec. rewrite wire_len_wl. cbn [labels fqdn].
      assert (E : (wl done + 1 + length l + 1 <=? 255)%nat = true) by (apply Nat.leb_le; lia).
      rewrite E.
      replace (pre ++ (b :: l ++ enc_labels rest) ++ 0 :: suf)
        with ((pre ++ b :: l) ++ enc_labels rest ++ 0 :: suf)
        by (rewrite <- (app_assoc pre (b :: l)); cbn [app]; rewrite <- (app_assoc l); reflexivity).
      replace (length pre + 1 + length l)%nat with (length (pre ++ b :: l))
        by (rewrite app_length; cbn [length]; lia).
      rewrite IH; [|exact Hrest| |lia].
      * f_equal. f_equal; [now rewrite <- app_assoc|].
        rewrite app_length, wl_cons. cbn [length]. lia.
      * rewrite wl_app. cbn [wl fold_right]. lia.
    + rewrite Hb, !app_length. cbn [length]. rewrite app_length. lia.
    + lia.
Qed.

Lemma wire_roundtrip n pre suf : wf n ->
  exists enc, emit_name false n = Ok enc /\
    read_name (pre ++ enc ++ suf) (length pre) = Ok (set_fqdn n true, (length pre + length enc)%nat).
Proof.
  intros Hn. exists (enc_labels (labels n) ++ [0]). split; [now apply emit_name_ok|].
  destruct Hn as [H1 H2]. rewrite wire_len_wl in H2.
  unfold read_name. rewrite !app_length.
  match goal with |- context [Nat.ltb ?a ?b] => destruct (Nat.ltb a b) eqn:E end;
    [apply Nat.ltb_lt in E; lia|].
  rewrite <- (app_assoc (enc_labels (labels n))). cbn [app].
  change name_new with (mkName false []).
  rewrite read_labels_loop; [| exact H1 | cbn [wl fold_right]; lia | ].
  - cbn [app]. unfold set_fqdn. f_equal. f_equal. rewrite enc_labels_length. cbn [length]. lia.
  - rewrite ?app_length, enc_labels_length. cbn [length]. pose proof (wl_concat (labels n)). lia.
Qed.

(* the lower-casing encoder mode emits the lower-cased name *)
Lemma emit_name_lowercase n : emit_name true n = emit_name false (to_lowercase n).
Proof. reflexivity. Qed.
