(* C04 — length limits: every constructor/combinator keeps labels in 1..63 and the name
   within 255 octets; exact acceptance conditions; the flat u8 storage is faithful. *)
From HV Require Import Lib.Base C04.Model.
Open Scope N_scope.

(* sum over labels of (1 + length) *)
Definition wl (ls : list label) : nat := fold_right (fun l acc => (S (length l) + acc)%nat) O ls.

Lemma wl_app a b : wl (a ++ b) = (wl a + wl b)%nat.
Proof. induction a as [|x a IH]; cbn [wl fold_right app]; [reflexivity|]. fold (wl (a ++ b)). fold (wl a). lia. Qed.

Lemma wire_len_wl n : wire_len n = (wl (labels n) + 1)%nat.
Proof. reflexivity. Qed.

Lemma wl_concat ls : wl ls = (length ls + length (concat ls))%nat.
Proof.
  induction ls as [|l ls IH]; cbn [wl fold_right concat length]; [reflexivity|].
  fold (wl ls). rewrite app_length. lia.
Qed.

Lemma encoded_len_wire n : encoded_len n = wire_len n.
Proof. unfold encoded_len. rewrite wire_len_wl, wl_concat. reflexivity. Qed.

Lemma name_eta n : mkName (fqdn n) (labels n) = n.
Proof. destruct n; reflexivity. Qed.

(* ------------------------------------------------------------------ *)
(* extend_name / extend_all: exact behaviour *)

Lemma extend_name_spec n l :
  extend_name n l =
  if (wire_len n + length l + 1 <=? 255)%nat then Ok (mkName (fqdn n) (labels n ++ [l])) else Err.
Proof.
  unfold extend_name. rewrite encoded_len_wire.
  destruct (255 <? wire_len n + length l + 1)%nat eqn:E;
    destruct (wire_len n + length l + 1 <=? 255)%nat eqn:E2; try reflexivity;
    rewrite ?Nat.ltb_lt, ?Nat.ltb_ge, ?Nat.leb_le, ?Nat.leb_gt in *; lia.
Qed.

Lemma extend_all_spec ls : forall n, (wire_len n <= 255)%nat ->
  extend_all n ls =
  if (wire_len n + wl ls <=? 255)%nat then Ok (mkName (fqdn n) (labels n ++ ls)) else Err.
Proof.
  induction ls as [|l ls IH]; intros n Hn; cbn [extend_all].
  - cbn [wl fold_right]. rewrite Nat.add_0_r. apply Nat.leb_le in Hn. rewrite Hn.
    now rewrite app_nil_r, name_eta.
  - rewrite extend_name_spec. cbn [wl fold_right]. fold (wl ls).
    destruct (wire_len n + length l + 1 <=? 255)%nat eqn:E.
    + apply Nat.leb_le in E. rewrite IH.
      * rewrite wire_len_wl. cbn [labels fqdn]. rewrite wl_app. cbn [wl fold_right].
        rewrite <- app_assoc. cbn [app].
        replace (wl (labels n) + (S (length l) + 0) + 1 + wl ls)%nat
          with (wire_len n + (S (length l) + wl ls))%nat by (rewrite wire_len_wl; lia).
        reflexivity.
      * rewrite wire_len_wl. cbn [labels]. rewrite wl_app. cbn [wl fold_right].
        rewrite wire_len_wl in E. lia.
    + apply Nat.leb_gt in E.
      destruct (wire_len n + (S (length l) + wl ls) <=? 255)%nat eqn:E2; [|reflexivity].
      apply Nat.leb_le in E2. lia.
Qed.

(* ------------------------------------------------------------------ *)
(* wf bookkeeping *)

Lemma wf_intro fq ls : Forall label_ok ls -> (wl ls + 1 <= 255)%nat -> wf (mkName fq ls).
Proof. intros H1 H2. split; [exact H1|]. rewrite wire_len_wl. exact H2. Qed.

Lemma wf_set_fqdn n v : wf n -> wf (set_fqdn n v).
Proof. intros [H1 H2]. split; [exact H1|exact H2]. Qed.

Lemma wf_new : wf name_new.
Proof. split; [constructor|cbn; lia]. Qed.
Lemma wf_root : wf name_root.
Proof. split; [constructor|cbn; lia]. Qed.

Lemma label_from_raw_ok bs l : label_from_raw bs = Ok l -> l = bs /\ label_ok l.
Proof.
  unfold label_from_raw. destruct bs as [|b bs]; [discriminate|].
  destruct (63 <? length (b :: bs))%nat eqn:E; [discriminate|].
  intros H; inversion H; subst. split; [reflexivity|].
  apply Nat.ltb_ge in E. unfold label_ok. cbn [length] in *. lia.
Qed.

Lemma raw_ok_iff bs : raw_ok bs = true <-> label_ok bs.
Proof.
  unfold raw_ok, label_from_raw, label_ok. destruct bs as [|b bs]; cbn [length].
  - split; [discriminate|lia].
  - destruct (63 <? S (length bs))%nat eqn:E.
    + apply Nat.ltb_lt in E. split; [discriminate|lia].
    + apply Nat.ltb_ge in E. split; [lia|reflexivity].
Qed.

Lemma label_from_raw_spec bs :
  label_from_raw bs = if raw_ok bs then Ok bs else Err.
Proof.
  unfold raw_ok, label_from_raw. destruct bs as [|b bs]; [reflexivity|].
  destruct (63 <? length (b :: bs))%nat; reflexivity.
Qed.

Lemma extend_name_wf n l n' : wf n -> label_ok l -> extend_name n l = Ok n' -> wf n'.
Proof.
  intros [H1 H2] Hl. rewrite extend_name_spec.
  destruct (wire_len n + length l + 1 <=? 255)%nat eqn:E; [|discriminate].
  intros H; inversion H; subst. apply Nat.leb_le in E. apply wf_intro.
  - apply Forall_app. split; [exact H1|]. constructor; [exact Hl|constructor].
  - rewrite wl_app. cbn [wl fold_right]. rewrite wire_len_wl in E. lia.
Qed.

Lemma extend_all_wf ls n n' :
  wf n -> Forall label_ok ls -> extend_all n ls = Ok n' -> wf n'.
Proof.
  intros [H1 H2] Hls. rewrite extend_all_spec by exact H2.
  destruct (wire_len n + wl ls <=? 255)%nat eqn:E; [|discriminate].
  intros H; inversion H; subst. apply Nat.leb_le in E. apply wf_intro.
  - apply Forall_app. split; assumption.
  - rewrite wl_app. rewrite wire_len_wl in E. lia.
Qed.

(* ------------------------------------------------------------------ *)
(* the public constructors and combinators *)

Lemma append_label_wf n raw n' : wf n -> append_label n raw = Ok n' -> wf n'.
Proof.
  intros Hn. unfold append_label. destruct (label_from_raw raw) as [l| |] eqn:E; try discriminate.
  apply label_from_raw_ok in E. destruct E as [_ Hl]. now apply extend_name_wf.
Qed.

Lemma prepend_label_wf n raw n' : wf n -> prepend_label n raw = Ok n' -> wf n'.
Proof.
  intros Hn. unfold prepend_label.
  destruct (append_label name_new raw) as [nm| |] eqn:E1; try discriminate.
  destruct (extend_all nm (labels n)) as [nm'| |] eqn:E2; try discriminate.
  intros H; inversion H; subst. apply wf_set_fqdn.
  apply (extend_all_wf (labels n) nm); [|apply Hn|exact E2].
  exact (append_label_wf name_new raw nm wf_new E1).
Qed.

Lemma filter_len_le {A} (f : A -> bool) l : (length (filter f l) <= length l)%nat.
Proof. induction l as [|a l IH]; cbn [filter length]; [lia|]. destruct (f a); cbn [length]; lia. Qed.

Lemma filter_length_all {A} (f : A -> bool) l :
  (length (filter f l) =? length l)%nat = forallb f l.
Proof.
  induction l as [|a l IH]; cbn [filter forallb length]; [reflexivity|].
  pose proof (filter_len_le f l) as Hle.
  destruct (f a); cbn [length andb].
  - exact IH.
  - apply Nat.eqb_neq. lia.
Qed.

Lemma filter_all {A} (f : A -> bool) l : forallb f l = true -> filter f l = l.
Proof.
  induction l as [|a l IH]; cbn [filter forallb]; [reflexivity|].
  destruct (f a); cbn [andb]; [|discriminate]. intros H. now rewrite IH.
Qed.

Lemma wl_ge_len ls : Forall label_ok ls -> (2 * length ls <= wl ls)%nat.
Proof.
  induction 1 as [|l ls Hl _ IH]; cbn [wl fold_right length]; [lia|]. fold (wl ls).
  unfold label_ok in Hl. lia.
Qed.

(* from_labels accepts exactly the label lists within the limits, and returns them unchanged *)
Lemma from_labels_spec raws :
  from_labels raws =
  if forallb raw_ok raws && (wl raws + 1 <=? 255)%nat then Ok (mkName true raws) else Err.
Proof.
  unfold from_labels. rewrite filter_length_all.
  destruct (forallb raw_ok raws) eqn:E; cbn [negb andb].
  - rewrite (filter_all _ _ E).
    assert (Hok : Forall label_ok raws).
    { apply Forall_forall. intros x Hx. apply raw_ok_iff. rewrite forallb_forall in E. now apply E. }
    pose proof (wl_ge_len raws Hok) as Hge.
    destruct (255 <? length raws)%nat eqn:E2.
    + apply Nat.ltb_lt in E2.
      destruct (wl raws + 1 <=? 255)%nat eqn:E3; [|reflexivity]. apply Nat.leb_le in E3.
      lia.
    + rewrite extend_all_spec by (cbn; lia).
      replace (wire_len name_root + wl raws)%nat with (wl raws + 1)%nat by (cbn; lia).
      reflexivity.
  - destruct (255 <? length (filter raw_ok raws))%nat; reflexivity.
Qed.

Lemma from_labels_wf raws n : from_labels raws = Ok n -> wf n.
Proof.
  rewrite from_labels_spec.
  destruct (forallb raw_ok raws) eqn:E1; cbn [andb]; [|discriminate].
  destruct (wl raws + 1 <=? 255)%nat eqn:E2; [|discriminate].
  intros H; inversion H; subst. apply Nat.leb_le in E2. apply wf_intro; [|exact E2].
  apply Forall_forall. intros x Hx. apply raw_ok_iff. rewrite forallb_forall in E1. now apply E1.
Qed.

Lemma append_name_spec a b : (wire_len a <= 255)%nat ->
  append_name a b =
  if (wire_len a + wl (labels b) <=? 255)%nat then Ok (mkName (fqdn b) (labels a ++ labels b)) else Err.
Proof.
  intros Ha. unfold append_name. rewrite extend_all_spec by exact Ha.
  destruct (wire_len a + wl (labels b) <=? 255)%nat; reflexivity.
Qed.

Lemma append_name_wf a b n : wf a -> wf b -> append_name a b = Ok n -> wf n.
Proof.
  intros Ha Hb. unfold append_name.
  destruct (extend_all a (labels b)) as [n'| |] eqn:E; try discriminate.
  intros H; inversion H; subst. apply wf_set_fqdn.
  apply (extend_all_wf (labels b) a); [exact Ha|apply Hb|exact E].
Qed.

Lemma append_domain_wf a b n : wf a -> wf b -> append_domain a b = Ok n -> wf n.
Proof.
  intros Ha Hb. unfold append_domain.
  destruct (append_name a b) as [n'| |] eqn:E; try discriminate.
  intros H; inversion H; subst. apply wf_set_fqdn. now apply (append_name_wf a b).
Qed.

Lemma wl_map_map (f : N -> N) ls : wl (map (map f) ls) = wl ls.
Proof.
  induction ls as [|x ls IH]; cbn [wl fold_right map]; [reflexivity|].
  fold (wl ls). fold (wl (map (map f) ls)). rewrite map_length, IH. reflexivity.
Qed.

Lemma to_lowercase_wf a : wf a -> wf (to_lowercase a).
Proof.
  intros [H1 H2]. unfold to_lowercase. apply wf_intro.
  - apply Forall_map. eapply Forall_impl; [|exact H1]. intros x Hx. unfold label_ok in *.
    now rewrite map_length.
  - rewrite wire_len_wl in H2. rewrite wl_map_map. exact H2.
Qed.

Lemma wl_cons l ls : wl (l :: ls) = (S (length l) + wl ls)%nat.
Proof. reflexivity. Qed.

Lemma wl_skipn k ls : (wl (skipn k ls) <= wl ls)%nat.
Proof.
  revert ls; induction k as [|k IH]; intros [|l ls]; cbn [skipn]; try lia.
  rewrite wl_cons. specialize (IH ls). lia.
Qed.

Lemma Forall_skipn {A} (P : A -> Prop) k l : Forall P l -> Forall P (skipn k l).
Proof.
  revert l; induction k as [|k IH]; intros [|a l] H; cbn [skipn]; try assumption.
  apply IH. now inversion H.
Qed.

(* trim_to never panics on a well-formed name *)
Lemma trim_to_spec a k : wf a ->
  trim_to a k = Ok (if (length (labels a) <? k)%nat then a
                    else mkName true (skipn (length (labels a) - k) (labels a))).
Proof.
  intros [H1 H2]. unfold trim_to. destruct (length (labels a) <? k)%nat; [reflexivity|].
  rewrite from_labels_spec. set (s := skipn (length (labels a) - k) (labels a)).
  assert (Hs : Forall label_ok s) by (apply Forall_skipn, H1).
  assert (E1 : forallb raw_ok s = true).
  { apply forallb_forall. intros x Hx. apply raw_ok_iff. rewrite Forall_forall in Hs. now apply Hs. }
  assert (E2 : (wl s + 1 <=? 255)%nat = true).
  { apply Nat.leb_le. pose proof (wl_skipn (length (labels a) - k) (labels a)) as Hle.
    fold s in Hle. rewrite wire_len_wl in H2. lia. }
  rewrite E1, E2. reflexivity.
Qed.

Lemma trim_to_wf a k : wf a -> exists n, trim_to a k = Ok n /\ wf n.
Proof.
  intros Ha. rewrite (trim_to_spec a k Ha). eexists; split; [reflexivity|].
  destruct (length (labels a) <? k)%nat; [exact Ha|].
  destruct Ha as [H1 H2]. apply wf_intro; [apply Forall_skipn, H1|].
  pose proof (wl_skipn (length (labels a) - k) (labels a)). rewrite wire_len_wl in H2. lia.
Qed.

Lemma base_name_wf a : wf a -> exists n, base_name a = Ok n /\ wf n.
Proof.
  intros Ha. unfold base_name. destruct (length (labels a)) as [|k] eqn:E.
  - exists a. split; [reflexivity|exact Ha].
  - apply trim_to_wf, Ha.
Qed.

Lemma into_wildcard_wf a : wf a -> wf (into_wildcard a).
Proof.
  intros [H1 H2]. unfold into_wildcard. destruct (labels a) as [|l t] eqn:E; [apply wf_root|].
  inversion H1 as [|? ? Hl Ht]; subst. apply wf_intro.
  - constructor; [unfold label_ok; cbn; lia|exact Ht].
  - rewrite wire_len_wl, E in H2. cbn [wl fold_right length] in *. fold (wl t) in *.
    unfold label_ok in Hl. lia.
Qed.

(* ------------------------------------------------------------------ *)
(* text parser *)

Lemma label_from_ascii_ok s l : label_from_ascii s = Ok l -> label_ok l.
Proof.
  unfold label_from_ascii. destruct (63 <? utf8_len s)%nat; [discriminate|].
  destruct (list_eqb N.eqb s [42]).
  - intros H; inversion H. unfold label_ok; cbn; lia.
  - destruct s as [|c t]; [discriminate|].
    destruct (_ && _ && _); [|discriminate]. intros H. now apply label_from_raw_ok in H.
Qed.

Lemma push_text_label_wf nm lbl nm' : wf nm -> push_text_label nm lbl = Ok nm' -> wf nm'.
Proof.
  intros Hn. unfold push_text_label. destruct (label_from_ascii lbl) as [l| |] eqn:E; try discriminate.
  apply label_from_ascii_ok in E. now apply extend_name_wf.
Qed.

Lemma parse_loop_wf s : forall st nm lrev nm' lrev',
  wf nm -> parse_loop s st nm lrev = Ok (nm', lrev') -> wf nm'.
Proof.
  induction s as [|ch s IH]; intros st nm lrev nm' lrev' Hn; cbn [parse_loop].
  - intros H; inversion H; subst. exact Hn.
  - destruct (char_step st ch) as [c st'|st'| |]; try discriminate.
    + apply IH, Hn.
    + apply IH, Hn.
    + destruct (push_text_label nm (rev lrev)) as [nm2| |] eqn:E; try discriminate.
      apply IH. now apply (push_text_label_wf nm (rev lrev)).
Qed.

Lemma from_ascii_wf s n : from_ascii s = Ok n -> wf n.
Proof.
  unfold from_ascii. destruct (list_eqb N.eqb s [46]).
  - intros H; inversion H. apply wf_root.
  - destruct (parse_loop s PLabel name_new []) as [[nm lrev]| |] eqn:E; try discriminate.
    pose proof (parse_loop_wf s _ _ _ _ _ wf_new E) as Hnm.
    destruct lrev as [|c lrev].
    + intros H; inversion H; subst. destruct s; [exact Hnm|apply wf_set_fqdn, Hnm].
    + apply push_text_label_wf, Hnm.
Qed.

(* ------------------------------------------------------------------ *)
(* wire decoder: whatever the buffer (pointers included), a decoded name is within limits *)

Definition st_inv (buf : list N) (st : rstate) (idx : nat) : Prop :=
  match st with
  | RLabel => exists b, nth_error buf idx = Some b /\ b <> 0
  | _ => True
  end.

Lemma firstn_skipn_length {A} (l : list A) i k :
  (k <= length l - i)%nat -> length (firstn k (skipn i l)) = k.
Proof. intros H. rewrite firstn_length, skipn_length. lia. Qed.

Lemma read_loop_wf fuel : forall buf st idx ns mx ou nm n i,
  wf nm -> st_inv buf st idx ->
  read_loop fuel buf st idx ns mx ou nm = Ok (n, i) -> wf n.
Proof.
  induction fuel as [|fuel IH]; intros buf st idx ns mx ou nm n i Hn Hinv; cbn [read_loop]; [discriminate|].
  destruct (match mx with Some m => (m <=? idx)%nat | None => false end); [discriminate|].
  destruct st.
  - (* RLen *)
    destruct (nth_error buf idx) as [b|] eqn:Eb; [|discriminate].
    destruct (b =? 0) eqn:E0.
    + apply IH; [apply wf_set_fqdn, Hn|exact I].
    + destruct (b / 64 =? 3).
      * apply IH; [exact Hn|exact I].
      * destruct (b / 64 =? 0); [|discriminate].
        apply IH; [exact Hn|]. exists b. split; [exact Eb|]. now apply N.eqb_neq.
  - (* RLabel *)
    destruct Hinv as (b & Eb & Hb0). rewrite Eb.
    destruct (length buf - (idx + 1) <? N.to_nat b)%nat eqn:E1; [discriminate|].
    destruct (63 <? N.to_nat b)%nat eqn:E2; [discriminate|].
    destruct (extend_name nm (firstn (N.to_nat b) (skipn (idx + 1) buf))) as [nm'| |] eqn:E3; try discriminate.
    apply IH; [|exact I].
    refine (extend_name_wf nm _ nm' Hn _ E3).
    apply Nat.ltb_ge in E1. apply Nat.ltb_ge in E2. unfold label_ok.
    rewrite firstn_skipn_length by exact E1. lia.
  - (* RPtr *)
    destruct (nth_error buf idx) as [hi|]; [|discriminate].
    destruct (nth_error buf (idx + 1)) as [lo|]; [|discriminate].
    destruct (_ <? ns)%nat; [|discriminate].
    apply IH; [exact Hn|exact I].
  - (* RRoot *)
    destruct (nth_error buf idx); [|discriminate].
    destruct (255 <=? name_len nm)%nat; [discriminate|].
    intros H; inversion H; subst. exact Hn.
Qed.

Lemma read_name_wf buf off n i : read_name buf off = Ok (n, i) -> wf n.
Proof.
  unfold read_name. destruct (length buf <? off)%nat; [discriminate|].
  apply read_loop_wf; [apply wf_new|exact I].
Qed.

Lemma read_loop_fqdn fuel : forall buf st idx ns mx ou nm n i,
  (st = RRoot -> fqdn nm = true) ->
  read_loop fuel buf st idx ns mx ou nm = Ok (n, i) -> fqdn n = true.
Proof.
  induction fuel as [|fuel IH]; intros buf st idx ns mx ou nm n i Hst; cbn [read_loop]; [discriminate|].
  destruct (match mx with Some m => (m <=? idx)%nat | None => false end); [discriminate|].
  destruct st.
  - destruct (nth_error buf idx) as [b|]; [|discriminate].
    destruct (b =? 0).
    + apply IH. reflexivity.
    + destruct (b / 64 =? 3); [apply IH; discriminate|].
      destruct (b / 64 =? 0); [apply IH; discriminate|discriminate].
  - destruct (nth_error buf idx) as [b|]; [|discriminate].
    destruct (_ <? _)%nat; [discriminate|]. destruct (_ <? _)%nat; [discriminate|].
    destruct (extend_name _ _) as [nm'| |]; try discriminate. apply IH. discriminate.
  - destruct (nth_error buf idx) as [hi|]; [|discriminate].
    destruct (nth_error buf (idx + 1)) as [lo|]; [|discriminate].
    destruct (_ <? ns)%nat; [|discriminate]. apply IH. discriminate.
  - destruct (nth_error buf idx); [|discriminate].
    destruct (255 <=? name_len nm)%nat; [discriminate|].
    intros H; inversion H; subst. now apply Hst.
Qed.

(* ------------------------------------------------------------------ *)
(* closed world: everything obtainable from the constructors is within limits *)

Inductive built : name -> Prop :=
| b_new : built name_new
| b_root : built name_root
| b_set_fqdn n v : built n -> built (set_fqdn n v)
| b_from_labels raws n : from_labels raws = Ok n -> built n
| b_append_label n raw n' : built n -> append_label n raw = Ok n' -> built n'
| b_prepend_label n raw n' : built n -> prepend_label n raw = Ok n' -> built n'
| b_append_name a b n : built a -> built b -> append_name a b = Ok n -> built n
| b_append_domain a b n : built a -> built b -> append_domain a b = Ok n -> built n
| b_to_lowercase a : built a -> built (to_lowercase a)
| b_trim_to a k n : built a -> trim_to a k = Ok n -> built n
| b_base_name a n : built a -> base_name a = Ok n -> built n
| b_into_wildcard a : built a -> built (into_wildcard a)
| b_from_ascii s n : from_ascii s = Ok n -> built n
| b_read buf off n i : read_name buf off = Ok (n, i) -> built n.

Lemma built_wf n : built n -> wf n.
Proof.
  induction 1.
  - apply wf_new.
  - apply wf_root.
  - now apply wf_set_fqdn.
  - now apply (from_labels_wf raws).
  - now apply (append_label_wf n raw).
  - now apply (prepend_label_wf n raw).
  - now apply (append_name_wf a b).
  - now apply (append_domain_wf a b).
  - now apply to_lowercase_wf.
  - destruct (trim_to_wf a k IHbuilt) as (n' & E & Hn'). congruence.
  - destruct (base_name_wf a IHbuilt) as (n' & E & Hn'). congruence.
  - now apply into_wildcard_wf.
  - now apply (from_ascii_wf s).
  - now apply (read_name_wf buf off n i).
Qed.

(* no combinator panics on names within limits *)
Lemma built_no_panic_trim a k : built a -> trim_to a k <> Panic.
Proof. intros H. destruct (trim_to_wf a k (built_wf a H)) as (n & E & _). congruence. Qed.

(* ------------------------------------------------------------------ *)
(* flat storage with u8 end offsets *)

Lemma as_u8_small k : (k <= 255)%nat -> as_u8 k = N.of_nat k.
Proof. intros H. unfold as_u8. apply N.mod_small. lia. Qed.

Lemma flat_iter_faithful ls : forall pre,
  (length pre + length (concat ls) <= 255)%nat ->
  flat_iter_from (pre ++ concat ls) (N.of_nat (length pre)) (flat_ends (length pre) ls) = Ok ls.
Proof.
  induction ls as [|l ls IH]; intros pre Hlen; cbn [flat_ends flat_iter_from concat]; [reflexivity|].
  cbn [concat] in Hlen. rewrite app_length in Hlen.
  rewrite as_u8_small by lia.
  assert (E1 : (N.of_nat (length pre + length l) <? N.of_nat (length pre)) = false)
    by (apply N.ltb_ge; lia).
  assert (E2 : (N.of_nat (length (pre ++ l ++ concat ls)) <? N.of_nat (length pre + length l)) = false)
    by (apply N.ltb_ge; rewrite !app_length; lia).
  rewrite E1, E2. cbn [orb].
  specialize (IH (pre ++ l)). rewrite app_length, <- app_assoc in IH. rewrite IH by lia.
  f_equal. f_equal.
  replace (N.to_nat (N.of_nat (length pre + length l) - N.of_nat (length pre))) with (length l) by lia.
  rewrite Nat2N.id. rewrite skipn_app, skipn_all, Nat.sub_diag. cbn [app skipn].
  rewrite firstn_app, firstn_all, Nat.sub_diag. cbn [firstn]. now rewrite app_nil_r.
Qed.

Lemma flat_repr_faithful n : wf n -> flat_labels (flat_of n) = Ok (labels n).
Proof.
  intros [_ H]. unfold flat_labels, flat_of. cbn [f_data f_ends].
  apply (flat_iter_faithful (labels n) []). cbn [length].
  rewrite wire_len_wl, wl_concat in H. lia.
Qed.

Lemma flat_ends_app pos a b :
  flat_ends pos (a ++ b) = flat_ends pos a ++ flat_ends (pos + length (concat a)) b.
Proof.
  revert pos; induction a as [|l a IH]; intros pos; cbn [flat_ends app concat length].
  - now rewrite Nat.add_0_r.
  - rewrite IH, app_length. f_equal. f_equal. f_equal. lia.
Qed.

Lemma flat_ends_length pos ls : length (flat_ends pos ls) = length ls.
Proof. revert pos; induction ls as [|l ls IH]; intros pos; cbn [flat_ends length]; [reflexivity|]. now rewrite IH. Qed.

(* extend_name on the flat storage computes the flat image of extend_name on labels *)
Lemma flat_extend_refines n l :
  flat_extend (flat_of n) l =
  match extend_name n l with Ok n' => Ok (flat_of n') | Err => Err | Panic => Panic end.
Proof.
  unfold flat_extend, extend_name, encoded_len, flat_of. cbn [f_data f_ends f_fqdn].
  rewrite flat_ends_length.
  destruct (255 <? length (labels n) + length (concat (labels n)) + 1 + length l + 1)%nat; [reflexivity|].
  cbn [labels fqdn]. f_equal. rewrite concat_app. cbn [concat]. rewrite app_nil_r.
  f_equal. rewrite flat_ends_app. cbn [flat_ends]. f_equal. f_equal. f_equal.
  rewrite app_length. lia.
Qed.

(* into_wildcard as written on the flat storage (no length check, `as u8` casts) computes
   the flat image of into_wildcard on labels *)
Lemma flat_fold_extend t : forall fq d e,
  fold_left (fun acc l => let d := f_data acc ++ l in
                          mkFlat (f_fqdn acc) d (f_ends acc ++ [as_u8 (length d)]))
            t (mkFlat fq d e)
  = mkFlat fq (d ++ concat t) (e ++ flat_ends (length d) t).
Proof.
  induction t as [|l t IH]; intros fq d e; cbn [fold_left concat flat_ends].
  - now rewrite !app_nil_r.
  - cbn [f_data f_ends f_fqdn]. rewrite IH. rewrite <- !app_assoc. cbn [app].
    now rewrite app_length.
Qed.

Lemma flat_into_wildcard_refines n : wf n ->
  flat_into_wildcard (flat_of n) = Ok (flat_of (into_wildcard n)).
Proof.
  intros Hn. unfold flat_into_wildcard. rewrite (flat_repr_faithful n Hn).
  unfold into_wildcard, flat_of at 1. cbn [f_ends f_fqdn].
  destruct (labels n) as [|l t] eqn:E; cbn [flat_ends].
  - reflexivity.
  - cbn [tl]. rewrite flat_fold_extend. unfold flat_of. cbn [labels fqdn concat flat_ends length app].
    reflexivity.
Qed.
