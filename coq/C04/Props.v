(* C04 — property theorems.  Statements only; proofs are applications of lemmas proved in
   OrdProofs.v / LimitProofs.v / TextProofs.v / WireProofs.v.  Print Assumptions under each.
   Model (Model.v): name = is_fqdn flag + list of labels (lists of octets), functions written
   from name.rs / label.rs / lower_name.rs / rr_key.rs.  Specification (end of Model.v):
   spec_eq, rfc4034_cmp / spec_cmp, wf (length limits), host_style. *)
From HV Require Import Lib.Base C04.Model C04.OrdProofs C04.LimitProofs C04.TextProofs C04.WireProofs.
Open Scope N_scope.

(* ---------------------------------------------------------------- equality, hash *)

(* == holds exactly when the fqdn flags agree and the labels agree octet by octet up to
   ASCII letter case (case_equiv is stated without the code's lower-casing function) *)
Theorem C04_eq_iff_spec : forall a b, name_eq a b = true <-> spec_eq a b.
Proof. exact name_eq_spec. Qed.
Print Assumptions C04_eq_iff_spec.

(* equal names feed the hasher the same byte stream *)
Theorem C04_hash_respects_eq : forall a b, name_eq a b = true -> hash_stream a = hash_stream b.
Proof. exact hash_respects_eq. Qed.
Print Assumptions C04_hash_respects_eq.

(* ---------------------------------------------------------------- order *)

(* cmp is the RFC 4034 6.1 canonical order (relative names sort before absolute ones) *)
Theorem C04_cmp_is_rfc4034 : forall a b,
  name_cmp a b = spec_cmp a b /\ (fqdn a = fqdn b -> name_cmp a b = rfc4034_cmp a b).
Proof.
  intros a b. split; [apply name_cmp_spec|]. intros H. rewrite name_cmp_spec. unfold spec_cmp.
  rewrite H. now destruct (fqdn b).
Qed.
Print Assumptions C04_cmp_is_rfc4034.

(* what the left-justified order used in rfc4034_cmp means, at both levels (octets within a
   label, labels within a name): a proper prefix sorts first ("absence of an octet sorts
   before a zero octet"), otherwise the first differing position decides *)
Theorem C04_canonical_order_meaning : forall (l r : list (list N)),
  lex (lex N.compare) l r = Lt <->
  (exists y r', r = l ++ y :: r') \/
  (exists p x y l' r', l = p ++ x :: l' /\ r = p ++ y :: r' /\
     ((exists z y', y = x ++ z :: y') \/
      (exists q u v x' y', x = q ++ u :: x' /\ y = q ++ v :: y' /\ u < v))).
Proof.
  intros l r. rewrite (lex_lt_iff _ (lex_good _ N_compare_good)).
  split; (intros [H|(p & x & y & l' & r' & H1 & H2 & H3)]; [left; exact H|right]);
    exists p, x, y, l', r'; (split; [exact H1|split; [exact H2|]]).
  - apply (lex_lt_iff _ N_compare_good) in H3.
    destruct H3 as [H3|(q & u & v & x' & y' & E1 & E2 & E3)]; [left; exact H3|right].
    exists q, u, v, x', y'. rewrite N.compare_lt_iff in E3. auto.
  - apply (lex_lt_iff _ N_compare_good).
    destruct H3 as [H3|(q & u & v & x' & y' & E1 & E2 & E3)]; [left; exact H3|right].
    exists q, u, v, x', y'. rewrite N.compare_lt_iff. auto.
Qed.
Print Assumptions C04_canonical_order_meaning.

(* cmp is a total order up to ==: reflexive, antisymmetric (cmp b a is the reverse of
   cmp a b, so any two names are comparable), transitive, and Equal is a congruence *)
Theorem C04_cmp_total_order : forall a b c,
  name_cmp a a = Eq /\
  name_cmp b a = CompOpp (name_cmp a b) /\
  (name_cmp a b = Lt -> name_cmp b c = Lt -> name_cmp a c = Lt) /\
  (name_cmp a b = Eq -> name_cmp b c = name_cmp a c).
Proof.
  intros a b c. rewrite !name_cmp_spec.
  split; [apply spec_cmp_refl|]. split; [apply spec_cmp_sym|].
  split; [apply spec_cmp_trans|apply spec_cmp_eq_l].
Qed.
Print Assumptions C04_cmp_total_order.

(* the order is consistent with equality *)
Theorem C04_cmp_eq_iff : forall a b, name_cmp a b = Eq <-> name_eq a b = true.
Proof. intros a b. symmetry. apply name_eq_cmp. Qed.
Print Assumptions C04_cmp_eq_iff.

(* the case-sensitive comparison (eq_case, used by LowerName) is structural equality, and
   Label's own comparison is Equal exactly on labels equal up to ASCII case *)
Theorem C04_eq_case_iff : forall a b l r,
  (eq_case a b = true <-> a = b) /\
  (cmp_label CaseInsensitive l r = Eq <-> label_equiv l r).
Proof. intros a b l r. split; [apply eq_case_iff|apply cmp_label_eq_iff]. Qed.
Print Assumptions C04_eq_case_iff.

(* LowerName (zone keys) orders, compares and hashes consistently with Name; RrKey equality *)
Theorem C04_lowername_agrees : forall a b,
  lname_cmp a b = name_cmp a b /\ lname_eq a b = name_eq a b /\
  (lname_eq a b = true -> lname_hash_stream a = lname_hash_stream b) /\
  (forall ta tb, rrkey_cmp a ta b tb = Eq <-> name_eq a b = true /\ ta = tb).
Proof.
  intros a b. split; [apply lname_cmp_name_cmp|]. split; [apply lname_eq_name_eq|].
  split; [apply lname_hash_respects_eq|]. intros ta tb. apply rrkey_cmp_eq_iff.
Qed.
Print Assumptions C04_lowername_agrees.

(* ---------------------------------------------------------------- length limits *)

(* every name obtainable from the constructors and combinators (new, root, set_fqdn,
   from_labels, append_label, prepend_label, append_name, append_domain, to_lowercase,
   trim_to, base_name, into_wildcard, from_ascii, from-wire read with pointers) has labels
   of 1..63 octets and at most 255 octets in wire form *)
Theorem C04_limits_all_constructors : forall n, built n -> wf n.
Proof. exact built_wf. Qed.
Print Assumptions C04_limits_all_constructors.

(* the decoder, on any buffer and offset (compression pointers included) *)
Theorem C04_limits_from_wire : forall buf off n i,
  read_name buf off = Ok (n, i) -> wf n /\ fqdn n = true.
Proof.
  intros buf off n i H. split; [now apply (read_name_wf buf off n i)|].
  unfold read_name in H. destruct (length buf <? off)%nat; [discriminate|].
  eapply read_loop_fqdn; [|exact H]. intro; discriminate.
Qed.
Print Assumptions C04_limits_from_wire.

(* the limits are not over-enforced: from_labels / append_name accept exactly what fits and
   return the labels unchanged *)
Theorem C04_constructors_exact : forall raws a b,
  from_labels raws =
    (if forallb raw_ok raws && (wl raws + 1 <=? 255)%nat then Ok (mkName true raws) else Err) /\
  (wf a -> append_name a b =
    (if (wire_len a + wl (labels b) <=? 255)%nat then Ok (mkName (fqdn b) (labels a ++ labels b)) else Err)).
Proof.
  intros raws a b. split; [apply from_labels_spec|]. intros [_ H]. now apply append_name_spec.
Qed.
Print Assumptions C04_constructors_exact.

(* trim_to / base_name unwrap() a from_labels result: never a panic on names within limits *)
Theorem C04_trim_never_panics : forall a k, wf a ->
  (exists n, trim_to a k = Ok n /\ wf n) /\ (exists n, base_name a = Ok n /\ wf n).
Proof. intros a k H. split; [now apply trim_to_wf|now apply base_name_wf]. Qed.
Print Assumptions C04_trim_never_panics.

(* the flat storage (label_data + u8 end offsets) represents every name within limits
   faithfully; extend_name and into_wildcard (which has no length check of its own and casts
   with `as u8`) on it compute the flat image of the same operation on labels *)
Theorem C04_flat_repr_faithful : forall n, wf n ->
  flat_labels (flat_of n) = Ok (labels n) /\
  (forall l, flat_extend (flat_of n) l =
             match extend_name n l with Ok n' => Ok (flat_of n') | Err => Err | Panic => Panic end) /\
  flat_into_wildcard (flat_of n) = Ok (flat_of (into_wildcard n)).
Proof.
  intros n H. split; [now apply flat_repr_faithful|]. split; [intros l; apply flat_extend_refines|].
  now apply flat_into_wildcard_refines.
Qed.
Print Assumptions C04_flat_repr_faithful.

(* ... and that is why the 255 guard matters: beyond it the u8 offsets wrap *)
Theorem C04_flat_repr_needs_limit_refuted :
  exists n, ~ wf n /\ flat_labels (flat_of n) <> Ok (labels n).
Proof.
  exists (mkName true (repeat (repeat 97 60) 5)). split.
  - intros [_ H]. vm_compute in H. lia.
  - vm_compute. discriminate.
Qed.
Print Assumptions C04_flat_repr_needs_limit_refuted.

(* ---------------------------------------------------------------- text form *)

(* host-style names (letters, digits, '_', '.', non-leading '-', leading '*') survive
   to_ascii / from_ascii unchanged, letter case and fqdn flag included *)
Theorem C04_text_roundtrip : forall n, wf n -> octets n -> host_style n ->
  from_ascii (to_ascii n) = Ok n.
Proof.
  intros n Hw Ho Hh. rewrite (text_roundtrip_exact n Hw Ho).
  apply host_style_forallb in Hh. now rewrite Hh.
Qed.
Print Assumptions C04_text_roundtrip.

(* for every other name within limits the text is rejected on re-parsing: the round trip
   never yields a different name *)
Theorem C04_text_roundtrip_exact : forall n, wf n -> octets n ->
  (host_style n /\ from_ascii (to_ascii n) = Ok n) \/
  (~ host_style n /\ from_ascii (to_ascii n) = Err).
Proof.
  intros n Hw Ho. rewrite (text_roundtrip_exact n Hw Ho). rewrite host_style_forallb.
  destruct (forallb host_labelb (labels n)); [left|right]; split; auto.
Qed.
Print Assumptions C04_text_roundtrip_exact.

(* ---------------------------------------------------------------- wire form *)

(* uncompressed emit, then read at any offset inside any surrounding bytes: same labels,
   octet for octet (no case change, arbitrary octets), fully qualified, and the decoder stops
   exactly behind the name.  PARTIAL with respect to the property text: compressed encoding
   (pointer table of BinEncoder) is not modelled here; it is exercised by the harness oracle
   (names written with compression into one buffer and read back) and belongs to C02. *)
Theorem C04_wire_roundtrip_partial : forall n pre suf, wf n ->
  exists enc, emit_name false n = Ok enc /\
    read_name (pre ++ enc ++ suf) (length pre) = Ok (set_fqdn n true, (length pre + length enc)%nat).
Proof. intros n pre suf H. now apply wire_roundtrip. Qed.
Print Assumptions C04_wire_roundtrip_partial.

(* ---------------------------------------------------------------- non-vacuity *)

(* the nine names of RFC 4034 6.1 are strictly increasing under the code's cmp *)
Example C04_rfc4034_example_list : strictly_sorted name_cmp rfc_example_names = true.
Proof. vm_compute. reflexivity. Qed.

(* spec_eq: names differing only in case / differing in a non-letter octet with bit 0x20 *)
Example C04_eq_example :
  let a := mkName true [[119; 87; 119]; [64; 91]] in
  let b := mkName true [[87; 119; 87]; [64; 91]] in
  let c := mkName true [[119; 87; 119]; [96; 123]] in
  spec_eq a b /\ name_eq a b = true /\ name_eq a c = false /\ hash_stream a = hash_stream b.
Proof.
  cbv zeta. split; [|vm_compute; auto].
  split; [reflexivity|]. repeat constructor; unfold case_equiv; lia.
Qed.

(* hash ignores label boundaries (a collision, not an inequality of equal names) *)
Example C04_hash_boundary_example :
  let a := mkName true [[97; 98]; [99]] in
  let b := mkName true [[97]; [98; 99]] in
  name_eq a b = false /\ hash_stream a = hash_stream b.
Proof. vm_compute. auto. Qed.

(* order laws: a strictly ascending chain with a prefix, a case variant and a length tie *)
Example C04_order_example :
  let a := mkName true [[99; 111; 109]] in
  let b := mkName true [[65]; [99; 111; 109]] in
  let b' := mkName true [[97]; [67; 79; 77]] in
  let c := mkName true [[97; 0]; [99; 111; 109]] in
  name_cmp a b = Lt /\ name_cmp b c = Lt /\ name_cmp a c = Lt /\ name_cmp b b' = Eq /\
  name_cmp b' c = Lt /\ name_cmp (mkName false [[122]]) a = Lt.
Proof. vm_compute. repeat split. Qed.

(* limits: a 255-octet name is built, one more octet is refused *)
Example C04_limits_example :
  let l63 := repeat 97 63 in
  let n := mkName true [l63; l63; l63; repeat 98 61] in
  built n /\ wf n /\ wire_len n = 255%nat /\ append_label n [120] = Err /\
  from_labels [l63; l63; l63; repeat 98 62] = Err /\ from_labels [repeat 97 64] = Err.
Proof.
  cbv zeta. split; [apply (b_from_labels [repeat 97 63; repeat 97 63; repeat 97 63; repeat 98 61]); vm_compute; reflexivity|].
  split; [split; [repeat constructor; cbn; lia|vm_compute; lia]|]. vm_compute. auto.
Qed.

(* text: a host-style name with an escaped dot, a leading '*', mixed case; and names that do
   not come back: leading '-', '*' inside a label, an octet >= 0x80 *)
Example C04_text_example :
  let n := mkName true [[42]; [97; 46; 66]; [95; 120; 45; 49]] in
  wf n /\ octets n /\ host_style n /\
  to_ascii n = [42; 46; 97; 92; 46; 66; 46; 95; 120; 45; 49; 46] /\
  from_ascii (to_ascii n) = Ok n /\
  from_ascii (to_ascii (mkName true [[45; 97]])) = Err /\
  from_ascii (to_ascii (mkName true [[97; 42]])) = Err /\
  to_ascii (mkName false [[200; 0]]) = [92; 51; 49; 48; 92; 48; 48; 48] /\
  from_ascii (to_ascii (mkName false [[200; 0]])) = Err.
Proof.
  cbv zeta. split; [split; [repeat constructor; cbn; lia|vm_compute; lia]|].
  split; [repeat constructor; lia|].
  split; [apply host_style_forallb; vm_compute; reflexivity|]. vm_compute. repeat split.
Qed.

(* wire: arbitrary octets (dot, backslash, NUL, 0xff, upper case) at offset 3 *)
Example C04_wire_example :
  let n := mkName true [[46; 92; 0]; [255; 65]] in
  wf n /\ emit_name false n = Ok [3; 46; 92; 0; 2; 255; 65; 0] /\
  read_name ([9; 9; 9] ++ [3; 46; 92; 0; 2; 255; 65; 0] ++ [7]) 3 = Ok (n, 11%nat) /\
  (* a compressed reference to it decodes to the same labels *)
  read_name ([9; 9; 9] ++ [3; 46; 92; 0; 2; 255; 65; 0] ++ [1; 120; 192; 7]) 11
    = Ok (mkName true [[120]; [255; 65]], 15%nat).
Proof. cbv zeta. split; [split; [repeat constructor; cbn; lia|vm_compute; lia]|]. vm_compute. repeat split. Qed.
