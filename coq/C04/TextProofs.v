(* C04 — to_ascii followed by from_ascii: exact outcome for every name within limits. *)
From HV Require Import Lib.Base C04.Model C04.LimitProofs.
Open Scope N_scope.

(* effect of a string that neither ends a label nor fails: pushed characters, final state *)
Fixpoint run_chars (s : list N) (st : pstate) : option (list N * pstate) :=
  match s with
  | [] => Some ([], st)
  | ch :: s' =>
      match char_step st ch with
      | APush c st' => match run_chars s' st' with
                       | Some (p, st'') => Some (c :: p, st'')
                       | None => None
                       end
      | AGo st' => run_chars s' st'
      | _ => None
      end
  end.

Lemma run_chars_parse s : forall st p st' rest nm lrev,
  run_chars s st = Some (p, st') ->
  parse_loop (s ++ rest) st nm lrev = parse_loop rest st' nm (rev p ++ lrev).
Proof.
  induction s as [|ch s IH]; intros st p st' rest nm lrev H; cbn [run_chars] in H; cbn [app parse_loop].
  - inversion H; subst. reflexivity.
  - destruct (char_step st ch) as [c st1|st1| |]; try discriminate.
    + destruct (run_chars s st1) as [[p1 st2]|] eqn:E; [|discriminate]. inversion H; subst.
      rewrite (IH _ _ _ rest nm (c :: lrev) E). cbn [rev]. now rewrite <- app_assoc.
    + now apply IH.
Qed.

Lemma run_chars_app s1 : forall s2 st p1 st1 p2 st2,
  run_chars s1 st = Some (p1, st1) -> run_chars s2 st1 = Some (p2, st2) ->
  run_chars (s1 ++ s2) st = Some (p1 ++ p2, st2).
Proof.
  induction s1 as [|ch s1 IH]; intros s2 st p1 st1 p2 st2 H1 H2; cbn [run_chars app] in *.
  - inversion H1; subst. exact H2.
  - destruct (char_step st ch) as [c sta|sta| |]; try discriminate.
    + destruct (run_chars s1 sta) as [[q stb]|] eqn:E; [|discriminate]. inversion H1; subst.
      now rewrite (IH _ _ _ _ _ _ E H2).
    + now apply (IH _ _ _ _ _ _ H1 H2).
Qed.

(* every octet, written by escape_byte, is read back as itself: all 256 values, both positions *)
Definition esc_ok (b : N) (first : bool) : bool :=
  match run_chars (escape_byte b first) PLabel with
  | Some ([c], PLabel) => c =? b
  | _ => false
  end.

Lemma esc_sweep :
  forallb (fun k => esc_ok (N.of_nat k) true && esc_ok (N.of_nat k) false) (seq 0 256) = true.
Proof. vm_compute. reflexivity. Qed.

Lemma escape_byte_run b first : b < 256 ->
  run_chars (escape_byte b first) PLabel = Some ([b], PLabel).
Proof.
  intros Hb. pose proof esc_sweep as H. rewrite forallb_forall in H.
  specialize (H (N.to_nat b)). rewrite N2Nat.id in H.
  assert (Hin : In (N.to_nat b) (seq 0 256)) by (apply in_seq; lia).
  apply H in Hin. apply andb_true_iff in Hin. destruct Hin as [H1 H2].
  assert (E : esc_ok b first = true) by (destruct first; assumption).
  unfold esc_ok in E.
  destruct (run_chars (escape_byte b first) PLabel) as [[p st]|]; [|discriminate].
  destruct p as [|c [|? ?]]; try discriminate. destruct st; try discriminate.
  apply N.eqb_eq in E. now subst.
Qed.

Lemma flat_map_escape_run t : Forall (fun b => b < 256) t ->
  run_chars (flat_map (fun c => escape_byte c false) t) PLabel = Some (t, PLabel).
Proof.
  induction 1 as [|b t Hb _ IH]; cbn [flat_map]; [reflexivity|].
  apply (run_chars_app _ _ _ [b] PLabel t PLabel); [now apply escape_byte_run|exact IH].
Qed.

Lemma write_ascii_run l : Forall (fun b => b < 256) l ->
  run_chars (write_ascii l) PLabel = Some (l, PLabel).
Proof.
  intros H. destruct l as [|b t]; [reflexivity|]. inversion H; subst. cbn [write_ascii].
  apply (run_chars_app _ _ _ [b] PLabel t PLabel); [now apply escape_byte_run|now apply flat_map_escape_run].
Qed.

Lemma write_ascii_parse l rest nm : Forall (fun b => b < 256) l ->
  parse_loop (write_ascii l ++ rest) PLabel nm [] = parse_loop rest PLabel nm (rev l).
Proof.
  intros H. rewrite (run_chars_parse _ _ _ _ rest nm [] (write_ascii_run l H)). now rewrite app_nil_r.
Qed.

(* ------------------------------------------------------------------ *)
(* shape of to_ascii *)

Definition dotted (ls : list label) : list N := flat_map (fun l => write_ascii l ++ [46]) ls.
Definition joined (ls : list label) : list N :=
  match ls with [] => [] | l :: t => write_ascii l ++ write_rest t end.

Lemma write_rest_joined y r : write_rest (y :: r) = 46 :: joined (y :: r).
Proof. reflexivity. Qed.

Lemma joined_snoc init lk : joined (init ++ [lk]) = dotted init ++ write_ascii lk.
Proof.
  induction init as [|x init IH].
  - cbn [app joined write_rest dotted flat_map]. now rewrite app_nil_r.
  - cbn [app]. unfold joined at 1.
    destruct (init ++ [lk]) as [|y r] eqn:E; [destruct init; discriminate|].
    rewrite write_rest_joined, IH. cbn [dotted flat_map]. fold (dotted init).
    rewrite <- !app_assoc. reflexivity.
Qed.

Lemma dotted_app a b : dotted (a ++ b) = dotted a ++ dotted b.
Proof. unfold dotted. apply flat_map_app. Qed.

Lemma to_ascii_joined n : to_ascii n = joined (labels n) ++ (if fqdn n then [46] else []).
Proof. unfold to_ascii, joined. destruct (labels n); reflexivity. Qed.

(* the first character of a written label is never an unescaped dot *)
Lemma escape_byte_hd b f : exists c r, escape_byte b f = c :: r /\ c <> 46.
Proof.
  unfold escape_byte. destruct (is_safe_ascii b f true) eqn:E.
  - exists b, []. split; [reflexivity|]. intros ->. destruct f; vm_compute in E; discriminate.
  - destruct ((32 <? b) && (b <? 127)); eexists; eexists; (split; [reflexivity|discriminate]).
Qed.

Lemma joined_hd l t : l <> [] -> exists c r, joined (l :: t) = c :: r /\ c <> 46.
Proof.
  intros Hl. destruct l as [|b l']; [congruence|]. cbn [joined write_ascii].
  destruct (escape_byte_hd b true) as (c & r & E & Hc). rewrite E.
  exists c. eexists. split; [reflexivity|exact Hc].
Qed.

(* ------------------------------------------------------------------ *)
(* pushing labels *)

Fixpoint push_all (nm : name) (ls : list label) : res name :=
  match ls with
  | [] => Ok nm
  | l :: t => match push_text_label nm l with
              | Ok nm' => push_all nm' t
              | e => e
              end
  end.

Lemma parse_dotted ls : forall nm rest, Forall (Forall (fun b => b < 256)) ls ->
  parse_loop (dotted ls ++ rest) PLabel nm [] =
  match push_all nm ls with
  | Ok nm' => parse_loop rest PLabel nm' []
  | Err => Err
  | Panic => Panic
  end.
Proof.
  induction ls as [|l ls IH]; intros nm rest H; cbn [dotted flat_map app push_all]; [reflexivity|].
  inversion H as [|? ? Hl Hls]; subst. fold (dotted ls).
  rewrite <- !app_assoc. rewrite write_ascii_parse by exact Hl.
  cbn [app parse_loop]. replace (char_step PLabel 46) with AEnd by reflexivity.
  rewrite rev_involutive.
  destruct (push_text_label nm l) as [nm'| |]; try reflexivity. now apply IH.
Qed.

Lemma utf8_len_ascii s : forallb (fun x => x <? 128) s = true -> utf8_len s = length s.
Proof.
  induction s as [|c s IH]; cbn [forallb utf8_len fold_right length]; [reflexivity|].
  intros H. apply andb_true_iff in H. destruct H as [H1 H2]. rewrite H1. fold (utf8_len s).
  now rewrite IH.
Qed.

Lemma safe_lt128 c f e : is_safe_ascii c f e = true -> (c <? 128) = true.
Proof.
  unfold is_safe_ascii. destruct (128 <=? c) eqn:E; [discriminate|]. intros _.
  apply N.leb_gt in E. now apply N.ltb_lt.
Qed.

Lemma host_label_ascii l : host_labelb l = true -> forallb (fun x => x <? 128) l = true.
Proof.
  destruct l as [|c t]; [discriminate|]. cbn [host_labelb forallb]. intros H.
  apply andb_true_iff in H. destruct H as [H1 H2]. apply andb_true_iff. split.
  - now apply (safe_lt128 c true false).
  - apply forallb_forall. intros x Hx. rewrite forallb_forall in H2.
    now apply (safe_lt128 x false false), H2.
Qed.

(* Label::from_ascii accepts a label of 1..63 octets exactly when it is host-style *)
Lemma label_from_ascii_spec l : label_ok l ->
  label_from_ascii l = if host_labelb l then Ok l else Err.
Proof.
  intros Hl. unfold label_from_ascii.
  destruct (host_labelb l) eqn:Eh.
  - pose proof (host_label_ascii l Eh) as Ha. rewrite (utf8_len_ascii l Ha).
    destruct (63 <? length l)%nat eqn:E1; [apply Nat.ltb_lt in E1; unfold label_ok in Hl; lia|].
    destruct (list_eqb N.eqb l [42]) eqn:E2.
    + apply bytes_eqb_eq in E2. now subst.
    + destruct l as [|c t]; [discriminate|]. rewrite Ha. cbn [host_labelb] in Eh.
      change (forallb (host_octetb false) t) with (forallb (fun x => is_safe_ascii x false false) t) in Eh.
      unfold host_octetb in Eh. cbn [andb]. rewrite Eh. rewrite label_from_raw_spec.
      apply raw_ok_iff in Hl. now rewrite Hl.
  - destruct (63 <? utf8_len l)%nat; [reflexivity|].
    destruct (list_eqb N.eqb l [42]) eqn:E2.
    + apply bytes_eqb_eq in E2. subst. vm_compute in Eh. discriminate.
    + destruct l as [|c t]; [reflexivity|]. cbn [host_labelb] in Eh.
      change (forallb (host_octetb false) t) with (forallb (fun x => is_safe_ascii x false false) t) in Eh.
      unfold host_octetb in Eh.
      rewrite <- andb_assoc, Eh, andb_false_r. reflexivity.
Qed.

Lemma extend_name_not_panic nm l : extend_name nm l <> Panic.
Proof. unfold extend_name. destruct (_ <? _)%nat; discriminate. Qed.

Lemma extend_all_not_panic ls : forall nm, extend_all nm ls <> Panic.
Proof.
  induction ls as [|l ls IH]; intros nm; cbn [extend_all]; [discriminate|].
  destruct (extend_name nm l) eqn:E; [apply IH|discriminate|]. now apply extend_name_not_panic in E.
Qed.

Lemma push_all_spec ls : forall nm, Forall label_ok ls ->
  push_all nm ls = if forallb host_labelb ls then extend_all nm ls else Err.
Proof.
  induction ls as [|l ls IH]; intros nm H; cbn [push_all forallb extend_all]; [reflexivity|].
  inversion H as [|? ? Hl Hls]; subst. unfold push_text_label.
  rewrite (label_from_ascii_spec l Hl). destruct (host_labelb l); cbn [andb].
  - destruct (extend_name nm l) as [nm'| |] eqn:E.
    + now apply IH.
    + now destruct (forallb host_labelb ls).
    + now apply extend_name_not_panic in E.
  - reflexivity.
Qed.

(* ------------------------------------------------------------------ *)
(* the round trip *)

Lemma list_eqb_hd c r : c <> 46 -> list_eqb N.eqb (c :: r) [46] = false.
Proof. intros H. cbn [list_eqb]. apply N.eqb_neq in H. now rewrite H. Qed.

Lemma text_roundtrip_exact n : wf n -> octets n ->
  from_ascii (to_ascii n) = if forallb host_labelb (labels n) then Ok n else Err.
Proof.
  intros [Hok Hlen] Hoct. rewrite to_ascii_joined. destruct n as [fq ls]. cbn [fqdn labels] in *.
  unfold octets in Hoct. cbn [labels] in Hoct.
  destruct ls as [|l0 t0] eqn:Els.
  - (* no labels *) destruct fq; reflexivity.
  - assert (Hne : ls <> []) by congruence.
    rewrite <- Els in *. clear l0 t0 Els.
    destruct (exists_last Hne) as (init & lk & Els).
    assert (Hl0 : exists l t, ls = l :: t /\ l <> []).
    { destruct ls as [|l t]; [congruence|]. exists l, t. split; [reflexivity|].
      inversion Hok as [|? ? Hl _]; subst. unfold label_ok in Hl. destruct l; cbn in *; [lia|discriminate]. }
    destruct Hl0 as (l & t & Elt & Hlne).
    destruct (joined_hd l t Hlne) as (c & r & Ej & Hc). rewrite <- Elt in Ej.
    assert (Hwl : (wl ls + 1 <= 255)%nat) by (rewrite wire_len_wl in Hlen; exact Hlen).
    assert (Hext : extend_all name_new ls = Ok (mkName false ls)).
    { rewrite extend_all_spec by (cbn; lia).
      replace (wire_len name_new + wl ls)%nat with (wl ls + 1)%nat by (cbn; lia).
      apply Nat.leb_le in Hwl. now rewrite Hwl. }
    unfold from_ascii.
    destruct fq.
    + (* fully qualified: every label is closed by a dot *)
      assert (Es : joined ls ++ [46] = dotted ls).
      { rewrite Els, joined_snoc, dotted_app. cbn [dotted flat_map]. now rewrite app_nil_r, <- app_assoc. }
      rewrite Ej. cbn [app]. rewrite (list_eqb_hd c _ Hc).
      change (c :: r ++ [46]) with ((c :: r) ++ [46]). rewrite <- Ej, Es.
      rewrite <- (app_nil_r (dotted ls)). rewrite parse_dotted by exact Hoct.
      rewrite push_all_spec by exact Hok.
      destruct (forallb host_labelb ls).
      * rewrite Hext. reflexivity.
      * reflexivity.
    + (* relative: the last label is pending when the input ends *)
      rewrite app_nil_r, Ej, (list_eqb_hd c r Hc), <- Ej.
      clear Ej. subst ls. rewrite joined_snoc.
      assert (Hoct2 : Forall (Forall (fun b => b < 256)) init /\ Forall (fun b => b < 256) lk).
      { apply Forall_app in Hoct. destruct Hoct as [H1 H2]. split; [exact H1|]. now inversion H2. }
      destruct Hoct2 as [Hoi Hok2].
      rewrite parse_dotted by exact Hoi.
      assert (Hokk : label_ok lk).
      { apply Forall_app in Hok. destruct Hok as [H1 H2]. now inversion H2. }
      pose proof (push_all_spec (init ++ [lk]) name_new Hok) as Hp.
      assert (Hsplit : forall nm, push_all nm (init ++ [lk]) =
                match push_all nm init with Ok nm' => push_text_label nm' lk | e => e end).
      { clear. induction init as [|x init IH]; intros nm; cbn [app push_all].
        - destruct (push_text_label nm lk); reflexivity.
        - destruct (push_text_label nm x); try reflexivity. apply IH. }
      rewrite Hsplit in Hp.
      rewrite <- (app_nil_r (write_ascii lk)).
      destruct (push_all name_new init) as [nm1| |] eqn:E1.
      * rewrite write_ascii_parse by exact Hok2. cbn [parse_loop].
        destruct (rev lk) as [|x xs] eqn:Er.
        { apply (f_equal (@rev N)) in Er. rewrite rev_involutive in Er. cbn in Er. subst lk.
          unfold label_ok in Hokk. cbn in Hokk. lia. }
        rewrite <- Er, rev_involutive, Hp.
        destruct (forallb host_labelb (init ++ [lk])); [exact Hext|reflexivity].
      * destruct (forallb host_labelb (init ++ [lk])); [|reflexivity].
        rewrite Hext in Hp. discriminate.
      * destruct (forallb host_labelb (init ++ [lk])); [|discriminate Hp].
        rewrite Hext in Hp. discriminate.
Qed.

(* host_style as a proposition and as the boolean used above *)
Definition hb (f : bool) (b : N) : bool :=
  ((48 <=? b) && (b <=? 57)) || ((65 <=? b) && (b <=? 90)) || ((97 <=? b) && (b <=? 122))
  || (b =? 95) || (b =? 46) || ((b =? 45) && negb f) || ((b =? 42) && f).

Lemma hb_iff f b : hb f b = true <-> host_octet f b.
Proof.
  unfold hb, host_octet.
  rewrite !orb_true_iff, !andb_true_iff, !N.leb_le, !N.eqb_eq, negb_true_iff.
  destruct f; intuition congruence.
Qed.

Lemma hb_sweep :
  forallb (fun k => Bool.eqb (host_octetb true (N.of_nat k)) (hb true (N.of_nat k))
                    && Bool.eqb (host_octetb false (N.of_nat k)) (hb false (N.of_nat k)))
          (seq 0 128) = true.
Proof. vm_compute. reflexivity. Qed.

Lemma host_octetb_hb f b : host_octetb f b = hb f b.
Proof.
  destruct (128 <=? b) eqn:E.
  - unfold host_octetb, is_safe_ascii. rewrite E. apply N.leb_le in E.
    destruct (hb f b) eqn:Eh; [|reflexivity]. apply hb_iff in Eh. unfold host_octet in Eh. lia.
  - apply N.leb_gt in E. pose proof hb_sweep as H. rewrite forallb_forall in H.
    specialize (H (N.to_nat b)). rewrite N2Nat.id in H.
    assert (Hin : In (N.to_nat b) (seq 0 128)) by (apply in_seq; lia).
    apply H in Hin. apply andb_true_iff in Hin. destruct Hin as [H1 H2].
    destruct f; now apply Bool.eqb_prop.
Qed.

Lemma host_octetb_iff f b : host_octetb f b = true <-> host_octet f b.
Proof. rewrite host_octetb_hb. apply hb_iff. Qed.

Lemma host_labelb_iff l : host_labelb l = true <-> host_label l.
Proof.
  destruct l as [|b t]; cbn [host_labelb host_label]; [split; [discriminate|tauto]|].
  rewrite andb_true_iff, host_octetb_iff, forallb_forall, Forall_forall.
  split; intros [H1 H2]; (split; [exact H1|]); intros x Hx; apply host_octetb_iff; now apply H2.
Qed.

Lemma host_style_forallb n : host_style n <-> forallb host_labelb (labels n) = true.
Proof.
  unfold host_style. rewrite forallb_forall, Forall_forall.
  split; intros H x Hx; apply host_labelb_iff; now apply H.
Qed.
