(* C08 — the canonical order on names (lexicographic on root-first label lists) is a
   total order; prefixes (ancestors) and the order: subtrees are convex. *)
From HV Require Import Lib.Base C08.Model.
Open Scope N_scope.

Section LexOrder.
  Context {A : Type} (c : A -> A -> comparison).
  Hypothesis c_eq : forall x y, c x y = Eq <-> x = y.
  Hypothesis c_anti : forall x y, c y x = CompOpp (c x y).
  Hypothesis c_trans : forall x y z, c x y = Lt -> c y z = Lt -> c x z = Lt.

  Lemma c_refl x : c x x = Eq.
  Proof. now apply c_eq. Qed.

  Lemma lex_eq : forall a b, lex_cmp c a b = Eq <-> a = b.
  Proof.
    induction a as [|x a IH]; intros [|y b]; cbn [lex_cmp]; try (split; congruence).
    destruct (c x y) eqn:E.
    - apply c_eq in E. subst y. rewrite IH. split; [intros ->; reflexivity|intros H; now inversion H].
    - split; [discriminate|]. intros H; inversion H; subst. rewrite c_refl in E. discriminate.
    - split; [discriminate|]. intros H; inversion H; subst. rewrite c_refl in E. discriminate.
  Qed.

  Lemma lex_refl a : lex_cmp c a a = Eq.
  Proof. now apply lex_eq. Qed.

  Lemma lex_anti : forall a b, lex_cmp c b a = CompOpp (lex_cmp c a b).
  Proof.
    induction a as [|x a IH]; intros [|y b]; cbn [lex_cmp]; try reflexivity.
    rewrite (c_anti x y). destruct (c x y); cbn [CompOpp]; auto.
  Qed.

  Lemma lex_trans : forall a b d, lex_cmp c a b = Lt -> lex_cmp c b d = Lt -> lex_cmp c a d = Lt.
  Proof.
    induction a as [|x a IH]; intros [|y b] [|w d]; cbn [lex_cmp]; try congruence.
    destruct (c x y) eqn:E1; try discriminate.
    - apply c_eq in E1. subst y. destruct (c x w) eqn:E2; try congruence. apply IH.
    - destruct (c y w) eqn:E2; try discriminate.
      + apply c_eq in E2. subst w. rewrite E1. reflexivity.
      + rewrite (c_trans _ _ _ E1 E2). reflexivity.
  Qed.

  Lemma lex_app_r : forall p r, lex_cmp c p (p ++ r) = match r with [] => Eq | _ => Lt end.
  Proof.
    induction p as [|x p IH]; intros r; cbn [lex_cmp app].
    - destruct r; reflexivity.
    - rewrite c_refl. apply IH.
  Qed.

  (* a <= b <= d and p a prefix of both a and d: p is a prefix of b *)
  Lemma lex_convex : forall p a b d ra rd,
    a = p ++ ra -> d = p ++ rd ->
    lex_cmp c a b <> Gt -> lex_cmp c b d <> Gt -> exists rb, b = p ++ rb.
  Proof.
    induction p as [|x p IH]; intros a b d ra rd Ha Hd H1 H2.
    - exists b. reflexivity.
    - subst a d. cbn [app] in *. destruct b as [|y b]; cbn [lex_cmp] in H1, H2.
      + congruence.
      + destruct (c x y) eqn:E1.
        * apply c_eq in E1. subst y. rewrite c_refl in H2.
          destruct (IH (p ++ ra) b (p ++ rd) ra rd eq_refl eq_refl H1 H2) as [rb ->].
          exists rb. reflexivity.
        * rewrite (c_anti x y), E1 in H2. cbn in H2. congruence.
        * congruence.
  Qed.
End LexOrder.

(* ---- instances ---- *)

Lemma Ncmp_eq x y : N.compare x y = Eq <-> x = y.
Proof. apply N.compare_eq_iff. Qed.
Lemma Ncmp_anti x y : N.compare y x = CompOpp (N.compare x y).
Proof. apply N.compare_antisym. Qed.
Lemma Ncmp_trans x y z : N.compare x y = Lt -> N.compare y z = Lt -> N.compare x z = Lt.
Proof. rewrite !N.compare_lt_iff. lia. Qed.

Lemma label_cmp_eq x y : label_cmp x y = Eq <-> x = y.
Proof. apply lex_eq. apply Ncmp_eq. Qed.
Lemma label_cmp_anti x y : label_cmp y x = CompOpp (label_cmp x y).
Proof. apply lex_anti. apply Ncmp_anti. Qed.
Lemma label_cmp_trans x y z : label_cmp x y = Lt -> label_cmp y z = Lt -> label_cmp x z = Lt.
Proof. apply lex_trans; [apply Ncmp_eq|apply Ncmp_trans]. Qed.

Lemma name_cmp_eq a b : name_cmp a b = Eq <-> a = b.
Proof. apply lex_eq. apply label_cmp_eq. Qed.
Lemma name_cmp_refl a : name_cmp a a = Eq.
Proof. now apply name_cmp_eq. Qed.
Lemma name_cmp_anti a b : name_cmp b a = CompOpp (name_cmp a b).
Proof. apply lex_anti. apply label_cmp_anti. Qed.
Lemma name_cmp_trans a b d : name_cmp a b = Lt -> name_cmp b d = Lt -> name_cmp a d = Lt.
Proof. apply lex_trans; [apply label_cmp_eq|apply label_cmp_trans]. Qed.

Lemma label_eqb_eq x y : label_eqb x y = true <-> x = y.
Proof.
  unfold label_eqb. destruct (label_cmp x y) eqn:E.
  - apply label_cmp_eq in E. tauto.
  - split; [discriminate|]. intros ->. rewrite (proj2 (label_cmp_eq y y) eq_refl) in E. discriminate.
  - split; [discriminate|]. intros ->. rewrite (proj2 (label_cmp_eq y y) eq_refl) in E. discriminate.
Qed.

Lemma name_eqb_eq a b : name_eqb a b = true <-> a = b.
Proof.
  unfold name_eqb. destruct (name_cmp a b) eqn:E.
  - apply name_cmp_eq in E. tauto.
  - split; [discriminate|]. intros ->. rewrite name_cmp_refl in E. discriminate.
  - split; [discriminate|]. intros ->. rewrite name_cmp_refl in E. discriminate.
Qed.

Lemma name_ltb_lt a b : name_ltb a b = true <-> nlt a b.
Proof. unfold name_ltb, nlt. destruct (name_cmp a b); split; congruence. Qed.

Lemma name_gtb_lt a b : name_gtb a b = true <-> nlt b a.
Proof.
  unfold name_gtb, nlt. rewrite (name_cmp_anti a b).
  destruct (name_cmp a b); cbn; split; congruence.
Qed.

Lemma nlt_trans a b d : nlt a b -> nlt b d -> nlt a d.
Proof. apply name_cmp_trans. Qed.

Lemma nlt_irrefl a : ~ nlt a a.
Proof. unfold nlt. rewrite name_cmp_refl. discriminate. Qed.

Lemma nlt_nle a b : nlt a b -> nle a b.
Proof. unfold nlt, nle. congruence. Qed.

Lemma nle_refl a : nle a a.
Proof. unfold nle. rewrite name_cmp_refl. discriminate. Qed.

Lemma nle_cases a b : nle a b <-> (a = b \/ nlt a b).
Proof.
  unfold nle, nlt. destruct (name_cmp a b) eqn:E.
  - apply name_cmp_eq in E. split; [tauto|discriminate].
  - split; [tauto|discriminate].
  - split; [congruence|]. intros [->|H]; [|discriminate]. rewrite name_cmp_refl in E. discriminate.
Qed.

Lemma not_nlt_nle a b : ~ nlt a b -> nle b a.
Proof.
  unfold nlt, nle. rewrite (name_cmp_anti a b). destruct (name_cmp a b); cbn; congruence.
Qed.

Lemma nle_nlt_trans a b d : nle a b -> nlt b d -> nlt a d.
Proof. rewrite nle_cases. intros [->|H]; [auto|]. now apply nlt_trans. Qed.

Lemma nlt_nle_trans a b d : nlt a b -> nle b d -> nlt a d.
Proof. rewrite nle_cases. intros H [<-|H2]; [auto|]. now apply (nlt_trans a b). Qed.

Lemma nlt_total a b : nlt a b \/ a = b \/ nlt b a.
Proof.
  unfold nlt. rewrite (name_cmp_anti a b). destruct (name_cmp a b) eqn:E; cbn; auto.
  apply name_cmp_eq in E. auto.
Qed.

(* ---- prefixes ---- *)

Lemma prefix_refl n : prefix n n.
Proof. exists []. now rewrite app_nil_r. Qed.

Lemma prefix_nil n : prefix [] n.
Proof. now exists n. Qed.

Lemma prefix_trans a b d : prefix a b -> prefix b d -> prefix a d.
Proof. intros [r ->] [s ->]. exists (r ++ s). now rewrite app_assoc. Qed.

Lemma prefix_length p n : prefix p n -> (length p <= length n)%nat.
Proof. intros [r ->]. rewrite app_length. lia. Qed.

Lemma prefix_same_length p p' n : prefix p n -> prefix p' n -> length p = length p' -> p = p'.
Proof.
  intros [r ->] [r' E] L.
  assert (H : firstn (length p) (p ++ r) = firstn (length p) (p' ++ r')) by now rewrite E.
  rewrite firstn_app, Nat.sub_diag, firstn_all, firstn_O, app_nil_r in H.
  rewrite L, firstn_app, Nat.sub_diag, firstn_all, firstn_O, app_nil_r in H. exact H.
Qed.

Lemma prefix_antisym a b : prefix a b -> prefix b a -> a = b.
Proof.
  intros H1 H2. apply (prefix_same_length a b b H1 (prefix_refl b)).
  apply prefix_length in H1. apply prefix_length in H2. lia.
Qed.

Lemma prefix_firstn k n : prefix (firstn k n) n.
Proof. exists (skipn k n). now rewrite firstn_skipn. Qed.

Lemma prefix_is_firstn p n : prefix p n -> p = firstn (length p) n.
Proof.
  intros [r ->]. now rewrite firstn_app, Nat.sub_diag, firstn_all, firstn_O, app_nil_r.
Qed.

Lemma prefix_app p r : prefix p (p ++ r).
Proof. now exists r. Qed.

Lemma prefix_nle p n : prefix p n -> nle p n.
Proof.
  intros [r ->]. unfold nle, name_cmp.
  rewrite (lex_app_r label_cmp (fun x y => label_cmp_eq x y)). destruct r; discriminate.
Qed.

Lemma prefix_nlt p n : prefix p n -> p <> n -> nlt p n.
Proof.
  intros H Hne. apply prefix_nle in H. apply nle_cases in H. tauto.
Qed.

Lemma zone_of_prefix p n : zone_of p n = true <-> prefix p n.
Proof.
  revert n. induction p as [|x p IH]; intros n; cbn [zone_of].
  - split; [intros _; apply prefix_nil|reflexivity].
  - destruct n as [|y n].
    + split; [discriminate|]. intros [r E]. discriminate.
    + rewrite andb_true_iff, label_eqb_eq, IH. split.
      * intros [-> [r ->]]. now exists r.
      * intros [r E]. cbn in E. inversion E; subst. split; [reflexivity|now exists r].
Qed.

(* subtrees are intervals *)
Lemma convex p a b d : prefix p a -> prefix p d -> nle a b -> nle b d -> prefix p b.
Proof.
  intros [ra Ha] [rd Hd] H1 H2.
  apply (lex_convex label_cmp (fun x y => label_cmp_eq x y) label_cmp_anti p a b d ra rd Ha Hd H1 H2).
Qed.

(* ---- longest common prefix ---- *)

Lemma lcp_prefix_l a b : prefix (lcp a b) a.
Proof.
  revert b. induction a as [|x a IH]; intros b; cbn [lcp].
  - apply prefix_nil.
  - destruct b as [|y b]; [apply prefix_nil|].
    destruct (label_eqb x y); [|apply prefix_nil].
    destruct (IH b) as [r E]. exists r. cbn. now rewrite <- E.
Qed.

Lemma lcp_prefix_r a b : prefix (lcp a b) b.
Proof.
  revert b. induction a as [|x a IH]; intros b; cbn [lcp].
  - apply prefix_nil.
  - destruct b as [|y b]; [apply prefix_nil|].
    destruct (label_eqb x y) eqn:E; [|apply prefix_nil].
    apply label_eqb_eq in E. subst y.
    destruct (IH b) as [r E]. exists r. cbn. now rewrite <- E.
Qed.

Lemma lcp_greatest p a b : prefix p a -> prefix p b -> prefix p (lcp a b).
Proof.
  revert a b. induction p as [|x p IH]; intros a b Ha Hb.
  - apply prefix_nil.
  - destruct Ha as [ra ->], Hb as [rb ->]. cbn [app lcp].
    rewrite (proj2 (label_eqb_eq x x) eq_refl).
    destruct (IH (p ++ ra) (p ++ rb) (prefix_app _ _) (prefix_app _ _)) as [r E].
    exists r. cbn. now rewrite <- E.
Qed.
