(* C08 — correspondence glue: each case is one call of the real verify_nsec (inputs and the
   Proof it returned) plus the zone the NSECs were taken from, the harness's verdict on the
   response's claim in that zone, and the known class the harness assigned.  The model is
   re-run on the inputs; the known class is recomputed.

   A case travels as one packed byte string (Lib/Pack.v):
     name   = #labels, then per label: length, bytes          (root first, case folded)
     types  = #types, one byte each
     case   = apex, #owners x (name, types), qname, qtype, soa flag [name], rcode,
              #answers x (name, secure, rrsig flag, labels), #nsecs x (owner, next, types),
              observed proof, claim verdict, hypotheses-hold flag, known class

   Besides model = implementation, the check compares the harness's semantic oracle with the
   decided specification ([claimb], proved equivalent to [claim_holds]) and confirms that the
   zone is well-formed and that every NSEC handed to verify_nsec is genuine in it.          *)
From HV Require Import Lib.Base Lib.Pack C08.Model.
Open Scope N_scope.

Inductive case := Case (d : pbytes).

Definition get_byte (s : list N) : N * list N :=
  match s with [] => (0, []) | b :: s' => (b, s') end.

Fixpoint get_n {A} (f : list N -> A * list N) (k : nat) (s : list N) : list A * list N :=
  match k with
  | O => ([], s)
  | S k' => let '(x, s1) := f s in let '(xs, s2) := get_n f k' s1 in (x :: xs, s2)
  end.

Definition get_list {A} (f : list N -> A * list N) (s : list N) : list A * list N :=
  let '(k, s1) := get_byte s in get_n f (N.to_nat k) s1.

Definition get_name : list N -> name * list N := get_list (get_list get_byte).
Definition get_types : list N -> list N * list N := get_list get_byte.

Definition get_rr (s : list N) : (name * list N) * list N :=
  let '(n, s1) := get_name s in let '(t, s2) := get_types s1 in ((n, t), s2).

Definition get_ans (s : list N) : ans * list N :=
  let '(n, s1) := get_name s in
  let '(sec, s2) := get_byte s1 in
  let '(fl, s3) := get_byte s2 in
  let '(l, s4) := get_byte s3 in
  (mkAns n (N.eqb sec 1) (if N.eqb fl 1 then Some l else None), s4).

Definition get_nsec (s : list N) : nsec * list N :=
  let '(o, s1) := get_name s in
  let '(x, s2) := get_name s1 in
  let '(t, s3) := get_types s2 in
  (mkNsec o x t, s3).

Definition rc_of (n : N) : rcode := match n with 0 => NoError | 1 => NXDomain | _ => OtherRc end.
Definition obs_of (p : proof) : N := match p with Secure => 1 | Bogus => 0 end.

Record decoded := mkDec {
  d_zone : zone; d_q : name; d_qt : N; d_soa : option name; d_rc : rcode;
  d_answers : list ans; d_nsecs : list nsec; d_obs : N; d_claim : N; d_app : N; d_kn : N }.

Definition decode (c : case) : decoded :=
  match c with
  | Case d =>
      let s := unpack d in
      let '(apex, s) := get_name s in
      let '(rrs, s) := get_list get_rr s in
      let '(q, s) := get_name s in
      let '(qt, s) := get_byte s in
      let '(sf, s) := get_byte s in
      let '(soa, s) := if N.eqb sf 1 then let '(n, s') := get_name s in (Some n, s') else (None, s) in
      let '(rc, s) := get_byte s in
      let '(answers, s) := get_list get_ans s in
      let '(nsecs, s) := get_list get_nsec s in
      let '(obs, s) := get_byte s in
      let '(claim, s) := get_byte s in
      let '(app, s) := get_byte s in
      let '(kn, s) := get_byte s in
      mkDec (mkZone apex rrs) q qt soa (rc_of rc) answers nsecs obs claim app kn
  end.

Definition run (c : case) : N * N :=
  let d := decode c in
  (obs_of (verify_nsec (d_q d) (d_qt d) (d_soa d) (d_rc d) (d_answers d) (d_nsecs d)),
   known_code (d_q d) (d_qt d) (d_soa d) (d_rc d) (d_answers d) (d_nsecs d)).

Definition b2n (b : bool) : N := if b then 1 else 0.

(* the hypotheses of the soundness theorem other than well-formedness and genuineness *)
Definition applicable (d : decoded) : bool :=
  match d_soa d with None => true | Some s => name_eqb s (z_apex (d_zone d)) end
  && genuine_answersb (d_zone d) (d_answers d).

Definition spec (c : case) : N * N * bool :=
  let d := decode c in
  (b2n (claimb (d_zone d) (d_q d) (d_qt d) (d_rc d) (d_answers d)), b2n (applicable d),
   wf_zoneb (d_zone d) && forallb (genuineb (d_zone d)) (d_nsecs d)).

Definition check (c : case) : bool :=
  let d := decode c in
  let '(o, k) := run c in
  let '(cl, ap, ok) := spec c in
  N.eqb o (d_obs d) && N.eqb k (d_kn d) && N.eqb cl (d_claim d) && N.eqb ap (d_app d) && ok.

Definition bad (cs : list case) : list N := bad_idx check 0 cs.

(* decoded inputs; model verdict (1 = Secure, 0 = Bogus) and known class; specification:
   claim true?, hypotheses hold?, zone well-formed and NSECs genuine? *)
Definition show (c : case) := (decode c, run c, spec c).
