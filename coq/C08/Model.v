(* C08 — model of the NSEC denial-of-existence decision procedure
   crates/net/src/dnssec/mod.rs: verify_nsec (1726-1891), no_closer_matches (1894-1944),
   find_nsec_covering_record (1947-1958), written line by line, and the independent
   semantic specification (zones, genuine NSEC records, the claims of a response).
   No proofs in this file.

   Names are lists of labels, ROOT FIRST ("a.b.example." = [example; b; a]); a label is
   its list of bytes after ASCII case folding (Name's Ord/PartialEq are case-insensitive;
   the harness folds).  All names are fully qualified.  With this representation
     Name::zone_of        = "is a prefix of"
     Name::base_name      = removelast
     Name::prepend_label  = append at the end
     Name::cmp            = lexicographic order of the label lists, labels compared
                            as byte strings (RFC 4034 6.1)                           *)
From HV Require Import Lib.Base.
Open Scope N_scope.

Definition label := list N.
Definition name := list label.

(* ------------------------------------------------------------------ *)
(* Name operations (crates/proto/src/rr/domain/name.rs)                 *)
(* ------------------------------------------------------------------ *)

Section Lex.
  Context {A : Type} (c : A -> A -> comparison).
  (* Name::cmp_labels: compare label by label from the root, then by label count;
     a label: byte by byte, then by length.  Both are this function. *)
  Fixpoint lex_cmp (a b : list A) : comparison :=
    match a, b with
    | [], [] => Eq
    | [], _ :: _ => Lt
    | _ :: _, [] => Gt
    | x :: a', y :: b' => match c x y with Eq => lex_cmp a' b' | r => r end
    end.
End Lex.

Definition label_cmp : label -> label -> comparison := lex_cmp N.compare.
Definition name_cmp : name -> name -> comparison := lex_cmp label_cmp.

Definition name_eqb (a b : name) : bool := match name_cmp a b with Eq => true | _ => false end.
Definition name_ltb (a b : name) : bool := match name_cmp a b with Lt => true | _ => false end.
Definition name_gtb (a b : name) : bool := match name_cmp a b with Gt => true | _ => false end.
Definition label_eqb (a b : label) : bool := match label_cmp a b with Eq => true | _ => false end.

Definition star : label := [42].
Definition is_star (l : label) : bool := label_eqb l star.

(* Name::zone_of(self = p, name = n) *)
Fixpoint zone_of (p n : name) : bool :=
  match p, n with
  | [], _ => true
  | _ :: _, [] => false
  | x :: p', y :: n' => label_eqb x y && zone_of p' n'
  end.

(* Name::base_name: drop the leftmost label; the root stays the root *)
Definition base_name (n : name) : name := removelast n.

(* leftmost label is "*" *)
Definition is_wildcard (n : name) : bool :=
  match n with [] => false | _ => is_star (last n []) end.

(* Name::num_labels: the number of labels, NOT counting a leftmost "*" *)
Definition num_labels (n : name) : N :=
  if is_wildcard n then N.of_nat (length n) - 1 else N.of_nat (length n).

(* Name::prepend_label("*") (the length limit of 255 bytes is not modelled: Ok always) *)
Definition prepend_star (n : name) : name := n ++ [star].

(* Name::trim_to(k): keep the k labels next to the root *)
Definition trim_to (n : name) (k : N) : name :=
  if N.ltb (N.of_nat (length n)) k then n else firstn (N.to_nat k) n.

(* ------------------------------------------------------------------ *)
(* Inputs of verify_nsec                                                *)
(* ------------------------------------------------------------------ *)

Record nsec := mkNsec { n_owner : name; n_next : name; n_types : list N }.

(* RecordTypeSet::contains *)
Definition contains (ts : list N) (t : N) : bool := existsb (N.eqb t) ts.

Definition T_A := 1. Definition T_NS := 2. Definition T_CNAME := 5. Definition T_SOA := 6.
Definition T_DNAME := 39. Definition T_DS := 43. Definition T_RRSIG := 46. Definition T_NSEC := 47.

(* an answer record: owner, proof == Secure, and the Labels field if it is an RRSIG *)
Record ans := mkAns { a_name : name; a_secure : bool; a_rrsig : option N }.

Inductive rcode := NoError | NXDomain | OtherRc.
Inductive proof := Secure | Bogus.

Definition soa_is (soa : option name) (n : name) : bool :=
  match soa with Some s => name_eqb n s | None => false end.

(* find_nsec_covering_record: the predicate of the `find` *)
Definition covers (soa : option name) (test : name) (r : nsec) : bool :=
  name_gtb test (n_owner r) && (name_ltb test (n_next r) || soa_is soa (n_next r)).

Definition find_cover (soa : option name) (test : name) (nsecs : list nsec) : option nsec :=
  find (covers soa test) nsecs.

(* the `while candidate_name.num_labels() > next_closest_encloser.num_labels()` loop for one seed *)
Fixpoint seed_loop (fuel : nat) (q cand nce : name) : name :=
  match fuel with
  | O => nce
  | S fuel' =>
      if N.ltb (num_labels nce) (num_labels cand) then
        if zone_of cand q then cand else seed_loop fuel' q (base_name cand) nce
      else nce
  end.

Definition encloser_step (q nce seed : name) : name := seed_loop (S (length seed)) q seed nce.

(* Iterator::min_by_key: the FIRST element with the minimal key *)
Fixpoint min_by_key {A} (key : A -> N) (l : list A) : option A :=
  match l with
  | [] => None
  | x :: l' => match min_by_key key l' with
               | None => Some x
               | Some y => if N.leb (key x) (key y) then Some x else Some y
               end
  end.

(* the filter_map closure over the answers *)
Definition wild_from_answer (q : name) (r : ans) : option (N * name) :=
  if negb (a_secure r) then None else
  match a_rrsig r with
  | None => None
  | Some l =>
      if N.leb (num_labels (a_name r)) l || N.leb (num_labels q) l then None else
      let t := trim_to (a_name r) l in
      if negb (zone_of t q) then None else Some (l, prepend_star t)
  end.

Fixpoint filter_map {A B} (f : A -> option B) (l : list A) : list B :=
  match l with
  | [] => []
  | x :: l' => match f x with Some y => y :: filter_map f l' | None => filter_map f l' end
  end.

Definition wildcard_base (q : name) (answers : list ans) (nsecs : list nsec) : option name :=
  match answers with
  | _ :: _ => option_map snd (min_by_key fst (filter_map (wild_from_answer q) answers))
  | [] => option_map n_owner
            (min_by_key (fun r => num_labels (n_owner r))
               (filter (fun r => is_wildcard (n_owner r) && zone_of (base_name (n_owner r)) q) nsecs))
  end.

(* the `while name.num_labels() > wildcard_base_name.num_labels()` loop *)
Fixpoint closer_loop (fuel : nat) (soa : option name) (nsecs : list nsec) (w nm : name) : bool :=
  match fuel with
  | O => true
  | S fuel' =>
      if N.ltb (num_labels w) (num_labels nm) then
        match find_cover soa (prepend_star nm) nsecs with
        | None => false
        | Some _ => closer_loop fuel' soa nsecs w (base_name nm)
        end
      else true
  end.

Definition no_closer_matches (q : name) (soa : option name) (nsecs : list nsec) (wb : option name) : bool :=
  match wb with
  | None => false
  | Some w =>
      (match soa with Some s => zone_of s w && zone_of s q | None => true end)
      && negb (N.ltb (num_labels q) (num_labels w))
      && zone_of (base_name w) q
      && closer_loop (S (length q)) soa nsecs w (base_name q)
  end.

Definition isSome {A} (o : option A) : bool := match o with Some _ => true | None => false end.

Definition verify_nsec (q : name) (qt : N) (soa : option name) (rc : rcode)
           (answers : list ans) (nsecs : list nsec) : proof :=
  match rc with
  | OtherRc => Bogus                                         (* unsupported response code *)
  | _ =>
  match (match soa with
         | Some s => if zone_of s q then Some s else None     (* SOA for the wrong zone *)
         | None => Some (base_name q)
         end) with
  | None => Bogus
  | Some nce0 =>
  let have_answer := match answers with [] => false | _ => true end in
  let is_noerror := match rc with NoError => true | _ => false end in
  let is_nxdomain := match rc with NXDomain => true | _ => false end in
  match find (fun r => name_eqb q (n_owner r)) nsecs with
  | Some r =>                                                (* direct match *)
      if contains (n_types r) qt || contains (n_types r) T_CNAME then Bogus
      else if is_noerror && negb have_answer then Secure
      else Bogus
  | None =>
  match find_cover soa q nsecs with
  | None => Bogus                                            (* nothing matches or covers *)
  | Some cov =>
      let nce := encloser_step q (encloser_step q nce0 (n_owner cov)) (n_next cov) in
      let wildcard_name := prepend_star nce in
      let wb := wildcard_base q answers nsecs in
      match find_cover soa wildcard_name nsecs with
      | Some _ =>
          if is_nxdomain && negb have_answer then Secure
          else if is_noerror && have_answer && no_closer_matches q soa nsecs wb
                  && isSome (find_cover soa q nsecs) then Secure
          else Bogus
      | None =>
          if negb have_answer && is_noerror
             && existsb (fun r => name_eqb (n_owner r) wildcard_name
                                  && negb (contains (n_types r) qt)
                                  && negb (contains (n_types r) T_CNAME)
                                  && no_closer_matches q soa nsecs wb) nsecs
          then Secure else Bogus
      end
  end end end end.

(* ------------------------------------------------------------------ *)
(* Specification: zones, genuine NSEC records, claims                   *)
(* ------------------------------------------------------------------ *)

(* p is an ancestor of n, or n itself *)
Definition prefix (p n : name) : Prop := exists r, n = p ++ r.
Definition nlt (a b : name) : Prop := name_cmp a b = Lt.
Definition nle (a b : name) : Prop := name_cmp a b <> Gt.

(* A signed zone as the validator may assume it: the apex and the authoritative owner
   names (delegation points included, nothing beneath them) with their type sets. *)
Record zone := mkZone { z_apex : name; z_rrs : list (name * list N) }.
Definition owners (z : zone) : list name := map fst (z_rrs z).

Definition has_type (z : zone) (n : name) (t : N) : Prop :=
  exists ts, In (n, ts) (z_rrs z) /\ contains ts t = true.

(* parent side of a zone cut: NS without SOA *)
Definition is_cut (z : zone) (d : name) : Prop :=
  In d (owners z) /\ has_type z d T_NS /\ ~ has_type z d T_SOA.
Definition is_dname (z : zone) (d : name) : Prop := In d (owners z) /\ has_type z d T_DNAME.

Definition wf_zone (z : zone) : Prop :=
  In (z_apex z) (owners z)
  /\ (forall o, In o (owners z) -> prefix (z_apex z) o)
  /\ (forall o ts ts', In (o, ts) (z_rrs z) -> In (o, ts') (z_rrs z) -> ts = ts')
  /\ has_type z (z_apex z) T_SOA
  /\ (forall d o, (is_cut z d \/ is_dname z d) -> In o (owners z) -> prefix d o -> o = d).

(* the name exists in the zone: it is an owner name or an empty non-terminal *)
Definition exists_name (z : zone) (n : name) : Prop := exists o, In o (owners z) /\ prefix n o.

(* c is the closest encloser of q *)
Definition is_ce (z : zone) (q c : name) : Prop :=
  prefix c q /\ exists_name z c /\
  forall c', prefix c' q -> exists_name z c' -> (length c' <= length c)%nat.

(* RFC 4034 4: the NSEC RR at owner o lists the types at o and names the next owner name
   in canonical order; the last one points back to the apex. *)
Definition genuine (z : zone) (r : nsec) : Prop :=
  (exists ts, In (n_owner r, ts) (z_rrs z) /\ forall t, contains (n_types r) t = contains ts t)
  /\ In (n_next r) (owners z)
  /\ ((nlt (n_owner r) (n_next r)
       /\ forall o, In o (owners z) -> ~ (nlt (n_owner r) o /\ nlt o (n_next r)))
      \/ (n_next r = z_apex z /\ forall o, In o (owners z) -> nle o (n_owner r))).

(* data at or below the parent side of a cut (other than DS at the cut), or below a
   DNAME, is not this zone's to deny (RFC 6840 4.1) *)
Definition occluded (z : zone) (q : name) (qt : N) : Prop :=
  exists d, prefix d q /\
    ((is_cut z d /\ ~ (d = q /\ qt = T_DS)) \/ (is_dname z d /\ d <> q)).

(* Labels field smaller than the owner's label count (a leftmost "*" not counted):
   the RRset was expanded from the wildcard *.trim_to(owner, labels) *)
Definition wild_rrsig (r : ans) (l : N) : Prop :=
  a_secure r = true /\ a_rrsig r = Some l /\ l < num_labels (a_name r).

(* what the signatures on the answers establish (C06/C07, not here): the wildcard exists *)
Definition genuine_answers (z : zone) (answers : list ans) : Prop :=
  forall r l, In r answers -> wild_rrsig r l ->
    In (prepend_star (trim_to (a_name r) l)) (owners z).

Definition claim_nxdomain (z : zone) (q : name) : Prop :=
  ~ exists_name z q /\ forall c, is_ce z q c -> ~ exists_name z (prepend_star c).

Definition lacks (z : zone) (n : name) (qt : N) : Prop :=
  In n (owners z) /\ ~ has_type z n qt /\ ~ has_type z n T_CNAME.

Definition claim_nodata (z : zone) (q : name) (qt : N) : Prop :=
  lacks z q qt
  \/ (exists_name z q /\ ~ In q (owners z))
  \/ (~ exists_name z q /\ forall c, is_ce z q c ->
        lacks z (prepend_star c) qt
        \/ (exists_name z (prepend_star c) /\ ~ In (prepend_star c) (owners z))).

Definition claim_wildcard (z : zone) (q : name) (answers : list ans) : Prop :=
  ~ exists_name z q /\
  forall r l, In r answers -> wild_rrsig r l -> a_name r = q -> is_ce z q (trim_to q l).

Definition claim_holds (z : zone) (q : name) (qt : N) (rc : rcode) (answers : list ans) : Prop :=
  prefix (z_apex z) q /\ ~ occluded z q qt /\
  match rc, answers with
  | NXDomain, [] => claim_nxdomain z q
  | NoError, [] => claim_nodata z q qt
  | NoError, _ :: _ => claim_wildcard z q answers
  | _, _ => False
  end.

(* ------------------------------------------------------------------ *)
(* Known classes (decidable on the inputs of verify_nsec)               *)
(* ------------------------------------------------------------------ *)

(* longest common prefix *)
Fixpoint lcp (a b : name) : name :=
  match a, b with
  | x :: a', y :: b' => if label_eqb x y then x :: lcp a' b' else []
  | _, _ => []
  end.

Definition strict_prefixb (p n : name) : bool := zone_of p n && negb (name_eqb p n).

Definition len (n : name) : N := N.of_nat (length n).

(* K1: an NSEC at an ancestor of the query name (or at it) that is the parent side of a
   zone cut (NS without SOA; a DS query at the cut itself excepted) or carries DNAME *)
Definition k_deleg (q : name) (qt : N) (nsecs : list nsec) : bool :=
  existsb (fun r =>
    zone_of (n_owner r) q &&
    ((contains (n_types r) T_NS && negb (contains (n_types r) T_SOA)
      && negb (name_eqb (n_owner r) q && N.eqb qt T_DS))
     || (contains (n_types r) T_DNAME && negb (name_eqb (n_owner r) q)))) nsecs.

(* the names whose non-existence the procedure infers from "covered": the query name and
   the wildcards at its ancestors *)
Definition prefixes (q : name) : list name := map (fun k => firstn k q) (seq 0 (S (length q))).
Definition tested (q : name) : list name := q :: map prepend_star (prefixes q).

(* K2: such a name is covered by an NSEC whose next name lies beneath it: the name is an
   empty non-terminal, it exists *)
Definition k_ent (q : name) (soa : option name) (nsecs : list nsec) : bool :=
  existsb (fun t => existsb (fun r => covers soa t r && strict_prefixb t (n_next r)) nsecs) (tested q).

(* length of the closest encloser as the NSEC covering the query name shows it *)
Definition maxlcp (q : name) (cov : nsec) : N :=
  N.max (len (lcp q (n_owner cov))) (len (lcp q (n_next cov))).

(* K3: NXDOMAIN without an SOA: the encloser defaults to the parent of the query name
   although the covering NSEC shows a shorter closest encloser *)
Definition k_nosoa (q : name) (soa : option name) (rc : rcode) (answers : list ans)
           (nsecs : list nsec) : bool :=
  match soa, rc, answers, find_cover soa q nsecs with
  | None, NXDomain, [], Some cov => N.ltb (maxlcp q cov + 1) (len q)
  | _, _, _, _ => false
  end.

(* K4: wildcard answer whose RRSIG names a wildcard above the closest encloser that the
   covering NSEC shows, while the procedure's own "no closer wildcard" test passes *)
Definition k_closer (q : name) (soa : option name) (rc : rcode) (answers : list ans)
           (nsecs : list nsec) : bool :=
  match rc, find_cover soa q nsecs with
  | NoError, Some cov =>
      no_closer_matches q soa nsecs (wildcard_base q answers nsecs) &&
      existsb (fun r => a_secure r && name_eqb (a_name r) q &&
                 match a_rrsig r with
                 | Some l => N.ltb l (num_labels (a_name r)) && N.ltb l (maxlcp q cov)
                 | None => false
                 end) answers
  | _, _ => false
  end.

(* K5: the query name has a "*" label that is not its leftmost label *)
Definition k_star (q : name) : bool := existsb is_star (removelast q).

(* 0 = none; the order is the order of the harness *)
Definition known_code (q : name) (qt : N) (soa : option name) (rc : rcode) (answers : list ans)
           (nsecs : list nsec) : N :=
  if k_deleg q qt nsecs then 1
  else if k_ent q soa nsecs then 2
  else if k_nosoa q soa rc answers nsecs then 3
  else if k_closer q soa rc answers nsecs then 4
  else if k_star q then 5
  else 0.

Definition Known (q : name) (qt : N) (soa : option name) (rc : rcode) (answers : list ans)
           (nsecs : list nsec) : Prop := known_code q qt soa rc answers nsecs <> 0.

(* ------------------------------------------------------------------ *)
(* The specification, decided (for closed instances: the witnesses of   *)
(* the refutations, and the cross-check of the harness's oracle)        *)
(* ------------------------------------------------------------------ *)

Definition name_inb (n : name) (l : list name) : bool := existsb (name_eqb n) l.
Definition exists_nameb (z : zone) (n : name) : bool := existsb (fun o => zone_of n o) (owners z).
Definition has_typeb (z : zone) (n : name) (t : N) : bool :=
  existsb (fun p => name_eqb (fst p) n && contains (snd p) t) (z_rrs z).
Definition is_cutb (z : zone) (d : name) : bool :=
  name_inb d (owners z) && has_typeb z d T_NS && negb (has_typeb z d T_SOA).
Definition is_dnameb (z : zone) (d : name) : bool :=
  name_inb d (owners z) && has_typeb z d T_DNAME.

Definition wf_zoneb (z : zone) : bool :=
  name_inb (z_apex z) (owners z)
  && forallb (zone_of (z_apex z)) (owners z)
  && forallb (fun p => forallb (fun p' => negb (name_eqb (fst p) (fst p'))
                                         || list_eqb N.eqb (snd p) (snd p')) (z_rrs z)) (z_rrs z)
  && has_typeb z (z_apex z) T_SOA
  && forallb (fun d => negb (is_cutb z d || is_dnameb z d)
                       || forallb (fun o => negb (zone_of d o) || name_eqb o d) (owners z)) (owners z).

Definition same_typesb (a b : list N) : bool :=
  forallb (fun t => Bool.eqb (contains a t) (contains b t)) (a ++ b).

Definition genuineb (z : zone) (r : nsec) : bool :=
  existsb (fun p => name_eqb (fst p) (n_owner r) && same_typesb (n_types r) (snd p)) (z_rrs z)
  && name_inb (n_next r) (owners z)
  && ((name_ltb (n_owner r) (n_next r)
       && forallb (fun o => negb (name_ltb (n_owner r) o && name_ltb o (n_next r))) (owners z))
      || (name_eqb (n_next r) (z_apex z)
          && forallb (fun o => negb (name_gtb o (n_owner r))) (owners z))).

Definition is_ceb (z : zone) (q c : name) : bool :=
  zone_of c q && exists_nameb z c
  && forallb (fun c' => negb (exists_nameb z c') || Nat.leb (length c') (length c)) (prefixes q).

Definition occludedb (z : zone) (q : name) (qt : N) : bool :=
  existsb (fun d => zone_of d q &&
                    ((is_cutb z d && negb (name_eqb d q && N.eqb qt T_DS))
                     || (is_dnameb z d && negb (name_eqb d q)))) (owners z).

Definition wild_rrsigb (r : ans) : bool :=
  a_secure r && match a_rrsig r with Some l => N.ltb l (num_labels (a_name r)) | None => false end.

Definition genuine_answersb (z : zone) (answers : list ans) : bool :=
  forallb (fun r => negb (wild_rrsigb r) ||
                    match a_rrsig r with
                    | Some l => name_inb (prepend_star (trim_to (a_name r) l)) (owners z)
                    | None => true
                    end) answers.

Definition ent_b (z : zone) (n : name) : bool := exists_nameb z n && negb (name_inb n (owners z)).

Definition claim_nxdomainb (z : zone) (q : name) : bool :=
  negb (exists_nameb z q)
  && forallb (fun c => negb (is_ceb z q c) || negb (exists_nameb z (prepend_star c))) (prefixes q).

Definition lacksb (z : zone) (n : name) (qt : N) : bool :=
  name_inb n (owners z) && negb (has_typeb z n qt) && negb (has_typeb z n T_CNAME).

Definition claim_nodatab (z : zone) (q : name) (qt : N) : bool :=
  lacksb z q qt
  || ent_b z q
  || (negb (exists_nameb z q)
      && forallb (fun c => negb (is_ceb z q c)
                           || lacksb z (prepend_star c) qt || ent_b z (prepend_star c)) (prefixes q)).

Definition claim_wildcardb (z : zone) (q : name) (answers : list ans) : bool :=
  negb (exists_nameb z q)
  && forallb (fun r => negb (wild_rrsigb r && name_eqb (a_name r) q)
                       || match a_rrsig r with Some l => is_ceb z q (trim_to q l) | None => true end)
       answers.

Definition claimb (z : zone) (q : name) (qt : N) (rc : rcode) (answers : list ans) : bool :=
  zone_of (z_apex z) q && negb (occludedb z q qt)
  && match rc, answers with
     | NXDomain, [] => claim_nxdomainb z q
     | NoError, [] => claim_nodatab z q qt
     | NoError, _ :: _ => claim_wildcardb z q answers
     | _, _ => false
     end.
