(* C08 — property theorems.  Model and specification: Model.v; proofs: Order.v,
   SoundProofs.v, DecideProofs.v.

   Reading guide.  [verify_nsec] is the line-by-line model of the Rust function.  A zone [z]
   is an apex plus its authoritative owner names with type sets; [genuine z r] says that the
   NSEC record r is the one RFC 4034 section 4 prescribes for its owner in z; [claim_holds]
   is what the response asserts (RFC 4035 5.4, RFC 4592, RFC 6840 4.1), evaluated in z.
   Soundness = for EVERY zone that genuinely contains the NSEC records handed to
   verify_nsec, Secure implies the claim.  The model (and the real code: see the KNOWN
   findings of the check) violates this in five ways; each is a decidable class of INPUTS
   ([k_deleg], [k_ent], [k_nosoa], [k_closer], [k_star]), each is shown necessary by a
   witness, and outside them soundness is proved for all inputs. *)
From HV Require Import Lib.Base C08.Model C08.Order C08.SoundProofs C08.DecideProofs C08.CompleteProofs.
Open Scope N_scope.

(* Only NOERROR and NXDOMAIN responses can be accepted on NSEC evidence. *)
Theorem C08_unsupported_rcode : forall q qt soa answers nsecs,
  verify_nsec q qt soa OtherRc answers nsecs = Bogus.
Proof. reflexivity. Qed.
Print Assumptions C08_unsupported_rcode.

(* "Covered" (find_nsec_covering_record) is sound up to empty non-terminals: a name
   covered by a genuine NSEC (SOA name absent or the apex) does not exist in the zone,
   unless the NSEC's next name lies beneath it. *)
Theorem C08_covered_absent : forall z soa t r,
  wf_zone z -> genuine z r -> soa_ok z soa -> covers soa t r = true ->
  exists_name z t -> prefix t (n_next r) /\ t <> n_next r.
Proof. intros z soa t r WF. now apply cover_exists. Qed.
Print Assumptions C08_covered_absent.

(* The closest encloser of a covered name can be read off the covering NSEC: it is the
   longer of the common ancestors with the NSEC's owner and with its next name. *)
Theorem C08_closest_encloser_from_cover : forall z soa q r,
  wf_zone z -> genuine z r -> soa_ok z soa -> covers soa q r = true ->
  is_ce z q (ce_of q r) /\ len (ce_of q r) = maxlcp q r.
Proof. intros z soa q r WF G S C. split; [now apply (ce_of_is_ce z WF soa)|apply ce_of_len]. Qed.
Print Assumptions C08_closest_encloser_from_cover.

(* SOUNDNESS, guarded: for every zone, every query, every rcode, every answer list and every
   list of NSEC records genuine in the zone (any subset, any order, duplicates), with the SOA
   owner name absent or the apex: outside the five known classes, Secure implies the claim. *)
Theorem C08_sound_guarded : forall z q qt soa rc answers nsecs,
  wf_zone z ->
  (forall r, In r nsecs -> genuine z r) ->
  genuine_answers z answers ->
  soa_ok z soa ->
  ~ Known q qt soa rc answers nsecs ->
  verify_nsec q qt soa rc answers nsecs = Secure ->
  claim_holds z q qt rc answers.
Proof.
  intros z q qt soa rc answers nsecs WF GEN GA SOA HK HV.
  apply (sound z q qt soa rc answers nsecs WF GEN GA SOA); [|exact HV].
  unfold Known in HK. destruct (N.eq_dec (known_code q qt soa rc answers nsecs) 0); tauto.
Qed.
Print Assumptions C08_sound_guarded.

(* ---- the unguarded statement is false: one witness per class, on which ONLY that class
        fires, so none of the five guards can be dropped ---- *)

Definition unsound (z : zone) q qt soa rc answers nsecs : Prop :=
  wf_zone z /\ (forall r, In r nsecs -> genuine z r) /\ genuine_answers z answers /\
  soa_ok z soa /\ verify_nsec q qt soa rc answers nsecs = Secure /\
  ~ claim_holds z q qt rc answers.

Definition classes q qt soa rc answers nsecs : list bool :=
  [k_deleg q qt nsecs; k_ent q soa nsecs; k_nosoa q soa rc answers nsecs;
   k_closer q soa rc answers nsecs; k_star q].

Ltac witness :=
  split; [apply wf_zoneb_sound; vm_compute; reflexivity|];
  split; [intros r Hr; cbn [In] in Hr;
          repeat (destruct Hr as [<-|Hr]; [apply genuineb_sound; vm_compute; reflexivity|]);
          contradiction|];
  split; [apply genuine_answersb_sound; vm_compute; reflexivity|];
  split; [first [left; reflexivity|right; reflexivity]|];
  split; [vm_compute; reflexivity|];
  let H := fresh in intros H; apply claimb_iff in H; vm_compute in H; discriminate.

Definition nE : name := [[101]].                       (* e. *)
Definition nAE : name := [[101]; [97]].                (* a.e. *)
Definition nBE : name := [[101]; [98]].                (* b.e. *)
Definition nCE : name := [[101]; [99]].                (* c.e. *)
Definition nSE : name := [[101]; [42]].                (* *.e. *)
Definition nAAE : name := [[101]; [97]; [97]].         (* a.a.e. *)
Definition nBAE : name := [[101]; [97]; [98]].         (* b.a.e. *)
Definition nABE : name := [[101]; [98]; [97]].         (* a.b.e. *)
Definition nBSE : name := [[101]; [42]; [98]].         (* b.*.e. *)
Definition apexT := [2; 6; 46; 47].                    (* NS SOA RRSIG NSEC *)

(* 1. parent-side NSEC of the delegation a.e. "proves" NXDOMAIN for b.a.e. *)
Theorem C08_sound_refuted_delegation :
  exists z q qt soa rc answers nsecs,
    unsound z q qt soa rc answers nsecs /\
    classes q qt soa rc answers nsecs = [true; false; false; false; false].
Proof.
  exists (mkZone nE [(nE, apexT); (nAE, [2; 46; 47])]), nBAE, 5, (Some nE), NXDomain, [],
         [mkNsec nAE nE [2; 46; 47]].
  split; [witness|vm_compute; reflexivity].
Qed.
Print Assumptions C08_sound_refuted_delegation.

(* 2. a.e. is an empty non-terminal (a.a.e. exists); NXDOMAIN for a.e. is accepted *)
Theorem C08_sound_refuted_ent :
  exists z q qt soa rc answers nsecs,
    unsound z q qt soa rc answers nsecs /\
    classes q qt soa rc answers nsecs = [false; true; false; false; false].
Proof.
  exists (mkZone nE [(nE, apexT); (nAAE, [16; 46; 47])]), nAE, 1, (Some nE), NXDomain, [],
         [mkNsec nE nAAE apexT].
  split; [witness|vm_compute; reflexivity].
Qed.
Print Assumptions C08_sound_refuted_ent.

(* 3. no SOA: NXDOMAIN for a.b.e. accepted although *.e. exists and matches it *)
Theorem C08_sound_refuted_nosoa :
  exists z q qt soa rc answers nsecs,
    unsound z q qt soa rc answers nsecs /\
    classes q qt soa rc answers nsecs = [false; false; true; false; false].
Proof.
  exists (mkZone nE [(nE, apexT); (nSE, [1; 46; 47]); (nCE, [1; 46; 47])]), nABE, 1, None,
         NXDomain, [], [mkNsec nSE nCE [1; 46; 47]].
  split; [witness|vm_compute; reflexivity].
Qed.
Print Assumptions C08_sound_refuted_nosoa.

(* 4. answer for a.b.e. expanded from *.e. (RRSIG labels = 1) accepted although b.e. exists *)
Theorem C08_sound_refuted_closer_encloser :
  exists z q qt soa rc answers nsecs,
    unsound z q qt soa rc answers nsecs /\
    classes q qt soa rc answers nsecs = [false; false; false; true; false].
Proof.
  exists (mkZone nE [(nE, apexT); (nSE, [1; 46; 47]); (nBE, [1; 46; 47]); (nCE, [1; 46; 47])]),
         nABE, 1, None, NoError,
         [mkAns nABE true None; mkAns nABE true (Some 1)], [mkNsec nBE nCE [1; 46; 47]].
  split; [witness|vm_compute; reflexivity].
Qed.
Print Assumptions C08_sound_refuted_closer_encloser.

(* 5. b.*.e. does not exist (closest encloser *.e., no *.*.e.): NXDOMAIN is the truth,
      NODATA "at the wildcard *.e." is accepted *)
Theorem C08_sound_refuted_interior_star :
  exists z q qt soa rc answers nsecs,
    unsound z q qt soa rc answers nsecs /\
    classes q qt soa rc answers nsecs = [false; false; false; false; true].
Proof.
  exists (mkZone nE [(nE, apexT); (nSE, [16; 46; 47]); (nAE, [1; 46; 47])]), nBSE, 1, (Some nE),
         NoError, [], [mkNsec nSE nAE [16; 46; 47]].
  split; [witness|vm_compute; reflexivity].
Qed.
Print Assumptions C08_sound_refuted_interior_star.

(* The hypothesis on the SOA name is necessary too.  The caller takes the owner of the FIRST
   SOA record of the authority section whatever its proof (find_soa_name); if that name is
   not the apex but the next name of some genuine NSEC, the "next == soa" rule makes that
   NSEC cover everything after its owner: here NXDOMAIN for the existing name w.s.e., with
   none of the five classes firing. *)
Theorem C08_sound_refuted_foreign_soa_name :
  exists z q qt soa rc answers nsecs,
    wf_zone z /\ (forall r, In r nsecs -> genuine z r) /\ genuine_answers z answers /\
    (exists s, soa = Some s /\ In s (owners z) /\ prefix s q /\ s <> z_apex z) /\
    verify_nsec q qt soa rc answers nsecs = Secure /\
    ~ claim_holds z q qt rc answers /\
    classes q qt soa rc answers nsecs = [false; false; false; false; false].
Proof.
  exists (mkZone nE [(nE, apexT); (nAE, [1; 46; 47]); ([[101]; [115]], [1; 46; 47]);
                     ([[101]; [115]; [119]], [1; 46; 47])]),
         [[101]; [115]; [119]], 1, (Some [[101]; [115]]), NXDomain, [],
         [mkNsec nAE [[101]; [115]] [1; 46; 47]].
  split; [apply wf_zoneb_sound; vm_compute; reflexivity|].
  split; [intros r [<-|[]]; apply genuineb_sound; vm_compute; reflexivity|].
  split; [apply genuine_answersb_sound; vm_compute; reflexivity|].
  split.
  { exists [[101]; [115]]. split; [reflexivity|]. split; [vm_compute; tauto|].
    split; [exists [[119]]; reflexivity|discriminate]. }
  split; [vm_compute; reflexivity|].
  split; [|vm_compute; reflexivity].
  intros H; apply claimb_iff in H; vm_compute in H; discriminate.
Qed.
Print Assumptions C08_sound_refuted_foreign_soa_name.

(* ---- two of the classes are exact: inside them the claim is false in every zone, so an
        acceptance there is always wrong ---- *)

Theorem C08_class_delegation_exact : forall z q qt rc answers nsecs,
  wf_zone z -> (forall r, In r nsecs -> genuine z r) ->
  k_deleg q qt nsecs = true -> ~ claim_holds z q qt rc answers.
Proof. exact deleg_exact. Qed.
Print Assumptions C08_class_delegation_exact.

Theorem C08_class_closer_encloser_exact : forall z q qt soa rc answers nsecs,
  wf_zone z -> (forall r, In r nsecs -> genuine z r) -> soa_ok z soa ->
  k_closer q soa rc answers nsecs = true -> ~ claim_holds z q qt rc answers.
Proof. exact closer_exact. Qed.
Print Assumptions C08_class_closer_encloser_exact.

(* ---- COMPLETENESS, the validator's half: when the NSEC list contains what RFC 4035 3.1.3
        prescribes (whatever else it contains, in any order), verify_nsec accepts.  "partial":
        the other half, that the SERVER attaches these records (nsec_records / closest_nsec in
        crates/server), is not modelled here; the check measures it end to end on the real
        in-memory server (family e2e of the harness) and reports where it fails. ---- *)

(* NODATA at an owner name: its own NSEC suffices (SOA name absent or the apex). *)
Theorem C08_complete_nodata_partial : forall z q qt soa nsecs r,
  wf_zone z -> (forall r, In r nsecs -> genuine z r) -> soa_ok z soa ->
  In r nsecs -> n_owner r = q -> ~ has_type z q qt -> ~ has_type z q T_CNAME ->
  verify_nsec q qt soa NoError [] nsecs = Secure.
Proof. intros z q qt soa nsecs r WF GEN SOA. now apply (complete_nodata z WF q qt soa nsecs GEN SOA r). Qed.
Print Assumptions C08_complete_nodata_partial.

(* NXDOMAIN (the response carries the SOA): an NSEC covering the name and one covering the
   wildcard at the closest encloser suffice.  Guard: no interior "*" in the query name. *)
Theorem C08_complete_nxdomain_guarded_partial : forall z q qt soa nsecs c w,
  wf_zone z -> (forall r, In r nsecs -> genuine z r) ->
  soa = Some (z_apex z) -> prefix (z_apex z) q -> ~ exists_name z q -> k_star q = false ->
  In c nsecs -> covers soa q c = true ->
  In w nsecs -> (forall ce, is_ce z q ce -> covers soa (prepend_star ce) w = true) ->
  verify_nsec q qt soa NXDomain [] nsecs = Secure.
Proof.
  intros z q qt soa nsecs c w WF GEN Hs. apply (complete_nxdomain z WF q qt soa nsecs GEN); auto.
  right. exact Hs.
Qed.
Print Assumptions C08_complete_nxdomain_guarded_partial.

(* Wildcard-expanded answer (such responses carry no SOA): an NSEC covering the query name
   inside the chain suffices.  Guards: the closest encloser is not the parent of the query
   name; the covering NSEC is not the wrap-around one (covers with soa = None); no interior
   "*"; every Secure RRSIG of the answer is at the query name with Labels = |encloser|. *)
Theorem C08_complete_wildcard_answer_guarded_partial : forall z q qt nsecs answers ce c,
  wf_zone z -> (forall r, In r nsecs -> genuine z r) ->
  k_star q = false -> ~ exists_name z q -> is_ce z q ce -> len ce + 1 < len q ->
  answers <> [] ->
  (forall r l, In r answers -> a_secure r = true -> a_rrsig r = Some l -> a_name r = q /\ l = len ce) ->
  (exists r, In r answers /\ a_secure r = true /\ a_rrsig r = Some (len ce)) ->
  In c nsecs -> covers None q c = true ->
  verify_nsec q qt None NoError answers nsecs = Secure.
Proof.
  intros z q qt nsecs answers ce c WF GEN. intros.
  eapply complete_wildcard_answer with (z := z) (ce := ce) (c := c); eauto. left; reflexivity.
Qed.
Print Assumptions C08_complete_wildcard_answer_guarded_partial.

(* NODATA at the wildcard of the closest encloser (the response carries the SOA): the NSEC
   covering the name and the wildcard's own NSEC suffice.  Guards: no interior "*"; no NSEC of
   another wildcard enclosing the query name in the list (the code would pick the shortest
   one as "the" wildcard and then demand the real one to be covered). *)
Theorem C08_complete_wildcard_nodata_guarded_partial : forall z q qt soa nsecs ce c r,
  wf_zone z -> (forall r, In r nsecs -> genuine z r) ->
  soa = Some (z_apex z) -> prefix (z_apex z) q -> k_star q = false ->
  ~ exists_name z q -> is_ce z q ce ->
  In c nsecs -> covers soa q c = true ->
  In r nsecs -> n_owner r = prepend_star ce ->
  ~ has_type z (prepend_star ce) qt -> ~ has_type z (prepend_star ce) T_CNAME ->
  (forall r', In r' nsecs -> is_wildcard (n_owner r') = true ->
              prefix (base_name (n_owner r')) q -> n_owner r' = prepend_star ce) ->
  verify_nsec q qt soa NoError [] nsecs = Secure.
Proof.
  intros z q qt soa nsecs ce c r WF GEN Hs. intros.
  eapply complete_wildcard_nodata with (z := z) (ce := ce) (c := c) (r := r); eauto.
  right. exact Hs.
Qed.
Print Assumptions C08_complete_wildcard_nodata_guarded_partial.

(* ---- where completeness is lost although the list is the WHOLE genuine chain and the
        claim is true ---- *)

Definition rejected (z : zone) q qt soa rc answers nsecs : Prop :=
  wf_zone z /\ whole_chain z nsecs /\ genuine_answers z answers /\ soa_ok z soa /\
  claim_holds z q qt rc answers /\ verify_nsec q qt soa rc answers nsecs = Bogus.

Ltac rejected_witness :=
  split; [apply wf_zoneb_sound; vm_compute; reflexivity|];
  split; [apply whole_chainb_sound; vm_compute; reflexivity|];
  split; [apply genuine_answersb_sound; vm_compute; reflexivity|];
  split; [first [left; reflexivity|right; reflexivity]|];
  split; [apply claimb_iff; vm_compute; reflexivity|vm_compute; reflexivity].

(* NODATA for the empty non-terminal a.e. (a.a.e. exists) *)
Theorem C08_complete_refuted_ent_nodata :
  exists z q qt soa rc answers nsecs, rejected z q qt soa rc answers nsecs.
Proof.
  exists (mkZone nE [(nE, apexT); (nAAE, [16; 46; 47])]), nAE, 1, (Some nE), NoError, [],
         [mkNsec nE nAAE apexT; mkNsec nAAE nE [16; 46; 47]].
  rejected_witness.
Qed.
Print Assumptions C08_complete_refuted_ent_nodata.

(* b.e. answered from *.e. (RRSIG labels 1): the closest encloser is the parent of the
   query name, the code wants *.e. itself covered *)
Theorem C08_complete_refuted_wildcard_child :
  exists z q qt soa rc answers nsecs, rejected z q qt soa rc answers nsecs.
Proof.
  exists (mkZone nE [(nE, apexT); (nSE, [1; 46; 47]); (nCE, [1; 46; 47])]), nBE, 1, None, NoError,
         [mkAns nBE true None; mkAns nBE true (Some 1)],
         [mkNsec nE nSE apexT; mkNsec nSE nCE [1; 46; 47]; mkNsec nCE nE [1; 46; 47]].
  rejected_witness.
Qed.
Print Assumptions C08_complete_refuted_wildcard_child.

(* a.b.e. answered from *.e.; the covering NSEC is the last of the chain; no SOA, no wrap *)
Theorem C08_complete_refuted_wrap_without_soa :
  exists z q qt soa rc answers nsecs, rejected z q qt soa rc answers nsecs.
Proof.
  exists (mkZone nE [(nE, apexT); (nSE, [1; 46; 47])]), nABE, 1, None, NoError,
         [mkAns nABE true None; mkAns nABE true (Some 1)],
         [mkNsec nE nSE apexT; mkNsec nSE nE [1; 46; 47]].
  rejected_witness.
Qed.
Print Assumptions C08_complete_refuted_wrap_without_soa.

(* b.*.e.: NXDOMAIN is true (closest encloser *.e., no *.*.e.) and rejected *)
Theorem C08_complete_refuted_interior_star :
  exists z q qt soa rc answers nsecs, rejected z q qt soa rc answers nsecs.
Proof.
  exists (mkZone nE [(nE, apexT); (nSE, [16; 46; 47])]), nBSE, 1, (Some nE), NXDomain, [],
         [mkNsec nE nSE apexT; mkNsec nSE nE [16; 46; 47]].
  rejected_witness.
Qed.
Print Assumptions C08_complete_refuted_interior_star.

(* The specification is decidable; [claimb] is what the harness's oracle is compared with. *)
Theorem C08_claim_decided : forall z q qt rc answers,
  claimb z q qt rc answers = true <-> claim_holds z q qt rc answers.
Proof. exact claimb_iff. Qed.
Print Assumptions C08_claim_decided.

(* ---- non-vacuity of C08_sound_guarded: all hypotheses hold and verify_nsec = Secure,
        one instance per accepting path (RFC 4035 B.2, B.3, B.6, B.7 in miniature) ---- *)

Definition hyps (z : zone) q qt soa rc answers nsecs : Prop :=
  wf_zone z /\ (forall r, In r nsecs -> genuine z r) /\ genuine_answers z answers /\
  soa_ok z soa /\ ~ Known q qt soa rc answers nsecs /\
  verify_nsec q qt soa rc answers nsecs = Secure.

Ltac instance :=
  split; [apply wf_zoneb_sound; vm_compute; reflexivity|];
  split; [intros r Hr; cbn [In] in Hr;
          repeat (destruct Hr as [<-|Hr]; [apply genuineb_sound; vm_compute; reflexivity|]);
          contradiction|];
  split; [apply genuine_answersb_sound; vm_compute; reflexivity|];
  split; [first [left; reflexivity|right; reflexivity]|];
  split; [unfold Known; vm_compute; tauto|vm_compute; reflexivity].

Definition zEx : zone :=
  mkZone nE [(nE, apexT); (nSE, [1; 46; 47]); (nBE, [1; 46; 47]); (nAAE, [16; 46; 47])].
(* chain: e. -> *.e. -> a.a.e. -> b.e. -> e. *)

Example C08_example_nodata :          (* b.e. has A but no TXT *)
  hyps zEx nBE 16 (Some nE) NoError [] [mkNsec nBE nE [1; 46; 47]].
Proof. instance. Qed.

Example C08_example_nxdomain :        (* c.b.e.: covered by b.e. -> e.; *.b.e. covered too *)
  hyps zEx [[101]; [98]; [99]] 1 (Some nE) NXDomain [] [mkNsec nBE nE [1; 46; 47]].
Proof. instance. Qed.

Example C08_example_wildcard_answer : (* x.0.e. answered from *.e. (labels 1), no SOA *)
  hyps zEx [[101]; [48]; [120]] 1 None NoError
       [mkAns [[101]; [48]; [120]] true None; mkAns [[101]; [48]; [120]] true (Some 1)]
       [mkNsec nBE nE [1; 46; 47]; mkNsec nSE nAAE [1; 46; 47]].
Proof. instance. Qed.

Example C08_example_wildcard_nodata : (* c.e. TXT: *.e. has A only *)
  hyps zEx nCE 16 (Some nE) NoError [] [mkNsec nBE nE [1; 46; 47]; mkNsec nSE nAAE [1; 46; 47]].
Proof. instance. Qed.

(* ---- non-vacuity of the completeness theorems and of the two lemmas about covering:
        each is applied to concrete data, all hypotheses discharged ---- *)

Ltac gen_zEx :=
  let r := fresh in let Hr := fresh in
  intros r Hr; cbn [In] in Hr;
  repeat (destruct Hr as [<-|Hr]; [apply genuineb_sound; vm_compute; reflexivity|]); contradiction.

Lemma wf_zEx : wf_zone zEx.
Proof. apply wf_zoneb_sound. vm_compute. reflexivity. Qed.

Example C08_complete_nodata_example :
  verify_nsec nBE 16 (Some nE) NoError [] [mkNsec nBE nE [1; 46; 47]] = Secure.
Proof.
  apply (C08_complete_nodata_partial zEx nBE 16 (Some nE) _ (mkNsec nBE nE [1; 46; 47]) wf_zEx).
  - gen_zEx.
  - right. reflexivity.
  - now left.
  - reflexivity.
  - intros H. apply has_typeb_iff in H. vm_compute in H. discriminate.
  - intros H. apply has_typeb_iff in H. vm_compute in H. discriminate.
Qed.

Example C08_complete_nxdomain_example :
  verify_nsec [[101]; [98]; [99]] 1 (Some nE) NXDomain [] [mkNsec nBE nE [1; 46; 47]] = Secure.
Proof.
  apply (C08_complete_nxdomain_guarded_partial zEx [[101]; [98]; [99]] 1 (Some nE) _
           (mkNsec nBE nE [1; 46; 47]) (mkNsec nBE nE [1; 46; 47]) wf_zEx).
  - gen_zEx.
  - reflexivity.
  - exists [[98]; [99]]. reflexivity.
  - intros H. apply exists_nameb_iff in H. vm_compute in H. discriminate.
  - reflexivity.
  - now left.
  - reflexivity.
  - now left.
  - intros ce Hce.
    assert (E : ce = nBE).
    { apply (is_ce_unique zEx [[101]; [98]; [99]]); [exact Hce|]. apply is_ceb_iff. vm_compute. reflexivity. }
    subst ce. reflexivity.
Qed.

Example C08_complete_wildcard_answer_example :
  verify_nsec [[101]; [48]; [120]] 1 None NoError
    [mkAns [[101]; [48]; [120]] true None; mkAns [[101]; [48]; [120]] true (Some 1)]
    [mkNsec nSE nAAE [1; 46; 47]] = Secure.
Proof.
  apply (C08_complete_wildcard_answer_guarded_partial zEx [[101]; [48]; [120]] 1 _ _ nE
           (mkNsec nSE nAAE [1; 46; 47]) wf_zEx).
  - gen_zEx.
  - reflexivity.
  - intros H. apply exists_nameb_iff in H. vm_compute in H. discriminate.
  - apply is_ceb_iff. vm_compute. reflexivity.
  - vm_compute. reflexivity.
  - discriminate.
  - intros r l [<-|[<-|[]]] Hs Hl; cbn in Hl; [discriminate|]. inversion Hl. split; reflexivity.
  - exists (mkAns [[101]; [48]; [120]] true (Some 1)). split; [right; now left|]. split; reflexivity.
  - now left.
  - reflexivity.
Qed.

Example C08_complete_wildcard_nodata_example :
  verify_nsec nCE 16 (Some nE) NoError [] [mkNsec nBE nE [1; 46; 47]; mkNsec nSE nAAE [1; 46; 47]] = Secure.
Proof.
  apply (C08_complete_wildcard_nodata_guarded_partial zEx nCE 16 (Some nE) _ nE
           (mkNsec nBE nE [1; 46; 47]) (mkNsec nSE nAAE [1; 46; 47]) wf_zEx).
  - gen_zEx.
  - reflexivity.
  - exists [[99]]. reflexivity.
  - reflexivity.
  - intros H. apply exists_nameb_iff in H. vm_compute in H. discriminate.
  - apply is_ceb_iff. vm_compute. reflexivity.
  - now left.
  - reflexivity.
  - right. now left.
  - reflexivity.
  - intros H. apply has_typeb_iff in H. vm_compute in H. discriminate.
  - intros H. apply has_typeb_iff in H. vm_compute in H. discriminate.
  - intros r' [<-|[<-|[]]] Hw Hp; [vm_compute in Hw; discriminate|reflexivity].
Qed.

(* C08_covered_absent / C08_closest_encloser_from_cover: a.e. is covered by *.e. -> a.a.e.,
   exists (as an empty non-terminal), and indeed lies above the next name; the closest
   encloser of x.0.e. read off the same NSEC is e. *)
Example C08_covered_absent_example :
  prefix nAE nAAE /\ nAE <> nAAE /\ is_ce zEx [[101]; [48]; [120]] nE.
Proof.
  pose proof (C08_covered_absent zEx (Some nE) nAE (mkNsec nSE nAAE [1; 46; 47]) wf_zEx) as H.
  destruct H as [H1 H2].
  - apply genuineb_sound. vm_compute. reflexivity.
  - right. reflexivity.
  - reflexivity.
  - apply exists_nameb_iff. vm_compute. reflexivity.
  - split; [exact H1|]. split; [exact H2|].
    pose proof (C08_closest_encloser_from_cover zEx None [[101]; [48]; [120]]
                  (mkNsec nSE nAAE [1; 46; 47]) wf_zEx) as H.
    destruct H as [H _].
    + apply genuineb_sound. vm_compute. reflexivity.
    + left. reflexivity.
    + reflexivity.
    + exact H.
Qed.

(* the two exact classes are inhabited by the witnesses above (k_deleg, k_closer = true there) *)
